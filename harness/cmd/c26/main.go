// c26: txresult.LogsBloom (AddLog / Merge / Contain / CompressedBytes) vs Model_Bloom.
package main

import (
	"bytes"
	"encoding/hex"
	"encoding/json"
	"fmt"
	"math/rand"
	"sort"
	"strings"

	"golang.org/x/crypto/sha3"

	"github.com/icon-project/goloop/common"
	"github.com/icon-project/goloop/module"
	"github.com/icon-project/goloop/service/txresult"
	"verif/harness/hxlib"
	"verif/harness/hxpack"
)

// ---------- replayable description of a case ----------

type logIn struct {
	Addr    string    `json:"addr_hex"` // 21 bytes: type, id
	Indexed []*string `json:"indexed"`  // hex; null = nil entry
}

type shapeIn struct {
	Leaf    []int    `json:"leaf,omitempty"` // logs accumulated with AddLog into one bloom (a receipt)
	A       *shapeIn `json:"a,omitempty"`    // a.Merge(b)
	B       *shapeIn `json:"b,omitempty"`
	Foreign bool     `json:"foreign,omitempty"` // b is handed over as a foreign module.LogsBloom implementation
}

type itemIn struct {
	Addr *string `json:"addr_hex,omitempty"`
	Pos  int     `json:"pos"`
	V    *string `json:"v_hex,omitempty"`
}

type queryIn struct {
	Items   []itemIn `json:"items"`
	Present bool     `json:"present"` // every item belongs to one log that was added: Contain must be true
	Foreign bool     `json:"foreign,omitempty"`
}

type caseIn struct {
	Logs    []logIn   `json:"logs"`
	Shape   shapeIn   `json:"shape"`
	Shape2  shapeIn   `json:"shape2"` // same multiset of logs (possibly with repetitions), other grouping/order
	Queries []queryIn `json:"queries"`
}

// foreignBloom is another implementation of module.LogsBloom, so that the
// non-*LogsBloom branches of Merge and Contain run.
type foreignBloom struct{ bs []byte }

func (f foreignBloom) String() string                   { return hex.EncodeToString(f.bs) }
func (f foreignBloom) Bytes() []byte                    { return f.bs }
func (f foreignBloom) CompressedBytes() []byte          { return common.Compress(f.bs) }
func (f foreignBloom) LogBytes() []byte                 { return f.bs }
func (f foreignBloom) Contain(lb2 module.LogsBloom) bool { return false }
func (f foreignBloom) Merge(lb2 module.LogsBloom)       {}
func (f foreignBloom) Equal(lb2 module.LogsBloom) bool   { return bytes.Equal(f.bs, lb2.Bytes()) }

func unhex(s string) []byte {
	b, _ := hex.DecodeString(s)
	if b == nil {
		b = []byte{}
	}
	return b
}

func (l logIn) addr() module.Address {
	b := unhex(l.Addr)
	return common.NewAddressWithTypeAndID(b[0] == 1, b[1:])
}

func (l logIn) indexed() [][]byte {
	var r [][]byte
	for _, p := range l.Indexed {
		if p == nil {
			r = append(r, nil)
		} else {
			r = append(r, unhex(*p))
		}
	}
	return r
}

// kept: an object handed to / returned by the code under test and the value it
// had at that moment; it is compared again at the end of the case.
type kept struct {
	obj  *txresult.LogsBloom
	snap []byte
	what string
}

func clone(b []byte) []byte { return append([]byte{}, b...) }

func evalShape(keeps *[]kept, logs []logIn, s *shapeIn) *txresult.LogsBloom {
	if s.A == nil {
		lb := txresult.NewLogsBloom(nil)
		for _, i := range s.Leaf {
			lb.AddLog(logs[i].addr(), logs[i].indexed())
		}
		return lb
	}
	a := evalShape(keeps, logs, s.A)
	b := evalShape(keeps, logs, s.B)
	before := clone(b.LogBytes())
	if s.Foreign {
		a.Merge(foreignBloom{b.Bytes()})
	} else {
		a.Merge(b)
	}
	// the right operand is only read; it must keep its value for good
	*keeps = append(*keeps, kept{b, before, "a bloom that was the argument of an earlier Merge"})
	return a
}

func leafGroups(s *shapeIn, acc *[][]int) {
	if s.A == nil {
		*acc = append(*acc, s.Leaf)
		return
	}
	leafGroups(s.A, acc)
	leafGroups(s.B, acc)
}

// refillFold builds the block bloom the way service/transition.go and the receipt
// decoder do: ONE source object is refilled (SetCompressedBytes / SetBytes /
// SetInt64+SetBytes) with each receipt's bloom in turn and merged into the block bloom.
func refillFold(logs []logIn, groups [][]int, fail func(string, ...interface{})) *txresult.LogsBloom {
	type rb struct{ raw, comp []byte }
	var rs []rb
	for _, g := range groups {
		lb := txresult.NewLogsBloom(nil)
		for _, i := range g {
			lb.AddLog(logs[i].addr(), logs[i].indexed())
		}
		rs = append(rs, rb{clone(lb.Bytes()), clone(lb.CompressedBytes())})
	}
	block := txresult.NewLogsBloom(nil)
	src := txresult.NewLogsBloom(nil)
	for i, r := range rs {
		switch i % 3 {
		case 0:
			src.SetCompressedBytes(r.comp)
		case 1:
			src.SetBytes(r.raw)
		default:
			src.SetInt64(0)
			src.SetBytes(r.raw)
		}
		block.Merge(src)
		if !bytes.Equal(src.Bytes(), r.raw) {
			fail("Merge changed its argument (receipt bloom %d of %d)", i, len(rs))
		}
	}
	return block
}

func leavesOf(s *shapeIn, acc map[int]bool) {
	if s.A == nil {
		for _, i := range s.Leaf {
			acc[i] = true
		}
		return
	}
	leavesOf(s.A, acc)
	leavesOf(s.B, acc)
}

func hasNode(s *shapeIn) bool { return s.A != nil }

func queryBloom(q queryIn) *txresult.LogsBloom {
	lb := txresult.NewLogsBloom(nil)
	for _, it := range q.Items {
		if it.Addr != nil {
			b := unhex(*it.Addr)
			lb.AddAddressOfLog(common.NewAddressWithTypeAndID(b[0] == 1, b[1:]))
		} else {
			lb.AddIndexedOfLog(it.Pos, unhex(*it.V))
		}
	}
	return lb
}

// preimage as the specification has it: 0xff||address bytes, byte(position)||value
func (it itemIn) preimage() []byte {
	if it.Addr != nil {
		return append([]byte{0xff}, unhex(*it.Addr)...)
	}
	return append([]byte{byte(it.Pos)}, unhex(*it.V)...)
}

func itemsOfLog(l logIn) []itemIn {
	if len(l.Indexed) == 0 {
		return nil
	}
	a := l.Addr
	r := []itemIn{{Addr: &a}}
	for i, p := range l.Indexed {
		if p != nil {
			r = append(r, itemIn{Pos: i, V: p})
		}
	}
	return r
}

// ---------- Coq printers ----------

func coqShape(s *shapeIn) string {
	if s.A == nil {
		var xs []string
		for _, i := range s.Leaf {
			xs = append(xs, hxlib.CoqNat(i))
		}
		return "(SLeaf " + hxlib.CoqList(xs) + ")"
	}
	return "(SNode " + coqShape(s.A) + " " + coqShape(s.B) + ")"
}

func coqItem(it itemIn) string {
	if it.Addr != nil {
		return "(QAddr " + hxpack.Bytes(unhex(*it.Addr)) + ")"
	}
	return fmt.Sprintf("(QIdx %d %s)", it.Pos, hxpack.Bytes(unhex(*it.V)))
}

func coqLog(l logIn) string {
	var xs []string
	for _, p := range l.Indexed {
		if p == nil {
			xs = append(xs, "None")
		} else {
			xs = append(xs, "(Some "+hxpack.Bytes(unhex(*p))+")")
		}
	}
	return "(" + hxpack.Bytes(unhex(l.Addr)) + ", " + hxlib.CoqList(xs) + ")"
}

// ---------- run one case: observations + direct oracle ----------

func runCase(in caseIn, wantCoq bool) (coq string, oracle string, nontrivial bool) {
	var root, root2, rt *txresult.LogsBloom
	var comp, compSnap, rootSnap []byte
	var keeps []kept
	if p := hxlib.Catch(func() {
		root = evalShape(&keeps, in.Logs, &in.Shape)
		rootSnap = clone(root.LogBytes())
		root2 = evalShape(&keeps, in.Logs, &in.Shape2)
		comp = root.CompressedBytes()
		compSnap = clone(comp)
		rt = txresult.NewLogsBloomFromCompressed(comp)
	}); p != "" {
		return "", "panic while building blooms: " + p, false
	}
	fail := func(f string, a ...interface{}) {
		if oracle == "" {
			oracle = fmt.Sprintf(f, a...)
		}
	}
	// the same receipts merged from one refilled source object, in the given order and largest first
	var groups [][]int
	leafGroups(&in.Shape, &groups)
	var folds []*txresult.LogsBloom
	if p := hxlib.Catch(func() {
		folds = append(folds, refillFold(in.Logs, groups, fail))
		sorted := append([][]int{}, groups...)
		sort.SliceStable(sorted, func(i, j int) bool { return len(sorted[i]) > len(sorted[j]) })
		folds = append(folds, refillFold(in.Logs, sorted, fail))
	}); p != "" {
		fail("panic while merging refilled receipt blooms: %s", p)
	}
	for _, f := range folds {
		if !bytes.Equal(f.LogBytes(), rootSnap) {
			fail("aliasing: the block bloom merged from one source object refilled per receipt (SetCompressedBytes/SetBytes, then Merge) differs from the merge of independent receipt blooms")
		}
	}
	// merge order / association / grouping independence
	if !bytes.Equal(root.LogBytes(), root2.LogBytes()) || !root.Equal(root2) {
		fail("merge order dependence: two groupings of the same logs give different blooms")
	}
	// compression is transparent
	if !bytes.Equal(rt.LogBytes(), root.LogBytes()) || !rt.Equal(root) {
		fail("bloom changed by CompressedBytes -> NewLogsBloomFromCompressed (%d compressed bytes)", len(comp))
	}
	if len(root.LogBytes()) != txresult.LogsBloomBytes {
		fail("LogBytes has %d bytes", len(root.LogBytes()))
	}
	// no false negatives: every item of every added log, alone, and all items of a log together
	used := map[int]bool{}
	leavesOf(&in.Shape, used)
	var idxs []int
	for i := range used {
		idxs = append(idxs, i)
	}
	sort.Ints(idxs)
	for _, i := range idxs {
		its := itemsOfLog(in.Logs[i])
		for _, it := range its {
			q := queryBloom(queryIn{Items: []itemIn{it}})
			if !root.Contain(q) {
				fail("false negative: item %x of log %d not reported by the merged bloom", it.preimage(), i)
			}
			if !rt.Contain(q) {
				fail("false negative after compression round trip: item %x of log %d", it.preimage(), i)
			}
			for _, f := range folds {
				if !f.Contain(q) {
					fail("false negative: item %x of log %d lost from the block bloom merged from a refilled source object", it.preimage(), i)
				}
			}
		}
		if len(its) > 0 {
			q := queryBloom(queryIn{Items: its})
			if !root.Contain(q) || !rt.Contain(foreignBloom{q.Bytes()}) {
				fail("false negative: filter made of all items of log %d rejected", i)
			}
		}
	}
	// the recorded queries
	type qobs struct{ c1, c2 bool }
	obs := make([]qobs, len(in.Queries))
	for k, q := range in.Queries {
		qb := queryBloom(q)
		var arg module.LogsBloom = qb
		if q.Foreign {
			arg = foreignBloom{qb.Bytes()}
		}
		obs[k] = qobs{root.Contain(arg), rt.Contain(arg)}
		if q.Present && !(obs[k].c1 && obs[k].c2) {
			fail("false negative: query %d made of items of an added log is rejected (merged=%v, decompressed=%v)", k, obs[k].c1, obs[k].c2)
		}
	}
	// keep and re-check: nothing that was returned or only read may have changed since
	for _, k := range keeps {
		if !bytes.Equal(k.obj.LogBytes(), k.snap) {
			fail("aliasing: %s changed afterwards", k.what)
		}
	}
	if !bytes.Equal(root.LogBytes(), rootSnap) {
		fail("aliasing: the merged bloom changed after later operations on other blooms")
	}
	if !bytes.Equal(comp, compSnap) {
		fail("aliasing: the bytes returned by CompressedBytes changed after later calls")
	}
	// non-trivial: at least two logs that add something, and at least one Merge
	adding := 0
	for _, i := range idxs {
		if len(in.Logs[i].Indexed) > 0 {
			adding++
		}
	}
	nontrivial = adding >= 2 && hasNode(&in.Shape)
	if !wantCoq {
		return "", oracle, nontrivial
	}
	// hash table: every preimage the model may ask for
	seen := map[string]bool{}
	var tbl []string
	addPre := func(p []byte) {
		if seen[string(p)] {
			return
		}
		seen[string(p)] = true
		d := sha3.Sum256(p)
		tbl = append(tbl, "("+hxpack.Bytes(p)+", "+hxpack.Bytes(d[:])+")")
	}
	for _, l := range in.Logs {
		for _, it := range itemsOfLog(l) {
			addPre(it.preimage())
		}
	}
	for _, q := range in.Queries {
		for _, it := range q.Items {
			addPre(it.preimage())
		}
	}
	var logs, qs []string
	for _, l := range in.Logs {
		logs = append(logs, coqLog(l))
	}
	for k, q := range in.Queries {
		var its []string
		for _, it := range q.Items {
			its = append(its, coqItem(it))
		}
		qs = append(qs, fmt.Sprintf("(%s, %s, %s)", hxlib.CoqList(its), hxlib.CoqBool(obs[k].c1), hxlib.CoqBool(obs[k].c2)))
	}
	rtTerm := "None"
	if !bytes.Equal(rt.LogBytes(), root.LogBytes()) {
		rtTerm = "(Some " + hxpack.Bytes(rt.LogBytes()) + ")"
	}
	coq = fmt.Sprintf("(CBloom %s %s %s %s %s %s %s)", hxlib.CoqList(tbl), hxlib.CoqList(logs), coqShape(&in.Shape),
		hxpack.Bytes(root.LogBytes()), hxpack.Bytes(root.Bytes()), rtTerm, hxlib.CoqList(qs))
	return coq, oracle, nontrivial
}

// ---------- generators ----------

func hx(b []byte) *string { s := hex.EncodeToString(b); return &s }

// lengths around the hash size and its double, and long str/bytes arguments
var valueLens = []int{0, 1, 31, 32, 33, 63, 64, 65, 100, 300}

func randValue(r *rand.Rand, pool [][]byte) []byte {
	switch r.Intn(8) {
	case 6, 7:
		b := make([]byte, valueLens[r.Intn(len(valueLens))])
		r.Read(b)
		return b
	case 0: // a value shared between logs
		return pool[r.Intn(len(pool))]
	case 1:
		return []byte{}
	case 2: // an integer-like short value
		b := make([]byte, 1+r.Intn(3))
		r.Read(b)
		return b
	case 3: // an address-like value (21 bytes)
		b := make([]byte, 21)
		r.Read(b[1:])
		b[0] = byte(r.Intn(2))
		return b
	default:
		b := make([]byte, r.Intn(40))
		r.Read(b)
		return b
	}
}

func randAddr(r *rand.Rand, pool [][]byte) []byte {
	if r.Intn(3) == 0 {
		return pool[r.Intn(len(pool))]
	}
	b := make([]byte, 21)
	b[0] = byte(r.Intn(2))
	switch r.Intn(3) {
	case 0:
		r.Read(b[1:])
	case 1:
		b[1+r.Intn(20)] = byte(r.Intn(256))
	default:
		r.Read(b[11:])
	}
	return b
}

// a random merge expression over the given multiset of log indices
func randShape(r *rand.Rand, idx []int) shapeIn {
	if len(idx) <= 1 || r.Intn(4) == 0 && len(idx) <= 3 {
		return shapeIn{Leaf: append([]int{}, idx...)}
	}
	k := 1 + r.Intn(len(idx)-1)
	a := randShape(r, idx[:k])
	b := randShape(r, idx[k:])
	return shapeIn{A: &a, B: &b, Foreign: r.Intn(5) == 0}
}

// the way service/transition.go does it: zero bloom, then Merge each receipt bloom in order
func foldShape(r *rand.Rand, idx []int) shapeIn {
	cur := shapeIn{Leaf: []int{}}
	for len(idx) > 0 {
		k := 1 + r.Intn(2)
		if k > len(idx) {
			k = len(idx)
		}
		leaf := shapeIn{Leaf: append([]int{}, idx[:k]...)}
		idx = idx[k:]
		prev := cur
		cur = shapeIn{A: &prev, B: &leaf}
	}
	return cur
}

func genCase(r *rand.Rand) caseIn {
	var in caseIn
	sigs := [][]byte{[]byte("Transfer(Address,Address,int)"), []byte("Approval(Address,Address,int)"), []byte("ICXIssued(int,int,int,int)"), []byte("E()"),
		[]byte("TransferBatch(Address,Address,Address,bytes,bytes,int,int,int,str)"),                                  // 66 characters
		[]byte("Sixty4(Address,Address,Address,Address,Address,int,int,int,int)X"),                                   // 64
		[]byte("ProposalRegistered(bytes,Address,Address,Address,Address,str,str,str,int,int,int,int,int,bool,bool)")} // 99
	apool := make([][]byte, 3)
	for i := range apool {
		apool[i] = make([]byte, 21)
		r.Read(apool[i][1:])
		apool[i][0] = byte(r.Intn(2))
	}
	vpool := [][]byte{{0x01}, {0x00}, apool[0], []byte("x")}
	n := 1 + r.Intn(6)
	for i := 0; i < n; i++ {
		l := logIn{Addr: hex.EncodeToString(randAddr(r, apool))}
		k := r.Intn(4) // 0..3 indexed values besides the signature
		if r.Intn(12) == 0 {
			// a log without any indexed value: AddLog adds nothing (cannot come out of the SCORE path)
			in.Logs = append(in.Logs, l)
			continue
		}
		l.Indexed = append(l.Indexed, hx(sigs[r.Intn(len(sigs))]))
		for j := 0; j < k; j++ {
			if r.Intn(8) == 0 {
				l.Indexed = append(l.Indexed, nil)
			} else {
				l.Indexed = append(l.Indexed, hx(randValue(r, vpool)))
			}
		}
		in.Logs = append(in.Logs, l)
	}
	idx := r.Perm(n)
	if r.Intn(4) == 0 { // a log merged twice
		idx = append(idx, r.Intn(n))
	}
	if r.Intn(3) == 0 {
		in.Shape = foldShape(r, idx)
	} else {
		in.Shape = randShape(r, idx)
	}
	idx2 := append([]int{}, idx...)
	r.Shuffle(len(idx2), func(i, j int) { idx2[i], idx2[j] = idx2[j], idx2[i] })
	if r.Intn(2) == 0 {
		idx2 = append(idx2, idx2[r.Intn(len(idx2))]) // idempotence
	}
	in.Shape2 = randShape(r, idx2)

	// queries: present single items, present multi-item filters, absent items
	used := map[int]bool{}
	leavesOf(&in.Shape, used)
	for i := 0; i < n; i++ {
		if !used[i] {
			continue
		}
		its := itemsOfLog(in.Logs[i])
		for _, it := range its {
			if r.Intn(2) == 0 {
				in.Queries = append(in.Queries, queryIn{Items: []itemIn{it}, Present: true, Foreign: r.Intn(4) == 0})
			}
		}
		if len(its) > 1 && r.Intn(2) == 0 {
			var sub []itemIn
			for _, it := range its {
				if r.Intn(3) > 0 {
					sub = append(sub, it)
				}
			}
			if len(sub) > 0 {
				in.Queries = append(in.Queries, queryIn{Items: sub, Present: true})
			}
		}
	}
	nabs := 2 + r.Intn(4)
	for j := 0; j < nabs; j++ {
		var it itemIn
		switch r.Intn(4) {
		case 0:
			it = itemIn{Addr: hx(randAddr(r, apool))}
		case 1: // a present value at another position
			l := in.Logs[r.Intn(n)]
			if len(l.Indexed) > 0 && l.Indexed[0] != nil {
				it = itemIn{Pos: 1 + r.Intn(3), V: l.Indexed[0]}
			} else {
				it = itemIn{Pos: r.Intn(4), V: hx(randValue(r, vpool))}
			}
		case 2: // an address used as a value at position 255 (same leading byte as the address item)
			it = itemIn{Pos: 255, V: hx(randAddr(r, apool))}
		default:
			it = itemIn{Pos: r.Intn(4), V: hx(randValue(r, vpool))}
		}
		q := queryIn{Items: []itemIn{it}, Foreign: r.Intn(4) == 0}
		if r.Intn(3) == 0 { // mixed filter: a present item and an unrelated one
			for i := 0; i < n; i++ {
				if its := itemsOfLog(in.Logs[i]); used[i] && len(its) > 0 {
					q.Items = append(q.Items, its[r.Intn(len(its))])
					break
				}
			}
		}
		in.Queries = append(in.Queries, q)
	}
	return in
}

// a dense case: many logs so that absent items start to collide with set bits
func genDense(r *rand.Rand, lo, span int) caseIn {
	var in caseIn
	n := lo + r.Intn(span)
	var idx []int
	for i := 0; i < n; i++ {
		a := make([]byte, 21)
		r.Read(a[1:])
		a[0] = 1
		l := logIn{Addr: hex.EncodeToString(a)}
		for j := 0; j < 4; j++ {
			v := make([]byte, 1+r.Intn(8))
			r.Read(v)
			l.Indexed = append(l.Indexed, hx(v))
		}
		in.Logs = append(in.Logs, l)
		idx = append(idx, i)
	}
	in.Shape = foldShape(r, idx)
	in.Shape2 = randShape(r, idx)
	for j := 0; j < 30; j++ {
		v := make([]byte, 1+r.Intn(3))
		r.Read(v)
		in.Queries = append(in.Queries, queryIn{Items: []itemIn{{Pos: r.Intn(4), V: hx(v)}}})
	}
	its := itemsOfLog(in.Logs[r.Intn(n)])
	in.Queries = append(in.Queries, queryIn{Items: its, Present: true})
	return in
}

func gen(c *hxlib.Ctx) {
	r := c.Rand
	emit := func(kind string, in caseIn) {
		coq, msg, nt := runCase(in, !c.OracleOnly)
		key := ""
		if c.OracleOnly {
			b, _ := json.Marshal(in)
			key = string(b)
		}
		c.Emit(hxlib.Case{Kind: kind, Coq: coq, Key: key, Input: in, Nontrivial: nt, OracleErr: msg})
	}
	// the empty bloom
	emit("empty", caseIn{Logs: []logIn{{Addr: hex.EncodeToString(make([]byte, 21))}}, Shape: shapeIn{Leaf: []int{}}, Shape2: shapeIn{Leaf: []int{0}},
		Queries: []queryIn{{Items: []itemIn{}, Present: true}, {Items: []itemIn{{Pos: 0, V: hx([]byte("E()"))}}}}})
	// every value length around the hash size (32) and its double (64), and long ones, at every
	// position, under a long signature: two logs merged, each item queried on its own
	for k := 0; k < c.N(2); k++ {
		var in caseIn
		for l := 0; l < 2; l++ {
			a := make([]byte, 21)
			r.Read(a[1:])
			a[0] = 1
			sig := make([]byte, []int{65, 66, 99, 130}[r.Intn(4)])
			for i := range sig {
				sig[i] = byte('a' + r.Intn(26))
			}
			lg := logIn{Addr: hex.EncodeToString(a), Indexed: []*string{hx(sig)}}
			for _, n := range r.Perm(len(valueLens)) {
				v := make([]byte, valueLens[n])
				r.Read(v)
				lg.Indexed = append(lg.Indexed, hx(v))
			}
			in.Logs = append(in.Logs, lg)
		}
		a, b := shapeIn{Leaf: []int{0}}, shapeIn{Leaf: []int{1}}
		in.Shape = shapeIn{A: &a, B: &b}
		in.Shape2 = shapeIn{Leaf: []int{1, 0}}
		for l := 0; l < 2; l++ {
			for _, it := range itemsOfLog(in.Logs[l]) {
				in.Queries = append(in.Queries, queryIn{Items: []itemIn{it}, Present: true})
			}
		}
		emit("lengths", in)
	}
	// the heavy kinds are spread over the shards
	nDense, nMedium := c.N(12), c.N(30)
	for i := 0; i < c.N(500); i++ {
		in := genCase(r)
		kind := fmt.Sprintf("logs-%d", len(in.Logs))
		emit(kind, in)
		if i%40 == 39 && nDense > 0 {
			nDense--
			emit("dense", genDense(r, 40, 60))
		}
		if i%16 == 7 && nMedium > 0 {
			nMedium--
			emit("medium", genDense(r, 8, 16))
		}
	}
	for ; nDense > 0; nDense-- {
		emit("dense", genDense(r, 40, 60))
	}
	for ; nMedium > 0; nMedium-- {
		emit("medium", genDense(r, 8, 16))
	}
	// canary: a present item observed as absent — the model must disagree
	{
		a := hex.EncodeToString(append([]byte{1}, bytes.Repeat([]byte{7}, 20)...))
		in := caseIn{Logs: []logIn{{Addr: a, Indexed: []*string{hx([]byte("E()")), hx([]byte{1})}}},
			Shape: shapeIn{Leaf: []int{0}}, Shape2: shapeIn{Leaf: []int{0}},
			Queries: []queryIn{{Items: []itemIn{{Pos: 1, V: hx([]byte{1})}}, Present: true}}}
		coq, _, _ := runCase(in, true)
		bad := strings.Replace(coq, ", true, true)", ", false, true)", 1)
		c.Emit(hxlib.Case{Kind: "canary", Canary: true, Coq: bad})
	}
}

func replay(raw json.RawMessage) string {
	var in caseIn
	if err := json.Unmarshal(raw, &in); err != nil {
		return "bad replay input: " + err.Error()
	}
	_, msg, _ := runCase(in, false)
	return msg
}

func main() {
	hxlib.Main(hxlib.Spec{
		ID: "C26",
		Rule: "random sets of 1-6 event logs (shared/sparse/random addresses; signature (up to 99 characters) + 0-3 indexed values of lengths 0..300 incl. 31/32/33/63/64/65, some nil, some shared between logs; a fixed-shape case with every such length at every position; occasionally a log without indexed values) plus medium (8-23 logs) and dense (40-100 logs) sets probed with 30 absent items each; " +
			"logs are accumulated with AddLog into receipt blooms and merged with Merge in a random tree shape (or the left fold of service/transition.go), some operands handed over as a foreign module.LogsBloom; " +
			"a second random grouping/order (with repetitions) of the same logs must give the same bloom; the same receipts merged from ONE source object refilled per receipt (SetCompressedBytes / SetBytes / SetInt64, as transition.go and the receipt decoder do) must give it too; keep and re-check: Merge arguments, the merged bloom and the CompressedBytes slice are compared at the end of the case with copies taken when they were returned; the bloom is sent through CompressedBytes -> NewLogsBloomFromCompressed; " +
			"queries: single items and multi-item filters of added logs (must be contained), absent items, present values at other positions, position 255; " +
			"observed: LogBytes, Bytes, LogBytes after the compression round trip, Contain before and after; non-trivial = at least two logs that add items and at least one Merge; distinct = distinct Coq case term",
		Shard:    50,
		Preamble: "From Coq Require Import Uint63.\nFrom GoloopRun Require Import Run_Pack63 Run_C26.",
		Gen:   gen, Replay: replay,
	})
}
