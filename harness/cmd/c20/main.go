// c20: state sync (merkle.Builder + ompt Resolve + sync2.syncProcessor) rebuilds exactly the
// trusted state and stores nothing else.
//
// A run builds a real source state (ompt tries via trie_manager; values inlined, >= 32 bytes,
// references to BytesByHash data, nested tries; shared sub-DAGs; two versions), opens an empty
// (or partly filled) target, and plays the network: outstanding requests are answered from the
// source in random order with duplicates, interleaved with forged payloads (random bytes,
// mutated real nodes, nodes of another trie), genuine-but-unrequested nodes and deliveries
// under a bucket without hasher.  Every call is observed (result class, UnresolvedCount,
// ResolvedCount, keys that became readable, Requests(), exact content of the target DB) and
// printed for Run_C20; the direct oracle (this file, independent of the Coq model) checks the
// property statement itself.
package main

import (
	"bytes"
	"encoding/json"
	"fmt"
	"math/rand"
	"os"
	"reflect"
	"sort"
	"strings"

	"github.com/icon-project/goloop/common/db"
	"github.com/icon-project/goloop/common/merkle"
	"github.com/icon-project/goloop/common/trie"
	"github.com/icon-project/goloop/common/trie/trie_manager"
	"github.com/icon-project/goloop/service/sync2"
	"golang.org/x/crypto/sha3"
	"verif/harness/hxlib"
)

func sha(b []byte) []byte { h := sha3.Sum256(b); return h[:] }

// ---------------------------------------------------------------------------
// a database that remembers exactly what it holds (the target / the source)
// ---------------------------------------------------------------------------

type recDB struct {
	real   db.Database
	bks    map[db.BucketID]*recBucket
	writes int // Set/Delete calls that came through the db.Bucket interface
	failAt int // > 0: the Set number failAt (and every later one) fails — an interrupted Flush

	attempts int          // Set calls so far, failed ones included
	failSet  map[int]bool // Set calls (by ordinal) that fail ONCE: a transient write error
	faults   int          // transient failures that have fired
}

type recBucket struct {
	d       *recDB
	real    db.Bucket
	content map[string][]byte
}

func newRecDB() *recDB { return &recDB{real: db.NewMapDB(), bks: map[db.BucketID]*recBucket{}} }

func (d *recDB) GetBucket(id db.BucketID) (db.Bucket, error) {
	if b, ok := d.bks[id]; ok {
		return b, nil
	}
	r, err := d.real.GetBucket(id)
	if err != nil {
		return nil, err
	}
	b := &recBucket{d: d, real: r, content: map[string][]byte{}}
	d.bks[id] = b
	return b, nil
}
func (d *recDB) Close() error { return nil }
func (d *recDB) bucket(id db.BucketID) *recBucket {
	b, _ := d.GetBucket(id)
	return b.(*recBucket)
}
func (b *recBucket) Get(k []byte) ([]byte, error) { return b.real.Get(k) }
func (b *recBucket) Has(k []byte) (bool, error)   { return b.real.Has(k) }
func (b *recBucket) Set(k, v []byte) error {
	b.d.attempts++
	if b.d.failSet[b.d.attempts] {
		delete(b.d.failSet, b.d.attempts)
		b.d.faults++
		return fmt.Errorf("c20: simulated transient write failure")
	}
	if b.d.failAt > 0 && b.d.writes+1 >= b.d.failAt {
		return fmt.Errorf("c20: simulated write failure")
	}
	b.d.writes++
	b.content[string(k)] = append([]byte{}, v...)
	return b.real.Set(k, v)
}
func (b *recBucket) Delete(k []byte) error {
	b.d.writes++
	delete(b.content, string(k))
	return b.real.Delete(k)
}
func (b *recBucket) preload(k, v []byte) {
	b.content[string(k)] = append([]byte{}, v...)
	_ = b.real.Set(k, v)
}

var bucketIDs = []db.BucketID{db.MerkleTrie, db.BytesByHash}

func bkIndex(id db.BucketID) int {
	if id == db.BytesByHash {
		return 1
	}
	return 0
}

// ---------------------------------------------------------------------------
// the value object of the harness tries (mirrors service/state: contract.Resolve for
// data by hash, accountSnapshotImpl.Resolve for a nested trie)
// ---------------------------------------------------------------------------

const (
	kSmall  = 0 // raw bytes, short: the leaf is usually embedded in its parent
	kBig    = 1 // raw bytes, >= 32
	kData   = 2 // [2] ++ sha3(data): data lives in bucket BytesByHash
	kNested = 3 // [3] ++ root: a nested trie of the same kind
)

// transient failures of a value object's Resolve (a requester that returns an error, as a
// store read error inside contract.Resolve would): seeded ordinals of the kData Resolve calls
// of the current run fail once
type objFaults struct {
	calls      int
	failAt     map[int]bool
	fired      int
	inDelivery int // kData Resolve calls inside the current OnData
	firedAfter int // ... that had succeeded when the failure fired
}

var curObjFaults *objFaults

type c20Obj struct {
	raw   []byte
	dbase db.Database
	data  []byte
	dirty bool
}

var objType = reflect.TypeOf((*c20Obj)(nil))

func (o *c20Obj) Bytes() []byte { return o.raw }
func (o *c20Obj) Reset(s db.Database, k []byte) error {
	o.dbase = s
	o.raw = append([]byte{}, k...)
	return nil
}
func (o *c20Obj) Flush() error {
	if o.dirty && len(o.raw) == 33 && o.raw[0] == kData {
		bk, err := o.dbase.GetBucket(db.BytesByHash)
		if err != nil {
			return err
		}
		if err := bk.Set(o.raw[1:], o.data); err != nil {
			return err
		}
		o.dirty = false
	}
	return nil
}
func (o *c20Obj) Equal(n trie.Object) bool {
	o2, ok := n.(*c20Obj)
	return ok && o2 != nil && bytes.Equal(o.raw, o2.raw)
}
func (o *c20Obj) Resolve(b merkle.Builder) error {
	if len(o.raw) != 33 {
		return nil
	}
	switch o.raw[0] {
	case kData:
		if f := curObjFaults; f != nil {
			f.calls++
			f.inDelivery++
			if f.failAt[f.calls] {
				delete(f.failAt, f.calls)
				f.fired++
				f.firedAfter = f.inDelivery - 1
				return fmt.Errorf("c20: simulated transient read failure in Resolve")
			}
		}
		bk, err := o.dbase.GetBucket(db.BytesByHash)
		if err != nil {
			return err
		}
		v, err := bk.Get(o.raw[1:])
		if err != nil {
			return err
		}
		if v == nil {
			b.RequestData(db.BytesByHash, o.raw[1:], o)
		} else {
			o.data = v
		}
	case kNested:
		trie_manager.NewImmutableForObject(o.dbase, o.raw[1:], objType).Resolve(b)
	}
	return nil
}
func (o *c20Obj) OnData(bs []byte, b merkle.Builder) error { o.data = bs; return nil }
func (o *c20Obj) ClearCache()                              {}

// AddRequest-style requester (sync2 onDataHandler)
type plainRequester struct{}

func (plainRequester) OnData([]byte, merkle.Builder) error { return nil }

// ---------------------------------------------------------------------------
// the harness' own reading of node bytes: which references does a requester follow?
// (independent re-implementation of ompt deserialize + resolve; RLP by hand)
// ---------------------------------------------------------------------------

func rlpHeader(b []byte) (isList bool, tag, size int, ok bool) {
	if len(b) == 0 {
		return false, 0, 0, false
	}
	c := int(b[0])
	long := func(n int) (int, bool) {
		if len(b) < 1+n || n > 4 {
			return 0, false
		}
		s := 0
		for _, x := range b[1 : 1+n] {
			s = s<<8 | int(x)
		}
		return s, s >= 56 && b[1] != 0
	}
	switch {
	case c < 0x80:
		tag, size, ok = 0, 1, true
	case c < 0xB8:
		tag, size, ok = 1, c-0x80, true
		if size == 1 && len(b) > 1 && b[1] < 128 {
			ok = false
		}
	case c < 0xC0:
		size, ok = long(c - 0xB7)
		tag = c - 0xB7 + 1
	case c < 0xF8:
		isList, tag, size, ok = true, 1, c-0xC0, true
	default:
		isList = true
		size, ok = long(c - 0xF7)
		tag = c - 0xF7 + 1
	}
	if ok && size > len(b)-tag {
		ok = false
	}
	return
}

func rlpItems(b []byte) ([][]byte, bool) {
	isList, tag, size, ok := rlpHeader(b)
	if !ok || !isList {
		return nil, false
	}
	b = b[tag : tag+size]
	var items [][]byte
	for len(b) > 0 {
		_, t, s, ok := rlpHeader(b)
		if !ok {
			return nil, false
		}
		items = append(items, b[:t+s])
		b = b[t+s:]
	}
	return items, true
}

func rlpString(b []byte) ([]byte, bool) {
	isList, tag, size, ok := rlpHeader(b)
	if !ok || isList {
		return nil, false
	}
	return b[tag : tag+size], true
}

type rawRef struct {
	bk   int
	hash []byte
}

// references of a value object
func valueRefs(v []byte, objMode bool) []rawRef {
	if !objMode || len(v) != 33 {
		return nil
	}
	switch v[0] {
	case kData:
		return []rawRef{{1, v[1:]}}
	case kNested:
		return []rawRef{{0, v[1:]}}
	}
	return nil
}

// link of a branch slot / extension: a hash node is followed, an embedded node is not
func linkRef(item []byte) ([]rawRef, bool) {
	if len(item) == 0 {
		return nil, false
	}
	if item[0] >= 0xC0 {
		if _, ok := rlpItems(item); !ok {
			return nil, false
		}
		return nil, true
	}
	v, ok := rlpString(item)
	if !ok {
		return nil, false
	}
	if len(v) == 0 {
		return nil, true
	}
	return []rawRef{{0, v}}, true
}

// nodeRefs lists, in the order of branch.resolve / extension.resolve / leaf.resolve, the
// references a nodeRequester follows for these bytes; nil if the bytes are not a node.
func nodeRefs(b []byte, objMode bool) []rawRef {
	items, ok := rlpItems(b)
	if !ok {
		return nil
	}
	var out []rawRef
	switch len(items) {
	case 2:
		kh, ok := rlpString(items[0])
		if !ok || len(kh) == 0 {
			return nil
		}
		if kh[0]&0x20 == 0 {
			r, ok := linkRef(items[1])
			if !ok {
				return nil
			}
			return r
		}
		v, ok := rlpString(items[1])
		if !ok {
			return nil
		}
		return valueRefs(v, objMode)
	case 17:
		for i := 0; i < 16; i++ {
			r, ok := linkRef(items[i])
			if !ok {
				return nil
			}
			out = append(out, r...)
		}
		v, ok := rlpString(items[16])
		if !ok {
			return nil
		}
		if len(v) > 0 {
			out = append(out, valueRefs(v, objMode)...)
		}
		return out
	}
	return nil
}

// ---------------------------------------------------------------------------
// interning: payload numbers, hash numbers, the tables given to the model
// ---------------------------------------------------------------------------

type ref struct{ bk, hid int }

type world struct {
	objMode bool
	pidx    map[string]int
	pbytes  [][]byte
	phid    []int
	pkids   [][]ref
	hidx    map[string]int
	hbytes  [][]byte
}

func newWorld(objMode bool) *world {
	return &world{objMode: objMode, pidx: map[string]int{}, hidx: map[string]int{}}
}

func (w *world) hid(h []byte) int {
	if i, ok := w.hidx[string(h)]; ok {
		return i
	}
	i := len(w.hbytes)
	w.hidx[string(h)] = i
	w.hbytes = append(w.hbytes, append([]byte{}, h...))
	return i
}

func (w *world) pid(b []byte) int {
	if i, ok := w.pidx[string(b)]; ok {
		return i
	}
	i := len(w.pbytes)
	w.pidx[string(b)] = i
	w.pbytes = append(w.pbytes, append([]byte{}, b...))
	w.phid = append(w.phid, w.hid(sha(b)))
	var kids []ref
	for _, r := range nodeRefs(b, w.objMode) {
		kids = append(kids, ref{r.bk, w.hid(r.hash)})
	}
	w.pkids = append(w.pkids, kids)
	return i
}

// references followed by a requester of bucket bk for payload p
func (w *world) kids(bk, p int) []ref {
	if bk != 0 {
		return nil
	}
	return w.pkids[p]
}

// ---------------------------------------------------------------------------
// the source state
// ---------------------------------------------------------------------------

type srcTrie struct {
	root []byte
	kv   map[string][]byte // key -> value bytes as stored in the trie
	raw  bool              // a plain bytes trie (NewMutable/NewImmutable) inside an object-mode state
}

// genBytesTrie builds a plain bytes trie in the source of an object-mode run: a root of
// ANOTHER trie kind on the same builder.  Its values never look like object references
// (first byte >= 4), so the reference table of the run stays independent of the trie kind.
func (s *source) genBytesTrie(r *rand.Rand, n int) *srcTrie {
	t := &srcTrie{kv: map[string][]byte{}, raw: true}
	m := trie_manager.NewMutable(s.d, nil)
	for i := 0; i < n; i++ {
		k := genKey(r)
		v := randBytes(r, 1+r.Intn(60))
		v[0] = byte(4 + r.Intn(252))
		if _, err := m.Set(k, v); err != nil {
			panic(err)
		}
		t.kv[string(k)] = v
	}
	ss := m.GetSnapshot()
	if err := ss.Flush(); err != nil {
		panic(err)
	}
	t.root = append([]byte{}, ss.Hash()...)
	s.tries[string(t.root)] = t
	return t
}

type source struct {
	objMode bool
	d       *recDB
	tries   map[string]*srcTrie // by root
	datas   map[string][]byte   // BytesByHash content by hash
}

func genKey(r *rand.Rand) []byte {
	n := 1 + r.Intn(4)
	b := make([]byte, n)
	for i := range b {
		switch r.Intn(5) {
		case 0:
			b[i] = 0x00
		case 1:
			b[i] = 0x01
		case 2:
			b[i] = 0x10
		default:
			b[i] = byte(r.Intn(256))
		}
	}
	return b
}

func randBytes(r *rand.Rand, n int) []byte {
	b := make([]byte, n)
	r.Read(b)
	return b
}

// a fresh value; depth limits nesting
func (s *source) genValue(r *rand.Rand, depth int, pool *valuePool) (raw []byte, obj *c20Obj) {
	if !s.objMode {
		switch r.Intn(3) {
		case 0:
			return randBytes(r, 1+r.Intn(8)), nil
		case 1:
			return randBytes(r, 32+r.Intn(50)), nil
		default:
			return randBytes(r, 9+r.Intn(30)), nil
		}
	}
	x := r.Intn(100)
	switch {
	case x < 35:
		raw = append([]byte{kSmall}, randBytes(r, r.Intn(8))...)
		return raw, &c20Obj{raw: raw, dbase: s.d}
	case x < 60:
		raw = append([]byte{kBig}, randBytes(r, 31+r.Intn(50))...)
		return raw, &c20Obj{raw: raw, dbase: s.d}
	case x < 85 || depth >= 2:
		var data []byte
		if len(pool.datas) > 0 && r.Intn(4) == 0 {
			data = pool.datas[r.Intn(len(pool.datas))] // shared data
		} else if len(pool.nodes) > 0 && r.Intn(12) == 0 {
			data = pool.nodes[r.Intn(len(pool.nodes))] // data that is, byte for byte, a trie node
		} else {
			data = randBytes(r, 1+r.Intn(90))
		}
		pool.datas = append(pool.datas, data)
		s.datas[string(sha(data))] = data
		raw = append([]byte{kData}, sha(data)...)
		return raw, &c20Obj{raw: raw, dbase: s.d, data: data, dirty: true}
	default:
		var root []byte
		if len(pool.roots) > 0 && r.Intn(3) == 0 {
			root = pool.roots[r.Intn(len(pool.roots))] // shared nested trie
		} else {
			t := s.genTrie(r, depth+1, 1+r.Intn(10), pool, nil)
			root = t.root
			pool.roots = append(pool.roots, root)
		}
		raw = append([]byte{kNested}, root...)
		return raw, &c20Obj{raw: raw, dbase: s.d}
	}
}

type valuePool struct {
	datas [][]byte
	roots [][]byte
	nodes [][]byte
}

// genTrie builds (or, with base != nil, derives a new version of) a trie in the source DB
func (s *source) genTrie(r *rand.Rand, depth, n int, pool *valuePool, base *srcTrie) *srcTrie {
	t := &srcTrie{kv: map[string][]byte{}}
	var baseRoot []byte
	if base != nil {
		baseRoot = base.root
		for k, v := range base.kv {
			t.kv[k] = v
		}
	}
	if s.objMode {
		m := trie_manager.NewMutableForObject(s.d, baseRoot, objType)
		if base != nil {
			keys := sortedKeys(base.kv)
			for _, k := range keys {
				if r.Intn(10) == 0 {
					if _, err := m.Delete([]byte(k)); err != nil {
						panic(err)
					}
					delete(t.kv, k)
				}
			}
		}
		for i := 0; i < n; i++ {
			k := genKey(r)
			if base != nil && len(t.kv) > 0 && r.Intn(2) == 0 {
				ks := sortedKeys(t.kv)
				k = []byte(ks[r.Intn(len(ks))]) // overwrite an existing key
			}
			raw, obj := s.genValue(r, depth, pool)
			if _, err := m.Set(k, obj); err != nil {
				panic(err)
			}
			t.kv[string(k)] = raw
		}
		ss := m.GetSnapshot()
		if err := ss.Flush(); err != nil {
			panic(err)
		}
		t.root = append([]byte{}, ss.Hash()...)
	} else {
		m := trie_manager.NewMutable(s.d, baseRoot)
		if base != nil {
			for _, k := range sortedKeys(base.kv) {
				if r.Intn(10) == 0 {
					if _, err := m.Delete([]byte(k)); err != nil {
						panic(err)
					}
					delete(t.kv, k)
				}
			}
		}
		for i := 0; i < n; i++ {
			k := genKey(r)
			if base != nil && len(t.kv) > 0 && r.Intn(2) == 0 {
				ks := sortedKeys(t.kv)
				k = []byte(ks[r.Intn(len(ks))])
			}
			raw, _ := s.genValue(r, depth, pool)
			if _, err := m.Set(k, raw); err != nil {
				panic(err)
			}
			t.kv[string(k)] = raw
		}
		ss := m.GetSnapshot()
		if err := ss.Flush(); err != nil {
			panic(err)
		}
		t.root = append([]byte{}, ss.Hash()...)
	}
	s.tries[string(t.root)] = t
	// node bytes written so far can be reused as BytesByHash data of later values
	for _, v := range s.d.bucket(db.MerkleTrie).content {
		if len(pool.nodes) < 40 {
			pool.nodes = append(pool.nodes, v)
		}
	}
	sort.Slice(pool.nodes, func(i, j int) bool { return bytes.Compare(pool.nodes[i], pool.nodes[j]) < 0 })
	return t
}

func sortedKeys(m map[string][]byte) []string {
	ks := make([]string, 0, len(m))
	for k := range m {
		ks = append(ks, k)
	}
	sort.Strings(ks)
	return ks
}

func (s *source) get(bk int, h []byte) []byte {
	return s.d.bucket(bucketIDs[bk]).content[string(h)]
}

// ---------------------------------------------------------------------------
// one run
// ---------------------------------------------------------------------------

type runInput struct {
	Seed int64  `json:"seed"`
	Desc string `json:"desc,omitempty"`
}

type runStats struct {
	accepted, ignoredForged, ignoredGenuine, dups, noHasher, multiReq, sweeps, deliveries, faults int
	completed                                                                                     bool
}

type runner struct {
	r   *rand.Rand
	w   *world
	src *source

	objMode, raw, spMode bool
	flushFault           bool         // the first Flush(true) meets one transient write error and is repeated
	rawRoots             map[int]bool // hash ids of roots that are plain bytes tries
	partial              map[int]bool // hashes whose delivery failed half-way (stored in some bucket, still outstanding)
	startAfterFail       func()       // a root of another trie kind, to be started right after the next failed delivery

	target  *recDB
	builder merkle.Builder
	sp      *sync2.VerifSyncProcessor
	view    [2]db.Bucket

	roots     []ref        // started so far
	closure   map[ref]int  // src closure of the started roots -> payload
	preload   map[ref]int  // content of the target before the sync
	present   map[ref]int  // what the harness knows to be readable through builder.Database()
	requested map[ref]bool // every (bucket, hash) ever seen in Requests()
	missing   int          // closure members not present
	flushed   bool
	delivered map[int]bool // payloads handed to the builder so far
	accepted  []int        // payloads that were accepted (for duplicates)

	ops   []int // the observation stream for Run_C20 (see dec)
	pre   []int // the preloaded content, packed as in a sweep
	fail  string
	step  int
	st    runStats
	noCoq bool
}

func (rn *runner) failf(f string, a ...interface{}) {
	if rn.fail == "" {
		rn.fail = fmt.Sprintf("step %d: ", rn.step) + fmt.Sprintf(f, a...)
	}
}

func (rn *runner) emit(v ...int) {
	if !rn.noCoq {
		rn.ops = append(rn.ops, v...)
	}
}

// opcodes of the stream (Run_C20.p_ops)
const (
	opRaw = iota
	opStart
	opData
	opNoH
	opFlush
	opDataQ
	opNoHQ
	opCount
	opSweep
	opEnd
	opFail
)

type reqSnap struct {
	key []byte
	bks []db.BucketID
}

func (rn *runner) requests() []reqSnap {
	var l []reqSnap
	it := rn.builder.Requests()
	for it.Next() {
		l = append(l, reqSnap{append([]byte{}, it.Key()...), append([]db.BucketID{}, it.BucketIDs()...)})
	}
	return l
}

func (rn *runner) noteRequests(l []reqSnap) {
	for _, q := range l {
		if len(q.bks) > 1 {
			rn.st.multiReq++
		}
		for _, b := range q.bks {
			rn.requested[ref{bkIndex(b), rn.w.hid(q.key)}] = true
		}
	}
}

// srcClosure: everything reachable from the roots in the source, by the harness' own parsing
func (rn *runner) recomputeClosure() {
	rn.closure = map[ref]int{}
	var stack []ref
	stack = append(stack, rn.roots...)
	for len(stack) > 0 {
		x := stack[len(stack)-1]
		stack = stack[:len(stack)-1]
		if _, ok := rn.closure[x]; ok {
			continue
		}
		b := rn.src.get(x.bk, rn.w.hbytes[x.hid])
		if b == nil {
			rn.failf("harness: source lacks (%d,%x)", x.bk, rn.w.hbytes[x.hid])
			continue
		}
		p := rn.w.pid(b)
		rn.closure[x] = p
		stack = append(stack, rn.w.kids(x.bk, p)...)
	}
	rn.missing = 0
	for x, p := range rn.closure {
		if q, ok := rn.present[x]; !ok || q != p {
			rn.missing++
		}
	}
}

// probe reads (bk,hid) through builder.Database() and updates present / missing
func (rn *runner) probe(x ref) (newly bool) {
	v, err := rn.view[x.bk].Get(rn.w.hbytes[x.hid])
	if err != nil {
		rn.failf("Get through builder.Database() failed: %v", err)
		return false
	}
	old, had := rn.present[x]
	if v == nil {
		if had {
			rn.failf("(%d,%x) was readable and has disappeared", x.bk, rn.w.hbytes[x.hid])
		}
		return false
	}
	p := rn.w.pid(v)
	if had {
		if old != p {
			rn.failf("(%d,%x) changed its bytes", x.bk, rn.w.hbytes[x.hid])
		}
		return false
	}
	rn.present[x] = p
	if !bytes.Equal(sha(v), rn.w.hbytes[x.hid]) {
		rn.failf("stored under (%d,%x): bytes whose sha3 is %x", x.bk, rn.w.hbytes[x.hid], sha(v))
	}
	if c, ok := rn.closure[x]; ok && c == p {
		rn.missing--
	}
	return true
}

// the property, checked directly after every call
func (rn *runner) checkDoneComplete(where string) {
	un := rn.builder.UnresolvedCount()
	if un != 0 && rn.missing == 0 && len(rn.partial) > 0 {
		// a delivery that failed half-way has stored its value but (rightly) keeps its request:
		// the store may be complete while that request is still outstanding
		only := true
		for _, q := range rn.requests() {
			only = only && rn.partial[rn.w.hid(q.key)]
		}
		if only {
			return
		}
	}
	if (un == 0) != (rn.missing == 0) {
		rn.failf("%s: UnresolvedCount=%d but %d of %d nodes of the trusted state are not in the target", where, un, rn.missing, len(rn.closure))
	}
	if !rn.raw && !rn.flushed && rn.target.writes != 0 {
		rn.failf("%s: the target database was written %d times before Flush", where, rn.target.writes)
	}
}

func (rn *runner) checkStoredIsTrusted(x ref, where string) {
	if _, ok := rn.preload[x]; ok {
		return
	}
	if p, ok := rn.closure[x]; !ok || p != rn.present[x] {
		rn.failf("%s: (%d,%x) is stored but is not part of the trusted state", where, x.bk, rn.w.hbytes[x.hid])
	}
}

func (rn *runner) start(x ref, direct bool) {
	h := rn.w.hbytes[x.hid]
	perr := hxlib.Catch(func() {
		switch {
		case direct && rn.sp != nil:
			if err := rn.sp.AddRequest(bucketIDs[x.bk], h); err != nil {
				rn.failf("AddRequest failed: %v", err)
			}
		case direct:
			// syncProcessor.AddRequest, by hand
			bk, _ := rn.builder.Database().GetBucket(bucketIDs[x.bk])
			if v, _ := bk.Get(h); v == nil {
				rn.builder.RequestData(bucketIDs[x.bk], h, plainRequester{})
			}
		case rn.objMode && !rn.rawRoots[x.hid]:
			trie_manager.NewImmutableForObject(rn.builder.Database(), h, objType).Resolve(rn.builder)
		default:
			trie_manager.NewImmutable(rn.builder.Database(), h).Resolve(rn.builder)
		}
	})
	if perr != "" {
		rn.failf("panic in Resolve/AddRequest: %s", perr)
	}
	rn.roots = append(rn.roots, x)
	rn.recomputeClosure()
	rn.noteRequests(rn.requests())
	rn.emit(opStart, x.hid*2+x.bk, rn.builder.UnresolvedCount(), rn.builder.ResolvedCount())
	rn.checkDoneComplete("after start")
}

var noHasherBucket = db.BucketID("T")

// deliver one payload through Builder.OnData with full observation
func (rn *runner) deliver(p int, bid db.BucketID, kind string) {
	rn.step++
	rn.st.deliveries++
	w := rn.w
	d := w.pbytes[p]
	h := w.phid[p]
	before := rn.requests()
	unB, resB := rn.builder.UnresolvedCount(), rn.builder.ResolvedCount()
	var pend []db.BucketID
	isPending := false
	for _, q := range before {
		if bytes.Equal(q.key, w.hbytes[h]) {
			pend, isPending = q.bks, true
		}
	}
	faultsB, writesB := rn.target.faults, rn.target.writes
	objFiredB := 0
	if curObjFaults != nil {
		curObjFaults.inDelivery = 0
		objFiredB = curObjFaults.fired
	}
	var err error
	if perr := hxlib.Catch(func() { err = rn.builder.OnData(bid, d) }); perr != "" {
		rn.failf("OnData panicked on a %s payload: %s", kind, perr)
		rn.emit(opData, p, 2, rn.builder.UnresolvedCount(), rn.builder.ResolvedCount(), 0)
		return
	}
	rn.delivered[p] = true
	un, res := rn.builder.UnresolvedCount(), rn.builder.ResolvedCount()
	after := rn.requests()
	rn.noteRequests(after)
	newk := 0
	for bk := 0; bk < 2; bk++ {
		if rn.probe(ref{bk, h}) {
			newk |= 1 << uint(bk)
			rn.checkStoredIsTrusted(ref{bk, h}, "after OnData")
			if !rn.requested[ref{bk, h}] {
				rn.failf("(%d,%x) was stored although it was never requested", bk, w.hbytes[h])
			}
		}
	}
	objFault := curObjFaults != nil && curObjFaults.fired > objFiredB
	if rn.target.faults > faultsB || objFault {
		// a database write, or a requester, failed inside this OnData (transient): the delivery
		// must fail visibly and the request must stay outstanding with its requesters, so that
		// the node is asked for again and then resolved exactly as it would have been
		i, k1 := rn.target.writes-writesB, 0
		if objFault {
			// the failing requester had stored the value and registered every reference that
			// precedes the value object's data reference
			// = the (firedAfter+1)-th node requester (bucket MerkleTrie) of the request; requesters
			// of bucket BytesByHash (value objects, AddRequest) never call Resolve
			i = len(pend)
			for j, n := 0, curObjFaults.firedAfter; j < len(pend); j++ {
				if bkIndex(pend[j]) == 0 {
					if n == 0 {
						i = j
						break
					}
					n--
				}
			}
			k1 = len(w.pkids[p]) // = index of the data reference + 1
			for j, c := range w.pkids[p] {
				if c.bk == 1 {
					k1 = j + 1
					break
				}
			}
		}
		if newk != 0 || i > 0 {
			rn.partial[h] = true
		}
		rn.st.faults++
		if err == nil || err == merkle.ErrNoRequester || err == merkle.ErrNoHasher {
			rn.failf("a failing database write was not reported: OnData returned %v", err)
		}
		found := false
		for _, q := range after {
			if bytes.Equal(q.key, w.hbytes[h]) {
				found = true
				for _, b := range pend {
					ok := false
					for _, b2 := range q.bks {
						ok = ok || b == b2
					}
					if !ok {
						rn.failf("after a failed write the request %x no longer carries bucket %q", q.key, b)
					}
				}
			}
		}
		if !found {
			rn.failf("the request %x is no longer outstanding although storing its data failed (OnData returned: %v)", w.hbytes[h], err)
		}
		if res != resB || un < unB {
			rn.failf("a failed delivery changed the counts: resolved %d -> %d, unresolved %d -> %d", resB, res, unB, un)
		}
		if i == 0 && !objFault && (newk != 0 || !sameReqs(before, after)) {
			rn.failf("a delivery whose first write failed changed the builder")
		}
		rn.emit(opFail, p, i, k1, un, res, newk)
		rn.checkDoneComplete("after a failed OnData")
		if f := rn.startAfterFail; f != nil {
			// another trie (of another kind) is resolved on the same builder before the failed
			// node is delivered again
			rn.startAfterFail = nil
			f()
		}
		return
	}
	if bid.Hasher() == nil {
		rn.st.noHasher++
		if err != merkle.ErrNoHasher {
			rn.failf("OnData under bucket %q: %v, expected ErrNoHasher", bid, err)
		}
		if un != unB || res != resB || newk != 0 {
			rn.failf("OnData under a bucket without hasher changed the builder")
		}
		rn.emit(opNoH, p, un, res)
		rn.checkDoneComplete("after OnData(no hasher)")
		return
	}
	code := 0
	switch {
	case err == nil:
	case err == merkle.ErrNoRequester:
		code = 1
	default:
		code = 2
	}
	if isPending {
		rn.st.accepted++
		rn.accepted = append(rn.accepted, p)
		if err != nil {
			rn.failf("the %s payload with the requested hash %x was refused: %v", kind, w.hbytes[h], err)
		}
		for _, b := range pend {
			x := ref{bkIndex(b), h}
			if q, ok := rn.present[x]; !ok || q != p {
				rn.failf("accepted node %x is not readable in bucket %q", w.hbytes[h], b)
			}
		}
		if res != resB+1 {
			rn.failf("ResolvedCount %d -> %d on an accepted delivery", resB, res)
		}
		for _, q := range after {
			if bytes.Equal(q.key, w.hbytes[h]) {
				rn.failf("request %x is still outstanding after its data was accepted", q.key)
			}
		}
	} else {
		switch kind {
		case "dup":
			rn.st.dups++
		case "genuine":
			rn.st.ignoredGenuine++
		default:
			rn.st.ignoredForged++
		}
		if err != merkle.ErrNoRequester {
			rn.failf("a %s payload whose hash %x is not outstanding: OnData returned %v", kind, w.hbytes[h], err)
		}
		if newk != 0 {
			rn.failf("a %s payload whose hash %x was not requested has been stored", kind, w.hbytes[h])
		}
		if un != unB || res != resB || !sameReqs(before, after) {
			rn.failf("an ignored (%s) payload changed the builder: unresolved %d -> %d", kind, unB, un)
		}
	}
	rn.emit(opData, p, code, un, res, newk)
	rn.checkDoneComplete("after OnData")
}

func sameReqs(a, b []reqSnap) bool {
	if len(a) != len(b) {
		return false
	}
	for i := range a {
		if !bytes.Equal(a[i].key, b[i].key) || len(a[i].bks) != len(b[i].bks) {
			return false
		}
		for j := range a[i].bks {
			if a[i].bks[j] != b[i].bks[j] {
				return false
			}
		}
	}
	return true
}

// sweep: read every known hash in both buckets, the exact target content, Requests()
func (rn *runner) sweep(where string) {
	rn.st.sweeps++
	w := rn.w
	n := len(w.hbytes)
	for hid := 0; hid < n; hid++ {
		for bk := 0; bk < 2; bk++ {
			x := ref{bk, hid}
			if rn.probe(x) {
				// became readable without being the hash of the payload just delivered
				if rn.sp == nil {
					rn.failf("%s: (%d,%x) became readable outside the delivery of its own bytes", where, bk, w.hbytes[hid])
				}
				rn.checkStoredIsTrusted(x, where)
			}
		}
	}
	var view, base, reqs []int
	keys := make([]ref, 0, len(rn.present))
	for x := range rn.present {
		keys = append(keys, x)
	}
	sort.Slice(keys, func(i, j int) bool {
		return keys[i].hid < keys[j].hid || (keys[i].hid == keys[j].hid && keys[i].bk < keys[j].bk)
	})
	for _, x := range keys {
		view = append(view, rn.present[x]*2+x.bk)
		rn.checkStoredIsTrusted(x, where)
	}
	var bl []ref
	bp := map[ref]int{}
	for bk := 0; bk < 2; bk++ {
		for k, v := range rn.target.bucket(bucketIDs[bk]).content {
			x := ref{bk, w.hid([]byte(k))}
			bp[x] = w.pid(v)
			bl = append(bl, x)
			if !bytes.Equal(sha(v), []byte(k)) {
				rn.failf("%s: target DB holds under %x bytes with sha3 %x", where, k, sha(v))
			}
		}
	}
	for id, b := range rn.target.bks {
		if id != db.MerkleTrie && id != db.BytesByHash && len(b.content) > 0 {
			rn.failf("%s: target DB bucket %q was written", where, id)
		}
	}
	sort.Slice(bl, func(i, j int) bool { return bl[i].hid < bl[j].hid || (bl[i].hid == bl[j].hid && bl[i].bk < bl[j].bk) })
	for _, x := range bl {
		base = append(base, bp[x]*2+x.bk)
		if _, ok := rn.preload[x]; !ok {
			if p, ok := rn.closure[x]; !ok || p != bp[x] {
				rn.failf("%s: target DB holds (%d,%x) which is not part of the trusted state", where, x.bk, w.hbytes[x.hid])
			}
		}
		if q, ok := rn.present[x]; !ok || q != bp[x] {
			rn.failf("%s: target DB holds (%d,%x) that is not readable through the builder", where, x.bk, w.hbytes[x.hid])
		}
	}
	if rn.flushed || rn.raw {
		// nothing is buffered any more: the target holds everything that is readable
		if len(bl) != len(rn.present) {
			rn.failf("%s: %d keys readable through the builder, %d in the target DB after Flush", where, len(rn.present), len(bl))
		}
	}
	rs := rn.requests()
	rn.noteRequests(rs)
	for _, q := range rs {
		reqs = append(reqs, w.hid(q.key), len(q.bks))
		for _, id := range q.bks {
			reqs = append(reqs, bkIndex(id))
			x := ref{bkIndex(id), w.hid(q.key)}
			if _, ok := rn.closure[x]; !ok {
				rn.failf("%s: outstanding request (%d,%x) is not part of the trusted state", where, x.bk, q.key)
			}
			if _, ok := rn.present[x]; ok && !rn.partial[x.hid] {
				rn.failf("%s: outstanding request (%d,%x) is already stored", where, x.bk, q.key)
			}
		}
	}
	if len(rs) != rn.builder.UnresolvedCount() {
		rn.failf("%s: Requests() yields %d, UnresolvedCount()=%d", where, len(rs), rn.builder.UnresolvedCount())
	}
	bmode := 0
	if sameInts(base, rn.pre) {
		bmode, base = 1, nil
	} else if sameInts(base, view) {
		bmode, base = 2, nil
	}
	rn.emit(opSweep, len(view))
	rn.emit(view...)
	rn.emit(bmode, len(base))
	rn.emit(base...)
	rn.emit(len(rs))
	rn.emit(reqs...)
	rn.checkDoneComplete(where)
}

func (rn *runner) flush() {
	rn.step++
	if rn.flushFault && !rn.flushed && !rn.raw {
		// one transient write error inside Flush(true): it must be reported, and repeating the
		// flush must write everything
		rn.flushFault = false
		n := len(rn.present) - len(rn.preload)
		if n > 0 {
			at := rn.target.attempts + 1 + rn.r.Intn(n)
			rn.target.failSet[at] = true
			fb := rn.target.faults
			err := rn.builder.Flush(true)
			delete(rn.target.failSet, at)
			if rn.target.faults > fb {
				rn.st.faults++
				if err == nil {
					rn.failf("a failing database write inside Flush(true) was not reported")
				}
			}
		}
	}
	if err := rn.builder.Flush(true); err != nil {
		rn.failf("Flush(true) failed: %v", err)
	}
	rn.flushed = true
	rn.emit(opFlush)
	rn.sweep("after Flush")
}

// deep check with the real trie code: every entry of the source trie (and of nested tries,
// and referenced data) is readable from a trie opened on dbase with the trusted root
func (rn *runner) compareTrie(dbase db.Database, root []byte, depth int, where string) {
	st := rn.src.tries[string(root)]
	if st == nil {
		rn.failf("harness: unknown source trie %x", root)
		return
	}
	if perr := hxlib.Catch(func() {
		if rn.objMode && !st.raw {
			t := trie_manager.NewImmutableForObject(dbase, root, objType)
			if !bytes.Equal(t.Hash(), root) {
				rn.failf("%s: rebuilt trie has root %x, trusted %x", where, t.Hash(), root)
			}
			for _, k := range sortedKeys(st.kv) {
				o, err := t.Get([]byte(k))
				if err != nil || o == nil {
					rn.failf("%s: key %x of the trusted trie %x is not readable: %v", where, k, root, err)
					return
				}
				if !bytes.Equal(o.Bytes(), st.kv[k]) {
					rn.failf("%s: key %x: value differs from the source", where, k)
					return
				}
				v := st.kv[k]
				if len(v) == 33 && v[0] == kData {
					bk, _ := dbase.GetBucket(db.BytesByHash)
					dv, _ := bk.Get(v[1:])
					if !bytes.Equal(dv, rn.src.datas[string(v[1:])]) || dv == nil {
						rn.failf("%s: data %x referenced by key %x is missing or differs", where, v[1:], k)
						return
					}
				}
				if len(v) == 33 && v[0] == kNested && depth < 4 {
					rn.compareTrie(dbase, v[1:], depth+1, where)
				}
			}
			n := 0
			for it := t.Iterator(); it.Has(); {
				if _, _, err := it.Get(); err != nil {
					rn.failf("%s: iterating the rebuilt trie failed: %v", where, err)
					return
				}
				n++
				if err := it.Next(); err != nil {
					rn.failf("%s: iterating the rebuilt trie failed: %v", where, err)
					return
				}
			}
			if n != len(st.kv) {
				rn.failf("%s: rebuilt trie has %d entries, source %d", where, n, len(st.kv))
			}
		} else {
			t := trie_manager.NewImmutable(dbase, root)
			if !bytes.Equal(t.Hash(), root) {
				rn.failf("%s: rebuilt trie has root %x, trusted %x", where, t.Hash(), root)
			}
			for _, k := range sortedKeys(st.kv) {
				v, err := t.Get([]byte(k))
				if err != nil || !bytes.Equal(v, st.kv[k]) {
					rn.failf("%s: key %x of the trusted trie: got %x (%v), source has %x", where, k, v, err, st.kv[k])
					return
				}
			}
			n := 0
			for it := t.Iterator(); it.Has(); {
				n++
				if err := it.Next(); err != nil {
					rn.failf("%s: iterating the rebuilt trie failed: %v", where, err)
					return
				}
			}
			if n != len(st.kv) {
				rn.failf("%s: rebuilt trie has %d entries, source %d", where, n, len(st.kv))
			}
		}
	}); perr != "" {
		rn.failf("%s: reading the rebuilt trie panicked: %s", where, perr)
	}
}

func (rn *runner) compareAll(dbase db.Database, where string) {
	for _, x := range rn.roots {
		h := rn.w.hbytes[x.hid]
		if x.bk == 0 {
			rn.compareTrie(dbase, h, 0, where)
		} else {
			bk, _ := dbase.GetBucket(db.BytesByHash)
			if v, _ := bk.Get(h); v == nil || !bytes.Equal(sha(v), h) {
				rn.failf("%s: requested data %x is missing", where, h)
			}
		}
	}
}

// forged payloads
func (rn *runner) forged(pool [][]byte, foreign [][]byte) (int, string) {
	r := rn.r
	switch r.Intn(4) {
	case 0:
		return rn.w.pid(randBytes(r, r.Intn(100))), "random"
	case 1, 2:
		if len(pool) > 0 {
			b := append([]byte{}, pool[r.Intn(len(pool))]...)
			switch r.Intn(3) {
			case 0:
				if len(b) > 0 {
					b[r.Intn(len(b))] ^= byte(1 << uint(r.Intn(8)))
				}
			case 1:
				if len(b) > 1 {
					b = b[:len(b)-1]
				}
			default:
				b = append(b, byte(r.Intn(256)))
			}
			if _, known := rn.w.pidx[string(b)]; !known {
				return rn.w.pid(b), "mutated"
			}
		}
		return rn.w.pid(randBytes(r, 1+r.Intn(40))), "random"
	default:
		if len(foreign) > 0 {
			return rn.w.pid(foreign[r.Intn(len(foreign))]), "foreign"
		}
		return rn.w.pid(randBytes(r, 33)), "random"
	}
}

func runOne(seed int64, noCoq bool) (coq, kind, desc, oracle string, st runStats) {
	r := rand.New(rand.NewSource(seed))
	objMode := r.Intn(4) != 0
	spMode := r.Intn(4) == 0
	raw := r.Intn(5) == 0
	nEntries := 20 + r.Intn(181)
	if r.Intn(12) == 0 {
		nEntries = 1 + r.Intn(4)
	}
	withOld := r.Intn(3) == 0               // an older version exists in the source
	preloadOld := withOld && r.Intn(2) == 0 // ... and the target already holds it completely
	secondRoot := withOld && !preloadOld    // ... or it is synced as a second root later
	directReq := objMode && r.Intn(5) == 0  // an AddRequest for one BytesByHash datum
	midFlush := !raw && r.Intn(6) == 0
	order := r.Intn(3)                                    // 0 front-biased, 1 uniform, 2 back-biased
	faulty := raw && !spMode && r.Intn(4) != 0            // transient write errors of the target inside OnData
	flushFault := !raw && r.Intn(4) == 0                  // one transient write error inside the first Flush(true)
	objFaulty := objMode && !spMode && r.Intn(3) == 0     // transient errors of a value object's Resolve
	bytesRoot := objMode && (objFaulty || r.Intn(4) == 0) // a root of the other trie kind on the same builder

	w := newWorld(objMode)
	src := &source{objMode: objMode, d: newRecDB(), tries: map[string]*srcTrie{}, datas: map[string][]byte{}}
	pool := &valuePool{}
	var oldT *srcTrie
	if withOld {
		oldT = src.genTrie(r, 0, nEntries, pool, nil)
	}
	var mainT *srcTrie
	if withOld {
		mainT = src.genTrie(r, 0, 1+nEntries/6, pool, oldT)
	} else {
		mainT = src.genTrie(r, 0, nEntries, pool, nil)
	}
	var bytesT *srcTrie
	if bytesRoot {
		bytesT = src.genBytesTrie(r, 3+r.Intn(30))
	}
	// another state, for foreign nodes
	fsrc := &source{objMode: objMode, d: newRecDB(), tries: map[string]*srcTrie{}, datas: map[string][]byte{}}
	fsrc.genTrie(r, 1, 10+r.Intn(20), &valuePool{}, nil)
	var foreign, genuine [][]byte
	for _, id := range bucketIDs {
		for _, k := range sortedKeys(fsrc.d.bucket(id).content) {
			v := fsrc.d.bucket(id).content[k]
			if src.get(0, []byte(k)) == nil && src.get(1, []byte(k)) == nil {
				foreign = append(foreign, v)
			}
		}
		for _, k := range sortedKeys(src.d.bucket(id).content) {
			genuine = append(genuine, src.d.bucket(id).content[k])
		}
	}

	rn := &runner{r: r, w: w, src: src, objMode: objMode, raw: raw, spMode: spMode, target: newRecDB(),
		closure: map[ref]int{}, preload: map[ref]int{}, present: map[ref]int{}, requested: map[ref]bool{},
		delivered: map[int]bool{}, noCoq: noCoq, flushFault: flushFault,
		rawRoots: map[int]bool{}, partial: map[int]bool{}}
	rn.target.failSet = map[int]bool{}
	curObjFaults = nil

	if preloadOld {
		// the target is the product of a COMPLETE earlier sync of the older version (a real
		// builder, answered honestly, flushed): closed under references, as the theorems require
		first := &runner{r: r, w: w, src: src, objMode: objMode, target: rn.target,
			closure: map[ref]int{}, preload: map[ref]int{}, present: map[ref]int{}, requested: map[ref]bool{},
			delivered: map[int]bool{}, noCoq: true, rawRoots: map[int]bool{}, partial: map[int]bool{}}
		first.builder = merkle.NewBuilder(rn.target)
		for i, id := range bucketIDs {
			first.view[i], _ = first.builder.Database().GetBucket(id)
		}
		first.start(ref{0, w.hid(oldT.root)}, false)
		for i := 0; i < 1000000 && first.builder.UnresolvedCount() > 0 && first.fail == ""; i++ {
			reqs := first.requests()
			q := reqs[r.Intn(len(reqs))]
			first.deliver(w.pid(src.get(bkIndex(q.bks[0]), q.key)), q.bks[0], "answer")
		}
		first.flush()
		if first.fail != "" {
			return "", "direct", "earlier sync", "earlier complete sync of the older version: " + first.fail, runStats{}
		}
		for bk := 0; bk < 2; bk++ {
			for k, v := range rn.target.bucket(bucketIDs[bk]).content {
				x := ref{bk, w.hid([]byte(k))}
				rn.preload[x] = w.pid(v)
				rn.present[x] = w.pid(v)
			}
		}
		rn.target.writes = 0
	}
	rn.pre = rn.prePacked()
	curObjFaults = nil
	if objFaulty {
		curObjFaults = &objFaults{failAt: map[int]bool{}}
		nd := len(src.d.bucket(db.BytesByHash).content) + 2
		for k := 1 + r.Intn(3); k > 0; k-- {
			curObjFaults.failAt[1+r.Intn(nd)] = true
		}
	}
	defer func() { curObjFaults = nil }()
	if raw {
		rn.builder = merkle.NewBuilderWithRawDatabase(rn.target)
		rn.emit(opRaw)
	} else {
		rn.builder = merkle.NewBuilder(rn.target)
	}
	for i, id := range bucketIDs {
		rn.view[i], _ = rn.builder.Database().GetBucket(id)
	}
	if spMode {
		rn.sp = sync2.VerifNewSyncProcessor(rn.builder, false)
		defer rn.sp.Close()
	}

	rn.start(ref{0, w.hid(mainT.root)}, false)

	srcN := len(genuine)
	if faulty {
		for k := 1 + r.Intn(4); k > 0; k-- {
			rn.target.failSet[rn.target.attempts+1+r.Intn(srcN+3)] = true
		}
	}
	budget := 60*srcN + 400
	startSecondAt, directAt, flushAt, bytesAt := -1, -1, -1, -1
	startBytes := func() {
		bytesAt = -1
		rn.startAfterFail = nil
		x := ref{0, w.hid(bytesT.root)}
		rn.rawRoots[x.hid] = true
		rn.start(x, false)
	}
	if bytesRoot {
		bytesAt = r.Intn(2*len(genuine) + 2)
		if objFaulty && r.Intn(4) != 0 {
			rn.startAfterFail = startBytes
		}
	}
	if secondRoot {
		startSecondAt = r.Intn(2*srcN + 2)
	}
	if directReq && len(src.d.bucket(db.BytesByHash).content) > 0 {
		directAt = r.Intn(2*srcN + 2)
	}
	if midFlush {
		flushAt = r.Intn(2*srcN + 2)
	}
	sweepEvery := 40 + r.Intn(200)
	sweepsLeft := 1
	firstDone := false

	pendingExtras := func() bool { return startSecondAt >= 0 || directAt >= 0 || bytesAt >= 0 }

	for iter := 0; iter < budget && rn.fail == ""; iter++ {
		if startSecondAt >= 0 && iter >= startSecondAt {
			startSecondAt = -1
			rn.start(ref{0, w.hid(oldT.root)}, false)
			continue
		}
		if directAt >= 0 && iter >= directAt {
			directAt = -1
			ks := sortedKeys(src.d.bucket(db.BytesByHash).content)
			rn.start(ref{1, w.hid([]byte(ks[r.Intn(len(ks))]))}, true)
			continue
		}
		if bytesAt >= 0 && iter >= bytesAt {
			startBytes()
			continue
		}
		if flushAt >= 0 && iter >= flushAt {
			flushAt = -1
			rn.flush()
			continue
		}
		if rn.builder.UnresolvedCount() == 0 {
			if !firstDone {
				firstDone = true
				rn.sweep("at first done")
				rn.compareAll(rn.builder.Database(), "at first done (through the builder)")
			}
			if pendingExtras() {
				// nothing to answer: bring the next scheduled start forward
				if startSecondAt >= 0 {
					startSecondAt = iter + 1
				} else if directAt >= 0 {
					directAt = iter + 1
				} else {
					bytesAt = iter + 1
				}
				firstDone = false
				continue
			}
			break
		}
		if sweepsLeft > 0 && iter > 0 && iter%sweepEvery == 0 {
			sweepsLeft--
			rn.sweep("mid-run")
		}
		if spMode {
			rn.spRound(genuine, foreign)
		} else {
			rn.directStep(order, genuine, foreign)
		}
	}
	if rn.fail == "" && (rn.builder.UnresolvedCount() != 0 || pendingExtras()) {
		rn.failf("the sync did not finish within %d rounds although every request was answered (UnresolvedCount=%d)", budget, rn.builder.UnresolvedCount())
	}
	rn.st.completed = rn.builder.UnresolvedCount() == 0
	// noise after completion: everything must be ignored
	if rn.fail == "" && !spMode {
		for i := 0; i < 6; i++ {
			switch r.Intn(3) {
			case 0:
				p, k := rn.forged(genuine, foreign)
				rn.deliver(p, bucketIDs[r.Intn(2)], k)
			case 1:
				if len(rn.accepted) > 0 {
					rn.deliver(rn.accepted[r.Intn(len(rn.accepted))], bucketIDs[r.Intn(2)], "dup")
				}
			default:
				rn.deliver(w.pid(genuine[r.Intn(len(genuine))]), bucketIDs[r.Intn(2)], "dup")
			}
		}
	}
	if rn.fail == "" {
		rn.flush()
		if rn.st.completed {
			// exact content: the trusted state (and what was there before), nothing else
			want := map[ref]int{}
			for x, p := range rn.closure {
				want[x] = p
			}
			for x, p := range rn.preload {
				want[x] = p
			}
			got := 0
			for bk := 0; bk < 2; bk++ {
				for k, v := range rn.target.bucket(bucketIDs[bk]).content {
					got++
					x := ref{bk, w.hid([]byte(k))}
					if p, ok := want[x]; !ok || !bytes.Equal(w.pbytes[p], v) {
						rn.failf("after the final Flush the target holds (%d,%x), not part of the trusted state", bk, k)
					}
				}
			}
			if got != len(want) {
				rn.failf("after the final Flush the target holds %d nodes, the trusted state has %d", got, len(want))
			}
			rn.compareAll(rn.target, "after the final Flush (target DB)")
		}
	}

	kind = "direct"
	if spMode {
		kind = "syncprocessor"
	}
	if objMode {
		kind += "/object"
	} else {
		kind += "/bytes"
	}
	var flags []string
	for _, f := range []struct {
		on bool
		s  string
	}{{raw, "raw"}, {faulty, "write-faults"}, {objFaulty, "requester-faults"}, {bytesRoot, "bytes-root"}, {flushFault, "flush-fault"}, {preloadOld, "preloaded"}, {secondRoot, "two-roots"}, {directReq, "addrequest"}, {midFlush, "midflush"}} {
		if f.on {
			flags = append(flags, f.s)
		}
	}
	desc = fmt.Sprintf("%s entries=%d source-nodes=%d %s deliveries=%d accepted=%d faults=%d", kind, nEntries, srcN, strings.Join(flags, ","), rn.st.deliveries, rn.st.accepted, rn.st.faults)
	if !noCoq {
		stream := []int{len(w.pbytes)}
		for p := range w.pbytes {
			stream = append(stream, w.phid[p], len(w.pkids[p]))
			for _, c := range w.pkids[p] {
				stream = append(stream, c.hid*2+c.bk)
			}
		}
		stream = append(stream, len(rn.pre))
		stream = append(stream, rn.pre...)
		stream = append(stream, rn.ops...)
		stream = append(stream, opEnd)
		coq = coqStream(stream)
	}
	return coq, kind, desc, rn.fail, rn.st
}

func (rn *runner) prePacked() []int {
	var pre []int
	pk := make([]ref, 0, len(rn.preload))
	for x := range rn.preload {
		pk = append(pk, x)
	}
	sort.Slice(pk, func(i, j int) bool { return pk[i].hid < pk[j].hid || (pk[i].hid == pk[j].hid && pk[i].bk < pk[j].bk) })
	for _, x := range pk {
		pre = append(pre, rn.preload[x]*2+x.bk)
	}
	return pre
}

func sameInts(a, b []int) bool {
	if len(a) != len(b) {
		return false
	}
	for i := range a {
		if a[i] != b[i] {
			return false
		}
	}
	return true
}

// coqStream prints a stream as (dec (I8 .. (I8 .. IE))) for Run_C20
func coqStream(s []int) string {
	var sb strings.Builder
	sb.WriteString("(dec ")
	n := 0
	for i := 0; i < len(s); i += 8 {
		sb.WriteString("(I8")
		for j := i; j < i+8; j++ {
			v := opEnd
			if j < len(s) {
				v = s[j]
			}
			fmt.Fprintf(&sb, " %d", v)
		}
		sb.WriteByte(' ')
		n++
		if n%8 == 0 {
			sb.WriteByte('\n')
		}
	}
	sb.WriteString("IE")
	sb.WriteString(strings.Repeat(")", n))
	sb.WriteString(")")
	return sb.String()
}

// one step of the hand-driven network
func (rn *runner) directStep(order int, genuine, foreign [][]byte) {
	r := rn.r
	w := rn.w
	x := r.Intn(100)
	switch {
	case x < 50:
		reqs := rn.requests()
		if len(reqs) == 0 {
			return
		}
		var i int
		switch order {
		case 0:
			i = r.Intn(1 + r.Intn(len(reqs)))
		case 1:
			i = r.Intn(len(reqs))
		default:
			i = len(reqs) - 1 - r.Intn(1+r.Intn(len(reqs)))
		}
		q := reqs[i]
		// the peer is asked with BucketIDs()[0] (syncProcessor.getPacks) or any of them
		ask := q.bks[0]
		if r.Intn(3) == 0 {
			ask = q.bks[r.Intn(len(q.bks))]
		}
		v := rn.src.get(bkIndex(ask), q.key)
		if v == nil {
			rn.failf("harness: the source cannot answer (%q,%x)", ask, q.key)
			return
		}
		bid := ask
		if r.Intn(8) == 0 {
			bid = bucketIDs[r.Intn(2)] // the bucket id of OnData only selects the hasher
		}
		rn.deliver(w.pid(v), bid, "answer")
	case x < 60:
		if len(rn.accepted) > 0 {
			rn.deliver(rn.accepted[r.Intn(len(rn.accepted))], bucketIDs[r.Intn(2)], "dup")
		}
	case x < 75:
		rn.deliver(w.pid(genuine[r.Intn(len(genuine))]), bucketIDs[r.Intn(2)], "genuine")
	case x < 97:
		p, k := rn.forged(genuine, foreign)
		rn.deliver(p, bucketIDs[r.Intn(2)], k)
	default:
		reqs := rn.requests()
		if len(reqs) > 0 {
			q := reqs[r.Intn(len(reqs))]
			if v := rn.src.get(bkIndex(q.bks[0]), q.key); v != nil {
				rn.deliver(w.pid(v), noHasherBucket, "nohasher")
			}
		}
	}
}

// one round through the real syncProcessor: getPacks -> the peer's response -> HandleData
func (rn *runner) spRound(genuine, foreign [][]byte) {
	r := rn.r
	w := rn.w
	rn.step++
	var packs [][]sync2.BucketIDAndBytes
	if perr := hxlib.Catch(func() { packs = rn.sp.Packs() }); perr != "" {
		rn.failf("getPacks panicked: %s", perr)
		return
	}
	if len(packs) == 0 {
		return
	}
	pack := packs[0]
	var resp []sync2.BucketIDAndBytes
	for _, it := range pack {
		if r.Intn(6) == 0 {
			continue // the peer does not have it / the response was cut
		}
		v := rn.src.get(bkIndex(it.BkID), it.Bytes)
		if v == nil {
			// a stale iterator may ask for something already answered; a real peer just skips it
			continue
		}
		resp = append(resp, sync2.BucketIDAndBytes{BkID: it.BkID, Bytes: v})
		if r.Intn(10) == 0 {
			resp = append(resp, sync2.BucketIDAndBytes{BkID: it.BkID, Bytes: v})
			rn.st.dups++
		}
	}
	for i := r.Intn(4); i > 0; i-- {
		p, _ := rn.forged(genuine, foreign)
		resp = append(resp, sync2.BucketIDAndBytes{BkID: bucketIDs[r.Intn(2)], Bytes: w.pbytes[p]})
		rn.st.ignoredForged++
	}
	for i := r.Intn(3); i > 0; i-- {
		resp = append(resp, sync2.BucketIDAndBytes{BkID: bucketIDs[r.Intn(2)], Bytes: genuine[r.Intn(len(genuine))]})
		rn.st.ignoredGenuine++
	}
	if r.Intn(10) == 0 {
		resp = append(resp, sync2.BucketIDAndBytes{BkID: noHasherBucket, Bytes: genuine[r.Intn(len(genuine))]})
	}
	r.Shuffle(len(resp), func(i, j int) { resp[i], resp[j] = resp[j], resp[i] })
	resB := rn.builder.ResolvedCount()
	pendB := map[string][]db.BucketID{}
	for _, q := range rn.requests() {
		pendB[string(q.key)] = q.bks
	}
	if perr := hxlib.Catch(func() { rn.sp.HandleData(resp) }); perr != "" {
		rn.failf("HandleData panicked: %s", perr)
		return
	}
	for _, it := range resp {
		p := w.pid(it.Bytes)
		rn.delivered[p] = true
		rn.st.deliveries++
		if it.BkID.Hasher() == nil {
			rn.emit(opNoHQ, p)
		} else {
			rn.emit(opDataQ, p)
		}
	}
	rn.st.accepted += rn.builder.ResolvedCount() - resB
	rn.noteRequests(rn.requests())
	// whatever became readable must be the bytes of an item of this response, under its hash
	inResp := map[int]bool{}
	for _, it := range resp {
		inResp[w.phid[w.pid(it.Bytes)]] = true
	}
	for hid := range inResp {
		for bk := 0; bk < 2; bk++ {
			if rn.probe(ref{bk, hid}) {
				rn.checkStoredIsTrusted(ref{bk, hid}, "after HandleData")
			}
		}
	}
	// requested data inside the response is stored whatever else the response contains
	for _, it := range resp {
		if it.BkID.Hasher() == nil {
			continue
		}
		p := w.pid(it.Bytes)
		for _, b := range pendB[string(w.hbytes[w.phid[p]])] {
			if q, ok := rn.present[ref{bkIndex(b), w.phid[p]}]; !ok || q != p {
				rn.failf("HandleData: the response contained the requested node %x (among forged and unrequested items) but it is not readable in bucket %q", w.hbytes[w.phid[p]], b)
			}
		}
	}
	rn.emit(opCount, rn.builder.UnresolvedCount(), rn.builder.ResolvedCount())
	if r.Intn(25) == 0 {
		rn.sweep("after HandleData")
	}
	rn.checkDoneComplete("after HandleData")
}

// runInterrupted is NOT part of the default run (VERIF_C20_INTERRUPTED=1 enables it): the
// precondition of the theorems — the target is closed under references — is broken by the
// code's own Flush(true), which writes parents before children.  A sync finishes, Flush(true)
// is interrupted after k writes (crash / I/O error), the sync is started again on the same
// database: Resolve finds the root (or another upper node) and does not descend.
func runInterrupted(seed int64) string {
	r := rand.New(rand.NewSource(seed))
	w := newWorld(true)
	src := &source{objMode: true, d: newRecDB(), tries: map[string]*srcTrie{}, datas: map[string][]byte{}}
	t := src.genTrie(r, 0, 20+r.Intn(60), &valuePool{}, nil)
	target := newRecDB()
	sync := func(rn *runner) {
		rn.start(ref{0, w.hid(t.root)}, false)
		for i := 0; i < 100000 && rn.builder.UnresolvedCount() > 0 && rn.fail == ""; i++ {
			q := rn.requests()[0]
			rn.deliver(w.pid(src.get(bkIndex(q.bks[0]), q.key)), q.bks[0], "answer")
		}
	}
	mk := func() *runner {
		rn := &runner{r: r, w: w, src: src, objMode: true, target: target,
			closure: map[ref]int{}, preload: map[ref]int{}, present: map[ref]int{}, requested: map[ref]bool{},
			delivered: map[int]bool{}, noCoq: true, rawRoots: map[int]bool{}, partial: map[int]bool{}}
		rn.builder = merkle.NewBuilder(target)
		for i, id := range bucketIDs {
			rn.view[i], _ = rn.builder.Database().GetBucket(id)
		}
		return rn
	}
	rn1 := mk()
	sync(rn1)
	if rn1.fail != "" {
		return rn1.fail
	}
	n := len(rn1.closure)
	target.failAt = 1 + r.Intn(n-1) + 1
	if err := rn1.builder.Flush(true); err == nil {
		return "harness: the interrupted Flush did not fail"
	}
	written := target.writes
	target.failAt = 0
	// restart: a new builder on the same database, the same trusted root
	rn2 := mk()
	for bk := 0; bk < 2; bk++ {
		for k, v := range target.bucket(bucketIDs[bk]).content {
			x := ref{bk, w.hid([]byte(k))}
			rn2.preload[x] = w.pid(v)
			rn2.present[x] = w.pid(v)
		}
	}
	sync(rn2)
	if rn2.fail != "" {
		return fmt.Sprintf("second sync after an interrupted Flush(true) (%d of %d nodes written): %s", written, n, rn2.fail)
	}
	return ""
}

// ---------------------------------------------------------------------------

func gen(c *hxlib.Ctx) {
	n := c.N(150)
	for i := 0; i < n; i++ {
		seed := c.Rand.Int63()
		coq, kind, desc, oracle, st := runOne(seed, c.OracleOnly)
		cs := hxlib.Case{Kind: kind, Input: runInput{Seed: seed, Desc: desc}, OracleErr: oracle,
			Nontrivial: st.completed && st.accepted >= 5 && st.ignoredForged > 0 && st.ignoredGenuine > 0 && st.dups > 0,
			Coq:        coq, Key: fmt.Sprint(seed)}
		c.Emit(cs)
	}
	if os.Getenv("VERIF_C20_INTERRUPTED") != "" {
		for i := 0; i < 10; i++ {
			seed := c.Rand.Int63()
			c.Emit(hxlib.Case{Kind: "interrupted-flush", Input: runInput{Seed: seed, Desc: "interrupted"}, Key: fmt.Sprint(seed),
				OracleErr: runInterrupted(seed)})
		}
	}
	// canary: a forged payload (hash 1, never requested) reported as accepted and stored
	c.Emit(hxlib.Case{Kind: "canary", Canary: true,
		Coq: coqStream([]int{2, 0, 0, 1, 0, 0, opStart, 0, 1, 0, opData, 1, 0, 1, 1, 1, opEnd})})
	// canary: done reported one delivery early (payload 0 refers to hash 1, which is still missing)
	c.Emit(hxlib.Case{Kind: "canary", Canary: true,
		Coq: coqStream([]int{2, 0, 1, 2, 1, 0, 0, opStart, 0, 1, 0, opData, 0, 0, 0, 1, 1, opEnd})})
}

func replay(raw json.RawMessage) string {
	var in runInput
	if err := json.Unmarshal(raw, &in); err != nil {
		return "bad replay input: " + err.Error()
	}
	if in.Desc == "interrupted" {
		return runInterrupted(in.Seed)
	}
	_, _, _, oracle, _ := runOne(in.Seed, true)
	return oracle
}

func main() {
	hxlib.Main(hxlib.Spec{
		ID: "C20",
		Rule: "each case is one whole state sync: source = real ompt tries (trie_manager) of 20-200 (sometimes 1-4) entries with keys sharing prefixes and values that are inlined (<32 bytes), >= 32 bytes, " +
			"references to BytesByHash data (shared; sometimes byte-identical to a trie node) or nested tries (shared), optionally in two versions; target = empty or holding the complete older version; " +
			"merkle.NewBuilder (or NewBuilderWithRawDatabase) + Resolve, driven either call by call (Builder.OnData) or through the real sync2.syncProcessor (getPacks/HandleData/AddRequest); " +
			"outstanding requests answered from the source in front-/uniform-/back-biased random order with duplicates, interleaved with forged payloads (random bytes, mutated real nodes, nodes of another state), " +
			"genuine unrequested nodes, deliveries under a bucket without hasher, a second root or an AddRequest started mid-way, Flush(true) mid-way and at the end. " +
			"Direct oracle after every call: UnresolvedCount()==0 iff every node of the trusted state (harness' own closure of the source DAG) is readable in the target with the same bytes; nothing is readable or written that is not " +
			"part of the trusted state and was not requested; an ignored payload changes nothing; an accepted one is stored under its sha3 in every requesting bucket; the target DB is untouched before Flush and equals exactly the trusted state after; " +
			"every source key reads back with equal value and root from tries opened on the target. non-trivial = completed sync with >= 5 accepted nodes, ignored forged and unrequested-genuine payloads and duplicates; distinct = distinct seed",
		Shard: 11,
		Gen:   gen, Replay: replay,
	})
}
