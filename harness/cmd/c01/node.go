// node.go — ONE real validator of a net: a test.Node (real block manager,
// service manager, in-memory DB) with a real consensus engine on REAL file
// WALs, and the wrappers the harness puts around the engine's environment.
// The wrappers are copies of harness/cmd/c02 (WAL manager delegating to the
// file WAL and recording every write/sync, network handler recording every
// Broadcast/Multicast, block manager holding Propose/Import callbacks until
// the harness releases them), extended to several heights: every recorded
// output carries the engine's (height, round, step, lockedRound, locked id) at
// the moment of the hook.
package main

import (
	"bytes"
	"fmt"
	"os"
	"path/filepath"
	"runtime/debug"
	"sync"
	"time"

	"github.com/icon-project/goloop/common/log"
	"github.com/icon-project/goloop/consensus"
	"github.com/icon-project/goloop/module"
	"github.com/icon-project/goloop/test"
)

// ---------------------------------------------------------------- misc

var lastStack string
var lastStackMu sync.Mutex

func catch(f func()) (panicked string) {
	defer func() {
		if r := recover(); r != nil {
			panicked = fmt.Sprint(r)
			if panicked == "" {
				panicked = "panic"
			}
			lastStackMu.Lock()
			lastStack = string(debug.Stack())
			lastStackMu.Unlock()
		}
	}()
	f()
	return ""
}

func must(err error) {
	if err != nil {
		panic(err)
	}
}

type engine interface {
	module.Consensus
	OnReceive(sp module.ProtocolInfo, bs []byte, id module.PeerID) (bool, error)
}

type peerID []byte

func (p peerID) Bytes() []byte               { return p }
func (p peerID) Equal(id module.PeerID) bool { return bytes.Equal(p, id.Bytes()) }
func (p peerID) String() string              { return fmt.Sprintf("%x", []byte(p)) }

type quietT struct {
	mu   sync.Mutex
	errs []string
}

func (t *quietT) Errorf(format string, args ...interface{}) {
	t.mu.Lock()
	t.errs = append(t.errs, fmt.Sprintf(format, args...))
	t.mu.Unlock()
}
func (t *quietT) Logf(format string, args ...any) {}

func (t *quietT) take() []string {
	t.mu.Lock()
	defer t.mu.Unlock()
	e := t.errs
	t.errs = nil
	return e
}

// ---------------------------------------------------------------- recorder

type outKind int

const (
	oWalWrite outKind = iota
	oWalSync
	oBcast   // ProtoVote / ProtoProposal / ProtoBlockPart / ProtoVoteList sent by the engine
	oImport  // BlockManager.ImportBlock called
	oPropose // BlockManager.Propose called
	oFinalize
)

type outRec struct {
	Kind    outKind
	Wal     string // round|lock|commit
	Payload []byte // WAL payload, or the broadcast message bytes
	Proto   module.ProtocolInfo
	Multi   bool
	BlkKey  string
	BlkID   []byte
	Flags   int
	H       int64 // engine state when the hook ran
	Round   int32
	Step    int
	LRound  int32
	LID     string
	ReqID   int
	SyncErr bool
	Inc     int
	At      time.Time
}

type recorder struct {
	mu   sync.Mutex
	outs []outRec
}

func (r *recorder) add(o outRec) {
	r.mu.Lock()
	r.outs = append(r.outs, o)
	r.mu.Unlock()
}

func (r *recorder) len() int {
	r.mu.Lock()
	defer r.mu.Unlock()
	return len(r.outs)
}

func (r *recorder) slice(from, to int) []outRec {
	r.mu.Lock()
	defer r.mu.Unlock()
	return append([]outRec(nil), r.outs[from:to]...)
}

func (r *recorder) truncate(to int) {
	r.mu.Lock()
	r.outs = r.outs[:to]
	r.mu.Unlock()
}

// ---------------------------------------------------------------- WAL wrapper

// walTrack follows one WAL (one id) of one engine incarnation.
type walTrack struct {
	name     string
	file     string // the single segment file
	baseSize int64  // size when opened for write
	frames   []int  // payload lengths written, in order
	frameH   []int64
	recAt    []int // recorder index of each write
}

type walMgr struct{ run *rnode }

func (wm *walMgr) OpenForRead(id string) (consensus.WALReader, error) {
	return consensus.OpenWALForRead(id)
}

func (wm *walMgr) OpenForWrite(id string, cfg *consensus.WALConfig) (consensus.WALWriter, error) {
	c2 := *cfg
	// the housekeeping ticker (time-driven sync / shift) is taken out: every
	// durable byte is durable because the engine called Sync.
	c2.HousekeepingInterval = time.Hour
	c2.SyncInterval = time.Hour
	w, err := consensus.OpenWALForWrite(id, &c2)
	if err != nil {
		return nil, err
	}
	name := filepath.Base(id)
	tr := &walTrack{name: name}
	ms, _ := filepath.Glob(id + "_*")
	if len(ms) != 1 {
		wm.run.harnessErr = fmt.Sprintf("WAL %s has %d segment files", name, len(ms))
	}
	if len(ms) > 0 {
		tr.file = ms[len(ms)-1]
		if st, e := os.Stat(tr.file); e == nil {
			tr.baseSize = st.Size()
		}
	}
	wm.run.wals[name] = tr
	return &walW{w: w, tr: tr, run: wm.run}, nil
}

type walW struct {
	w   consensus.WALWriter
	tr  *walTrack
	run *rnode
}

func (w *walW) WriteBytes(b []byte) (int, error) {
	n, err := w.w.WriteBytes(b)
	st := w.run.stateNoLock()
	w.tr.frames = append(w.tr.frames, len(b))
	w.tr.frameH = append(w.tr.frameH, st.Height)
	w.tr.recAt = append(w.tr.recAt, w.run.rec.len())
	w.run.rec.add(w.run.stamp(outRec{Kind: oWalWrite, Wal: w.tr.name, Payload: append([]byte(nil), b...)}, st))
	return n, err
}

func (w *walW) Sync() error {
	err := w.w.Sync()
	st := w.run.stateNoLock()
	w.run.rec.add(w.run.stamp(outRec{Kind: oWalSync, Wal: w.tr.name}, st))
	return err
}

func (w *walW) Close() error { return w.w.Close() }

// ---------------------------------------------------------------- network wrapper

type nmW struct {
	module.NetworkManager
	run *rnode
}

func (n *nmW) RegisterReactor(name string, pi module.ProtocolInfo, reactor module.Reactor, piList []module.ProtocolInfo, priority uint8, policy module.NotRegisteredProtocolPolicy) (module.ProtocolHandler, error) {
	ph, err := n.NetworkManager.RegisterReactor(name, pi, reactor, piList, priority, policy)
	if err != nil {
		return nil, err
	}
	return &phW{ProtocolHandler: ph, run: n.run, engine: name == "consensus"}, nil
}

type phW struct {
	module.ProtocolHandler
	run    *rnode
	engine bool
}

func (p *phW) note(pi module.ProtocolInfo, b []byte, multi bool) {
	if !p.engine {
		return
	}
	st := p.run.stateNoLock()
	p.run.rec.add(p.run.stamp(outRec{Kind: oBcast, Proto: pi, Payload: append([]byte(nil), b...), Multi: multi}, st))
}

// The fixture network has no peers attached: nothing leaves the node except
// through the recorder (the harness network redistributes it).
func (p *phW) Broadcast(pi module.ProtocolInfo, b []byte, bt module.BroadcastType) error {
	p.note(pi, b, false)
	return p.ProtocolHandler.Broadcast(pi, b, bt)
}

func (p *phW) Multicast(pi module.ProtocolInfo, b []byte, role module.Role) error {
	p.note(pi, b, true)
	return p.ProtocolHandler.Multicast(pi, b, role)
}

// ---------------------------------------------------------------- block manager wrapper

type bmReq struct {
	id        int
	propose   bool
	flags     int
	key       string
	h         int64
	round     int32
	step      int
	inc       int
	cb        func(module.BlockCandidate, error)
	done      bool
	blk       module.BlockCandidate
	err       error
	cancelled bool
	delivered bool
}

type bmW struct {
	module.BlockManager
	run *rnode
}

type cancelW struct {
	c   module.Canceler
	req *bmReq
	run *rnode
}

func (c *cancelW) Cancel() bool {
	c.run.bmu.Lock()
	c.req.cancelled = true
	c.run.bmu.Unlock()
	return c.c.Cancel()
}

func (b *bmW) newReq(propose bool, flags int, key string) (*bmReq, consensus.VerifState) {
	st := b.run.stateNoLock()
	b.run.bmu.Lock()
	defer b.run.bmu.Unlock()
	r := &bmReq{id: len(b.run.reqs), propose: propose, flags: flags, key: key, h: st.Height, round: st.Round, step: st.Step, inc: b.run.inc}
	b.run.reqs = append(b.run.reqs, r)
	return r, st
}

func (b *bmW) Propose(parentID []byte, votes module.CommitVoteSet, cb func(module.BlockCandidate, error)) (module.Canceler, error) {
	r, st := b.newReq(true, 0, "")
	r.cb = cb
	c, err := b.BlockManager.Propose(parentID, votes, func(bc module.BlockCandidate, e error) {
		b.run.bmu.Lock()
		r.done, r.blk, r.err = true, bc, e
		b.run.bmu.Unlock()
	})
	b.run.rec.add(b.run.stamp(outRec{Kind: oPropose, ReqID: r.id, SyncErr: err != nil}, st))
	if err != nil {
		b.run.bmu.Lock()
		r.cancelled = true
		b.run.bmu.Unlock()
		return nil, err
	}
	return &cancelW{c: c, req: r, run: b.run}, nil
}

func (b *bmW) ImportBlock(blk module.BlockData, flags int, cb func(module.BlockCandidate, error)) (module.Canceler, error) {
	key := keyOfBlock(blk)
	r, st := b.newReq(false, flags, key)
	r.cb = cb
	c, err := b.BlockManager.ImportBlock(blk, flags, func(bc module.BlockCandidate, e error) {
		b.run.bmu.Lock()
		r.done, r.blk, r.err = true, bc, e
		b.run.bmu.Unlock()
	})
	b.run.rec.add(b.run.stamp(outRec{Kind: oImport, BlkKey: key, BlkID: blk.ID(), Flags: flags, ReqID: r.id, SyncErr: err != nil}, st))
	if err != nil {
		b.run.bmu.Lock()
		r.cancelled = true
		b.run.bmu.Unlock()
		return nil, err
	}
	return &cancelW{c: c, req: r, run: b.run}, nil
}

func (b *bmW) Finalize(bc module.BlockCandidate) error {
	st := b.run.stateNoLock()
	b.run.rec.add(b.run.stamp(outRec{Kind: oFinalize, BlkID: append([]byte(nil), bc.ID()...), BlkKey: keyOfBlock(bc)}, st))
	return b.BlockManager.Finalize(bc)
}

// ---------------------------------------------------------------- chain wrapper

type chainW struct {
	*test.Chain
	nm *nmW
	bm *bmW
	sm *smW
}

// smW: the fixture's service manager does not implement SendDoubleSignReport
// (its embedded interface is nil); the engine calls it when a validator
// equivocates.
type smW struct {
	module.ServiceManager
	mu      sync.Mutex
	reports int
}

func (s *smW) SendDoubleSignReport(result []byte, vh []byte, data []module.DoubleSignData) error {
	s.mu.Lock()
	s.reports++
	s.mu.Unlock()
	return nil
}

func (c *chainW) ServiceManager() module.ServiceManager { return c.sm }
func (c *chainW) NetworkManager() module.NetworkManager { return c.nm }
func (c *chainW) BlockManager() module.BlockManager     { return c.bm }

// ---------------------------------------------------------------- the node

const (
	timerD      = time.Second            // every step timer of the engine is 1 s
	timerMargin = 450 * time.Millisecond // never deliver when an armed timer is this close
	timerSafety = 60 * time.Millisecond
	stepNewHeight = 0
	stepTxWait    = 1
	stepNewRound  = 2
	stepCommit    = 8
)

type rnode struct {
	net   *netw
	idx   int // validator index
	nd    *test.Node
	chain *chainW
	eng   engine
	inc   int
	rec   *recorder
	wals  map[string]*walTrack
	base  string
	wdir  string

	bmu  sync.Mutex
	reqs []*bmReq

	harnessErr string

	timerPtr   *time.Timer
	timerLower time.Time // lower bound of the moment the armed timer was set
	lastPoll   time.Time
	down       bool
	t          *quietT

	// trace
	traceH   int64                // height of the trace being recorded
	hist     map[int64]*nodeHist  // per height
	lastOuts int                  // recorder index where the uncommitted outputs start
	pending  bool                 // the last event's outputs are neither committed nor cut yet
	initPend *tevent              // pseudo restart of a new height waiting for the new-height timer
	lastObs  consensus.VerifState // state after the last event (valid while up)
	fin      map[int64]bool       // heights finalized by this node (any incarnation)

	dead       bool                  // panicked: stays down
	preCrash   *consensus.VerifState // state after the last event before the crash
	cleanCrash bool                  // the crash was not cut inside an event
	downUntil  time.Time
	lastRedo   time.Time
	redoCur    int
	redoN      map[int64]int
	prevLock   [2]string
	lateFlag   bool
}

func newRnode(nw *netw, idx int) *rnode {
	r := &rnode{net: nw, idx: idx, rec: &recorder{}, wals: map[string]*walTrack{}, t: &quietT{}, hist: map[int64]*nodeHist{}, fin: map[int64]bool{}, redoN: map[int64]int{}, traceH: 1, down: true}
	r.nd = test.NewNode(r.t, test.UseGenesis(nw.genesis), test.UseWallet(nw.wallets[idx]))
	r.nd.Chain.Logger().SetLevel(log.PanicLevel)
	r.chain = &chainW{Chain: r.nd.Chain}
	r.chain.nm = &nmW{NetworkManager: r.nd.Chain.NetworkManager(), run: r}
	r.chain.bm = &bmW{BlockManager: r.nd.BM, run: r}
	r.chain.sm = &smW{ServiceManager: r.nd.SM}
	var err error
	r.base, err = os.MkdirTemp("", "c01-node")
	must(err)
	r.wdir = filepath.Join(r.base, "wal0")
	return r
}

func (r *rnode) close() {
	if r.eng != nil && !r.down {
		catch(func() { r.eng.Term() })
	}
	catch(func() { r.nd.Close() })
	os.RemoveAll(r.base)
}

func (r *rnode) stamp(o outRec, st consensus.VerifState) outRec {
	o.H, o.Round, o.Step, o.LRound, o.LID, o.Inc = st.Height, st.Round, st.Step, st.LockedRound, st.LockedID, r.inc
	o.At = time.Now()
	return o
}

func (r *rnode) stateNoLock() consensus.VerifState { return consensus.VerifStateOf(r.eng, false) }
func (r *rnode) state() consensus.VerifState       { return consensus.VerifStateOf(r.eng, true) }

func keyOfBlock(blk module.BlockData) string {
	return consensus.VerifPSIDKey(partsOf(blk).ID())
}

func partsOf(blk module.BlockData) consensus.PartSet {
	psb := consensus.NewPartSetBuffer(consensus.ConfigBlockPartSize)
	must(blk.MarshalHeader(psb))
	must(blk.MarshalBody(psb))
	return psb.PartSet()
}

// start creates a fresh engine on r.wdir and runs Start.
func (r *rnode) start() (consensus.VerifState, string) {
	r.inc++
	r.wals = map[string]*walTrack{}
	r.eng = consensus.New(r.chain, r.wdir, &walMgr{run: r}, nil, nil, nil, timerD)
	r.timerPtr = nil
	t0 := time.Now()
	var err error
	p := catch(func() { err = r.eng.Start() })
	if p != "" {
		return consensus.VerifState{}, "panic in Start: " + p
	}
	if err != nil {
		return consensus.VerifState{}, "Start failed: " + err.Error()
	}
	r.down = false
	r.prevLock = [2]string{"-1", ""}
	return r.after(t0), ""
}

// settle waits until the real block manager has finished every request that
// the engine has not cancelled, so that releasing a callback is deterministic.
func (r *rnode) settle() {
	deadline := time.Now().Add(8 * time.Second)
	for {
		busy := false
		r.bmu.Lock()
		for _, q := range r.reqs {
			if q.inc == r.inc && !q.cancelled && !q.done {
				busy = true
			}
		}
		r.bmu.Unlock()
		if !busy {
			return
		}
		if time.Now().After(deadline) {
			r.harnessErr = "block manager request did not complete"
			return
		}
		time.Sleep(200 * time.Microsecond)
	}
}

func (r *rnode) timerDur(step int) time.Duration {
	switch step {
	case stepNewHeight:
		return 50 * time.Millisecond // Regulator().CommitTimeout() of the fixture
	case stepNewRound:
		return 0 // nextProposeTime - now: unknown, at most 1 s: nothing is delivered while it is armed
	}
	return timerD
}

// lateForTimer: the timer that is armed now may already have fired (checked
// AFTER the outputs of an event have been collected: if it fired before that,
// this is true).
func (r *rnode) lateForTimer() bool {
	if r.lateFlag {
		r.lateFlag = false
		return true
	}
	if r.down || r.timerPtr == nil || r.lastObs.Step == stepNewHeight {
		return false
	}
	return time.Now().After(r.timerLower.Add(r.timerDur(r.lastObs.Step) - timerSafety))
}

// after is called when an event (started at t0) has been processed.  If an
// armed timer could have fired while the event was being delivered the
// attribution of outputs to events is ambiguous: the node's trace of this
// height is discarded (the direct oracles do not depend on attribution).
func (r *rnode) after(t0 time.Time) consensus.VerifState {
	r.settle()
	tRead := time.Now()
	st := r.state()
	t1 := time.Now()
	if r.timerPtr != nil && t1.Sub(r.timerLower) > r.timerDur(r.lastObs.Step)-timerSafety {
		r.discardTrace("an armed timer may have fired while an event was being delivered")
	}
	if t1.Sub(t0) > timerD-timerSafety {
		r.discardTrace("event processing took longer than a step timer")
	}
	if st.Timer != r.timerPtr {
		r.timerPtr = st.Timer
		r.timerLower = t0
	}
	r.lastPoll = tRead
	r.lastObs = st
	return st
}

func (r *rnode) discardTrace(why string) {
	h := r.histFor(r.traceH)
	if h.Discard == "" {
		h.Discard = why
	}
}

// timerClose tells whether an armed timer is too close to deliver anything.
func (r *rnode) timerClose() bool {
	if r.timerPtr == nil {
		return false
	}
	d := r.timerDur(r.lastObs.Step)
	return time.Since(r.timerLower) > d-timerMargin
}

// pollTimer detects a spontaneous timer event: the engine replaced or cleared
// the armed timer since the last look.
func (r *rnode) pollTimer() (consensus.VerifState, bool) {
	if r.down || r.timerPtr == nil {
		return consensus.VerifState{}, false
	}
	t0 := time.Now()
	st := r.state()
	if st.Timer == r.timerPtr {
		r.lastPoll = t0
		return st, false
	}
	r.settle()
	st = r.state()
	// the fire happened after the last look that saw the old timer; a timer armed
	// by that activation fires at least one step timer later: if that much time
	// has passed since the last look, two activations may have run unseen
	if time.Since(r.lastPoll) > timerD-timerSafety {
		r.lateFlag = true
	}
	r.timerPtr = st.Timer
	r.timerLower = r.lastPoll // the new timer was armed after the last look that saw the old one
	r.lastPoll = time.Now()
	r.lastObs = st
	return st, true
}

func (r *rnode) deliver(pi module.ProtocolInfo, bs []byte) (consensus.VerifState, string) {
	t0 := time.Now()
	p := catch(func() { _, _ = r.eng.OnReceive(pi, bs, peerID{1, 2, 3, 4}) })
	st := r.after(t0)
	return st, p
}

// pendingReqs lists requests whose callback can be released now.
func (r *rnode) pendingReqs() []*bmReq {
	r.bmu.Lock()
	defer r.bmu.Unlock()
	var l []*bmReq
	for _, q := range r.reqs {
		if q.inc == r.inc && q.h == r.traceH && !q.cancelled && q.done && !q.delivered {
			l = append(l, q)
		}
	}
	return l
}

func (r *rnode) release(q *bmReq) (consensus.VerifState, string) {
	r.bmu.Lock()
	q.delivered = true
	blk, err := q.blk, q.err
	r.bmu.Unlock()
	t0 := time.Now()
	p := catch(func() { q.cb(blk, err) })
	st := r.after(t0)
	return st, p
}

// ---------------------------------------------------------------- crash images

type crashSpec struct {
	Frac map[string]int // per WAL: how many of the unsynced bytes survive, in 1/1000
	Mode map[string]int // 0 = Frac, 1 = exactly one frame header into an unsynced frame, 2 = all, 3 = none
}

type crashResult struct {
	Keep map[string]int // complete unsynced records OF THE TRACE HEIGHT that survive, per WAL
	Info string
	Torn bool
}

func frameBytes(n int) int64 { return int64(8 + n) }

// crash terminates the engine and builds the on-disk WAL image of a crash that
// happened when exactly `cut` recorder entries existed: the bytes synced up to
// then plus a chosen number of the unsynced ones (c02's mechanism).
func (r *rnode) crash(cut int, sp crashSpec) crashResult {
	catch(func() { r.eng.Term() })
	r.down = true
	res := crashResult{Keep: map[string]int{}}
	ndir := filepath.Join(r.base, fmt.Sprintf("wal%d", r.inc))
	must(os.MkdirAll(ndir, 0o700))
	outs := r.rec.slice(0, r.rec.len())
	for _, name := range []string{"round", "lock", "commit"} {
		tr := r.wals[name]
		if tr == nil {
			continue
		}
		data, err := os.ReadFile(tr.file)
		if err != nil {
			r.harnessErr = "cannot read WAL file: " + err.Error()
			continue
		}
		total := tr.baseSize
		for _, l := range tr.frames {
			total += frameBytes(l)
		}
		if int64(len(data)) != total {
			r.harnessErr = fmt.Sprintf("WAL %s: file has %d bytes, expected %d (frame layout assumption broken)", name, len(data), total)
			// keep everything: a clean image
			must(os.WriteFile(filepath.Join(ndir, filepath.Base(tr.file)), data, 0o600))
			continue
		}
		written := 0
		for _, at := range tr.recAt {
			if at < cut {
				written++
			}
		}
		synced, w := 0, 0
		for i := 0; i < cut && i < len(outs); i++ {
			o := outs[i]
			if o.Inc != r.inc || o.Wal != name {
				continue
			}
			if o.Kind == oWalWrite {
				w++
			} else if o.Kind == oWalSync {
				synced = w
			}
		}
		s := tr.baseSize
		for i := 0; i < synced; i++ {
			s += frameBytes(tr.frames[i])
		}
		var u int64
		for i := synced; i < written; i++ {
			u += frameBytes(tr.frames[i])
		}
		var k int64
		switch sp.Mode[name] {
		case 1:
			if u >= 8 {
				k = 8
				idx := synced
				for skip := sp.Frac[name] % 3; skip > 0 && idx < written-1; skip-- {
					k += frameBytes(tr.frames[idx])
					idx++
				}
			}
		case 2:
			k = u
		case 3:
			k = 0
		default:
			k = u * int64(sp.Frac[name]) / 1000
		}
		if k > u {
			k = u
		}
		keep, keepCur := 0, 0
		acc, accKept := int64(0), int64(0)
		for i := synced; i < written; i++ {
			acc += frameBytes(tr.frames[i])
			if acc <= k {
				keep++
				accKept = acc
				if tr.frameH[i] == r.traceH {
					keepCur++
				}
			}
		}
		if accKept != k {
			res.Torn = true
		}
		res.Keep[name] = keepCur
		res.Info += fmt.Sprintf("%s: synced=%d unsynced=%dB kept=%dB(%d rec, %d of this height) ", name, s, u, k, keep, keepCur)
		must(os.WriteFile(filepath.Join(ndir, filepath.Base(tr.file)), data[:s+k], 0o600))
	}
	r.wdir = ndir
	return res
}
