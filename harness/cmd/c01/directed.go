// directed.go — directed scenarios: scripts that steer the schedule instead of
// the random scheduler (everything is held; the script delivers explicitly).
package main

import (
	"fmt"
	"os"
	"time"

	"github.com/icon-project/goloop/consensus"
)

func directedNames() []string {
	return []string{"stale-lock", "old-polka", "split-precommit", "equivocal-proposal", "late-decision"}
}

func directedShape(name string) (n int, byz []int, heights int) {
	switch name {
	case "stale-lock":
		return 4, []int{3}, 1
	case "equivocal-proposal":
		return 4, []int{1}, 1 // the Byzantine validator is the proposer of (height 1, round 0)
	}
	return 4, []int{3}, 1
}

func directedScenario(style string) func(*netw) {
	switch style {
	case "directed:stale-lock":
		return scenarioStaleLock
	case "directed:old-polka":
		return scenarioOldPolka
	case "directed:split-precommit":
		return scenarioSplitPrecommit
	case "directed:equivocal-proposal":
		return scenarioEquivocalProposal
	case "directed:late-decision":
		return scenarioLateDecision
	}
	return nil
}

// ---------------------------------------------------------------- primitives

// pump: let time pass for d (poll timers, release callbacks), nothing is delivered.
func (nw *netw) pump(d time.Duration) {
	end := time.Now().Add(d)
	for time.Now().Before(end) {
		nw.pollTimers()
		nw.releaseAll()
		time.Sleep(300 * time.Microsecond)
	}
}

func (nw *netw) releaseAll() {
	for _, i := range nw.reals {
		r := nw.nodes[i]
		for nw.nodeReady(r) {
			pend := r.pendingReqs()
			if len(pend) == 0 {
				break
			}
			nw.evCallback(r, pend[0])
		}
	}
}

// waitFor pumps until cond holds (true) or max has passed (false).
func (nw *netw) waitFor(max time.Duration, cond func() bool) bool {
	end := time.Now().Add(max)
	for {
		nw.pollTimers()
		nw.releaseAll()
		if cond() {
			return true
		}
		if time.Now().After(end) {
			return false
		}
		time.Sleep(300 * time.Microsecond)
	}
}

// give delivers every not yet delivered pool packet matching pred to node `to`
// (waiting out a timer that is about to fire).  Returns the number delivered.
func (nw *netw) give(to int, pred func(p *packet) bool) int {
	r := nw.nodes[to]
	cnt := 0
	for idx := 0; idx < len(nw.pool); idx++ {
		p := nw.pool[idx]
		ds := p.dst[to]
		if ds == nil {
			if p.only != nil && !p.only[to] {
				continue
			}
			ds = &dstState{}
			p.dst[to] = ds
		}
		if ds.delivered != 0 || p.H != r.traceH || !pred(p) {
			continue
		}
		if !nw.waitFor(3*time.Second, func() bool { return nw.nodeReady(r) }) {
			nw.note("give: node %d not ready", to)
			return cnt
		}
		if p.H != r.traceH {
			continue
		}
		nw.evDeliver(r, p, nil)
		nw.releaseAll()
		cnt++
	}
	return cnt
}

func voteOfRound(from int, round int32, typ int) func(p *packet) bool {
	return func(p *packet) bool {
		return p.Kind == "vote" && p.From == from && p.Round == round && p.V.Type == typ
	}
}

func (nw *netw) st(i int) consensus.VerifState { return nw.nodes[i].lastObs }

func (nw *netw) atLeast(i int, round int32, step int) func() bool {
	return func() bool {
		s := nw.st(i)
		return s.Round > round || (s.Round == round && s.Step >= step)
	}
}

// ---------------------------------------------------------------- probe (developer aid)

func probe() {
	var cfg netCfg
	cfg.N, cfg.Heights, cfg.Style, cfg.MaxWall, cfg.Seed = 4, 2, "fair", 40, 1
	cfg.Byz = []int{3}
	cfg.WindowPM = -1
	fmt.Sscanf(os.Getenv("C01_PROBE"), "%d %d %s %d %d %d %d", &cfg.N, &cfg.Heights, &cfg.Style, &cfg.Seed, &cfg.CrashPM, &cfg.WindowPM, &cfg.Byz[0])
	if cfg.WindowPM < 0 {
		cfg.WindowPM = cfg.CrashPM * 4
	}
	if cfg.N == 7 {
		cfg.Byz = []int{2, 5}
	}
	if n, byz, h := directedShape(cfg.Style[len("directed:")*b2i(len(cfg.Style) > 9 && cfg.Style[:9] == "directed:"):]); len(cfg.Style) > 9 && cfg.Style[:9] == "directed:" {
		cfg.N, cfg.Byz, cfg.Heights = n, byz, h
	}
	res := runNet(cfg)
	nw := res.nw
	fmt.Fprintf(realStderr, "net %s: wall=%.1fs harness=%q\n", cfg.Style, res.wall.Seconds(), res.harness)
	if nw == nil {
		return
	}
	for _, n := range nw.notes {
		fmt.Fprintln(realStderr, "  ", n)
	}
	fmt.Fprintf(realStderr, "events=%d packets=%d byzpk=%d dup=%d held=%d crashes=%d fused=%d torn=%d finals=%d aborted=%q\n", nw.nEvents, len(nw.pool), nw.nByzPk, nw.nDup, nw.nHeld, nw.nCrashes, nw.nFused, nw.nTorn, len(nw.finals), nw.aborted)
	for _, o := range nw.oracle {
		fmt.Fprintln(realStderr, "ORACLE:", o)
	}
	for _, i := range nw.reals {
		r := nw.nodes[i]
		for h := int64(1); h <= int64(cfg.Heights)+1; h++ {
			hist := r.hist[h]
			if hist == nil {
				continue
			}
			ok, why := nw.usableHist(hist)
			fmt.Fprintf(realStderr, "node %d h=%d: events=%d crashes=%d restarts=%d finals=%d byzseen=%d confl=%v usable=%v %s harnessErr=%q\n", i, h, len(hist.Events), hist.Crashes, hist.Restarts, hist.Finals, hist.ByzSeen, hist.ByzConfl, ok, why, r.harnessErr)
			if os.Getenv("C01_PROBE_V") != "" {
				rt := rot{nw.n, int((h - 1) % int64(nw.n))}
				for j, e := range hist.Events {
					fmt.Fprintf(realStderr, " %3d [%d] %s delay=%v cut=%d %s\n", j, e.Seq, coqEvent(rt, e), e.Delay, e.Cut, e.Note)
					for _, o := range e.Outs {
						fmt.Fprintf(realStderr, "        > %s\n", coqOut(rt, o))
					}
					fmt.Fprintf(realStderr, "        = %s\n", coqObs(e.Post))
				}
			}
		}
	}
	if out := os.Getenv("C01_PROBE_COQ"); out != "" {
		f, _ := os.Create(out)
		fmt.Fprintln(f, "From Coq Require Import List NArith ZArith String. Import ListNotations.\nFrom GoloopRun Require Import Run_C01.\nLocal Open Scope N_scope.\nDefinition cases : list case := [")
		first := true
		for h := int64(1); h <= int64(cfg.Heights); h++ {
			for _, i := range nw.reals {
				hist := nw.nodes[i].hist[h]
				if ok, _ := nw.usableHist(hist); ok {
					if !first {
						fmt.Fprintln(f, ";")
					}
					first = false
					fmt.Fprintf(f, "(CNode %s)", coqNodeCase(nw.n, hist, nw.blocksOf(h)))
				}
			}
			t, _, _ := nw.coqNetCase(h, false)
			if !first {
				fmt.Fprintln(f, ";")
			}
			first = false
			fmt.Fprint(f, t)
		}
		fmt.Fprintln(f, "].\nDefinition M := Eval vm_compute in mismatches cases.\nPrint M.")
		f.Close()
	}
	res.finish()
}

func b2i(b bool) int {
	if b {
		return 1
	}
	return 0
}


// hasVote: a vote of validator `from` for (round, type) exists in the pool
func (nw *netw) hasVote(from int, round int32, typ int) bool {
	for _, p := range nw.pool {
		if p.Kind == "vote" && p.From == from && p.Round == round && p.V.Type == typ {
			return true
		}
	}
	return false
}

func (nw *netw) voteMsgs(h int64, round int32, typ int, blk int) []*consensus.VoteMessage {
	var l []*consensus.VoteMessage
	seen := map[int]bool{}
	for _, p := range nw.pool {
		if p.Kind == "vote" && p.H == h && p.Round == round && p.V.Type == typ && p.V.Dec == blk && !seen[p.From] {
			seen[p.From] = true
			l = append(l, p.votes[0])
		}
	}
	return l
}

// scenarioStaleLock steers the schedule of docs/notes/C01_spec.md §0 with REAL
// correct nodes (height 1, proposers 1,2,3,0,1: A=1, V=2, Z=3 Byzantine, C=0):
//
//	r0  A proposes B; A,V,C prevote B; only V sees the polka: locks (0,B),
//	    precommits B; A, C time out and precommit nil
//	r1  V (proposer, locked) re-proposes B but its packets are delayed; A, C, Z
//	    prevote nil: a nil polka of round 1 that does NOT reach V (Z's vote is
//	    delayed); everybody precommits nil
//	r2  Z (proposer, Byzantine) proposes B with POLRound 0; A, V, C prevote B;
//	    V re-locks (2,B) and precommits B; A locks (2,B), precommits B; C sees
//	    no polka (Z tells C nil); Z precommits B to A only: A FINALIZES B
//	--  V crashes and restarts; the delayed round-1 nil prevote of Z arrives
//	r3  C (proposer, unlocked) proposes a fresh block C'; Z votes C'.  With the
//	    lock round of the re-lock durable (commit 54006ba) V is still locked on
//	    (2,B) and prevotes B: no polka for C'.  Without it V comes back locked
//	    on (0,B), the round-1 nil polka unlocks it, V prevotes C', and V and C
//	    finalize C' while A has finalized B.
func scenarioStaleLock(nw *netw) { scenarioLock(nw, true) }

// scenarioOldPolka: the same schedule WITHOUT the crash: the round-1 nil polka
// reaches V while it is locked on (2,B); it must not unlock (1 < 2).
func scenarioOldPolka(nw *netw) { scenarioLock(nw, false) }

func scenarioLock(nw *netw, withCrash bool) {
	const A, V, Z, C = 1, 2, 3, 0
	const pv, pc = 0, 1
	sec := time.Second
	step := func(ok bool, what string) bool {
		if !ok {
			nw.note("stale-lock: did not reach: %s", what)
		}
		return ok
	}
	ts := func() int64 { return nw.nowMicro() }
	propOf := func(round int32, injected bool) func(p *packet) bool {
		return func(p *packet) bool {
			if (p.Src < 0) != injected {
				return false
			}
			return (p.Kind == "proposal" && p.Round == round) || p.Kind == "part" || (p.Kind == "votelist" && injected)
		}
	}
	// ---- round 0
	if !step(nw.waitFor(4*sec, func() bool { return len(nw.proposalsOf(1, 0)) > 0 }), "proposal of A in round 0") {
		return
	}
	B := nw.proposalsOf(1, 0)[0]
	nw.give(V, propOf(0, false))
	nw.give(C, propOf(0, false))
	if !step(nw.waitFor(4*sec, func() bool { return nw.hasVote(A, 0, pv) && nw.hasVote(V, 0, pv) && nw.hasVote(C, 0, pv) }), "prevotes of round 0") {
		return
	}
	nw.give(V, voteOfRound(A, 0, pv))
	nw.give(V, voteOfRound(C, 0, pv))
	if !step(nw.st(V).LockedRound == 0 && nw.st(V).LockedID == B.Key, "V locked on (0,B)") {
		return
	}
	nw.injectVote(nw.mkVote(Z, consensus.VoteTypePrevote, 1, 0, nil, ts()), []int{A, C})
	nw.give(A, voteOfRound(C, 0, pv))
	nw.give(A, voteOfRound(Z, 0, pv))
	nw.give(C, voteOfRound(A, 0, pv))
	nw.give(C, voteOfRound(Z, 0, pv))
	if !step(nw.waitFor(4*sec, func() bool { return nw.hasVote(A, 0, pc) && nw.hasVote(C, 0, pc) }), "A and C precommit (nil) in round 0 after their prevote timeout") {
		return
	}
	nw.injectVote(nw.mkVote(Z, consensus.VoteTypePrecommit, 1, 0, nil, ts()), nil)
	anyPC := func(round int32) func(p *packet) bool {
		return func(p *packet) bool { return p.Kind == "vote" && p.Round == round && p.V.Type == pc }
	}
	for _, x := range []int{A, C, V} {
		x := x
		nw.give(x, func(p *packet) bool { return anyPC(0)(p) && p.From != x })
	}
	if !step(nw.waitFor(4*sec, func() bool { return nw.st(A).Round >= 1 && nw.st(C).Round >= 1 && nw.st(V).Round >= 1 }), "everybody in round 1") {
		return
	}
	// ---- round 1: V's re-proposal is delayed; A and C time out and prevote nil
	if !step(nw.waitFor(4*sec, func() bool { return nw.hasVote(A, 1, pv) && nw.hasVote(C, 1, pv) }), "A and C prevote (nil) in round 1") {
		return
	}
	nw.injectVote(nw.mkVote(Z, consensus.VoteTypePrevote, 1, 1, nil, ts()), nil) // reaches V only after its restart
	nw.give(A, voteOfRound(C, 1, pv))
	nw.give(A, voteOfRound(Z, 1, pv))
	nw.give(C, voteOfRound(A, 1, pv))
	nw.give(C, voteOfRound(Z, 1, pv))
	nw.give(V, voteOfRound(A, 1, pv))
	nw.give(V, voteOfRound(C, 1, pv))
	if !step(nw.waitFor(5*sec, func() bool { return nw.hasVote(V, 1, pc) && nw.hasVote(A, 1, pc) && nw.hasVote(C, 1, pc) }), "precommits (nil) of round 1") {
		return
	}
	nw.injectVote(nw.mkVote(Z, consensus.VoteTypePrecommit, 1, 1, nil, ts()), nil)
	for _, x := range []int{A, C, V} {
		x := x
		nw.give(x, func(p *packet) bool { return anyPC(1)(p) && p.From != x })
	}
	if !step(nw.waitFor(4*sec, func() bool { return nw.st(A).Round >= 2 && nw.st(C).Round >= 2 && nw.st(V).Round >= 2 }), "everybody in round 2") {
		return
	}
	// ---- round 2: the Byzantine proposer re-proposes B with the round-0 polka
	nw.injectProposal(Z, 1, 2, 0, B, nil, true)
	nw.injectVoteList(nw.voteMsgs(1, 0, pv, B.ID), nil)
	for _, x := range []int{A, C, V} {
		nw.give(x, propOf(2, true))
	}
	if !step(nw.waitFor(4*sec, func() bool { return nw.hasVote(A, 2, pv) && nw.hasVote(V, 2, pv) && nw.hasVote(C, 2, pv) }), "prevotes of round 2") {
		return
	}
	nw.injectVote(nw.mkVote(Z, consensus.VoteTypePrevote, 1, 2, B, ts()), []int{A, V})
	nw.injectVote(nw.mkVote(Z, consensus.VoteTypePrevote, 1, 2, nil, ts()+1), []int{C})
	nw.give(V, voteOfRound(A, 2, pv))
	nw.give(V, voteOfRound(C, 2, pv))
	step(nw.st(V).LockedRound == 2 && nw.st(V).LockedID == B.Key, "V re-locked on (2,B)")
	nw.give(A, voteOfRound(V, 2, pv))
	nw.give(A, voteOfRound(Z, 2, pv))
	nw.give(C, voteOfRound(A, 2, pv))
	nw.give(C, voteOfRound(Z, 2, pv))
	if !step(nw.waitFor(4*sec, func() bool { return nw.hasVote(C, 2, pc) && nw.hasVote(A, 2, pc) && nw.hasVote(V, 2, pc) }), "precommits of round 2 (V: B, A: B, C: nil)") {
		return
	}
	nw.injectVote(nw.mkVote(Z, consensus.VoteTypePrecommit, 1, 2, B, ts()), []int{A})
	nw.give(A, voteOfRound(V, 2, pc))
	nw.give(A, voteOfRound(Z, 2, pc))
	if !step(nw.waitFor(4*sec, func() bool { return nw.nodes[A].fin[1] }), "A finalizes B") {
		return
	}
	// ---- V crashes and restarts; the delayed nil prevote of round 1 arrives
	if withCrash {
		nw.crashNow(nw.nodes[V], cleanCrashPlan().Spec)
		nw.restartNode(nw.nodes[V])
	}
	nw.note("stale-lock: V after restart: round=%d step=%d lock=(%d,%s)", nw.st(V).Round, nw.st(V).Step, nw.st(V).LockedRound, nw.nameOfKey(nw.st(V).LockedID))
	nw.give(V, voteOfRound(A, 1, pv))
	nw.give(V, voteOfRound(C, 1, pv))
	nw.give(V, voteOfRound(Z, 1, pv))
	nw.note("stale-lock: V after the round-1 nil polka: lock=(%d,%s)", nw.st(V).LockedRound, nw.nameOfKey(nw.st(V).LockedID))
	// everybody left moves to round 3 (no +2/3 precommits for anything in round 2)
	nw.give(V, voteOfRound(A, 2, pc))
	nw.give(V, voteOfRound(C, 2, pc))
	nw.give(C, voteOfRound(V, 2, pc))
	nw.give(C, voteOfRound(A, 2, pc))
	if !step(nw.waitFor(5*sec, func() bool { return nw.st(V).Round >= 3 && nw.st(C).Round >= 3 }), "V and C in round 3") {
		return
	}
	// ---- round 3: C proposes a fresh block
	if !step(nw.waitFor(4*sec, func() bool { return len(nw.proposalsOf(1, 3)) > 0 }), "proposal of C in round 3") {
		return
	}
	Cp := nw.proposalsOf(1, 3)[0]
	nw.give(V, propOf(3, false))
	if !step(nw.waitFor(4*sec, func() bool { return nw.hasVote(V, 3, pv) && nw.hasVote(C, 3, pv) }), "prevotes of round 3") {
		return
	}
	nw.injectVote(nw.mkVote(Z, consensus.VoteTypePrevote, 1, 3, Cp, ts()), []int{V, C})
	nw.give(V, voteOfRound(C, 3, pv))
	nw.give(V, voteOfRound(Z, 3, pv))
	nw.give(C, voteOfRound(V, 3, pv))
	nw.give(C, voteOfRound(Z, 3, pv))
	nw.waitFor(3*sec, func() bool { return nw.hasVote(V, 3, pc) && nw.hasVote(C, 3, pc) })
	nw.injectVote(nw.mkVote(Z, consensus.VoteTypePrecommit, 1, 3, Cp, ts()), []int{V, C})
	nw.give(V, voteOfRound(C, 3, pc))
	nw.give(V, voteOfRound(Z, 3, pc))
	nw.give(C, voteOfRound(V, 3, pc))
	nw.give(C, voteOfRound(Z, 3, pc))
	nw.waitFor(1500*time.Millisecond, func() bool { return nw.nodes[V].fin[1] || nw.nodes[C].fin[1] })
	nw.scriptOK = true
}

// scenarioSplitPrecommit: precommits for one block spread over DIFFERENT
// rounds must not add up to a commit (height 1, A=1, V=2, Z=3 Byzantine, C=0):
//
//	r0  A proposes B; only V sees the polka: V precommits B in round 0; A, C nil
//	r1  V re-proposes B (POL 0); A, V, C prevote B; only A sees the polka: A
//	    precommits B in round 1; V and C time out: nil
//	    Z precommits B in round 2 (a future round) to C.
//	    C now holds precommits for B of V (round 0), A (round 1), Z (round 2):
//	    three validators, but never more than one per round.  C must not commit.
func scenarioSplitPrecommit(nw *netw) {
	const A, V, Z, C = 1, 2, 3, 0
	const pv, pc = 0, 1
	sec := time.Second
	step := func(ok bool, what string) bool {
		if !ok {
			nw.note("split-precommit: did not reach: %s", what)
		}
		return ok
	}
	ts := func() int64 { return nw.nowMicro() }
	isProp := func(round int32) func(p *packet) bool {
		return func(p *packet) bool {
			return (p.Kind == "proposal" && p.Round == round) || p.Kind == "part" || (p.Kind == "votelist" && p.Src == V)
		}
	}
	if !step(nw.waitFor(4*sec, func() bool { return len(nw.proposalsOf(1, 0)) > 0 }), "proposal of A in round 0") {
		return
	}
	B := nw.proposalsOf(1, 0)[0]
	nw.give(V, isProp(0))
	nw.give(C, isProp(0))
	if !step(nw.waitFor(4*sec, func() bool { return nw.hasVote(A, 0, pv) && nw.hasVote(V, 0, pv) && nw.hasVote(C, 0, pv) }), "prevotes of round 0") {
		return
	}
	nw.give(V, voteOfRound(A, 0, pv))
	nw.give(V, voteOfRound(C, 0, pv))
	if !step(nw.st(V).LockedRound == 0 && nw.st(V).LockedID == B.Key, "V locked on (0,B)") {
		return
	}
	nw.injectVote(nw.mkVote(Z, consensus.VoteTypePrevote, 1, 0, nil, ts()), []int{A, C})
	nw.give(A, voteOfRound(C, 0, pv))
	nw.give(A, voteOfRound(Z, 0, pv))
	nw.give(C, voteOfRound(A, 0, pv))
	nw.give(C, voteOfRound(Z, 0, pv))
	if !step(nw.waitFor(4*sec, func() bool { return nw.hasVote(A, 0, pc) && nw.hasVote(C, 0, pc) }), "A and C precommit nil in round 0") {
		return
	}
	nw.injectVote(nw.mkVote(Z, consensus.VoteTypePrecommit, 1, 0, nil, ts()), nil)
	for _, x := range []int{A, C, V} {
		x := x
		nw.give(x, func(p *packet) bool { return p.Kind == "vote" && p.Round == 0 && p.V.Type == pc && p.From != x })
	}
	if !step(nw.waitFor(4*sec, func() bool { return nw.st(A).Round >= 1 && nw.st(C).Round >= 1 && nw.st(V).Round >= 1 }), "everybody in round 1") {
		return
	}
	// ---- round 1: V's re-proposal of B (POL round 0) reaches A and C
	if !step(nw.waitFor(3*sec, func() bool { return len(nw.proposalsOf(1, 1)) > 0 }), "re-proposal of V in round 1") {
		return
	}
	nw.give(A, isProp(1))
	nw.give(C, isProp(1))
	if !step(nw.waitFor(4*sec, func() bool { return nw.hasVote(A, 1, pv) && nw.hasVote(C, 1, pv) && nw.hasVote(V, 1, pv) }), "prevotes of round 1") {
		return
	}
	nw.injectVote(nw.mkVote(Z, consensus.VoteTypePrevote, 1, 1, nil, ts()), []int{V, C})
	nw.give(A, voteOfRound(C, 1, pv))
	nw.give(A, voteOfRound(V, 1, pv))
	step(nw.st(A).LockedRound == 1 && nw.st(A).LockedID == B.Key, "A locked on (1,B)")
	nw.give(V, voteOfRound(A, 1, pv))
	nw.give(V, voteOfRound(Z, 1, pv))
	nw.give(C, voteOfRound(A, 1, pv))
	nw.give(C, voteOfRound(Z, 1, pv))
	if !step(nw.waitFor(4*sec, func() bool { return nw.hasVote(V, 1, pc) && nw.hasVote(C, 1, pc) && nw.hasVote(A, 1, pc) }), "precommits of round 1 (A: B, V and C: nil)") {
		return
	}
	// ---- C is handed B-precommits of three validators, one per round
	nw.injectVote(nw.mkVote(Z, consensus.VoteTypePrecommit, 1, 2, B, ts()), []int{C})
	nw.give(C, voteOfRound(Z, 2, pc))
	nw.give(C, voteOfRound(V, 1, pc))
	nw.give(C, voteOfRound(A, 1, pc))
	nw.pump(300 * time.Millisecond)
	nw.note("split-precommit: C holds B-precommits of V@0, A@1, Z@2; C finalized=%v", nw.nodes[C].fin[1])
	nw.scriptOK = true
}

// scenarioEquivocalProposal: the decided block must be the one that is
// finalized, also by a validator that holds ANOTHER complete proposal and learns
// the decision from the precommits alone (height 1, Z=1 Byzantine proposer of
// round 0, V=0, B=2, C=3 real):
//
//	r0  Z proposes X (proposal + all parts) to V and Y to B and C (V also gets
//	    Y's parts: they go to its block part cache); V prevotes X, B and C
//	    prevote Y, Z prevotes Y to B and C: polka for Y at B and C, they
//	    precommit Y, Z precommits Y.
//	    V is given the three PRECOMMITS for Y and none of the prevotes for Y:
//	    +2/3 precommits -> enterCommit(Y) while currentBlockParts holds the
//	    complete block X.  V must finalize Y (as B and C do).
func scenarioEquivocalProposal(nw *netw) {
	const Z, V, B, C = 1, 0, 2, 3
	const pv, pc = 0, 1
	sec := time.Second
	step := func(ok bool, what string) bool {
		if !ok {
			nw.note("equivocal-proposal: did not reach: %s", what)
		}
		return ok
	}
	ts := func() int64 { return nw.nowMicro() }
	X := nw.shadowBlock(Z, 1, "x")
	Y := nw.shadowBlock(Z, 1, "y")
	if !step(X != nil && Y != nil && X.ID != Y.ID, "two blocks of the Byzantine proposer") {
		return
	}
	nw.injectProposal(Z, 1, 0, -1, X, []int{V}, true)
	nw.injectProposal(Z, 1, 0, -1, Y, []int{B, C}, true)
	isProp := func(b *blockInfo) func(p *packet) bool {
		return func(p *packet) bool {
			return (p.Kind == "proposal" && p.Blk == b.ID) || (p.Kind == "part" && p.Blk == b.ID)
		}
	}
	nw.give(V, isProp(X))
	nw.give(B, isProp(Y))
	nw.give(C, isProp(Y))
	// the parts of Y reach V as well (block part cache)
	for _, p := range nw.pool {
		if p.Kind == "part" && p.Blk == Y.ID {
			p.only = nil
		}
	}
	nw.give(V, func(p *packet) bool { return p.Kind == "part" && p.Blk == Y.ID })
	if !step(nw.waitFor(4*sec, func() bool { return nw.hasVote(V, 0, pv) && nw.hasVote(B, 0, pv) && nw.hasVote(C, 0, pv) }), "prevotes of round 0 (V: X, B and C: Y)") {
		return
	}
	step(nw.st(V).CurID == X.Key && nw.st(V).CurComplete, "V holds the complete block X")
	nw.injectVote(nw.mkVote(Z, consensus.VoteTypePrevote, 1, 0, Y, ts()), []int{B, C})
	nw.give(B, voteOfRound(C, 0, pv))
	nw.give(B, voteOfRound(Z, 0, pv))
	nw.give(C, voteOfRound(B, 0, pv))
	nw.give(C, voteOfRound(Z, 0, pv))
	if !step(nw.waitFor(4*sec, func() bool { return nw.hasVote(B, 0, pc) && nw.hasVote(C, 0, pc) }), "B and C precommit Y") {
		return
	}
	nw.injectVote(nw.mkVote(Z, consensus.VoteTypePrecommit, 1, 0, Y, ts()), nil)
	// V learns the decision from the precommits alone
	nw.give(V, voteOfRound(B, 0, pc))
	nw.give(V, voteOfRound(C, 0, pc))
	nw.give(V, voteOfRound(Z, 0, pc))
	nw.waitFor(3*sec, func() bool { return nw.nodes[V].fin[1] })
	nw.note("equivocal-proposal: V finalized=%v", nw.nodes[V].fin[1])
	// B and C decide as well
	nw.give(B, voteOfRound(C, 0, pc))
	nw.give(B, voteOfRound(Z, 0, pc))
	nw.give(C, voteOfRound(B, 0, pc))
	nw.give(C, voteOfRound(Z, 0, pc))
	nw.waitFor(3*sec, func() bool { return nw.nodes[B].fin[1] && nw.nodes[C].fin[1] })
	nw.scriptOK = true
}

// scenarioLateDecision: a decision of an EARLIER round reaches a validator that
// has moved on and holds the complete proposal of a later round; nobody
// equivocates (height 1, proposers 1,2: A=1, V=2, C=0 real, Z=3 votes like a
// slow correct validator):
//
//	r0  A proposes Y; A, V, C prevote Y, Z prevotes nil (it "missed" the
//	    proposal); A and C see the polka and precommit Y; V sees no polka (one
//	    prevote is delayed), times out and precommits nil; Z precommits Y.
//	    A and C finalize Y (precommits of A, C, Z).  V has the precommits of A
//	    and C only: no decision, precommit timeout, round 1.
//	r1  V is the proposer, unlocked: it proposes a fresh block Z' and holds it
//	    complete and validated.  Now Z's delayed round-0 precommit for Y
//	    arrives: +2/3 precommits for Y in round 0 -> enterCommit(Y, 0).
//	    V must finalize Y, not the block it holds.
func scenarioLateDecision(nw *netw) {
	const A, V, Z, C = 1, 2, 3, 0
	const pv, pc = 0, 1
	sec := time.Second
	step := func(ok bool, what string) bool {
		if !ok {
			nw.note("late-decision: did not reach: %s", what)
		}
		return ok
	}
	ts := func() int64 { return nw.nowMicro() }
	isProp := func(round int32) func(p *packet) bool {
		return func(p *packet) bool { return (p.Kind == "proposal" && p.Round == round) || p.Kind == "part" }
	}
	if !step(nw.waitFor(4*sec, func() bool { return len(nw.proposalsOf(1, 0)) > 0 }), "proposal of A in round 0") {
		return
	}
	Y := nw.proposalsOf(1, 0)[0]
	nw.give(V, isProp(0))
	nw.give(C, isProp(0))
	if !step(nw.waitFor(4*sec, func() bool { return nw.hasVote(A, 0, pv) && nw.hasVote(V, 0, pv) && nw.hasVote(C, 0, pv) }), "prevotes of round 0") {
		return
	}
	nw.injectVote(nw.mkVote(Z, consensus.VoteTypePrevote, 1, 0, nil, ts()), nil)
	nw.give(A, voteOfRound(C, 0, pv))
	nw.give(A, voteOfRound(V, 0, pv))
	nw.give(C, voteOfRound(A, 0, pv))
	nw.give(C, voteOfRound(V, 0, pv))
	nw.give(V, voteOfRound(A, 0, pv))
	nw.give(V, voteOfRound(Z, 0, pv))
	if !step(nw.waitFor(4*sec, func() bool { return nw.hasVote(A, 0, pc) && nw.hasVote(C, 0, pc) && nw.hasVote(V, 0, pc) }), "precommits of round 0 (A, C: Y; V: nil)") {
		return
	}
	nw.injectVote(nw.mkVote(Z, consensus.VoteTypePrecommit, 1, 0, Y, ts()), nil)
	nw.give(A, voteOfRound(C, 0, pc))
	nw.give(A, voteOfRound(Z, 0, pc))
	nw.give(C, voteOfRound(A, 0, pc))
	nw.give(C, voteOfRound(Z, 0, pc))
	if !step(nw.waitFor(4*sec, func() bool { return nw.nodes[A].fin[1] && nw.nodes[C].fin[1] }), "A and C finalize Y") {
		return
	}
	// V: two precommits for Y + its own nil: no decision; precommit timeout; round 1
	nw.give(V, voteOfRound(A, 0, pc))
	nw.give(V, voteOfRound(C, 0, pc))
	if !step(nw.waitFor(5*sec, func() bool { return nw.st(V).Round >= 1 && len(nw.proposalsOf(1, 1)) > 0 }), "V in round 1 with its own proposal") {
		return
	}
	Zp := nw.proposalsOf(1, 1)[0]
	step(Zp.ID != Y.ID && nw.st(V).CurID == Zp.Key && nw.st(V).CurComplete, "V holds the complete block of round 1")
	// the delayed round-0 precommit arrives
	nw.give(V, voteOfRound(Z, 0, pc))
	nw.waitFor(3*sec, func() bool { return nw.nodes[V].fin[1] })
	nw.note("late-decision: V finalized=%v (decided block #%d, V's round-1 proposal #%d)", nw.nodes[V].fin[1], Y.ID, Zp.ID)
	nw.scriptOK = true
}
