// c01: MULTI-NODE runs for property C01 (consensus agreement).  k REAL
// consensus engines (each: own test.Node, real block manager, real file WALs
// kept across restarts) + the Byzantine validators (keys held by the harness,
// they equivocate) over a harness-controlled scrambling network (reorder,
// delay, drop with later re-delivery, duplicate), with crash / restart of real
// nodes (also cut inside the WAL-write -> sync -> send window), heights 1..H.
//
// Direct oracles (independent of any Coq model):
//
//	(O1) no two real nodes (or two incarnations of one) Finalize different
//	     blocks at one height;
//	(O2) every finalized block has more than 2n/3 precommits of distinct
//	     validators for it IN ONE ROUND in the traffic that existed at that
//	     moment (everything real nodes signed + everything the harness injected);
//	(O3) lock discipline on the observed state: after a restart lockedRound is
//	     not below the round of the last block precommit the node sent (and not
//	     below the pre-crash value for the same block); no prevote for anything
//	     but the locked block while locked; after precommitting B at round r a
//	     later prevote for something else needs a polka for something else at a
//	     round >= r among the prevotes the node was given; no block precommit
//	     without a polka among the prevotes the node was given or signed;
//	(O4) no real node signs two different votes per (height, round, type) or
//	     two proposals per (height, round), over all its incarnations;
//	(O5) no real node panics.
//
// Correspondence: every (node, height) trace is printed as a Run_C02 case and
// replayed in the node model (CNode); all events of a height in global order
// are run through Model_ConsensusNet.run_net (CNet).  See coq/run/Run_C01.v.
package main

import (
	"encoding/hex"
	"encoding/json"
	"fmt"
	"io"
	"os"
	"sort"
	"strings"
	"sync"
	"time"

	"github.com/icon-project/goloop/common/log"
	"github.com/icon-project/goloop/consensus"
	"verif/harness/hxlib"
)

// ---------------------------------------------------------------- replayable input

type netRecord struct {
	N          int        `json:"n"`
	Byz        []int      `json:"byz"`
	Validators []string   `json:"validators"` // addresses, by index
	Finals     []finalRec `json:"finals"`
	Votes      []voteRec  `json:"votes"` // every signed vote of the traffic
	Sent       []sentRec  `json:"sent"`  // votes / proposals real nodes handed to the network
	Oracle     []string   `json:"oracle"`
	Notes      []string   `json:"notes"`
}

type sentRec struct {
	Node  int    `json:"node"`
	H     int64  `json:"h"`
	Round int32  `json:"r"`
	Type  int    `json:"t"`
	Inc   int    `json:"inc"`
	Bytes []byte `json:"bytes"`
}

type netInput struct {
	Cfg    netCfg     `json:"cfg"`
	Node   int        `json:"node,omitempty"`
	Height int64      `json:"height,omitempty"`
	Rec    *netRecord `json:"rec,omitempty"`
}

func (nw *netw) record() *netRecord {
	rec := &netRecord{N: nw.n, Byz: nw.cfg.Byz, Finals: nw.finals, Votes: nw.allVotes, Oracle: nw.oracle, Notes: nw.notes}
	for _, w := range nw.wallets {
		rec.Validators = append(rec.Validators, w.Address().String())
	}
	for _, i := range nw.reals {
		for _, s := range nw.sent[i] {
			rec.Sent = append(rec.Sent, sentRec{i, s.H, s.Round, s.Type, s.Inc, s.Bytes})
		}
	}
	return rec
}

// evalRecord re-evaluates O1, O2 and O4 on recorded data only (signatures are
// verified again).
func evalRecord(rec *netRecord) string {
	var msgs []string
	quorum := func(c int) bool { return c*3 > 2*rec.N }
	// O1
	byH := map[int64]string{}
	told := map[int64]bool{}
	for _, f := range rec.Finals {
		if id, ok := byH[f.H]; ok && id != f.ID && !told[f.H] {
			told[f.H] = true
			msgs = append(msgs, fmt.Sprintf("(O1) AGREEMENT VIOLATED at height %d: blocks %.8s and %.8s were both finalized by real nodes (recorded)", f.H, id, f.ID))
		} else if !ok {
			byH[f.H] = f.ID
		}
	}
	// O2: votes that existed when the finalize happened
	type vk struct {
		h int64
		r int32
		b string
	}
	for _, f := range rec.Finals {
		cnt := map[vk]map[int]bool{}
		for _, v := range rec.Votes {
			if v.Seq > f.Seq || v.H != f.H || v.Type != 1 || v.Block != f.ID {
				continue
			}
			m, err := consensus.UnmarshalMessage(consensus.ProtoVote.Uint16(), v.Bytes)
			if err != nil {
				continue
			}
			vm, ok := m.(*consensus.VoteMessage)
			if !ok {
				continue
			}
			a := consensus.VerifSigner(vm)
			if a == nil || v.From < 0 || v.From >= len(rec.Validators) || a.String() != rec.Validators[v.From] {
				continue
			}
			if vm.Height != v.H || vm.Round != v.Round || int(vm.Type) != 1 || hex.EncodeToString(vm.BlockID) != f.ID {
				continue
			}
			k := vk{v.H, v.Round, v.Block}
			if cnt[k] == nil {
				cnt[k] = map[int]bool{}
			}
			cnt[k][v.From] = true
		}
		best := 0
		for _, m := range cnt {
			if len(m) > best {
				best = len(m)
			}
		}
		if !quorum(best) {
			msgs = append(msgs, fmt.Sprintf("(O2) real node %d finalized block %.8s at height %d with at most %d of %d precommits for it in one round in the recorded traffic", f.Node, f.ID, f.H, best, rec.N))
		}
	}
	// O4
	type sk struct {
		n int
		h int64
		r int32
		t int
	}
	seen := map[sk][]byte{}
	for _, s := range rec.Sent {
		k := sk{s.Node, s.H, s.Round, s.Type}
		if b, ok := seen[k]; ok {
			if string(b) != string(s.Bytes) {
				msgs = append(msgs, fmt.Sprintf("(O4) equivocation of real node %d at height %d round %d type %d (recorded)", s.Node, s.H, s.Round, s.Type))
			}
		} else {
			seen[k] = s.Bytes
		}
	}
	return strings.Join(msgs, " ;; ")
}

// ---------------------------------------------------------------- Coq printing of a net

func (nw *netw) usableHist(h *nodeHist) (bool, string) {
	switch {
	case h == nil || len(h.Events) == 0:
		return false, "empty"
	case h.Discard != "":
		return false, h.Discard
	case h.Unknown:
		return false, "a message named a block the harness does not know"
	case h.BadOrder:
		return false, "an emitted vote list was not in ascending validator order"
	case (h.H-1)%int64(nw.n) != 0 && h.Restarts > 0 && walConflict(h):
		return false, "renamed slots + restart + conflicting votes in the WAL (vote list order matters)"
	}
	return true, ""
}

// walConflict: two different votes of one validator for one (round, type) were
// written to a WAL of this node at this height (then the order in which a
// restart puts a recorded vote list back matters, and the renamed order differs).
func walConflict(h *nodeHist) bool {
	type k struct {
		f, r, t int
	}
	seen := map[k][2]int64{}
	chk := func(v tvote) bool {
		kk := k{v.From, int(v.Round), v.Type}
		val := [2]int64{int64(v.Dec), v.TS}
		if old, ok := seen[kk]; ok && old != val {
			return true
		}
		seen[kk] = val
		return false
	}
	for _, e := range h.Events {
		for _, o := range e.Outs {
			if o.K != "write" {
				continue
			}
			if o.Rec == "vote" && chk(o.V) {
				return true
			}
			if o.Rec == "votelist" {
				for _, v := range o.VL {
					if chk(v) {
						return true
					}
				}
			}
		}
	}
	return false
}

// coqNetCase prints the CNet case of height h: all events of all real nodes of
// that height in global order + the Byzantine sends.
func (nw *netw) coqNetCase(h int64, alterFinal bool) (string, int, int) {
	r := rot{nw.n, int((h - 1) % int64(nw.n))}
	var sb strings.Builder
	var byz []string
	for i := 0; i < nw.n; i++ {
		if !nw.isReal[i] {
			byz = append(byz, fmt.Sprintf("%d%%nat", r.slot(i)))
		}
	}
	fmt.Fprintf(&sb, "(CNet (mkNC %d %s %s [", nw.n, hxlib.CoqList(byz), coqBlocks(r, nw.blocksOf(h)))
	nEv, nByz := 0, 0
	first := true
	for _, g := range nw.gtrace {
		if g.H != h {
			continue
		}
		if !first {
			sb.WriteString(";\n  ")
		}
		first = false
		if g.Node < 0 {
			fmt.Fprintf(&sb, "GByz %s", coqVote(r, g.V))
			nByz++
			continue
		}
		e := *g.Ev
		e.Outs = nil
		e.Post = nil
		fmt.Fprintf(&sb, "GNode %d%%nat (%s)", r.slot(g.Node), coqTev(r, &e))
		nEv++
	}
	sb.WriteString("] [")
	k := 0
	for _, i := range nw.reals {
		hist := nw.nodes[i].hist[h]
		if hist == nil || len(hist.Events) == 0 {
			continue
		}
		last := hist.Events[len(hist.Events)-1]
		if last.Post == nil {
			continue
		}
		dec := 0
		for _, o := range last.Outs {
			if o.K == "finalize" {
				dec = o.Blk
			}
		}
		if k > 0 {
			sb.WriteString("; ")
		}
		k++
		if alterFinal && k == 1 {
			dec = 999998
		}
		fmt.Fprintf(&sb, "(%d%%nat, %s, %s)", r.slot(i), coqObsRaw(last.Post), optN(dec))
	}
	sb.WriteString("]))")
	return sb.String(), nEv, nByz
}

// ---------------------------------------------------------------- generation

func plan(c *hxlib.Ctx) []netCfg {
	var l []netCfg
	thorough := c.Tier == "thorough"
	add := func(n int, byz []int, heights int, style string, crashPM, windowPM int, wall float64) {
		l = append(l, netCfg{Name: fmt.Sprintf("%s-n%d", style, n), N: n, Byz: byz, Heights: heights, Seed: c.Rand.Int63(), Style: style, MaxWall: wall, CrashPM: crashPM, WindowPM: windowPM})
	}
	// the directed scenarios first (they are deterministic up to timers)
	for _, d := range directedNames() {
		n, byz, heights := directedShape(d)
		add(n, byz, heights, "directed:"+d, 0, 0, 60)
	}
	styles := []string{"fair", "lossy", "partition", "slow", "pcfirst"}
	for i := 0; i < c.N(15); i++ {
		st := styles[i%len(styles)]
		crash, window := 12, 50
		if i%4 == 3 {
			crash, window = 0, 0
		}
		heights := 2
		if i%5 == 4 || thorough {
			heights = 3
		}
		byz := []int{c.Rand.Intn(4)}
		if st == "pcfirst" {
			byz = []int{1 + c.Rand.Intn(2)} // the Byzantine validator proposes in round 0 of height 1 or 2
		}
		var silent []int
		name := ""
		if i%7 == 6 {
			// two real engines, one Byzantine validator, one correct validator that is down for ever
			silent = []int{(byz[0] + 1 + c.Rand.Intn(3)) % 4}
			name = "-2real"
		}
		l = append(l, netCfg{Name: fmt.Sprintf("%s-n4%s", st, name), N: 4, Byz: byz, Silent: silent, Heights: heights, Seed: c.Rand.Int63(), Style: st,
			MaxWall: 20 + float64(heights)*6, CrashPM: crash, WindowPM: window})
	}
	if thorough {
		for i := 0; i < c.N(2); i++ {
			b1 := c.Rand.Intn(7)
			b2 := (b1 + 1 + c.Rand.Intn(6)) % 7
			add(7, []int{b1, b2}, 3, styles[i%len(styles)], 10, 40, 120)
		}
	}
	return l
}

type netResult struct {
	cfg     netCfg
	nw      *netw
	wall    time.Duration
	harness string
	closed  bool
}

func runNet(cfg netCfg) *netResult {
	res := &netResult{cfg: cfg}
	t0 := time.Now()
	p := catch(func() {
		nw := newNet(cfg)
		res.nw = nw
		nw.run()
	})
	if p != "" {
		res.harness = "harness panic: " + firstLine(p) + " :: " + lastStack
	}
	res.wall = time.Since(t0)
	// the engines, block managers and WAL directories are not needed any more
	// (what is emitted later is in memory)
	res.finish()
	return res
}

func (res *netResult) finish() {
	if res.nw != nil && !res.closed {
		res.closed = true
		catch(func() { res.nw.close() })
	}
}

func emitNet(c *hxlib.Ctx, idx int, res *netResult, forCanary **netw) {
	nw := res.nw
	cfg := res.cfg
	if nw == nil || res.harness != "" {
		c.Note("net %d (%s): %s", idx, cfg.Name, res.harness)
		if nw == nil {
			return
		}
		// the harness itself failed: only oracle failures found before that are kept
		if len(nw.oracle) > 0 {
			c.Emit(hxlib.Case{Kind: "net-broken-harness", Input: netInput{Cfg: cfg, Rec: nw.record()}, OracleErr: joinOracle(nw.oracle), Key: fmt.Sprintf("%d/%d/net", c.Seed, idx)})
		}
		return
	}
	oracle := joinOracle(nw.oracle)
	in := netInput{Cfg: cfg}
	if oracle != "" {
		in.Rec = nw.record()
	}
	finals := len(nw.finals)
	byzDelivered, crashes := 0, nw.nCrashes
	usableNodes := 0
	for _, i := range nw.reals {
		for _, h := range nw.nodes[i].hist {
			byzDelivered += h.ByzSeen
		}
	}
	// (1) the net as a whole: the direct oracle
	kind := fmt.Sprintf("net-%s-n%d", strings.SplitN(cfg.Style, ":", 2)[0], cfg.N)
	if len(cfg.Silent) > 0 {
		kind += "-2real"
	}
	if strings.HasPrefix(cfg.Style, "directed:") {
		kind = "net-" + cfg.Style
	}
	c.Emit(hxlib.Case{Kind: kind, Input: in, Nontrivial: finals > 0 && (byzDelivered > 0 || crashes > 0), OracleErr: oracle,
		Key: fmt.Sprintf("%d/%d/net", c.Seed, idx)})
	// (2) per height: the global trace; per (node, height): the node trace
	maxH := int64(0)
	for _, i := range nw.reals {
		for h := range nw.nodes[i].hist {
			if h > maxH {
				maxH = h
			}
		}
	}
	if maxH > int64(cfg.Heights) {
		maxH = int64(cfg.Heights)
	}
	discards := map[string]int{}
	for h := int64(1); h <= maxH; h++ {
		allOK := true
		for _, i := range nw.reals {
			hist := nw.nodes[i].hist[h]
			if hist == nil || len(hist.Events) == 0 {
				continue
			}
			ok, why := nw.usableHist(hist)
			if !ok {
				allOK = false
				discards[why]++
				continue
			}
			usableNodes++
			own := 0
			for _, e := range hist.Events {
				for _, o := range e.Outs {
					if o.K == "sendvote" || o.K == "sendproposal" {
						own++
					}
				}
			}
			k := fmt.Sprintf("node-n%d", cfg.N)
			if h > 1 {
				k += "-h2+"
			}
			if hist.Crashes > 0 {
				k += "-crash"
			}
			if hist.ByzSeen > 0 {
				k += "-byz"
			}
			cs := hxlib.Case{Kind: k, Input: netInput{Cfg: cfg, Node: i, Height: h}, Nontrivial: own > 0 && len(hist.Events) >= 6,
				Key: fmt.Sprintf("%d/%d/%d/%d", c.Seed, idx, i, h)}
			if !c.OracleOnly {
				cs.Coq = "(CNode " + coqNodeCase(nw.n, hist, nw.blocksOf(h)) + ")"
			}
			c.Emit(cs)
		}
		if allOK && !c.OracleOnly {
			term, nEv, nByz := nw.coqNetCase(h, false)
			fin := 0
			for _, f := range nw.finals {
				if f.H == h {
					fin++
				}
			}
			k := fmt.Sprintf("global-n%d", cfg.N)
			if h > 1 {
				k += "-h2+"
			}
			c.Emit(hxlib.Case{Kind: k, Input: netInput{Cfg: cfg, Height: h}, Coq: term, Nontrivial: fin > 0 && nEv >= 12 && (nByz > 0 || crashes > 0),
				Key: fmt.Sprintf("%d/%d/g/%d", c.Seed, idx, h)})
		}
	}
	var ds []string
	for k, v := range discards {
		ds = append(ds, fmt.Sprintf("%s x%d", k, v))
	}
	sort.Strings(ds)
	c.Note("net %d %s seed=%d: wall=%.1fs events=%d packets=%d (harness-made %d, duplicates %d, held %d) crashes=%d (cut inside an event %d, torn image %d) finalizes=%d script-done=%v max-round=%d locks=%d relocks=%d unlocks=%d byz-votes-delivered=%d node-traces=%d discarded=%v aborted=%q oracle=%q",
		idx, cfg.Name, cfg.Seed, res.wall.Seconds(), nw.nEvents, len(nw.pool), nw.nByzPk, nw.nDup, nw.nHeld, nw.nCrashes, nw.nFused, nw.nTorn, finals, nw.scriptOK || !strings.HasPrefix(cfg.Style, "directed:"), nw.maxRound, nw.nLock, nw.nRelock, nw.nUnlock, byzDelivered, usableNodes, ds, nw.aborted, oracle)
	if oracle != "" || nw.aborted != "" || os.Getenv("C01_NOTES") != "" || (strings.HasPrefix(cfg.Style, "directed:") && !nw.scriptOK) {
		for _, n := range nw.notes {
			c.Note("   net %d: %s", idx, n)
		}
	}
	if *forCanary == nil && oracle == "" && finals >= len(nw.reals) && usableNodes >= len(nw.reals) && nw.aborted == "" {
		*forCanary = nw
	}
}

func gen(c *hxlib.Ctx) {
	cfgs := plan(c)
	res := make([]*netResult, len(cfgs))
	par := 5
	if v := os.Getenv("C01_PAR"); v != "" {
		fmt.Sscanf(v, "%d", &par)
	}
	// the directed scenarios first, on their own (they depend on the step timers:
	// a script that could not steer its schedule, e.g. because the machine is
	// overloaded, is run again, at most three times)
	var wg sync.WaitGroup
	for i := range cfgs {
		if !strings.HasPrefix(cfgs[i].Style, "directed:") {
			continue
		}
		wg.Add(1)
		go func(i int) {
			defer wg.Done()
			for try := 0; try < 3; try++ {
				r := runNet(cfgs[i])
				if res[i] != nil {
					res[i].finish()
				}
				res[i] = r
				if r.nw == nil || r.nw.scriptOK || len(r.nw.oracle) > 0 {
					break
				}
				r.nw.note("directed scenario did not reach its end (attempt %d)", try+1)
			}
		}(i)
	}
	wg.Wait()
	sem := make(chan struct{}, par)
	for i := range cfgs {
		if strings.HasPrefix(cfgs[i].Style, "directed:") {
			continue
		}
		wg.Add(1)
		sem <- struct{}{}
		go func(i int) {
			defer wg.Done()
			defer func() { <-sem }()
			res[i] = runNet(cfgs[i])
		}(i)
	}
	wg.Wait()
	var canaryNet *netw
	for i, r := range res {
		emitNet(c, i, r, &canaryNet)
	}
	if canaryNet != nil && !c.OracleOnly {
		emitCanaries(c, canaryNet)
	} else if !c.OracleOnly {
		c.Note("no net was complete enough to derive canaries from")
	}
	for _, r := range res {
		r.finish()
	}
}

// canaries: deliberately wrong observations that `check` must flag.
func emitCanaries(c *hxlib.Ctx, nw *netw) {
	// a node trace of height 1 that ends in a finalize
	var hist *nodeHist
	for _, i := range nw.reals {
		h := nw.nodes[i].hist[1]
		if ok, _ := nw.usableHist(h); ok && h.Finals > 0 {
			hist = h
			break
		}
	}
	if hist != nil {
		// (1) the finalized block id altered
		h1 := *hist
		h1.Events = append([]*tevent(nil), hist.Events...)
		for i, e := range h1.Events {
			for j, o := range e.Outs {
				if o.K == "finalize" {
					e2 := *e
					e2.Outs = append([]tout(nil), e.Outs...)
					o.Blk = o.Blk%len(nw.blocks) + 1
					e2.Outs[j] = o
					h1.Events[i] = &e2
				}
			}
		}
		c.Emit(hxlib.Case{Kind: "canary", Canary: true, Coq: "(CNode " + coqNodeCase(nw.n, &h1, nw.blocksOf(1)) + ")"})
		// (2) a wrong step in an observed state
		h2 := *hist
		h2.Events = append([]*tevent(nil), hist.Events...)
		for i, e := range h2.Events {
			if e.Post != nil && e.Post.Status == 0 && i > 0 {
				e2 := *e
				p := *e.Post
				p.Step = (p.Step + 1) % 9
				e2.Post = &p
				h2.Events[i] = &e2
				break
			}
		}
		c.Emit(hxlib.Case{Kind: "canary", Canary: true, Coq: "(CNode " + coqNodeCase(nw.n, &h2, nw.blocksOf(1)) + ")"})
	}
	// (3) global trace with the finalized id of one node altered
	term, _, _ := nw.coqNetCase(1, true)
	c.Emit(hxlib.Case{Kind: "canary", Canary: true, Coq: term})
	// (4) global trace in which a delivered vote of a real node was never sent (its round is altered)
	saved := nw.gtrace
	var alt []gev
	done := false
	for _, g := range saved {
		if !done && g.Node >= 0 && g.H == 1 && g.Ev.K == "vote" && g.Ev.V.CurH && g.Ev.V.From >= 0 && nw.isReal[g.Ev.V.From] && g.Ev.V.From != g.Node {
			e := *g.Ev
			e.V.Round += 57
			g.Ev = &e
			done = true
		}
		alt = append(alt, g)
	}
	if done {
		nw.gtrace = alt
		t4, _, _ := nw.coqNetCase(1, false)
		nw.gtrace = saved
		c.Emit(hxlib.Case{Kind: "canary", Canary: true, Coq: t4})
	}
}

func replay(raw json.RawMessage) string {
	var in netInput
	if err := json.Unmarshal(raw, &in); err != nil {
		return "bad replay input: " + err.Error()
	}
	// run the scenario again (same seed: same scenario as far as the timers
	// allow; the directed scenarios reproduce)
	for try := 0; try < 3; try++ {
		res := runNet(in.Cfg)
		msg := ""
		if res.nw != nil {
			msg = joinOracle(res.nw.oracle)
		}
		res.finish()
		if msg != "" {
			return msg
		}
	}
	// not reproduced live: the recorded traffic of the original run is evidence
	// by itself (signed votes, finalizes): re-evaluate O1, O2, O4 on it
	if in.Rec != nil {
		if msg := evalRecord(in.Rec); msg != "" {
			return msg + " [not reproduced in 3 live runs on this tree; re-evaluated on the recorded traffic of the original run, whose first oracle message was: " + firstOf(in.Rec.Oracle) + "]"
		}
	}
	return ""
}

// joinOracle: the agreement violation first, then O2..O5
func joinOracle(l []string) string {
	c := append([]string(nil), l...)
	sort.SliceStable(c, func(i, j int) bool { return c[i][:4] < c[j][:4] })
	return strings.Join(c, " ;; ")
}

func firstOf(l []string) string {
	if len(l) == 0 {
		return ""
	}
	return l[0]
}

var realStderr = os.Stderr

func main() {
	// the fixtures log into stderr: every logger created from now on writes to
	// /dev/null (runtime panics still reach fd 2)
	if dn, err := os.OpenFile(os.DevNull, os.O_WRONLY, 0); err == nil {
		os.Stderr = dn
	}
	log.GlobalLogger().SetOutput(io.Discard)
	if os.Getenv("C01_PROBE") != "" {
		probe()
		return
	}
	hxlib.Main(hxlib.Spec{
		ID: "C01",
		Rule: "nets of n validators (4; thorough also 7) in which every correct validator is a REAL engine (own test node, real block manager, real file WALs) and the f Byzantine ones are played by the harness with their real keys: " +
			"per (height, round, type) a vote per destination (the proposed block / nil / another block / nothing), consistent votes, withheld votes, two different proposals to two groups, votes for old and future rounds and other heights, replays, vote lists bundling conflicting votes; " +
			"a seeded scheduler delivers every captured packet in scrambled order with delays, 'drops' (re-delivered when a height has run out of its time budget or a node lags), duplicates, echoes to the sender, a slow or partitioned victim node; real nodes crash (also cut inside write->sync->send, WAL images with torn tails) and restart on the kept WAL directory; heights 1..H; " +
			"first the directed scenarios (stale-lock: the schedule of docs/notes/C01_spec.md §0 with a restart of the re-locked validator; old-polka; split-precommit; threshold). " +
			"Kinds: net-* = one net (direct oracles O1..O5 on it), node-* = the trace of one real node over one height replayed in the node model (+ guards of its ghost log), global-* = all events of one height in global order through run_net. " +
			"Non-trivial: a net with at least one finalize and (a Byzantine vote delivered to a real node or a crash/restart); a node trace with >= 6 events and an own vote/proposal; a global trace with a finalize, >= 12 events and a Byzantine send or a crash. Distinct = distinct (seed, net, node, height)",
		Gen: gen, Replay: replay, Shard: 12,
	})
}
