// sched.go — the scrambling network (seeded scheduler: reorder, delay, drop
// with later re-delivery, duplicate, echo, stale heights), crash / restart of
// real nodes, the Byzantine validators' strategies, and the main loop of a net.
package main

import (
	"fmt"
	"sort"
	"time"

	"github.com/icon-project/goloop/consensus"
)

// ---------------------------------------------------------------- scheduling of packets

type styleCfg struct {
	delayMs  int // uniform extra delay per destination
	heldPM   int // "dropped": re-deliverable only in benign / catch-up mode
	dupPM    int
	echoPM   int
	victimMs int // extra delay for packets to / from the victim node (partition / slow link)
	pvLateMs int // extra delay of PREVOTES (and POL vote lists) to the victim node
	softS    float64
}

func (nw *netw) style() styleCfg {
	switch nw.cfg.Style {
	case "lossy":
		return styleCfg{delayMs: 300, heldPM: 150, dupPM: 80, echoPM: 20, softS: 6}
	case "partition":
		return styleCfg{delayMs: 40, heldPM: 30, dupPM: 40, echoPM: 10, victimMs: 1800, softS: 6}
	case "slow":
		return styleCfg{delayMs: 150, heldPM: 50, dupPM: 50, echoPM: 10, victimMs: 900, softS: 6}
	case "pcfirst":
		// precommits overtake prevotes on the way to the victim node
		return styleCfg{delayMs: 40, heldPM: 30, dupPM: 40, echoPM: 10, softS: 6, pvLateMs: 1100}
	case "benign":
		return styleCfg{delayMs: 5, softS: 0.01}
	}
	return styleCfg{delayMs: 40, heldPM: 30, dupPM: 60, echoPM: 20, softS: 5}
}

func (nw *netw) victim(h int64) int {
	return nw.reals[int((nw.cfg.Seed/7+h)%int64(len(nw.reals)))]
}

func (nw *netw) schedulePacket(p *packet) {
	sc := nw.style()
	now := time.Now()
	directed := nw.directed
	for _, i := range nw.reals {
		if p.only != nil && !p.only[i] {
			continue
		}
		ds := &dstState{}
		p.dst[i] = ds
		if directed {
			ds.held = true
			continue
		}
		if i == p.Src {
			if nw.rnd.Intn(1000) >= sc.echoPM {
				ds.delivered = -1 // never echo
			}
			continue
		}
		d := 0
		if sc.delayMs > 0 {
			d = nw.rnd.Intn(sc.delayMs)
		}
		if sc.victimMs > 0 && (i == nw.victim(p.H) || p.Src == nw.victim(p.H)) && nw.rnd.Intn(4) > 0 {
			d += nw.rnd.Intn(sc.victimMs)
		}
		if sc.pvLateMs > 0 && i == nw.victim(p.H) && ((p.Kind == "vote" && p.V.Type == 0) || p.Kind == "votelist") && nw.rnd.Intn(5) > 0 {
			d += 200 + nw.rnd.Intn(sc.pvLateMs)
		}
		ds.notBefore = now.Add(time.Duration(d) * time.Millisecond)
		if nw.rnd.Intn(1000) < sc.heldPM {
			ds.held = true
			nw.nHeld++
		}
		if nw.rnd.Intn(1000) < sc.dupPM {
			ds.dupLeft = 1 + nw.rnd.Intn(2)
		}
	}
}

func (nw *netw) maxFinal() int64 {
	m := int64(0)
	for _, f := range nw.finals {
		if f.H > m {
			m = f.H
		}
	}
	return m
}

// deliverable: may the scheduler hand p to node r now?
func (nw *netw) deliverable(r *rnode, p *packet, now time.Time, relaxed bool) bool {
	if p.H != r.traceH {
		return false
	}
	ds := p.dst[r.idx]
	if ds == nil && relaxed && p.Src != r.idx {
		// in benign / catch-up mode what was addressed to somebody else gets around too
		ds = &dstState{}
		p.dst[r.idx] = ds
	}
	if ds == nil || ds.delivered < 0 {
		return false
	}
	if ds.delivered > 0 {
		return ds.dupLeft > 0 && now.After(ds.notBefore)
	}
	if relaxed {
		return true
	}
	return !ds.held && !now.Before(ds.notBefore)
}

func (nw *netw) nodeReady(r *rnode) bool {
	if r == nil || r.down || r.dead || r.initPend != nil || r.harnessErr != "" {
		return false
	}
	if r.lastObs.Step == stepNewHeight && r.lastObs.Timer != nil {
		return false
	}
	return !r.timerClose()
}

// pickDelivery delivers one packet to one ready node; false if nothing is deliverable.
func (nw *netw) pickDelivery() bool {
	now := time.Now()
	order := nw.rnd.Perm(len(nw.reals))
	maxF := nw.maxFinal()
	for _, oi := range order {
		r := nw.nodes[nw.reals[oi]]
		if !nw.nodeReady(r) {
			continue
		}
		relaxed := nw.benign[r.traceH] || r.traceH <= maxF
		var cand []*packet
		pcFirst := nw.style().pvLateMs > 0 && r.idx == nw.victim(r.traceH)
		for _, p := range nw.pool {
			if nw.deliverable(r, p, now, relaxed) {
				cand = append(cand, p)
				if len(cand) >= 24 && !pcFirst {
					break
				}
			}
		}
		if pcFirst {
			// this node hears of precommits before it hears of prevotes
			sort.SliceStable(cand, func(i, j int) bool {
				pi := cand[i].Kind == "vote" && cand[i].V.Type == 1
				pj := cand[j].Kind == "vote" && cand[j].V.Type == 1
				return pi && !pj
			})
		}
		if len(cand) == 0 && relaxed && nw.catchUp(r, now) {
			return true
		}
		if len(cand) == 0 {
			// now and then something of an earlier height (the engine must ignore it)
			if nw.rnd.Intn(400) == 0 && r.traceH > 1 {
				for _, p := range nw.pool {
					if p.H == r.traceH-1 && (p.Kind == "vote" || p.Kind == "proposal") && p.dst[r.idx] != nil && p.dst[r.idx].delivered >= 0 {
						nw.evDeliverStale(r, p)
						return true
					}
				}
			}
			continue
		}
		var p *packet
		if relaxed || nw.rnd.Intn(10) < 6 {
			p = cand[0]
		} else {
			p = cand[nw.rnd.Intn(len(cand))]
		}
		ds := p.dst[r.idx]
		if ds.delivered > 0 {
			ds.dupLeft--
		}
		nw.evDeliver(r, p, nil)
		return true
	}
	return false
}

// catchUp: a node that lags (or a height that has run out of its time budget)
// is given again what it may have forgotten (the engine prunes old rounds and
// loses received votes at a restart; in a deployment the syncer does this):
// the precommits for the block others have finalized and its parts, else the
// votes of its current and previous round.
func (nw *netw) catchUp(r *rnode, now time.Time) bool {
	if now.Sub(r.lastRedo) < 15*time.Millisecond {
		return false
	}
	h := r.traceH
	if r.redoN[h] >= 120 {
		return false
	}
	dec := nw.decidedBlk[h]
	n := len(nw.pool)
	for k := 0; k < n; k++ {
		r.redoCur = (r.redoCur + 1) % n
		p := nw.pool[r.redoCur]
		if p.H != h {
			continue
		}
		// (also what the node itself once sent: a restarted proposer has lost its
		// own block and gets the parts back from its peers)
		ds := p.dst[r.idx]
		if ds == nil {
			ds = &dstState{}
			p.dst[r.idx] = ds
		}
		want := false
		if dec != nil {
			want = (p.Kind == "vote" && p.V.Type == 1 && p.V.Dec == dec.ID) || (p.Kind == "part" && p.Blk == dec.ID)
		} else {
			want = (p.Kind == "vote" || p.Kind == "votelist") && p.Round >= r.lastObs.Round-1 && p.Round <= r.lastObs.Round
		}
		if !want {
			continue
		}
		r.lastRedo = now
		r.redoN[h]++
		if ds.delivered < 0 {
			ds.delivered = 0
		}
		nw.evDeliver(r, p, nil)
		return true
	}
	return false
}

func (nw *netw) evDeliverStale(r *rnode, p *packet) {
	ds := p.dst[r.idx]
	d := ds.delivered
	nw.evDeliver(r, p, nil)
	ds.delivered = d
}

func (nw *netw) pickCallback() bool {
	for _, oi := range nw.rnd.Perm(len(nw.reals)) {
		r := nw.nodes[nw.reals[oi]]
		if !nw.nodeReady(r) {
			continue
		}
		if pend := r.pendingReqs(); len(pend) > 0 {
			nw.evCallback(r, pend[nw.rnd.Intn(len(pend))])
			return true
		}
	}
	return false
}

// pollTimers records spontaneous timer events of all nodes.
func (nw *netw) pollTimers() bool {
	any := false
	for _, i := range nw.reals {
		r := nw.nodes[i]
		if r.down || r.dead {
			continue
		}
		if st, fired := r.pollTimer(); fired {
			nw.evTimeout(r, st)
			any = true
		}
	}
	return any
}

func (nw *netw) restartDue(force bool) bool {
	any := false
	for _, i := range nw.reals {
		r := nw.nodes[i]
		if r.down && !r.dead && r.inc > 0 && (force || time.Now().After(r.downUntil)) {
			nw.restartNode(r)
			any = true
		}
	}
	return any
}

func (nw *netw) restartNode(r *rnode) {
	nw.evStart(r)
	// what the previous incarnation had been given may be given again
	for _, p := range nw.pool {
		if ds := p.dst[r.idx]; ds != nil && p.H == r.traceH && ds.delivered > 0 {
			ds.delivered = 0
			if nw.directed {
				ds.held = true
			}
		}
	}
	nw.note("restart node %d: h=%d round=%d step=%d lock=(%d,%s)", r.idx, r.lastObs.Height, r.lastObs.Round, r.lastObs.Step, r.lastObs.LockedRound, nw.nameOfKey(r.lastObs.LockedID))
}

// crashNow: a crash between two events (everything the last event did happened).
func (nw *netw) crashNow(r *rnode, sp crashSpec) {
	if r.down || r.dead {
		return
	}
	hist := r.histFor(r.traceH)
	pre := r.lastObs
	res := r.crash(r.rec.len(), sp)
	r.lastOuts = r.rec.len()
	r.preCrash = &pre
	r.cleanCrash = true
	nw.nCrashes++
	if r.initPend != nil || len(hist.Events) == 0 {
		r.initPend = nil
	} else {
		hist.Crashes++
		nw.seq++
		cev := &tevent{K: "crash", Cut: -1, Note: res.Info, Seq: nw.seq, Pkt: -1}
		cev.Keep = [3]int{res.Keep["round"], res.Keep["lock"], res.Keep["commit"]}
		cev.Post = &tstate{Status: 1}
		nw.appendEvent(r, hist, cev)
	}
	r.downUntil = time.Now().Add(time.Duration(nw.rnd.Intn(500)) * time.Millisecond)
	nw.note("crash node %d (between events) h=%d %s", r.idx, r.traceH, res.Info)
}

// ---------------------------------------------------------------- Byzantine validators

type byzState struct {
	nw    *netw
	acted map[string]bool
	mine  []*packet // everything the Byzantine validators have made public
	prop  map[string][]*blockInfo
	lone  map[string][]int // (height/round) -> the nodes that got the second block of a split proposal
	last  time.Time
}

func newByzState(nw *netw) *byzState {
	return &byzState{nw: nw, acted: map[string]bool{}, prop: map[string][]*blockInfo{}, lone: map[string][]int{}}
}

type hr struct {
	h int64
	r int32
}

// activeRounds: the (height, round) pairs real nodes are in, with the furthest step seen.
func (nw *netw) activeRounds() map[hr]int {
	m := map[hr]int{}
	for _, i := range nw.reals {
		r := nw.nodes[i]
		if r.down || r.dead || r.initPend != nil {
			continue
		}
		k := hr{r.lastObs.Height, r.lastObs.Round}
		if s, ok := m[k]; !ok || r.lastObs.Step > s {
			m[k] = r.lastObs.Step
		}
	}
	return m
}

// proposalsOf: blocks proposed for (h, round) that exist in the pool
func (nw *netw) proposalsOf(h int64, round int32) []*blockInfo {
	var l []*blockInfo
	seen := map[int]bool{}
	for _, p := range nw.pool {
		if p.Kind == "proposal" && p.H == h && p.Round == round && p.Blk > 0 && !seen[p.Blk] {
			seen[p.Blk] = true
			l = append(l, nw.blk(p.Blk))
		}
	}
	return l
}

// majority value among the real nodes' votes of (h, round, type) in the pool: (block or nil, count)
func (nw *netw) realMajority(h int64, round int32, typ int) (*blockInfo, int, int) {
	cnt := map[int]int{}
	total := 0
	seen := map[int]bool{}
	for _, p := range nw.pool {
		if p.Kind == "vote" && p.H == h && p.Round == round && p.V.Type == typ && p.Src >= 0 && !seen[p.Src] {
			seen[p.Src] = true
			cnt[p.V.Dec]++
			total++
		}
	}
	best, bc := 0, 0
	var keys []int
	for d := range cnt {
		keys = append(keys, d)
	}
	sort.Ints(keys)
	for _, d := range keys {
		if cnt[d] > bc {
			best, bc = d, cnt[d]
		}
	}
	if best < 0 {
		best = 0
	}
	return nw.blk(best), bc, total
}

func (nw *netw) otherBlock(h int64, not *blockInfo) *blockInfo {
	var l []*blockInfo
	for _, b := range nw.blocksOf(h) {
		if b != not {
			l = append(l, b)
		}
	}
	if len(l) == 0 || nw.rnd.Intn(5) == 0 {
		return nw.fabricate(h)
	}
	return l[nw.rnd.Intn(len(l))]
}

// randomGroups splits the real nodes in two (possibly empty) groups
func (nw *netw) randomGroups() ([]int, []int) {
	var a, b []int
	for _, i := range nw.reals {
		if nw.rnd.Intn(2) == 0 {
			a = append(a, i)
		} else {
			b = append(b, i)
		}
	}
	return a, b
}

func (nw *netw) delayPacket(p *packet, maxMs int) {
	if p == nil || maxMs <= 0 {
		return
	}
	for _, ds := range p.dst {
		ds.notBefore = time.Now().Add(time.Duration(nw.rnd.Intn(maxMs)) * time.Millisecond)
	}
}

// byzAct: what the Byzantine validators do now (random strategies).
func (nw *netw) byzAct() {
	bs := nw.byzst
	if time.Since(bs.last) < 3*time.Millisecond {
		return
	}
	bs.last = time.Now()
	act := nw.activeRounds()
	var keys []hr
	for k := range act {
		keys = append(keys, k)
	}
	sort.Slice(keys, func(i, j int) bool {
		if keys[i].h != keys[j].h {
			return keys[i].h < keys[j].h
		}
		return keys[i].r < keys[j].r
	})
	for _, b := range nw.cfg.Byz {
		for _, k := range keys {
			step := act[k]
			if nw.benign[k.h] {
				nw.byzHelp(b, k, step)
				continue
			}
			nw.byzPropose(b, k)
			if step >= 4 {
				nw.byzVote(b, k, 0)
			}
			if step >= 6 {
				nw.byzVote(b, k, 1)
			}
		}
		if len(keys) > 0 && nw.rnd.Intn(60) == 0 {
			if k := keys[nw.rnd.Intn(len(keys))]; !nw.benign[k.h] {
				nw.byzFlood(b, k)
			}
		}
	}
}

func (nw *netw) byzPropose(b int, k hr) {
	bs := nw.byzst
	key := fmt.Sprintf("prop/%d/%d/%d", b, k.h, k.r)
	if bs.acted[key] || nw.proposer(k.h, k.r) != b {
		return
	}
	bs.acted[key] = true
	c := nw.rnd.Intn(100)
	if nw.style().pvLateMs > 0 && c < 70 {
		c = 99 // mostly split proposals in this style
	}
	switch {
	case c < 20: // silent
		nw.note("byz %d silent as proposer of h=%d r=%d", b, k.h, k.r)
	case c < 60: // one block to everybody
		if bi := nw.shadowBlock(b, k.h, fmt.Sprintf("r%d", k.r)); bi != nil {
			nw.injectProposal(b, k.h, k.r, -1, bi, nil, true)
			bs.prop[fmt.Sprintf("%d/%d", k.h, k.r)] = []*blockInfo{bi}
		}
	default: // two different blocks to two groups
		b1 := nw.shadowBlock(b, k.h, fmt.Sprintf("r%da", k.r))
		b2 := nw.shadowBlock(b, k.h, fmt.Sprintf("r%db", k.r))
		if b1 == nil || b2 == nil {
			return
		}
		g1, g2 := nw.randomGroups()
		if nw.style().pvLateMs > 0 || nw.rnd.Intn(3) == 0 {
			// one real node alone gets the first block (completely), the rest the second
			v := nw.victim(k.h)
			g1, g2 = []int{v}, nil
			for _, i := range nw.reals {
				if i != v {
					g2 = append(g2, i)
				}
			}
		}
		if len(g1) > 0 {
			nw.injectProposal(b, k.h, k.r, -1, b1, g1, true)
		}
		if len(g2) > 0 {
			nw.injectProposal(b, k.h, k.r, -1, b2, g2, true)
		}
		bs.prop[fmt.Sprintf("%d/%d", k.h, k.r)] = []*blockInfo{b1, b2}
		if len(g1) == 1 {
			// the rest is to decide the second block; the lone node is to learn it from the precommits
			bs.lone[fmt.Sprintf("%d/%d", k.h, k.r)] = g2
		}
		nw.note("byz %d proposes two blocks at h=%d r=%d: #%d to %v, #%d to %v", b, k.h, k.r, b1.ID, g1, b2.ID, g2)
	}
}

// byzVote: once per (validator, height, round, type): a value per destination.
func (nw *netw) byzVote(b int, k hr, typ int) {
	bs := nw.byzst
	key := fmt.Sprintf("vote/%d/%d/%d/%d", b, k.h, k.r, typ)
	if bs.acted[key] {
		return
	}
	bs.acted[key] = true
	vt := consensus.VoteType(typ)
	if g2, ok := bs.lone[fmt.Sprintf("%d/%d", k.h, k.r)]; ok && nw.proposer(k.h, k.r) == b {
		// after "X to one node, Y to the rest": vote Y with the rest; the lone node
		// gets the precommit only
		y := bs.prop[fmt.Sprintf("%d/%d", k.h, k.r)][1]
		to := g2
		if typ == 1 {
			to = nil
		}
		bs.mine = append(bs.mine, nw.injectVote(nw.mkVote(b, vt, k.h, k.r, y, nw.nowMicro()), to))
		return
	}
	// the value a correct validator would most plausibly vote for
	var main *blockInfo
	if props := nw.proposalsOf(k.h, k.r); len(props) > 0 {
		main = props[nw.rnd.Intn(len(props))]
	}
	if mb, c, _ := nw.realMajority(k.h, k.r, 0); c > 0 && mb != nil {
		main = mb
	}
	for _, i := range nw.reals {
		if r := nw.nodes[i]; r != nil && !r.down && r.lastObs.Height == k.h && r.lastObs.LockedID != "" && nw.rnd.Intn(3) == 0 {
			main = nw.byKey[r.lastObs.LockedID]
		}
	}
	ts := nw.nowMicro()
	switch c := nw.rnd.Intn(100); {
	case c < 35: // consistent: the same vote to everybody
		v := main
		if nw.rnd.Intn(5) == 0 {
			v = nil
		}
		p := nw.injectVote(nw.mkVote(b, vt, k.h, k.r, v, ts), nil)
		nw.delayPacket(p, 300)
		bs.mine = append(bs.mine, p)
		if typ == 1 && v != nil && nw.rnd.Intn(4) == 0 {
			// the same block precommitted in neighbouring rounds as well (votes of
			// different rounds must never add up)
			for _, r2 := range []int32{k.r - 1, k.r + 1} {
				if r2 >= 0 {
					bs.mine = append(bs.mine, nw.injectVote(nw.mkVote(b, vt, k.h, r2, v, ts), nil))
				}
			}
		}
	case c < 45: // withhold
	default: // equivocate: per destination block / nil / another block / nothing
		var choices []string
		for _, i := range nw.reals {
			var v *blockInfo
			what := "main"
			switch d := nw.rnd.Intn(10); {
			case d < 4:
				v = main
			case d < 7:
				v, what = nil, "nil"
			case d < 9:
				v, what = nw.otherBlock(k.h, main), "other"
			default:
				choices = append(choices, fmt.Sprintf("%d:-", i))
				continue
			}
			tsi := ts + int64(nw.rnd.Intn(3)) // sometimes the same decision with another timestamp
			p := nw.injectVote(nw.mkVote(b, vt, k.h, k.r, v, tsi), []int{i})
			nw.delayPacket(p, 500)
			bs.mine = append(bs.mine, p)
			choices = append(choices, fmt.Sprintf("%d:%s", i, what))
		}
		nw.note("byz %d equivocates h=%d r=%d type=%d: %v", b, k.h, k.r, typ, choices)
	}
}

// byzFlood: replays, votes for old / future rounds, other heights, a vote list
// bundling conflicting votes.
func (nw *netw) byzFlood(b int, k hr) {
	bs := nw.byzst
	ts := nw.nowMicro()
	to := []int{nw.reals[nw.rnd.Intn(len(nw.reals))]}
	if nw.rnd.Intn(3) == 0 && nw.byzOldPolka(b, k) {
		return
	}
	switch nw.rnd.Intn(5) {
	case 0: // replay of an own earlier message
		if len(bs.mine) > 0 {
			p := bs.mine[nw.rnd.Intn(len(bs.mine))]
			if p != nil {
				for _, i := range to {
					if ds := p.dst[i]; ds != nil && ds.delivered > 0 {
						ds.dupLeft++
					} else if ds == nil {
						p.dst[i] = &dstState{}
					}
				}
			}
		}
	case 1: // future round
		r2 := k.r + 1 + int32(nw.rnd.Intn(2))
		var v *blockInfo
		if l := nw.blocksOf(k.h); len(l) > 0 && nw.rnd.Intn(2) == 0 {
			v = l[nw.rnd.Intn(len(l))]
		}
		bs.mine = append(bs.mine, nw.injectVote(nw.mkVote(b, consensus.VoteType(nw.rnd.Intn(2)), k.h, r2, v, ts), to))
	case 2: // old round
		if k.r > 0 {
			r2 := int32(nw.rnd.Intn(int(k.r)))
			var v *blockInfo
			if l := nw.blocksOf(k.h); len(l) > 0 && nw.rnd.Intn(2) == 0 {
				v = l[nw.rnd.Intn(len(l))]
			}
			bs.mine = append(bs.mine, nw.injectVote(nw.mkVote(b, consensus.VoteType(nw.rnd.Intn(2)), k.h, r2, v, ts), to))
		}
	case 3: // a vote list with two conflicting votes of its own
		var v *blockInfo
		if l := nw.blocksOf(k.h); len(l) > 0 {
			v = l[nw.rnd.Intn(len(l))]
		}
		t := consensus.VoteType(nw.rnd.Intn(2))
		bs.mine = append(bs.mine, nw.injectVoteList([]*consensus.VoteMessage{nw.mkVote(b, t, k.h, k.r, v, ts), nw.mkVote(b, t, k.h, k.r, nil, ts+1)}, to))
	default: // a vote of the previous height
		if k.h > 1 {
			nw.injectVote(nw.mkVote(b, consensus.VoteTypePrecommit, k.h-1, 0, nil, ts), to)
		}
	}
}

// byzOldPolka: a real node is locked on (lr, B); for an EARLIER round r' < lr
// the pool holds prevotes of correct validators for something else that lack
// one vote for a polka: the Byzantine validator supplies it and the old votes
// are replayed to the locked node.  (A polka of a round below lockedRound must
// not unlock.)
func (nw *netw) byzOldPolka(b int, k hr) bool {
	for _, i := range nw.reals {
		r := nw.nodes[i]
		if r.down || r.dead || r.lastObs.Height != k.h || r.lastObs.LockedID == "" || r.lastObs.LockedRound < 1 {
			continue
		}
		lockedBlk := nw.idOfKey(r.lastObs.LockedID)
		for rr := int32(0); rr < r.lastObs.LockedRound; rr++ {
			// value -> packets of distinct correct senders
			byVal := map[int][]*packet{}
			seen := map[[2]int]bool{}
			for _, p := range nw.pool {
				if p.Kind == "vote" && p.H == k.h && p.Round == rr && p.V.Type == 0 && p.Src >= 0 && p.V.Dec != lockedBlk && !seen[[2]int{p.Src, p.V.Dec}] {
					seen[[2]int{p.Src, p.V.Dec}] = true
					byVal[p.V.Dec] = append(byVal[p.V.Dec], p)
				}
			}
			for dec, ps := range byVal {
				if !nw.quorum(len(ps)+len(nw.cfg.Byz)) || dec < 0 {
					continue
				}
				for _, p := range ps {
					if p.Src == i {
						continue
					}
					if ds := p.dst[i]; ds != nil && ds.delivered > 0 {
						ds.delivered = 0
						ds.held = false
					} else if ds == nil {
						p.dst[i] = &dstState{}
					}
				}
				for _, bb := range nw.cfg.Byz {
					nw.byzst.mine = append(nw.byzst.mine, nw.injectVote(nw.mkVote(bb, consensus.VoteTypePrevote, k.h, rr, nw.blk(dec), nw.nowMicro()), []int{i}))
				}
				nw.note("byz %d completes an old polka (round %d, value %d) at node %d locked on (%d,#%d)", b, rr, dec, i, r.lastObs.LockedRound, lockedBlk)
				return true
			}
		}
	}
	return false
}

// byzHelp: in benign mode the Byzantine validators vote with the majority of
// the real nodes so that the height terminates.
func (nw *netw) byzHelp(b int, k hr, step int) {
	bs := nw.byzst
	if nw.proposer(k.h, k.r) == b {
		key := fmt.Sprintf("helpprop/%d/%d/%d", b, k.h, k.r)
		if !bs.acted[key] && !bs.acted[fmt.Sprintf("prop/%d/%d/%d", b, k.h, k.r)] {
			bs.acted[key] = true
			if bi := nw.shadowBlock(b, k.h, fmt.Sprintf("help%d", k.r)); bi != nil {
				nw.injectProposal(b, k.h, k.r, -1, bi, nil, true)
			}
		}
	}
	need := (len(nw.reals) + 1) / 2
	for typ := 0; typ < 2; typ++ {
		key := fmt.Sprintf("help/%d/%d/%d/%d", b, k.h, k.r, typ)
		if bs.acted[key] {
			continue
		}
		v, c, total := nw.realMajority(k.h, k.r, typ)
		if total < need || c == 0 {
			continue
		}
		bs.acted[key] = true
		nw.injectVote(nw.mkVote(b, consensus.VoteType(typ), k.h, k.r, v, nw.nowMicro()), nil)
	}
}

// ---------------------------------------------------------------- main loop

func (nw *netw) allDone() bool {
	for _, i := range nw.reals {
		r := nw.nodes[i]
		if r.fin[int64(nw.cfg.Heights)] {
			continue
		}
		if r.dead {
			continue
		}
		return false
	}
	return true
}

func (nw *netw) updateBenign() {
	sc := nw.style()
	now := time.Now()
	for _, i := range nw.reals {
		r := nw.nodes[i]
		if r.down || r.dead {
			continue
		}
		h := r.traceH
		if _, ok := nw.hStart[h]; !ok {
			nw.hStart[h] = now
		}
	}
	for h, t := range nw.hStart {
		if !nw.benign[h] && now.Sub(t).Seconds() > sc.softS {
			nw.benign[h] = true
			nw.note("height %d enters benign mode", h)
		}
	}
}

// step performs one iteration of the net; false if nothing happened.
func (nw *netw) step() bool {
	did := nw.pollTimers()
	if nw.restartDue(false) {
		did = true
	}
	nw.updateBenign()
	if !nw.directed {
		nw.byzAct()
	}
	if nw.rnd.Intn(4) == 0 {
		if nw.pickCallback() {
			return true
		}
	}
	if nw.pickDelivery() {
		return true
	}
	if nw.pickCallback() {
		return true
	}
	return did
}

func (nw *netw) startAll(directed bool) {
	for _, i := range nw.reals {
		nw.evStart(nw.nodes[i])
		if directed {
			// the proposer's block must be out before its propose timer fires
			nw.pollTimers()
			nw.releaseAll()
		}
	}
}

// runLoop runs the random scheduler until every real node has finalized the
// last height or the wall-clock budget is used up.
func (nw *netw) runLoop(deadline time.Time) {
	idle := 0
	for !nw.allDone() {
		if time.Now().After(deadline) {
			nw.aborted = "wall-clock budget used up"
			for _, i := range nw.reals {
				r := nw.nodes[i]
				nw.note("at abort: node %d traceH=%d down=%v dead=%v initPend=%v harnessErr=%q state: h=%d round=%d step=%d lock=(%d,%s) cur=%s timer=%v redo=%v pendingReqs=%d",
					i, r.traceH, r.down, r.dead, r.initPend != nil, r.harnessErr, r.lastObs.Height, r.lastObs.Round, r.lastObs.Step, r.lastObs.LockedRound, nw.nameOfKey(r.lastObs.LockedID), nw.nameOfKey(r.lastObs.CurID), r.lastObs.Timer != nil, r.redoN, len(r.pendingReqs()))
			}
			break
		}
		if nw.step() {
			idle = 0
		} else {
			idle++
			time.Sleep(400 * time.Microsecond)
		}
		_ = idle
	}
}

func (nw *netw) run() {
	deadline := nw.t0.Add(time.Duration(nw.cfg.MaxWall * float64(time.Second)))
	d := directedScenario(nw.cfg.Style)
	nw.directed = d != nil
	nw.startAll(d != nil)
	if d != nil {
		d(nw)
		nw.directed = false
		nw.cfg.Style = "benign"
		// what the scenario left undelivered flows now
		for _, p := range nw.pool {
			p.only = nil
			for _, i := range nw.reals {
				if p.dst[i] == nil && i != p.Src {
					p.dst[i] = &dstState{}
				}
			}
			for _, ds := range p.dst {
				ds.held = false
			}
		}
		for h := int64(1); h <= int64(nw.cfg.Heights); h++ {
			nw.benign[h] = true
		}
	}
	nw.runLoop(deadline)
	// errors of the fixtures (assertions of test.Node) are harness trouble, not oracle failures
	for _, i := range nw.reals {
		if e := nw.nodes[i].t.take(); len(e) > 0 {
			nw.note("fixture assertion on node %d: %s", i, firstLine(e[0]))
		}
	}
}
