// net.go — one net: n validators, of which the non-Byzantine ones are REAL
// engines (rnode) and the Byzantine ones are played by the harness (it holds
// their keys), connected through a harness-controlled network: every consensus
// packet a real engine hands to its network layer is captured into a pool; the
// scheduler decides which pool entry reaches which real node, when and how
// often.  This file: the net state, the execution of one event on one node
// (trace recording, crash decision, commit of the outputs to the pool), the
// direct oracles O1..O5.
package main

import (
	"bytes"
	"encoding/binary"
	"encoding/hex"
	"fmt"
	"math/rand"
	"sort"
	"strings"
	"time"

	"github.com/icon-project/goloop/common"
	"github.com/icon-project/goloop/common/codec"
	"github.com/icon-project/goloop/common/wallet"
	"github.com/icon-project/goloop/consensus"
	"github.com/icon-project/goloop/module"
	"github.com/icon-project/goloop/test"
)

// ---------------------------------------------------------------- data

type blockInfo struct {
	ID        int // id inside the net (1-based); 0 is never used
	H         int64
	Key       string // canonical part set id
	BlockID   []byte
	PSID      *consensus.PartSetID
	Parts     [][]byte // serialized parts (nil for fabricated ids)
	NParts    int
	Decodable bool
	Proposer  int // validator index of block.Proposer(), -1 unknown
	By        string
}

// packet: one message that exists in the network.
type packet struct {
	ID    int
	Proto module.ProtocolInfo
	Bytes []byte
	H     int64
	Src   int    // real node that emitted it, -1: injected by the harness
	From  int    // signer (validator index) of a vote / proposal, -1 otherwise
	Kind  string // vote votelist proposal part
	V     tvote
	VL    []tvote
	Round int32
	Pol   int32
	Blk   int
	Idx   int
	Byz   bool // signed by (or containing a vote of) a Byzantine validator
	only  map[int]bool
	dst   map[int]*dstState
	seq   int
	votes []*consensus.VoteMessage
}

type dstState struct {
	delivered int
	notBefore time.Time
	held      bool // "dropped": only re-deliverable in benign / catch-up mode
	dupLeft   int
}

type finalRec struct {
	Node  int    `json:"node"`
	Inc   int    `json:"inc"`
	H     int64  `json:"h"`
	ID    string `json:"id"`
	Round int32  `json:"commit_round"`
	Seq   int    `json:"seq"`
}

// voteRec: one signed vote that exists in the traffic (for O2 and for Replay).
type voteRec struct {
	H     int64  `json:"h"`
	Round int32  `json:"r"`
	Type  int    `json:"t"`
	From  int    `json:"from"`
	Block string `json:"block"` // hex of the block id, "" for nil
	Seq   int    `json:"seq"`
	Bytes []byte `json:"bytes"` // the signed message (codec bytes)
}

// gev: global order of everything that happened in the net (model input).
type gev struct {
	Seq  int
	Node int     // real node, -1 for a Byzantine send
	H    int64   // height of the node trace the event belongs to
	Ev   *tevent // node event
	V    tvote   // Byzantine vote made public
}

type netCfg struct {
	Name     string  `json:"name"`
	N        int     `json:"n"`
	Byz      []int   `json:"byz"`
	Silent   []int   `json:"silent,omitempty"` // correct validators that never get a message through (crashed for ever)
	Heights  int     `json:"heights"`
	Seed     int64   `json:"seed"`
	Style    string  `json:"style"`    // random scheduler profile, or "directed:<name>"
	MaxWall  float64 `json:"max_wall"` // seconds
	CrashPM  int     `json:"crash_pm"` // per mille per event
	WindowPM int     `json:"window_pm"`
}

type netw struct {
	cfg     netCfg
	rnd     *rand.Rand
	n       int
	wallets []module.Wallet
	genesis string
	nid     []byte
	isByz   []bool
	isReal  []bool
	nodes   []*rnode // index = validator index; nil for non-real
	reals   []int
	shadows map[int]*test.Node
	shadowH map[int]int64
	t       *quietT

	blocks []*blockInfo
	byKey  map[string]*blockInfo
	byPart map[string][2]int

	pool   []*packet
	seq    int
	gtrace []gev
	stamps map[int64]int64

	finals   []finalRec
	allVotes []voteRec
	voteSeen map[string]bool
	// precommits in the traffic: h -> round -> block id hex -> validator -> message
	pcs map[int64]map[int32]map[string]map[int]*consensus.VoteMessage
	// prevotes known to a real node (delivered in any incarnation, or signed by it): node -> h -> round -> decision key -> validators
	recvPV map[int]map[int64]map[int32]map[string]map[int]bool
	// own messages really handed to the network: node -> list
	sent map[int][]sentMsg
	// own block precommits really sent: node -> h -> list of (round, key)
	ownPC map[int]map[int64][]ownPCrec
	// commit vote sets for the shadows: h -> votes
	commitVotes map[int64][]*consensus.VoteMessage
	decidedBlk  map[int64]*blockInfo

	oracle   []string
	oracleAt map[string]bool
	notes    []string
	benign   map[int64]bool // heights in benign mode
	hStart   map[int64]time.Time
	t0       time.Time
	aborted  string
	byzst    *byzState
	nEvents  int
	nCrashes int
	nFused   int
	nTorn    int
	nByzPk   int
	nDup     int
	nHeld    int
	directed bool
	scriptOK bool // a directed scenario reached its end
	maxRound int
	nLock    int
	nRelock  int
	nUnlock  int
}

type sentMsg struct {
	Bytes []byte
	H     int64
	Round int32
	Type  int // vote type; -1 proposal
	Inc   int
	Seq   int
}

type ownPCrec struct {
	Round int32
	Key   string
}

func genesisFor(ws []module.Wallet) string {
	var vs []string
	for _, w := range ws {
		vs = append(vs, fmt.Sprintf(`"%s"`, w.Address()))
	}
	return fmt.Sprintf(`{
		"accounts": [
			{"name":"treasury","address":"hx1000000000000000000000000000000000000000","balance":"0x0"},
			{"name":"god","address":"hx0000000000000000000000000000000000000000","balance":"0x0"}
		],
		"message": "", "nid": "0x1",
		"chain": { "validatorList": [ %s ] }
	}`, strings.Join(vs, ", "))
}

func newNet(cfg netCfg) *netw {
	nw := &netw{cfg: cfg, rnd: rand.New(rand.NewSource(cfg.Seed)), n: cfg.N, t: &quietT{},
		byKey: map[string]*blockInfo{}, byPart: map[string][2]int{}, stamps: map[int64]int64{}, voteSeen: map[string]bool{},
		pcs: map[int64]map[int32]map[string]map[int]*consensus.VoteMessage{}, recvPV: map[int]map[int64]map[int32]map[string]map[int]bool{},
		sent: map[int][]sentMsg{}, ownPC: map[int]map[int64][]ownPCrec{}, commitVotes: map[int64][]*consensus.VoteMessage{},
		decidedBlk: map[int64]*blockInfo{}, oracleAt: map[string]bool{}, benign: map[int64]bool{}, hStart: map[int64]time.Time{},
		shadows: map[int]*test.Node{}, shadowH: map[int]int64{}}
	for i := 0; i < cfg.N; i++ {
		nw.wallets = append(nw.wallets, wallet.New())
	}
	nw.genesis = genesisFor(nw.wallets)
	nw.isByz = make([]bool, cfg.N)
	nw.isReal = make([]bool, cfg.N)
	nw.nodes = make([]*rnode, cfg.N)
	for _, b := range cfg.Byz {
		nw.isByz[b] = true
	}
	silent := map[int]bool{}
	for _, s := range cfg.Silent {
		silent[s] = true
	}
	for i := 0; i < cfg.N; i++ {
		if nw.isByz[i] || silent[i] {
			continue
		}
		nw.isReal[i] = true
		nw.reals = append(nw.reals, i)
		nw.nodes[i] = newRnode(nw, i)
	}
	for _, b := range cfg.Byz {
		nd := test.NewNode(nw.t, test.UseGenesis(nw.genesis), test.UseWallet(nw.wallets[b]))
		nd.Chain.Logger().SetLevel(0)
		nw.shadows[b] = nd
		nw.shadowH[b] = 0
	}
	nw.nid = codec.MustMarshalToBytes(nw.nodes[nw.reals[0]].nd.Chain.NID())
	nw.byzst = newByzState(nw)
	nw.t0 = time.Now()
	return nw
}

func (nw *netw) close() {
	for _, r := range nw.nodes {
		if r != nil {
			r.close()
		}
	}
	for _, s := range nw.shadows {
		catch(func() { s.Close() })
	}
}

func (nw *netw) note(format string, a ...interface{}) {
	if len(nw.notes) < 400 {
		nw.notes = append(nw.notes, fmt.Sprintf("[%.2fs] ", time.Since(nw.t0).Seconds())+fmt.Sprintf(format, a...))
	}
}

func (nw *netw) fail(key, format string, a ...interface{}) {
	if nw.oracleAt[key] {
		return
	}
	nw.oracleAt[key] = true
	msg := fmt.Sprintf(format, a...)
	nw.oracle = append(nw.oracle, msg)
	nw.note("ORACLE %s", msg)
}

func (nw *netw) quorum(c int) bool { return c*3 > 2*nw.n }

func (nw *netw) proposer(h int64, round int32) int { return int((h + int64(round)) % int64(nw.n)) }

func (nw *netw) valIndex(a module.Address) int {
	if a == nil {
		return -1
	}
	for i, w := range nw.wallets {
		if w.Address().Equal(a) {
			return i
		}
	}
	return -1
}

// ---------------------------------------------------------------- blocks

func (nw *netw) addBlock(h int64, blk module.BlockData, proposer int, by string) *blockInfo {
	ps := partsOf(blk)
	key := consensus.VerifPSIDKey(ps.ID())
	if old := nw.byKey[key]; old != nil {
		return old
	}
	bi := &blockInfo{ID: len(nw.blocks) + 1, H: h, Key: key, BlockID: append([]byte(nil), blk.ID()...), PSID: ps.ID(), NParts: ps.Parts(), Decodable: true, Proposer: proposer, By: by}
	for i := 0; i < ps.Parts(); i++ {
		bi.Parts = append(bi.Parts, ps.GetPart(i).Bytes())
		nw.byPart[string(bi.Parts[i])] = [2]int{bi.ID, i}
	}
	nw.blocks = append(nw.blocks, bi)
	nw.byKey[key] = bi
	return bi
}

// fabricated: an id for which no data exists
func (nw *netw) fabricate(h int64) *blockInfo {
	k := byte(len(nw.blocks) + 1)
	bi := &blockInfo{ID: len(nw.blocks) + 1, H: h, BlockID: bytes.Repeat([]byte{0xb0 ^ k}, 32),
		PSID: &consensus.PartSetID{Count: 1, Hash: bytes.Repeat([]byte{0xa0 ^ k}, 32)}, NParts: 1, Proposer: -1, By: "fabricated"}
	bi.Key = consensus.VerifPSIDKey(bi.PSID)
	nw.blocks = append(nw.blocks, bi)
	nw.byKey[bi.Key] = bi
	return bi
}

func (nw *netw) blk(id int) *blockInfo {
	if id <= 0 || id > len(nw.blocks) {
		return nil
	}
	return nw.blocks[id-1]
}

func (nw *netw) idOfKey(key string) int {
	if key == "" {
		return 0
	}
	if b := nw.byKey[key]; b != nil {
		return b.ID
	}
	return -1
}

func (nw *netw) blocksOf(h int64) []*blockInfo {
	var l []*blockInfo
	for _, b := range nw.blocks {
		if b.H == h {
			l = append(l, b)
		}
	}
	return l
}

// ---------------------------------------------------------------- decoding

func (nw *netw) stampOf(ts int64) int64 {
	if s, ok := nw.stamps[ts]; ok {
		return s
	}
	s := int64(len(nw.stamps) + 1)
	nw.stamps[ts] = s
	return s
}

// voteOf projects a signed vote.  Votes signed by real nodes carry stamp 0 (a
// correct validator signs one vote per (height, round, type): O4), votes of the
// harness's validators a tag that is injective on the timestamp.
func (nw *netw) voteOf(vm *consensus.VoteMessage) tvote {
	v := tvote{From: nw.valIndex(consensus.VerifSigner(vm)), Round: vm.Round, Type: int(vm.Type)}
	if v.From >= 0 && nw.isReal[v.From] {
		v.TS = 0
	} else {
		v.TS = nw.stampOf(vm.Timestamp)
	}
	if vm.BlockPartSetIDAndNTSVoteCount != nil {
		v.Dec = nw.idOfKey(consensus.VerifPSIDKey(vm.BlockPartSetIDAndNTSVoteCount.ID()))
	}
	return v
}

func decKey(vm *consensus.VoteMessage) string {
	if vm.BlockPartSetIDAndNTSVoteCount == nil {
		return ""
	}
	return consensus.VerifPSIDKey(vm.BlockPartSetIDAndNTSVoteCount.ID())
}

func blockHex(vm *consensus.VoteMessage) string {
	if vm.BlockPartSetIDAndNTSVoteCount == nil {
		return ""
	}
	return hex.EncodeToString(vm.BlockID)
}

func (nw *netw) fillMsg(t *tout, m consensus.Message) {
	switch mm := m.(type) {
	case *consensus.VoteMessage:
		t.Rec = "vote"
		t.V = nw.voteOf(mm)
	case *consensus.ProposalMessage:
		t.Rec = "proposal"
		t.Round = mm.Round
		t.Pol = mm.POLRound
		t.Blk = nw.idOfKey(consensus.VerifPSIDKey(mm.BlockPartSetID))
	case *consensus.VoteListMessage:
		t.Rec = "votelist"
		if mm.VoteList != nil {
			for i := 0; i < mm.VoteList.Len(); i++ {
				t.VL = append(t.VL, nw.voteOf(mm.VoteList.Get(i)))
			}
		}
	case *consensus.BlockPartMessage:
		t.Rec = "part"
		if bi, ok := nw.byPart[string(mm.BlockPart)]; ok {
			t.Blk, t.Idx = bi[0], bi[1]
		} else {
			t.Blk = -1
		}
	}
}

func (nw *netw) decodeOut(o outRec) (tout, bool) {
	switch o.Kind {
	case oWalSync:
		return tout{K: "sync", Wal: o.Wal}, true
	case oWalWrite:
		t := tout{K: "write", Wal: o.Wal}
		if len(o.Payload) < 2 {
			return t, false
		}
		sp := binary.BigEndian.Uint16(o.Payload[:2])
		m, err := consensus.UnmarshalMessage(sp, o.Payload[2:])
		if err != nil {
			return t, false
		}
		nw.fillMsg(&t, m)
		return t, true
	case oBcast:
		m, err := consensus.UnmarshalMessage(o.Proto.Uint16(), o.Payload)
		if err != nil {
			return tout{}, false
		}
		t := tout{}
		nw.fillMsg(&t, m)
		switch m.(type) {
		case *consensus.VoteMessage:
			t.K = "sendvote"
		case *consensus.ProposalMessage:
			t.K = "sendproposal"
		case *consensus.BlockPartMessage:
			t.K = "sendpart"
		case *consensus.VoteListMessage:
			t.K = "sendvl"
		default:
			return t, false
		}
		return t, true
	case oImport:
		return tout{K: "import", Blk: nw.idOfKey(o.BlkKey), Force: o.Flags&module.ImportByForce != 0, SynErr: o.SyncErr, Round: o.Round}, true
	case oPropose:
		return tout{K: "propose", Round: o.Round, SynErr: o.SyncErr}, true
	case oFinalize:
		return tout{K: "finalize", Blk: nw.idOfKey(o.BlkKey)}, true
	}
	return tout{}, false
}

// ---------------------------------------------------------------- node traces

func (r *rnode) histFor(h int64) *nodeHist {
	x := r.hist[h]
	if x == nil {
		x = &nodeHist{H: h, Node: r.idx, seen: map[[3]int]string{}}
		r.hist[h] = x
	}
	return x
}

func (nw *netw) obs(r *rnode, st consensus.VerifState, h int64) *tstate {
	ts := &tstate{Round: st.Round, Step: st.Step, LockedRound: st.LockedRound, Locked: nw.idOfKey(st.LockedID), Pol: st.POLRound,
		Cur: nw.idOfKey(st.CurID), Complete: st.CurComplete, HasBlock: st.CurHasBlock, Validated: st.CurValidated, Timer: st.Timer != nil}
	if st.Height != h {
		ts.Status = 2
	}
	return ts
}

// nodeEvent executes one event on one real node: f talks to the engine and
// returns (state, panic).  The outputs since the previous event are decoded
// into the trace, the crash decision is taken, the surviving outputs are
// committed (packets enter the pool), a Finalize is handed to the oracles.
func (nw *netw) nodeEvent(r *rnode, ev *tevent, forceCrash *crashPlan, f func() (consensus.VerifState, string)) {
	from := r.lastOuts
	st, p := f()
	to := r.rec.len()
	// real timers: if the timer that is armed now could have fired before the
	// line above, or the outputs were produced by two activations of the engine
	// (a gap of the length of a step timer), outputs cannot be attributed to
	// events: the trace is not used for the correspondence
	late := r.lateForTimer()
	nw.nEvents++
	nw.seq++
	ev.Seq = nw.seq
	ev.Cut = -1
	h := r.traceH
	hist := r.histFor(h)
	outs := r.rec.slice(from, to)
	finIdx := -1
	var touts []tout
	for i := 1; i < len(outs); i++ {
		if outs[i].At.Sub(outs[i-1].At) > 700*time.Millisecond {
			late = true
		}
	}
	for i, o := range outs {
		t, ok := nw.decodeOut(o)
		if !ok {
			t.K = "unknown"
			hist.Unknown = true
		}
		if (t.K == "write" && t.Rec == "votelist") || t.K == "sendvl" {
			if !ascending(t.VL) {
				hist.BadOrder = true
			}
		}
		touts = append(touts, t)
		if o.Kind == oFinalize && finIdx < 0 {
			finIdx = i
		}
	}
	if p != "" {
		nw.fail(fmt.Sprintf("panic-%d", r.idx), "(O5) panic of real node %d (validator %d) at height %d in event %s: %s", r.idx, r.idx, h, ev.K, firstLine(p))
		nw.note("stack: %s", lastStack)
		ev.Outs = touts
		nw.appendEvent(r, hist, ev)
		// the engine is in an undefined state: take it down for good
		catch(func() { r.eng.Term() })
		r.down = true
		r.pending = false
		hist.Discard = "panic"
		r.dead = true
		r.lastOuts = r.rec.len()
		return
	}
	if finIdx >= 0 {
		ev.Outs = touts[:finIdx+1]
		ev.Post = &tstate{Status: 2}
		nw.appendEvent(r, hist, ev)
		hist.Finals++
		nw.commitOuts(r, from, to, ev)
		nw.onFinalize(r, outs[finIdx], ev)
		if h >= int64(nw.cfg.Heights) {
			// the last height of the run: the node stops here
			catch(func() { r.eng.Term() })
			r.down, r.dead = true, true
			r.lastOuts = r.rec.len()
			return
		}
		// the next height
		if late {
			r.histFor(h + 1).Discard = "an armed timer may have fired before the outputs of an event were collected"
		}
		r.traceH = h + 1
		r.initPend = &tevent{K: "restart", Cut: -1, Outs: touts[finIdx+1:], Pkt: -1}
		r.lastOuts = to
		if st.Height != h+1 {
			r.harnessErr = fmt.Sprintf("after Finalize at height %d the engine is at height %d", h, st.Height)
		}
		if !(st.Step == stepNewHeight && st.Timer != nil) {
			nw.finishInit(r, st)
		}
		return
	}
	if st.Height != h && !r.down {
		r.harnessErr = fmt.Sprintf("engine at height %d while the trace is at height %d", st.Height, h)
		hist.Discard = r.harnessErr
	}
	if late && hist.Discard == "" {
		hist.Discard = "an armed timer may have fired before the outputs of an event were collected"
	}
	if int(st.Round) > 2*nw.n && hist.Discard == "" {
		// beyond round 2n enterNewRound waits for nextProposeTime with a timer of
		// unknown (short) length
		hist.Discard = "round above 2n (new-round delay timers of unknown length)"
	}
	ev.Outs = touts
	ev.Post = nw.obs(r, st, h)
	if int(st.Round) > nw.maxRound {
		nw.maxRound = int(st.Round)
	}
	if prev := r.prevLock; prev != [2]string{fmt.Sprint(st.LockedRound), st.LockedID} {
		switch {
		case st.LockedID == "":
			nw.nUnlock++
		case prev[1] == st.LockedID:
			nw.nRelock++
		default:
			nw.nLock++
		}
		r.prevLock = [2]string{fmt.Sprint(st.LockedRound), st.LockedID}
	}
	if ev.Post.Step == stepNewRound && ev.Post.Timer {
		ev.Delay = true
	}
	if r.initPend != nil && ev.K == "timeout" {
		// the new-height timer fired: the pseudo restart of this height is complete
		r.initPend.Outs = append(r.initPend.Outs, touts...)
		r.lastOuts = to
		// the commit of its outputs happens below through the pseudo event
		pe := r.initPend
		r.initPend = nil
		pe.Seq = ev.Seq
		pe.Post = ev.Post
		nw.appendEvent(r, hist, pe)
		nw.decideCrash(r, hist, pe, from, to, forceCrash)
		return
	}
	nw.appendEvent(r, hist, ev)
	nw.decideCrash(r, hist, ev, from, to, forceCrash)
}

func firstLine(s string) string {
	if i := strings.IndexByte(s, '\n'); i >= 0 {
		s = s[:i]
	}
	if len(s) > 300 {
		s = s[:300]
	}
	return s
}

func (nw *netw) finishInit(r *rnode, st consensus.VerifState) {
	pe := r.initPend
	r.initPend = nil
	nw.seq++
	pe.Seq = nw.seq
	pe.Post = nw.obs(r, st, r.traceH)
	hist := r.histFor(r.traceH)
	nw.appendEvent(r, hist, pe)
}

func (nw *netw) appendEvent(r *rnode, hist *nodeHist, ev *tevent) {
	hist.Events = append(hist.Events, ev)
	nw.gtrace = append(nw.gtrace, gev{Seq: ev.Seq, Node: r.idx, H: hist.H, Ev: ev})
}

type crashPlan struct {
	Cut  int // outputs of the event that happened; -1 = all
	Spec crashSpec
}

// decideCrash: either the outputs [from,to) of the last event happened
// (commit) or the process died after `cut` of them.
func (nw *netw) decideCrash(r *rnode, hist *nodeHist, ev *tevent, from, to int, force *crashPlan) {
	plan := force
	if plan == nil {
		plan = nw.randomCrash(r, ev)
	}
	if plan == nil || r.harnessErr != "" {
		nw.commitOuts(r, from, to, ev)
		r.lastOuts = to
		return
	}
	cut := plan.Cut
	if cut < 0 || cut > len(ev.Outs) {
		cut = len(ev.Outs)
	}
	// outputs of a pseudo restart that precede the timer part cannot be cut away: they happened before
	cutAbs := from + cut
	if cutAbs > to {
		cutAbs = to
	}
	if to-from != len(ev.Outs) {
		// pseudo restart (outputs of two engine activations): only a clean crash
		cut, cutAbs = len(ev.Outs), to
	}
	ev.Cut = cut
	if cut < len(ev.Outs) {
		hist.Fused++
		nw.nFused++
	}
	nw.commitOuts(r, from, cutAbs, ev)
	pre := r.lastObs
	res := r.crash(cutAbs, plan.Spec)
	r.rec.truncate(cutAbs)
	r.lastOuts = cutAbs
	r.preCrash = &pre
	r.cleanCrash = cut == len(ev.Outs)
	hist.Crashes++
	nw.nCrashes++
	if res.Torn {
		hist.Torn++
		nw.nTorn++
	}
	nw.seq++
	cev := &tevent{K: "crash", Cut: -1, Note: res.Info, Seq: nw.seq, Pkt: -1}
	cev.Keep = [3]int{res.Keep["round"], res.Keep["lock"], res.Keep["commit"]}
	cev.Post = &tstate{Status: 1}
	nw.appendEvent(r, hist, cev)
	r.initPend = nil
	r.downUntil = time.Now().Add(time.Duration(nw.rnd.Intn(700)) * time.Millisecond)
	nw.note("crash node %d h=%d after event %s cut=%d/%d %s", r.idx, hist.H, ev.K, cut, len(ev.Outs), res.Info)
}

func (nw *netw) randomCrash(r *rnode, ev *tevent) *crashPlan {
	if nw.cfg.CrashPM <= 0 || r.down || ev.K == "crash" {
		return nil
	}
	for _, o := range ev.Outs {
		if o.K == "finalize" {
			return nil
		}
	}
	hist := r.histFor(r.traceH)
	if hist.Crashes >= 3 {
		return nil
	}
	p := nw.cfg.CrashPM
	at, wrote := -1, false
	for i, o := range ev.Outs {
		if o.K == "write" && o.Wal == "round" && (o.Rec == "proposal" || (o.Rec == "vote" && o.V.From == r.idx)) {
			at, wrote = i, true
			break
		}
	}
	if wrote {
		p += nw.cfg.WindowPM
	}
	if nw.rnd.Intn(1000) >= p {
		return nil
	}
	cut := len(ev.Outs)
	if len(ev.Outs) > 0 && nw.rnd.Intn(3) > 0 {
		if wrote && nw.rnd.Intn(3) > 0 {
			cut = at + nw.rnd.Intn(4)
			if cut > len(ev.Outs) {
				cut = len(ev.Outs)
			}
		} else {
			cut = nw.rnd.Intn(len(ev.Outs) + 1)
		}
	}
	sp := crashSpec{Frac: map[string]int{}, Mode: map[string]int{}}
	for _, w := range []string{"round", "lock", "commit"} {
		sp.Frac[w] = nw.rnd.Intn(1001)
		switch k := nw.rnd.Intn(1000); {
		case k < 250:
			sp.Mode[w] = 1
		case k < 450:
			sp.Mode[w] = 2
		case k < 650:
			sp.Mode[w] = 3
		}
	}
	return &crashPlan{Cut: cut, Spec: sp}
}

func cleanCrashPlan() *crashPlan {
	sp := crashSpec{Frac: map[string]int{}, Mode: map[string]int{}}
	for _, w := range []string{"round", "lock", "commit"} {
		sp.Mode[w] = 2
	}
	return &crashPlan{Cut: -1, Spec: sp}
}

// ---------------------------------------------------------------- events

func (nw *netw) evStart(r *rnode) {
	ev := &tevent{K: "restart", Pkt: -1}
	first := r.inc == 0
	pre, clean := r.preCrash, r.cleanCrash
	r.preCrash = nil
	hist := r.histFor(r.traceH)
	if !first {
		hist.Restarts++
	}
	nw.nodeEvent(r, ev, nil, func() (consensus.VerifState, string) {
		st, msg := r.start()
		return st, msg
	})
	if r.down || r.dead {
		return
	}
	nw.checkRestartLock(r, pre, clean)
}

func (nw *netw) evTimeout(r *rnode, st consensus.VerifState) {
	ev := &tevent{K: "timeout", Pkt: -1}
	nw.nodeEvent(r, ev, nil, func() (consensus.VerifState, string) { return st, "" })
}

func (nw *netw) evCallback(r *rnode, q *bmReq) {
	ev := &tevent{ReqRound: q.round, Pkt: -1}
	r.bmu.Lock()
	okRes := q.err == nil
	var nb *blockInfo
	if q.propose {
		ev.K = "proposecb"
		if q.err == nil && q.blk != nil {
			nb = nw.addBlock(q.h, q.blk, r.idx, fmt.Sprintf("real%d", r.idx))
		}
	} else if q.flags&module.ImportByForce != 0 {
		ev.K = "commitcb"
	} else {
		ev.K = "importcb"
	}
	stale := q.h != r.traceH
	r.bmu.Unlock()
	if nb != nil {
		ev.Blk = nb.ID
	}
	ev.OK = okRes
	if stale {
		// a request of an earlier height: the engine ignores the callback; the
		// model has no such request (fresh state): ReqRound -1 never matches
		ev.ReqRound = -7
	}
	nw.nodeEvent(r, ev, nil, func() (consensus.VerifState, string) { return r.release(q) })
}

// evDeliver hands packet p to node r.
func (nw *netw) evDeliver(r *rnode, p *packet, force *crashPlan) {
	h := r.traceH
	cur := p.H == h
	ev := &tevent{K: p.Kind, CurH: cur, Pkt: p.ID}
	hist := r.histFor(h)
	switch p.Kind {
	case "vote":
		ev.V = p.V
		ev.V.CurH = cur
		if ev.V.Dec < 0 {
			hist.Unknown = true
		}
	case "votelist":
		for _, v := range p.VL {
			v.CurH = cur
			ev.VL = append(ev.VL, v)
			if v.Dec < 0 {
				hist.Unknown = true
			}
		}
	case "proposal":
		ev.Round, ev.From, ev.Pol, ev.Blk = p.Round, p.From, p.Pol, p.Blk
		if p.Blk < 0 {
			hist.Unknown = true
		}
	case "part":
		ev.Blk, ev.Idx = p.Blk, p.Idx
		if p.Blk < 0 {
			hist.Unknown = true
		}
	}
	if cur {
		for _, vm := range p.votes {
			nw.noteReceived(r.idx, hist, vm)
		}
	}
	ds := p.dst[r.idx]
	if ds == nil {
		ds = &dstState{}
		p.dst[r.idx] = ds
	}
	ds.delivered++
	if ds.delivered > 1 {
		nw.nDup++
	}
	nw.nodeEvent(r, ev, force, func() (consensus.VerifState, string) { return r.deliver(p.Proto, p.Bytes) })
}

// noteReceived: bookkeeping of what a node has been given (for O3 and the
// discard rule of rotated heights).
func (nw *netw) noteReceived(node int, hist *nodeHist, vm *consensus.VoteMessage) {
	from := nw.valIndex(consensus.VerifSigner(vm))
	if from < 0 {
		return
	}
	if nw.isByz[from] {
		hist.ByzSeen++
	}
	fp := fmt.Sprintf("%s/%d", decKey(vm), vm.Timestamp)
	k := [3]int{from, int(vm.Round), int(vm.Type)}
	if old, ok := hist.seen[k]; ok && old != fp {
		hist.ByzConfl = true
	}
	hist.seen[k] = fp
	if vm.Type == consensus.VoteTypePrevote {
		nw.notePV(node, vm.Height, vm.Round, decKey(vm), from)
	}
}

func (nw *netw) notePV(node int, h int64, round int32, key string, from int) {
	a := nw.recvPV[node]
	if a == nil {
		a = map[int64]map[int32]map[string]map[int]bool{}
		nw.recvPV[node] = a
	}
	if a[h] == nil {
		a[h] = map[int32]map[string]map[int]bool{}
	}
	if a[h][round] == nil {
		a[h][round] = map[string]map[int]bool{}
	}
	if a[h][round][key] == nil {
		a[h][round][key] = map[int]bool{}
	}
	a[h][round][key][from] = true
}

// ---------------------------------------------------------------- commit of outputs

// addTraffic registers a signed vote as existing in the network (O2).
func (nw *netw) addTraffic(vm *consensus.VoteMessage) {
	from := nw.valIndex(consensus.VerifSigner(vm))
	if from < 0 {
		return
	}
	bs := codec.MustMarshalToBytes(vm)
	if nw.voteSeen[string(bs)] {
		return
	}
	nw.voteSeen[string(bs)] = true
	nw.allVotes = append(nw.allVotes, voteRec{H: vm.Height, Round: vm.Round, Type: int(vm.Type), From: from, Block: blockHex(vm), Seq: nw.seq, Bytes: bs})
	if vm.Type == consensus.VoteTypePrecommit && vm.BlockPartSetIDAndNTSVoteCount != nil {
		m := nw.pcs[vm.Height]
		if m == nil {
			m = map[int32]map[string]map[int]*consensus.VoteMessage{}
			nw.pcs[vm.Height] = m
		}
		if m[vm.Round] == nil {
			m[vm.Round] = map[string]map[int]*consensus.VoteMessage{}
		}
		bh := hex.EncodeToString(vm.BlockID)
		if m[vm.Round][bh] == nil {
			m[vm.Round][bh] = map[int]*consensus.VoteMessage{}
		}
		if m[vm.Round][bh][from] == nil {
			m[vm.Round][bh][from] = vm
		}
	}
}

// newPacket decodes a message into a pool entry (not yet added).
func (nw *netw) newPacket(proto module.ProtocolInfo, bs []byte, src int) *packet {
	m, err := consensus.UnmarshalMessage(proto.Uint16(), bs)
	if err != nil {
		return nil
	}
	p := &packet{Proto: proto, Bytes: bs, Src: src, From: -1, dst: map[int]*dstState{}}
	switch mm := m.(type) {
	case *consensus.VoteMessage:
		p.Kind, p.H = "vote", mm.Height
		p.V = nw.voteOf(mm)
		p.From = p.V.From
		p.Round = mm.Round
		p.votes = []*consensus.VoteMessage{mm}
	case *consensus.VoteListMessage:
		p.Kind = "votelist"
		if mm.VoteList == nil || mm.VoteList.Len() == 0 {
			return nil
		}
		for i := 0; i < mm.VoteList.Len(); i++ {
			vm := mm.VoteList.Get(i)
			p.VL = append(p.VL, nw.voteOf(vm))
			p.votes = append(p.votes, vm)
			p.H = vm.Height
			p.Round = vm.Round
		}
	case *consensus.ProposalMessage:
		p.Kind, p.H = "proposal", mm.Height
		p.Round, p.Pol = mm.Round, mm.POLRound
		p.From = nw.valIndex(consensus.VerifSigner(mm))
		p.Blk = nw.idOfKey(consensus.VerifPSIDKey(mm.BlockPartSetID))
	case *consensus.BlockPartMessage:
		p.Kind, p.H = "part", mm.Height
		if bi, ok := nw.byPart[string(mm.BlockPart)]; ok {
			p.Blk, p.Idx = bi[0], bi[1]
		} else {
			p.Blk = -1
		}
	default:
		return nil
	}
	for _, vm := range p.votes {
		if f := nw.valIndex(consensus.VerifSigner(vm)); f >= 0 && nw.isByz[f] {
			p.Byz = true
		}
	}
	if p.From >= 0 && nw.isByz[p.From] {
		p.Byz = true
	}
	return p
}

func (nw *netw) addPacket(p *packet) {
	p.ID = len(nw.pool)
	p.seq = nw.seq
	nw.pool = append(nw.pool, p)
	for _, vm := range p.votes {
		nw.addTraffic(vm)
	}
	nw.schedulePacket(p)
}

// commitOuts: the recorder entries [from,to) of node r really happened.
func (nw *netw) commitOuts(r *rnode, from, to int, ev *tevent) {
	if to <= from {
		return
	}
	outs := r.rec.slice(from, to)
	me := nw.wallets[r.idx].Address()
	for _, o := range outs {
		switch o.Kind {
		case oWalWrite:
			// a vote this node signed exists (it may be restored from the WAL
			// even if the broadcast is cut away by a crash)
			if o.Wal != "round" || len(o.Payload) < 2 {
				continue
			}
			m, err := consensus.UnmarshalMessage(binary.BigEndian.Uint16(o.Payload[:2]), o.Payload[2:])
			if err != nil {
				continue
			}
			if vm, ok := m.(*consensus.VoteMessage); ok {
				if a := consensus.VerifSigner(vm); a != nil && a.Equal(me) {
					nw.addTraffic(vm)
					if vm.Type == consensus.VoteTypePrevote {
						nw.notePV(r.idx, vm.Height, vm.Round, decKey(vm), r.idx)
					}
				}
			}
		case oBcast:
			p := nw.newPacket(o.Proto, o.Payload, r.idx)
			if p == nil {
				continue
			}
			switch p.Kind {
			case "vote":
				vm := p.votes[0]
				mine := p.From == r.idx
				if !mine {
					nw.fail(fmt.Sprintf("foreign-%d", r.idx), "(O4) real node %d broadcast a vote it did not sign", r.idx)
				}
				nw.sent[r.idx] = append(nw.sent[r.idx], sentMsg{o.Payload, vm.Height, vm.Round, int(vm.Type), o.Inc, ev.Seq})
				nw.checkSentVote(r, o, vm, ev)
			case "proposal":
				nw.sent[r.idx] = append(nw.sent[r.idx], sentMsg{o.Payload, p.H, p.Round, -1, o.Inc, ev.Seq})
			}
			nw.addPacket(p)
		}
	}
	nw.checkEquivocation(r)
}

// ---------------------------------------------------------------- oracles

// O4: no two different signed votes per (height, round, type), no two
// different proposals per (height, round), over all incarnations of a node.
func (nw *netw) checkEquivocation(r *rnode) {
	type key struct {
		h int64
		r int32
		t int
	}
	seen := map[key]sentMsg{}
	for _, s := range nw.sent[r.idx] {
		k := key{s.H, s.Round, s.Type}
		if p, ok := seen[k]; ok {
			if !bytes.Equal(p.Bytes, s.Bytes) {
				what := "proposals"
				if s.Type >= 0 {
					what = []string{"prevotes", "precommits"}[s.Type]
				}
				nw.fail(fmt.Sprintf("equiv-%d-%d-%d-%d", r.idx, s.H, s.Round, s.Type),
					"(O4) equivocation of real node %d: two different signed %s for height %d round %d (incarnations %d and %d)", r.idx, what, s.H, s.Round, p.Inc, s.Inc)
			}
		} else {
			seen[k] = s
		}
	}
}

// O3 (b),(c) and the C02-style lock discipline, at the moment a vote of the
// node is really handed to the network.  o carries the engine's lock at the
// moment of the send hook.
func (nw *netw) checkSentVote(r *rnode, o outRec, vm *consensus.VoteMessage, ev *tevent) {
	key := decKey(vm)
	h := vm.Height
	if vm.Type == consensus.VoteTypePrevote {
		if o.LID != "" && o.LID != key {
			nw.fail(fmt.Sprintf("o3b-%d-%d-%d", r.idx, h, vm.Round),
				"(O3) real node %d at height %d round %d sent a prevote for %s while locked on block %s (lockedRound %d)", r.idx, h, vm.Round, nw.nameOfKey(key), nw.nameOfKey(o.LID), o.LRound)
		}
		// after a sent precommit for B at round lr, a prevote for something else
		// at a later round needs a polka for something else at a round >= lr
		lr, lb := int32(-1), ""
		for _, pc := range nw.ownPC[r.idx][h] {
			if pc.Round < vm.Round && pc.Round > lr {
				lr, lb = pc.Round, pc.Key
			}
		}
		if lb != "" && key != lb {
			ok := false
			for rr, m := range nw.recvPV[r.idx][h] {
				if rr < lr {
					continue
				}
				for d, voters := range m {
					if d != lb && nw.quorum(len(voters)) {
						ok = true
					}
				}
			}
			if !ok {
				nw.fail(fmt.Sprintf("o3l-%d-%d-%d", r.idx, h, vm.Round),
					"(O3) lock discipline: real node %d at height %d precommitted block %s in round %d, then prevoted %s in round %d without a polka for anything else at a round >= %d among the prevotes it was given or signed",
					r.idx, h, nw.nameOfKey(lb), lr, nw.nameOfKey(key), vm.Round, lr)
			}
		}
		return
	}
	// precommit
	if key == "" {
		return
	}
	voters := nw.recvPV[r.idx][h][vm.Round][key]
	if !nw.quorum(len(voters)) {
		nw.fail(fmt.Sprintf("o3c-%d-%d-%d", r.idx, h, vm.Round),
			"(O3) real node %d at height %d round %d precommitted block %s with only %d of %d prevotes for it among the prevotes it was given or signed (no polka)", r.idx, h, vm.Round, nw.nameOfKey(key), len(voters), nw.n)
	}
	if nw.ownPC[r.idx] == nil {
		nw.ownPC[r.idx] = map[int64][]ownPCrec{}
	}
	nw.ownPC[r.idx][h] = append(nw.ownPC[r.idx][h], ownPCrec{vm.Round, key})
}

func (nw *netw) nameOfKey(key string) string {
	if key == "" {
		return "nil"
	}
	if b := nw.byKey[key]; b != nil {
		return fmt.Sprintf("#%d(%s %.8x)", b.ID, b.By, b.BlockID)
	}
	return "?" + key
}

// O3 (a): the lock after a restart.
func (nw *netw) checkRestartLock(r *rnode, pre *consensus.VerifState, clean bool) {
	st := r.lastObs
	h := st.Height
	// the latest block precommit the node really sent at this height
	lr, lb := int32(-1), ""
	for _, pc := range nw.ownPC[r.idx][h] {
		if pc.Round > lr {
			lr, lb = pc.Round, pc.Key
		}
	}
	if lb != "" && st.LockedID != "" {
		if st.LockedRound < lr || (st.LockedRound == lr && st.LockedID != lb) {
			nw.fail(fmt.Sprintf("o3a-%d-%d", r.idx, h),
				"(O3) stale lock after restart: real node %d at height %d had sent a precommit for block %s in round %d (lock written before), after the restart it is locked on (%d, %s): lockedRound went down",
				r.idx, h, nw.nameOfKey(lb), lr, st.LockedRound, nw.nameOfKey(st.LockedID))
		}
	}
	if pre != nil && clean && pre.Height == h && pre.LockedID != "" && st.LockedID == pre.LockedID && st.LockedRound < pre.LockedRound {
		nw.fail(fmt.Sprintf("o3a-%d-%d", r.idx, h),
			"(O3) stale lock after restart: real node %d at height %d was locked on (%d, %s) before the crash and is locked on (%d, same block) after the restart: lockedRound went down",
			r.idx, h, pre.LockedRound, nw.nameOfKey(pre.LockedID), st.LockedRound)
	}
}

// onFinalize: O1 and O2.
func (nw *netw) onFinalize(r *rnode, o outRec, ev *tevent) {
	h := o.H
	id := hex.EncodeToString(o.BlkID)
	fr := finalRec{Node: r.idx, Inc: o.Inc, H: h, ID: id, Round: -1, Seq: ev.Seq}
	r.fin[h] = true
	// O2: +2/3 precommits of distinct validators for this block in ONE round in the traffic
	best := 0
	var bestVotes map[int]*consensus.VoteMessage
	for rr, m := range nw.pcs[h] {
		if v := m[id]; len(v) > best {
			best = len(v)
			bestVotes = v
			fr.Round = rr
		}
	}
	nw.finals = append(nw.finals, fr)
	if !nw.quorum(best) {
		nw.fail(fmt.Sprintf("o2-%d-%d", r.idx, h),
			"(O2) real node %d finalized block %.8s at height %d, but the traffic (everything real nodes signed and everything the harness injected) holds at most %d of %d precommits for it in one round", r.idx, id, h, best, nw.n)
	} else if nw.commitVotes[h] == nil {
		var l []*consensus.VoteMessage
		var idx []int
		for i := range bestVotes {
			idx = append(idx, i)
		}
		sort.Ints(idx)
		for _, i := range idx {
			l = append(l, bestVotes[i])
		}
		nw.commitVotes[h] = l
		nw.decidedBlk[h] = nw.byKey[o.BlkKey]
	}
	// O1
	for _, f := range nw.finals {
		if f.H == h && f.ID != id {
			nw.fail(fmt.Sprintf("o1-%d", h),
				"(O1) AGREEMENT VIOLATED at height %d: real node %d (incarnation %d) finalized block %.8s, real node %d (incarnation %d) finalized block %.8s",
				h, f.Node, f.Inc, f.ID, r.idx, o.Inc, id)
		}
	}
	nw.note("node %d finalized h=%d %s (%.8s)", r.idx, h, nw.nameOfKey(o.BlkKey), id)
}

// ---------------------------------------------------------------- harness-side validators

func (nw *netw) nowMicro() int64 { return common.UnixMicroFromTime(time.Now()) }

// mkVote signs a vote with the key of validator `from` (a validator the harness plays).
func (nw *netw) mkVote(from int, vt consensus.VoteType, h int64, round int32, b *blockInfo, ts int64) *consensus.VoteMessage {
	if b == nil {
		return consensus.NewVoteMessage(nw.wallets[from], vt, h, round, nw.nid, nil, ts, nil, nil, 0)
	}
	return consensus.NewVoteMessage(nw.wallets[from], vt, h, round, b.BlockID, b.PSID, ts, nil, nil, 0)
}

// inject makes a harness-made message exist in the network, addressed to the
// given real nodes (nil: all).
func (nw *netw) inject(proto module.ProtocolInfo, bs []byte, to []int) *packet {
	p := nw.newPacket(proto, bs, -1)
	if p == nil {
		return nil
	}
	if to != nil {
		p.only = map[int]bool{}
		for _, i := range to {
			p.only[i] = true
		}
	}
	nw.seq++
	nw.nByzPk++
	for i, vm := range p.votes {
		var tv tvote
		if p.Kind == "vote" {
			tv = p.V
		} else {
			tv = p.VL[i]
		}
		tv.CurH = true
		if f := nw.valIndex(consensus.VerifSigner(vm)); f >= 0 && !nw.isReal[f] {
			nw.gtrace = append(nw.gtrace, gev{Seq: nw.seq, Node: -1, H: vm.Height, V: tv})
		}
	}
	nw.addPacket(p)
	return p
}

func (nw *netw) injectVote(vm *consensus.VoteMessage, to []int) *packet {
	return nw.inject(consensus.ProtoVote, codec.MustMarshalToBytes(vm), to)
}

func (nw *netw) injectVoteList(vms []*consensus.VoteMessage, to []int) *packet {
	l := consensus.NewVoteList()
	for _, v := range vms {
		l.AddVote(v)
	}
	bs, err := codec.BC.MarshalToBytes(&consensus.VoteListMessage{VoteList: l})
	must(err)
	return nw.inject(consensus.ProtoVoteList, bs, to)
}

func (nw *netw) injectProposal(from int, h int64, round int32, pol int32, b *blockInfo, to []int, withParts bool) {
	msg := consensus.NewProposalMessage()
	msg.Height = h
	msg.Round = round
	msg.BlockPartSetID = b.PSID
	msg.POLRound = pol
	must(msg.Sign(nw.wallets[from]))
	nw.inject(consensus.ProtoProposal, codec.MustMarshalToBytes(msg), to)
	if withParts {
		for i, part := range b.Parts {
			bpm := consensus.BlockPartMessage{Height: h, Index: uint16(i), BlockPart: part, Nonce: round}
			nw.inject(consensus.ProtoBlockPart, codec.MustMarshalToBytes(bpm), to)
		}
	}
}

// shadowAdvance lets the shadow of Byzantine validator b follow the chain the
// real nodes have decided, up to height h.
func (nw *netw) shadowAdvance(b int, h int64) bool {
	sh := nw.shadows[b]
	if sh == nil {
		return false
	}
	for nw.shadowH[b] < h {
		next := nw.shadowH[b] + 1
		bi := nw.decidedBlk[next]
		if bi == nil || bi.Parts == nil {
			return false
		}
		ps := consensus.NewPartSetFromID(bi.PSID)
		for _, pb := range bi.Parts {
			part, err := consensus.NewPart(pb)
			if err != nil {
				return false
			}
			if err := ps.AddPart(part); err != nil {
				return false
			}
		}
		ok := false
		p := catch(func() {
			bc, err, cbErr := test.ImportBlockByReader(nw.t, sh.BM, ps.NewReader(), 0)
			if err != nil || cbErr != nil || bc == nil {
				return
			}
			if err := sh.BM.Finalize(bc); err != nil {
				return
			}
			sh.UpdateLastBlock()
			ok = true
		})
		if p != "" || !ok {
			nw.note("shadow %d cannot follow to height %d (%s)", b, next, p)
			return false
		}
		nw.shadowH[b] = next
	}
	return true
}

// shadowBlock builds a valid block of height h whose proposer is Byzantine
// validator b (distinct blocks for distinct tags).
func (nw *netw) shadowBlock(b int, h int64, tag string) *blockInfo {
	if !nw.shadowAdvance(b, h-1) {
		return nil
	}
	sh := nw.shadows[b]
	var votes module.CommitVoteSet
	if h == 1 {
		votes = consensus.NewEmptyCommitVoteList()
	} else {
		cv := nw.commitVotes[h-1]
		if cv == nil {
			return nil
		}
		votes = consensus.NewCommitVoteList(nil, cv...)
	}
	var bi *blockInfo
	p := catch(func() {
		v := fmt.Sprintf("byz-%d-%d-%s", b, h, tag)
		if _, err := sh.SM.SendTransaction(nil, 0, test.NewTx().SetVarTest(&v).String()); err != nil {
			return
		}
		bc, err, cbErr := test.ProposeBlock(sh.BM, sh.LastBlock.ID(), votes)
		if err != nil || cbErr != nil || bc == nil {
			nw.note("shadow %d cannot propose at height %d: %v %v", b, h, err, cbErr)
			return
		}
		bi = nw.addBlock(h, bc, b, fmt.Sprintf("byz%d", b))
	})
	if p != "" {
		nw.note("shadow %d propose panic: %s", b, firstLine(p))
	}
	return bi
}
