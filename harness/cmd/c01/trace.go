// trace.go — the observed event trace of one real node over one height, in the
// format of harness/cmd/c02 (Run_C02.case), and its Coq printer.
//
// Heights above 1: the node model is written for height 1 (proposer of round r
// is slot (1+r) mod n).  At height h the engine uses (h+r) mod n, so the trace
// is printed with every validator slot renamed  s -> (s - (h-1)) mod n  (own
// slot, vote senders, proposal senders, block proposers); vote lists the
// engine emitted in ascending slot order are re-sorted into ascending model
// slot order (the harness checks that the emitted list was ascending).
package main

import (
	"fmt"
	"sort"
	"strings"

	"verif/harness/hxlib"
)

type tvote struct {
	From  int // validator index, -1: not a validator
	Round int32
	Type  int // 0 prevote, 1 precommit
	Dec   int // 0 nil, else block id of the net registry; -1 unknown
	TS    int64
	CurH  bool
}

type tout struct {
	K      string // write sync sendvote sendproposal sendpart sendvl import propose finalize
	Wal    string
	Rec    string // vote proposal votelist part
	V      tvote
	VL     []tvote
	Round  int32
	Blk    int
	Pol    int32
	Idx    int
	Force  bool
	SynErr bool
}

type tstate struct {
	Status      int // 0 running, 1 down, 2 decided
	Round       int32
	Step        int
	LockedRound int32
	Locked      int
	Pol         int32
	Cur         int
	Complete    bool
	HasBlock    bool
	Validated   bool
	Timer       bool
}

type tevent struct {
	K        string // proposal part vote votelist timeout proposecb importcb commitcb crash restart
	CurH     bool
	Round    int32
	From     int
	Pol      int32
	Blk      int
	Idx      int
	V        tvote
	VL       []tvote
	OK       bool
	ReqRound int32
	Keep     [3]int
	Delay    bool
	Outs     []tout
	Post     *tstate
	Cut      int // -1: no crash follows; else number of outputs that happened before the crash
	Note     string
	Seq      int // global sequence number inside the net (order of events of all nodes)
	Pkt      int // packet id delivered (-1 none)
}

// nodeHist is the trace of one node over one height.
type nodeHist struct {
	H        int64
	Node     int
	Events   []*tevent
	Discard  string
	Crashes  int
	Fused    int
	Torn     int
	Restarts int
	Finals   int
	ByzConfl bool // the node received two different votes of one validator for one (round, type)
	BadOrder bool // an emitted vote list was not in ascending slot order
	ByzSeen  int  // Byzantine votes delivered
	Unknown  bool // a message referred to a block the harness does not know
	seen     map[[3]int]string
}

// ---------------------------------------------------------------- Coq printing

type rot struct{ n, k int } // model slot = (real - k) mod n

func (r rot) slot(s int) int {
	if s < 0 || r.n == 0 {
		return s
	}
	return ((s-r.k)%r.n + r.n) % r.n
}

func z(v interface{}) string { return hxlib.CoqZ(v) }

func optN(v int) string {
	if v <= 0 {
		return "None"
	}
	return fmt.Sprintf("(Some %d)", v)
}

func nz(v int) int {
	if v < 0 {
		return 999999 // unknown block key: never equal to a model id
	}
	return v
}

func coqVote(r rot, v tvote) string {
	t := "Prevote"
	if v.Type == 1 {
		t = "Precommit"
	}
	d := v.Dec
	if d < 0 {
		d = 999999
	}
	return fmt.Sprintf("(mkVote %s %s %s %s %d)", z(r.slot(v.From)), z(v.Round), t, optN(d), v.TS)
}

func coqVotes(r rot, l []tvote) string {
	var s []string
	for _, v := range l {
		s = append(s, coqVote(r, v))
	}
	return hxlib.CoqList(s)
}

// sortedVL: a vote list the ENGINE produced (ascending validator index) in
// ascending model slot order.
func sortedVL(r rot, l []tvote) []tvote {
	c := append([]tvote(nil), l...)
	sort.SliceStable(c, func(i, j int) bool { return r.slot(c[i].From) < r.slot(c[j].From) })
	return c
}

func ascending(l []tvote) bool {
	for i := 1; i < len(l); i++ {
		if l[i-1].From >= l[i].From {
			return false
		}
	}
	return true
}

func coqWal(w string) string {
	switch w {
	case "round":
		return "WRound"
	case "lock":
		return "WLock"
	}
	return "WCommit"
}

func coqRec(r rot, o tout) string {
	switch o.Rec {
	case "vote":
		return "(RVote " + coqVote(r, o.V) + ")"
	case "proposal":
		return fmt.Sprintf("(RProposal %s %d %s)", z(o.Round), nz(o.Blk), z(o.Pol))
	case "votelist":
		return "(RVoteList " + coqVotes(r, sortedVL(r, o.VL)) + ")"
	case "part":
		return fmt.Sprintf("(RPart %d %d)", nz(o.Blk), o.Idx)
	}
	return "RUnknown"
}

func coqOut(r rot, o tout) string {
	switch o.K {
	case "write":
		return fmt.Sprintf("OWrite %s %s", coqWal(o.Wal), coqRec(r, o))
	case "sync":
		return "OSync " + coqWal(o.Wal)
	case "sendvote":
		return "OSendVote " + coqVote(r, o.V)
	case "sendproposal":
		return fmt.Sprintf("OSendProposal %s %d %s", z(o.Round), nz(o.Blk), z(o.Pol))
	case "sendpart":
		return fmt.Sprintf("OSendPart %d %d", nz(o.Blk), o.Idx)
	case "sendvl":
		return "OSendVoteList " + coqVotes(r, sortedVL(r, o.VL))
	case "import":
		return fmt.Sprintf("OImportReq %d %s %s", nz(o.Blk), hxlib.CoqBool(o.Force), hxlib.CoqBool(o.SynErr))
	case "propose":
		return "OProposeReq " + hxlib.CoqBool(o.SynErr)
	case "finalize":
		return fmt.Sprintf("OFinalize %d", nz(o.Blk))
	}
	return "OUnknown"
}

func coqObsRaw(s *tstate) string {
	return fmt.Sprintf("(mkObs %d %s %d %s %s %s %s %s %s %s %s)", s.Status, z(s.Round), s.Step, z(s.LockedRound), optN(nz(s.Locked)), z(s.Pol), optN(nz(s.Cur)),
		hxlib.CoqBool(s.Complete), hxlib.CoqBool(s.HasBlock), hxlib.CoqBool(s.Validated), hxlib.CoqBool(s.Timer))
}

func coqObs(s *tstate) string {
	if s == nil {
		return "None"
	}
	return "(Some " + coqObsRaw(s) + ")"
}

func coqEvent(r rot, e *tevent) string {
	switch e.K {
	case "proposal":
		return fmt.Sprintf("EProposal %s %s %s %s %d", hxlib.CoqBool(e.CurH), z(e.Round), z(r.slot(e.From)), z(e.Pol), nz(e.Blk))
	case "part":
		return fmt.Sprintf("EPart %s %d %d", hxlib.CoqBool(e.CurH), nz(e.Blk), e.Idx)
	case "vote":
		return fmt.Sprintf("EVote %s %s", hxlib.CoqBool(e.V.CurH), coqVote(r, e.V))
	case "votelist":
		var s []string
		for _, v := range e.VL {
			s = append(s, fmt.Sprintf("(%s, %s)", hxlib.CoqBool(v.CurH), coqVote(r, v)))
		}
		return "EVoteList " + hxlib.CoqList(s)
	case "timeout":
		return "ETimeout"
	case "proposecb":
		return fmt.Sprintf("EProposeCb %s %s %d", z(e.ReqRound), hxlib.CoqBool(e.OK), nz(e.Blk))
	case "importcb":
		return fmt.Sprintf("EImportCb %s %s", z(e.ReqRound), hxlib.CoqBool(e.OK))
	case "commitcb":
		return fmt.Sprintf("ECommitCb %s %s", z(e.ReqRound), hxlib.CoqBool(e.OK))
	case "crash":
		return fmt.Sprintf("ECrash %d%%nat %d%%nat %d%%nat", e.Keep[0], e.Keep[1], e.Keep[2])
	case "restart":
		return "ERestart"
	}
	return "EUnknown"
}

func coqBlocks(r rot, bl []*blockInfo) string {
	var sb strings.Builder
	sb.WriteString("[")
	for i, b := range bl {
		if i > 0 {
			sb.WriteString("; ")
		}
		fmt.Fprintf(&sb, "mkBlk %d %d %s %s false", b.ID, b.NParts, hxlib.CoqBool(b.Decodable), z(r.slot(b.Proposer)))
	}
	sb.WriteString("]")
	return sb.String()
}

func coqTev(r rot, e *tevent) string {
	var outs []string
	for _, o := range e.Outs {
		outs = append(outs, coqOut(r, o))
	}
	cut := "None"
	if e.Cut >= 0 {
		cut = fmt.Sprintf("(Some %d%%nat)", e.Cut)
	}
	return fmt.Sprintf("mkEv (%s) %s %s %s %s", coqEvent(r, e), hxlib.CoqBool(e.Delay), hxlib.CoqList(outs), coqObs(e.Post), cut)
}

// coqNodeCase prints Run_C02.case for one node and one height.
func coqNodeCase(n int, h *nodeHist, blocks []*blockInfo) string {
	r := rot{n, int((h.H - 1) % int64(n))}
	var sb strings.Builder
	fmt.Fprintf(&sb, "(mkCase %d %d %s [", n, r.slot(h.Node), coqBlocks(r, blocks))
	for i, e := range h.Events {
		if i > 0 {
			sb.WriteString(";\n  ")
		}
		sb.WriteString(coqTev(r, e))
	}
	sb.WriteString("])")
	return sb.String()
}
