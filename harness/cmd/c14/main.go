// c14: service/state world state (worldStateImpl, accountStateImpl, worldSnapshotImpl,
// readOnlyWorldState) over db.NewMapDB() vs Model_WorldState, plus the direct oracle:
// a reference world of plain Go maps written here, independent of the Coq model.
//
// A case is a pair of histories.  The first is random; the second rebuilds the logical
// content of the first one's last snapshot from scratch, on a fresh database, in a
// different order and with noise that leaves no trace (touches, set-then-delete,
// balance there-and-back, intermediate snapshots, ClearCache).  State hashes are numbered
// per case (equality classes over both histories).
package main

import (
	"bytes"
	"encoding/hex"
	"encoding/json"
	"fmt"
	"math/big"
	"math/rand"
	"sort"
	"strings"

	"github.com/icon-project/goloop/common"
	"github.com/icon-project/goloop/common/db"
	"github.com/icon-project/goloop/common/intconv"
	"github.com/icon-project/goloop/common/log"
	"github.com/icon-project/goloop/module"
	"github.com/icon-project/goloop/service/state"
	"verif/harness/hxlib"
)

// ---------- histories ----------

type op struct {
	O string `json:"o"`           // touch bal set del init block disable live peek obs ro snap reset clear flush reload fromsnap load
	A int    `json:"a,omitempty"` // account index
	K int    `json:"k,omitempty"` // key index
	V string `json:"v,omitempty"` // set: value (hex); bal: decimal
	I int    `json:"i,omitempty"` // snapshot index
	B bool   `json:"b,omitempty"` // block/disable argument
	W int    `json:"w,omitempty"` // init: owner index
	H bool   `json:"h,omitempty"` // use the handle obtained earlier instead of calling GetAccountState again
	D *dctx  `json:"d,omitempty"` // adddep / withdraw / pay: the Deposit/Pay context
	X string `json:"x,omitempty"` // withdraw: deposit id (hex)
	N bool   `json:"n,omitempty"` // withdraw: value is nil (withdraw everything)
}

// dctx implements state.DepositContext and state.PayContext
type dctx struct {
	Price  int64  `json:"price"`
	Height int64  `json:"height"`
	Term   int64  `json:"term"`
	Rate   int64  `json:"rate"`
	Tid    string `json:"tid"` // hex
	Off    bool   `json:"off,omitempty"`
}

func (d *dctx) StepPrice() *big.Int        { return big.NewInt(d.Price) }
func (d *dctx) FeeLimit() *big.Int         { return big.NewInt(d.Price) }
func (d *dctx) BlockHeight() int64         { return d.Height }
func (d *dctx) DepositTerm() int64         { return d.Term }
func (d *dctx) DepositIssueRate() *big.Int { return big.NewInt(d.Rate) }
func (d *dctx) TransactionID() []byte      { return mustHex(d.Tid) }
func (d *dctx) FeeSharingEnabled() bool    { return !d.Off }

func (d *dctx) enc(e *enc) {
	e.z(big.NewInt(d.Price))
	e.z(big.NewInt(d.Height))
	e.z(big.NewInt(d.Term))
	e.z(big.NewInt(d.Rate))
	e.bytes(mustHex(d.Tid))
	e.bool(!d.Off)
}

// one deposit as shown by GetDepositInfo
type dep struct {
	v1                                      bool
	id                                      []byte
	amount, remain, expire, issued, sremain *big.Int
}

func (d dep) String() string {
	if d.v1 {
		return fmt.Sprintf("v1(%x,%v,%v,%v,%v,%v)", d.id, d.amount, d.remain, d.expire, d.issued, d.sremain)
	}
	return fmt.Sprintf("v2(%v)", d.remain)
}

func depsString(l []dep) string {
	var a []string
	for _, d := range l {
		a = append(a, d.String())
	}
	return "[" + strings.Join(a, " ") + "]"
}

var infoCtx = &dctx{Price: 1, Height: 0}

func jsonBig(v interface{}) *big.Int {
	s, _ := v.(string)
	i := new(big.Int)
	if err := intconv.ParseBigInt(i, s); err != nil {
		panic("GetDepositInfo: unparsable number " + s)
	}
	return i
}

func observeDeposits(d state.AccountData) []dep {
	m, err := d.GetDepositInfo(infoCtx, module.JSONVersion3)
	if err != nil {
		panic("GetDepositInfo failed: " + err.Error())
	}
	if m == nil {
		return nil
	}
	var res []dep
	for _, x := range m["deposits"].([]interface{}) {
		j := x.(map[string]interface{})
		if ids, ok := j["id"]; ok {
			id, _ := hex.DecodeString(strings.TrimPrefix(ids.(string), "0x"))
			amount := jsonBig(j["depositAmount"])
			issued := jsonBig(j["virtualStepIssued"])
			res = append(res, dep{v1: true, id: id, amount: amount,
				remain: new(big.Int).Sub(amount, jsonBig(j["depositUsed"])), expire: jsonBig(j["expires"]),
				issued: issued, sremain: new(big.Int).Sub(issued, jsonBig(j["virtualStepUsed"]))})
		} else {
			res = append(res, dep{remain: jsonBig(j["depositRemain"])})
		}
	}
	return res
}

type hcase struct {
	Accts []string `json:"accts"` // address ids, hex
	Keys  []string `json:"keys"`  // storage keys, hex
	H1    []op     `json:"h1"`
	H2    []op     `json:"h2"`
}

var owners = []*common.Address{
	common.MustNewAddressFromString("hx0000000000000000000000000000000000000a01"),
	common.MustNewAddressFromString("cx0000000000000000000000000000000000000b02"),
}

// ---------- reference world (the property statement, in Go maps) ----------

type lacct struct {
	bal   *big.Int
	store map[string][]byte
	isc   bool
	own   int // -1 = none
	flg   int // 1 disabled, 2 blocked
	// deposits: what the live account showed after its last deposit operation (the oracle is about snapshots
	// keeping it, not about the deposit arithmetic), and the deposit operations that led there (for the rebuild)
	deps    []dep
	dephist []op
}

func newAcct() *lacct { return &lacct{bal: new(big.Int), store: map[string][]byte{}, own: -1} }

func (l *lacct) clone() *lacct {
	c := &lacct{bal: new(big.Int).Set(l.bal), store: map[string][]byte{}, isc: l.isc, own: l.own, flg: l.flg,
		deps: append([]dep(nil), l.deps...), dephist: append([]op(nil), l.dephist...)}
	for k, v := range l.store {
		c.store[k] = append([]byte{}, v...)
	}
	return c
}

func (l *lacct) empty() bool { return l.bal.Sign() == 0 && len(l.store) == 0 && !l.isc && l.flg == 0 }

type lworld map[int]*lacct

func (w lworld) get(a int) *lacct {
	if l, ok := w[a]; ok {
		return l
	}
	l := newAcct()
	w[a] = l
	return l
}

func (w lworld) clone() lworld {
	c := lworld{}
	for a, l := range w {
		c[a] = l.clone()
	}
	return c
}

// canonical text of the logical content: empty accounts are absent
func (w lworld) contentKey() string {
	var as []int
	for a, l := range w {
		if !l.empty() {
			as = append(as, a)
		}
	}
	sort.Ints(as)
	var sb strings.Builder
	for _, a := range as {
		l := w[a]
		fmt.Fprintf(&sb, "%d:%s,%v,%d,%d,%s{", a, l.bal, l.isc, l.own, l.flg, depsString(l.deps))
		var ks []string
		for k := range l.store {
			ks = append(ks, k)
		}
		sort.Strings(ks)
		for _, k := range ks {
			fmt.Fprintf(&sb, "%x=%x;", k, l.store[k])
		}
		sb.WriteString("}")
	}
	return sb.String()
}

// ---------- observations ----------

type aobs struct {
	bal  *big.Int
	isc  bool
	own  []byte // nil = no owner
	flg  int
	deps []dep
	vals [][]byte
}

func observe(d state.AccountData, keys [][]byte) (o aobs, err error) {
	o.bal = d.GetBalance()
	o.isc = d.IsContract()
	if ow := d.ContractOwner(); ow != nil {
		o.own = ow.Bytes()
	}
	if d.IsDisabled() {
		o.flg |= 1
	}
	if d.IsBlocked() {
		o.flg |= 2
	}
	o.deps = observeDeposits(d)
	for _, k := range keys {
		v, e := d.GetValue(k)
		if e != nil {
			return o, e
		}
		o.vals = append(o.vals, v)
	}
	return o, nil
}

// ---- the packed case format of Run_C14.p_case ----
type enc struct{ b []byte }

func (e *enc) byte(x int) { e.b = append(e.b, byte(x)) }
func (e *enc) bool(x bool) {
	if x {
		e.byte(1)
	} else {
		e.byte(0)
	}
}
func (e *enc) bytes(x []byte) {
	if len(x) > 255 {
		panic("byte string too long for the packed format")
	}
	e.byte(len(x))
	e.b = append(e.b, x...)
}
func (e *enc) optBytes(x []byte) { // nil and empty are both the Go "no value"
	if len(x) == 0 {
		e.byte(0)
		return
	}
	e.byte(1)
	e.bytes(x)
}
func (e *enc) z(v *big.Int) {
	if v == nil {
		v = new(big.Int)
	}
	e.bool(v.Sign() < 0)
	e.bytes(new(big.Int).Abs(v).Bytes())
}
func (e *enc) raw(x []byte) { e.b = append(e.b, x...) }

func (o aobs) enc(e *enc) {
	e.z(o.bal)
	e.bool(o.isc)
	e.optBytes(o.own)
	e.byte(o.flg)
	e.byte(len(o.deps))
	for _, d := range o.deps {
		if d.v1 {
			e.byte(1)
			e.bytes(d.id)
			e.z(d.amount)
			e.z(d.remain)
			e.z(d.expire)
			e.z(d.issued)
			e.z(d.sremain)
		} else {
			e.byte(2)
			e.z(d.remain)
		}
	}
	for _, v := range o.vals {
		e.optBytes(v)
	}
}

// (pw n (W8 w1 .. w8 (W8 .. WE)))%uint63 — see coq/run/Pack_Bytes.v
func coqPacked(b []byte) string {
	var words []uint64
	for i := 0; i < len(b); i += 7 {
		j := i + 7
		if j > len(b) {
			j = len(b)
		}
		var w uint64
		for _, x := range b[i:j] {
			w = w<<8 | uint64(x)
		}
		words = append(words, w)
	}
	for len(words)%8 != 0 {
		words = append(words, 0)
	}
	var sb strings.Builder
	fmt.Fprintf(&sb, "(CPacked (pw %d ", len(b))
	for i := 0; i < len(words); i += 8 {
		fmt.Fprintf(&sb, "(W8 %d %d %d %d %d %d %d %d ", words[i], words[i+1], words[i+2], words[i+3], words[i+4], words[i+5], words[i+6], words[i+7])
	}
	sb.WriteString("WE" + strings.Repeat(")", len(words)/8) + "))%uint63")
	return sb.String()
}

// does the observation show exactly the reference account?
func (o aobs) differs(l *lacct, keys [][]byte) string {
	if o.bal == nil || o.bal.Cmp(l.bal) != 0 {
		return fmt.Sprintf("balance %v, expected %v", o.bal, l.bal)
	}
	if o.isc != l.isc {
		return fmt.Sprintf("IsContract %v, expected %v", o.isc, l.isc)
	}
	var wantOwn []byte
	if l.own >= 0 {
		wantOwn = owners[l.own].Bytes()
	}
	if !bytes.Equal(o.own, wantOwn) || (o.own == nil) != (wantOwn == nil) {
		return fmt.Sprintf("owner %x, expected %x", o.own, wantOwn)
	}
	if o.flg != l.flg {
		return fmt.Sprintf("state flags %d, expected %d", o.flg, l.flg)
	}
	if depsString(o.deps) != depsString(l.deps) {
		return fmt.Sprintf("deposits %s, expected %s", depsString(o.deps), depsString(l.deps))
	}
	for i, k := range keys {
		if !bytes.Equal(o.vals[i], l.store[string(k)]) {
			return fmt.Sprintf("value[%x] = %x, expected %x", k, o.vals[i], l.store[string(k)])
		}
	}
	return ""
}

// ---------- execution ----------

type stats struct {
	resets, clears, reloads, snaps int
	depOps                         int
	emptiedPresent                 bool // an account present in a snapshot was empty (absent) in a later one
	resetChanged                   bool // a reset that changed the logical content
}

type classes struct {
	byHash    map[string]int    // hash (hex, "" = nil) -> class
	byContent map[string]string // content key -> hash
	ofHash    map[string]string // hash -> content key
}

func newClasses() *classes {
	return &classes{byHash: map[string]int{}, byContent: map[string]string{}, ofHash: map[string]string{}}
}

type runner struct {
	accts, keys [][]byte
	cl          *classes
	database    db.Database
	ws          state.WorldState
	handles     map[int]state.AccountState
	snaps       []state.WorldSnapshot
	hashes      []string
	flushed     []bool
	cur         lworld
	refs        []lworld
	msg         string
	st          stats
	snapBytes   []map[int]string // per snapshot: the serialized account objects as first read
	ops         enc              // encoded operations with their observations
	nops        int
}

// emit one operation: tag, then its fields
func (r *runner) op(tag int, f func(e *enc)) {
	r.ops.byte(tag)
	if f != nil {
		f(&r.ops)
	}
	r.nops++
}

func (r *runner) fail(i int, o op, f string, a ...interface{}) {
	if r.msg == "" {
		r.msg = fmt.Sprintf("op %d (%s): ", i, o.O) + fmt.Sprintf(f, a...)
	}
}

func (r *runner) acct(o op) state.AccountState {
	if h, ok := r.handles[o.A]; ok && o.H {
		return h
	}
	h := r.ws.GetAccountState(r.accts[o.A])
	r.handles[o.A] = h
	return h
}

// register a snapshot's hash; the direct oracle of the canonical-hash clause
func (r *runner) class(i int, o op, h []byte, w lworld) int {
	hs := hex.EncodeToString(h)
	ck := w.contentKey()
	if prev, ok := r.cl.byContent[ck]; ok && prev != hs {
		r.fail(i, o, "state hash %s, but the same logical content {%s} had state hash %s before", hs, ck, prev)
	} else if !ok {
		r.cl.byContent[ck] = hs
	}
	if prev, ok := r.cl.ofHash[hs]; ok && prev != ck {
		r.fail(i, o, "state hash %s for content {%s}, but that hash was the hash of the different content {%s}", hs, ck, prev)
	} else if !ok {
		r.cl.ofHash[hs] = ck
	}
	if (len(h) == 0) != (ck == "") {
		r.fail(i, o, "state hash %q for content {%s}: the hash is nil exactly for the empty world", hs, ck)
	}
	c, ok := r.cl.byHash[hs]
	if !ok {
		c = len(r.cl.byHash)
		r.cl.byHash[hs] = c
	}
	return c
}

// observe snapshot j completely, compare with its reference; returns the Coq list
func (r *runner) obsSnap(i int, o op, j int) []byte {
	var l enc
	for a, id := range r.accts {
		as := r.snaps[j].GetAccountSnapshot(id)
		ref := r.refs[j].get(a)
		if as == nil {
			l.byte(0)
			if !ref.empty() {
				r.fail(i, o, "snapshot %d has no account %d, expected balance %v and %d values", j, a, ref.bal, len(ref.store))
			}
			continue
		}
		ob, err := observe(as, r.keys)
		if err != nil {
			r.fail(i, o, "snapshot %d account %d: GetValue failed: %v", j, a, err)
			l.byte(0)
			continue
		}
		// the serialized account (everything that enters the state hash), as first read
		bs := string(as.Bytes())
		if prev, ok := r.snapBytes[j][a]; !ok {
			r.snapBytes[j][a] = bs
		} else if prev != bs {
			r.fail(i, o, "snapshot %d account %d: the serialized account changed after the snapshot was taken: %x -> %x", j, a, prev, bs)
		}
		l.byte(1)
		ob.enc(&l)
		if ref.empty() {
			r.fail(i, o, "snapshot %d holds account %d although it is empty (balance %v): an empty account must be absent", j, a, ob.bal)
		} else if d := ob.differs(ref, r.keys); d != "" {
			r.fail(i, o, "snapshot %d account %d: %s", j, a, d)
		}
	}
	if h := hex.EncodeToString(r.snaps[j].StateHash()); h != r.hashes[j] {
		r.fail(i, o, "snapshot %d: state hash changed from %s to %s", j, r.hashes[j], h)
	}
	return l.b
}

func (r *runner) addSnap(i int, o op, s state.WorldSnapshot, w lworld, fl bool) (int, []byte) {
	r.snaps = append(r.snaps, s)
	r.snapBytes = append(r.snapBytes, map[int]string{})
	r.refs = append(r.refs, w)
	r.flushed = append(r.flushed, fl)
	h := s.StateHash()
	r.hashes = append(r.hashes, hex.EncodeToString(h))
	c := r.class(i, o, h, w)
	j := len(r.snaps) - 1
	// an account that was present earlier and is absent now
	if j > 0 {
		for a := range r.accts {
			if !r.refs[j-1].get(a).empty() && w.get(a).empty() {
				r.st.emptiedPresent = true
			}
		}
	}
	return c, r.obsSnap(i, o, j)
}

func (r *runner) step(i int, o op) {
	okIdx := func() bool {
		if o.I < 0 || o.I >= len(r.snaps) {
			r.fail(i, o, "bad history: snapshot index %d", o.I)
			return false
		}
		return true
	}
	switch o.O {
	case "touch":
		r.acct(o)
		r.cur.get(o.A)
		r.op(0, func(e *enc) { e.byte(o.A) })
	case "bal":
		v, _ := new(big.Int).SetString(o.V, 10)
		r.acct(o).SetBalance(v)
		r.cur.get(o.A).bal = v
		r.op(1, func(e *enc) { e.byte(o.A); e.z(v) })
	case "set", "del":
		k := r.keys[o.K]
		l := r.cur.get(o.A)
		want := l.store[string(k)]
		var old []byte
		var err error
		var v []byte
		if o.O == "set" {
			v, _ = hex.DecodeString(o.V)
			old, err = r.acct(o).SetValue(k, v)
		} else {
			old, err = r.acct(o).DeleteValue(k)
		}
		if err != nil {
			r.fail(i, o, "failed: %v", err)
		}
		if !bytes.Equal(old, want) {
			r.fail(i, o, "returned old value %x, the account held %x", old, want)
		}
		if len(v) == 0 {
			delete(l.store, string(k))
		} else {
			l.store[string(k)] = v
		}
		if o.O == "set" {
			r.op(2, func(e *enc) { e.byte(o.A); e.byte(o.K); e.bytes(v); e.optBytes(old) })
		} else {
			r.op(3, func(e *enc) { e.byte(o.A); e.byte(o.K); e.optBytes(old) })
		}
	case "init":
		l := r.cur.get(o.A)
		res := r.acct(o).InitContractAccount(owners[o.W])
		if res != !l.isc {
			r.fail(i, o, "InitContractAccount returned %v, account isContract=%v", res, l.isc)
		}
		if !l.isc {
			l.isc = true
			l.own = o.W
		}
		r.op(4, func(e *enc) { e.byte(o.A); e.bytes(owners[o.W].Bytes()); e.bool(res) })
	case "block":
		r.acct(o).SetBlock(o.B)
		l := r.cur.get(o.A)
		l.flg &^= 2
		if o.B {
			l.flg |= 2
		}
		r.op(5, func(e *enc) { e.byte(o.A); e.bool(o.B) })
	case "disable":
		r.acct(o).SetDisable(o.B)
		l := r.cur.get(o.A)
		if l.isc {
			l.flg &^= 1
			if o.B {
				l.flg |= 1
			}
		}
		r.op(6, func(e *enc) { e.byte(o.A); e.bool(o.B) })
	case "adddep", "withdraw", "pay":
		l := r.cur.get(o.A)
		if !l.isc || o.D == nil {
			return // deposits are only used on contract accounts (as the service layer does); skipped otherwise
		}
		as := r.acct(o)
		v, _ := new(big.Int).SetString(o.V, 10)
		switch o.O {
		case "adddep":
			err := as.AddDeposit(o.D, v)
			r.op(18, func(e *enc) { e.byte(o.A); o.D.enc(e); e.z(v); e.bool(err == nil) })
		case "withdraw":
			if o.N {
				v = nil
			}
			amount, fee, err := as.WithdrawDeposit(o.D, mustHex(o.X), v)
			r.op(19, func(e *enc) {
				e.byte(o.A)
				o.D.enc(e)
				e.bytes(mustHex(o.X))
				e.bool(v != nil)
				if v != nil {
					e.z(v)
				}
				e.bool(err == nil)
				if err == nil {
					e.z(amount)
					e.z(fee)
				}
			})
		case "pay":
			paid, byDep, err := as.PaySteps(o.D, v)
			if err != nil {
				r.fail(i, o, "PaySteps failed: %v", err)
			}
			r.op(20, func(e *enc) {
				e.byte(o.A)
				o.D.enc(e)
				e.z(v)
				e.bool(paid != nil)
				if paid != nil {
					e.z(paid)
				}
				e.bool(byDep != nil)
				if byDep != nil {
					e.z(byDep)
				}
			})
		}
		l.deps = observeDeposits(as)
		l.dephist = append(l.dephist, op{O: o.O, A: o.A, V: o.V, D: o.D, X: o.X, N: o.N})
		r.st.depOps++
	case "live", "peek":
		var d state.AccountData
		if o.O == "live" {
			d = r.acct(o)
		} else {
			as := r.ws.GetAccountSnapshot(r.accts[o.A])
			if as == nil {
				r.fail(i, o, "WorldState.GetAccountSnapshot returned nil")
				return
			}
			d = as
		}
		ob, err := observe(d, r.keys)
		if err != nil {
			r.fail(i, o, "GetValue failed: %v", err)
		}
		if err == nil {
			if df := ob.differs(r.cur.get(o.A), r.keys); df != "" {
				r.fail(i, o, "account %d of the live state: %s", o.A, df)
			}
		}
		if len(ob.vals) != len(r.keys) {
			return
		}
		r.op(map[string]int{"live": 7, "peek": 8}[o.O], func(e *enc) { e.byte(o.A); ob.enc(e) })
	case "obs":
		if !okIdx() {
			return
		}
		ob := r.obsSnap(i, o, o.I)
		r.op(9, func(e *enc) { e.byte(o.I); e.raw(ob) })
	case "ro":
		if !okIdx() {
			return
		}
		ro := state.NewReadOnlyWorldState(r.snaps[o.I])
		var l enc
		for a, id := range r.accts {
			as := ro.GetAccountState(id)
			ob, err := observe(as, r.keys)
			if err != nil {
				r.fail(i, o, "read-only state, account %d: GetValue failed: %v", a, err)
			} else if df := ob.differs(r.refs[o.I].get(a), r.keys); df != "" {
				r.fail(i, o, "read-only state over snapshot %d, account %d: %s", o.I, a, df)
			}
			if len(ob.vals) != len(r.keys) {
				return
			}
			ob.enc(&l)
		}
		r.op(10, func(e *enc) { e.byte(o.I); e.raw(l.b) })
	case "snap":
		s := r.ws.GetSnapshot()
		c, ob := r.addSnap(i, o, s, r.cur.clone(), false)
		r.st.snaps++
		r.op(11, func(e *enc) { e.byte(c); e.raw(ob) })
	case "reset":
		if !okIdx() {
			return
		}
		if err := r.ws.Reset(r.snaps[o.I]); err != nil {
			r.fail(i, o, "Reset failed: %v", err)
		}
		if r.cur.contentKey() != r.refs[o.I].contentKey() {
			r.st.resetChanged = true
		}
		r.cur = r.refs[o.I].clone()
		r.st.resets++
		r.op(12, func(e *enc) { e.byte(o.I) })
	case "clear":
		r.ws.ClearCache()
		r.handles = map[int]state.AccountState{}
		r.st.clears++
		r.op(13, nil)
	case "flush":
		if !okIdx() {
			return
		}
		if err := r.snaps[o.I].Flush(); err != nil {
			r.fail(i, o, "Flush failed: %v", err)
		}
		r.flushed[o.I] = true
		r.op(14, func(e *enc) { e.byte(o.I) })
	case "reload", "fromsnap":
		if !okIdx() {
			return
		}
		if o.O == "reload" {
			if !r.flushed[o.I] {
				r.fail(i, o, "bad history: reload of a snapshot that was not flushed")
				return
			}
			r.ws = state.NewWorldState(r.database, r.snaps[o.I].StateHash(), nil, nil, nil)
			r.op(15, func(e *enc) { e.byte(o.I) })
		} else {
			ws, err := state.WorldStateFromSnapshot(r.snaps[o.I])
			if err != nil {
				r.fail(i, o, "WorldStateFromSnapshot failed: %v", err)
				return
			}
			r.ws = ws
			r.op(16, func(e *enc) { e.byte(o.I) })
		}
		r.handles = map[int]state.AccountState{}
		r.cur = r.refs[o.I].clone()
		r.st.reloads++
	case "load":
		if !okIdx() {
			return
		}
		if !r.flushed[o.I] {
			r.fail(i, o, "bad history: load of a snapshot that was not flushed")
			return
		}
		s := state.NewWorldSnapshot(r.database, r.snaps[o.I].StateHash(), nil, nil, nil)
		c, ob := r.addSnap(i, o, s, r.refs[o.I].clone(), true)
		r.op(17, func(e *enc) { e.byte(o.I); e.byte(c); e.raw(ob) })
	default:
		r.fail(i, o, "bad history: unknown operation")
	}
}

// after every step: every snapshot obtained so far still shows what it showed when taken
func (r *runner) recheckAll(i int, o op) {
	for j := range r.snaps {
		r.obsSnap(i, o, j)
	}
}

func execHist(accts, keys [][]byte, ops []op, cl *classes) (r *runner) {
	r = &runner{accts: accts, keys: keys, cl: cl, database: db.NewMapDB(), handles: map[int]state.AccountState{}, cur: lworld{}}
	r.ws = state.NewWorldState(r.database, nil, nil, nil, nil)
	for i, o := range ops {
		n, k := len(r.ops.b), r.nops
		if p := hxlib.Catch(func() { r.step(i, o) }); p != "" {
			r.fail(i, o, "panic: %s", p)
			r.ops.b, r.nops = r.ops.b[:n], k
			return
		}
		if p := hxlib.Catch(func() { r.recheckAll(i, o) }); p != "" {
			r.fail(i, o, "panic while re-reading the snapshots: %s", p)
			return
		}
	}
	return
}

func decodeTables(c hcase) (accts, keys [][]byte) {
	for _, s := range c.Accts {
		b, _ := hex.DecodeString(s)
		accts = append(accts, b)
	}
	for _, s := range c.Keys {
		b, _ := hex.DecodeString(s)
		keys = append(keys, b)
	}
	return
}

// run both histories of a case; returns Coq term, oracle message, stats, and the reference
// content of the last snapshot of each history
func runCase(c hcase) (coq string, msg string, st stats) {
	accts, keys := decodeTables(c)
	cl := newClasses()
	r1 := execHist(accts, keys, c.H1, cl)
	msg = r1.msg
	st = r1.st
	var t2 enc
	n2 := 0
	if len(c.H2) > 0 {
		r2 := execHist(accts, keys, c.H2, cl)
		if msg == "" && r2.msg != "" {
			msg = "second history (rebuild from scratch): " + r2.msg
		}
		// the rebuilt world must end with the hash of the first history's last snapshot
		if msg == "" && len(r1.snaps) > 0 && len(r2.snaps) > 0 {
			a, b := r1.hashes[len(r1.hashes)-1], r2.hashes[len(r2.hashes)-1]
			ca, cb := r1.refs[len(r1.refs)-1].contentKey(), r2.refs[len(r2.refs)-1].contentKey()
			if ca == cb && a != b {
				msg = fmt.Sprintf("the same logical content {%s} built in a different order has state hash %s instead of %s", ca, b, a)
			}
		}
		t2, n2 = r2.ops, r2.nops
	}
	var e enc
	e.byte(len(accts))
	for _, a := range accts {
		e.bytes(a)
	}
	e.byte(len(keys))
	for _, k := range keys {
		e.bytes(k)
	}
	e.byte(r1.nops >> 8)
	e.byte(r1.nops & 255)
	e.raw(r1.ops.b)
	e.byte(n2 >> 8)
	e.byte(n2 & 255)
	e.raw(t2.b)
	coq = coqPacked(e.b)
	return
}

// ---------- generator ----------

var keyPool = [][]byte{{1}, {1, 2}, {0x10}, []byte("key3")}
var balPool = []string{"0", "0", "1", "5", "1000", "1180591620717411303424", "340282366920938463463374607431768211456"}

func randVal(r *rand.Rand) string {
	switch r.Intn(6) {
	case 0:
		return "07"
	case 1:
		return "00"
	default:
		b := make([]byte, 1+r.Intn(3))
		r.Read(b)
		return hex.EncodeToString(b)
	}
}

// a generator-side shadow of which snapshots exist and which are flushed, and of the logical
// content (needed to produce the rebuild history)
type genState struct {
	na, nk  int
	nsnap   int
	flushed []bool
	ops     []op
}

func (g *genState) add(o op) { g.ops = append(g.ops, o) }

func (g *genState) snap() { g.add(op{O: "snap"}); g.nsnap++; g.flushed = append(g.flushed, false) }

func (g *genState) anyFlushed(r *rand.Rand) int {
	var l []int
	for i, f := range g.flushed {
		if f {
			l = append(l, i)
		}
	}
	if len(l) == 0 {
		return -1
	}
	return l[r.Intn(len(l))]
}

var tidPool = []string{"a1", "b2b2"}

func randCtx(r *rand.Rand, height *int64) *dctx {
	*height += int64(r.Intn(4))
	if r.Intn(12) == 0 {
		*height += 100 // beyond the term of every deposit so far
	}
	c := &dctx{Price: []int64{100, 100, 10, 1, 0}[r.Intn(5)], Height: *height, Term: []int64{0, 0, 100, 5}[r.Intn(4)],
		Rate: []int64{8, 50}[r.Intn(2)], Tid: tidPool[r.Intn(len(tidPool))], Off: r.Intn(15) == 0}
	return c
}

func randDepositOp(r *rand.Rand, a int, height *int64) op {
	c := randCtx(r, height)
	switch r.Intn(10) {
	case 0, 1, 2:
		return op{O: "adddep", A: a, D: c, V: []string{"50000", "7000", "1000", "123456789"}[r.Intn(4)], H: r.Intn(2) == 0}
	case 3, 4, 5, 6:
		return op{O: "pay", A: a, D: c, V: []string{"120", "30", "4000", "100000", "1"}[r.Intn(5)], H: r.Intn(2) == 0}
	default:
		o := op{O: "withdraw", A: a, D: c, H: r.Intn(2) == 0}
		if r.Intn(2) == 0 {
			o.X = tidPool[r.Intn(len(tidPool))] // a v1 deposit; only complete withdrawal is allowed
			o.N = r.Intn(4) > 0
			o.V = "10"
		} else {
			o.X = ""
			o.N = r.Intn(3) == 0
			o.V = []string{"10", "500", "7000", "999999999999"}[r.Intn(4)]
		}
		return o
	}
}

func genHist(r *rand.Rand, na, nk int) []op {
	height := int64(10)
	g := &genState{na: na, nk: nk}
	n := 14 + r.Intn(28)
	for i := 0; i < n; i++ {
		a := r.Intn(na)
		k := r.Intn(nk)
		h := r.Intn(2) == 0
		switch x := r.Intn(100); {
		case x < 17:
			g.add(op{O: "bal", A: a, V: balPool[r.Intn(len(balPool))], H: h})
		case x < 34:
			g.add(op{O: "set", A: a, K: k, V: randVal(r), H: h})
		case x < 43:
			g.add(op{O: "del", A: a, K: k, H: h})
		case x < 45:
			g.add(op{O: "set", A: a, K: k, V: "", H: h}) // empty value = delete
		case x < 50: // drain an account completely
			g.add(op{O: "bal", A: a, V: "0", H: h})
			for kk := 0; kk < nk; kk++ {
				g.add(op{O: "del", A: a, K: kk, H: true})
			}
		case x < 52:
			g.add(op{O: "init", A: a, W: r.Intn(len(owners)), H: h})
			if r.Intn(2) == 0 {
				g.add(randDepositOp(r, a, &height))
			}
		case x < 56:
			g.add(op{O: "block", A: a, B: r.Intn(2) == 0, H: h})
		case x < 58:
			g.add(op{O: "disable", A: a, B: r.Intn(2) == 0, H: h})
		case x < 60:
			g.add(op{O: "touch", A: a})
		case x < 63: // deposit operations (skipped by the runner unless the account is a contract)
			for j := 0; j < 1+r.Intn(2); j++ {
				g.add(randDepositOp(r, a, &height))
			}
		case x < 65:
			// a contract with a deposit, a snapshot, in-place deposit updates through the same account state,
			// another snapshot, sometimes a Reset to the first one
			g.add(op{O: "init", A: a, W: r.Intn(len(owners)), H: h})
			g.add(op{O: "adddep", A: a, D: &dctx{Price: 100, Height: height, Term: []int64{0, 100}[r.Intn(2)], Rate: 8, Tid: tidPool[0]}, V: "50000", H: true})
			g.snap()
			for j := 0; j < 1+r.Intn(3); j++ {
				g.add(randDepositOp(r, a, &height))
			}
			g.snap()
			if r.Intn(2) == 0 {
				g.add(op{O: "reset", I: g.nsnap - 2})
				g.add(op{O: "live", A: a, H: true})
				if r.Intn(2) == 0 {
					g.add(randDepositOp(r, a, &height))
				}
				g.snap()
			}
		case x < 67:
			g.add(op{O: "live", A: a, H: h})
		case x < 71:
			g.add(op{O: "peek", A: a})
		case x < 81:
			g.snap()
		case x < 87:
			if g.nsnap == 0 {
				g.snap()
				continue
			}
			g.add(op{O: "reset", I: r.Intn(g.nsnap)})
			if r.Intn(10) < 7 {
				for aa := 0; aa < na; aa++ {
					if r.Intn(2) == 0 {
						g.add(op{O: "peek", A: aa})
					} else {
						g.add(op{O: "live", A: aa, H: r.Intn(2) == 0})
					}
				}
			}
			if r.Intn(3) == 0 {
				g.snap()
			}
		case x < 89:
			g.add(op{O: "clear"})
		case x < 91:
			// an account that the cache first saw while it was absent is brought back by a Reset and emptied again:
			// drain, snapshot, forget the cache, touch, reset to an older snapshot, drain, snapshot
			g.add(op{O: "bal", A: a, V: "0"})
			for kk := 0; kk < nk; kk++ {
				g.add(op{O: "del", A: a, K: kk, H: true})
			}
			g.snap()
			if r.Intn(3) > 0 {
				g.add(op{O: "clear"})
			} else {
				g.add(op{O: "fromsnap", I: g.nsnap - 1})
			}
			g.add(op{O: "touch", A: a})
			g.add(op{O: "reset", I: r.Intn(g.nsnap)})
			if r.Intn(2) == 0 {
				g.add(op{O: "live", A: a, H: true})
			}
			g.add(op{O: "bal", A: a, V: "0", H: r.Intn(2) == 0})
			for kk := 0; kk < nk; kk++ {
				g.add(op{O: "del", A: a, K: kk, H: true})
			}
			g.snap()
		case x < 94:
			if g.nsnap == 0 {
				g.snap()
			}
			j := r.Intn(g.nsnap)
			g.add(op{O: "flush", I: j})
			g.flushed[j] = true
		case x < 96:
			j := g.anyFlushed(r)
			if j < 0 {
				g.snap()
				j = g.nsnap - 1
				g.add(op{O: "flush", I: j})
				g.flushed[j] = true
			}
			g.add(op{O: "reload", I: j})
		case x < 97:
			if g.nsnap > 0 {
				g.add(op{O: "fromsnap", I: r.Intn(g.nsnap)})
			}
		case x < 98:
			if j := g.anyFlushed(r); j >= 0 {
				g.add(op{O: "load", I: j})
				g.nsnap++
				g.flushed = append(g.flushed, true)
			}
		default:
			if g.nsnap > 0 {
				if r.Intn(2) == 0 {
					g.add(op{O: "obs", I: r.Intn(g.nsnap)})
				} else {
					g.add(op{O: "ro", I: r.Intn(g.nsnap)})
				}
			}
		}
	}
	// end: a snapshot, flushed; sometimes reloaded and snapshotted again; then everything is read once more
	g.snap()
	last := g.nsnap - 1
	g.add(op{O: "flush", I: last})
	g.flushed[last] = true
	if r.Intn(2) == 0 {
		g.add(op{O: "reload", I: last})
		if r.Intn(2) == 0 {
			g.add(op{O: "touch", A: r.Intn(na)})
		}
		g.snap()
	}
	for j := 0; j < g.nsnap; j++ {
		g.add(op{O: "obs", I: j})
	}
	g.add(op{O: "ro", I: g.nsnap - 1})
	return g.ops
}

// a history that builds the logical content w from scratch, in a different order, with noise
func genRebuild(r *rand.Rand, w lworld, na, nk int, keys [][]byte) []op {
	var ops []op
	noise := func() {
		a := r.Intn(na)
		switch r.Intn(7) {
		case 0:
			ops = append(ops, op{O: "touch", A: a})
		case 1: // set then delete a key the account does not hold in the end
			for k := 0; k < nk; k++ {
				if _, ok := w.get(a).store[string(keys[k])]; !ok {
					ops = append(ops, op{O: "set", A: a, K: k, V: "aa"}, op{O: "del", A: a, K: k, H: true})
					break
				}
			}
		case 2:
			ops = append(ops, op{O: "snap"})
		case 3:
			ops = append(ops, op{O: "clear"})
		case 4:
			ops = append(ops, op{O: "peek", A: a})
		default:
		}
	}
	type item struct {
		a    int
		kind int // 0 bal, 1 value, 2 init, 3 block, 4 disable
		k    int
	}
	var items []item
	for a := 0; a < na; a++ {
		l := w.get(a)
		if l.bal.Sign() != 0 {
			items = append(items, item{a, 0, 0})
		}
		for k := 0; k < nk; k++ {
			if _, ok := l.store[string(keys[k])]; ok {
				items = append(items, item{a, 1, k})
			}
		}
		if l.flg&2 != 0 {
			items = append(items, item{a, 3, 0})
		}
	}
	r.Shuffle(len(items), func(i, j int) { items[i], items[j] = items[j], items[i] })
	// contract initialisation first for its account (SetDisable needs it), at a random position otherwise
	for a := 0; a < na; a++ {
		l := w.get(a)
		if l.isc {
			ops = append(ops, op{O: "init", A: a, W: l.own})
			if l.flg&1 != 0 {
				ops = append(ops, op{O: "disable", A: a, B: true, H: true})
			}
			for _, d := range l.dephist { // the deposit list is a function of the deposit operations on this account
				ops = append(ops, d)
				if r.Intn(4) == 0 {
					ops = append(ops, op{O: "snap"})
				}
			}
			noise()
		}
	}
	for _, it := range items {
		l := w.get(it.a)
		switch it.kind {
		case 0:
			if r.Intn(3) == 0 { // there and back
				ops = append(ops, op{O: "bal", A: it.a, V: "77"})
				if r.Intn(2) == 0 {
					ops = append(ops, op{O: "snap"})
				}
			}
			ops = append(ops, op{O: "bal", A: it.a, V: l.bal.String(), H: r.Intn(2) == 0})
		case 1:
			if r.Intn(4) == 0 {
				ops = append(ops, op{O: "set", A: it.a, K: it.k, V: "bbbb"})
			}
			ops = append(ops, op{O: "set", A: it.a, K: it.k, V: hex.EncodeToString(l.store[string(keys[it.k])]), H: r.Intn(2) == 0})
		case 3:
			ops = append(ops, op{O: "block", A: it.a, B: true})
		}
		if r.Intn(3) == 0 {
			noise()
		}
	}
	ops = append(ops, op{O: "snap"})
	return ops
}

func genCase(r *rand.Rand) hcase {
	na := 3 + r.Intn(3)
	nk := 2 + r.Intn(2)
	var c hcase
	for i := 0; i < na; i++ {
		b := make([]byte, 20)
		r.Read(b)
		if i == 1 { // share a long prefix with account 0 (the trie key is sha3(id), so this is only for the id table)
			a0 := mustHex(c.Accts[0])
			copy(b, a0[:19])
			if b[19] == a0[19] {
				b[19] ^= 0x80
			}
		}
		c.Accts = append(c.Accts, hex.EncodeToString(b))
	}
	for i := 0; i < nk; i++ {
		c.Keys = append(c.Keys, hex.EncodeToString(keyPool[i]))
	}
	c.H1 = genHist(r, na, nk)
	// execute H1 once to learn the content of its last snapshot, then write the rebuild history
	accts, keys := decodeTables(c)
	var r1 *runner
	hxlib.Catch(func() { r1 = execHist(accts, keys, c.H1, newClasses()) })
	if r1 != nil && len(r1.refs) > 0 {
		c.H2 = genRebuild(r, r1.refs[len(r1.refs)-1], na, nk, keys)
	} else {
		c.H2 = []op{{O: "snap"}}
	}
	return c
}

func mustHex(s string) []byte { b, _ := hex.DecodeString(s); return b }

func fixedCases() []hcase {
	ac := []string{"0101010101010101010101010101010101010101", "0202020202020202020202020202020202020202", "0303030303030303030303030303030303030303"}
	ks := []string{"01", "0102"}
	big1 := "1000"
	return []hcase{
		// touched only / balance back to zero / value set and deleted: all absent, nil hash
		{ac, ks, []op{{O: "snap"}, {O: "touch", A: 0}, {O: "snap"}, {O: "bal", A: 1, V: "5"}, {O: "bal", A: 1, V: "0", H: true}, {O: "snap"},
			{O: "set", A: 2, K: 0, V: "07"}, {O: "del", A: 2, K: 0, H: true}, {O: "live", A: 2, H: true}, {O: "snap"}, {O: "obs", I: 3}, {O: "ro", I: 3}},
			[]op{{O: "snap"}}},
		// present, then emptied (deleted from the trie), then reset to the old snapshot
		{ac, ks, []op{{O: "bal", A: 0, V: big1}, {O: "set", A: 0, K: 1, V: "0a0b"}, {O: "snap"}, {O: "bal", A: 0, V: "0", H: true}, {O: "del", A: 0, K: 1, H: true}, {O: "snap"},
			{O: "obs", I: 0}, {O: "reset", I: 0}, {O: "peek", A: 0}, {O: "live", A: 0}, {O: "snap"}, {O: "reset", I: 1}, {O: "live", A: 0}, {O: "snap"}, {O: "obs", I: 0}, {O: "obs", I: 2}},
			[]op{{O: "touch", A: 0}, {O: "snap"}}},
		// reset to a snapshot in which a cached, modified account does not exist
		{ac, ks, []op{{O: "snap"}, {O: "bal", A: 1, V: "5"}, {O: "set", A: 1, K: 0, V: "01"}, {O: "reset", I: 0}, {O: "live", A: 1, H: true}, {O: "snap"},
			{O: "bal", A: 1, V: "5", H: true}, {O: "snap"}, {O: "reset", I: 1}, {O: "peek", A: 1}, {O: "snap"}},
			[]op{{O: "bal", A: 1, V: "5"}, {O: "snap"}}},
		// ClearCache with unsnapshotted changes keeps them; flush + reload + load
		{ac, ks, []op{{O: "bal", A: 0, V: "1"}, {O: "set", A: 1, K: 0, V: "0909"}, {O: "clear"}, {O: "live", A: 0}, {O: "live", A: 1}, {O: "snap"}, {O: "flush", I: 0},
			{O: "reload", I: 0}, {O: "live", A: 1}, {O: "set", A: 1, K: 0, V: "", H: true}, {O: "snap"}, {O: "load", I: 0}, {O: "fromsnap", I: 2}, {O: "peek", A: 1}, {O: "snap"}, {O: "obs", I: 0}, {O: "obs", I: 1}},
			[]op{{O: "set", A: 1, K: 0, V: "0909"}, {O: "snap"}, {O: "bal", A: 0, V: "1"}, {O: "snap"}}},
		// an account first cached while absent, brought back by Reset, emptied again: it must leave the trie
		{ac, ks, []op{{O: "bal", A: 0, V: "5"}, {O: "snap"}, {O: "bal", A: 0, V: "0", H: true}, {O: "snap"}, {O: "clear"}, {O: "touch", A: 0}, {O: "reset", I: 0},
			{O: "bal", A: 0, V: "0", H: true}, {O: "snap"}, {O: "obs", I: 2}, {O: "reset", I: 0}, {O: "set", A: 0, K: 0, V: "01", H: true}, {O: "bal", A: 0, V: "0", H: true}, {O: "del", A: 0, K: 0, H: true}, {O: "snap"}},
			[]op{{O: "snap"}}},
		// deposits: snapshot, then in-place updates (pay, add to the same deposit, partial withdraw, removal of the first of two), reset
		{ac, ks, []op{{O: "init", A: 0, W: 0}, {O: "adddep", A: 0, D: &dctx{Price: 100, Height: 10, Term: 0, Rate: 8, Tid: "01"}, V: "50000", H: true}, {O: "snap"},
			{O: "pay", A: 0, D: &dctx{Price: 100, Height: 11, Rate: 8, Tid: "01"}, V: "120", H: true}, {O: "adddep", A: 0, D: &dctx{Price: 100, Height: 11, Rate: 8, Tid: "01"}, V: "7000", H: true}, {O: "snap"},
			{O: "obs", I: 0}, {O: "reset", I: 0}, {O: "live", A: 0, H: true}, {O: "snap"},
			{O: "adddep", A: 0, D: &dctx{Price: 100, Height: 12, Term: 100, Rate: 8, Tid: "a1"}, V: "50000", H: true}, {O: "snap"},
			{O: "withdraw", A: 0, D: &dctx{Price: 100, Height: 13, Rate: 8, Tid: "01"}, X: "", V: "500", H: true}, {O: "pay", A: 0, D: &dctx{Price: 100, Height: 13, Rate: 8, Tid: "01"}, V: "100", H: true}, {O: "snap"},
			{O: "withdraw", A: 0, D: &dctx{Price: 100, Height: 14, Rate: 8, Tid: "01"}, X: "", N: true, H: true}, {O: "snap"}, {O: "obs", I: 3}, {O: "obs", I: 4},
			{O: "reset", I: 3}, {O: "peek", A: 0}, {O: "flush", I: 4}, {O: "reload", I: 4}, {O: "pay", A: 0, D: &dctx{Price: 100, Height: 15, Rate: 8, Tid: "01"}, V: "100000"}, {O: "snap"}},
			[]op{{O: "snap"}}},
		// contract flag and state flags take part in emptiness
		{ac, ks, []op{{O: "block", A: 0, B: true}, {O: "snap"}, {O: "block", A: 0, B: false, H: true}, {O: "snap"}, {O: "init", A: 1, W: 1}, {O: "disable", A: 1, B: true, H: true}, {O: "snap"},
			{O: "disable", A: 2, B: true}, {O: "snap"}, {O: "reset", I: 1}, {O: "live", A: 1, H: true}, {O: "init", A: 1, W: 0, H: true}, {O: "snap"}, {O: "obs", I: 2}, {O: "ro", I: 2}},
			[]op{{O: "init", A: 1, W: 0}, {O: "snap"}}},
	}
}

var totDepOps, casesWithDep int

func emit(c *hxlib.Ctx, kind string, hc hcase, idx int) {
	var coq, msg string
	var st stats
	if p := hxlib.Catch(func() { coq, msg, st = runCase(hc) }); p != "" {
		msg = "panic: " + p
	}
	cs := hxlib.Case{Kind: kind, Input: hc, OracleErr: msg,
		Nontrivial: st.resetChanged && (st.clears+st.reloads) > 0 && st.emptiedPresent && st.snaps >= 3}
	if kind == "fixed" {
		cs.Nontrivial = true
	}
	totDepOps += st.depOps
	if st.depOps > 0 {
		casesWithDep++
	}
	if !c.OracleOnly {
		cs.Coq = coq
	} else {
		cs.Key = fmt.Sprint(kind, idx)
	}
	c.Emit(cs)
}

func gen(c *hxlib.Ctx) {
	for i, hc := range fixedCases() {
		emit(c, "fixed", hc, i)
	}
	for i := 0; i < c.N(400); i++ {
		emit(c, "hist", genCase(c.Sub("hist", i)), i)
	}
	c.Note("deposit operations executed on contract accounts: %d, in %d cases", totDepOps, casesWithDep)
	// canaries: a wrong balance; two snapshots with different contents reported with the same hash
	c.Emit(hxlib.Case{Kind: "canary", Canary: true,
		Coq: "(CHist [[1]] [[1]] [cBal 0 (5)%Z; cLive 0 (AO (6)%Z false None 0 [] [None])] [])"})
	c.Emit(hxlib.Case{Kind: "canary", Canary: true,
		Coq: "(CHist [[1]] [[1]] [cSnap 0 [None]; cBal 0 (5)%Z; cSnap 0 [Some (AO (5)%Z false None 0 [] [None])]] [])"})
	c.Emit(hxlib.Case{Kind: "canary", Canary: true,
		Coq: "(CHist [[1]] [[1]] [cBal 0 (5)%Z; cSnap 0 [Some (AO (5)%Z false None 0 [] [None])]; cBal 0 (0)%Z; cSnap 1 [Some (AO (0)%Z false None 0 [] [None])]] [])"})
}

func replay(raw json.RawMessage) string {
	var hc hcase
	if err := json.Unmarshal(raw, &hc); err != nil {
		return "bad replay input: " + err.Error()
	}
	var msg string
	if p := hxlib.Catch(func() { _, msg, _ = runCase(hc) }); p != "" {
		msg = "panic: " + p
	}
	return msg
}

func main() {
	log.GlobalLogger().SetLevel(log.FatalLevel) // InitContractAccount on a contract logs at debug level; lookups on a broken trie log errors
	hxlib.Main(hxlib.Spec{
		ID: "C14",
		Rule: "pairs of histories on state.NewWorldState over db.NewMapDB(), 3-5 accounts x 2-3 storage keys: SetBalance (0, small, 2^70, 2^128), SetValue/DeleteValue (incl. empty value = delete), " +
			"account drains, InitContractAccount/SetBlock/SetDisable, fee-sharing deposits on contract accounts (AddDeposit v1/v2, PaySteps, partial/complete WithdrawDeposit, expiry), touches, reads through GetAccountState and WorldState.GetAccountSnapshot, GetSnapshot, Reset to any earlier snapshot, ClearCache, " +
			"snapshot Flush, reload with NewWorldState(db, hash), WorldStateFromSnapshot, NewWorldSnapshot(db, hash), read-only world states; handles are reused or re-obtained at random. " +
			"After EVERY step every snapshot obtained so far is read completely (all accounts, all keys, hash) and compared with what it showed when taken. The second history rebuilds the content of the " +
			"first one's last snapshot from scratch in a shuffled order with traceless noise. Direct oracle: a Go reference of plain maps (snapshots = deep copies, Reset = assignment); " +
			"same logical content <=> same state hash within a case; an account is nil in a snapshot exactly when it is empty. " +
			"non-trivial = a Reset that changed the content, a ClearCache or reload, an account present in one snapshot and absent (emptied) in the next, at least 3 snapshots; distinct = distinct Coq case term",
		Shard: 140,
		Gen:   gen, Replay: replay,
	})
}
