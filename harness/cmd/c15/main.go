// c15: "Transaction fees and transfers conserve ICX" — blocks of real
// transactions executed by a real test node (basic platform) vs Model_TxExec,
// plus the direct oracle of the property (charge equation, step bounds,
// recipient credit, sum of balances, non-negativity, treasury credit).
package main

import (
	"encoding/json"
	"fmt"
	"os"

	"verif/harness/hxlib"
	"verif/harness/internal/txexec"
)

var env *txexec.Env

func getEnv() *txexec.Env {
	if env == nil {
		e, err := txexec.NewEnv()
		if err != nil {
			fmt.Fprintln(os.Stderr, "cannot create the test node:", err)
			os.Exit(2)
		}
		env = e
	}
	return env
}

func runOne(c *hxlib.Ctx, in *txexec.BlockIn, kindPrefix string) *txexec.BlockObs {
	var obs *txexec.BlockObs
	var err error
	if p := hxlib.Catch(func() { obs, err = getEnv().RunBlock(in) }); p != "" {
		c.Emit(hxlib.Case{Kind: "panic", Input: in, Nontrivial: true, Key: fmt.Sprint(in),
			OracleErr: "executing the block panicked: " + p})
		env = nil
		return nil
	}
	if err != nil {
		// a block that cannot be executed at all is reported: every generated block is executable
		c.Emit(hxlib.Case{Kind: "exec-error", Input: in, Nontrivial: true, Key: fmt.Sprint(in),
			OracleErr: "block execution failed: " + err.Error()})
		return nil
	}
	cs := hxlib.Case{Kind: kindPrefix + txexec.Kinds(in, obs), Input: in,
		Nontrivial: txexec.HasFee(obs), OracleErr: txexec.OracleC15(in, obs)}
	if !c.OracleOnly {
		cs.Coq = txexec.CoqCase(in, obs)
	} else {
		cs.Key = fmt.Sprint(*in)
	}
	c.Emit(cs)
	return obs
}

func gen(c *hxlib.Ctx) {
	r := c.Rand
	txexec.RealHangBudget = 0 // frames that really hang (each blocks for txexec.TxTimeout)
	var canaryIn *txexec.BlockIn
	var canaryObs *txexec.BlockObs
	// single transactions: exact boundaries of the balance pre-check and the step limit
	for i := 0; i < c.N(110); i++ {
		in := txexec.GenBlock(r, 1, 15)
		if obs := runOne(c, in, ""); obs != nil && canaryObs == nil && txexec.HasFee(obs) {
			canaryIn, canaryObs = in, obs
		}
	}
	// blocks of 2..8 mixed transactions
	for i := 0; i < c.N(90); i++ {
		runOne(c, txexec.GenBlock(r, 8, 20), "")
	}
	if canaryObs != nil && !c.OracleOnly {
		for how := 0; how < 3; how++ {
			c.Emit(hxlib.Case{Kind: "canary", Canary: true, Coq: txexec.CoqCase(canaryIn, txexec.Corrupt(canaryObs, how))})
		}
	}
	if env != nil {
		env.Close()
	}
}

func replay(raw json.RawMessage) string {
	var in txexec.BlockIn
	if err := json.Unmarshal(raw, &in); err != nil {
		return "bad replay input: " + err.Error()
	}
	var obs *txexec.BlockObs
	var err error
	if p := hxlib.Catch(func() { obs, err = getEnv().RunBlock(&in) }); p != "" {
		return "executing the block panicked: " + p
	}
	if err != nil {
		return "block execution failed: " + err.Error()
	}
	return txexec.OracleC15(&in, obs)
}

func main() {
	hxlib.Main(hxlib.Spec{
		ID: "C15",
		Rule: "blocks of 1..8 real v3 transactions (plain transfers, messages, calls to EOAs / to a contract-form address without contract, scripted contract calls) executed by service.Transition on a test node with the basic platform at revision 4 or 8; random step price (0..1e21), step costs, invoke limit, balances (0, around one minimum fee, up to 1e24), values at the balance-minus-maximum-fee boundary +-1, step limits at default+input steps +-1; receipts, every balance and storage value after every transaction and the balances after the treasury credit are compared with Model_TxExec; non-trivial = at least one transaction was charged a non-zero fee; distinct = distinct Coq case term",
		Gen:  gen, Replay: replay, Shard: 50,
	})
}
