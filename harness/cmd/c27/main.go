// c27: common/trie/mta Accumulator (binary-counter Merkle accumulator) vs Model_Mta.
//
// A case is an operation script (AddHash/AddData, Flush, Flush+Recover into a
// fresh Accumulator on the same bucket, WitnessFor every index, Verify) run on
// the real Accumulator over db.NewMapDB; the observations (witnesses, verify
// classes, recovered roots) are printed as a Coq `case`.  The SHA3 pairs the
// implementation computed are recorded (bucket writes, in-memory node dump,
// Verify rounds) and handed to the model as its hash table.
package main

import (
	"bytes"
	"encoding/hex"
	"encoding/json"
	"fmt"
	"math/rand"
	"strings"

	"golang.org/x/crypto/sha3"

	"github.com/icon-project/goloop/common/db"
	"github.com/icon-project/goloop/common/errors"
	"github.com/icon-project/goloop/common/trie/mta"
	"verif/harness/hxlib"
)

type wSpec struct {
	R bool   `json:"r"` // direction Right
	H string `json:"h"`
}

type opSpec struct {
	K   string  `json:"k"` // data | hash | flush | fr | qall | q | verify
	B   string  `json:"b,omitempty"`
	Idx int64   `json:"idx,omitempty"`
	Ws  []wSpec `json:"ws,omitempty"`
}

type scenario struct {
	Name string   `json:"name"`
	Ops  []opSpec `json:"ops"`
}

var stateKey = []byte("verif-c27-state")

type recBucket struct {
	db.Bucket
	onSet  func(k, v []byte)
	failIn int // > 0: the failIn-th Set from now fails once (storage fault stream)
	fired  int
}

func (b *recBucket) Set(k, v []byte) error {
	if b.failIn > 0 {
		b.failIn--
		if b.failIn == 0 {
			b.fired++
			return fmt.Errorf("injected storage fault")
		}
	}
	b.onSet(k, v)
	return b.Bucket.Set(k, v)
}

type runner struct {
	bk     *recBucket
	a      *mta.Accumulator
	leaves [][]byte
	strict bool // every item hash has 32 bytes: the property's precondition
	coq    bool
	raw    bool // some hash is not 32 bytes long: print real bytes (pool) instead of tokens
	prevW  []int
	isData map[string]bool

	pool     map[string]int
	poolList [][]byte
	tblSeen  map[string]bool
	dumped   map[string]bool
	tbl      []string
	ops      []string

	oracle   string
	lastLen  int64
	lastW    map[int64][]mta.Witness
	nontriv  bool
	queries  int
	maxLen   int
	recovers int
}

func newRunner(coq, raw bool) *runner {
	r := &runner{coq: coq, raw: raw, isData: map[string]bool{}, strict: true, pool: map[string]int{}, tblSeen: map[string]bool{},
		dumped: map[string]bool{}, lastW: map[int64][]mta.Witness{}, lastLen: -1}
	mdb := db.NewMapDB()
	bk, _ := mdb.GetBucket("")
	r.bk = &recBucket{Bucket: bk, onSet: func(k, v []byte) {
		if bytes.Equal(k, stateKey) {
			return
		}
		r.addTbl(v, k)
	}}
	r.a = &mta.Accumulator{KeyForState: stateKey, Bucket: r.bk}
	return r
}

func (r *runner) fail(format string, a ...interface{}) {
	if r.oracle == "" {
		r.oracle = fmt.Sprintf(format, a...)
	}
}

func (r *runner) ref(h []byte) int {
	k := string(h)
	if id, ok := r.pool[k]; ok {
		return id
	}
	id := len(r.poolList)
	r.pool[k] = id
	r.poolList = append(r.poolList, append([]byte(nil), h...))
	return id
}

// addTbl records SHA3(pre) = dig as computed by the implementation.
func (r *runner) addTbl(pre, dig []byte) {
	k := string(pre)
	if r.tblSeen[k] {
		return
	}
	r.tblSeen[k] = true
	want := sha3.Sum256(pre)
	if !bytes.Equal(want[:], dig) {
		r.fail("node hash %x is not SHA3-256 of its %d-byte serialisation", dig, len(pre))
	}
	if !r.coq {
		return
	}
	if len(pre) == 64 && !r.raw && !r.isData[k] {
		r.tbl = append(r.tbl, fmt.Sprintf("TB %d %d %d", r.ref(pre[:32]), r.ref(pre[32:]), r.ref(dig)))
	} else {
		r.tbl = append(r.tbl, fmt.Sprintf("TR %s %d", hxlib.CoqBytes(pre), r.ref(dig)))
	}
}

func (r *runner) dump() {
	mta.VerifDump(r.a, func(pre, dig []byte) bool {
		k := string(dig)
		if r.dumped[k] {
			return false
		}
		r.dumped[k] = true
		r.addTbl(pre, dig)
		return true
	})
}

// shadowVerify replays the buffer handling of Accumulator.Verify to learn which
// preimages it hashes (digests by x/crypto/sha3).
func (r *runner) shadowVerify(ws []mta.Witness, h []byte) {
	buf := make([]byte, 64)
	for _, w := range ws {
		if w.Direction == mta.Left {
			copy(buf, w.HashValue)
			copy(buf[32:], h)
		} else {
			copy(buf, h)
			copy(buf[32:], w.HashValue)
		}
		d := sha3.Sum256(buf)
		h = d[:]
		r.addTbl(append([]byte(nil), buf...), h)
	}
}

func (r *runner) verify(ws []mta.Witness, h []byte) int {
	r.shadowVerify(ws, h)
	cls := 0
	if p := hxlib.Catch(func() {
		if err := r.a.Verify(ws, h); err != nil {
			cls = 1
		}
	}); p != "" {
		cls = 9
	}
	return cls
}

func (r *runner) elems(ws []mta.Witness) []int {
	items := make([]int, len(ws))
	for i, w := range ws {
		v := 2 * r.ref(w.HashValue)
		if w.Direction == mta.Right {
			v++
		}
		items[i] = v
	}
	return items
}

func coqInts(v []int) string {
	items := make([]string, len(v))
	for i, x := range v {
		items[i] = fmt.Sprint(x)
	}
	return "[" + strings.Join(items, ";") + "]"
}

func (r *runner) coqW(ws []mta.Witness) string { return coqInts(r.elems(ws)) }

// qd prints a witness relative to the previous one of the same sweep:
// fresh ++ skipn s prev
func (r *runner) qd(ws []mta.Witness, v int) string {
	cur := r.elems(ws)
	c := 0
	for c < len(cur) && c < len(r.prevW) && cur[len(cur)-1-c] == r.prevW[len(r.prevW)-1-c] {
		c++
	}
	s := len(r.prevW) - c
	r.prevW = cur
	return fmt.Sprintf("QD %d %s %d", s, coqInts(cur[:len(cur)-c]), v)
}

func sameW(a, b []mta.Witness) bool {
	if len(a) != len(b) {
		return false
	}
	for i := range a {
		if a[i].Direction != b[i].Direction || !bytes.Equal(a[i].HashValue, b[i].HashValue) {
			return false
		}
	}
	return true
}

// query runs WitnessFor(idx) + Verify and applies the direct oracle.
func (r *runner) query(idx int64) string {
	var ws []mta.Witness
	var err error
	n := int64(len(r.leaves))
	if p := hxlib.Catch(func() { ws, err = r.a.WitnessFor(idx) }); p != "" {
		r.fail("WitnessFor(%d) at length %d panics: %s", idx, n, p)
		return "QE 9"
	}
	r.queries++
	if err != nil {
		if idx >= 0 && idx < n && r.strict {
			r.fail("WitnessFor(%d) at length %d fails: %v", idx, n, err)
		}
		if errors.NotFoundError.Equals(err) {
			return "QE 1"
		}
		return "QE 2"
	}
	if idx < 0 || idx >= n {
		if r.strict {
			r.fail("WitnessFor(%d) at length %d returns a witness", idx, n)
		}
		return r.qd(ws, 0)
	}
	v := r.verify(ws, r.leaves[idx])
	if r.strict {
		if v != 0 {
			r.fail("witness for index %d at length %d does not verify against the roots (class %d)", idx, n, v)
		}
		if r.lastLen == n {
			if old, ok := r.lastW[idx]; ok && !sameW(old, ws) {
				r.fail("witness for index %d at length %d changed after Flush/Recover", idx, n)
			}
		} else {
			r.lastLen = n
			r.lastW = map[int64][]mta.Witness{}
		}
		cp := make([]mta.Witness, len(ws))
		for i, w := range ws {
			cp[i] = mta.Witness{Direction: w.Direction, HashValue: append([]byte(nil), w.HashValue...)}
		}
		r.lastW[idx] = cp
	}
	if n&(n+1) != 0 {
		r.nontriv = true // some root slot is empty
	}
	return r.qd(ws, v)
}

func (r *runner) step(o opSpec) {
	n := int64(len(r.leaves))
	switch o.K {
	case "data", "hash":
		b, _ := hex.DecodeString(o.B)
		var ws []mta.Witness
		var lh []byte
		p := hxlib.Catch(func() {
			if o.K == "data" {
				r.isData[string(b)] = true
				ws = r.a.AddData(b)
				d := sha3.Sum256(b)
				lh = d[:]
			} else {
				ws = r.a.AddHash(b)
				lh = b
				if len(b) != 32 {
					r.strict = false
				}
			}
		})
		if p != "" {
			r.fail("Add at length %d panics: %s", n, p)
			return
		}
		r.leaves = append(r.leaves, lh)
		if len(r.leaves) > r.maxLen {
			r.maxLen = len(r.leaves)
		}
		if r.a.Len() != int64(len(r.leaves)) {
			r.fail("Len() = %d after %d additions", r.a.Len(), len(r.leaves))
		}
		r.dump()
		v := r.verify(ws, lh)
		if v != 0 && r.strict {
			r.fail("witness returned by Add at length %d does not verify (class %d)", n, v)
		}
		if r.coq {
			if o.K == "data" {
				r.ops = append(r.ops, fmt.Sprintf("SAddD %s %s %d", hxlib.CoqBytes(b), r.coqW(ws), v))
			} else {
				r.ops = append(r.ops, fmt.Sprintf("SAddH %d %s %d", r.ref(b), r.coqW(ws), v))
			}
		}
	case "flush":
		var err error
		if p := hxlib.Catch(func() { err = r.a.Flush() }); p != "" {
			r.fail("Flush at length %d panics: %s", n, p)
			return
		}
		if err != nil {
			r.fail("Flush at length %d fails: %v", n, err)
		}
		r.ops = append(r.ops, "SFlush")
	case "ff":
		// storage fault stream (direct oracle only; the model has no database errors): the Idx-th
		// bucket write of this Flush fails once, Flush reports it (or the fault is not reached),
		// a retried Flush must succeed, and then Recover + every WitnessFor must work ("fr", "qall")
		var err error
		r.bk.failIn = int(o.Idx)
		p := hxlib.Catch(func() { err = r.a.Flush() })
		hit := r.bk.failIn == 0 && o.Idx > 0
		r.bk.failIn = 0
		if p != "" {
			r.fail("Flush with a failing bucket write at length %d panics: %s", n, p)
			return
		}
		if hit && err == nil {
			r.fail("Flush at length %d returns nil although bucket write no. %d failed", n, o.Idx)
		}
		if p := hxlib.Catch(func() { err = r.a.Flush() }); p != "" || err != nil {
			r.fail("Flush retried after a failed bucket write at length %d fails: %v %s", n, err, p)
			return
		}
		if hit {
			r.nontriv = true
		}
		r.step(opSpec{K: "fr"})
	case "fr":
		var err error
		if p := hxlib.Catch(func() { err = r.a.Flush() }); p != "" {
			r.fail("Flush at length %d panics: %s", n, p)
			return
		}
		if err != nil {
			r.fail("Flush at length %d fails: %v", n, err)
		}
		a2 := &mta.Accumulator{KeyForState: stateKey, Bucket: r.bk}
		if p := hxlib.Catch(func() { err = a2.Recover() }); p != "" {
			r.fail("Recover at length %d panics: %s", n, p)
			return
		}
		if err != nil {
			r.fail("Recover at length %d fails: %v", n, err)
		}
		oldRoots, oldOcc := mta.VerifRoots(r.a)
		newRoots, newOcc := mta.VerifRoots(a2)
		if r.strict {
			if a2.Len() != n {
				r.fail("recovered length %d, want %d", a2.Len(), n)
			}
			same := len(oldRoots) == len(newRoots)
			for i := 0; same && i < len(oldRoots); i++ {
				same = oldOcc[i] == newOcc[i] && bytes.Equal(oldRoots[i], newRoots[i])
			}
			if !same {
				r.fail("recovered roots differ from the flushed ones at length %d", n)
			}
		}
		r.a = a2
		r.recovers++
		if r.coq {
			rs := make([]int, len(newRoots))
			for i := range newRoots {
				if newOcc[i] {
					rs[i] = r.ref(newRoots[i]) + 1
				}
			}
			r.ops = append(r.ops, fmt.Sprintf("SFlushRecover %s %d", coqInts(rs), a2.Len()))
		}
	case "qall":
		obs := make([]string, 0, n+1)
		r.prevW = nil
		for i := int64(0); i <= n; i++ {
			obs = append(obs, r.query(i))
		}
		r.dump() // nodes resolved from the bucket are in memory now
		r.ops = append(r.ops, "SQueryAll ["+strings.Join(obs, ";")+"]")
	case "q":
		if o.Idx < 0 {
			return
		}
		r.prevW = nil
		ob := r.query(o.Idx)
		r.ops = append(r.ops, fmt.Sprintf("SQuery %d (%s)", o.Idx, ob))
	case "verify":
		ws := make([]mta.Witness, len(o.Ws))
		for i, w := range o.Ws {
			h, _ := hex.DecodeString(w.H)
			ws[i] = mta.Witness{Direction: mta.Left, HashValue: h}
			if w.R {
				ws[i].Direction = mta.Right
			}
		}
		h, _ := hex.DecodeString(o.B)
		v := r.verify(ws, h)
		if v == 9 {
			r.fail("Verify panics at length %d", n)
		}
		r.ops = append(r.ops, fmt.Sprintf("SVerify %s %d %d", r.coqW(ws), r.ref(h), v))
	}
}

func (r *runner) coqCase() string {
	var sb strings.Builder
	sb.WriteString("Case [")
	if r.raw {
		for i, b := range r.poolList {
			if i > 0 {
				sb.WriteByte(';')
			}
			sb.WriteString(hxlib.CoqBytes(b))
		}
	}
	sb.WriteString("]\n [")
	sb.WriteString(strings.Join(r.tbl, ";"))
	sb.WriteString("]\n [")
	sb.WriteString(strings.Join(r.ops, ";\n  "))
	sb.WriteString("]")
	return sb.String()
}

// isRaw: some hash in the script is not 32 bytes long
func isRaw(sc scenario) bool {
	for _, o := range sc.Ops {
		if (o.K == "hash" || o.K == "verify") && len(o.B) != 64 {
			return true
		}
		for _, w := range o.Ws {
			if len(w.H) != 64 {
				return true
			}
		}
	}
	return false
}

func runScenario(sc scenario, coq bool) *runner {
	r := newRunner(coq, isRaw(sc))
	for _, o := range sc.Ops {
		o := o
		if p := hxlib.Catch(func() { r.step(o) }); p != "" {
			r.fail("%s at length %d panics: %s", o.K, len(r.leaves), p)
		}
		if r.oracle != "" && strings.Contains(r.oracle, "panics") {
			break // the accumulator object is in an unknown state
		}
	}
	return r
}

// ---------------- generators ----------------

func randItem(rg *rand.Rand) opSpec {
	if rg.Intn(2) == 0 {
		h := make([]byte, 32)
		rg.Read(h)
		return opSpec{K: "hash", B: hex.EncodeToString(h)}
	}
	d := make([]byte, 1+rg.Intn(40))
	if rg.Intn(8) == 0 {
		d = make([]byte, 64) // a data item as long as a branch serialisation
	}
	rg.Read(d)
	return opSpec{K: "data", B: hex.EncodeToString(d)}
}

// in-memory sweep: lengths lo..hi-1 (after reaching lo without queries), every index at every length
func genMem(rg *rand.Rand, lo, hi int) scenario {
	sc := scenario{Name: fmt.Sprintf("mem-%d-%d", lo, hi)}
	if lo == 0 {
		sc.Ops = append(sc.Ops, opSpec{K: "qall"})
	}
	for n := 1; n < hi; n++ {
		sc.Ops = append(sc.Ops, randItem(rg))
		if n >= lo {
			sc.Ops = append(sc.Ops, opSpec{K: "qall"})
		}
	}
	return sc
}

// persistence sweep: at every length in lo..hi-1: query all, Flush or Flush+Recover, query all again
func genPersist(rg *rand.Rand, lo, hi int) scenario {
	sc := scenario{Name: fmt.Sprintf("persist-%d-%d", lo, hi)}
	if lo == 0 {
		sc.Ops = append(sc.Ops, opSpec{K: "fr"}, opSpec{K: "qall"})
	}
	for n := 1; n < hi; n++ {
		sc.Ops = append(sc.Ops, randItem(rg))
		if n < lo {
			switch rg.Intn(12) {
			case 0:
				sc.Ops = append(sc.Ops, opSpec{K: "flush"})
			case 1:
				sc.Ops = append(sc.Ops, opSpec{K: "fr"})
			}
			continue
		}
		sc.Ops = append(sc.Ops, opSpec{K: "qall"})
		if rg.Intn(3) == 0 {
			sc.Ops = append(sc.Ops, opSpec{K: "flush"}, opSpec{K: "qall"})
		}
		sc.Ops = append(sc.Ops, opSpec{K: "fr"}, opSpec{K: "qall"})
	}
	return sc
}

// random script with single queries, and Verify on altered witnesses
func genRandom(rg *rand.Rand, maxLen int, malformed bool) scenario {
	sc := scenario{Name: "random"}
	if malformed {
		sc.Name = "malformed"
	}
	// a shadow run to obtain genuine witnesses to alter
	r := newRunner(false, false)
	n := 0
	steps := 5 + rg.Intn(3*maxLen)
	for s := 0; s < steps; s++ {
		var o opSpec
		switch x := rg.Intn(20); {
		case x < 9 && n < maxLen:
			o = randItem(rg)
			if malformed && rg.Intn(3) == 0 {
				ls := []int{0, 1, 20, 31, 33, 40, 64, 65}
				h := make([]byte, ls[rg.Intn(len(ls))])
				rg.Read(h)
				o = opSpec{K: "hash", B: hex.EncodeToString(h)}
			}
			n++
		case x < 10:
			o = opSpec{K: "flush"}
		case x < 12:
			o = opSpec{K: "fr"}
		case x < 13:
			o = opSpec{K: "qall"}
		case x < 17:
			o = opSpec{K: "q", Idx: int64(rg.Intn(n + 2))}
		default:
			if n == 0 {
				continue
			}
			idx := int64(rg.Intn(n))
			var ws []mta.Witness
			if hxlib.Catch(func() { ws, _ = r.a.WitnessFor(idx) }) != "" {
				continue
			}
			h := append([]byte(nil), r.leaves[idx]...)
			sp := make([]wSpec, len(ws))
			for i, w := range ws {
				sp[i] = wSpec{R: w.Direction == mta.Right, H: hex.EncodeToString(w.HashValue)}
			}
			switch rg.Intn(7) {
			case 0: // genuine
			case 1:
				if len(sp) > 0 {
					i := rg.Intn(len(sp))
					sp[i].R = !sp[i].R
				}
			case 2:
				if len(sp) > 0 {
					i := rg.Intn(len(sp))
					b, _ := hex.DecodeString(sp[i].H)
					if len(b) > 0 {
						b[rg.Intn(len(b))] ^= byte(1 << uint(rg.Intn(8)))
					}
					sp[i].H = hex.EncodeToString(b)
				}
			case 3:
				if len(h) > 0 {
					h[rg.Intn(len(h))] ^= byte(1 << uint(rg.Intn(8)))
				}
			case 4:
				if len(sp) > 0 {
					sp = sp[:len(sp)-1]
				}
			case 5:
				x := make([]byte, 32)
				rg.Read(x)
				sp = append(sp, wSpec{R: rg.Intn(2) == 0, H: hex.EncodeToString(x)})
			case 6: // the leaf of another index
				h = append([]byte(nil), r.leaves[rg.Intn(n)]...)
			}
			o = opSpec{K: "verify", B: hex.EncodeToString(h), Ws: sp}
		}
		if hxlib.Catch(func() { r.step(o) }) != "" {
			r.fail("panic")
		}
		sc.Ops = append(sc.Ops, o)
		if r.oracle != "" {
			break
		}
	}
	sc.Ops = append(sc.Ops, opSpec{K: "qall"})
	return sc
}

func fixedItems(n int) []opSpec {
	ops := make([]opSpec, n)
	for i := range ops {
		ops[i] = opSpec{K: "data", B: hex.EncodeToString([]byte(fmt.Sprintf("item-%d", i)))}
	}
	return ops
}

// the two failures repaired by /repo commit 2615bc1 (also in /verif/corpus/C27)
func corpus() []scenario {
	a := scenario{Name: "corpus-flush-len2", Ops: append(fixedItems(2), opSpec{K: "flush"}, opSpec{K: "qall"}, opSpec{K: "fr"}, opSpec{K: "qall"})}
	b := scenario{Name: "corpus-witness-len5-idx4", Ops: append(fixedItems(5), opSpec{K: "q", Idx: 4}, opSpec{K: "qall"})}
	return []scenario{a, b}
}

func emit(c *hxlib.Ctx, kind string, sc scenario) {
	r := runScenario(sc, !c.OracleOnly)
	cs := hxlib.Case{Kind: kind, Input: sc, Nontrivial: r.nontriv, OracleErr: r.oracle,
		Key: fmt.Sprintf("%s|%d|%d", sc.Name, len(sc.Ops), c.Rand.Int63())}
	if !c.OracleOnly && kind != "fault" { // fault scripts: direct oracle only (no database errors in the model)
		// coqc overflows its stack on very large single terms: such scripts stay oracle-only
		if t := r.coqCase(); len(t) <= 600<<10 && len(r.tbl) <= 12000 {
			cs.Coq = "(" + t + ")%uint63"
		} else {
			c.Note("%s (%d KB as a Coq term): direct oracle only", sc.Name, len(t)/1024)
		}
	}
	c.Emit(cs)
}

// storage faults during Flush: a bucket write fails once, Flush is retried, then Recover and every
// WitnessFor must work; appends continue and the same happens again
func genFault(rg *rand.Rand, maxLen int) scenario {
	sc := scenario{Name: "fault"}
	n, unflushed := 0, 0
	rounds := 2 + rg.Intn(3)
	for round := 0; round < rounds; round++ {
		grow := 1 + rg.Intn(maxLen/rounds+1)
		for i := 0; i < grow; i++ {
			sc.Ops = append(sc.Ops, randItem(rg))
			n++
			unflushed += 2
			if rg.Intn(25) == 0 {
				sc.Ops = append(sc.Ops, opSpec{K: "flush"})
				unflushed = 0
			}
		}
		// which write fails: anywhere among the pending node writes, or the state record after them
		k := 1 + rg.Intn(unflushed+1)
		sc.Ops = append(sc.Ops, opSpec{K: "ff", Idx: int64(k)}, opSpec{K: "qall"})
		unflushed = 0
	}
	return sc
}

func gen(c *hxlib.Ctx) {
	rg := c.Rand
	for _, sc := range corpus() {
		emit(c, "corpus", sc)
	}
	top := 301
	if c.Tier == "thorough" {
		top = 1100
	}
	// every length, every index, in memory
	for lo := 0; lo < top; {
		w := 16
		if lo >= 128 {
			w = 8
		}
		if lo >= 512 {
			w = 4
		}
		hi := lo + w
		if hi > top {
			hi = top
		}
		emit(c, "mem-sweep", genMem(rg, lo, hi))
		lo = hi
	}
	// every length, every index, across Flush / Flush+Recover, appends continue afterwards
	for lo := 0; lo < top; {
		w := 8
		if lo >= 128 {
			w = 4
		}
		if lo >= 512 {
			w = 2
		}
		hi := lo + w
		if hi > top {
			hi = top
		}
		emit(c, "persist-sweep", genPersist(rg, lo, hi))
		lo = hi
	}
	for i := 0; i < c.N(40); i++ {
		emit(c, "random", genRandom(rg, 8+rg.Intn(70), false))
	}
	for i := 0; i < c.N(20); i++ {
		emit(c, "malformed", genRandom(rg, 4+rg.Intn(24), true))
	}
	for i := 0; i < c.N(80); i++ {
		emit(c, "fault", genFault(rg, 2+rg.Intn(40+3*i)))
	}
	// canary: a genuine 5-item run whose observed verify class is falsified
	if !c.OracleOnly {
		r := runScenario(scenario{Ops: append(fixedItems(5), opSpec{K: "qall"})}, true)
		last, i := "", -1
		if len(r.ops) > 0 {
			last = r.ops[len(r.ops)-1]
			i = strings.LastIndex(last, " 0;QE 1]")
		}
		if i >= 0 {
			r.ops[len(r.ops)-1] = last[:i] + " 1;QE 1]"
		} else { // the implementation under test behaves differently: any impossible observation will do
			r.ops = append(r.ops, "SQuery 0 (QE 7)")
		}
		c.Emit(hxlib.Case{Kind: "canary", Coq: "(" + r.coqCase() + ")%uint63", Canary: true})
		r2 := runScenario(scenario{Ops: append(fixedItems(3), opSpec{K: "q", Idx: 1})}, true)
		// direction bit of the first witness element flipped
		l2, j := "", -1
		if len(r2.ops) > 0 {
			l2 = r2.ops[len(r2.ops)-1]
			j = strings.Index(l2, "(QD 0 [")
		}
		var first int
		if j >= 0 {
			if n, _ := fmt.Sscanf(l2[j+7:], "%d", &first); n != 1 {
				j = -1
			}
		}
		if j >= 0 {
			r2.ops[len(r2.ops)-1] = l2[:j+7] + fmt.Sprint(first^1) + l2[j+7+len(fmt.Sprint(first)):]
		} else {
			r2.ops = append(r2.ops, "SVerify [] 0 5")
		}
		c.Emit(hxlib.Case{Kind: "canary", Coq: "(" + r2.coqCase() + ")%uint63", Canary: true})
	}
}

func replay(input json.RawMessage) string {
	var sc scenario
	if err := json.Unmarshal(input, &sc); err != nil {
		return "bad replay input: " + err.Error()
	}
	return runScenario(sc, false).oracle
}

func main() {
	hxlib.Main(hxlib.Spec{
		ID: "C27",
		Rule: "a case is an operation script on one mta.Accumulator over a map database: AddHash/AddData, Flush, Flush+Recover into a fresh object, WitnessFor+Verify for every index (and one past the end), Verify of altered witnesses. " +
			"mem-sweep and persist-sweep together visit every length 0..300 (thorough: 0..1099) and every index, before and after Flush and Flush+Recover, with appends continuing on the recovered object; random scripts add single queries and altered witnesses; malformed scripts add hashes whose length is not 32 (model/implementation comparison only); fault scripts (direct oracle only) make one bucket write of a Flush fail once, retry the Flush, recover and query every index, then keep appending and do it again. " +
			"Non-trivial: the script queries a witness at a length that is not 2^k-1 (some root slot is empty).",
		Shard:    10,
		Preamble: "From Coq Require Import Uint63.\nFrom GoloopRun Require Import Run_C27.",
		Gen:      gen,
		Replay:   replay,
	})
}
