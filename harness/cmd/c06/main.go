// c06: double-sign evidence — consensus.matchNID, dsVote/dsProposal.IsConflictWith,
// DecodeDoubleSignData, dsmLog, contract.DoubleSignReport / DSRHandler,
// transaction.doubleSignReportTx.PreValidate and service.dsrManager.Add
// versus Model_DoubleSign.
package main

import (
	"bytes"
	"crypto/sha256"
	"encoding/hex"
	"encoding/json"
	"fmt"
	"math/big"
	"math/rand"
	"os"
	"path/filepath"
	"sort"
	"strings"

	"github.com/icon-project/goloop/common"
	"github.com/icon-project/goloop/common/codec"
	"github.com/icon-project/goloop/common/crypto"
	"github.com/icon-project/goloop/common/db"
	"github.com/icon-project/goloop/common/errors"
	"github.com/icon-project/goloop/common/log"
	"github.com/icon-project/goloop/common/wallet"
	"github.com/icon-project/goloop/consensus"
	"github.com/icon-project/goloop/module"
	"github.com/icon-project/goloop/service"
	"github.com/icon-project/goloop/service/contract"
	"github.com/icon-project/goloop/service/scoreresult"
	"github.com/icon-project/goloop/service/state"
	"github.com/icon-project/goloop/service/transaction"
	"verif/harness/hxlib"
)

// ---------------------------------------------------------------------------
// message specifications (what the harness chooses)

type MsgSpec struct {
	Kind    string `json:"kind"`   // "vote" | "proposal"
	Signer  int    `json:"signer"` // index of a harness-held wallet
	Height  int64  `json:"height"`
	Round   int32  `json:"round"`
	VType   byte   `json:"vtype"` // votes: 0 prevote, 1 precommit
	NID     uint32 `json:"nid"`
	// votes only: 0 = part set id present, network id in its app data;
	// 1 = nil vote, BlockID = codec(nid); 2 = nil vote, BlockID nil (network unspecified)
	NilMode int    `json:"nil_mode"`
	BlockID string `json:"block_id"` // hex (NilMode 0)
	PSCount uint16 `json:"ps_count"`
	PSHash  string `json:"ps_hash"` // hex
	TS      int64  `json:"ts"`      // votes
	POL     int32  `json:"pol"`     // proposals
	// votes, NilMode 0: NTSCount is SIGNED (low 16 bits of the part set id's app data);
	// the NTS entries themselves (vote bases and proof parts) are NOT covered by the signature
	NTSCount uint16   `json:"nts_count"`
	NTS      []NTSEnt `json:"nts,omitempty"`
}

type NTSEnt struct {
	ID    int64  `json:"id"`
	Hash  string `json:"hash"`
	Proof string `json:"proof"`
}

// the bytes a validator key signs, recomputed from the chosen fields only
// (consensus.blockVoteByteser / proposal.bytes are not consulted)
func (s MsgSpec) preImage() []byte {
	type psid struct {
		CountWord uint64
		Hash      []byte
	}
	if s.Kind == "vote" {
		v := struct {
			Height    int64
			Round     int32
			Type      byte
			BlockID   []byte
			PSID      *psid
			Timestamp int64
		}{Height: s.Height, Round: s.Round, Type: s.VType, Timestamp: s.TS}
		switch s.NilMode {
		case 0:
			v.BlockID = unhex(s.BlockID)
			v.PSID = &psid{(uint64(s.NID)<<16|uint64(s.NTSCount))<<16 | uint64(s.PSCount), unhex(s.PSHash)}
		case 1:
			v.BlockID = codec.BC.MustMarshalToBytes(int64(s.NID))
		}
		return codec.BC.MustMarshalToBytes(&v)
	}
	ps := &psid{uint64(s.PSCount), unhex(s.PSHash)}
	type psidP struct {
		Count uint16
		Hash  []byte
	}
	pp := &psidP{s.PSCount, ps.Hash}
	if s.NID == 0 {
		return codec.BC.MustMarshalToBytes(&struct {
			Height   int64
			Round    int32
			PSID     *psidP
			POLRound int32
		}{s.Height, s.Round, pp, s.POL})
	}
	return codec.BC.MustMarshalToBytes(&struct {
		Height   int64
		Round    int32
		PSID     *psidP
		POLRound int32
		NID      uint32
	}{s.Height, s.Round, pp, s.POL, s.NID})
}

func (s MsgSpec) effNID() uint32 {
	if s.Kind == "vote" && s.NilMode == 2 {
		return 0
	}
	return s.NID
}

// signed content, as chosen (independent of the implementation's encoding)
func (s MsgSpec) content() string {
	if s.Kind == "vote" {
		switch s.NilMode {
		case 0:
			return fmt.Sprintf("v|%d|%d|%d|bid=%s|ps=%d/%s|nid=%d|ntscount=%d|ts=%d", s.Height, s.Round, s.VType, s.BlockID, s.PSCount, s.PSHash, s.NID, s.NTSCount, s.TS)
		case 1:
			return fmt.Sprintf("v|%d|%d|%d|nilvote|nid=%d|ts=%d", s.Height, s.Round, s.VType, s.NID, s.TS)
		default:
			return fmt.Sprintf("v|%d|%d|%d|nilvote-legacy|ts=%d", s.Height, s.Round, s.VType, s.TS)
		}
	}
	return fmt.Sprintf("p|%d|%d|ps=%d/%s|pol=%d|nid=%d", s.Height, s.Round, s.PSCount, s.PSHash, s.POL, s.NID)
}

func (s MsgSpec) slot() string {
	vt := byte(0)
	if s.Kind == "vote" {
		vt = s.VType
	}
	return fmt.Sprintf("%s|%d|%d|%d|%d", s.Kind, s.Signer, s.Height, s.Round, vt)
}

func nidCompatible(a, b uint32) bool { return a == 0 || b == 0 || a == b }

// the property statement, evaluated on the chosen fields
func whyNotGenuine(a, b MsgSpec) []string {
	var r []string
	if a.Kind != b.Kind {
		r = append(r, fmt.Sprintf("different message kinds (%s vs %s)", a.Kind, b.Kind))
	}
	if a.Signer != b.Signer {
		r = append(r, "different signers")
	}
	if a.Height != b.Height {
		r = append(r, fmt.Sprintf("different heights (%d vs %d)", a.Height, b.Height))
	}
	if a.Round != b.Round {
		r = append(r, fmt.Sprintf("different rounds (%d vs %d)", a.Round, b.Round))
	}
	if a.Kind == "vote" && b.Kind == "vote" && a.VType != b.VType {
		r = append(r, fmt.Sprintf("different vote types (%d vs %d)", a.VType, b.VType))
	}
	if !nidCompatible(a.effNID(), b.effNID()) {
		r = append(r, fmt.Sprintf("different networks (nid %d vs %d)", a.effNID(), b.effNID()))
	}
	if a.Kind == b.Kind && a.content() == b.content() {
		r = append(r, "identical signed contents")
	}
	return r
}

func expConflict(a, b MsgSpec) bool { return len(whyNotGenuine(a, b)) == 0 }

// ---------------------------------------------------------------------------
// building real signed messages

var wallets = map[int]module.Wallet{}

func walletOf(i int) module.Wallet {
	if w, ok := wallets[i]; ok {
		return w
	}
	for salt := 0; ; salt++ {
		h := sha256.Sum256([]byte(fmt.Sprintf("verif-c06-wallet-%d-%d", i, salt)))
		sk, err := crypto.ParsePrivateKey(h[:])
		if err != nil {
			continue
		}
		w, err := wallet.NewFromPrivateKey(sk)
		if err != nil {
			continue
		}
		wallets[i] = w
		return w
	}
}

func unhex(s string) []byte {
	if s == "" {
		return nil
	}
	b, _ := hex.DecodeString(s)
	return b
}

func build(s MsgSpec) (module.DoubleSignData, error) {
	w := walletOf(s.Signer)
	switch s.Kind {
	case "vote":
		vs := consensus.VerifVoteSpec{Height: s.Height, Round: s.Round, Type: s.VType, Timestamp: s.TS}
		switch s.NilMode {
		case 0:
			vs.BlockID = unhex(s.BlockID)
			vs.HasPSID = true
			vs.PSCount = s.PSCount
			vs.PSHash = unhex(s.PSHash)
			vs.NID = s.NID
			vs.NTSCount = s.NTSCount
			for _, e := range s.NTS {
				vs.NTSIDs = append(vs.NTSIDs, e.ID)
				vs.NTSHashes = append(vs.NTSHashes, unhex(e.Hash))
				vs.NTSProofs = append(vs.NTSProofs, unhex(e.Proof))
			}
		case 1:
			vs.BlockID = codec.MustMarshalToBytes(int(s.NID))
		default:
		}
		vm, err := consensus.VerifNewVote(w, vs)
		if err != nil {
			return nil, err
		}
		return consensus.VerifDSDVote(vm)
	case "proposal":
		pm, err := consensus.VerifNewProposal(w, consensus.VerifProposalSpec{
			Height: s.Height, Round: s.Round, HasPSID: true, PSCount: s.PSCount, PSHash: unhex(s.PSHash),
			POLRound: s.POL, NID: s.NID})
		if err != nil {
			return nil, err
		}
		return consensus.VerifDSDProposal(pm)
	}
	return nil, fmt.Errorf("unknown kind %q", s.Kind)
}

func coqB(b []byte) string { return hxlib.CoqBytes(b) }

func coqKind(k string) string {
	if k == module.DSTVote {
		return "KVote"
	}
	return "KProposal"
}

func coqMsg(v consensus.VerifView) string {
	var ext []byte
	if len(v.Unsigned) > 0 {
		h := sha256.Sum256(v.Unsigned)
		ext = h[:8]
	}
	return fmt.Sprintf("(mkMsg %s %s %s %s %d %d %s %s %s)", coqB(v.Signer), hxlib.CoqZ(v.Height), hxlib.CoqZ(v.Round),
		coqKind(v.Kind), v.VType, v.NID, coqB(v.Hash), hxlib.CoqZ(v.Cost), coqB(ext))
}

// the view must show the chosen fields (ties the Coq record to the specification)
func viewMatches(s MsgSpec, v consensus.VerifView) string {
	w := walletOf(s.Signer)
	switch {
	case v.Kind != s.Kind:
		return fmt.Sprintf("type tag %q for a %s message", v.Kind, s.Kind)
	case !bytes.Equal(v.Signer, w.Address().ID()):
		return fmt.Sprintf("Signer() %x is not the signing wallet %x", v.Signer, w.Address().ID())
	case v.Height != s.Height || v.Round != s.Round:
		return "height/round differ from the signed ones"
	case s.Kind == "vote" && v.VType != s.VType:
		return "vote type differs from the signed one"
	case v.NID != s.effNID():
		return fmt.Sprintf("network id read back as %d, message was built for %d", v.NID, s.effNID())
	case !bytes.Equal(v.PreImage, s.preImage()):
		return fmt.Sprintf("the signed bytes %x are not the encoding of the fields the signature is meant to cover %x", v.PreImage, s.preImage())
	case !bytes.Equal(v.Hash, crypto.SHA3Sum256(s.preImage())):
		return "hash() is not the SHA3-256 of the signed bytes"
	case (len(s.NTS) == 0) != (len(v.Unsigned) == 0):
		return "unsigned attachments lost or invented"
	}
	return ""
}

// ---------------------------------------------------------------------------
// pair cases

type PairIn struct {
	A       MsgSpec `json:"a"`
	B       MsgSpec `json:"b"`
	Decoded bool    `json:"decoded"` // both data go through Bytes() -> DecodeDoubleSignData first
}

func conflictSafe(a, b module.DoubleSignData) (res bool, panicked string) {
	panicked = hxlib.Catch(func() { res = a.IsConflictWith(b) })
	return
}

func redecode(d module.DoubleSignData) (module.DoubleSignData, error) {
	return consensus.DecodeDoubleSignData(d.Type(), d.Bytes())
}

func oraclePair(in PairIn) (coq string, msg string) {
	da, err := build(in.A)
	if err != nil {
		return "", "cannot build a: " + err.Error()
	}
	dbb, err := build(in.B)
	if err != nil {
		return "", "cannot build b: " + err.Error()
	}
	if in.Decoded {
		va0, _ := consensus.VerifViewOf(da)
		vb0, _ := consensus.VerifViewOf(dbb)
		da2, err := redecode(da)
		if err != nil {
			return "", "DecodeDoubleSignData rejects Bytes() of a well-formed datum a: " + err.Error()
		}
		db2, err := redecode(dbb)
		if err != nil {
			return "", "DecodeDoubleSignData rejects Bytes() of a well-formed datum b: " + err.Error()
		}
		va1, _ := consensus.VerifViewOf(da2)
		vb1, _ := consensus.VerifViewOf(db2)
		if fmt.Sprint(va0) != fmt.Sprint(va1) || fmt.Sprint(vb0) != fmt.Sprint(vb1) {
			msg = "decode round trip changes the fields of a double-sign datum"
		}
		if !bytes.Equal(da.Bytes(), da2.Bytes()) {
			msg = "decode round trip changes Bytes()"
		}
		da, dbb = da2, db2
	}
	va, _ := consensus.VerifViewOf(da)
	vb, _ := consensus.VerifViewOf(dbb)
	if m := viewMatches(in.A, va); m != "" && msg == "" {
		msg = "a: " + m
	}
	if m := viewMatches(in.B, vb); m != "" && msg == "" {
		msg = "b: " + m
	}
	ab, p1 := conflictSafe(da, dbb)
	ba, p2 := conflictSafe(dbb, da)
	if p1 != "" || p2 != "" {
		return "", "IsConflictWith panics: " + p1 + p2
	}
	why := whyNotGenuine(in.A, in.B)
	exp := len(why) == 0
	sameSigned := bytes.Equal(va.PreImage, vb.PreImage) && bytes.Equal(va.Signer, vb.Signer) && va.Kind == vb.Kind
	if msg == "" {
		switch {
		case (ab || ba) && sameSigned:
			msg = fmt.Sprintf("IsConflictWith reports a conflict between two messages of one signer whose signed bytes are identical (%x); they differ only in parts the signature does not cover", va.PreImage)
		case sameSigned != (in.A.Kind == in.B.Kind && in.A.Signer == in.B.Signer && in.A.content() == in.B.content()):
			msg = "harness: signed bytes and chosen signed fields disagree on equality"
		case ab && !exp:
			msg = "IsConflictWith reports a conflict for a pair that is not a genuine double sign: " + strings.Join(why, "; ")
		case ba && !exp:
			msg = "IsConflictWith (arguments swapped) reports a conflict for a pair that is not a genuine double sign: " + strings.Join(why, "; ")
		case exp && (!ab || !ba):
			msg = fmt.Sprintf("a genuine double sign (same signer, height, round, type, compatible network, different signed contents) is not reported: a.IsConflictWith(b)=%v b.IsConflictWith(a)=%v", ab, ba)
		}
	}
	coq = fmt.Sprintf("(CPair %s %s %s %s)", coqMsg(va), coqMsg(vb), hxlib.CoqBool(ab), hxlib.CoqBool(ba))
	return coq, msg
}

// ---------------------------------------------------------------------------
// log cases

type LogIn struct {
	Cap  int       `json:"cap"`
	Msgs []MsgSpec `json:"msgs"`
	Rnd  []uint64  `json:"rnd"` // what the store's random source returns, in order (0 afterwards)
}

type feedSrc struct {
	vals []uint64
	pos  int
}

func (s *feedSrc) Uint64() uint64 {
	var v uint64
	if s.pos < len(s.vals) {
		v = s.vals[s.pos]
	}
	s.pos++
	return v
}
func (s *feedSrc) Int63() int64 { return int64(s.Uint64() >> 1) }
func (s *feedSrc) Seed(int64)   {}
func (s *feedSrc) at(i int) uint64 {
	if i < len(s.vals) {
		return s.vals[i]
	}
	return 0
}

func oracleLog(in LogIn) (coq string, msg string) {
	src := &feedSrc{vals: in.Rnd}
	lg := consensus.VerifNewDSMLog(in.Cap, src)
	type ent struct {
		d module.DoubleSignData
		v consensus.VerifView
	}
	var ents []ent
	for _, s := range in.Msgs {
		d, err := build(s)
		if err != nil {
			return "", "cannot build: " + err.Error()
		}
		v, _ := consensus.VerifViewOf(d)
		ents = append(ents, ent{d, v})
	}
	idOf := func(v consensus.VerifView) string { return hex.EncodeToString(v.Hash) + "/" + hex.EncodeToString(v.Signer) }
	firstIdx := map[string]int{}
	reported := map[string]bool{}
	total := 0
	compat := true
	for i := range in.Msgs {
		total += ents[i].v.Cost
		for j := 0; j < i; j++ {
			if !nidCompatible(in.Msgs[i].effNID(), in.Msgs[j].effNID()) {
				compat = false
			}
		}
	}
	retained := total <= in.Cap // nothing can be evicted
	var steps, outs []string
	for i, e := range ents {
		before := src.pos
		var res []module.DoubleSignData
		p := hxlib.Catch(func() {
			if vm := consensus.VerifVoteOf(e.d); vm != nil {
				res = lg.LogVote(vm)
			} else {
				res = lg.LogProposal(consensus.VerifProposalOf(e.d))
			}
		})
		if p != "" {
			return "", fmt.Sprintf("LogAndCheck panics at step %d: %s", i, p)
		}
		var used []string
		for k := before; k < src.pos; k++ {
			used = append(used, fmt.Sprint(src.at(k)))
		}
		steps = append(steps, fmt.Sprintf("(%s, %s)", coqMsg(e.v), hxlib.CoqList(used)))
		switch len(res) {
		case 0:
			outs = append(outs, "None")
		case 2:
			vx, okx := consensus.VerifViewOf(res[0])
			vy, oky := consensus.VerifViewOf(res[1])
			if !okx || !oky {
				return "", "LogAndCheck returned data of an unknown type"
			}
			outs = append(outs, fmt.Sprintf("(Some (%s, %s))", coqMsg(vx), coqMsg(vy)))
			if msg == "" {
				j, seen := firstIdx[idOf(vx)]
				switch {
				case idOf(vy) != idOf(e.v):
					msg = fmt.Sprintf("step %d: the second reported datum is not the message just logged", i)
				case !seen:
					msg = fmt.Sprintf("step %d: the first reported datum was never logged before", i)
				case !expConflict(in.Msgs[j], in.Msgs[i]):
					msg = fmt.Sprintf("step %d: the log reports a pair that is not a genuine double sign: %s", i, strings.Join(whyNotGenuine(in.Msgs[j], in.Msgs[i]), "; "))
				case !res[0].IsConflictWith(res[1]):
					msg = fmt.Sprintf("step %d: the log reports a pair its own IsConflictWith denies", i)
				}
			}
			reported[in.Msgs[i].slot()] = true
		default:
			return "", fmt.Sprintf("LogAndCheck returned %d data", len(res))
		}
		if msg == "" && retained && compat && !reported[in.Msgs[i].slot()] {
			for j := 0; j < i; j++ {
				if expConflict(in.Msgs[j], in.Msgs[i]) {
					msg = fmt.Sprintf("step %d: message conflicts with message %d still inside the log's capacity, but no double sign was reported for that signer/height/round/type", i, j)
					break
				}
			}
		}
		if _, ok := firstIdx[idOf(e.v)]; !ok {
			firstIdx[idOf(e.v)] = i
		}
	}
	var final []string
	for _, e := range ents {
		h := lg.StoredHash(e.d)
		final = append(final, hxlib.CoqOpt(h != nil, coqB(h)))
	}
	coq = fmt.Sprintf("(CLog %s %s %s %s)", hxlib.CoqZ(in.Cap), hxlib.CoqList(steps), hxlib.CoqList(outs), hxlib.CoqList(final))
	return coq, msg
}

// ---------------------------------------------------------------------------
// report cases (contract.DoubleSignReport.Decode, PreValidate, DSRHandler)

type HistEnt struct {
	Height int64 `json:"height"`
	Same   bool  `json:"same"` // the context's hash, or some other hash
}

type ReportIn struct {
	A          MsgSpec   `json:"a"`
	B          MsgSpec   `json:"b"`
	Tag        string    `json:"tag"`
	Order      int       `json:"order"`  // 0 ascending bytes, 1 descending, 2 first datum twice
	NData      int       `json:"n_data"` // 2; 1 and 3 are malformed
	Validators []int     `json:"validators"`
	BadCtx     bool      `json:"bad_ctx"`
	Rev        bool      `json:"rev"`
	FromSystem bool      `json:"from_system"`
	Blk        int64     `json:"blk"`
	Hist       []HistEnt `json:"hist"`
}

type wctx struct {
	state.WorldContext
	rev module.Revision
}

func (w *wctx) Revision() module.Revision { return w.rev }
func (w *wctx) DecodeDoubleSignData(t string, d []byte) (module.DoubleSignData, error) {
	return consensus.DecodeDoubleSignData(t, d)
}
func (w *wctx) DecodeDoubleSignContext(t string, d []byte) (module.DoubleSignContext, error) {
	return state.VerifDecodeDoubleSignContext(t, d)
}

type accState struct {
	state.AccountState
	values map[string][]byte
}

func (t *accState) GetValue(key []byte) ([]byte, error) { return t.values[string(key)], nil }
func (t *accState) SetValue(key []byte, value []byte) ([]byte, error) {
	old := t.values[string(key)]
	t.values[string(key)] = value
	return old, nil
}
func (t *accState) DeleteValue(key []byte) ([]byte, error) {
	old := t.values[string(key)]
	delete(t.values, string(key))
	return old, nil
}

type cctx struct {
	contract.CallContext
	height int64
	sys    *accState
	called bool
}

func (c *cctx) BlockHeight() int64            { return c.height }
func (c *cctx) Revision() module.Revision     { return module.AllRevision }
func (c *cctx) StepAvailable() *big.Int       { return big.NewInt(10_000_000) }
func (c *cctx) GetAccountState(id []byte) state.AccountState { return c.sys }
func (c *cctx) DecodeDoubleSignData(t string, d []byte) (module.DoubleSignData, error) {
	return consensus.DecodeDoubleSignData(t, d)
}
func (c *cctx) DecodeDoubleSignContext(t string, d []byte) (module.DoubleSignContext, error) {
	return state.VerifDecodeDoubleSignContext(t, d)
}
func (c *cctx) Call(handler contract.ContractHandler, limit *big.Int) (error, *big.Int, *codec.TypedObj, module.Address) {
	c.called = true
	return nil, big.NewInt(1000), nil, nil
}

// mirror of transaction.doubleSignReportTxData (unexported), same field order
type dsrTxData struct {
	Version   common.HexUint16
	From      *common.Address
	Timestamp common.HexInt64
	DataType  string
	Data      *contract.DoubleSignReport
	NID       common.HexInt64
	Signature *common.Signature
}

func ctxBytesOf(validators []int) []byte {
	var vs []module.Validator
	for _, i := range validators {
		v, err := state.ValidatorFromAddress(walletOf(i).Address())
		if err != nil {
			panic(err)
		}
		vs = append(vs, v)
	}
	vss, err := state.ValidatorSnapshotFromSlice(db.NewMapDB(), vs)
	if err != nil {
		panic(err)
	}
	return codec.BC.MustMarshalToBytes([][]byte{vss.Bytes()})
}

func coqCtx(c module.DoubleSignContext, candidates []int) string {
	var ids []string
	for _, i := range candidates {
		id := walletOf(i).Address().ID()
		if c.AddressOf(id) != nil {
			ids = append(ids, coqB(id))
		}
	}
	return fmt.Sprintf("(mkCtx %s %s)", hxlib.CoqList(ids), coqB(c.Hash()))
}

// independent reading of DSContextHistory.Get: the hash in force at a height
func histHashAt(h []HistEnt, ctxHash, other []byte, height int64) []byte {
	if len(h) == 0 || height < h[0].Height {
		return nil
	}
	var res []byte
	for _, e := range h {
		if e.Height <= height {
			if e.Same {
				res = ctxHash
			} else {
				res = other
			}
		}
	}
	return res
}

var allWallets = []int{0, 1, 2, 3, 4}

func oracleReport(in ReportIn) (coq string, msg string) {
	da, err := build(in.A)
	if err != nil {
		return "", "cannot build a: " + err.Error()
	}
	dbb, err := build(in.B)
	if err != nil {
		return "", "cannot build b: " + err.Error()
	}
	type item struct {
		spec MsgSpec
		bs   []byte
	}
	items := []item{{in.A, da.Bytes()}, {in.B, dbb.Bytes()}}
	sort.SliceStable(items, func(i, j int) bool { return bytes.Compare(items[i].bs, items[j].bs) < 0 })
	switch in.Order {
	case 1:
		items[0], items[1] = items[1], items[0]
	case 2:
		items[1] = items[0]
	}
	var data []common.HexBytes
	for i := 0; i < in.NData; i++ {
		data = append(data, items[i%2].bs)
	}
	ctxBytes := ctxBytesOf(in.Validators)
	if in.BadCtx {
		ctxBytes = []byte{0xc3, 0x01, 0x02, 0x03}
	}
	// --- observe: transaction.PreValidate
	txd := dsrTxData{DataType: contract.DataTypeDSR,
		Data: &contract.DoubleSignReport{Type: in.Tag, Data: data, Context: ctxBytes}}
	txd.Version.Value = 3
	txd.Timestamp.Value = 1000
	txd.NID.Value = 1
	tx, err := transaction.NewTransaction(codec.BC.MustMarshalToBytes(&txd))
	if err != nil {
		return "", "harness: cannot parse the DSR transaction it encoded: " + err.Error()
	}
	rev := module.Revision(0)
	if in.Rev {
		rev = module.AllRevision
	}
	var pvErr, vErr error
	if p := hxlib.Catch(func() {
		vErr = tx.Verify()
		pvErr = tx.PreValidate(&wctx{rev: rev}, true)
	}); p != "" {
		return "", "PreValidate panics: " + p
	}
	pv := 0
	if pvErr != nil {
		pv = 2
		if errors.InvalidStateError.Equals(pvErr) {
			pv = 1
		}
	}
	// --- observe: DSRHandler.DoExecuteSync
	var from module.Address = state.SystemAddress
	if !in.FromSystem {
		from = walletOf(0).Address()
	}
	cc := &cctx{height: in.Blk, sys: &accState{values: map[string][]byte{}}}
	otherHash := bytes.Repeat([]byte{0x5a}, 32)
	var ctxHash []byte
	dctx, cerr := state.VerifDecodeDoubleSignContext(module.DSTVote, ctxBytes)
	if cerr == nil {
		ctxHash = dctx.Hash()
	}
	hdb, err := contract.NewDSContextHistoryDB(cc.sys)
	if err != nil {
		return "", "harness: " + err.Error()
	}
	var histCoq []string
	for _, e := range in.Hist {
		hh := otherHash
		if e.Same && ctxHash != nil {
			hh = ctxHash
		}
		if err := hdb.Push(e.Height, hh); err != nil {
			return "", "harness: history push: " + err.Error()
		}
	}
	for _, e := range hdb.DSContextHistory {
		histCoq = append(histCoq, fmt.Sprintf("(%s, %s)", hxlib.CoqZ(e.Height), coqB(e.Hash)))
	}
	handler := contract.NewDSRHandler(from, &contract.DoubleSignReport{Type: in.Tag, Data: data, Context: ctxBytes}, log.GlobalLogger())
	var hErr error
	if p := hxlib.Catch(func() { hErr, _, _ = handler.DoExecuteSync(cc) }); p != "" {
		return "", "DoExecuteSync panics: " + p
	}
	hres := 0
	switch {
	case hErr == nil && cc.called:
		hres = 0
	case hErr == nil:
		hres = 3
	case scoreresult.AccessDeniedError.Equals(hErr):
		hres = 1
	default:
		hres = 2
	}
	if hErr != nil && cc.called {
		msg = "DoExecuteSync made the inner call and failed"
	}
	// --- the direct oracle on the chosen fields
	first, second := items[0].spec, items[1].spec
	why := whyNotGenuine(first, second)
	if in.NData != 2 {
		why = append(why, fmt.Sprintf("%d data instead of 2", in.NData))
	}
	if in.Tag != first.Kind || in.Tag != second.Kind {
		why = append(why, fmt.Sprintf("type tag %q does not name the type of both data", in.Tag))
	}
	if in.Order == 1 {
		why = append(why, "data not in ascending byte order")
	}
	if in.BadCtx {
		why = append(why, "undecodable context")
	}
	inCtx := false
	for _, i := range in.Validators {
		if i == first.Signer {
			inCtx = true
		}
	}
	if !inCtx {
		why = append(why, "signer is not a validator of the context")
	}
	pvWhy := why
	if !in.Rev {
		pvWhy = append(pvWhy, "double-sign reporting is disabled at this revision")
	}
	if msg == "" {
		switch {
		case pvErr == nil && len(pvWhy) > 0:
			msg = "PreValidate accepts a report that is not genuine evidence: " + strings.Join(pvWhy, "; ")
		case pvErr != nil && len(pvWhy) == 0:
			msg = "PreValidate rejects genuine evidence: " + pvErr.Error()
		case pvErr == nil && vErr != nil:
			msg = "PreValidate accepts what Verify rejects"
		}
	}
	hWhy := why
	if !in.FromSystem {
		hWhy = append(hWhy, "not sent by the system address")
	}
	if first.Height > in.Blk {
		hWhy = append(hWhy, "evidence for a future height")
	}
	if cerr == nil && !bytes.Equal(histHashAt(in.Hist, ctxHash, otherHash, first.Height-2), ctxHash) {
		hWhy = append(hWhy, "context is not the one in force at height-2")
	}
	if msg == "" {
		switch {
		case cc.called && len(hWhy) > 0:
			msg = "DSRHandler hands over a report that is not genuine evidence: " + strings.Join(hWhy, "; ")
		case !cc.called && len(hWhy) == 0:
			msg = fmt.Sprintf("DSRHandler drops genuine evidence: %v", hErr)
		}
	}
	// --- Coq case: decode tables as observed
	var vdec, pdec, cdec []string
	seen := map[string]bool{}
	var dataCoq []string
	for _, d := range data {
		dataCoq = append(dataCoq, coqB(d))
		if seen[string(d)] {
			continue
		}
		seen[string(d)] = true
		if x, err := consensus.DecodeDoubleSignData(module.DSTVote, d); err == nil {
			v, _ := consensus.VerifViewOf(x)
			vdec = append(vdec, fmt.Sprintf("(%s, %s)", coqB(d), coqMsg(v)))
		}
		if x, err := consensus.DecodeDoubleSignData(module.DSTProposal, d); err == nil {
			v, _ := consensus.VerifViewOf(x)
			pdec = append(pdec, fmt.Sprintf("(%s, %s)", coqB(d), coqMsg(v)))
		}
	}
	if cerr == nil {
		cdec = append(cdec, fmt.Sprintf("(%s, %s)", coqB(ctxBytes), coqCtx(dctx, allWallets)))
	}
	tag := "None"
	switch in.Tag {
	case module.DSTVote:
		tag = "(Some KVote)"
	case module.DSTProposal:
		tag = "(Some KProposal)"
	}
	coq = fmt.Sprintf("(CReport (mkReport %s %s %s) %s %s %s %s true %d %s %s %s %d)",
		tag, hxlib.CoqList(dataCoq), coqB(ctxBytes),
		hxlib.CoqList(vdec), hxlib.CoqList(pdec), hxlib.CoqList(cdec),
		hxlib.CoqBool(in.Rev), pv,
		hxlib.CoqBool(in.FromSystem), hxlib.CoqZ(in.Blk), hxlib.CoqList(histCoq), hres)
	return coq, msg
}

// ---------------------------------------------------------------------------
// dsrManager.Add cases

type AddEnt struct {
	A          MsgSpec `json:"a"`
	B          MsgSpec `json:"b"`
	N          int     `json:"n"` // number of data handed over (2 normally)
	Validators []int   `json:"validators"`
	NilCtx     bool    `json:"nil_ctx"`
}

type AddIn struct {
	First int64    `json:"first"`
	Adds  []AddEnt `json:"adds"`
}

func oracleAdd(in AddIn) (coq string, msg string) {
	m := service.VerifNewDSRManager(in.First)
	known := map[string]bool{}
	var adds, obs []string
	for i, a := range in.Adds {
		da, err := build(a.A)
		if err != nil {
			return "", "cannot build: " + err.Error()
		}
		dbb, err := build(a.B)
		if err != nil {
			return "", "cannot build: " + err.Error()
		}
		all := []module.DoubleSignData{da, dbb, da}
		data := all[:a.N]
		var ctx module.DoubleSignContext
		ctxCoq := "None"
		if !a.NilCtx {
			c, err := state.VerifDecodeDoubleSignContext(module.DSTVote, ctxBytesOf(a.Validators))
			if err != nil {
				return "", "harness: " + err.Error()
			}
			ctx = c
			ctxCoq = "(Some " + coqCtx(c, allWallets) + ")"
		}
		before := m.TodoLen()
		var aerr error
		if p := hxlib.Catch(func() { aerr = m.Add(data, ctx) }); p != "" {
			return "", "dsrManager.Add panics: " + p
		}
		queued := m.TodoLen() == before+1
		cls := 0
		switch {
		case aerr == nil && queued:
			cls = 0
		case aerr == nil:
			cls = 1
		case errors.InvalidStateError.Equals(aerr):
			cls = 3
		default:
			cls = 2
		}
		obs = append(obs, fmt.Sprint(cls))
		var ms []string
		for _, d := range data {
			v, _ := consensus.VerifViewOf(d)
			ms = append(ms, coqMsg(v))
		}
		adds = append(adds, fmt.Sprintf("(%s, %s)", hxlib.CoqList(ms), ctxCoq))
		// direct oracle
		why := whyNotGenuine(a.A, a.B)
		if a.N != 2 {
			why = append(why, fmt.Sprintf("%d data", a.N))
		}
		inCtx := false
		for _, w := range a.Validators {
			if w == a.A.Signer {
				inCtx = true
			}
		}
		if a.NilCtx || !inCtx {
			why = append(why, "signer is not a validator of the context")
		}
		if in.First < 0 || a.A.Height < in.First {
			why = append(why, "height below the first reportable height")
		}
		key := fmt.Sprintf("%d/%d", a.A.Height, a.A.Signer)
		if msg == "" {
			switch {
			case queued && len(why) > 0:
				msg = fmt.Sprintf("add %d: the report manager queues a report that is not genuine evidence: %s", i, strings.Join(why, "; "))
			case !queued && len(why) == 0 && !known[key]:
				msg = fmt.Sprintf("add %d: the report manager drops genuine, new evidence: %v", i, aerr)
			case queued && known[key]:
				msg = fmt.Sprintf("add %d: the same signer and height is queued twice", i)
			}
		}
		if queued {
			known[key] = true
		}
	}
	coq = fmt.Sprintf("(CAdd %s %s %s %s)", hxlib.CoqZ(in.First), hxlib.CoqList(adds), hxlib.CoqList(obs), hxlib.CoqNat(m.TodoLen()))
	return coq, msg
}

// ---------------------------------------------------------------------------
// matchNID

type NidIn struct {
	A uint32 `json:"a"`
	B uint32 `json:"b"`
}

func oracleNid(in NidIn) (string, string) {
	obs := consensus.VerifMatchNID(in.A, in.B)
	exp := in.A == 0 || in.B == 0 || in.A == in.B
	msg := ""
	if obs != exp {
		msg = fmt.Sprintf("matchNID(%d,%d) = %v: network ids must match when both are specified and only then", in.A, in.B, obs)
	}
	return fmt.Sprintf("(CNid %d %d %s)", in.A, in.B, hxlib.CoqBool(obs)), msg
}

// typed nil data: the guards of IsConflictWith (oracle only)
func oracleNilGuard(s MsgSpec) string {
	d, err := build(s)
	if err != nil {
		return "cannot build: " + err.Error()
	}
	for _, n := range []module.DoubleSignData{consensus.VerifNilDSDVote(), consensus.VerifNilDSDProposal()} {
		r1, p1 := conflictSafe(d, n)
		r2, p2 := conflictSafe(n, d)
		if p1 != "" || p2 != "" {
			return "IsConflictWith panics on a nil datum: " + p1 + p2
		}
		if r1 || r2 {
			return "IsConflictWith reports a conflict with a nil datum"
		}
	}
	return ""
}

// ---------------------------------------------------------------------------
// generators

func hexRand(r *rand.Rand, n int) string {
	b := make([]byte, n)
	r.Read(b)
	return hex.EncodeToString(b)
}

var nidPool = []uint32{1, 2, 3, 7, 0x10000, 0xfffe, 0x7fffffff, 0xffffffff}

func randNID(r *rand.Rand) uint32 {
	if r.Intn(3) == 0 {
		return r.Uint32()>>uint(r.Intn(24)) | 1
	}
	return nidPool[r.Intn(len(nidPool))]
}

func randSpec(r *rand.Rand, kind string) MsgSpec {
	s := MsgSpec{Kind: kind, Signer: r.Intn(4), Height: 1 + r.Int63n(1000), Round: int32(r.Intn(5)),
		PSCount: uint16(1 + r.Intn(5)), PSHash: hexRand(r, 32)}
	switch r.Intn(4) {
	case 0:
		s.NID = 0
	default:
		s.NID = randNID(r)
	}
	if kind == "vote" {
		s.VType = byte(r.Intn(2))
		s.BlockID = hexRand(r, 32)
		s.TS = 1_600_000_000_000_000 + r.Int63n(1_000_000_000)
		switch r.Intn(10) {
		case 0, 1:
			s.NilMode = 1
			if s.NID > 0x7fffffff {
				s.NID = 0x7fffffff
			}
		case 2:
			s.NilMode = 2
		}
		if s.NilMode != 0 {
			s.BlockID, s.PSHash, s.PSCount = "", "", 0
		}
		if s.NilMode == 0 && s.VType == 1 && r.Intn(2) == 0 {
			s = withNTS(r, s, 1+r.Intn(2))
		}
	} else {
		s.POL = int32(r.Intn(int(s.Round)+1)) - 1
	}
	return s
}

// a precommit with n unsigned NTS entries (count signed in the app data)
func withNTS(r *rand.Rand, s MsgSpec, n int) MsgSpec {
	s.VType, s.NilMode = 1, 0
	if s.BlockID == "" {
		s.BlockID = hexRand(r, 32)
	}
	if s.PSCount == 0 {
		s.PSCount, s.PSHash = 1, hexRand(r, 32)
	}
	s.NTS = nil
	for i := 0; i < n; i++ {
		s.NTS = append(s.NTS, NTSEnt{ID: int64(1 + i), Hash: hexRand(r, 32), Proof: hexRand(r, 1+r.Intn(6))})
	}
	s.NTSCount = uint16(n)
	return s
}

// "ntsbase" and "ntsproof" change only what the vote signature does NOT cover
var voteFields = []string{"kind", "signer", "height", "round", "vtype", "nid", "blockid", "psid", "ts", "ntsbase", "ntsproof"}
var propFields = []string{"kind", "signer", "height", "round", "nid", "psid", "pol"}

// mutate returns a copy of s that differs in the named field
func mutate(r *rand.Rand, s MsgSpec, field string) MsgSpec {
	switch field {
	case "kind":
		if s.Kind == "vote" {
			p := MsgSpec{Kind: "proposal", Signer: s.Signer, Height: s.Height, Round: s.Round, NID: s.effNID(),
				PSCount: s.PSCount, PSHash: s.PSHash, POL: -1}
			if p.PSCount == 0 {
				p.PSCount, p.PSHash = 1, hexRand(r, 32)
			}
			return p
		}
		return MsgSpec{Kind: "vote", Signer: s.Signer, Height: s.Height, Round: s.Round, NID: s.NID, VType: byte(r.Intn(2)),
			BlockID: hexRand(r, 32), PSCount: s.PSCount, PSHash: s.PSHash, TS: 1_600_000_000_000_000}
	case "signer":
		s.Signer = (s.Signer + 1 + r.Intn(3)) % 4
	case "height":
		s.Height += int64(1 + r.Intn(3))
	case "round":
		s.Round += int32(1 + r.Intn(2))
	case "vtype":
		s.VType ^= 1
	case "nid":
		old := s.effNID()
		if s.Kind == "vote" && s.NilMode == 2 {
			s.NilMode = 1
		}
		switch {
		case old == 0:
			s.NID = randNID(r)
		case r.Intn(3) == 0:
			s.NID = 0
		default:
			for s.NID == old || s.NID == 0 {
				s.NID = randNID(r)
			}
		}
		if s.Kind == "vote" && s.NilMode == 1 && s.NID > 0x7fffffff {
			s.NID = 0x7ffffffe
			if old == s.NID {
				s.NID = 5
			}
		}
	case "blockid":
		if s.NilMode != 0 {
			s.NilMode = 0
			s.PSCount, s.PSHash = 1, hexRand(r, 32)
		}
		s.BlockID = hexRand(r, 32)
	case "psid":
		if s.Kind == "vote" && s.NilMode != 0 {
			s.NilMode = 0
			s.BlockID = hexRand(r, 32)
			s.PSCount = 0
		}
		if r.Intn(2) == 0 {
			s.PSCount++
		} else {
			s.PSHash = hexRand(r, 32)
			if s.PSCount == 0 {
				s.PSCount = 1
			}
		}
	case "ntsbase", "ntsproof":
		if s.Kind != "vote" || s.NilMode != 0 {
			return s
		}
		nts := append([]NTSEnt(nil), s.NTS...)
		if len(nts) == 0 { // attach an entry the signature knows nothing about
			nts = append(nts, NTSEnt{ID: 1, Hash: hexRand(r, 32), Proof: hexRand(r, 2)})
		} else {
			k := r.Intn(len(nts))
			switch {
			case field == "ntsproof":
				nts[k].Proof = hexRand(r, 1+r.Intn(6)) + "01"
			case r.Intn(3) == 0:
				nts[k].ID += 1 + int64(r.Intn(5))
			default:
				nts[k].Hash = hexRand(r, 32)
			}
		}
		s.NTS = nts
	case "ts":
		s.TS += int64(1 + r.Intn(1000))
	case "pol":
		s.POL++
	}
	return s
}

func pairKind(in PairIn, fields []string) string {
	k := in.A.Kind
	if len(fields) == 0 {
		k += "-same"
	} else {
		k += "-vary-" + strings.Join(fields, "+")
	}
	if in.Decoded {
		k += "-decoded"
	}
	return k
}

// Domain of network ids.  A chain's NID is an int32 (genesis "nid" is a common.HexInt32,
// strconv.ParseInt(s, 0, 32); otherwise the 24-bit CID), and a nil vote carries it as
// codec(int) in BlockID, read back by voteBase.NID() into an int32: ids >= 2^31 cannot be
// configured and are not representable in a nil vote (decoding overflows, Verify rejects the
// vote).  Generated nil votes therefore use ids in [0, 2^31); votes with a part set id and
// proposals carry a uint32 and are generated over the full uint32 range.
const maxNilVoteNID = 0x7fffffff

func inDomain(s MsgSpec) MsgSpec {
	if s.Kind == "vote" && s.NilMode == 1 && s.NID > maxNilVoteNID {
		s.NID &= maxNilVoteNID
	}
	return s
}

func emitPair(c *collector, in PairIn, kind string) {
	in.A, in.B = inDomain(in.A), inDomain(in.B)
	coq, msg := oraclePair(in)
	c.Emit(hxlib.Case{Kind: kind, Coq: coq, Input: map[string]interface{}{"t": "pair", "v": in},
		Nontrivial: true, OracleErr: msg})
}

func corpusDir() string {
	if d := os.Getenv("VERIF_CORPUS"); d != "" {
		return d
	}
	return "/verif/corpus"
}

// collector spreads the large cases (logs, reports) evenly among the small ones so
// that the Coq shards, which are evaluated in parallel, have similar sizes.
type collector struct {
	*hxlib.Ctx
	light, heavy []hxlib.Case
}

func (c *collector) Emit(cs hxlib.Case) {
	switch {
	case cs.Canary || cs.Kind == "corpus":
		c.Ctx.Emit(cs)
	case len(cs.Coq) > 2500:
		c.heavy = append(c.heavy, cs)
	default:
		c.light = append(c.light, cs)
	}
}

func (c *collector) flush() {
	n, m := len(c.light), len(c.heavy)
	j := 0
	for i, cs := range c.light {
		c.Ctx.Emit(cs)
		for j < m && (j+1)*n <= (i+1)*m {
			c.Ctx.Emit(c.heavy[j])
			j++
		}
	}
	for ; j < m; j++ {
		c.Ctx.Emit(c.heavy[j])
	}
}

func gen(ctx *hxlib.Ctx) {
	c := &collector{Ctx: ctx}
	defer c.flush()
	r := c.Rand
	// 0. corpus first: inputs that exposed defects before
	files, _ := filepath.Glob(filepath.Join(corpusDir(), "C06", "*.json"))
	sort.Strings(files)
	for _, f := range files {
		b, err := os.ReadFile(f)
		if err != nil {
			continue
		}
		var doc struct {
			Input json.RawMessage `json:"input"`
		}
		if json.Unmarshal(b, &doc) != nil || doc.Input == nil {
			c.Note("corpus file %s unreadable", f)
			continue
		}
		coq, msg, ok := runInput(doc.Input)
		if !ok {
			c.Note("corpus file %s: unknown case type", f)
			continue
		}
		var in interface{}
		json.Unmarshal(doc.Input, &in)
		c.Emit(hxlib.Case{Kind: "corpus", Coq: coq, Input: in, Nontrivial: true, OracleErr: msg})
	}
	// 1. matchNID
	for i := 0; i < c.N(60); i++ {
		in := NidIn{}
		switch r.Intn(5) {
		case 0:
			in = NidIn{0, randNID(r)}
		case 1:
			in = NidIn{randNID(r), 0}
		case 2:
			in.A = randNID(r)
			in.B = in.A
		case 3:
			in = NidIn{0, 0}
		default:
			in = NidIn{randNID(r), randNID(r)}
		}
		coq, msg := oracleNid(in)
		c.Emit(hxlib.Case{Kind: "match-nid", Coq: coq, Input: map[string]interface{}{"t": "nid", "v": in}, Nontrivial: in.A != 0 && in.B != 0, OracleErr: msg})
	}
	// 2. pairs: every subset of at most two fields varied, direct and after a decode round trip
	subsets := func(fields []string) [][]string {
		res := [][]string{{}}
		for i := range fields {
			res = append(res, []string{fields[i]})
		}
		for i := range fields {
			for j := i + 1; j < len(fields); j++ {
				res = append(res, []string{fields[i], fields[j]})
			}
		}
		return res
	}
	for _, kind := range []string{"vote", "proposal"} {
		fields, bases := voteFields, c.N(6)
		if kind == "proposal" {
			fields, bases = propFields, c.N(4)
		}
		for bi := 0; bi < bases; bi++ {
			base := randSpec(r, kind)
			if kind == "vote" && bi%2 == 1 {
				base = withNTS(r, base, 1+bi/2%2)
			}
			if bi == 0 { // two different non-zero networks are reachable from this base
				base.NID, base.NilMode = 3, 0
				if kind == "vote" {
					base.BlockID, base.PSHash, base.PSCount = hexRand(r, 32), hexRand(r, 32), 1
				}
			}
			for _, ss := range subsets(fields) {
				b := base
				for _, f := range ss {
					if f == "kind" {
						continue
					}
					b = mutate(r, b, f)
				}
				for _, f := range ss {
					if f == "kind" {
						b = mutate(r, b, f)
					}
				}
				for _, dec := range []bool{false, true} {
					in := PairIn{A: base, B: b, Decoded: dec}
					emitPair(c, in, pairKind(in, ss))
				}
			}
		}
	}
	// 2b. network-id matrix on otherwise conflicting pairs (content differs elsewhere too)
	for i := 0; i < c.N(40); i++ {
		kind := []string{"vote", "proposal"}[r.Intn(2)]
		a := randSpec(r, kind)
		a.NilMode = []int{0, 0, 1}[r.Intn(3)]
		if kind == "vote" && a.NilMode == 0 && a.BlockID == "" {
			a.BlockID, a.PSHash, a.PSCount = hexRand(r, 32), hexRand(r, 32), 1
		}
		if a.NilMode == 1 {
			a.BlockID, a.PSHash, a.PSCount = "", "", 0
			a.NTS, a.NTSCount = nil, 0
		}
		b := a
		if kind == "vote" {
			b = mutate(r, b, "ts")
		} else {
			b = mutate(r, b, "psid")
		}
		n1, n2 := randNID(r)&0x7fffffff|1, randNID(r)&0x7fffffff|1
		switch i % 5 {
		case 0:
			a.NID, b.NID = n1, n2
			if n1 == n2 {
				b.NID = n1 ^ 2 // other, non-zero, still below 2^31
			}
		case 1:
			a.NID, b.NID = 0, n2
		case 2:
			a.NID, b.NID = n1, 0
		case 3:
			a.NID, b.NID = n1, n1
		default:
			a.NID, b.NID = 0, 0
		}
		in := PairIn{A: a, B: b, Decoded: r.Intn(2) == 0}
		emitPair(c, in, fmt.Sprintf("%s-nid-matrix-%d", kind, i%5))
	}
	// 2c. random pairs with many fields varied
	for i := 0; i < c.N(60); i++ {
		kind := []string{"vote", "proposal"}[r.Intn(2)]
		a := randSpec(r, kind)
		b := a
		fields := voteFields
		if kind == "proposal" {
			fields = propFields
		}
		n := 3 + r.Intn(3)
		for k := 0; k < n; k++ {
			f := fields[1+r.Intn(len(fields)-1)]
			b = mutate(r, b, f)
		}
		emitPair(c, PairIn{A: a, B: b, Decoded: r.Intn(2) == 0}, kind+"-vary-many")
	}
	// 2d. nil data
	for i := 0; i < 4; i++ {
		s := randSpec(r, []string{"vote", "proposal"}[i%2])
		c.Emit(hxlib.Case{Kind: "nil-guard", Input: map[string]interface{}{"t": "nilguard", "v": s}, OracleErr: oracleNilGuard(s)})
	}
	// 3. message-log histories
	voteCost, propCost := 0, 0
	{
		d, _ := build(randSpec(r, "vote"))
		v, _ := consensus.VerifViewOf(d)
		voteCost = v.Cost
		d, _ = build(randSpec(r, "proposal"))
		v, _ = consensus.VerifViewOf(d)
		propCost = v.Cost
	}
	for i := 0; i < c.N(50); i++ {
		in := genLog(r, voteCost, propCost, i)
		for k := range in.Msgs {
			in.Msgs[k] = inDomain(in.Msgs[k])
		}
		coq, msg := oracleLog(in)
		kind := "log-retained"
		if in.Cap < len(in.Msgs)*voteCost {
			kind = "log-evicting"
		}
		c.Emit(hxlib.Case{Kind: kind, Coq: coq, Input: map[string]interface{}{"t": "log", "v": in}, Nontrivial: strings.Contains(coq, "Some (mkMsg"), OracleErr: msg})
	}
	// 4. reports
	for i := 0; i < c.N(90); i++ {
		in := genReport(r, i)
		in.A, in.B = inDomain(in.A), inDomain(in.B)
		coq, msg := oracleReport(in)
		kind := "report-" + in.Tag
		if !expConflict(in.A, in.B) {
			kind += "-nonconflict"
		}
		c.Emit(hxlib.Case{Kind: kind, Coq: coq, Input: map[string]interface{}{"t": "report", "v": in}, Nontrivial: true, OracleErr: msg})
	}
	// 5. report manager
	for i := 0; i < c.N(30); i++ {
		in := genAdd(r, i)
		for k := range in.Adds {
			in.Adds[k].A, in.Adds[k].B = inDomain(in.Adds[k].A), inDomain(in.Adds[k].B)
		}
		coq, msg := oracleAdd(in)
		c.Emit(hxlib.Case{Kind: "manager-add", Coq: coq, Input: map[string]interface{}{"t": "add", "v": in}, Nontrivial: true, OracleErr: msg})
	}
	// canaries: wrong observations the model must flag
	{
		a := randSpec(rand.New(rand.NewSource(7)), "vote")
		a.NilMode, a.NID = 0, 3
		a.BlockID, a.PSHash, a.PSCount = strings.Repeat("ab", 32), strings.Repeat("cd", 32), 1
		b := a
		b.TS++
		da, _ := build(a)
		dbb, _ := build(b)
		va, _ := consensus.VerifViewOf(da)
		vb, _ := consensus.VerifViewOf(dbb)
		c.Emit(hxlib.Case{Kind: "canary", Canary: true, Coq: fmt.Sprintf("(CPair %s %s false false)", coqMsg(va), coqMsg(vb))})
		c.Emit(hxlib.Case{Kind: "canary", Canary: true, Coq: "(CNid 5 6 true)"})
		c.Emit(hxlib.Case{Kind: "canary", Canary: true, Coq: fmt.Sprintf("(CLog (100000)%%Z [(%s, []); (%s, [])] [None; None] [%s; %s])",
			coqMsg(va), coqMsg(vb), hxlib.CoqOpt(true, coqB(va.Hash)), hxlib.CoqOpt(true, coqB(va.Hash)))})
	}
}

func genLog(r *rand.Rand, voteCost, propCost, i int) LogIn {
	// a pool built around a few slots, with several contents per slot
	nSlots := 2 + r.Intn(3)
	var pool []MsgSpec
	chainNID := randNID(r) & 0x7fffffff
	for s := 0; s < nSlots; s++ {
		kind := "vote"
		if r.Intn(4) == 0 {
			kind = "proposal"
		}
		base := randSpec(r, kind)
		base.Signer = r.Intn(3)
		base.Height = 100 + int64(r.Intn(2))
		base.Round = int32(r.Intn(2))
		base.NID = []uint32{0, chainNID, chainNID}[r.Intn(3)]
		if kind == "vote" && base.NilMode == 1 && base.NID > 0x7fffffff {
			base.NID = 0
		}
		if kind == "proposal" {
			base.POL = -1
		}
		pool = append(pool, base)
		nContent := 1 + r.Intn(3)
		for k := 0; k < nContent; k++ {
			v := base
			if kind == "vote" {
				v = mutate(r, v, []string{"ts", "blockid", "psid"}[r.Intn(3)])
			} else {
				v = mutate(r, v, "psid")
			}
			pool = append(pool, v)
		}
		if kind == "vote" && base.NilMode == 0 && r.Intn(2) == 0 {
			// one signed precommit, its unsigned NTS part rewritten: same signed bytes
			pc := withNTS(r, base, 1+r.Intn(2))
			pool = append(pool, pc, mutate(r, pc, "ntsbase"), mutate(r, pc, "ntsproof"), mutate(r, pc, "ts"))
		}
		if kind == "vote" { // the other vote type of the same signer/height/round
			o := base
			o.VType ^= 1
			pool = append(pool, o)
			if r.Intn(2) == 0 {
				pool = append(pool, mutate(r, o, "ts"))
			}
		}
		if r.Intn(3) == 0 { // another network's message in the same slot
			o := mutate(r, base, "nid")
			pool = append(pool, o)
		}
		if r.Intn(3) == 0 { // same contents, other signer
			o := base
			o.Signer = (o.Signer + 1) % 3
			pool = append(pool, o)
		}
	}
	n := 6 + r.Intn(18)
	in := LogIn{}
	for k := 0; k < n; k++ {
		in.Msgs = append(in.Msgs, pool[r.Intn(len(pool))])
	}
	total := 0
	for _, m := range in.Msgs {
		if m.Kind == "vote" {
			total += voteCost
		} else {
			total += propCost
		}
	}
	switch i % 5 {
	case 0, 1:
		in.Cap = total + r.Intn(3)*1000 // never evicts
	case 2:
		in.Cap = 1 << 20
	case 3:
		in.Cap = (1+r.Intn(4))*voteCost + r.Intn(voteCost)
	default:
		in.Cap = []int{voteCost - 1, voteCost, propCost, voteCost + propCost, 3 * voteCost}[r.Intn(5)]
	}
	for k := 0; k < 48; k++ {
		switch r.Intn(3) {
		case 0:
			in.Rnd = append(in.Rnd, uint64(r.Intn(8)))
		case 1:
			in.Rnd = append(in.Rnd, r.Uint64())
		default:
			in.Rnd = append(in.Rnd, uint64(r.Intn(1000)))
		}
	}
	return in
}

func genReport(r *rand.Rand, i int) ReportIn {
	kind := []string{"vote", "vote", "proposal"}[r.Intn(3)]
	a := randSpec(r, kind)
	a.Height = 50 + int64(r.Intn(100))
	b := a
	fields := voteFields
	if kind == "proposal" {
		fields = propFields
	}
	switch (r.Intn(8) + i) % 8 {
	case 2: // one signed precommit with rewritten unsigned attachments: different bytes, same signed content
		if kind == "vote" {
			a = withNTS(r, a, 1+r.Intn(2))
			b = mutate(r, a, []string{"ntsbase", "ntsproof"}[r.Intn(2)])
		} else {
			b = mutate(r, b, "psid")
		}
	case 0: // some non-conflicting variation
		b = mutate(r, b, fields[r.Intn(len(fields))])
	case 1:
		b = mutate(r, mutate(r, b, "nid"), fields[len(fields)-1])
	default:
		if kind == "vote" {
			b = mutate(r, b, []string{"ts", "blockid", "psid"}[r.Intn(3)])
		} else {
			b = mutate(r, b, []string{"psid", "pol"}[r.Intn(2)])
		}
	}
	in := ReportIn{A: a, B: b, Tag: a.Kind, NData: 2, Rev: true, FromSystem: true,
		Validators: []int{a.Signer, (a.Signer + 1) % 4}, Blk: a.Height + int64(r.Intn(10))}
	in.Hist = []HistEnt{{Height: a.Height - 2 - int64(r.Intn(20)), Same: true}}
	switch (r.Intn(8) + i) % 16 {
	case 0:
		in.Tag = map[string]string{"vote": "proposal", "proposal": "vote"}[a.Kind]
	case 1:
		in.Tag = []string{"foo", "", "Vote"}[r.Intn(3)]
	case 2:
		in.Order = 1
	case 3:
		in.Order = 2
	case 4:
		in.NData = []int{1, 3}[r.Intn(2)]
	case 5:
		in.Validators = []int{(a.Signer + 1) % 4, (a.Signer + 2) % 4}
	case 6:
		in.BadCtx = true
	case 7:
		in.Rev = false
	case 8:
		in.FromSystem = false
	case 9: // evidence for a future height; height-1 is the boundary
		in.Blk = a.Height - 1 - int64(r.Intn(2)*(1+r.Intn(3)))
	case 10:
		in.Hist = nil
	case 11:
		in.Hist = []HistEnt{{Height: a.Height - 1, Same: true}}
	case 12:
		in.Hist = []HistEnt{{Height: a.Height - 30, Same: true}, {Height: a.Height - 2 - int64(r.Intn(3)), Same: false}}
	case 13:
		in.Hist = []HistEnt{{Height: a.Height - 30, Same: false}, {Height: a.Height - 2, Same: true}, {Height: a.Height - 1, Same: false}}
	}
	return in
}

func genAdd(r *rand.Rand, i int) AddIn {
	in := AddIn{First: 40 + int64(r.Intn(20))}
	if i%7 == 6 {
		in.First = -1
	}
	n := 3 + r.Intn(6)
	var prev []AddEnt
	for k := 0; k < n; k++ {
		rep := genReport(r, k)
		e := AddEnt{A: rep.A, B: rep.B, N: 2, Validators: rep.Validators}
		switch r.Intn(10) {
		case 0:
			e.N = []int{1, 3}[r.Intn(2)]
		case 1:
			e.NilCtx = true
		case 2:
			e.Validators = []int{(e.A.Signer + 1) % 4}
		case 3:
			e.A.Height = in.First - 1 - int64(r.Intn(3))
			e.B.Height = e.A.Height
		case 4, 5:
			if len(prev) > 0 { // the same evidence, or other evidence of the same signer and height, again
				e = prev[r.Intn(len(prev))]
				if r.Intn(2) == 0 && e.B.Kind == "vote" {
					e.B = mutate(r, e.B, "ts")
				}
			}
		}
		in.Adds = append(in.Adds, e)
		prev = append(prev, e)
	}
	return in
}

// ---------------------------------------------------------------------------

func runInput(raw json.RawMessage) (coq string, msg string, ok bool) {
	var in struct {
		T string          `json:"t"`
		V json.RawMessage `json:"v"`
	}
	if err := json.Unmarshal(raw, &in); err != nil {
		return "", "bad input: " + err.Error(), false
	}
	switch in.T {
	case "pair":
		var v PairIn
		json.Unmarshal(in.V, &v)
		coq, msg = oraclePair(v)
	case "nid":
		var v NidIn
		json.Unmarshal(in.V, &v)
		coq, msg = oracleNid(v)
	case "log":
		var v LogIn
		json.Unmarshal(in.V, &v)
		coq, msg = oracleLog(v)
	case "report":
		var v ReportIn
		json.Unmarshal(in.V, &v)
		coq, msg = oracleReport(v)
	case "add":
		var v AddIn
		json.Unmarshal(in.V, &v)
		coq, msg = oracleAdd(v)
	case "nilguard":
		var v MsgSpec
		json.Unmarshal(in.V, &v)
		msg = oracleNilGuard(v)
	default:
		return "", "unknown case type " + in.T, false
	}
	return coq, msg, true
}

func replay(raw json.RawMessage) string {
	_, msg, _ := runInput(raw)
	return msg
}

func main() {
	log.GlobalLogger().SetLevel(log.ErrorLevel)
	hxlib.Main(hxlib.Spec{
		ID: "C06",
		Rule: "corpus pairs first; vote/proposal messages really signed by harness-held wallets; for each base message every subset of at most two of {kind, signer, height, round, vote type, network id, block id, part-set id, timestamp | POL round} is varied (network id varied among 0 / n / m != n over uint32; nil votes carry the id in BlockID as an int32, so their ids are generated in [0, 2^31) — the domain of a chain NID, which is a HexInt32), each pair observed directly and after Bytes()->DecodeDoubleSignData; a network-id matrix on otherwise conflicting pairs; pairs with 3-5 fields varied; message-log histories over a few signer/height/round slots with 1-4 contents per slot, both vote types, foreign network ids and capacities from 'nothing fits' to 'never evicts' with a scripted random source; DSR reports with wrong tag / order / duplicate / count / context / revision / sender / future height / context history; report-manager Add sequences with repeats. Non-trivial = every case except matchNID calls with an unspecified id; distinct = distinct Coq case term",
		Preamble: "From Goloop Require Import lib.Bytes Model_DoubleSign.\nFrom GoloopRun Require Import Run_C06.",
		Shard:    150,
		Gen:      gen, Replay: replay,
	})
}
