// runner.go — one engine under test: life cycle (start / crash image / restart),
// synchronous event delivery, settling of block-manager work, timer discipline.
package main

import (
	"bytes"
	"encoding/binary"
	"fmt"
	"os"
	"path/filepath"
	"runtime/debug"
	"sync"
	"time"

	"github.com/icon-project/goloop/common/codec"
	"github.com/icon-project/goloop/common/log"
	"github.com/icon-project/goloop/consensus"
	"github.com/icon-project/goloop/module"
	"github.com/icon-project/goloop/test"
)

// catch is hxlib.Catch plus the stack of the panic (kept for diagnostics).
var lastStack string
var lastStackMu sync.Mutex

func catch(f func()) (panicked string) {
	defer func() {
		if r := recover(); r != nil {
			panicked = fmt.Sprint(r)
			if panicked == "" {
				panicked = "panic"
			}
			lastStackMu.Lock()
			lastStack = string(debug.Stack())
			lastStackMu.Unlock()
		}
	}()
	f()
	return ""
}

type engine interface {
	module.Consensus
	OnReceive(sp module.ProtocolInfo, bs []byte, id module.PeerID) (bool, error)
}

type peerID []byte

func (p peerID) Bytes() []byte               { return p }
func (p peerID) Equal(id module.PeerID) bool { return bytes.Equal(p, id.Bytes()) }
func (p peerID) String() string              { return fmt.Sprintf("%x", []byte(p)) }

const (
	timerD      = time.Second            // every step timer of the engine is 1 s
	timerMargin = 450 * time.Millisecond // never deliver when an armed timer is this close
	timerSafety = 60 * time.Millisecond
)

type runner struct {
	w     *world
	own   int
	nd    *test.Node
	chain *chainW
	eng   engine
	inc   int
	rec   *recorder
	wals  map[string]*walTrack
	base  string // scratch dir of this history
	wdir  string // WAL dir of the current incarnation

	bmu  sync.Mutex
	reqs []*bmReq

	blocks []*blockInfo
	byKey  map[string]*blockInfo
	byPart map[string][2]int // part bytes -> (block id, index)

	harnessErr string
	discard    string

	timerPtr   *time.Timer
	timerLower time.Time
	down       bool // engine terminated (crashed) and not restarted yet
	finalized  bool
	t          *quietT
}

func newRunner(w *world, own int) *runner {
	r := &runner{w: w, own: own, rec: &recorder{}, wals: map[string]*walTrack{}, byKey: map[string]*blockInfo{}, byPart: map[string][2]int{}, t: &quietT{}}
	for _, b := range w.pool {
		r.addBlockInfo(b)
	}
	r.nd = test.NewNode(r.t, test.UseGenesis(w.genesis), test.UseWallet(w.wallets[own]))
	r.nd.Chain.Logger().SetLevel(log.WarnLevel)
	r.chain = &chainW{Chain: r.nd.Chain}
	r.chain.nm = &nmW{NetworkManager: r.nd.Chain.NetworkManager(), run: r}
	r.chain.bm = &bmW{BlockManager: r.nd.BM, run: r}
	r.chain.sm = &smW{ServiceManager: r.nd.SM}
	var err error
	r.base, err = os.MkdirTemp("", "c02-hist")
	must(err)
	r.wdir = filepath.Join(r.base, "wal0")
	return r
}

func (r *runner) addBlockInfo(b *blockInfo) {
	r.blocks = append(r.blocks, b)
	r.byKey[b.Key] = b
	for i, p := range b.Parts {
		r.byPart[string(p)] = [2]int{b.ID, i}
	}
}

func (r *runner) close() {
	if r.eng != nil && !r.down {
		catch(func() { r.eng.Term() })
	}
	catch(func() { r.nd.Close() })
	os.RemoveAll(r.base)
}

func (r *runner) keyOfBlock(blk module.BlockData) string {
	return consensus.VerifPSIDKey(partsOf(blk, false).ID())
}

func (r *runner) stateNoLock() consensus.VerifState {
	return consensus.VerifStateOf(r.eng, false)
}

func (r *runner) state() consensus.VerifState {
	return consensus.VerifStateOf(r.eng, true)
}

// start creates a fresh engine on r.wdir and runs Start.  Returns a panic or
// error text ("" if fine).
func (r *runner) start() string {
	r.inc++
	r.wals = map[string]*walTrack{}
	r.eng = consensus.New(r.chain, r.wdir, &walMgr{run: r}, nil, nil, nil, timerD)
	r.down = false
	r.timerPtr = nil
	t0 := time.Now()
	var err error
	p := catch(func() { err = r.eng.Start() })
	if p != "" {
		return "panic in Start: " + p
	}
	if err != nil {
		return "Start failed: " + err.Error()
	}
	r.after(t0)
	return ""
}

// settle waits until the real block manager has finished every request that
// the engine has not cancelled, so that releasing a callback is deterministic.
func (r *runner) settle() {
	deadline := time.Now().Add(8 * time.Second)
	for {
		busy := false
		r.bmu.Lock()
		for _, q := range r.reqs {
			if q.inc == r.inc && !q.cancelled && !q.done {
				busy = true
			}
		}
		r.bmu.Unlock()
		if !busy {
			return
		}
		if time.Now().After(deadline) {
			r.harnessErr = "block manager request did not complete"
			return
		}
		time.Sleep(300 * time.Microsecond)
	}
}

// after is called when an event (delivered at t0) has been processed: settle,
// then apply the timer discipline.  The armed timer of before the event must
// not have been able to fire before now.
func (r *runner) after(t0 time.Time) consensus.VerifState {
	r.settle()
	st := r.state()
	t1 := time.Now()
	if r.timerPtr != nil && t1.Sub(r.timerLower) > timerD-timerSafety {
		r.discard = "an armed timer may have fired while an event was being delivered"
	}
	if t1.Sub(t0) > timerD-timerSafety {
		r.discard = "event processing took longer than a step timer"
	}
	if st.Timer != r.timerPtr {
		r.timerPtr = st.Timer
		r.timerLower = t0
	}
	return st
}

// timerClose tells whether an armed timer is too close to deliver anything.
func (r *runner) timerClose() bool {
	return r.timerPtr != nil && time.Since(r.timerLower) > timerD-timerMargin
}

// waitTimeout blocks until the armed timer has fired (the engine replaced or
// cleared it).  false: nothing fired.
func (r *runner) waitTimeout() (consensus.VerifState, bool) {
	deadline := r.timerLower.Add(timerD + 2500*time.Millisecond)
	for {
		t0 := time.Now()
		st := r.state()
		if st.Timer != r.timerPtr {
			r.settle()
			st = r.state()
			r.timerPtr = st.Timer
			r.timerLower = t0
			return st, true
		}
		if t0.After(deadline) {
			return st, false
		}
		time.Sleep(2 * time.Millisecond)
	}
}

func (r *runner) deliver(pi module.ProtocolInfo, bs []byte) (consensus.VerifState, string) {
	t0 := time.Now()
	p := catch(func() { _, _ = r.eng.OnReceive(pi, bs, peerID{1, 2, 3, 4}) })
	st := r.after(t0)
	return st, p
}

// pendingReqs lists requests whose callback can be released now.
func (r *runner) pendingReqs() []*bmReq {
	r.bmu.Lock()
	defer r.bmu.Unlock()
	var l []*bmReq
	for _, q := range r.reqs {
		if q.inc == r.inc && !q.cancelled && q.done && !q.delivered {
			l = append(l, q)
		}
	}
	return l
}

// release hands the result of a block manager request to the engine.  fail
// replaces a successful validation by an error (environment input).
func (r *runner) release(q *bmReq, fail bool) (consensus.VerifState, string) {
	r.bmu.Lock()
	q.delivered = true
	blk, err := q.blk, q.err
	r.bmu.Unlock()
	if fail && err == nil {
		if blk != nil {
			blk.Dispose()
		}
		blk, err = nil, fmt.Errorf("verif: injected validation failure")
	}
	t0 := time.Now()
	p := catch(func() { q.cb(blk, err) })
	st := r.after(t0)
	return st, p
}

// ---------------------------------------------------------------- crash images

type crashSpec struct {
	Cut  int            // number of outputs of the current incarnation that happened (recorder index)
	Frac map[string]int // per WAL: how many of the unsynced bytes survive, in 1/1000 (or special values below)
	Mode map[string]int // 0 = Frac, 1 = exactly one frame header into the first unsynced frame, 2 = all, 3 = none
}

type crashResult struct {
	Keep map[string]int // complete unsynced records that survive, per WAL
	Info string
	Torn bool // some image ends inside a record
}

func frameBytes(n int) int64 { return int64(8 + n) }

// crash terminates the engine and builds the on-disk WAL image of a crash that
// happened when exactly `cut` recorder entries existed.
func (r *runner) crash(cut int, sp crashSpec) crashResult {
	catch(func() { r.eng.Term() })
	r.down = true
	res := crashResult{Keep: map[string]int{}}
	ndir := filepath.Join(r.base, fmt.Sprintf("wal%d", r.inc))
	must(os.MkdirAll(ndir, 0o700))
	outs := r.rec.slice(0, r.rec.len())
	for _, name := range []string{"round", "lock", "commit"} {
		tr := r.wals[name]
		if tr == nil {
			continue
		}
		data, err := os.ReadFile(tr.file)
		if err != nil {
			r.harnessErr = "cannot read WAL file: " + err.Error()
			continue
		}
		total := tr.baseSize
		for _, l := range tr.frames {
			total += frameBytes(l)
		}
		if int64(len(data)) != total {
			r.harnessErr = fmt.Sprintf("WAL %s: file has %d bytes, expected %d (frame layout assumption broken)", name, len(data), total)
			continue
		}
		written := 0
		for _, at := range tr.recAt {
			if at < cut {
				written++
			}
		}
		synced := 0
		w := 0
		for i := 0; i < cut && i < len(outs); i++ {
			o := outs[i]
			if o.Inc != r.inc || o.Wal != name {
				continue
			}
			if o.Kind == oWalWrite {
				w++
			} else if o.Kind == oWalSync {
				synced = w
			}
		}
		s := tr.baseSize
		for i := 0; i < synced; i++ {
			s += frameBytes(tr.frames[i])
		}
		var u int64
		for i := synced; i < written; i++ {
			u += frameBytes(tr.frames[i])
		}
		var k int64
		switch sp.Mode[name] {
		case 1:
			if u >= 8 {
				// after some complete frames, exactly one header
				k = 8
				idx := synced
				for skip := sp.Frac[name] % 3; skip > 0 && idx < written-1; skip-- {
					k += frameBytes(tr.frames[idx])
					idx++
				}
			}
		case 2:
			k = u
		case 3:
			k = 0
		default:
			k = u * int64(sp.Frac[name]) / 1000
		}
		if k > u {
			k = u
		}
		keep := 0
		acc := int64(0)
		for i := synced; i < written; i++ {
			acc += frameBytes(tr.frames[i])
			if acc <= k {
				keep++
			}
		}
		if acc2 := func() int64 {
			a := int64(0)
			for i := synced; i < synced+keep; i++ {
				a += frameBytes(tr.frames[i])
			}
			return a
		}(); acc2 != k {
			res.Torn = true
		}
		res.Keep[name] = keep
		res.Info += fmt.Sprintf("%s: synced=%d unsynced=%dB kept=%dB(%d rec) ", name, s, u, k, keep)
		must(os.WriteFile(filepath.Join(ndir, filepath.Base(tr.file)), data[:s+k], 0o600))
	}
	r.wdir = ndir
	return res
}

// ---------------------------------------------------------------- message construction

func (r *runner) voteBytes(from int, vt consensus.VoteType, h int64, round int32, b *blockInfo, ts int64) []byte {
	var vm *consensus.VoteMessage
	if b == nil {
		vm = consensus.NewVoteMessage(r.w.wallets[from], vt, h, round, r.w.nid, nil, ts, nil, nil, 0)
	} else {
		vm = consensus.NewVoteMessage(r.w.wallets[from], vt, h, round, b.BlockID, b.PSID, ts, nil, nil, 0)
	}
	return codec.MustMarshalToBytes(vm)
}

func (r *runner) voteMsg(from int, vt consensus.VoteType, h int64, round int32, b *blockInfo, ts int64) *consensus.VoteMessage {
	if b == nil {
		return consensus.NewVoteMessage(r.w.wallets[from], vt, h, round, r.w.nid, nil, ts, nil, nil, 0)
	}
	return consensus.NewVoteMessage(r.w.wallets[from], vt, h, round, b.BlockID, b.PSID, ts, nil, nil, 0)
}

func (r *runner) proposalBytes(from module.Wallet, h int64, round int32, pol int32, b *blockInfo) []byte {
	msg := consensus.NewProposalMessage()
	msg.Height = h
	msg.Round = round
	msg.BlockPartSetID = b.PSID
	msg.POLRound = pol
	must(msg.Sign(from))
	return codec.MustMarshalToBytes(msg)
}

func partBytes(h int64, idx int, part []byte) []byte {
	bpm := consensus.BlockPartMessage{Height: h, Index: uint16(idx), BlockPart: part}
	return codec.MustMarshalToBytes(bpm)
}

func be16(v uint16) []byte {
	b := make([]byte, 2)
	binary.BigEndian.PutUint16(b, v)
	return b
}
