// c02: one real consensus engine (real block manager, real file WALs) with n-1
// simulated validators, driven by generated event histories with crashes at
// chosen points of the WAL-write -> Sync -> broadcast window; observations are
// printed as Coq cases for Model_ConsensusNode (Run_C02.v).
//
// Direct oracles (model independent):
//
//	(i)   no two different signed votes with equal (height, round, type) and no
//	      two different proposals with equal (height, round) over the whole
//	      history including all restarts;
//	(ii)  every vote/proposal broadcast was in the synced prefix of the round
//	      WAL when it was handed to the network;
//	(iii) no panic, and every restart succeeds;
//	(C01) Finalize(id) only with +2/3 precommits for id in one round among the
//	      votes delivered to / emitted by the engine; after a sent precommit
//	      for B in round r, a later prevote for something else needs a polka
//	      for something else above r (lock discipline).
package main

import (
	"encoding/json"
	"fmt"
	"io"
	"os"
	"path/filepath"
	"sort"
	"strings"
	"sync"

	"github.com/icon-project/goloop/common/log"
	"verif/harness/hxlib"
)

type histIn struct {
	N       int     `json:"n"`
	Own     int     `json:"own"`
	Profile string  `json:"profile"`
	Seed    int64   `json:"seed"`
	Script  *script `json:"script,omitempty"` // a fixed history (corpus) instead of a generated one
}

// corpusScripts loads corpus/C02/*.json found next to an ancestor directory of
// the executable (the check driver puts the binary under /verif/.work/...).
func corpusScripts() []script {
	var res []script
	exe, err := os.Executable()
	if err != nil {
		return nil
	}
	dir := filepath.Dir(exe)
	for i := 0; i < 6; i++ {
		ms, _ := filepath.Glob(filepath.Join(dir, "corpus", "C02", "*.json"))
		if len(ms) > 0 {
			sort.Strings(ms)
			for _, m := range ms {
				b, err := os.ReadFile(m)
				if err != nil {
					continue
				}
				var sc script
				if json.Unmarshal(b, &sc) == nil && sc.N > 0 {
					res = append(res, sc)
				}
			}
			return res
		}
		dir = filepath.Dir(dir)
	}
	return nil
}

// ---------------------------------------------------------------- Coq printing

func z(v interface{}) string { return hxlib.CoqZ(v) }

func optN(v int) string {
	if v <= 0 {
		return "None"
	}
	return fmt.Sprintf("(Some %d)", v)
}

func coqVote(v tvote) string {
	t := "Prevote"
	if v.Type == 1 {
		t = "Precommit"
	}
	return fmt.Sprintf("(mkVote %s %s %s %s %d)", z(v.From), z(v.Round), t, optN(v.Dec), v.TS)
}

func coqVotes(l []tvote) string {
	var s []string
	for _, v := range l {
		s = append(s, coqVote(v))
	}
	return hxlib.CoqList(s)
}

func coqWal(w string) string {
	switch w {
	case "round":
		return "WRound"
	case "lock":
		return "WLock"
	}
	return "WCommit"
}

func coqRec(o tout) string {
	switch o.Rec {
	case "vote":
		return "(RVote " + coqVote(o.V) + ")"
	case "proposal":
		return fmt.Sprintf("(RProposal %s %d %s)", z(o.Round), o.Blk, z(o.Pol))
	case "votelist":
		return "(RVoteList " + coqVotes(o.VL) + ")"
	case "part":
		return fmt.Sprintf("(RPart %d %d)", o.Blk, o.Idx)
	}
	return "RUnknown"
}

func nz(v int) int {
	if v < 0 {
		return 999999 // unknown block key: never equal to a model id
	}
	return v
}

func coqOut(o tout) string {
	switch o.K {
	case "write":
		return fmt.Sprintf("OWrite %s %s", coqWal(o.Wal), coqRec(o))
	case "sync":
		return "OSync " + coqWal(o.Wal)
	case "sendvote":
		return "OSendVote " + coqVote(o.V)
	case "sendproposal":
		return fmt.Sprintf("OSendProposal %s %d %s", z(o.Round), nz(o.Blk), z(o.Pol))
	case "sendpart":
		return fmt.Sprintf("OSendPart %d %d", nz(o.Blk), o.Idx)
	case "sendvl":
		return "OSendVoteList " + coqVotes(o.VL)
	case "import":
		return fmt.Sprintf("OImportReq %d %s %s", nz(o.Blk), hxlib.CoqBool(o.Force), hxlib.CoqBool(o.SynErr))
	case "propose":
		return "OProposeReq " + hxlib.CoqBool(o.SynErr)
	case "finalize":
		return fmt.Sprintf("OFinalize %d", nz(o.Blk))
	}
	return "OUnknown"
}

func coqObs(s *tstate) string {
	if s == nil {
		return "None"
	}
	return fmt.Sprintf("(Some (mkObs %d %s %d %s %s %s %s %s %s %s %s))", s.Status, z(s.Round), s.Step, z(s.LockedRound), optN(s.Locked), z(s.Pol), optN(s.Cur),
		hxlib.CoqBool(s.Complete), hxlib.CoqBool(s.HasBlock), hxlib.CoqBool(s.Validated), hxlib.CoqBool(s.Timer))
}

func coqEvent(e *tevent) string {
	switch e.K {
	case "proposal":
		return fmt.Sprintf("EProposal %s %s %s %s %d", hxlib.CoqBool(e.CurH), z(e.Round), z(e.From), z(e.Pol), nz(e.Blk))
	case "part":
		return fmt.Sprintf("EPart %s %d %d", hxlib.CoqBool(e.CurH), e.Blk, e.Idx)
	case "vote":
		return fmt.Sprintf("EVote %s %s", hxlib.CoqBool(e.V.CurH), coqVote(e.V))
	case "votelist":
		var s []string
		for _, v := range e.VL {
			s = append(s, fmt.Sprintf("(%s, %s)", hxlib.CoqBool(v.CurH), coqVote(v)))
		}
		return "EVoteList " + hxlib.CoqList(s)
	case "timeout":
		return "ETimeout"
	case "proposecb":
		return fmt.Sprintf("EProposeCb %s %s %d", z(e.ReqRound), hxlib.CoqBool(e.OK), e.Blk)
	case "importcb":
		return fmt.Sprintf("EImportCb %s %s", z(e.ReqRound), hxlib.CoqBool(e.OK))
	case "commitcb":
		return fmt.Sprintf("ECommitCb %s %s", z(e.ReqRound), hxlib.CoqBool(e.OK))
	case "crash":
		return fmt.Sprintf("ECrash %d%%nat %d%%nat %d%%nat", e.Keep[0], e.Keep[1], e.Keep[2])
	case "restart":
		return "ERestart"
	}
	return "EUnknown"
}

func coqCase(h *history) string {
	var sb strings.Builder
	fmt.Fprintf(&sb, "(mkCase %d %d [", h.N, h.Own)
	for i, b := range h.Blocks {
		if i > 0 {
			sb.WriteString("; ")
		}
		fmt.Fprintf(&sb, "mkBlk %d %d %s %s %s", b.ID, b.NParts, hxlib.CoqBool(b.Decodable), z(b.Proposer), hxlib.CoqBool(b.ImportErr))
	}
	sb.WriteString("] [")
	for i, e := range h.Events {
		if i > 0 {
			sb.WriteString(";\n  ")
		}
		var outs []string
		for _, o := range e.Outs {
			outs = append(outs, coqOut(o))
		}
		cut := "None"
		if e.Cut >= 0 {
			cut = fmt.Sprintf("(Some %d%%nat)", e.Cut)
		}
		fmt.Fprintf(&sb, "mkEv (%s) %s %s %s %s", coqEvent(e), hxlib.CoqBool(e.Delay), hxlib.CoqList(outs), coqObs(e.Post), cut)
	}
	sb.WriteString("])")
	return sb.String()
}

// ---------------------------------------------------------------- generation

var (
	worldMu sync.Mutex
	worlds  = map[int]*world{}
)

func worldFor(n int) *world {
	worldMu.Lock()
	defer worldMu.Unlock()
	if w := worlds[n]; w != nil {
		return w
	}
	w := newWorld(n)
	worlds[n] = w
	return w
}

func runOne(in histIn) *history {
	if in.Script != nil {
		return runScript(worldFor(in.N), *in.Script)
	}
	return runHistory(worldFor(in.N), in.Own, in.Profile, in.Seed)
}

func plan(c *hxlib.Ctx) []histIn {
	var l []histIn
	// the corpus of fixed histories runs first
	for _, sc := range corpusScripts() {
		sc := sc
		l = append(l, histIn{N: sc.N, Own: sc.Own, Profile: "script:" + sc.Name, Script: &sc})
	}
	add := func(n, count int, profile string) {
		for i := 0; i < count; i++ {
			l = append(l, histIn{N: n, Own: c.Rand.Intn(n), Profile: profile, Seed: c.Rand.Int63()})
		}
	}
	add(4, c.N(22), "mixed")
	add(4, c.N(8), "stalecb")
	add(4, c.N(16), "window")
	add(4, c.N(8), "timeouts")
	add(4, c.N(6), "nocrash")
	add(1, c.N(5), "window")
	add(7, c.N(7), "mixed")
	return l
}

func gen(c *hxlib.Ctx) {
	ins := plan(c)
	res := make([]*history, len(ins))
	// worlds are built up front (serially)
	for _, in := range ins {
		worldFor(in.N)
	}
	var wg sync.WaitGroup
	sem := make(chan struct{}, 10)
	for i := range ins {
		wg.Add(1)
		sem <- struct{}{}
		go func(i int) {
			defer wg.Done()
			defer func() { <-sem }()
			res[i] = runOne(ins[i])
		}(i)
	}
	wg.Wait()
	discards := 0
	var firstGood *history
	for i, h := range res {
		if h.Discard != "" && h.Oracle == "" {
			discards++
			c.Note("history %d discarded: %s", i, h.Discard)
			continue
		}
		own := 0
		for _, e := range h.Events {
			for _, o := range e.Outs {
				if o.K == "sendvote" || o.K == "sendproposal" {
					own++
				}
			}
		}
		kind := fmt.Sprintf("n%d-%s", h.N, h.Profile)
		if h.Crashes > 0 {
			kind += "-crash"
		}
		cs := hxlib.Case{Kind: kind, Input: ins[i], Nontrivial: own > 0 && len(h.Events) >= 6, OracleErr: h.Oracle}
		if !c.OracleOnly {
			cs.Coq = coqCase(h)
		}
		cs.Key = fmt.Sprintf("%d/%d", c.Seed, i)
		c.Emit(cs)
		if firstGood == nil && h.Oracle == "" && own > 1 && len(h.Events) >= 6 {
			firstGood = h
		}
	}
	c.Note("histories=%d discarded=%d", len(res), discards)
	crashes, fused, torn, evs := 0, 0, 0, 0
	for _, h := range res {
		crashes += h.Crashes
		fused += h.Fused
		torn += h.Torn
		evs += len(h.Events)
	}
	c.Note("events=%d crashes=%d (inside an event: %d, torn record in image: %d)", evs, crashes, fused, torn)
	// canaries: a wrong observation the model must flag
	if firstGood != nil && !c.OracleOnly {
		// (1) an emitted own vote with another decision
		h := *firstGood
		h.Events = append([]*tevent(nil), firstGood.Events...)
		done := false
		for i, e := range h.Events {
			for j, o := range e.Outs {
				if o.K == "sendvote" && !done {
					e2 := *e
					e2.Outs = append([]tout(nil), e.Outs...)
					o.V.Dec = len(h.Blocks) // a fabricated id
					if e.Outs[j].V.Dec == o.V.Dec {
						o.V.Dec = 0
					}
					e2.Outs[j] = o
					h.Events[i] = &e2
					done = true
				}
			}
		}
		if done {
			c.Emit(hxlib.Case{Kind: "canary", Canary: true, Coq: coqCase(&h)})
		}
		// (2) a wrong step in an observed state
		h2 := *firstGood
		h2.Events = append([]*tevent(nil), firstGood.Events...)
		for i, e := range h2.Events {
			if e.Post != nil && e.Post.Status == 0 && i > 0 {
				e2 := *e
				p := *e.Post
				p.Step = (p.Step + 1) % 9
				e2.Post = &p
				h2.Events[i] = &e2
				c.Emit(hxlib.Case{Kind: "canary", Canary: true, Coq: coqCase(&h2)})
				break
			}
		}
	}
	for _, w := range worlds {
		w.close()
	}
}

func replay(raw json.RawMessage) string {
	var in histIn
	if err := json.Unmarshal(raw, &in); err != nil {
		return "bad replay input: " + err.Error()
	}
	// timing discards are retried a few times
	for try := 0; try < 4; try++ {
		h := runOne(in)
		if h.Oracle != "" {
			return h.Oracle
		}
		if h.Discard == "" {
			return ""
		}
	}
	return ""
}

var realStderr = os.Stderr

func main() {
	// the fixtures log at trace level into stderr: every logger created from
	// now on writes to /dev/null (runtime panics still reach fd 2)
	if dn, err := os.OpenFile(os.DevNull, os.O_WRONLY, 0); err == nil {
		os.Stderr = dn
	}
	log.GlobalLogger().SetOutput(io.Discard)
	if os.Getenv("C02_PROBE") != "" {
		probe()
		return
	}
	hxlib.Main(hxlib.Spec{
		ID:   "C02",
		Rule: "the fixed histories of corpus/C02 first, then adaptive event histories against one real engine (n=4 mostly, also 1 and 7; own index random): proposals (right/wrong proposer, POL rounds, undecodable and unimportable blocks), block parts in any order, prevote/precommit batches for the block / nil / other ids from subsets of the simulated validators (sizes around the +2/3 boundary), vote lists, duplicates, echoes of own messages, re-votes, other heights, non-validators, real step timers, released/failed block-manager callbacks, and crashes cut at any output of an event (preferably inside write->sync->broadcast of an own message) with WAL images keeping 0..all unsynced bytes incl. exactly one frame header, followed by restart and double crashes; non-trivial = the engine broadcast at least one own vote/proposal and the history has >= 6 events; distinct = distinct (seed, index)",
		Gen:  gen, Replay: replay, Shard: 8,
	})
}
