// history.go — adaptive generation and execution of one event history against
// the engine under test, the direct oracles, and the trace that is printed as
// a Coq case.
package main

import (
	"bytes"
	"encoding/binary"
	"fmt"
	"math/rand"

	"github.com/icon-project/goloop/common/codec"
	"github.com/icon-project/goloop/common/wallet"
	"github.com/icon-project/goloop/consensus"
	"github.com/icon-project/goloop/module"
)

// ---------------------------------------------------------------- trace types

type tvote struct {
	From  int // validator index, -1: not a validator
	Round int32
	Type  int // 0 prevote, 1 precommit
	Dec   int // 0 nil, else block id
	TS    int64
	CurH  bool
}

type tout struct {
	K      string // write sync sendvote sendproposal sendpart sendvl import propose finalize
	Wal    string
	Rec    string // vote proposal votelist part
	V      tvote
	VL     []tvote
	Round  int32
	Blk    int
	Pol    int32
	Idx    int
	Force  bool
	SynErr bool
}

type tstate struct {
	Status      int // 0 running, 1 down, 2 decided
	Round       int32
	Step        int
	LockedRound int32
	Locked      int
	Pol         int32
	Cur         int
	Complete    bool
	HasBlock    bool
	Validated   bool
	Timer       bool
}

type tevent struct {
	K        string // proposal part vote votelist timeout proposecb importcb commitcb crash restart
	CurH     bool
	Round    int32
	From     int
	Pol      int32
	Blk      int
	Idx      int
	V        tvote
	VL       []tvote
	OK       bool
	ReqRound int32
	Keep     [3]int
	Delay    bool
	Outs     []tout
	Post     *tstate
	Cut      int // -1: no crash follows; else number of outputs that happened before the crash
	Note     string
}

type sentMsg struct {
	Proto  module.ProtocolInfo
	Bytes  []byte
	H      int64
	Round  int32
	Type   int // vote type; -1 proposal
	Inc    int
	EvIdx  int
	Signer bool // signed by the engine's key
}

type history struct {
	N, Own  int
	Profile string
	Events  []*tevent
	Blocks  []*blockInfo
	Oracle  string
	Discard string
	Crashes int
	Fused   int // crashes that cut inside an event
	Torn    int // crash images with a torn record
	Panic   string
}

// ---------------------------------------------------------------- executor

type exec struct {
	r    *runner
	rnd  *rand.Rand
	h    *history
	sent []sentMsg
	// everything delivered so far (for duplicates) as closures
	redo []func() *tevent
	// votes delivered (for the C01 finalize oracle): round -> blk -> set of validators
	pcs map[int32]map[int]map[int]bool
	// prevotes known to the engine's world: round -> decision (0 nil) -> validators
	pvs map[int32]map[int]map[int]bool
	// own non-nil precommits really sent: (round, block)
	ownPC    [][2]int
	cfg      genCfg
	lastOuts int  // recorder index where the last event's outputs start
	pending  bool // the last event's outputs are neither committed nor cut yet
	nextTS   int64
	maxRound int32
}

func (x *exec) blk(id int) *blockInfo {
	if id <= 0 || id > len(x.r.blocks) {
		return nil
	}
	return x.r.blocks[id-1]
}

func (x *exec) idOfKey(key string) int {
	if key == "" {
		return 0
	}
	if b := x.r.byKey[key]; b != nil {
		return b.ID
	}
	return -1
}

func (x *exec) obs(st consensus.VerifState) *tstate {
	ts := &tstate{Round: st.Round, Step: st.Step, LockedRound: st.LockedRound, Locked: x.idOfKey(st.LockedID), Pol: st.POLRound,
		Cur: x.idOfKey(st.CurID), Complete: st.CurComplete, HasBlock: st.CurHasBlock, Validated: st.CurValidated, Timer: st.Timer != nil}
	if st.Height != 1 {
		ts.Status = 2
	}
	return ts
}

func (x *exec) voteOf(vm *consensus.VoteMessage) tvote {
	v := tvote{From: -1, Round: vm.Round, Type: int(vm.Type), CurH: vm.Height == 1, TS: vm.Timestamp - 1000}
	a := consensus.VerifSigner(vm)
	for i, w := range x.r.w.wallets {
		if a != nil && w.Address().Equal(a) {
			v.From = i
		}
	}
	if v.From == x.r.own {
		v.TS = 0
	}
	if vm.BlockPartSetIDAndNTSVoteCount != nil {
		v.Dec = x.idOfKey(consensus.VerifPSIDKey(vm.BlockPartSetIDAndNTSVoteCount.ID()))
	}
	return v
}

// decode one recorder entry into a trace output; also feeds the direct oracles
func (x *exec) decodeOut(o outRec, idx int, evIdx int) (tout, bool) {
	switch o.Kind {
	case oWalSync:
		return tout{K: "sync", Wal: o.Wal}, true
	case oWalWrite:
		t := tout{K: "write", Wal: o.Wal}
		if len(o.Payload) < 2 {
			x.fail("WAL record shorter than 2 bytes")
			return t, false
		}
		sp := binary.BigEndian.Uint16(o.Payload[:2])
		m, err := consensus.UnmarshalMessage(sp, o.Payload[2:])
		if err != nil {
			x.fail("WAL record does not decode: " + err.Error())
			return t, false
		}
		x.fillMsg(&t, m)
		t.Rec = t.K2()
		return t, true
	case oBcast:
		m, err := consensus.UnmarshalMessage(o.Proto.Uint16(), o.Payload)
		if err != nil {
			x.fail("broadcast does not decode: " + err.Error())
			return tout{}, false
		}
		t := tout{}
		x.fillMsg(&t, m)
		switch m.(type) {
		case *consensus.VoteMessage:
			t.K = "sendvote"
		case *consensus.ProposalMessage:
			t.K = "sendproposal"
		case *consensus.BlockPartMessage:
			t.K = "sendpart"
		case *consensus.VoteListMessage:
			t.K = "sendvl"
		default:
			return t, false
		}
		return t, true
	case oImport:
		return tout{K: "import", Blk: x.idOfKey(o.BlkKey), Force: o.Flags&module.ImportByForce != 0, SynErr: o.SyncErr, Round: o.Round}, true
	case oPropose:
		return tout{K: "propose", Round: o.Round, SynErr: o.SyncErr}, true
	case oFinalize:
		return tout{K: "finalize", Blk: x.idOfKey(o.BlkKey)}, true
	}
	return tout{}, false
}

func (t *tout) K2() string { return t.Rec }

func (x *exec) fillMsg(t *tout, m consensus.Message) {
	switch mm := m.(type) {
	case *consensus.VoteMessage:
		t.Rec = "vote"
		t.V = x.voteOf(mm)
	case *consensus.ProposalMessage:
		t.Rec = "proposal"
		t.Round = mm.Round
		t.Pol = mm.POLRound
		t.Blk = x.idOfKey(consensus.VerifPSIDKey(mm.BlockPartSetID))
	case *consensus.VoteListMessage:
		t.Rec = "votelist"
		if mm.VoteList != nil {
			for i := 0; i < mm.VoteList.Len(); i++ {
				t.VL = append(t.VL, x.voteOf(mm.VoteList.Get(i)))
			}
		}
	case *consensus.BlockPartMessage:
		t.Rec = "part"
		if bi, ok := x.r.byPart[string(mm.BlockPart)]; ok {
			t.Blk, t.Idx = bi[0], bi[1]
		} else {
			t.Blk = -1
		}
	}
}

func (x *exec) fail(msg string) {
	if x.h.Oracle == "" {
		x.h.Oracle = msg
	}
}

// collect turns the recorder entries [from,to) into the outputs of event ev,
// and runs the direct oracles on them:
//
//	(ii) a vote/proposal is broadcast only when its bytes are in the synced
//	     prefix of the round WAL of this incarnation.
func (x *exec) collect(ev *tevent, from, to int, evIdx int) {
	outs := x.r.rec.slice(0, to)
	for i := from; i < to; i++ {
		o := outs[i]
		t, ok := x.decodeOut(o, i, evIdx)
		if !ok {
			t.K = "unknown"
		}
		ev.Outs = append(ev.Outs, t)
		if o.Kind == oFinalize {
			// what follows belongs to the next height (its timers run already)
			break
		}
		if o.Kind == oBcast && (o.Proto == consensus.ProtoVote || o.Proto == consensus.ProtoProposal) {
			// durably remembered before sent
			want := append(be16(o.Proto.Uint16()), o.Payload...)
			durable := false
			wrote := false
			for j := 0; j < i; j++ {
				p := outs[j]
				if p.Inc != o.Inc || p.Wal != "round" {
					continue
				}
				if p.Kind == oWalWrite && bytes.Equal(p.Payload, want) {
					wrote = true
				}
				if p.Kind == oWalSync && wrote {
					durable = true
				}
			}
			if !durable {
				x.fail(fmt.Sprintf("not durable before sent: event %d (%s) broadcast a %s for round %d that was not in the synced prefix of the round WAL (written=%v)", evIdx, ev.K, t.K, t.V.Round+t.Round, wrote))
			}
		}
	}
}

// registerSent records the broadcasts of recorder range [from,to) as really
// sent (the crash cut has been applied by the caller).
func (x *exec) registerSent(from, to int, evIdx int) {
	outs := x.r.rec.slice(from, to)
	for _, o := range outs {
		if o.Kind == oWalWrite && o.Wal == "round" && len(o.Payload) >= 2 {
			// a vote this validator signed and logged EXISTS even if the crash cut
			// comes before its broadcast: the restarted engine restores it from the
			// round WAL and counts it (quorum oracles must count it as well)
			if m, err := consensus.UnmarshalMessage(binary.BigEndian.Uint16(o.Payload[:2]), o.Payload[2:]); err == nil {
				if vm, ok := m.(*consensus.VoteMessage); ok && vm.Height == 1 {
					if a := consensus.VerifSigner(vm); a != nil && a.Equal(x.r.w.wallets[x.r.own].Address()) {
						dec := 0
						if vm.BlockPartSetIDAndNTSVoteCount != nil {
							dec = x.idOfKey(consensus.VerifPSIDKey(vm.BlockPartSetIDAndNTSVoteCount.ID()))
						}
						if vm.Type == consensus.VoteTypePrecommit && dec != 0 {
							x.notePC(vm.Round, dec, x.r.own)
						}
						if vm.Type == consensus.VoteTypePrevote {
							x.notePV(vm.Round, dec, x.r.own)
						}
					}
				}
			}
			continue
		}
		if o.Kind != oBcast {
			continue
		}
		m, err := consensus.UnmarshalMessage(o.Proto.Uint16(), o.Payload)
		if err != nil {
			continue
		}
		a := consensus.VerifSigner(m)
		mine := a != nil && a.Equal(x.r.w.wallets[x.r.own].Address())
		switch mm := m.(type) {
		case *consensus.VoteMessage:
			x.sent = append(x.sent, sentMsg{o.Proto, o.Payload, mm.Height, mm.Round, int(mm.Type), o.Inc, evIdx, mine})
			dec := 0
			if mm.BlockPartSetIDAndNTSVoteCount != nil {
				dec = x.idOfKey(consensus.VerifPSIDKey(mm.BlockPartSetIDAndNTSVoteCount.ID()))
			}
			if mine && mm.Type == consensus.VoteTypePrecommit && mm.Height == 1 && dec != 0 {
				x.notePC(mm.Round, dec, x.r.own)
				x.ownPC = append(x.ownPC, [2]int{int(mm.Round), dec})
			}
			if mine && mm.Type == consensus.VoteTypePrevote && mm.Height == 1 {
				x.checkLock(mm.Round, dec, evIdx)
				x.notePV(mm.Round, dec, x.r.own)
			}
		case *consensus.ProposalMessage:
			x.sent = append(x.sent, sentMsg{o.Proto, o.Payload, mm.Height, mm.Round, -1, o.Inc, evIdx, mine})
		}
	}
}

func (x *exec) notePC(round int32, blk int, from int) {
	if x.pcs[round] == nil {
		x.pcs[round] = map[int]map[int]bool{}
	}
	if x.pcs[round][blk] == nil {
		x.pcs[round][blk] = map[int]bool{}
	}
	x.pcs[round][blk][from] = true
}

// oracle (i): no two different signed messages for the same (height, round, type)
func (x *exec) checkEquivocation() {
	type key struct {
		h int64
		r int32
		t int
	}
	seen := map[key]sentMsg{}
	for _, s := range x.sent {
		if !s.Signer {
			x.fail(fmt.Sprintf("engine broadcast a vote/proposal it did not sign (event %d)", s.EvIdx))
			continue
		}
		k := key{s.H, s.Round, s.Type}
		if p, ok := seen[k]; ok {
			if !bytes.Equal(p.Bytes, s.Bytes) {
				what := "proposals"
				if s.Type >= 0 {
					what = []string{"prevotes", "precommits"}[s.Type]
				}
				x.fail(fmt.Sprintf("equivocation: two different signed %s for height %d round %d (sent in event %d by incarnation %d and in event %d by incarnation %d)", what, s.H, s.Round, p.EvIdx, p.Inc, s.EvIdx, s.Inc))
			}
		} else {
			seen[k] = s
		}
	}
}

// C01 node-level oracle: Finalize only with +2/3 precommits for the block in one round
func (x *exec) checkFinalize(ev *tevent) {
	for i, o := range ev.Outs {
		if o.K != "finalize" {
			continue
		}
		// voters per round for this block: delivered precommits, own precommits
		// really sent earlier, own precommits sent earlier in this very event
		tally := map[int32]map[int]bool{}
		for r, m := range x.pcs {
			for v := range m[o.Blk] {
				if tally[r] == nil {
					tally[r] = map[int]bool{}
				}
				tally[r][v] = true
			}
		}
		for _, p := range ev.Outs[:i] {
			if p.K == "sendvote" && p.V.Type == 1 && p.V.Dec == o.Blk {
				if tally[p.V.Round] == nil {
					tally[p.V.Round] = map[int]bool{}
				}
				tally[p.V.Round][x.r.own] = true
			}
		}
		ok := false
		for _, m := range tally {
			if len(m)*3 > 2*x.h.N {
				ok = true
			}
		}
		if !ok {
			x.fail(fmt.Sprintf("finalized block %d without +2/3 precommits for it in one round among the delivered and own votes", o.Blk))
		}
	}
}

// ---------------------------------------------------------------- running events

// run executes one event given as a closure that talks to the engine and
// returns (state, panic); it fills outputs and post state.
func (x *exec) run(ev *tevent, f func() (consensus.VerifState, string)) {
	from := x.r.rec.len()
	x.lastOuts = from
	x.pending = true
	st, p := f()
	to := x.r.rec.len()
	evIdx := len(x.h.Events)
	ev.Cut = -1
	x.collect(ev, from, to, evIdx)
	if p != "" {
		x.h.Panic = p
		x.fail(fmt.Sprintf("panic in event %d (%s): %s", evIdx, ev.K, p))
	} else {
		ev.Post = x.obs(st)
		if ev.Post.Step == 2 && ev.Post.Timer {
			ev.Delay = true
		}
	}
	x.h.Events = append(x.h.Events, ev)
	x.checkFinalize(ev)
	for _, o := range ev.Outs {
		if o.K == "finalize" {
			x.r.finalized = true
		}
	}
	if ev.Post != nil && ev.Post.Round > x.maxRound {
		x.maxRound = ev.Post.Round
	}
}

// commit the outputs of the last event as having happened (no crash cut)
func (x *exec) commitLast() {
	if !x.pending {
		return
	}
	x.pending = false
	x.registerSent(x.lastOuts, x.r.rec.len(), len(x.h.Events)-1)
	x.lastOuts = x.r.rec.len()
}

func (x *exec) evStart() *tevent {
	ev := &tevent{K: "restart"}
	var msg string
	x.run(ev, func() (consensus.VerifState, string) {
		msg = x.r.start()
		if msg != "" {
			return consensus.VerifState{}, msg
		}
		return x.r.state(), ""
	})
	return ev
}

func (x *exec) evVote(v tvote) *tevent {
	ev := &tevent{K: "vote", V: v, CurH: v.CurH}
	bs := x.voteBytesOf(v)
	x.noteDelivered(v)
	x.run(ev, func() (consensus.VerifState, string) { return x.r.deliver(consensus.ProtoVote, bs) })
	return ev
}

func (x *exec) noteDelivered(v tvote) {
	if v.CurH && v.From >= 0 && v.Type == 1 && v.Dec > 0 {
		x.notePC(v.Round, v.Dec, v.From)
	}
	if v.CurH && v.From >= 0 && v.Type == 0 {
		x.notePV(v.Round, v.Dec, v.From)
	}
}

func (x *exec) notePV(round int32, dec int, from int) {
	if x.pvs[round] == nil {
		x.pvs[round] = map[int]map[int]bool{}
	}
	if x.pvs[round][dec] == nil {
		x.pvs[round][dec] = map[int]bool{}
	}
	x.pvs[round][dec][from] = true
}

// C01 node-level oracle (lock discipline): after precommitting block B in
// round r the validator prevotes, in a later round, something else only if a
// polka for something else exists at a round above r among the prevotes that
// were delivered to it or that it sent itself.
func (x *exec) checkLock(round int32, dec int, evIdx int) {
	lr, lb := int32(-1), 0
	for _, pc := range x.ownPC {
		if int32(pc[0]) < round && int32(pc[0]) > lr {
			lr, lb = int32(pc[0]), pc[1]
		}
	}
	if lb == 0 || dec == lb {
		return
	}
	for r, m := range x.pvs {
		if r <= lr {
			continue
		}
		for d, voters := range m {
			if d != lb && len(voters)*3 > 2*x.h.N {
				return
			}
		}
	}
	x.fail(fmt.Sprintf("lock discipline: precommitted block %d in round %d, then prevoted %d in round %d (event %d) without a polka for anything else above round %d", lb, lr, dec, round, evIdx, lr))
}

func (x *exec) heightOf(cur bool) int64 {
	if cur {
		return 1
	}
	return 2
}

func (x *exec) walletOf(from int) module.Wallet {
	if from >= 0 {
		return x.r.w.wallets[from]
	}
	return outsider
}

var outsider = wallet.New()

func (x *exec) voteMsgOf(v tvote) *consensus.VoteMessage {
	var b *blockInfo
	if v.Dec > 0 {
		b = x.blk(v.Dec)
	}
	w := x.walletOf(v.From)
	if b == nil {
		return consensus.NewVoteMessage(w, consensus.VoteType(v.Type), x.heightOf(v.CurH), v.Round, x.r.w.nid, nil, 1000+v.TS, nil, nil, 0)
	}
	return consensus.NewVoteMessage(w, consensus.VoteType(v.Type), x.heightOf(v.CurH), v.Round, b.BlockID, b.PSID, 1000+v.TS, nil, nil, 0)
}

func (x *exec) voteBytesOf(v tvote) []byte {
	return mustMarshal(x.voteMsgOf(v))
}

func (x *exec) evVoteList(vl []tvote) *tevent {
	ev := &tevent{K: "votelist", VL: vl}
	l := consensus.NewVoteList()
	for _, v := range vl {
		l.AddVote(x.voteMsgOf(v))
	}
	bs := mustMarshal(&consensus.VoteListMessage{VoteList: l})
	for _, v := range vl {
		x.noteDelivered(v)
	}
	x.run(ev, func() (consensus.VerifState, string) { return x.r.deliver(consensus.ProtoVoteList, bs) })
	return ev
}

func (x *exec) evProposal(curh bool, round int32, from int, pol int32, b *blockInfo) *tevent {
	ev := &tevent{K: "proposal", CurH: curh, Round: round, From: from, Pol: pol, Blk: b.ID}
	bs := x.r.proposalBytes(x.walletOf(from), x.heightOf(curh), round, pol, b)
	x.run(ev, func() (consensus.VerifState, string) { return x.r.deliver(consensus.ProtoProposal, bs) })
	return ev
}

func (x *exec) evPart(curh bool, b *blockInfo, idx int) *tevent {
	ev := &tevent{K: "part", CurH: curh, Blk: b.ID, Idx: idx}
	bs := partBytes(x.heightOf(curh), idx, b.Parts[idx])
	x.run(ev, func() (consensus.VerifState, string) { return x.r.deliver(consensus.ProtoBlockPart, bs) })
	return ev
}

func (x *exec) evTimeout() *tevent {
	ev := &tevent{K: "timeout"}
	fired := false
	x.run(ev, func() (consensus.VerifState, string) {
		st, ok := x.r.waitTimeout()
		fired = ok
		return st, ""
	})
	if !fired {
		ev.Note = "nofire"
		x.r.discard = "an armed timer did not fire"
	}
	return ev
}

func (x *exec) evCallback(q *bmReq, fail bool) *tevent {
	ev := &tevent{ReqRound: q.round}
	x.r.bmu.Lock()
	okRes := q.err == nil && !fail
	var nb *blockInfo
	if q.propose {
		ev.K = "proposecb"
		if q.err == nil && q.blk != nil {
			// the engine's own block: enters the block table now
			ps := partsOf(q.blk, false)
			nb = &blockInfo{ID: len(x.r.blocks) + 1, Key: consensus.VerifPSIDKey(ps.ID()), BlockID: q.blk.ID(), PSID: ps.ID(), NParts: ps.Parts(),
				Decodable: true, Proposer: x.r.own, TS: q.blk.Timestamp(), Own: true}
			for i := 0; i < ps.Parts(); i++ {
				nb.Parts = append(nb.Parts, ps.GetPart(i).Bytes())
			}
		}
	} else if q.flags&module.ImportByForce != 0 {
		ev.K = "commitcb"
	} else {
		ev.K = "importcb"
	}
	x.r.bmu.Unlock()
	if nb != nil {
		if old := x.r.byKey[nb.Key]; old != nil {
			nb = old
		} else {
			x.r.addBlockInfo(nb)
		}
		ev.Blk = nb.ID
	}
	ev.OK = okRes
	x.run(ev, func() (consensus.VerifState, string) { return x.r.release(q, fail) })
	return ev
}

// crashAndRestart cuts the last event at `cut` outputs (relative to the
// event), builds the image and restarts.
func (x *exec) crashAndRestart(cutRel int, sp crashSpec) {
	last := x.h.Events[len(x.h.Events)-1]
	cutAbs := x.lastOuts + cutRel
	last.Cut = cutRel
	x.pending = false
	if cutRel < len(last.Outs) {
		x.h.Fused++
	}
	x.registerSent(x.lastOuts, cutAbs, len(x.h.Events)-1)
	res := x.r.crash(cutAbs, sp)
	// what was emitted after the cut never happened: it is removed from the
	// recorder so that later indices stay consistent
	x.r.rec.mu.Lock()
	x.r.rec.outs = x.r.rec.outs[:cutAbs]
	x.r.rec.mu.Unlock()
	x.lastOuts = cutAbs
	x.h.Crashes++
	cev := &tevent{K: "crash", Cut: -1, Note: res.Info}
	cev.Keep = [3]int{res.Keep["round"], res.Keep["lock"], res.Keep["commit"]}
	cev.Post = &tstate{Status: 1}
	x.h.Events = append(x.h.Events, cev)
	if res.Torn {
		x.h.Torn++
	}
	x.evStart()
}

func mustMarshal(v interface{}) []byte {
	bs, err := codec.BC.MarshalToBytes(v)
	must(err)
	return bs
}

// ---------------------------------------------------------------- generation

func (x *exec) others() []int {
	var l []int
	for i := 0; i < x.h.N; i++ {
		if i != x.r.own {
			l = append(l, i)
		}
	}
	return l
}

func (x *exec) proposerOf(round int32) int { return int((1 + int64(round)) % int64(x.h.N)) }

func (x *exec) pickRound(st *tstate) int32 {
	maxR := int32(2 * x.h.N)
	r := st.Round
	if x.rnd.Intn(1000) < x.cfg.JumpP && r < maxR {
		return r + 1
	}
	switch k := x.rnd.Intn(20); {
	case k < 13:
	case k < 16:
		r++
	case k < 17:
		r += 2
	case k < 19:
		if r > 0 {
			r--
		}
	default:
		r = int32(x.rnd.Intn(int(st.Round) + 3))
	}
	if r > maxR {
		r = maxR
	}
	if r < 0 {
		r = 0
	}
	return r
}

// goodBlocks: decodable blocks that import fine
func (x *exec) pickBlock(st *tstate, round int32) *blockInfo {
	var byProp, good, all []*blockInfo
	p := x.proposerOf(round)
	for _, b := range x.r.blocks {
		all = append(all, b)
		if b.Decodable && !b.ImportErr && b.Parts != nil {
			good = append(good, b)
			if b.Proposer == p {
				byProp = append(byProp, b)
			}
		}
	}
	k := x.rnd.Intn(20)
	if k < 14 && len(byProp) > 0 {
		return byProp[x.rnd.Intn(len(byProp))]
	}
	if k < 17 && len(good) > 0 {
		return good[x.rnd.Intn(len(good))]
	}
	// anything that has data
	for tries := 0; tries < 20; tries++ {
		b := all[x.rnd.Intn(len(all))]
		if b.Parts != nil {
			return b
		}
	}
	return good[0]
}

func (x *exec) bad(b *blockInfo) bool {
	return b != nil && (!b.Decodable || b.ImportErr) && b.Parts != nil
}

// pickDecision for votes: 0 = nil
func (x *exec) pickDecision(st *tstate) int {
	k := x.rnd.Intn(20)
	switch {
	case k < 9 && st.Cur > 0:
		return st.Cur
	case k < 11 && st.Locked > 0:
		return st.Locked
	case k < 15:
		return 0
	case k < 18:
		return x.pickBlock(st, st.Round).ID
	default:
		// fabricated id (last two of the world's pool)
		return len(x.r.w.pool) - x.rnd.Intn(2)
	}
}

func (x *exec) curState() *tstate {
	if x.r.down || x.r.eng == nil {
		return &tstate{Status: 1}
	}
	return x.obs(x.r.state())
}

// voteBatch builds votes of one type/round/decision from a subset of the simulated validators
func (x *exec) voteBatch(st *tstate) []tvote {
	typ := x.rnd.Intn(2)
	round := x.pickRound(st)
	dec := x.pickDecision(st)
	oth := x.others()
	if len(oth) == 0 {
		return nil
	}
	x.rnd.Shuffle(len(oth), func(i, j int) { oth[i], oth[j] = oth[j], oth[i] })
	n := x.h.N
	quorum := 2*n/3 + 1 // votes needed for +2/3
	var k int
	switch x.rnd.Intn(6) {
	case 0:
		k = 1
	case 1:
		k = quorum - 1 // with the engine's own vote: exactly +2/3
	case 2, 3:
		k = quorum
	case 4:
		k = len(oth)
	default:
		k = 1 + x.rnd.Intn(len(oth))
	}
	if k > len(oth) {
		k = len(oth)
	}
	if k < 1 {
		k = 1
	}
	if b := x.blk(dec); x.bad(b) {
		// a quorum for a block nobody can build only exists with > 1/3 Byzantine
		// validators; the engine panics there by design ("consider node upgrade")
		if k > (n-1)/3 {
			k = (n - 1) / 3
		}
		if k == 0 {
			dec = 0
			k = 1
		}
	}
	ts := int64(1)
	if x.rnd.Intn(12) == 0 {
		ts = 2 + int64(x.rnd.Intn(2))
	}
	var l []tvote
	for _, i := range oth[:k] {
		l = append(l, tvote{From: i, Round: round, Type: typ, Dec: dec, TS: ts, CurH: true})
	}
	// occasionally one voter deviates
	if len(l) > 1 && x.rnd.Intn(8) == 0 {
		l[len(l)-1].Dec = 0
	}
	return l
}

type genCfg struct {
	Len        int
	CrashP     int // per mille per event
	WindowP    int // per mille: crash inside the event when it wrote an own message
	DoubleP    int
	TimeoutP   int
	HeaderCutP int
	HoldP      int // per mille: a finished block-manager callback is delayed for several events
	JumpP      int // per mille: vote batches go to the next round
}

func (x *exec) lastWroteOwn() (int, bool) {
	// index (relative) just after the first round-WAL write of an own vote/proposal in the last event
	last := x.h.Events[len(x.h.Events)-1]
	for i, o := range last.Outs {
		if o.K == "write" && o.Wal == "round" && (o.Rec == "proposal" || (o.Rec == "vote" && o.V.From == x.r.own)) {
			return i, true
		}
	}
	return 0, false
}

func (x *exec) randomCrashSpec(cfg genCfg) crashSpec {
	sp := crashSpec{Frac: map[string]int{}, Mode: map[string]int{}}
	for _, w := range []string{"round", "lock", "commit"} {
		sp.Frac[w] = x.rnd.Intn(1001)
		switch k := x.rnd.Intn(1000); {
		case k < cfg.HeaderCutP:
			sp.Mode[w] = 1
		case k < cfg.HeaderCutP+200:
			sp.Mode[w] = 2
		case k < cfg.HeaderCutP+400:
			sp.Mode[w] = 3
		}
	}
	return sp
}

func (x *exec) maybeCrash(cfg genCfg) bool {
	if x.r.down || x.r.finalized || x.h.Panic != "" || x.h.Oracle != "" || !x.pending {
		return false
	}
	last := x.h.Events[len(x.h.Events)-1]
	if last.K == "crash" {
		return false
	}
	for _, o := range last.Outs {
		if o.K == "finalize" {
			return false
		}
	}
	p := cfg.CrashP
	at, wrote := x.lastWroteOwn()
	if wrote {
		p += cfg.WindowP
	}
	if last.K == "restart" && x.h.Crashes > 0 {
		p = cfg.DoubleP
		if len(last.Outs) == 0 {
			p = 40
		}
	}
	if x.rnd.Intn(1000) >= p {
		return false
	}
	cut := len(last.Outs)
	if len(last.Outs) > 0 && x.rnd.Intn(3) > 0 {
		if wrote && x.rnd.Intn(3) > 0 {
			// inside the window write -> sync -> broadcast of the own message
			cut = at + x.rnd.Intn(4)
			if cut > len(last.Outs) {
				cut = len(last.Outs)
			}
		} else {
			cut = x.rnd.Intn(len(last.Outs) + 1)
		}
	}
	x.crashAndRestart(cut, x.randomCrashSpec(cfg))
	return true
}

// step performs one generated action; false when nothing more can be done
func (x *exec) step(cfg genCfg) bool {
	if x.r.finalized || x.h.Panic != "" || x.r.discard != "" || x.r.harnessErr != "" {
		return false
	}
	st := x.curState()
	if st.Status != 0 {
		return false
	}
	// an armed timer that is close must be awaited first
	if x.r.timerClose() {
		x.evTimeout()
		return true
	}
	// the callback goroutine of a finished Propose/ImportBlock may be delayed:
	// about a third of the callbacks are held back for several events (round
	// changes, timeouts and late proposals can happen in between)
	var pend []*bmReq
	for _, q := range x.r.pendingReqs() {
		if !q.holdSet {
			q.holdSet = true
			if x.rnd.Intn(1000) < x.cfg.HoldP {
				q.holdUntil = len(x.h.Events) + 2 + x.rnd.Intn(8)
			}
		}
		if q.holdUntil <= len(x.h.Events) {
			pend = append(pend, q)
		}
	}
	// a stale callback (requested in an earlier round) is most interesting while
	// the engine sits in prevote / prevote-wait of a later round
	if (st.Step == 4 || st.Step == 5) && x.rnd.Intn(2) == 0 {
		for _, q := range x.r.pendingReqs() {
			if !q.propose && q.flags&module.ImportByForce == 0 && q.round < st.Round {
				x.evCallback(q, x.rnd.Intn(5) == 0)
				return true
			}
		}
	}
	k := x.rnd.Intn(1000)
	switch {
	case len(pend) > 0 && k < 550:
		q := pend[x.rnd.Intn(len(pend))]
		// a failed forced import (commit) is a designed panic: not injected
		x.evCallback(q, x.rnd.Intn(7) == 0 && q.flags&module.ImportByForce == 0)
	case st.Timer && k < 550+cfg.TimeoutP:
		x.evTimeout()
	case k < 700:
		x.genVotes(st)
	case k < 870:
		x.genProposal(st)
	case k < 920:
		x.genPart(st)
	case k < 960:
		x.genEcho(st)
	default:
		x.genOdd(st)
	}
	return true
}

func (x *exec) genVotes(st *tstate) {
	l := x.voteBatch(st)
	if len(l) == 0 {
		x.evVote(tvote{From: -1, Round: st.Round, Type: x.rnd.Intn(2), Dec: 0, TS: 1, CurH: true})
		return
	}
	if len(l) > 1 && x.rnd.Intn(2) == 0 {
		x.evVoteList(l)
		return
	}
	// individual votes: only the first is guaranteed to be delivered now; the
	// rest follow as separate steps unless the history is cut short
	for i, v := range l {
		if i > 0 {
			x.commitLast()
			if x.r.finalized || x.h.Panic != "" || x.r.timerClose() || x.r.discard != "" {
				return
			}
		}
		x.evVote(v)
	}
}

func (x *exec) genProposal(st *tstate) {
	round := st.Round
	if x.rnd.Intn(8) == 0 {
		round = x.pickRound(st)
	}
	if x.h.N == 1 {
		x.evVote(tvote{From: -1, Round: st.Round, Type: x.rnd.Intn(2), Dec: 0, TS: 1, CurH: true})
		return
	}
	b := x.pickBlock(st, round)
	from := x.proposerOf(round)
	if from == x.r.own {
		// the engine proposes itself in this round; an outside proposal needs another sender
		from = x.others()[0]
	}
	switch x.rnd.Intn(14) {
	case 0:
		from = x.others()[x.rnd.Intn(len(x.others()))]
	case 1:
		from = -1
	}
	pol := int32(-1)
	if round > 0 {
		switch x.rnd.Intn(8) {
		case 0:
			pol = int32(x.rnd.Intn(int(round)))
		case 1:
			if st.LockedRound >= 0 && st.LockedRound < round {
				pol = st.LockedRound
			}
		}
	}
	partsFirst := x.rnd.Intn(6) == 0
	order := x.rnd.Perm(len(b.Parts))
	deliverParts := func() {
		for _, i := range order {
			if x.r.finalized || x.h.Panic != "" || x.r.timerClose() || x.r.discard != "" {
				return
			}
			x.commitLast()
			x.evPart(true, b, i)
		}
	}
	if partsFirst {
		for _, i := range order {
			x.evPart(true, b, i)
			x.commitLast()
		}
		x.evProposal(x.rnd.Intn(25) != 0, round, from, pol, b)
		return
	}
	x.evProposal(x.rnd.Intn(25) != 0, round, from, pol, b)
	if x.rnd.Intn(5) != 0 {
		deliverParts()
	}
}

func (x *exec) genPart(st *tstate) {
	var b *blockInfo
	if st.Cur > 0 && x.rnd.Intn(3) > 0 {
		b = x.blk(st.Cur)
	} else {
		b = x.pickBlock(st, st.Round)
	}
	if b == nil || b.Parts == nil {
		return
	}
	x.evPart(x.rnd.Intn(15) != 0, b, x.rnd.Intn(len(b.Parts)))
}

// genEcho re-delivers one of the engine's own really-sent messages
func (x *exec) genEcho(st *tstate) {
	if len(x.sent) == 0 {
		x.genVotes(st)
		return
	}
	s := x.sent[x.rnd.Intn(len(x.sent))]
	m, err := consensus.UnmarshalMessage(s.Proto.Uint16(), s.Bytes)
	if err != nil {
		return
	}
	switch mm := m.(type) {
	case *consensus.VoteMessage:
		v := x.voteOf(mm)
		ev := &tevent{K: "vote", V: v, CurH: v.CurH}
		x.run(ev, func() (consensus.VerifState, string) { return x.r.deliver(consensus.ProtoVote, s.Bytes) })
	case *consensus.ProposalMessage:
		ev := &tevent{K: "proposal", CurH: mm.Height == 1, Round: mm.Round, From: x.r.own, Pol: mm.POLRound, Blk: x.idOfKey(consensus.VerifPSIDKey(mm.BlockPartSetID))}
		x.run(ev, func() (consensus.VerifState, string) { return x.r.deliver(consensus.ProtoProposal, s.Bytes) })
	}
}

// genOdd: messages a correct peer would not send
func (x *exec) genOdd(st *tstate) {
	switch x.rnd.Intn(4) {
	case 0: // vote of another height
		x.evVote(tvote{From: x.others0(), Round: st.Round, Type: x.rnd.Intn(2), Dec: 0, TS: 1, CurH: false})
	case 1: // vote of a non-validator
		x.evVote(tvote{From: -1, Round: st.Round, Type: x.rnd.Intn(2), Dec: x.pickDecision(st), TS: 1, CurH: true})
	case 2: // a validator changes its mind (conflicting vote)
		v := tvote{From: x.others0(), Round: st.Round, Type: x.rnd.Intn(2), Dec: x.pickDecision(st), TS: 5, CurH: true}
		if b := x.blk(v.Dec); x.bad(b) {
			v.Dec = 0
		}
		x.evVote(v)
	default: // proposal with an impossible POL round is rejected by Verify
		if x.h.N > 1 {
			b := x.pickBlock(st, st.Round)
			from := x.proposerOf(st.Round)
			if from == x.r.own {
				from = x.others0()
			}
			x.evProposal(true, st.Round, from, st.Round+int32(x.rnd.Intn(2)), b)
		}
	}
}

func (x *exec) others0() int {
	o := x.others()
	if len(o) == 0 {
		return -1
	}
	return o[x.rnd.Intn(len(o))]
}

// runHistory executes one adaptive history.
func runHistory(w *world, own int, profile string, seed int64) *history {
	rnd := rand.New(rand.NewSource(seed))
	r := newRunner(w, own)
	defer r.close()
	h := &history{N: w.n, Own: own, Profile: profile}
	x := &exec{r: r, rnd: rnd, h: h, pcs: map[int32]map[int]map[int]bool{}, pvs: map[int32]map[int]map[int]bool{}}
	cfg := genCfg{Len: 10 + rnd.Intn(14), CrashP: 60, WindowP: 250, DoubleP: 200, TimeoutP: 120, HeaderCutP: 250, HoldP: 330}
	switch profile {
	case "stalecb":
		// delayed callbacks across round changes, few crashes
		cfg.HoldP, cfg.JumpP, cfg.CrashP, cfg.WindowP, cfg.TimeoutP = 900, 350, 20, 60, 250
	case "nocrash":
		cfg.CrashP, cfg.WindowP, cfg.DoubleP = 0, 0, 0
	case "window":
		cfg.WindowP, cfg.DoubleP, cfg.HeaderCutP = 600, 500, 500
	case "timeouts":
		cfg.TimeoutP = 400
		cfg.CrashP = 30
	}
	x.cfg = cfg
	x.evStart()
	if profile == "stalecb" && x.proposerOf(0) != own && h.Panic == "" {
		// start with a proposal whose import finishes while its callback is held
		var b *blockInfo
		for _, c := range r.blocks {
			if c.Decodable && !c.ImportErr && c.Parts != nil && c.Proposer == x.proposerOf(0) {
				b = c
				break
			}
		}
		if b != nil {
			x.commitLast()
			x.evProposal(true, 0, x.proposerOf(0), -1, b)
			for i := range b.Parts {
				x.commitLast()
				x.evPart(true, b, i)
			}
		}
	}
	for len(h.Events) < cfg.Len+3*h.Crashes && len(h.Events) < 40 && h.Panic == "" {
		// the outputs of the last event are pending: either a crash cuts them or they happened
		if x.maybeCrash(cfg) {
			continue
		}
		x.commitLast()
		if !x.step(cfg) {
			break
		}
	}
	if !r.down && h.Panic == "" {
		x.commitLast()
	}
	x.checkEquivocation()
	h.Blocks = r.blocks
	if r.harnessErr != "" {
		h.Discard = "harness: " + r.harnessErr
	} else if r.discard != "" {
		h.Discard = r.discard
	}
	if len(r.t.errs) > 0 && h.Discard == "" && h.Oracle == "" {
		h.Discard = "fixture assertion: " + r.t.errs[0]
	}
	return h
}

// ---------------------------------------------------------------- scripted histories (corpus)

type scriptStep struct {
	K     string `json:"k"` // start proposal part votes votelist timeout cb crash
	Round int32  `json:"round,omitempty"`
	From  []int  `json:"from,omitempty"`
	Type  int    `json:"type,omitempty"` // 0 prevote 1 precommit
	Blk   int    `json:"blk,omitempty"`  // 0 = nil
	Pol   int32  `json:"pol,omitempty"`
	Idx   int    `json:"idx,omitempty"`
	Fail  bool   `json:"fail,omitempty"`
	Cut   int    `json:"cut,omitempty"`  // crash: outputs of the previous event that happened (-1 = all)
	Keep  int    `json:"keep,omitempty"` // crash: 0 none, 1 all, 2 exactly a frame header
}

type script struct {
	Name  string       `json:"name"`
	N     int          `json:"n"`
	Own   int          `json:"own"`
	Steps []scriptStep `json:"steps"`
}

func runScript(w *world, sc script) *history {
	r := newRunner(w, sc.Own)
	defer r.close()
	h := &history{N: w.n, Own: sc.Own, Profile: "script:" + sc.Name}
	x := &exec{r: r, rnd: rand.New(rand.NewSource(1)), h: h, pcs: map[int32]map[int]map[int]bool{}, pvs: map[int32]map[int]map[int]bool{}}
	for _, st := range sc.Steps {
		if h.Panic != "" || r.finalized || r.discard != "" || r.harnessErr != "" {
			break
		}
		if st.K != "crash" {
			x.commitLast()
		}
		if st.K != "start" && st.K != "crash" && st.K != "timeout" && r.timerClose() {
			x.evTimeout()
			x.commitLast()
		}
		switch st.K {
		case "start":
			x.evStart()
		case "proposal":
			pol := st.Pol
			if pol == 0 && st.Round == 0 {
				pol = -1
			}
			x.evProposal(true, st.Round, st.From[0], pol, x.blk(st.Blk))
		case "part":
			x.evPart(true, x.blk(st.Blk), st.Idx)
		case "votes", "votelist":
			var l []tvote
			for _, f := range st.From {
				l = append(l, tvote{From: f, Round: st.Round, Type: st.Type, Dec: st.Blk, TS: 1, CurH: true})
			}
			if st.K == "votelist" {
				x.evVoteList(l)
			} else {
				for i, v := range l {
					if i > 0 {
						x.commitLast()
					}
					x.evVote(v)
				}
			}
		case "timeout":
			if x.curState().Timer {
				x.evTimeout()
			}
		case "cb":
			if p := r.pendingReqs(); len(p) > 0 {
				x.evCallback(p[0], st.Fail)
			}
		case "crash":
			if !x.pending {
				continue
			}
			last := h.Events[len(h.Events)-1]
			cut := st.Cut
			if cut < 0 || cut > len(last.Outs) {
				cut = len(last.Outs)
			}
			sp := crashSpec{Frac: map[string]int{}, Mode: map[string]int{}}
			for _, wn := range []string{"round", "lock", "commit"} {
				sp.Mode[wn] = map[int]int{0: 3, 1: 2, 2: 1}[st.Keep]
			}
			x.crashAndRestart(cut, sp)
		}
	}
	if !r.down && h.Panic == "" {
		x.commitLast()
	}
	x.checkEquivocation()
	h.Blocks = r.blocks
	if r.harnessErr != "" {
		h.Discard = "harness: " + r.harnessErr
	} else if r.discard != "" {
		h.Discard = r.discard
	}
	return h
}
