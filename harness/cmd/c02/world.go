// world.go — the validator universe shared by all histories of one size n:
// wallets, genesis, one shadow node per validator (used only to build blocks
// whose proposer is that validator) and a pool of blocks for height 1.
package main

import (
	"bytes"
	"fmt"
	"strings"
	"sync"

	"github.com/icon-project/goloop/common/codec"
	"github.com/icon-project/goloop/common/wallet"
	"github.com/icon-project/goloop/consensus"
	"github.com/icon-project/goloop/module"
	"github.com/icon-project/goloop/test"
)

// blockInfo is what the harness (and, as an input table, the Coq model) knows
// about a block id.
type blockInfo struct {
	ID        int    // model id (1-based); 0 is never used
	Key       string // canonical part set id
	BlockID   []byte
	PSID      *consensus.PartSetID
	Parts     [][]byte // serialized parts (nil for fabricated ids)
	NParts    int
	Decodable bool // NewBlockDataFromReader succeeds on the complete part set
	Proposer  int  // validator index of block.Proposer(), -1 unknown
	ImportErr bool // ImportBlock fails synchronously (wrong parent)
	TS        int64
	Own       bool // produced by the engine under test
}

type world struct {
	n       int
	wallets []module.Wallet
	genesis string
	shadows []*test.Node
	pool    []*blockInfo // shared, read-only after construction
	nid     []byte
	t       *quietT
	mu      sync.Mutex
}

func genesisFor(ws []module.Wallet) string {
	var vs []string
	for _, w := range ws {
		vs = append(vs, fmt.Sprintf(`"%s"`, w.Address()))
	}
	return fmt.Sprintf(`{
		"accounts": [
			{"name":"treasury","address":"hx1000000000000000000000000000000000000000","balance":"0x0"},
			{"name":"god","address":"hx0000000000000000000000000000000000000000","balance":"0x0"}
		],
		"message": "", "nid": "0x1",
		"chain": { "validatorList": [ %s ] }
	}`, strings.Join(vs, ", "))
}

func partsOf(blk module.BlockData, corrupt bool) consensus.PartSet {
	psb := consensus.NewPartSetBuffer(consensus.ConfigBlockPartSize)
	must(blk.MarshalHeader(psb))
	if corrupt {
		_, _ = psb.Write([]byte{0})
	}
	must(blk.MarshalBody(psb))
	return psb.PartSet()
}

func must(err error) {
	if err != nil {
		panic(err)
	}
}

func (w *world) addBlock(blk module.BlockData, ps consensus.PartSet, decodable bool, proposer int, importErr bool) *blockInfo {
	bi := &blockInfo{ID: len(w.pool) + 1, Key: consensus.VerifPSIDKey(ps.ID()), BlockID: blk.ID(), PSID: ps.ID(),
		NParts: ps.Parts(), Decodable: decodable, Proposer: proposer, ImportErr: importErr, TS: blk.Timestamp()}
	for i := 0; i < ps.Parts(); i++ {
		bi.Parts = append(bi.Parts, ps.GetPart(i).Bytes())
	}
	w.pool = append(w.pool, bi)
	return bi
}

// newWorld builds the universe for n validators.  rnd drives nothing here: the
// pool is the same for every seed (the histories differ).
func newWorld(n int) *world {
	w := &world{n: n, t: &quietT{}}
	for i := 0; i < n; i++ {
		w.wallets = append(w.wallets, wallet.New())
	}
	w.genesis = genesisFor(w.wallets)
	for i := 0; i < n; i++ {
		nd := test.NewNode(w.t, test.UseGenesis(w.genesis), test.UseWallet(w.wallets[i]))
		w.shadows = append(w.shadows, nd)
	}
	w.nid = codec.MustMarshalToBytes(w.shadows[0].Chain.NID())
	big := strings.Repeat("x", 150*1024)
	for i := 0; i < n; i++ {
		nd := w.shadows[i]
		for k := 0; k < 2; k++ {
			v := fmt.Sprintf("b%d-%d", i, k)
			tx := test.NewTx().SetVarTest(&v)
			if k == 1 && i%2 == 1 {
				vv := v + big // a block of two parts
				tx = test.NewTx().SetVarTest(&vv)
			}
			_, err := nd.SM.SendTransaction(nil, 0, tx.String())
			must(err)
			bc := nd.ProposeBlock(consensus.NewEmptyCommitVoteList())
			w.addBlock(bc, partsOf(bc, false), true, i, false)
			if k == 0 && i == (1%n) {
				// the same block with one garbage byte: a complete part set that does not decode
				w.addBlock(bc, partsOf(bc, true), false, -1, false)
			}
		}
	}
	// a decodable block whose parent is unknown to the engine under test
	// (height 2 on a side node): ImportBlock fails synchronously
	if n > 1 {
		side := test.NewNode(w.t, test.UseGenesis(w.genesis), test.UseWallet(w.wallets[n-1]))
		side.ProposeFinalizeBlock(consensus.NewEmptyCommitVoteList())
		b1 := side.LastBlock
		ps1 := partsOf(b1, false)
		var pcs []*consensus.VoteMessage
		for i := 0; i < n; i++ {
			pcs = append(pcs, consensus.NewVoteMessage(w.wallets[i], consensus.VoteTypePrecommit, 1, 0, b1.ID(), ps1.ID(), b1.Timestamp()+1, nil, nil, 0))
		}
		v := "side"
		_, err := side.SM.SendTransaction(nil, 0, test.NewTx().SetVarTest(&v).String())
		must(err)
		bc := side.ProposeBlock(consensus.NewCommitVoteList(nil, pcs...))
		w.addBlock(bc, partsOf(bc, false), true, n-1, true)
		w.shadows = append(w.shadows, side)
	}
	// fabricated ids: no data exists
	for k := 0; k < 2; k++ {
		h := bytes.Repeat([]byte{byte(0xa0 + k)}, 32)
		bi := &blockInfo{ID: len(w.pool) + 1, BlockID: bytes.Repeat([]byte{byte(0xb0 + k)}, 32),
			PSID: &consensus.PartSetID{Count: 1, Hash: h}, NParts: 1, Proposer: -1}
		bi.Key = consensus.VerifPSIDKey(bi.PSID)
		w.pool = append(w.pool, bi)
	}
	if len(w.t.errs) > 0 {
		panic("world setup: " + strings.Join(w.t.errs, "; "))
	}
	return w
}

func (w *world) close() {
	for _, nd := range w.shadows {
		nd.Close()
	}
}
