package main

import (
	"encoding/json"
	"fmt"
	"os"
	"strconv"
	"time"
)

// probe: developer aid — C02_PROBE="n own profile seed" prints one history.
func probe() {
	var n, own int
	var profile string
	var seed int64
	fmt.Sscanf(os.Getenv("C02_PROBE"), "%d %d %s %d", &n, &own, &profile, &seed)
	t0 := time.Now()
	w := worldFor(n)
	fmt.Fprintf(realStderr, "world built in %v, pool=%d\n", time.Since(t0), len(w.pool))
	for _, b := range w.pool {
		fmt.Fprintf(realStderr, "  blk %d parts=%d dec=%v prop=%d imperr=%v key=%.20s\n", b.ID, b.NParts, b.Decodable, b.Proposer, b.ImportErr, b.Key)
	}
	if sf := os.Getenv("C02_PROBE_SCRIPT"); sf != "" {
		b, err := os.ReadFile(sf)
		must(err)
		var sc script
		must(json.Unmarshal(b, &sc))
		w = worldFor(sc.N)
		h := runScript(w, sc)
		fmt.Fprintf(realStderr, "script %s: %d events oracle=%q discard=%q\n", sc.Name, len(h.Events), h.Oracle, h.Discard)
		for j, e := range h.Events {
			fmt.Fprintf(realStderr, " %2d %s delay=%v cut=%d %s\n", j, coqEvent(e), e.Delay, e.Cut, e.Note)
			for _, o := range e.Outs {
				fmt.Fprintf(realStderr, "      > %s\n", coqOut(o))
			}
			fmt.Fprintf(realStderr, "      = %s\n", coqObs(e.Post))
		}
		if os.Getenv("C02_PROBE_COQ") != "" {
			fmt.Println(coqCase(h))
		}
		return
	}
	cnt, _ := strconv.Atoi(os.Getenv("C02_PROBE_COUNT"))
	if cnt == 0 {
		cnt = 1
	}
	for i := 0; i < cnt; i++ {
		t1 := time.Now()
		h := runHistory(w, own, profile, seed+int64(i))
		fmt.Fprintf(realStderr, "history seed=%d: %d events, crashes=%d fused=%d torn=%d oracle=%q discard=%q in %v\n", seed+int64(i), len(h.Events), h.Crashes, h.Fused, h.Torn, h.Oracle, h.Discard, time.Since(t1))
		if h.Panic != "" && os.Getenv("C02_PROBE_STACK") != "" {
			fmt.Fprintln(realStderr, lastStack)
		}
		if os.Getenv("C02_PROBE_V") != "" {
			for j, e := range h.Events {
				fmt.Fprintf(realStderr, " %2d %s delay=%v cut=%d %s\n", j, coqEvent(e), e.Delay, e.Cut, e.Note)
				for _, o := range e.Outs {
					fmt.Fprintf(realStderr, "      > %s\n", coqOut(o))
				}
				fmt.Fprintf(realStderr, "      = %s\n", coqObs(e.Post))
			}
		}
		if os.Getenv("C02_PROBE_COQ") != "" {
			fmt.Println(coqCase(h))
		}
	}
	w.close()
}
