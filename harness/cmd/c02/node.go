// node.go — the engine under test and the wrappers the harness puts around its
// environment: WAL manager (delegating to the real file WAL), network manager
// (records every Broadcast/Multicast synchronously), block manager (holds
// Propose/Import callbacks until the harness releases them, records Finalize).
package main

import (
	"fmt"
	"os"
	"path/filepath"
	"sync"
	"time"

	"github.com/icon-project/goloop/consensus"
	"github.com/icon-project/goloop/module"
	"github.com/icon-project/goloop/test"
)

// ---------------------------------------------------------------- recorder

type outKind int

const (
	oWalWrite outKind = iota
	oWalSync
	oBcast   // ProtoVote / ProtoProposal / ProtoBlockPart / ProtoVoteList sent by the engine
	oImport  // BlockManager.ImportBlock called
	oPropose // BlockManager.Propose called
	oFinalize
)

type outRec struct {
	Kind    outKind
	Wal     string // round|lock|commit
	Payload []byte // WAL payload, or the broadcast message bytes
	Proto   module.ProtocolInfo
	Multi   bool   // multicast (prevote) vs broadcast
	BlkKey  string // part set id key of the block concerned (import / finalize)
	BlkID   []byte
	Flags   int
	Round   int32 // engine round/step when the hook ran
	Step    int
	ReqID   int  // import / propose request number
	SyncErr bool // import / propose returned an error synchronously
	Inc     int  // engine incarnation
}

type recorder struct {
	mu   sync.Mutex
	outs []outRec
}

func (r *recorder) add(o outRec) {
	r.mu.Lock()
	r.outs = append(r.outs, o)
	r.mu.Unlock()
}

func (r *recorder) len() int {
	r.mu.Lock()
	defer r.mu.Unlock()
	return len(r.outs)
}

func (r *recorder) slice(from, to int) []outRec {
	r.mu.Lock()
	defer r.mu.Unlock()
	return append([]outRec(nil), r.outs[from:to]...)
}

// ---------------------------------------------------------------- WAL wrapper

// walTrack follows one WAL (one id) of one engine incarnation.
type walTrack struct {
	name     string
	file     string // the single segment file
	baseSize int64  // size when opened for write
	frames   []int  // payload lengths written, in order
	syncedN  int    // number of frames covered by the last Sync
	recAt    []int  // recorder index of each write
}

type walMgr struct {
	run *runner
}

func (wm *walMgr) OpenForRead(id string) (consensus.WALReader, error) {
	return consensus.OpenWALForRead(id)
}

func (wm *walMgr) OpenForWrite(id string, cfg *consensus.WALConfig) (consensus.WALWriter, error) {
	c2 := *cfg
	// the housekeeping ticker (time-driven sync / shift) is taken out: every
	// durable byte is durable because the engine called Sync.
	c2.HousekeepingInterval = time.Hour
	c2.SyncInterval = time.Hour
	w, err := consensus.OpenWALForWrite(id, &c2)
	if err != nil {
		return nil, err
	}
	name := filepath.Base(id)
	tr := &walTrack{name: name}
	// the tail file: highest index present (there is exactly one in these runs)
	ms, _ := filepath.Glob(id + "_*")
	if len(ms) != 1 {
		wm.run.harnessErr = fmt.Sprintf("WAL %s has %d segment files", name, len(ms))
	}
	if len(ms) > 0 {
		tr.file = ms[len(ms)-1]
		if st, e := os.Stat(tr.file); e == nil {
			tr.baseSize = st.Size()
		}
	}
	wm.run.wals[name] = tr
	return &walW{w: w, tr: tr, run: wm.run}, nil
}

type walW struct {
	w   consensus.WALWriter
	tr  *walTrack
	run *runner
}

func (w *walW) WriteBytes(b []byte) (int, error) {
	n, err := w.w.WriteBytes(b)
	st := w.run.stateNoLock()
	w.tr.frames = append(w.tr.frames, len(b))
	w.tr.recAt = append(w.tr.recAt, w.run.rec.len())
	w.run.rec.add(outRec{Kind: oWalWrite, Wal: w.tr.name, Payload: append([]byte(nil), b...), Round: st.Round, Step: st.Step, Inc: w.run.inc})
	return n, err
}

func (w *walW) Sync() error {
	err := w.w.Sync()
	st := w.run.stateNoLock()
	w.tr.syncedN = len(w.tr.frames)
	w.run.rec.add(outRec{Kind: oWalSync, Wal: w.tr.name, Round: st.Round, Step: st.Step, Inc: w.run.inc})
	return err
}

func (w *walW) Close() error { return w.w.Close() }

// ---------------------------------------------------------------- network wrapper

type nmW struct {
	module.NetworkManager
	run *runner
}

func (n *nmW) RegisterReactor(name string, pi module.ProtocolInfo, reactor module.Reactor, piList []module.ProtocolInfo, priority uint8, policy module.NotRegisteredProtocolPolicy) (module.ProtocolHandler, error) {
	ph, err := n.NetworkManager.RegisterReactor(name, pi, reactor, piList, priority, policy)
	if err != nil {
		return nil, err
	}
	return &phW{ProtocolHandler: ph, run: n.run, engine: name == "consensus"}, nil
}

type phW struct {
	module.ProtocolHandler
	run    *runner
	engine bool
}

func (p *phW) note(pi module.ProtocolInfo, b []byte, multi bool) {
	if !p.engine {
		return
	}
	st := p.run.stateNoLock()
	p.run.rec.add(outRec{Kind: oBcast, Proto: pi, Payload: append([]byte(nil), b...), Multi: multi, Round: st.Round, Step: st.Step, Inc: p.run.inc})
}

func (p *phW) Broadcast(pi module.ProtocolInfo, b []byte, bt module.BroadcastType) error {
	p.note(pi, b, false)
	return p.ProtocolHandler.Broadcast(pi, b, bt)
}

func (p *phW) Multicast(pi module.ProtocolInfo, b []byte, role module.Role) error {
	p.note(pi, b, true)
	return p.ProtocolHandler.Multicast(pi, b, role)
}

// ---------------------------------------------------------------- block manager wrapper

type bmReq struct {
	id        int
	propose   bool
	flags     int
	key       string // block concerned (import)
	round     int32
	step      int
	inc       int
	cb        func(module.BlockCandidate, error)
	done      bool // the real block manager has produced the result
	blk       module.BlockCandidate
	err       error
	cancelled bool
	delivered bool
	holdSet   bool // the history has decided how long the callback goroutine is delayed
	holdUntil int  // number of events of the history before which it is not released
}

type bmW struct {
	module.BlockManager
	run *runner
}

type cancelW struct {
	c   module.Canceler
	req *bmReq
	run *runner
}

// Cancel: the real block manager refuses to cancel a task that has already
// produced its result (importTask.Cancel returns false in state validatedOut;
// the callback is on its way in its own goroutine).  Only a successful cancel
// means that the callback never arrives; otherwise it stays deliverable, at any
// later point the history chooses -- also after a round change.
func (c *cancelW) Cancel() bool {
	ok := c.c.Cancel()
	if ok {
		c.run.bmu.Lock()
		c.req.cancelled = true
		c.run.bmu.Unlock()
	}
	return ok
}

func (b *bmW) newReq(propose bool, flags int, key string) *bmReq {
	st := b.run.stateNoLock()
	b.run.bmu.Lock()
	defer b.run.bmu.Unlock()
	r := &bmReq{id: len(b.run.reqs), propose: propose, flags: flags, key: key, round: st.Round, step: st.Step, inc: b.run.inc}
	b.run.reqs = append(b.run.reqs, r)
	return r
}

func (b *bmW) Propose(parentID []byte, votes module.CommitVoteSet, cb func(module.BlockCandidate, error)) (module.Canceler, error) {
	r := b.newReq(true, 0, "")
	r.cb = cb
	c, err := b.BlockManager.Propose(parentID, votes, func(bc module.BlockCandidate, e error) {
		b.run.bmu.Lock()
		r.done, r.blk, r.err = true, bc, e
		b.run.bmu.Unlock()
	})
	b.run.rec.add(outRec{Kind: oPropose, Round: r.round, Step: r.step, ReqID: r.id, SyncErr: err != nil, Inc: b.run.inc})
	if err != nil {
		b.run.bmu.Lock()
		r.cancelled = true
		b.run.bmu.Unlock()
		return nil, err
	}
	return &cancelW{c: c, req: r, run: b.run}, nil
}

func (b *bmW) ImportBlock(blk module.BlockData, flags int, cb func(module.BlockCandidate, error)) (module.Canceler, error) {
	key := b.run.keyOfBlock(blk)
	r := b.newReq(false, flags, key)
	r.cb = cb
	c, err := b.BlockManager.ImportBlock(blk, flags, func(bc module.BlockCandidate, e error) {
		b.run.bmu.Lock()
		r.done, r.blk, r.err = true, bc, e
		b.run.bmu.Unlock()
	})
	b.run.rec.add(outRec{Kind: oImport, BlkKey: key, BlkID: blk.ID(), Flags: flags, Round: r.round, Step: r.step, ReqID: r.id, SyncErr: err != nil, Inc: b.run.inc})
	if err != nil {
		b.run.bmu.Lock()
		r.cancelled = true
		b.run.bmu.Unlock()
		return nil, err
	}
	return &cancelW{c: c, req: r, run: b.run}, nil
}

func (b *bmW) Finalize(bc module.BlockCandidate) error {
	st := b.run.stateNoLock()
	b.run.rec.add(outRec{Kind: oFinalize, BlkID: bc.ID(), BlkKey: b.run.keyOfBlock(bc), Round: st.Round, Step: st.Step, Inc: b.run.inc})
	return b.BlockManager.Finalize(bc)
}

// ---------------------------------------------------------------- chain wrapper

type chainW struct {
	*test.Chain
	nm *nmW
	bm *bmW
	sm *smW
}

// smW: the fixture's service manager does not implement SendDoubleSignReport
// (its embedded interface is nil); the engine calls it when a simulated
// validator equivocates.
type smW struct {
	module.ServiceManager
	reports int
}

func (s *smW) SendDoubleSignReport(result []byte, vh []byte, data []module.DoubleSignData) error {
	s.reports++
	return nil
}

func (c *chainW) ServiceManager() module.ServiceManager { return c.sm }

func (c *chainW) NetworkManager() module.NetworkManager { return c.nm }
func (c *chainW) BlockManager() module.BlockManager     { return c.bm }

// ---------------------------------------------------------------- T

type quietT struct {
	mu   sync.Mutex
	errs []string
}

func (t *quietT) Errorf(format string, args ...interface{}) {
	t.mu.Lock()
	t.errs = append(t.errs, fmt.Sprintf(format, args...))
	t.mu.Unlock()
}
func (t *quietT) Logf(format string, args ...any) {}
