// c08: block encoding round trip and header/body binding.
// BlockDataFactory.NewBlockDataFromReader / blockV2.MarshalHeader+MarshalBody of the real
// block package on fixture chains vs Model_BlockCodec.
package main

import (
	"bytes"
	"encoding/hex"
	"encoding/json"
	"fmt"
	"math"
	"math/rand"
	"os"
	"os/exec"
	"path/filepath"
	"sort"
	"strings"

	"github.com/icon-project/goloop/block"
	"github.com/icon-project/goloop/common"
	"github.com/icon-project/goloop/common/codec"
	"github.com/icon-project/goloop/consensus"
	"github.com/icon-project/goloop/module"
	"github.com/icon-project/goloop/test"

	"verif/harness/hxlib"
)

func unhex(s string) []byte {
	b, err := hex.DecodeString(s)
	if err != nil {
		panic(err)
	}
	return b
}

type decIn struct {
	Kind   string `json:"kind"`
	Hex    string `json:"hex"`
	Expect expect `json:"expect"`
}

// ---------------------------------------------------------------- raw RLP assembly

func rlpLen(n int, short, long byte) []byte {
	if n <= 55 {
		return []byte{short + byte(n)}
	}
	var sb []byte
	for v := n; v > 0; v >>= 8 {
		sb = append([]byte{byte(v)}, sb...)
	}
	return append([]byte{long + byte(len(sb))}, sb...)
}
func rlpList(items ...[]byte) []byte {
	var p []byte
	for _, it := range items {
		p = append(p, it...)
	}
	return append(rlpLen(len(p), 0xC0, 0xF7), p...)
}
func rlpStr(b []byte) []byte { // always the string form (also for single small bytes when forced)
	if len(b) == 1 && b[0] < 0x80 {
		return []byte{b[0]}
	}
	return append(rlpLen(len(b), 0x80, 0xB7), b...)
}

var rlpNil = []byte{0xF8, 0x00}

func rlpOpt(b []byte) []byte {
	if b == nil {
		return rlpNil
	}
	return rlpStr(b)
}
func rlpItem(v interface{}) []byte { return codec.BC.MustMarshalToBytes(v) }

// the items of a top-level list (payload split), nil when malformed
func splitList(b []byte) (items [][]byte, rest []byte) {
	if len(b) == 0 || b[0] < 0xC0 {
		return nil, nil
	}
	var n, hl int
	if b[0] <= 0xF7 {
		n, hl = int(b[0]-0xC0), 1
	} else {
		k := int(b[0] - 0xF7)
		if len(b) < 1+k {
			return nil, nil
		}
		for _, x := range b[1 : 1+k] {
			n = n<<8 | int(x)
		}
		hl = 1 + k
	}
	if len(b) < hl+n {
		return nil, nil
	}
	p := b[hl : hl+n]
	rest = b[hl+n:]
	for len(p) > 0 {
		l := itemLen(p)
		if l <= 0 || l > len(p) {
			return nil, nil
		}
		items = append(items, p[:l])
		p = p[l:]
	}
	return items, rest
}
func itemLen(p []byte) int {
	t := p[0]
	be := func(k int) int {
		if len(p) < 1+k {
			return -1 << 30
		}
		n := 0
		for _, x := range p[1 : 1+k] {
			n = n<<8 | int(x)
		}
		return 1 + k + n
	}
	switch {
	case t < 0x80:
		return 1
	case t <= 0xB7:
		return 1 + int(t-0x80)
	case t < 0xC0:
		return be(int(t - 0xB7))
	case t <= 0xF7:
		return 1 + int(t-0xC0)
	default:
		return be(int(t - 0xF7))
	}
}

// ---------------------------------------------------------------- crafting

func cpH(h *block.V2HeaderFormat) *block.V2HeaderFormat { c := *h; return &c }
func cpB(b *block.V2BodyFormat) *block.V2BodyFormat {
	c := *b
	c.PatchTransactions = append([][]byte(nil), b.PatchTransactions...)
	c.NormalTransactions = append([][]byte(nil), b.NormalTransactions...)
	return &c
}
func enc(h *block.V2HeaderFormat, b *block.V2BodyFormat) []byte {
	return append(codec.BC.MustMarshalToBytes(h), codec.BC.MustMarshalToBytes(b)...)
}

func (w *world) rootOfBytes(bss [][]byte) []byte {
	txs, _, ok := w.parseTxList(bss, nil)
	if !ok {
		panic("crafted transaction does not parse")
	}
	return w.rootOf(txs)
}

func randBytes(r *rand.Rand, n int) []byte {
	b := make([]byte, n)
	r.Read(b)
	return b
}

// transitionResult bytes with the given BTP data
func resultWith(r *rand.Rand, btpData []byte, ext []byte) []byte {
	st, pr, nr := randBytes(r, 32), randBytes(r, 32), randBytes(r, 32)
	if btpData == nil {
		if ext == nil {
			return rlpList(rlpStr(st), rlpStr(pr), rlpStr(nr))
		}
		return rlpList(rlpStr(st), rlpStr(pr), rlpStr(nr), rlpStr(ext))
	}
	return rlpList(rlpStr(st), rlpStr(pr), rlpStr(nr), rlpOpt(ext), []byte{1}, rlpStr(btpData))
}

// BTP digest bytes with the given network ids (one network type)
func digestWith(r *rand.Rand, ids ...int64) []byte {
	var nds [][]byte
	for _, id := range ids {
		nds = append(nds, rlpList(rlpItem(id), rlpStr(randBytes(r, 32)), rlpOpt(nil)))
	}
	ntd := rlpList(rlpItem(int64(1)), rlpStr([]byte("eth")), rlpStr(randBytes(r, 32)), rlpList(nds...))
	return rlpList(rlpList(ntd))
}

func filterBytes(ids ...int64) []byte {
	var buf []byte
	for _, id := range ids {
		i := int(id/8) % 32
		for len(buf) <= i {
			buf = append(buf, 0)
		}
		buf[i] |= 1 << uint(id%8)
	}
	return buf
}

// ---------------------------------------------------------------- generation

type gen struct {
	c      *hxlib.Ctx
	w      *world
	honest []*honest
}

// run the implementation and the oracle on one input, emit the case
func (g *gen) emitDec(kind string, in []byte, ex expect) *decRes {
	msg, r := g.w.oracle(in, ex)
	cs := hxlib.Case{Kind: kind, Input: decIn{Kind: kind, Hex: hex.EncodeToString(in), Expect: ex}, OracleErr: msg}
	hf, bf := parseFormats(in)
	cs.Nontrivial = hf != nil && bf != nil
	cs.Key = hex.EncodeToString(in)
	if r.noTables {
		g.c.Note("no model case for %s input %s…: a harness-side parser call did not return in the child process", kind, hx(in)[:min(24, 2*len(in))])
	}
	if !g.c.OracleOnly && r.panicked == "" && !r.timeout && !r.noTables {
		e := g.w.envFor(in, r)
		resetIntern()
		obs := "None"
		if r.err == nil {
			obs = fmt.Sprintf("(Some (%s, %s, %d))", r.obs.coq(), cb(r.obs.ID), r.unread)
		}
		cs.Coq = wrapLets(fmt.Sprintf("CDec %s %s %s", e.coq(), cb(in), obs))
	}
	g.c.Emit(cs)
	return r
}

func (g *gen) emitEnc(h *honest) {
	o := observe(h.blk)
	in := h.bytes()
	cs := hxlib.Case{Kind: "honest_encode", Nontrivial: true, Key: hex.EncodeToString(in),
		Input: decIn{Kind: "honest_encode", Hex: hex.EncodeToString(in), Expect: expect{SameAs: hex.EncodeToString(in), Comment: h.label}}}
	// direct oracle: decode(encode b) has the id and the contents of b
	msg, r := g.w.oracle(in, expect{SameAs: hex.EncodeToString(in)})
	if msg == "" {
		if d := o.diff(r.obs); d != "" {
			msg = fmt.Sprintf("block %s decodes back with different %s", h.label, d)
		} else if r.unread != 0 {
			msg = "bytes left unread after an honest encoding"
		} else if !bytes.Equal(o.ID, sha(h.hb)) {
			msg = "ID is not SHA3-256 of MarshalHeader"
		}
	}
	cs.OracleErr = msg
	if !g.c.OracleOnly && r != nil && r.panicked == "" && !r.timeout && !r.noTables {
		e := g.w.envFor(in, r)
		e.addH(h.hb)
		resetIntern()
		cs.Coq = wrapLets(fmt.Sprintf("CEnc %s %s %s %s %s", e.coq(), o.coq(), cb(h.hb), cb(h.bb), cb(o.ID)))
	}
	g.c.Emit(cs)
}

func hx(b []byte) string { return hex.EncodeToString(b) }

func (g *gen) pick() *honest { return g.honest[g.c.Rand.Intn(len(g.honest))] }

// honest blocks: encode side, decode side, truncations, extensions
func (g *gen) genHonest() {
	r := g.c.Rand
	for hi, h := range g.honest {
		g.emitEnc(h)
		in := h.bytes()
		g.emitDec("honest_decode", in, expect{SameAs: hx(in), Comment: h.label})
		// boundary cuts
		cuts := []int{len(h.hb), len(in) - 1, r.Intn(len(in))}
		if hi%4 == 0 {
			cuts = append(cuts, 0, 1, len(h.hb)-1, len(h.hb)+1)
		}
		for _, c := range cuts {
			if c >= 0 && c < len(in) {
				g.emitDec("truncated", in[:c], expect{Reject: true, Comment: fmt.Sprintf("%s cut at %d of %d", h.label, c, len(in))})
			}
		}
		tails := [][]byte{randBytes(r, 1+r.Intn(40))}
		if hi%4 == 1 {
			tails = append(tails, []byte{0}, in)
		}
		for _, tail := range tails {
			g.emitDec("extended", append(append([]byte{}, in...), tail...), expect{SameIf: hx(in), Comment: h.label + " with trailing bytes"})
		}
	}
}

func testTxBytes(r *rand.Rand) []byte {
	tag := fmt.Sprintf("t%d", r.Intn(1000000))
	return []byte(test.NewTx().SetTimestamp(r.Int63n(1 << 40)).SetVarTest(&tag).String())
}

// consistent blocks assembled by the harness: every hash the header commits to is
// recomputed, so the decoder must accept them (it checks neither signatures nor the chain)
func (g *gen) genCrafted() {
	r := g.c.Rand
	w := g.w
	n := g.c.N(70)
	for i := 0; i < n; i++ {
		src := g.pick()
		h, b := cpH(src.hf), cpB(src.bf)
		var what []string
		exotic := false // a form no node marshals: acceptance is then not required by the property
		opt := func(p float64) bool { return r.Float64() < p }
		if opt(0.5) {
			k := r.Intn(4)
			b.PatchTransactions = nil
			for j := 0; j < k; j++ {
				b.PatchTransactions = append(b.PatchTransactions, testTxBytes(r))
			}
			h.PatchTransactionsHash = w.rootOfBytes(b.PatchTransactions)
			what = append(what, fmt.Sprintf("patch=%d", k))
		}
		if opt(0.5) {
			k := r.Intn(6)
			b.NormalTransactions = nil
			for j := 0; j < k; j++ {
				b.NormalTransactions = append(b.NormalTransactions, testTxBytes(r))
			}
			if k > 0 && opt(0.3) {
				// a transaction in a non-canonical JSON layout: Bytes() of the parsed one differs
				b.NormalTransactions[0] = []byte(fmt.Sprintf("{ \"type\" : \"test\",  \"timestamp\":\"0x%x\"} ", r.Int63n(1<<30)))
				what = append(what, "noncanonical-tx")
				exotic = true
			}
			h.NormalTransactionsHash = w.rootOfBytes(b.NormalTransactions)
			what = append(what, fmt.Sprintf("normal=%d", k))
		}
		if opt(0.2) {
			// empty list committed as an empty (not nil) hash, or an empty non-nil list
			if len(b.PatchTransactions) == 0 {
				h.PatchTransactionsHash = []byte{}
				if opt(0.5) {
					b.PatchTransactions = [][]byte{}
				}
				what = append(what, "empty-patch-hash")
				exotic = true
			}
		}
		if opt(0.4) {
			switch r.Intn(3) {
			case 0:
				d := g.pick()
				b.Votes = d.bf.Votes
			case 1:
				b.Votes = nil
				exotic = true
			case 2:
				b.Votes = consensus.NewEmptyCommitVoteList().Bytes()
			}
			vs := w.nd.Chain.CommitVoteSetDecoder()(b.Votes)
			h.VotesHash = sha(vs.Bytes())
			what = append(what, "votes")
		}
		if opt(0.5) {
			switch r.Intn(6) {
			case 0:
				h.Height = 0
			case 1:
				h.Height = -r.Int63n(1 << 40)
			case 2:
				h.Height = math.MaxInt64
			case 3:
				h.Height = math.MinInt64
			default:
				h.Height = r.Int63n(1 << uint(1+r.Intn(62)))
			}
			what = append(what, "height")
		}
		if opt(0.5) {
			switch r.Intn(5) {
			case 0:
				h.Timestamp = 0
			case 1:
				h.Timestamp = -1
			case 2:
				h.Timestamp = math.MaxInt64
			case 3:
				h.Timestamp = 127 + int64(r.Intn(3))
			default:
				h.Timestamp = r.Int63()
			}
			what = append(what, "timestamp")
		}
		if opt(0.4) {
			switch r.Intn(4) {
			case 0:
				h.Proposer = nil
			case 1:
				h.Proposer = randBytes(r, 20) // normalised to 21 bytes by the decoder
				exotic = true
			case 2:
				h.Proposer = append([]byte{1}, randBytes(r, 20)...)
			case 3:
				h.Proposer = append([]byte{0}, randBytes(r, 20)...)
			}
			what = append(what, "proposer")
		}
		if opt(0.3) {
			switch r.Intn(3) {
			case 0:
				h.PrevID = nil
			case 1:
				h.PrevID = []byte{}
				exotic = true
			case 2:
				h.PrevID = randBytes(r, 32)
			}
			what = append(what, "prev")
		}
		if opt(0.3) {
			switch r.Intn(3) {
			case 0:
				h.NextValidatorsHash = nil
			case 1:
				h.NextValidatorsHash = []byte{}
				exotic = true
			case 2:
				h.NextValidatorsHash = randBytes(r, 32)
			}
			what = append(what, "nvh")
		}
		if opt(0.3) {
			switch r.Intn(4) {
			case 0:
				h.LogsBloom = nil
				exotic = true
			case 1:
				h.LogsBloom = []byte{}
			case 2:
				h.LogsBloom = common.Compress(append([]byte{1}, randBytes(r, r.Intn(256))...))
			case 3:
				h.LogsBloom = randBytes(r, 1+r.Intn(20)) // not LZW: normalised
				exotic = true
			}
			what = append(what, "bloom")
		}
		if opt(0.5) {
			// result / digest / filter
			switch r.Intn(6) {
			case 0:
				h.Result, b.BTPDigest, h.NSFilter = nil, nil, nil
			case 1:
				h.Result, b.BTPDigest, h.NSFilter = []byte{}, nil, nil
				exotic = true
			case 2:
				h.Result, b.BTPDigest, h.NSFilter = resultWith(r, nil, nil), nil, nil
			case 3:
				h.Result, b.BTPDigest, h.NSFilter = resultWith(r, nil, randBytes(r, 3)), nil, []byte{}
				exotic = true
			default:
				ids := []int64{int64(r.Intn(300))}
				for opt(0.5) {
					ids = append(ids, int64(r.Intn(300)))
				}
				d := digestWith(r, ids...)
				h.Result, b.BTPDigest, h.NSFilter = resultWith(r, sha(d), nil), d, filterBytes(ids...)
			}
			what = append(what, "result")
		}
		g.emitDec("crafted_valid", enc(h, b), expect{Accept: !exotic, Comment: src.label + " " + strings.Join(what, " ")})
	}
}

// header of one block, body parts of another / altered: must be rejected
func (g *gen) genBodySwap() {
	r := g.c.Rand
	w := g.w
	n := g.c.N(110)
	for i := 0; i < n; i++ {
		a := g.pick()
		k := r.Intn(12)
		if k >= 10 && r.Intn(3) > 0 {
			// digest / filter alterations: mostly on the blocks that carry a digest
			var withDigest []*honest
			for _, x := range g.honest {
				if x.bf.BTPDigest != nil {
					withDigest = append(withDigest, x)
				}
			}
			if len(withDigest) > 0 {
				a = withDigest[r.Intn(len(withDigest))]
			}
		}
		h, b := cpH(a.hf), cpB(a.bf)
		var what string
		changed := false
		k2 := -1
		label := a.label
		if r.Intn(100) < 35 {
			// a consistent base the fixtures do not produce: patch transactions (and, for a
			// block without any, normal ones) with the header's roots recomputed
			np := 1 + r.Intn(2)
			b.PatchTransactions = nil
			for j := 0; j < np; j++ {
				b.PatchTransactions = append(b.PatchTransactions, testTxBytes(r))
			}
			h.PatchTransactionsHash = w.rootOfBytes(b.PatchTransactions)
			if len(b.NormalTransactions) == 0 {
				for j := 0; j < 1+r.Intn(3); j++ {
					b.NormalTransactions = append(b.NormalTransactions, testTxBytes(r))
				}
				h.NormalTransactionsHash = w.rootOfBytes(b.NormalTransactions)
			}
			label += fmt.Sprintf(" (+%d patch, %d normal, roots recomputed)", np, len(b.NormalTransactions))
			if r.Intn(2) == 0 {
				k, k2 = -1, r.Intn(6)
			}
		}
		base := cpB(b)
		switch k2 {
		case 0: // every patch transaction stripped: nil list
			b.PatchTransactions = nil
			what = "patch transactions stripped (nil list)"
		case 1:
			b.PatchTransactions = [][]byte{}
			what = "patch transactions stripped (empty list)"
		case 2:
			b.PatchTransactions = b.PatchTransactions[:len(b.PatchTransactions)-1]
			what = "last patch transaction removed"
		case 3:
			if r.Intn(2) == 0 {
				b.NormalTransactions = nil
			} else {
				b.NormalTransactions = [][]byte{}
			}
			what = "normal transactions stripped"
		case 4:
			b.PatchTransactions, b.NormalTransactions = nil, nil
			what = "all transactions stripped"
		case 5:
			b.PatchTransactions[r.Intn(len(b.PatchTransactions))] = testTxBytes(r)
			what = "a patch transaction replaced"
		}
		switch k {
		case 0, 1: // whole body of another block
			d := g.pick()
			b = cpB(d.bf)
			changed = !bytes.Equal(a.bb, d.bb)
			what = "body of " + d.label
		case 2: // normal transactions of another block
			d := g.pick()
			b.NormalTransactions = d.bf.NormalTransactions
			changed = !eqBss(a.bf.NormalTransactions, d.bf.NormalTransactions)
			what = "normal transactions of " + d.label
		case 3: // one transaction removed
			if l := len(b.NormalTransactions); l > 0 {
				j := r.Intn(l)
				b.NormalTransactions = append(append([][]byte{}, b.NormalTransactions[:j]...), b.NormalTransactions[j+1:]...)
				changed = true
				what = fmt.Sprintf("transaction %d removed", j)
			}
		case 4: // two transactions swapped
			if l := len(b.NormalTransactions); l > 1 {
				j := r.Intn(l - 1)
				if !bytes.Equal(b.NormalTransactions[j], b.NormalTransactions[j+1]) {
					b.NormalTransactions[j], b.NormalTransactions[j+1] = b.NormalTransactions[j+1], b.NormalTransactions[j]
					changed = true
					what = fmt.Sprintf("transactions %d,%d swapped", j, j+1)
				}
			}
		case 5: // one transaction replaced by another valid one
			if l := len(b.NormalTransactions); l > 0 {
				j := r.Intn(l)
				b.NormalTransactions[j] = testTxBytes(r)
				changed = true
				what = fmt.Sprintf("transaction %d replaced", j)
			}
		case 6: // a transaction added (normal or patch)
			if r.Intn(2) == 0 {
				b.NormalTransactions = append(b.NormalTransactions, testTxBytes(r))
				what = "normal transaction appended"
			} else {
				b.PatchTransactions = append(b.PatchTransactions, testTxBytes(r))
				what = "patch transaction added"
			}
			changed = true
		case 7: // a transaction duplicated / lists exchanged
			if l := len(b.NormalTransactions); l > 0 {
				if r.Intn(2) == 0 {
					b.NormalTransactions = append(b.NormalTransactions, b.NormalTransactions[r.Intn(l)])
					what = "transaction duplicated"
				} else {
					b.PatchTransactions, b.NormalTransactions = b.NormalTransactions, b.PatchTransactions
					what = "patch and normal lists exchanged"
				}
				changed = true
			}
		case 8: // votes of another block
			d := g.pick()
			b.Votes = d.bf.Votes
			changed = !bytes.Equal(a.bf.Votes, d.bf.Votes)
			what = "votes of " + d.label
		case 9: // votes altered: another round, re-marshalled / nil
			if r.Intn(3) == 0 {
				// nil votes decode to the empty vote list: a change only if the block has votes
				b.Votes = nil
				changed = !bytes.Equal(a.bf.Votes, consensus.NewEmptyCommitVoteList().Bytes())
				what = "votes nil"
			} else if cvl, ok := w.nd.Chain.CommitVoteSetDecoder()(b.Votes).(*consensus.CommitVoteList); ok && cvl != nil {
				var raw []interface{}
				_ = raw
				items, _ := splitList(b.Votes)
				if len(items) >= 3 {
					items[0] = rlpItem(int64(cvl.Round) + 1 + int64(r.Intn(5)))
					b.Votes = rlpList(items...)
					changed = true
					what = "votes round altered"
				}
			}
		case 10: // BTP digest altered / dropped / added
			if b.BTPDigest != nil {
				switch r.Intn(3) {
				case 0:
					b.BTPDigest = nil
					what = "digest dropped"
				case 1:
					b.BTPDigest = digestWith(r, 1)
					what = "digest replaced (same filter)"
				case 2:
					b.BTPDigest = digestWith(r, int64(2+r.Intn(200)))
					what = "digest replaced"
				}
			} else {
				// under a header that commits to no digest: with a network digest (filter differs),
				// with network types but no network digest, and with no network type at all
				// (both derive an empty filter, like the header's absent one)
				switch r.Intn(4) {
				case 0:
					b.BTPDigest = digestWith(r, int64(r.Intn(200)))
					if r.Intn(2) == 0 {
						h.NSFilter = filterBytes(1)
					}
					what = "digest added"
				case 1:
					b.BTPDigest = digestWith(r)
					what = "digest added: a network type without network digests"
				case 2:
					b.BTPDigest = rlpList(rlpList(rlpList(rlpItem(int64(1+r.Intn(5))), rlpStr([]byte("eth")), rlpStr(randBytes(r, 32)), rlpList()),
						rlpList(rlpItem(int64(7+r.Intn(5))), rlpStr([]byte("icon")), rlpStr(randBytes(r, 32)), rlpList())))
					what = "digest added: two network types without network digests"
				case 3:
					b.BTPDigest = rlpList(rlpList())
					what = "digest added: no network type"
				}
			}
			changed = true
		case 11: // header filter altered against the digest
			if h.NSFilter != nil {
				if r.Intn(2) == 0 {
					h.NSFilter = nil
				} else {
					h.NSFilter = []byte{h.NSFilter[0] ^ byte(1<<uint(r.Intn(8)))}
				}
			} else {
				h.NSFilter = []byte{byte(1 + r.Intn(255))}
			}
			changed = true
			what = "header filter altered"
		}
		_ = changed
		// what was done must have changed the contents of the body or, for the filter, the header
		if !w.bodyDiffers(base, b) && !(k == 11) {
			i--
			continue
		}
		g.emitDec("body_swap", enc(h, b), expect{Reject: true, Comment: label + ": " + what})
	}
}

// single header field changed
func (g *gen) genHeaderMut() {
	r := g.c.Rand
	n := g.c.N(70)
	flip := func(b []byte) []byte {
		if len(b) == 0 {
			return randBytes(r, 32)
		}
		c := append([]byte{}, b...)
		c[r.Intn(len(c))] ^= byte(1 << uint(r.Intn(8)))
		return c
	}
	for i := 0; i < n; i++ {
		a := g.pick()
		h, b := cpH(a.hf), cpB(a.bf)
		ex := expect{}
		neutral := false
		var what string
		switch k := r.Intn(13); k {
		case 0:
			h.Height += 1 + r.Int63n(5)
			what = "height"
		case 1:
			h.Timestamp -= 1 + r.Int63n(1000)
			what = "timestamp"
		case 2:
			h.Proposer = append([]byte{0}, randBytes(r, 20)...)
			what = "proposer"
		case 3:
			h.PrevID = flip(h.PrevID)
			what = "prevID"
		case 4:
			h.NextValidatorsHash = flip(h.NextValidatorsHash)
			what = "nextValidatorsHash"
		case 5:
			h.LogsBloom = common.Compress(append([]byte{1}, randBytes(r, 5)...))
			what = "logsBloom"
		case 6:
			h.VotesHash = flip(h.VotesHash)
			ex.Reject = true
			what = "votesHash"
		case 7:
			h.PatchTransactionsHash = flip(h.PatchTransactionsHash)
			ex.Reject = true
			what = "patchTransactionsHash"
		case 8:
			h.NormalTransactionsHash = flip(h.NormalTransactionsHash)
			ex.Reject = true
			what = "normalTransactionsHash"
		case 9:
			// votes hash := next validators hash and vice versa (only when they differ)
			if bytes.Equal(h.VotesHash, h.NextValidatorsHash) {
				i--
				continue
			}
			h.VotesHash, h.NextValidatorsHash = h.NextValidatorsHash, h.VotesHash
			ex.Reject = true
			what = "votesHash<->nextValidatorsHash"
		case 10:
			// result with other BTP data
			h.Result = resultWith(r, randBytes(r, 32), nil)
			ex.Reject = true
			what = "result BTP data"
		case 11:
			h.Version = []int{0, 1, 3, -1, 258}[r.Intn(5)]
			neutral = true // no version-%d handler today; acceptance would not contradict the property
			what = fmt.Sprintf("version %d", h.Version)
		case 12:
			h.Proposer = randBytes(r, []int{1, 19, 22, 32}[r.Intn(4)]) // not an address
			if len(h.Proposer) == 21 {
				h.Proposer[0] = 2
			}
			neutral = true
			what = "proposer malformed"
		}
		if !ex.Reject && !neutral {
			ex.NotID = hx(a.blk.ID())
			ex.Accept = true
		}
		ex.Comment = a.label + ": " + what
		g.emitDec("header_mutation", enc(h, b), ex)
	}
}

// encodings the marshaller never produces: extra / missing list items, non-minimal forms
func (g *gen) genRawForms() {
	r := g.c.Rand
	n := g.c.N(40)
	for i := 0; i < n; i++ {
		a := g.pick()
		hi, _ := splitList(a.hb)
		bi, _ := splitList(a.bb)
		if hi == nil || bi == nil {
			panic("honest encoding does not split")
		}
		hi = append([][]byte{}, hi...)
		bi = append([][]byte{}, bi...)
		ex := expect{}
		var what string
		switch r.Intn(10) {
		case 0: // extra items in the header list (drained by Close)
			for len(hi) < 12 {
				hi = append(hi, rlpNil)
			}
			hi = append(hi, rlpStr(randBytes(r, r.Intn(5))))
			what = "header list with 13 items"
		case 1: // extra item in the body list
			for len(bi) < 4 {
				bi = append(bi, rlpNil)
			}
			bi = append(bi, rlpList(rlpStr([]byte{1})))
			what = "body list with 5 items"
		case 2: // explicit nil as 12th / 4th item
			if len(hi) == 11 {
				hi = append(hi, rlpNil)
			}
			if len(bi) == 3 {
				bi = append(bi, rlpNil)
			}
			ex.SameIf = hx(a.bytes())
			what = "explicit nil optional fields"
		case 3: // header with 10 items / body with 2
			if r.Intn(2) == 0 {
				hi = hi[:10]
			} else {
				bi = bi[:2]
			}
			what = "missing list items"
		case 4: // non-minimal integer
			hi[1] = append([]byte{0x80 + byte(len(hi[1])+1), 0}, intPayload(hi[1])...)
			ex.SameIf = hx(a.bytes())
			what = "height with a leading zero byte"
		case 5: // nil integers
			hi[1+r.Intn(2)] = rlpNil
			what = "nil height or timestamp"
		case 6: // nil version
			hi[0] = rlpNil
			what = "nil version"
		case 7: // version as a list / long string
			if r.Intn(2) == 0 {
				hi[0] = rlpList([]byte{2})
			} else {
				hi[0] = append([]byte{0xB8, 60}, make([]byte, 60)...)
			}
			what = "version not an integer"
		case 8: // a field as a list where bytes are expected
			hi[3+r.Intn(8)] = rlpList(rlpStr([]byte{1, 2}))
			what = "list in a bytes field"
		case 9: // body transaction element nil / list
			if r.Intn(2) == 0 {
				bi[1] = rlpList(rlpNil)
			} else {
				bi[1] = rlpList(rlpList())
			}
			what = "malformed transaction element"
		}
		ex.Comment = a.label + ": " + what
		g.emitDec("raw_form", append(rlpList(hi...), rlpList(bi...)...), ex)
	}
}

func intPayload(item []byte) []byte {
	if len(item) == 1 && item[0] < 0x80 {
		return item
	}
	return item[1:]
}

func (g *gen) genNoise() {
	r := g.c.Rand
	for i := 0; i < g.c.N(40); i++ {
		a := g.pick()
		in := a.bytes()
		k := 1 + r.Intn(3)
		for j := 0; j < k; j++ {
			p := r.Intn(len(in))
			switch r.Intn(3) {
			case 0:
				in[p] ^= byte(1 << uint(r.Intn(8)))
			case 1:
				in[p] = byte(r.Intn(256))
			case 2:
				in = append(append(append([]byte{}, in[:p]...), byte(r.Intn(256))), in[p:]...)
			}
		}
		g.emitDec("byte_noise", in, expect{Comment: a.label})
	}
	for i := 0; i < g.c.N(25); i++ {
		n := r.Intn(120)
		if i < 3 {
			n = i
		}
		b := randBytes(r, n)
		if n > 0 && r.Intn(2) == 0 {
			b[0] = 0xC0 + byte(r.Intn(0x40))
		}
		if n > 1 && r.Intn(2) == 0 {
			b[1] = 2
		}
		g.emitDec("random_bytes", b, expect{})
	}
	// hostile sizes
	for _, b := range [][]byte{
		{0xFF, 0xFF, 0xFF, 0xFF, 0xFF, 0xFF, 0xFF, 0xFF, 0xFF, 2},
		{0xFB, 0x7F, 0xFF, 0xFF, 0xFF, 2, 0, 0},
		{0xF9, 0xFF, 0xFF, 2, 0xBB, 0x7F, 0xFF, 0xFF, 0xFF},
		{0xC3, 2, 0xBA, 0x0F},
		append([]byte{0xF8, 60, 2, 0, 0, 0xBA, 0x0F, 0x42, 0x41}, make([]byte, 60)...),
	} {
		g.emitDec("hostile_size", b, expect{Reject: true, Comment: "declared size beyond the input"})
	}
	// the seeds of the repo's fuzz target and its saved corpus
	seeds := [][]byte{
		[]byte("\xf5\x02000000\x80\x8000000000000000000000000000000000000000000000\xde\xc0\xc00000000000000000000000000000"),
		[]byte("\xd0\x02000000\x80\x800000000\xe9\xc0\xc0000000000000000000000000000000000000000"),
	}
	seeds = append(seeds, corpusFiles(filepath.Join(repoDir(), "block", "testdata", "fuzz", fuzzName))...)
	for _, s := range seeds {
		g.emitDec("fuzz_seed", s, expect{})
	}
}

const fuzzName = "FuzzBlockDataFactory_NewBlockDataFromReader"

func repoDir() string {
	if d := os.Getenv("VERIF_REPO"); d != "" {
		return d
	}
	return "/repo"
}

// "go test fuzz v1" corpus files: []byte("...") lines
func corpusFiles(dir string) [][]byte {
	var out [][]byte
	ents, err := os.ReadDir(dir)
	if err != nil {
		return nil
	}
	var names []string
	for _, e := range ents {
		names = append(names, e.Name())
	}
	sort.Strings(names)
	for _, n := range names {
		b, err := os.ReadFile(filepath.Join(dir, n))
		if err != nil {
			continue
		}
		for _, line := range strings.Split(string(b), "\n") {
			line = strings.TrimSpace(line)
			if strings.HasPrefix(line, "[]byte(") && strings.HasSuffix(line, ")") {
				var s string
				if _, err := fmt.Sscanf(line[len("[]byte("):len(line)-1], "%q", &s); err == nil {
					out = append(out, []byte(s))
				}
			}
		}
	}
	return out
}

// BTP digest bytes that do not parse: cut short, inner lists that declare more than their
// parent holds, wrong item kinds — with and without the result committing to them
func (g *gen) genDigestForms() {
	r := g.c.Rand
	for i := 0; i < g.c.N(24); i++ {
		a := g.pick()
		h, b := cpH(a.hf), cpB(a.bf)
		var d []byte
		var what string
		base := digestWith(r, int64(r.Intn(200)), int64(r.Intn(200)))
		switch i % 6 {
		case 0:
			d = base[:len(base)-1-r.Intn(len(base)-2)]
			what = "digest cut short"
		case 1:
			ntd := append([]byte{0xe7, 0x01, 0x83, 'e', 't', 'h', 0xa0}, randBytes(r, 32)...)
			ntd = append(ntd, 0xc0+byte(1+r.Intn(20)))
			d = rlpList(rlpList(ntd))
			what = "network digest list declares more than its parent holds"
		case 2:
			d = rlpList(rlpList(rlpList(rlpItem(int64(1)), rlpStr([]byte("eth")), rlpStr(randBytes(r, 32)), rlpList([]byte{1}))))
			what = "network digest is not a list"
		case 3:
			d = rlpList(rlpStr(randBytes(r, 5)))
			what = "network type digests is a string"
		case 4:
			d = randBytes(r, 1+r.Intn(40))
			what = "random digest bytes"
		case 5:
			d = []byte{}
			what = "empty digest bytes"
		}
		if r.Intn(2) == 0 {
			h.Result = resultWith(r, sha(d), nil)
			what += ", committed by the result"
		}
		b.BTPDigest = d
		g.emitDec("digest_malformed", enc(h, b), expect{Comment: a.label + ": " + what})
	}
}

// the defect found while building this check: a negative network id in the digest
func (g *gen) genNegativeNID() {
	r := g.c.Rand
	a := g.honest[0]
	for _, id := range []int64{-1, -8} {
		h, b := cpH(a.hf), cpB(a.bf)
		d := digestWith(r, id)
		h.Result, b.BTPDigest = resultWith(r, sha(d), nil), d
		g.emitDec("btp_negative_nid", enc(h, b), expect{Comment: fmt.Sprintf("negative network id %d in the BTP digest", id)})
	}
}

// thorough tier: the repo's native fuzz target, in a scratch copy of the tree
func (g *gen) nativeFuzz(seconds int) {
	tmp, err := os.MkdirTemp("", "c08-fuzz-")
	if err != nil {
		g.c.Note("native fuzz skipped: %v", err)
		return
	}
	defer os.RemoveAll(tmp)
	dst := filepath.Join(tmp, "repo")
	if out, err := exec.Command("cp", "-a", repoDir(), dst).CombinedOutput(); err != nil {
		g.c.Note("native fuzz skipped: cp: %v %s", err, out)
		return
	}
	os.RemoveAll(filepath.Join(dst, ".git"))
	cdir := filepath.Join(dst, "block", "testdata", "fuzz", fuzzName)
	os.MkdirAll(cdir, 0o755)
	before := map[string]bool{}
	if ents, err := os.ReadDir(cdir); err == nil {
		for _, e := range ents {
			before[e.Name()] = true
		}
	}
	// seed the fuzzer with the honest encodings
	for i, h := range g.honest {
		name := fmt.Sprintf("c08seed-%02d", i)
		os.WriteFile(filepath.Join(cdir, name), []byte(fmt.Sprintf("go test fuzz v1\n[]byte(%q)\n", string(h.bytes()))), 0o644)
		before[name] = true
	}
	cmd := exec.Command("go", "test", "-run", "^$", "-fuzz", "^"+fuzzName+"$", "-fuzztime", fmt.Sprintf("%ds", seconds), "./block/")
	cmd.Dir = dst
	cmd.Env = append(os.Environ(), "GOFLAGS=-mod=mod", "GOPROXY=off", "GOSUMDB=off", "GOTOOLCHAIN=local", "GOCACHE="+filepath.Join(tmp, "gocache"))
	out, err := cmd.CombinedOutput()
	tail := string(out)
	if len(tail) > 600 {
		tail = tail[len(tail)-600:]
	}
	g.c.Note("native fuzz %ds: err=%v tail=%q", seconds, err, tail)
	newCrashers := 0
	if ents, err := os.ReadDir(cdir); err == nil {
		for _, e := range ents {
			if before[e.Name()] {
				continue
			}
			for _, in := range corpusFiles2(filepath.Join(cdir, e.Name())) {
				newCrashers++
				msg, _ := g.w.oracle(in, expect{})
				if msg == "" {
					msg = "the native fuzz target reports a crash on this input (not reproduced by the harness decode)"
				}
				g.c.Emit(hxlib.Case{Kind: "native_fuzz_crasher", Nontrivial: true, Key: hx(in),
					Input: decIn{Kind: "native_fuzz_crasher", Hex: hx(in)}, OracleErr: "native fuzz crasher: " + msg})
			}
		}
	}
	g.c.Note("native fuzz: %d new crasher(s)", newCrashers)
}

func corpusFiles2(file string) [][]byte {
	dir, base := filepath.Split(file)
	tmp, err := os.MkdirTemp("", "c08-one-")
	if err != nil {
		return nil
	}
	defer os.RemoveAll(tmp)
	b, err := os.ReadFile(filepath.Join(dir, base))
	if err != nil {
		return nil
	}
	os.WriteFile(filepath.Join(tmp, base), b, 0o644)
	return corpusFiles(tmp)
}

// corpus/C08/*.json: inputs that once violated the property, run first
func corpusDir() string {
	if d := os.Getenv("C08_CORPUS"); d != "" {
		return d
	}
	wd, _ := os.Getwd()
	for d := wd; d != "/" && d != "."; d = filepath.Dir(d) {
		p := filepath.Join(d, "corpus", "C08")
		if st, err := os.Stat(p); err == nil && st.IsDir() {
			return p
		}
	}
	return "/verif/corpus/C08"
}

func (g *gen) genCorpus() {
	names, _ := filepath.Glob(filepath.Join(corpusDir(), "*.json"))
	sort.Strings(names)
	if len(names) == 0 {
		g.c.Note("no corpus inputs found in %s", corpusDir())
	}
	for _, n := range names {
		b, err := os.ReadFile(n)
		if err != nil {
			continue
		}
		var doc struct {
			Input decIn `json:"input"`
		}
		if err := json.Unmarshal(b, &doc); err != nil || doc.Input.Hex == "" {
			g.c.Note("corpus file %s skipped: %v", n, err)
			continue
		}
		ex := doc.Input.Expect
		if ex.Comment == "" {
			ex.Comment = "corpus " + filepath.Base(n)
		}
		g.emitDec("corpus", unhex(doc.Input.Hex), ex)
	}
}

func (g *gen) canaries() {
	h := g.honest[0]
	in := h.bytes()
	r := g.w.decode(in, true)
	if r.err != nil || r.obs == nil {
		return
	}
	e := g.w.envFor(in, r)
	e.addH(h.hb)
	wrong := *r.obs
	wrong.Height++
	resetIntern()
	g.c.Emit(hxlib.Case{Kind: "canary", Canary: true,
		Coq: wrapLets(fmt.Sprintf("CDec %s %s (Some (%s, %s, 0))", e.coq(), cb(in), wrong.coq(), cb(r.obs.ID)))})
	badID := append([]byte{}, r.obs.ID...)
	badID[0] ^= 1
	resetIntern()
	g.c.Emit(hxlib.Case{Kind: "canary", Canary: true,
		Coq: wrapLets(fmt.Sprintf("CEnc %s %s %s %s %s", e.coq(), r.obs.coq(), cb(h.hb), cb(h.bb), cb(badID)))})
	// a rejected input reported as accepted
	resetIntern()
	g.c.Emit(hxlib.Case{Kind: "canary", Canary: true,
		Coq: wrapLets(fmt.Sprintf("CDec %s %s (Some (%s, %s, 0))", e.coq(), cb(in[:len(in)-1]), r.obs.coq(), cb(r.obs.ID)))})
}

func genAll(c *hxlib.Ctx) {
	w := newWorld()
	defer w.close()
	g := &gen{c: c, w: w}
	g.honest = append(g.honest, w.chainA()...)
	for n := 1; n <= 4; n++ {
		g.honest = append(g.honest, w.chainB(n)...)
	}
	if len(w.t.errs) > 0 {
		c.Note("fixture assertions: %s", strings.Join(w.t.errs, " | "))
	}
	g.genCorpus()
	g.genHonest()
	g.genCrafted()
	g.genBodySwap()
	g.genHeaderMut()
	g.genRawForms()
	g.genNoise()
	g.genNegativeNID()
	g.genDigestForms()
	g.genComponents()
	if c.Tier == "thorough" && !c.OracleOnly {
		g.nativeFuzz(90)
	}
	if !c.OracleOnly {
		g.canaries()
	}
}

func replay(raw json.RawMessage) string {
	var in decIn
	if err := json.Unmarshal(raw, &in); err != nil {
		return "bad replay input: " + err.Error()
	}
	w := newWorld()
	defer w.close()
	msg, _ := w.oracle(unhex(in.Hex), in.Expect)
	return msg
}

func main() {
	if len(os.Args) > 1 && os.Args[1] == "worker" {
		workerMain()
		return
	}
	hxlib.Main(hxlib.Spec{
		ID: "C08",
		Rule: "blocks of five fixture chains (one node with a BTP network, messages and 0-5 transactions per block; 1-4 validators with commit vote lists of 0-4 items) are marshalled (MarshalHeader+MarshalBody) and decoded by BlockDataFactory.NewBlockDataFromReader; " +
			"derived inputs: consistent blocks re-assembled by the harness (patch/normal transactions, votes, proposer forms, nil/empty fields, extreme integers, synthetic BTP digests and filters), header of one block with body parts of another or altered (must be rejected), single header field changes, " +
			"a structure-aware malformed stream for every component the decoder parses (commit vote lists with signatures of 0..130 bytes, part-set ids, NTSD proofs; patch/normal transaction lists with JSON v2/v3, binary v3 and test transactions in valid and broken forms; BTP digests; results; next-validators hashes) embedded in honest blocks with and without the header hash recomputed, " +
			"list forms the marshaller never produces, truncated and extended encodings, byte noise, random bytes, hostile sizes, the fuzz target's seeds (thorough: 90 s of the native fuzz target seeded with the honest encodings). " +
			"A case is non-trivial when both format structs decode, i.e. the hash comparisons are reached.",
		Shard:  120,
		Gen:    genAll,
		Replay: replay,
	})
}

var _ = module.BlockVersion2
