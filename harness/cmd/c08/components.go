package main

// Structure-aware malformed stream for every body component the decoder parses before or
// while it hashes (votes, patch / normal transaction lists, BTP digest) and for the two
// header fields it hands to other packages (result, next validators hash).  Each variant
// is embedded in an otherwise honest block twice: as it is (the decoder parses and hashes
// the component, then refuses the hash), and — after the child process has shown that the
// parsers return on it — with the header's hash fields recomputed so that the decoder gets
// past the comparison.  No expectation beyond the general oracle: no panic, no hang, and
// whatever is accepted is bound to its header.

import (
	"encoding/base64"
	"fmt"
	"math"
	"math/rand"
	"strings"

	"github.com/icon-project/goloop/block"
	"github.com/icon-project/goloop/module"
	"github.com/icon-project/goloop/service/transaction"
	"github.com/icon-project/goloop/test"

	"verif/harness/hxlib"
)

type variant struct {
	what string
	raw  []byte
}

// ---------------------------------------------------------------- votes

func voteItem(ts []byte, sig []byte) []byte { return rlpList(ts, sig) }

func psid(count uint64, hash []byte) []byte { return rlpList(rlpItem(count), rlpOpt(hash)) }

func cvl(round, id, items []byte, more ...[]byte) []byte {
	return rlpList(append([][]byte{round, id, items}, more...)...)
}

func voteVariants(r *rand.Rand) []variant {
	var vs []variant
	add := func(what string, raw []byte) { vs = append(vs, variant{what, raw}) }
	ts := rlpItem(int64(1000 + r.Intn(1000)))
	goodID := psid(1, randBytes(r, 32))
	sigOf := func(n int) []byte { return rlpStr(randBytes(r, n)) }
	for _, n := range []int{0, 1, 63, 64, 65, 66, 130} {
		add(fmt.Sprintf("vote item with a %d-byte signature", n), cvl([]byte{0}, goodID, rlpList(voteItem(ts, sigOf(n)))))
	}
	add("vote item with a 64-byte zero signature", cvl([]byte{0}, rlpNil, rlpList(voteItem([]byte{1}, rlpStr(make([]byte, 64))))))
	add("two items, the second with a 64-byte signature",
		cvl([]byte{0}, goodID, rlpList(voteItem(ts, sigOf(65)), voteItem(ts, sigOf(64)))))
	add("vote item with a nil signature", cvl([]byte{0}, goodID, rlpList(voteItem(ts, rlpNil))))
	for _, v := range []byte{2, 3, 4, 27, 28, 255} {
		s := randBytes(r, 65)
		s[64] = v
		add(fmt.Sprintf("vote item with recovery id %d", v), cvl([]byte{0}, goodID, rlpList(voteItem(ts, rlpStr(s)))))
	}
	add("vote item with a signature given as a list", cvl([]byte{0}, goodID, rlpList(voteItem(ts, rlpList(rlpStr(randBytes(r, 65)))))))
	add("vote item with a nil timestamp", cvl([]byte{0}, goodID, rlpList(voteItem(rlpNil, sigOf(65)))))
	add("vote item with a 9-byte timestamp", cvl([]byte{0}, goodID, rlpList(voteItem(rlpStr(randBytes(r, 9)), sigOf(65)))))
	add("vote item that is a string", cvl([]byte{0}, goodID, rlpList(rlpStr(randBytes(r, 70)))))
	add("vote item with one field", cvl([]byte{0}, goodID, rlpList(rlpList(ts))))
	add("vote item with three fields", cvl([]byte{0}, goodID, rlpList(rlpList(ts, sigOf(65), []byte{1}))))
	add("nil item list", cvl([]byte{0}, goodID, rlpNil))
	add("item list is a string", cvl([]byte{0}, goodID, rlpStr(randBytes(r, 10))))
	add("nil part set id", cvl([]byte{0}, rlpNil, rlpList(voteItem(ts, sigOf(65)))))
	add("part set id is a string", cvl([]byte{0}, rlpStr(randBytes(r, 33)), rlpList()))
	add("part set id with one field", cvl([]byte{0}, rlpList([]byte{1}), rlpList()))
	add("part set id with a nil hash", cvl([]byte{0}, psid(1, nil), rlpList()))
	add("part set id with a 9-byte count word", cvl([]byte{0}, rlpList(rlpStr(append([]byte{1}, make([]byte, 8)...)), rlpStr(randBytes(r, 32))), rlpList()))
	add("part set id with count word 2^64-1", cvl([]byte{0}, psid(^uint64(0), randBytes(r, 32)), rlpList()))
	add("part set id with three fields", cvl([]byte{0}, rlpList([]byte{1}, rlpStr(randBytes(r, 32)), []byte{7}), rlpList()))
	add("negative round", cvl(rlpItem(int64(-1)), goodID, rlpList()))
	add("round 2^31", cvl(rlpItem(int64(1)<<31), goodID, rlpList()))
	add("nil round", cvl(rlpNil, goodID, rlpList()))
	add("round is a list", cvl(rlpList(), goodID, rlpList()))
	add("empty NTSD proof list", cvl([]byte{0}, goodID, rlpList(), rlpList()))
	add("nil NTSD proof list", cvl([]byte{0}, goodID, rlpList(), rlpNil))
	add("NTSD proofs: nil and bytes", cvl([]byte{0}, goodID, rlpList(voteItem(ts, sigOf(65))), rlpList(rlpNil, rlpStr(randBytes(r, 40)))))
	add("NTSD proof that is a list", cvl([]byte{0}, goodID, rlpList(), rlpList(rlpList(rlpStr(randBytes(r, 4))))))
	add("NTSD proofs is a string", cvl([]byte{0}, goodID, rlpList(), rlpStr(randBytes(r, 4))))
	add("five fields", cvl([]byte{0}, goodID, rlpList(), rlpList(), []byte{1}))
	add("two fields", rlpList([]byte{0}, goodID))
	add("empty list", rlpList())
	add("empty string", []byte{})
	add("one byte", []byte{0})
	add("items declare more than the list holds", cvlShort(goodID))
	add("200 items with 1-byte signatures", cvl([]byte{0}, goodID, rlpList(manyItems(r, 200)...)))
	add("random bytes", randBytes(r, 1+r.Intn(80)))
	return vs
}

func cvlShort(id []byte) []byte {
	// [0, id, <list header declaring 5 bytes, none present>]
	p := append(append([]byte{0}, id...), 0xc5)
	return append(rlpLen(len(p), 0xC0, 0xF7), p...)
}

func manyItems(r *rand.Rand, n int) [][]byte {
	var out [][]byte
	for i := 0; i < n; i++ {
		out = append(out, voteItem([]byte{1}, rlpStr(randBytes(r, 1))))
	}
	return out
}

// ---------------------------------------------------------------- transactions

const (
	addrA = "hx54f7853dc6481b670caf69c5a27c7c8fe5be8269"
	addrB = "hx49a23bd156932485471f582897bf1bec5f875751"
)

func v3JSON(r *rand.Rand, sigLen int, extra string) []byte {
	sig := base64.StdEncoding.EncodeToString(randBytes(r, sigLen))
	return []byte(fmt.Sprintf(`{"version":"0x3","from":"%s","to":"%s","value":"0x%x","stepLimit":"0x%x","timestamp":"0x%x","nid":"0x1","nonce":"0x1","signature":"%s"%s}`,
		addrA, addrB, r.Int63n(1<<40), r.Int63n(1<<20), r.Int63n(1<<50), sig, extra))
}

func v2JSON(r *rand.Rand, sigLen int) []byte {
	sig := base64.StdEncoding.EncodeToString(randBytes(r, sigLen))
	return []byte(fmt.Sprintf(`{"from":"%s","to":"%s","value":"0x%x","fee":"0x2386f26fc10000","timestamp":"%d","nonce":"0x1","tx_hash":"%x","signature":"%s","method":"icx_sendTransaction"}`,
		addrA, addrB, r.Int63n(1<<40), r.Int63n(1<<50), randBytes(r, 32), sig))
}

// the binary form of a version-3 transaction, through the repo's own encoder
func v3Binary(js []byte) []byte {
	var out []byte
	hxlib.Catch(func() {
		tx, err := transaction.NewTransactionFromJSON(js)
		if err == nil && tx != nil {
			out = append([]byte{}, tx.Bytes()...)
		}
	})
	return out
}

func txVariants(r *rand.Rand) []variant {
	var vs []variant
	addL := func(what string, items ...[]byte) { vs = append(vs, variant{what, rlpList(items...)}) }
	tt := func() []byte { return rlpStr(testTxBytes(r)) }
	addL("version-3 JSON transaction, 65-byte signature", rlpStr(v3JSON(r, 65, "")))
	addL("version-3 JSON transaction, 64-byte signature", rlpStr(v3JSON(r, 64, "")))
	addL("version-3 JSON transaction, 1-byte signature", rlpStr(v3JSON(r, 1, "")))
	addL("version-3 JSON transaction, empty signature", rlpStr(v3JSON(r, 0, "")))
	addL("version-3 JSON transaction with data", rlpStr(v3JSON(r, 65, `,"dataType":"call","data":{"method":"f","params":{"a":"0x1"}}`)))
	addL("version-3 JSON transaction with a number in data", rlpStr(v3JSON(r, 65, `,"dataType":"message","data":1.5`)))
	addL("version-3 JSON transaction with an unknown dataType", rlpStr(v3JSON(r, 65, `,"dataType":"zz","data":[]`)))
	addL("version-3 JSON transaction, version 0x4", rlpStr([]byte(strings.Replace(string(v3JSON(r, 65, "")), `"0x3"`, `"0x4"`, 1))))
	addL("version-3 JSON transaction, version 0x2", rlpStr([]byte(strings.Replace(string(v3JSON(r, 65, "")), `"0x3"`, `"0x2"`, 1))))
	addL("version-3 JSON transaction, version a number", rlpStr([]byte(strings.Replace(string(v3JSON(r, 65, "")), `"0x3"`, `3`, 1))))
	addL("version-3 JSON without from", rlpStr([]byte(strings.Replace(string(v3JSON(r, 65, "")), `"from":"`+addrA+`",`, ``, 1))))
	addL("version-2 JSON transaction, 65-byte signature", rlpStr(v2JSON(r, 65)))
	addL("version-2 JSON transaction, 64-byte signature", rlpStr(v2JSON(r, 64)))
	addL("JSON object of no known kind", rlpStr([]byte(`{"a":1}`)))
	addL("JSON object with version null", rlpStr([]byte(`{"version":null}`)))
	addL("empty JSON object", rlpStr([]byte(`{}`)))
	addL("opening brace only", rlpStr([]byte(`{`)))
	addL("JSON nested 3000 deep", rlpStr([]byte(strings.Repeat(`{"a":`, 3000)+`1`+strings.Repeat(`}`, 3000))))
	addL("test transaction with validators and calls", rlpStr([]byte(`{"type":"test","timestamp":"0x5","validators":["`+addrA+`"],"nextBlockVersion":"0x3","call":[{"from":"`+addrB+`","data":{"method":"x","params":{}}}]}`)))
	addL("test transaction with a bad address", rlpStr([]byte(`{"type":"test","timestamp":"0x5","validators":["hx12"]}`)))
	addL("test transaction with timestamp a number", rlpStr([]byte(`{"type":"test","timestamp":5}`)))
	addL("test transaction twice", tt(), tt())
	if b65 := v3Binary(v3JSON(r, 65, "")); len(b65) > 4 {
		addL("version-3 binary transaction", rlpStr(b65))
		addL("version-3 binary transaction cut short", rlpStr(b65[:len(b65)-1-r.Intn(len(b65)/2)]))
		c := append([]byte{}, b65...)
		c[1+r.Intn(len(c)-1)] ^= byte(1 << uint(r.Intn(8)))
		addL("version-3 binary transaction with a flipped bit", rlpStr(c))
		if it, _ := splitList(b65); len(it) > 3 {
			it = append([][]byte{}, it...)
			it[0] = []byte{4}
			addL("version-3 binary transaction, version 4", rlpStr(rlpList(it...)))
			it[0] = []byte{3}
			for i := range it {
				if len(it[i]) >= 66 {
					it[i] = rlpStr(randBytes(r, 64))
					addL("version-3 binary transaction, 64-byte signature", rlpStr(rlpList(it...)))
					it[i] = rlpNil
					addL("version-3 binary transaction, nil signature", rlpStr(rlpList(it...)))
					break
				}
			}
			addL("version-3 binary transaction with 3 fields", rlpStr(rlpList(it[:3]...)))
		}
	}
	addL("binary: empty list", rlpStr(rlpList()))
	addL("binary: random bytes", rlpStr(randBytes(r, 1+r.Intn(60))))
	addL("empty element", rlpStr([]byte{}))
	addL("nil element", rlpNil)
	addL("nil element after a transaction", tt(), rlpNil)
	addL("element that is a list", rlpList(tt()))
	addL("40 transactions", func() [][]byte {
		var l [][]byte
		for i := 0; i < 40; i++ {
			l = append(l, tt())
		}
		return l
	}()...)
	vs = append(vs, variant{"list given as a string", rlpStr(testTxBytes(r))})
	vs = append(vs, variant{"empty non-nil list", rlpList()})
	vs = append(vs, variant{"list declares more than the body holds", []byte{0xc9, 0x81}})
	return vs
}

// ---------------------------------------------------------------- digest, result, next validators

func digestVariants(r *rand.Rand) []variant {
	var vs []variant
	add := func(what string, raw []byte) { vs = append(vs, variant{what, raw}) }
	h32 := func() []byte { return rlpStr(randBytes(r, 32)) }
	nd := func(id []byte) []byte { return rlpList(id, h32(), rlpNil) }
	ntd := func(id []byte, nds ...[]byte) []byte { return rlpList(id, rlpStr([]byte("eth")), h32(), rlpList(nds...)) }
	add("no network type digests", rlpList(rlpList()))
	add("nil network type digests", rlpList(rlpNil))
	add("network type digest without network digests", rlpList(rlpList(ntd([]byte{1}))))
	add("two network type digests without network digests", rlpList(rlpList(ntd([]byte{1}), ntd([]byte{2}))))
	add("nil network digests", rlpList(rlpList(rlpList([]byte{1}, rlpStr([]byte("eth")), h32(), rlpNil))))
	add("negative network type id", rlpList(rlpList(ntd(rlpItem(int64(-5)), nd([]byte{1})))))
	add("network id 2^63-1", rlpList(rlpList(ntd([]byte{1}, nd(rlpItem(int64(math.MaxInt64)))))))
	add("network id -2^63", rlpList(rlpList(ntd([]byte{1}, nd(rlpItem(int64(math.MinInt64)))))))
	add("9-byte network id", rlpList(rlpList(ntd([]byte{1}, nd(rlpStr(randBytes(r, 9)))))))
	add("nil network id", rlpList(rlpList(ntd([]byte{1}, nd(rlpNil)))))
	add("duplicate network ids", rlpList(rlpList(ntd([]byte{1}, nd([]byte{3}), nd([]byte{3})))))
	add("unsorted network type ids", rlpList(rlpList(ntd([]byte{9}, nd([]byte{3})), ntd([]byte{2}, nd([]byte{4})))))
	add("unknown uid", rlpList(rlpList(rlpList([]byte{1}, rlpStr([]byte("zz-unknown")), h32(), rlpList(nd([]byte{1}))))))
	add("nil uid and hashes", rlpList(rlpList(rlpList([]byte{1}, rlpNil, rlpNil, rlpList(rlpList([]byte{1}, rlpNil, rlpNil))))))
	add("network digest with 2 fields", rlpList(rlpList(ntd([]byte{1}, rlpList([]byte{1}, h32())))))
	add("network digest with 5 fields", rlpList(rlpList(ntd([]byte{1}, rlpList([]byte{1}, h32(), h32(), h32(), h32())))))
	add("network type digest with 2 fields", rlpList(rlpList(rlpList([]byte{1}, rlpStr([]byte("eth"))))))
	add("second top-level field", rlpList(rlpList(), rlpStr(randBytes(r, 3))))
	add("300 network digests", rlpList(rlpList(ntd([]byte{1}, func() [][]byte {
		var l [][]byte
		for i := 0; i < 300; i++ {
			l = append(l, nd(rlpItem(int64(i))))
		}
		return l
	}()...))))
	add("empty list", rlpList())
	add("one zero byte", []byte{0})
	return vs
}

func resultVariants(r *rand.Rand) []variant {
	var vs []variant
	add := func(what string, raw []byte) { vs = append(vs, variant{what, raw}) }
	h := func() []byte { return rlpStr(randBytes(r, 32)) }
	add("result: flags 0", rlpList(h(), h(), h(), rlpNil, []byte{0}))
	add("result: flags 2", rlpList(h(), h(), h(), rlpNil, []byte{2}))
	add("result: flags 3 with data", rlpList(h(), h(), h(), rlpNil, []byte{3}, h()))
	add("result: flags 1 without data", rlpList(h(), h(), h(), rlpNil, []byte{1}))
	add("result: flags 1 with nil data", rlpList(h(), h(), h(), rlpNil, []byte{1}, rlpNil))
	add("result: flags 1 with a list as data", rlpList(h(), h(), h(), rlpNil, []byte{1}, rlpList(h())))
	add("result: 9-byte flags", rlpList(h(), h(), h(), rlpNil, rlpStr(randBytes(r, 9))))
	add("result: negative flags", rlpList(h(), h(), h(), rlpNil, rlpItem(int64(-1)), h()))
	add("result: nil flags", rlpList(h(), h(), h(), rlpNil, rlpNil))
	add("result: 7 fields", rlpList(h(), h(), h(), rlpNil, []byte{1}, h(), h()))
	add("result: 2 fields", rlpList(h(), h()))
	add("result: empty list", rlpList())
	add("result: nil hashes", rlpList(rlpNil, rlpNil, rlpNil))
	add("result: a hash given as a list", rlpList(rlpList(h()), h(), h()))
	add("result: a string", rlpStr(randBytes(r, 40)))
	add("result: one byte", []byte{1})
	add("result: list declares more than it holds", []byte{0xf8, 0x80, 0xa0, 1, 2, 3})
	add("result: nested 500 deep", append(bytesRepeat(0xc1, 500), 0xc0))
	add("result: random bytes", randBytes(r, 1+r.Intn(100)))
	return vs
}

func bytesRepeat(b byte, n int) []byte {
	out := make([]byte, n)
	for i := range out {
		out[i] = b
	}
	return out
}

func nvhVariants(r *rand.Rand) [][]byte {
	return [][]byte{nil, {}, {0}, randBytes(r, 1), randBytes(r, 31), randBytes(r, 32), randBytes(r, 33), make([]byte, 32), randBytes(r, 64), randBytes(r, 300)}
}

// ---------------------------------------------------------------- assembly

// header items and body items of an honest block, as raw RLP items
func (g *gen) rawParts(a *honest) (hi, bi [][]byte) {
	h, _ := splitList(a.hb)
	b, _ := splitList(a.bb)
	hi = append([][]byte{}, h...)
	bi = append([][]byte{}, b...)
	for len(hi) < 12 {
		hi = append(hi, rlpNil)
	}
	for len(bi) < 4 {
		bi = append(bi, rlpNil)
	}
	return
}

func assemble(hi, bi [][]byte) []byte { return append(rlpList(hi...), rlpList(bi...)...) }

// header item indices
const (
	hiVotesHash = 5
	hiNVH       = 6
	hiPatchHash = 7
	hiNormHash  = 8
	hiResult    = 10
	hiNSFilter  = 11
)

func usable(r *decRes) bool { return r != nil && !r.timeout && !r.noTables && r.panicked == "" }

func (g *gen) genComponents() {
	r := g.c.Rand
	w := g.w
	rounds := 1
	if g.c.Scale > 1 {
		rounds = 4
	}
	for round := 0; round < rounds; round++ {
		// votes
		for _, v := range voteVariants(r) {
			a := g.pick()
			hi, bi := g.rawParts(a)
			bi[2] = rlpStr(v.raw)
			res := g.emitDec("votes_malformed", assemble(hi, bi), expect{Comment: a.label + ": votes: " + v.what})
			if !usable(res) {
				continue
			}
			// the hash the decoder will compute, now that the child has shown the parser returns
			var hash []byte
			hxlib.Catch(func() {
				if vs := w.nd.Chain.CommitVoteSetDecoder()(v.raw); vs != nil {
					hash = sha(vs.Bytes())
				}
			})
			if hash == nil {
				continue
			}
			hi[hiVotesHash] = rlpStr(hash)
			g.emitDec("votes_malformed", assemble(hi, bi), expect{Comment: a.label + ": votes (hash recomputed): " + v.what})
		}
		// transaction lists
		for _, v := range txVariants(r) {
			for _, slot := range []int{0, 1} {
				if slot == 0 && r.Intn(3) > 0 && g.c.Scale == 1 {
					continue // patch slot: a third of the variants in the quick tier
				}
				a := g.pick()
				hi, bi := g.rawParts(a)
				bi[slot] = v.raw
				name := []string{"patch", "normal"}[slot]
				res := g.emitDec("tx_malformed", assemble(hi, bi), expect{Comment: fmt.Sprintf("%s: %s transactions: %s", a.label, name, v.what)})
				if !usable(res) {
					continue
				}
				in := assemble(hi, bi)
				_, bf := parseFormats(in)
				if bf == nil {
					continue
				}
				bss := [][][]byte{bf.PatchTransactions, bf.NormalTransactions}[slot]
				txs, _, ok := w.parseTxList(flatBss(bss), nil)
				if !ok {
					continue
				}
				root := w.rootOf(txs)
				hi[[]int{hiPatchHash, hiNormHash}[slot]] = rlpOpt(root)
				g.emitDec("tx_malformed", assemble(hi, bi), expect{Comment: fmt.Sprintf("%s: %s transactions (root recomputed): %s", a.label, name, v.what)})
			}
		}
		// digest: as it is, committed by the result, and with the filter the code derives
		for _, v := range digestVariants(r) {
			a := g.pick()
			hi, bi := g.rawParts(a)
			bi[3] = rlpStr(v.raw)
			res := g.emitDec("digest_malformed", assemble(hi, bi), expect{Comment: a.label + ": digest: " + v.what})
			if !usable(res) {
				continue
			}
			hi[hiResult] = rlpStr(resultWith(r, sha(v.raw), nil))
			res = g.emitDec("digest_malformed", assemble(hi, bi), expect{Comment: a.label + ": digest (committed by the result): " + v.what})
			if !usable(res) {
				continue
			}
			var filter []byte
			okf := false
			hxlib.Catch(func() {
				e := w.envFor(assemble(hi, bi), nil)
				for _, d := range e.Digest {
					if d.ok {
						filter, okf = d.filter, true
					}
				}
			})
			if okf {
				hi[hiNSFilter] = rlpOpt(filter)
				g.emitDec("digest_malformed", assemble(hi, bi), expect{Comment: a.label + ": digest (committed, filter recomputed): " + v.what})
			}
		}
		// header fields handed to other packages
		for _, v := range resultVariants(r) {
			a := g.pick()
			hi, bi := g.rawParts(a)
			hi[hiResult] = rlpStr(v.raw)
			g.emitDec("header_field_malformed", assemble(hi, bi), expect{Comment: a.label + ": " + v.what})
		}
		for _, v := range nvhVariants(r) {
			a := g.pick()
			hi, bi := g.rawParts(a)
			hi[hiNVH] = rlpOpt(v)
			g.emitDec("header_field_malformed", assemble(hi, bi), expect{Comment: fmt.Sprintf("%s: next validators hash of %d bytes", a.label, len(v))})
		}
	}
}

var _ = block.V2String
var _ = module.BlockVersion2
var _ = test.VarTest
