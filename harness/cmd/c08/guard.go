package main

// A child process of the same binary ("worker" mode) decodes every input first.  A decoder
// that never returns or allocates without bound then kills only the child: the parent
// waits with a time limit, the child runs under an address-space limit.  The parent runs
// an input in-process (for the full observation) only after the child has answered.

import (
	"bufio"
	"encoding/hex"
	"fmt"
	"io"
	"os"
	"os/exec"
	"strings"
	"syscall"
	"time"

	"github.com/icon-project/goloop/btp"
	"github.com/icon-project/goloop/module"

	"verif/harness/hxlib"
)

const (
	guardTimeout  = 8 * time.Second
	guardMemLimit = 3 << 30 // bytes of address space for the child
)

type guard struct {
	cmd   *exec.Cmd
	in    io.WriteCloser
	out   *bufio.Reader
	lines chan string
}

func startGuard() (*guard, error) {
	cmd := exec.Command(os.Args[0], "worker")
	cmd.Stderr = io.Discard
	in, err := cmd.StdinPipe()
	if err != nil {
		return nil, err
	}
	outp, err := cmd.StdoutPipe()
	if err != nil {
		return nil, err
	}
	if err := cmd.Start(); err != nil {
		return nil, err
	}
	g := &guard{cmd: cmd, in: in, out: bufio.NewReaderSize(outp, 1<<16), lines: make(chan string, 16)}
	go func() {
		defer close(g.lines)
		for {
			l, err := g.out.ReadString('\n')
			if l != "" {
				g.lines <- strings.TrimSpace(l)
			}
			if err != nil {
				return
			}
		}
	}()
	// the child announces itself once its node is up
	select {
	case l, ok := <-g.lines:
		if !ok || l != "READY" {
			g.kill()
			return nil, fmt.Errorf("worker did not start: %q", l)
		}
	case <-time.After(120 * time.Second):
		g.kill()
		return nil, fmt.Errorf("worker did not start in time")
	}
	return g, nil
}

func (g *guard) kill() {
	if g == nil || g.cmd == nil {
		return
	}
	_ = g.in.Close()
	_ = g.cmd.Process.Kill()
	go func() { _ = g.cmd.Wait() }()
}

type probeRes struct {
	decoder string // "ok", "err", "panic: ...", "hang" (no answer: timeout or the child died)
	tables  bool   // the calls the harness makes for the model's tables returned as well
}

// wait for a line with the given prefix
func (g *guard) expect(prefix string) (string, bool) {
	deadline := time.After(guardTimeout)
	for {
		select {
		case l, ok := <-g.lines:
			if !ok {
				return "", false
			}
			if strings.HasPrefix(l, prefix) {
				return strings.TrimPrefix(l, prefix), true
			}
		case <-deadline:
			return "", false
		}
	}
}

func (w *world) probe(in []byte) probeRes {
	if w.noGuard {
		return probeRes{decoder: "ok", tables: true}
	}
	if w.g == nil {
		g, err := startGuard()
		if err != nil {
			panic(fmt.Sprintf("cannot start the guard process: %v", err))
		}
		w.g = g
	}
	if _, err := fmt.Fprintf(w.g.in, "%s\n", hex.EncodeToString(in)); err != nil {
		w.g.kill()
		w.g = nil
		return w.probe(in)
	}
	d, ok := w.g.expect("D:")
	if !ok {
		w.g.kill()
		w.g = nil
		return probeRes{decoder: "hang"}
	}
	_, ok = w.g.expect("E:")
	if !ok {
		w.g.kill()
		w.g = nil
		return probeRes{decoder: d}
	}
	return probeRes{decoder: d, tables: true}
}

// worker mode: one hex input per line; answers "D:<status>" after the block decoder (both
// reader kinds) and "E:ok" after the calls envFor makes
func workerMain() {
	lim := syscall.Rlimit{Cur: guardMemLimit, Max: guardMemLimit}
	_ = syscall.Setrlimit(syscall.RLIMIT_AS, &lim)
	w := newWorld()
	w.noGuard = true
	out := bufio.NewWriter(os.Stdout)
	fmt.Fprintln(out, "READY")
	out.Flush()
	rd := bufio.NewReaderSize(os.Stdin, 1<<20)
	for {
		line, err := rd.ReadString('\n')
		line = strings.TrimSpace(line)
		if line == "" && err != nil {
			return
		}
		in, herr := hex.DecodeString(line)
		if herr != nil {
			fmt.Fprintln(out, "D:badhex")
			fmt.Fprintln(out, "E:ok")
			out.Flush()
			continue
		}
		status := "ok"
		for _, seekable := range []bool{true, false} {
			var derr error
			p := hxlib.Catch(func() {
				var bd module.BlockData
				bd, derr = w.rawDecode(in, seekable)
				if derr == nil {
					observe(bd)
				}
			})
			if p != "" {
				status = "panic: " + strings.ReplaceAll(p, "\n", " ")
				break
			}
			if derr != nil {
				status = "err"
			}
		}
		fmt.Fprintln(out, "D:"+status)
		out.Flush()
		hxlib.Catch(func() {
			if _, bf := parseFormats(in); bf != nil && bf.BTPDigest != nil {
				if bd, err := btp.NewDigestFromBytes(bf.BTPDigest); err == nil {
					bd.NetworkSectionFilter()
				}
			}
			w.envFor(in, nil)
		})
		fmt.Fprintln(out, "E:ok")
		out.Flush()
		if err != nil {
			return
		}
	}
}
