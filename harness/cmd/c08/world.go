package main

import (
	"bytes"
	"fmt"
	"io"
	"strings"

	"github.com/icon-project/goloop/block"
	"github.com/icon-project/goloop/common/crypto"
	"github.com/icon-project/goloop/common/log"
	"github.com/icon-project/goloop/common/wallet"
	"github.com/icon-project/goloop/consensus"
	"github.com/icon-project/goloop/module"
	"github.com/icon-project/goloop/service/platform/basic"
	"github.com/icon-project/goloop/test"
)

// ---------------------------------------------------------------- fixture

type quietT struct{ errs []string }

func (t *quietT) Errorf(format string, args ...interface{}) {
	t.errs = append(t.errs, fmt.Sprintf(format, args...))
}
func (t *quietT) Logf(format string, args ...any) {}

func mkWallet(i int) module.Wallet {
	b := make([]byte, 32)
	b[0] = 8
	b[30] = byte(i >> 8)
	b[31] = byte(i + 1)
	sk, err := crypto.ParsePrivateKey(b)
	if err != nil {
		panic(err)
	}
	w, err := wallet.NewFromPrivateKey(sk)
	if err != nil {
		panic(err)
	}
	return w
}

func genesisFor(ws []module.Wallet) string {
	var vs []string
	for _, w := range ws {
		vs = append(vs, fmt.Sprintf("%q", w.Address().String()))
	}
	return fmt.Sprintf(`{"accounts":[{"name":"treasury","address":"hx1000000000000000000000000000000000000000","balance":"0x0"},{"name":"god","address":"hx0000000000000000000000000000000000000000","balance":"0x0"}],"message":"","nid":"0x1","chain":{"validatorList":[%s]}}`, strings.Join(vs, ","))
}

func quiet(nd *test.Node) {
	nd.Chain.Logger().SetOutput(io.Discard)
	nd.Chain.Logger().SetLevel(log.PanicLevel)
}

// the node whose block data factory decodes everything
type world struct {
	t   *quietT
	nd  *test.Node
	bdf module.BlockDataFactory
	// other nodes to close
	extra []*test.Node
	// child process that decodes every input first (guard.go); noGuard: this IS the child
	g       *guard
	noGuard bool
}

func newWorld() *world {
	log.GlobalLogger().SetOutput(io.Discard)
	log.GlobalLogger().SetLevel(log.PanicLevel)
	t := &quietT{}
	w0 := mkWallet(0)
	nd := test.NewNode(t, test.UseWallet(w0))
	quiet(nd)
	bdf, err := block.NewBlockDataFactory(nd.Chain, nil)
	if err != nil {
		panic(err)
	}
	return &world{t: t, nd: nd, bdf: bdf}
}

func (w *world) close() {
	w.g.kill()
	for _, n := range append(w.extra, w.nd) {
		func() {
			defer func() { recover() }()
			n.Close()
		}()
	}
}

// a block a node produced, with what the harness needs of it
type honest struct {
	label string
	blk   module.Block
	hb    []byte // MarshalHeader
	bb    []byte // MarshalBody
	hf    *block.V2HeaderFormat
	bf    *block.V2BodyFormat
}

func (h *honest) bytes() []byte { return append(append([]byte{}, h.hb...), h.bb...) }

func mkHonest(label string, blk module.Block) *honest {
	var hb, bb bytes.Buffer
	if err := blk.MarshalHeader(&hb); err != nil {
		panic(err)
	}
	if err := blk.MarshalBody(&bb); err != nil {
		panic(err)
	}
	hf, bf, err := block.FormatFromBlock(blk)
	if err != nil {
		panic(err)
	}
	return &honest{label: label, blk: blk, hb: hb.Bytes(), bb: bb.Bytes(), hf: hf, bf: bf}
}

func plainTx(ts int64, tag string) string {
	tx := test.NewTx().SetTimestamp(ts)
	if tag != "" {
		tx.SetVarTest(&tag)
	}
	return tx.String()
}

// chain A: one node; revision raised, a BTP network opened, messages sent, blocks with
// 0..5 transactions, vote lists of the node itself (empty list at height 1)
func (w *world) chainA() []*honest {
	const dsa = "ecdsa/secp256k1"
	nd := w.nd
	var out []*honest
	add := func(label string) { out = append(out, mkHonest("A/"+label, nd.LastBlock)) }
	sendAll := func(txs ...string) {
		for _, tx := range txs {
			if _, err := nd.SM.SendTransaction(nil, 0, tx); err != nil {
				panic(err)
			}
		}
	}
	propose := func(votes module.CommitVoteSet) {
		defer func() {
			if r := recover(); r != nil {
				panic(fmt.Sprintf("chain A: %v; fixture errors: %s", r, strings.Join(w.t.errs, " | ")))
			}
		}()
		bc := nd.ProposeBlock(votes)
		nd.FinalizeBlock(bc)
		bc.Dispose()
	}
	// 1: open the BTP network
	sendAll(test.NewTx().SetValidatorsNode(nd).Call("setRevision", map[string]string{
		"code": fmt.Sprintf("0x%x", basic.MaxRevision),
	}).CallFrom(nd.CommonAddress(), "setBTPPublicKey", map[string]string{
		"name":   dsa,
		"pubKey": fmt.Sprintf("0x%x", nd.Chain.WalletFor(dsa).PublicKey()),
	}).Call("openBTPNetwork", map[string]string{
		"networkTypeName": "eth",
		"name":            "eth-test",
		"owner":           nd.CommonAddress().String(),
	}).String())
	propose(consensus.NewEmptyCommitVoteList())
	add("h1-open-btp")
	// 2: result block, digest with one network type
	propose(consensus.NewEmptyCommitVoteList())
	add("h2-digest")
	// 3: a message and two plain transactions
	sendAll(test.NewTx().CallFrom(nd.CommonAddress(), "sendBTPMessage", map[string]string{
		"networkId": "0x1",
		"message":   fmt.Sprintf("0x%x", []byte("c08 message")),
	}).String(), plainTx(11, "a"), plainTx(12, "b"))
	propose(consensus.NewEmptyCommitVoteList()) // voters of block 2 = next validators of block 1: none yet
	add("h3-msg-3tx")
	// 4: digest with the message; votes with an NTS proof
	propose(nd.NewVoteListForLastBlock())
	add("h4-digest-msg")
	// 5: five transactions
	sendAll(plainTx(21, ""), plainTx(22, "x"), plainTx(23, "y"), plainTx(24, "z"), plainTx(25, "zz"))
	propose(nd.NewVoteListForLastBlock())
	add("h5-5tx")
	// 6: empty
	propose(nd.NewVoteListForLastBlock())
	add("h6-empty")
	// 7: one transaction
	sendAll(plainTx(31, "one"))
	propose(nd.NewVoteListForLastBlock())
	add("h7-1tx")
	return out
}

// chain B: n validator nodes with deterministic wallets; commit vote lists of n (n = 4: 3 or 4) items
func (w *world) chainB(n int) []*honest {
	ws := make([]module.Wallet, n)
	for i := range ws {
		ws[i] = mkWallet(10*n + i)
	}
	gs := genesisFor(ws)
	var nodes []*test.Node
	for i := range ws {
		nd := test.NewNode(w.t, test.UseGenesis(gs), test.UseWallet(ws[i]))
		quiet(nd)
		nodes = append(nodes, nd)
	}
	w.extra = append(w.extra, nodes...)
	nd := nodes[0]
	f := &test.Fixture{Node: nd, BaseConfig: test.NewFixtureConfig(w.t), Nodes: nodes, Validators: nodes}
	var out []*honest
	votesFor := func(k int) module.CommitVoteSet {
		// the precommits of the first k validators for the last block
		sub := &test.Fixture{Node: nd, BaseConfig: f.BaseConfig, Nodes: nodes, Validators: nodes[:k]}
		return sub.NewCommitVoteListForLastBlock(0, 0)
	}
	propose := func(votes module.CommitVoteSet, label string, txs ...string) {
		for _, tx := range txs {
			if _, err := nd.SM.SendTransaction(nil, 0, tx); err != nil {
				panic(err)
			}
		}
		bc := nd.ProposeBlock(votes)
		nd.FinalizeBlock(bc)
		bc.Dispose()
		out = append(out, mkHonest(fmt.Sprintf("B%d/%s", n, label), nd.LastBlock))
	}
	propose(consensus.NewEmptyCommitVoteList(), "h1-novotes")
	// Propose verifies the votes for the last block: more than 2/3 of the n validators
	ks := []int{n, n, n}
	if n == 4 {
		ks = []int{4, 3, 4, 3}
	}
	for i, k := range ks {
		var txs []string
		for j := 0; j < (i+n)%3; j++ {
			txs = append(txs, plainTx(int64(100*n+10*i+j), fmt.Sprintf("b%d-%d-%d", n, i, j)))
		}
		propose(votesFor(k), fmt.Sprintf("h%d-%dvotes-%dtx", i+2, k, len(txs)), txs...)
	}
	return out
}
