package main

import (
	"bytes"
	"fmt"
	"strings"
	"time"

	"golang.org/x/crypto/sha3"

	"github.com/icon-project/goloop/block"
	"github.com/icon-project/goloop/btp"
	"github.com/icon-project/goloop/common/codec"
	"github.com/icon-project/goloop/module"
	"github.com/icon-project/goloop/service"
	"github.com/icon-project/goloop/service/txresult"

	"verif/harness/hxlib"
)

func sha(b []byte) []byte {
	h := sha3.Sum256(b)
	return h[:]
}

// ---------------------------------------------------------------- observed block

// what module.BlockData shows of a block (the Coq record `block`)
type obsBlock struct {
	Height    int64
	Timestamp int64
	Proposer  []byte // nil = no proposer
	Prev      []byte
	Bloom     []byte
	Result    []byte
	Patch     [][]byte
	Normal    [][]byte
	NVH       []byte
	Votes     []byte
	NSFilter  []byte
	Digest    []byte
	ID        []byte
}

func txBytes(l module.TransactionList) ([][]byte, []module.Transaction) {
	var bss [][]byte
	var txs []module.Transaction
	if l == nil {
		return nil, nil
	}
	for it := l.Iterator(); it.Has(); {
		tx, _, err := it.Get()
		if err != nil {
			panic(err)
		}
		bss = append(bss, append([]byte{}, tx.Bytes()...))
		txs = append(txs, tx)
		if err := it.Next(); err != nil {
			panic(err)
		}
	}
	return bss, txs
}

func observe(bd module.BlockData) *obsBlock {
	o := &obsBlock{Height: bd.Height(), Timestamp: bd.Timestamp(), Prev: bd.PrevID(), Result: bd.Result(),
		NVH: bd.NextValidatorsHash(), ID: bd.ID()}
	if p := bd.Proposer(); p != nil {
		o.Proposer = p.Bytes()
	}
	o.Bloom = bd.LogsBloom().CompressedBytes()
	o.Patch, _ = txBytes(bd.PatchTransactions())
	o.Normal, _ = txBytes(bd.NormalTransactions())
	o.Votes = bd.Votes().Bytes()
	o.NSFilter = bd.NetworkSectionFilter().Bytes()
	dg, err := bd.BTPDigest()
	if err != nil {
		panic(err)
	}
	o.Digest = dg.Bytes()
	// accessors a consumer of the decoded block calls next
	if blk, ok := bd.(module.Block); ok {
		_ = blk.NextValidators()
	}
	_ = dg.Hash()
	_ = dg.NTSHashEntryCount()
	return o
}

func eqOpt(a, b []byte) bool { return (a == nil) == (b == nil) && bytes.Equal(a, b) }
func eqBss(a, b [][]byte) bool {
	if len(a) != len(b) {
		return false
	}
	for i := range a {
		if !bytes.Equal(a[i], b[i]) {
			return false
		}
	}
	return true
}

// field-by-field comparison; "" when equal
func (o *obsBlock) diff(p *obsBlock) string {
	var d []string
	chk := func(name string, ok bool) {
		if !ok {
			d = append(d, name)
		}
	}
	chk("height", o.Height == p.Height)
	chk("timestamp", o.Timestamp == p.Timestamp)
	chk("proposer", eqOpt(o.Proposer, p.Proposer))
	chk("prevID", eqOpt(o.Prev, p.Prev))
	chk("logsBloom", bytes.Equal(o.Bloom, p.Bloom))
	chk("result", eqOpt(o.Result, p.Result))
	chk("patchTransactions", eqBss(o.Patch, p.Patch))
	chk("normalTransactions", eqBss(o.Normal, p.Normal))
	chk("nextValidatorsHash", eqOpt(o.NVH, p.NVH))
	chk("votes", bytes.Equal(o.Votes, p.Votes))
	chk("nsFilter", eqOpt(o.NSFilter, p.NSFilter))
	chk("btpDigest", eqOpt(o.Digest, p.Digest))
	chk("id", bytes.Equal(o.ID, p.ID))
	return strings.Join(d, ",")
}

// ---------------------------------------------------------------- running the decoder

type decRes struct {
	bd       module.BlockData
	obs      *obsBlock
	err      error
	panicked string
	timeout  bool
	unread   int
	noTables bool // the table-building calls did not return in the child: no Coq term for this case
}

const decodeTimeout = 20 * time.Second

// plainReader hides Seek/Peek so that PeekVersion takes its bufio path
type plainReader struct{ r *bytes.Reader }

func (p plainReader) Read(b []byte) (int, error) { return p.r.Read(b) }

func (w *world) rawDecode(in []byte, seekable bool) (module.BlockData, error) {
	rd := bytes.NewReader(append([]byte{}, in...))
	if seekable {
		return w.bdf.NewBlockDataFromReader(rd)
	}
	return w.bdf.NewBlockDataFromReader(plainReader{rd})
}

func (w *world) decode(in []byte, seekable bool) *decRes {
	res := &decRes{}
	done := make(chan struct{})
	cp := append([]byte{}, in...)
	go func() {
		defer close(done)
		rd := bytes.NewReader(cp)
		res.panicked = hxlib.Catch(func() {
			if seekable {
				res.bd, res.err = w.bdf.NewBlockDataFromReader(rd)
			} else {
				res.bd, res.err = w.bdf.NewBlockDataFromReader(plainReader{rd})
			}
			if res.err == nil {
				res.unread = rd.Len()
				res.obs = observe(res.bd)
				// what the repo's fuzz target does with an accepted block
				var sink bytes.Buffer
				if err := res.bd.Marshal(&sink); err != nil {
					panic(fmt.Sprintf("Marshal of an accepted block fails: %v", err))
				}
			}
		})
	}()
	select {
	case <-done:
	case <-time.After(decodeTimeout):
		res.timeout = true
	}
	return res
}

// ---------------------------------------------------------------- tables for the model

// the values of the model's Section variables on the arguments this input makes it ask for
type env struct {
	H      [][2][]byte
	Root   []rootEnt
	Tx     []txEnt
	Votes  []votesEnt
	Digest []digestEnt
	Result []resultEnt
	Bloom  []bloomEnt
}
type rootEnt struct {
	l [][]byte
	h []byte
}
type txEnt struct {
	in  []byte
	ok  bool
	out []byte
}
type votesEnt struct {
	in  []byte // nil kept
	ok  bool
	out []byte
}
type digestEnt struct {
	in     []byte
	ok     bool
	filter []byte
}
type resultEnt struct {
	in  []byte
	ok  bool
	out []byte
}
type bloomEnt struct {
	in  []byte
	out []byte
}

func (e *env) addH(b []byte) { e.H = append(e.H, [2][]byte{append([]byte{}, b...), sha(b)}) }

// parse the two format structs with the repo's codec; nil when the input does not get that far
func parseFormats(in []byte) (hf *block.V2HeaderFormat, bf *block.V2BodyFormat) {
	hxlib.Catch(func() {
		r := bytes.NewReader(in)
		var h block.V2HeaderFormat
		if err := codec.BC.Unmarshal(r, &h); err != nil {
			return
		}
		hf = &h
		var b block.V2BodyFormat
		if err := codec.BC.Unmarshal(r, &b); err != nil {
			return
		}
		bf = &b
	})
	return
}

func (w *world) parseTxList(bss [][]byte, e *env) ([]module.Transaction, [][]byte, bool) {
	sm := w.nd.Chain.ServiceManager()
	var txs []module.Transaction
	var canon [][]byte
	ok := true
	for _, bs := range bss {
		var tx module.Transaction
		var err error
		p := hxlib.Catch(func() { tx, err = sm.TransactionFromBytes(bs, module.BlockVersion2) })
		if p != "" || err != nil || tx == nil {
			if e != nil {
				e.Tx = append(e.Tx, txEnt{in: bs})
			}
			ok = false
			continue
		}
		var c []byte
		if hxlib.Catch(func() { c = append([]byte{}, tx.Bytes()...) }) != "" {
			if e != nil {
				e.Tx = append(e.Tx, txEnt{in: bs})
			}
			ok = false
			continue
		}
		if e != nil {
			e.Tx = append(e.Tx, txEnt{in: bs, ok: true, out: c})
		}
		txs = append(txs, tx)
		canon = append(canon, c)
	}
	return txs, canon, ok
}

func (w *world) rootOf(txs []module.Transaction) (root []byte) {
	if p := hxlib.Catch(func() {
		root = w.nd.Chain.ServiceManager().TransactionListFromSlice(txs, module.BlockVersion2).Hash()
	}); p != "" {
		return []byte("root panics: " + p)
	}
	return root
}

func flatBss(bss [][]byte) [][]byte {
	out := make([][]byte, len(bss))
	for i, b := range bss {
		if b == nil {
			out[i] = []byte{}
		} else {
			out[i] = b
		}
	}
	return out
}

func (w *world) envFor(in []byte, accepted *decRes) *env {
	e := &env{}
	hf, bf := parseFormats(in)
	if hf == nil || bf == nil {
		return e
	}
	for _, bss := range [][][]byte{bf.PatchTransactions, bf.NormalTransactions} {
		txs, canon, ok := w.parseTxList(flatBss(bss), e)
		if ok {
			e.Root = append(e.Root, rootEnt{l: canon, h: w.rootOf(txs)})
		}
	}
	var vs module.CommitVoteSet
	hxlib.Catch(func() { vs = w.nd.Chain.CommitVoteSetDecoder()(bf.Votes) })
	var vb []byte
	if vs != nil && hxlib.Catch(func() { vb = append([]byte{}, vs.Bytes()...) }) != "" {
		vs = nil // a list whose Bytes() panics: no canonical bytes
	}
	if vs == nil {
		e.Votes = append(e.Votes, votesEnt{in: bf.Votes})
	} else {
		e.Votes = append(e.Votes, votesEnt{in: bf.Votes, ok: true, out: vb})
		e.addH(vb)
	}
	if bf.BTPDigest != nil {
		de := digestEnt{in: bf.BTPDigest}
		hxlib.Catch(func() {
			bd, err := btp.NewDigestFromBytes(bf.BTPDigest)
			if err != nil {
				return
			}
			f := bd.NetworkSectionFilter()
			de.filter = f.Bytes()
			de.ok = true
		})
		e.Digest = append(e.Digest, de)
		e.addH(bf.BTPDigest)
	}
	re := resultEnt{in: hf.Result}
	hxlib.Catch(func() {
		h, err := service.BTPDigestHashFromResult(hf.Result)
		if err != nil {
			return
		}
		re.ok, re.out = true, h
	})
	e.Result = append(e.Result, re)
	hxlib.Catch(func() {
		e.Bloom = append(e.Bloom, bloomEnt{in: hf.LogsBloom, out: txresult.NewLogsBloomFromCompressed(hf.LogsBloom).CompressedBytes()})
	})
	if accepted != nil && accepted.bd != nil {
		// the id: SHA3 of the header the accepted block marshals
		hxlib.Catch(func() {
			var hb bytes.Buffer
			if err := accepted.bd.MarshalHeader(&hb); err == nil {
				e.addH(hb.Bytes())
			}
		})
	}
	return e
}

// ---------------------------------------------------------------- Coq printers

// cb prints a byte string: short ones as a list literal, long ones as
// (pw n (W8 w1 .. w8 (W8 .. WE)))%uint63 — see coq/run/Run_C08.v.  Within one case a long
// string is printed once and bound by a let (interned), since tables, input and observed
// block repeat the same strings.
var interned = map[string]int{}
var internDefs []string

func resetIntern() { interned = map[string]int{}; internDefs = nil }

// wrapLets closes the term of a case over the strings interned while it was printed
func wrapLets(term string) string {
	if len(internDefs) == 0 {
		return term
	}
	var sb strings.Builder
	sb.WriteString("(")
	for i, d := range internDefs {
		fmt.Fprintf(&sb, "let s%d := %s in ", i, d)
	}
	sb.WriteString(term + ")")
	resetIntern()
	return sb.String()
}

func cb(b []byte) string {
	if len(b) <= 8 {
		return hxlib.CoqBytes(b)
	}
	if i, ok := interned[string(b)]; ok {
		return fmt.Sprintf("s%d", i)
	}
	var words []uint64
	for i := 0; i < len(b); i += 7 {
		j := i + 7
		if j > len(b) {
			j = len(b)
		}
		var w uint64
		for _, x := range b[i:j] {
			w = w<<8 | uint64(x)
		}
		words = append(words, w)
	}
	for len(words)%8 != 0 {
		words = append(words, 0)
	}
	var sb strings.Builder
	fmt.Fprintf(&sb, "(pw %d ", len(b))
	for i := 0; i < len(words); i += 8 {
		fmt.Fprintf(&sb, "(W8 %d %d %d %d %d %d %d %d ", words[i], words[i+1], words[i+2], words[i+3], words[i+4], words[i+5], words[i+6], words[i+7])
	}
	sb.WriteString("WE" + strings.Repeat(")", len(words)/8) + ")%uint63")
	n := len(internDefs)
	interned[string(b)] = n
	internDefs = append(internDefs, sb.String())
	return fmt.Sprintf("s%d", n)
}

func coqOpt(b []byte) string { return hxlib.CoqOpt(b != nil, cb(b)) }

func coqBss(bss [][]byte) string {
	items := make([]string, len(bss))
	for i, b := range bss {
		items[i] = cb(b)
	}
	return hxlib.CoqList(items)
}

func (o *obsBlock) coq() string {
	return fmt.Sprintf("(Build_block %s %s %s %s %s %s %s %s %s %s %s %s)",
		hxlib.CoqZ(o.Height), hxlib.CoqZ(o.Timestamp), coqOpt(o.Proposer), coqOpt(o.Prev),
		cb(o.Bloom), coqOpt(o.Result), coqBss(o.Patch), coqBss(o.Normal),
		coqOpt(o.NVH), cb(o.Votes), coqOpt(o.NSFilter), coqOpt(o.Digest))
}

func (e *env) coq() string {
	var hs, rs, ts, vs, ds, res, bs []string
	for _, x := range e.H {
		hs = append(hs, fmt.Sprintf("(%s, %s)", cb(x[0]), cb(x[1])))
	}
	for _, x := range e.Root {
		rs = append(rs, fmt.Sprintf("(%s, %s)", coqBss(x.l), coqOpt(x.h)))
	}
	for _, x := range e.Tx {
		ts = append(ts, fmt.Sprintf("(%s, %s)", cb(x.in), hxlib.CoqOpt(x.ok, cb(x.out))))
	}
	for _, x := range e.Votes {
		vs = append(vs, fmt.Sprintf("(%s, %s)", coqOpt(x.in), hxlib.CoqOpt(x.ok, cb(x.out))))
	}
	for _, x := range e.Digest {
		ds = append(ds, fmt.Sprintf("(%s, %s)", cb(x.in), hxlib.CoqOpt(x.ok, coqOpt(x.filter))))
	}
	for _, x := range e.Result {
		res = append(res, fmt.Sprintf("(%s, %s)", coqOpt(x.in), hxlib.CoqOpt(x.ok, coqOpt(x.out))))
	}
	for _, x := range e.Bloom {
		bs = append(bs, fmt.Sprintf("(%s, %s)", coqOpt(x.in), cb(x.out)))
	}
	return fmt.Sprintf("(Build_env %s %s %s %s %s %s %s)", hxlib.CoqList(hs), hxlib.CoqList(rs),
		hxlib.CoqList(ts), hxlib.CoqList(vs), hxlib.CoqList(ds), hxlib.CoqList(res), hxlib.CoqList(bs))
}

// ---------------------------------------------------------------- the direct oracle

// what the generator knows about an input
type expect struct {
	Reject  bool   `json:"reject,omitempty"`   // the input must not be accepted
	SameAs  string `json:"same_as,omitempty"`  // hex of an honest encoding: accepted, same id and contents
	SameIf  string `json:"same_if,omitempty"`  // hex of an honest encoding: if accepted, same id and contents
	NotID   string `json:"not_id,omitempty"`   // hex id: accepted blocks must have another id
	Accept  bool   `json:"accept,omitempty"`   // consistent crafted block: must be accepted
	Comment string `json:"comment,omitempty"`
}

// independent NS filter: bit (id/8)%32, id%8 for every network id of the digest
func filterOf(dg module.BTPDigest) (f []byte, ok bool) {
	buf := make([]byte, 0, 32)
	ok = true
	for _, ntd := range dg.NetworkTypeDigests() {
		for _, nd := range ntd.NetworkDigests() {
			id := nd.NetworkID()
			if id < 0 {
				return nil, false
			}
			i, o := int(id/8)%32, uint(id%8)
			for len(buf) <= i {
				buf = append(buf, 0)
			}
			buf[i] |= 1 << o
		}
	}
	if len(buf) == 0 {
		return nil, true
	}
	return buf, true
}

// property C08 on one input: "" when it holds
func (w *world) oracle(in []byte, ex expect) (string, *decRes) {
	// a child process goes first: a decoder that hangs or eats memory takes only the child down
	pr := w.probe(in)
	if pr.decoder == "hang" {
		return fmt.Sprintf("decoding %d bytes does not return within %v or exhausts memory (child process killed)", len(in), guardTimeout),
			&decRes{timeout: true}
	}
	r := w.decode(in, true)
	r.noTables = !pr.tables
	if r.timeout {
		return fmt.Sprintf("decoding %d bytes does not return within %v", len(in), decodeTimeout), r
	}
	if r.panicked != "" {
		tag := "decoder panics on input bytes"
		if strings.Contains(ex.Comment, "negative network id") {
			tag = "decoder panics on a BTP digest with a negative network id"
		}
		return fmt.Sprintf("%s: %s", tag, cleanPanic(r.panicked)), r
	}
	// the other reader kind must agree
	r2 := w.decode(in, false)
	if r2.timeout || r2.panicked != "" {
		return fmt.Sprintf("decoder panics or hangs on a non-seekable reader: %s", r2.panicked), r
	}
	if (r.err == nil) != (r2.err == nil) {
		return fmt.Sprintf("seekable and plain reader disagree: err=%v / err=%v", r.err, r2.err), r
	}
	if r.err == nil {
		if d := r.obs.diff(r2.obs); d != "" {
			return "seekable and plain reader decode different blocks: " + d, r
		}
	}
	if r.err != nil {
		if ex.SameAs != "" || ex.Accept {
			return fmt.Sprintf("a well-formed block encoding is rejected: %v", r.err), r
		}
		return "", r
	}
	// accepted
	if ex.Reject {
		return "an encoding whose body does not belong to its header (or that is cut short) is accepted: " + ex.Comment, r
	}
	o := r.obs
	hf, bf := parseFormats(in)
	if hf == nil || bf == nil {
		return "accepted although the format structs do not decode", r
	}
	// body bound to header: hashes recomputed from the DECODED contents vs the header fields of the INPUT
	sm := w.nd.Chain.ServiceManager()
	for _, g := range []struct {
		name string
		l    module.TransactionList
		hdr  []byte
	}{{"patch", r.bd.PatchTransactions(), hf.PatchTransactionsHash}, {"normal", r.bd.NormalTransactions(), hf.NormalTransactionsHash}} {
		_, txs := txBytes(g.l)
		root := sm.TransactionListFromSlice(txs, module.BlockVersion2).Hash()
		if !bytes.Equal(root, g.hdr) {
			return fmt.Sprintf("accepted block: root of the decoded %s transactions %x differs from the header field %x", g.name, root, g.hdr), r
		}
	}
	if !bytes.Equal(sha(o.Votes), hf.VotesHash) {
		return fmt.Sprintf("accepted block: hash of the decoded votes %x differs from the header's votes hash %x", sha(o.Votes), hf.VotesHash), r
	}
	rh, err := service.BTPDigestHashFromResult(hf.Result)
	if err != nil {
		return fmt.Sprintf("accepted block: the header's result does not parse: %v", err), r
	}
	var dh []byte
	if o.Digest != nil {
		dh = sha(o.Digest)
	}
	if !bytes.Equal(rh, dh) {
		return fmt.Sprintf("accepted block: hash of the decoded BTP digest %x differs from the result's BTP data %x", dh, rh), r
	}
	dg, err := r.bd.BTPDigest()
	if err != nil {
		return fmt.Sprintf("accepted block: BTPDigest(): %v", err), r
	}
	if f, ok := filterOf(dg); ok && !bytes.Equal(f, hf.NSFilter) {
		return fmt.Sprintf("accepted block: network section filter of the decoded digest %x differs from the header's %x", f, hf.NSFilter), r
	}
	if !bytes.Equal(o.NSFilter, hf.NSFilter) {
		return fmt.Sprintf("accepted block: NetworkSectionFilter() %x differs from the header's %x", o.NSFilter, hf.NSFilter), r
	}
	// id = SHA3 of the header the block marshals, and nothing else
	var hb, bb bytes.Buffer
	if err := r.bd.MarshalHeader(&hb); err != nil {
		return fmt.Sprintf("accepted block: MarshalHeader: %v", err), r
	}
	if err := r.bd.MarshalBody(&bb); err != nil {
		return fmt.Sprintf("accepted block: MarshalBody: %v", err), r
	}
	if !bytes.Equal(o.ID, sha(hb.Bytes())) {
		return fmt.Sprintf("accepted block: ID %x is not SHA3-256 of its marshalled header %x", o.ID, sha(hb.Bytes())), r
	}
	// header fields of the decoded block are those of the input header
	if o.Height != hf.Height || o.Timestamp != hf.Timestamp || !eqOpt(o.Prev, hf.PrevID) ||
		!eqOpt(o.Result, hf.Result) || !eqOpt(o.NVH, hf.NextValidatorsHash) {
		return "accepted block: height/timestamp/prevID/result/nextValidatorsHash differ from the input header", r
	}
	// re-encoding is stable
	re := append(append([]byte{}, hb.Bytes()...), bb.Bytes()...)
	r3 := w.decode(re, true)
	if r3.panicked != "" || r3.timeout || r3.err != nil {
		return fmt.Sprintf("the re-encoding of an accepted block is not accepted: %v %s", r3.err, r3.panicked), r
	}
	if d := o.diff(r3.obs); d != "" {
		return "the re-encoding of an accepted block decodes to a different block: " + d, r
	}
	var hb3, bb3 bytes.Buffer
	_ = r3.bd.MarshalHeader(&hb3)
	_ = r3.bd.MarshalBody(&bb3)
	if !bytes.Equal(hb3.Bytes(), hb.Bytes()) || !bytes.Equal(bb3.Bytes(), bb.Bytes()) {
		return "re-encoding twice gives different bytes", r
	}
	if ex.SameAs == "" && ex.SameIf != "" {
		ex.SameAs = ex.SameIf
	}
	if ex.SameAs != "" {
		orig := unhex(ex.SameAs)
		r0 := w.decode(orig, true)
		if r0.err != nil || r0.obs == nil {
			return fmt.Sprintf("the honest encoding itself is rejected: %v %s", r0.err, r0.panicked), r
		}
		if d := o.diff(r0.obs); d != "" {
			return "decodes to a block that differs from the honest one in: " + d, r
		}
	}
	if ex.NotID != "" && bytes.Equal(o.ID, unhex(ex.NotID)) {
		return "a block with a different header has the same id: " + ex.Comment, r
	}
	return "", r
}

// canonical votes bytes of a body field (nil decodes to the empty list); raw bytes when the
// decoder refuses them
func (w *world) canonVotes(bs []byte) []byte {
	out := bs
	hxlib.Catch(func() {
		if vs := w.nd.Chain.CommitVoteSetDecoder()(bs); vs != nil {
			out = vs.Bytes()
		}
	})
	return out
}

// do two bodies differ in what they contain (nil and empty lists alike)
func (w *world) bodyDiffers(x, y *block.V2BodyFormat) bool {
	return !eqBss(x.PatchTransactions, y.PatchTransactions) || !eqBss(x.NormalTransactions, y.NormalTransactions) ||
		!bytes.Equal(w.canonVotes(x.Votes), w.canonVotes(y.Votes)) || !eqOpt(x.BTPDigest, y.BTPDigest)
}

// a panic raised through the logger prints a logrus entry (pointers, wall clock): keep its message
func cleanPanic(s string) string {
	if i := strings.Index(s, " panic 0x"); i >= 0 && strings.HasPrefix(s, "&{") {
		rest := s[i+len(" panic 0x"):]
		if j := strings.Index(rest, " "); j >= 0 {
			rest = rest[j+1:]
		}
		return strings.TrimSuffix(strings.TrimSpace(strings.TrimSuffix(strings.TrimSpace(rest), "}")), "<nil> <nil>")
	}
	return s
}
