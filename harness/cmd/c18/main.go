// c18: trie proofs (ompt GetProof / Prove) are sound and complete.
// For a random trie: proofs of stored and absent keys, every single-element
// mutation of a valid proof, proofs under other keys and against other roots.
// Each observation goes to the Coq model (Run_C18) and through the direct oracle.
package main

import (
	"bytes"
	"encoding/hex"
	"encoding/json"
	"fmt"
	"math/rand"
	"os"
	"path/filepath"
	"sort"
	"strings"

	"github.com/icon-project/goloop/common/db"
	"github.com/icon-project/goloop/common/errors"
	"github.com/icon-project/goloop/common/trie"
	"github.com/icon-project/goloop/common/trie/ompt"
	"github.com/icon-project/goloop/common/trie/trie_manager"
	"verif/harness/hxlib"
	tl "verif/harness/trielib"
)

type trieIn struct {
	KVs  [][2]string `json:"sets"` // hex key, hex value, in order
	Dels []string    `json:"deletes"`
	Seed int64       `json:"query_seed"`
	// First: what is called first on the fresh snapshot: "" / "hash" = Hash(), "proof" =
	// GetProof of a stored key, "proof-absent" = GetProof of an absent key, "flush" = Flush()
	First string `json:"first_call,omitempty"`
}

func hx(b []byte) string { return hex.EncodeToString(b) }
func unhx(s string) []byte {
	b, _ := hex.DecodeString(s)
	if b == nil {
		b = []byte{}
	}
	return b
}

// blob registry: every byte string used as a proof element, once
type blobs struct {
	idx  map[string]int
	list [][]byte
}

func (b *blobs) id(x []byte) int {
	if i, ok := b.idx[string(x)]; ok {
		return i
	}
	i := len(b.list)
	b.idx[string(x)] = i
	b.list = append(b.list, append([]byte(nil), x...))
	return i
}

func (b *blobs) refs(p [][]byte) string {
	items := make([]string, len(p))
	for i, x := range p {
		items[i] = fmt.Sprintf("%d%%nat", b.id(x))
	}
	return "[" + strings.Join(items, ";") + "]"
}

func (b *blobs) coq() string {
	items := make([]string, len(b.list))
	for i, x := range b.list {
		items[i] = "(" + tl.Bx(x) + "," + tl.Bx(tl.Sha3(x)) + ")"
	}
	return "[" + strings.Join(items, ";\n  ") + "]"
}

// result of one Prove call, both API flavours
type proveObs struct {
	class string // val nil notfound illegal other
	val   []byte
}

func (o proveObs) coq() string {
	switch o.class {
	case "val":
		return "(RVal " + tl.Bx(o.val) + ")"
	case "nil":
		return "RNil"
	case "notfound":
		return "RNotFound"
	case "illegal":
		return "RIllegal"
	}
	return "ROther"
}

// doProve verifies against a trie object that knows nothing but the root hash
// (fresh empty database), as a light client would.
func doProve(root, key []byte, proof [][]byte) (obs proveObs, problem string) {
	cp := make([][]byte, len(proof))
	for i := range proof {
		cp[i] = append([]byte(nil), proof[i]...)
	}
	var obj trie.Object
	var err error
	if p := hxlib.Catch(func() {
		im := ompt.NewImmutableForObject(db.NewMapDB(), root, ompt.VerifBytesObjectType())
		obj, err = im.Prove(key, cp)
	}); p != "" {
		return proveObs{class: "other"}, "Prove (object API) panics: " + p
	}
	switch {
	case err == nil && obj != nil:
		obs = proveObs{class: "val", val: append([]byte(nil), obj.Bytes()...)}
	case err == nil:
		obs = proveObs{class: "nil"}
	case errors.CodeOf(err) == errors.NotFoundError:
		obs = proveObs{class: "notfound"}
	case errors.CodeOf(err) == errors.IllegalArgumentError:
		obs = proveObs{class: "illegal"}
	default:
		obs = proveObs{class: "other"}
	}
	// the byte-valued API must agree and must not crash
	var bv []byte
	var berr error
	if p := hxlib.Catch(func() {
		im := trie_manager.NewImmutable(db.NewMapDB(), root)
		bv, berr = im.Prove(key, cp)
	}); p != "" {
		return obs, fmt.Sprintf("trie.Immutable.Prove panics (%s) on key %x with a %d-element proof (object API result: %s)", p, key, len(proof), obs.class)
	}
	if (berr == nil) != (err == nil) || (obs.class == "val") != (bv != nil) || (bv != nil && !bytes.Equal(bv, obs.val)) {
		return obs, fmt.Sprintf("byte API and object API of Prove disagree on key %x: %x/%v vs %s", key, bv, berr, obs.class)
	}
	return obs, ""
}

type runOut struct {
	coq     string
	nq      int
	classes map[string]int
	oracle  string
	nhashed int
	inlined bool
}

func runTrie(in trieIn, wantCoq bool) (out runOut) {
	out.classes = map[string]int{}
	fail := func(format string, a ...interface{}) {
		if out.oracle == "" {
			out.oracle = fmt.Sprintf(format, a...)
		}
	}
	r := rand.New(rand.NewSource(in.Seed))
	d := tl.NewRecDB()
	m := trie_manager.NewMutable(d, nil)
	ref := map[string][]byte{}
	var ckvs []tl.KV
	var cdels [][]byte
	for _, kv := range in.KVs {
		k, v := unhx(kv[0]), unhx(kv[1])
		m.Set(k, v)
		ref[string(k)] = v
		ckvs = append(ckvs, tl.KV{K: k, V: v})
	}
	for _, ks := range in.Dels {
		k := unhx(ks)
		m.Delete(k)
		delete(ref, string(k))
		cdels = append(cdels, k)
	}
	s := m.GetSnapshot()
	// the order of the first calls on a fresh snapshot is part of the case: GetProof has to
	// hash the trie itself when nothing did before
	var preKey []byte
	var preProof [][]byte
	havePre := false
	switch in.First {
	case "proof", "proof-absent":
		var ks []string
		for k := range ref {
			ks = append(ks, k)
		}
		sort.Strings(ks)
		if len(ks) > 0 {
			preKey = []byte(ks[int(in.Seed%int64(len(ks))+int64(len(ks)))%len(ks)])
			if in.First == "proof-absent" {
				preKey = append(append([]byte(nil), preKey...), 0x5a)
				if _, ok := ref[string(preKey)]; ok {
					preKey = append(preKey, 0x5a)
				}
			}
			if pn := hxlib.Catch(func() { preProof = s.GetProof(preKey) }); pn != "" {
				fail("GetProof(%x) as the first call on a snapshot panics: %s", preKey, pn)
			}
			havePre = true
		}
	case "flush":
		if err := s.Flush(); err != nil {
			fail("Flush as the first call on a snapshot: %v", err)
		}
	}
	root := s.Hash()
	s.Flush()
	out.nhashed = len(d.Nodes)
	if len(ref) > 0 && len(root) != 32 {
		fail("Hash() (first call: %q) returns %d bytes %x, not a 32-byte hash", in.First, len(root), root)
	}
	{
		rs, rd := tl.Rebuild(ref, r)
		if !bytes.Equal(rs.Hash(), root) {
			fail("Hash() (first call: %q) = %x differs from the root %x of a trie rebuilt from the same pairs", in.First, root, rs.Hash())
		}
		for k := range rd.Nodes {
			d.Nodes[k] = true
		}
	}

	bl := &blobs{idx: map[string]int{}}
	var nodes [][]byte
	{
		var ks []string
		for k := range d.Nodes {
			ks = append(ks, k)
		}
		sort.Strings(ks)
		for _, k := range ks {
			bl.id([]byte(k))
			nodes = append(nodes, []byte(k))
		}
	}
	var qs []string
	addQ := func(s string) {
		if wantCoq {
			qs = append(qs, s)
		}
		out.nq++
	}

	// prove + generic soundness oracle: a value accepted under THIS root for key k is the stored value
	prove := func(rt, k []byte, p [][]byte, what string, mustReject bool) proveObs {
		obs, problem := doProve(rt, k, p)
		if problem != "" {
			fail("%s: %s", what, problem)
		}
		out.classes[obs.class]++
		addQ(fmt.Sprintf("QProve %s %s %s %s", tl.Bx(rt), tl.Bx(k), bl.refs(p), obs.coq()))
		if bytes.Equal(rt, root) && obs.class == "val" {
			if want, ok := ref[string(k)]; !ok {
				fail("%s: proof check yields value %x for key %x which is not stored under root %x", what, obs.val, k, root)
			} else if !bytes.Equal(want, obs.val) {
				fail("%s: proof check yields value %x for key %x, the stored value is %x", what, obs.val, k, want)
			}
		}
		if mustReject && (obs.class == "val" || obs.class == "nil") {
			fail("%s: altered proof accepted (result %s %x) for key %x", what, obs.class, obs.val, k)
		}
		return obs
	}

	// ----- query keys
	stored := make([][]byte, 0, len(ref))
	for k := range ref {
		stored = append(stored, []byte(k))
	}
	sort.Slice(stored, func(i, j int) bool { return bytes.Compare(stored[i], stored[j]) < 0 })
	qkeys := map[string]bool{}
	var order [][]byte
	addKey := func(k []byte) {
		if !qkeys[string(k)] {
			qkeys[string(k)] = true
			order = append(order, append([]byte(nil), k...))
		}
	}
	perm := r.Perm(len(stored))
	for i, pi := range perm {
		if i < 8 {
			addKey(stored[pi])
		}
	}
	np := 0
	for _, pi := range perm { // byte prefixes of stored keys: may end at a branch
		k := stored[pi]
		for l := 0; l < len(k) && l <= 4 && np < 8; l++ {
			if !qkeys[string(k[:l])] {
				addKey(k[:l])
				np++
			}
		}
		if len(k) == 32 {
			addKey(k[:31])
		}
	}
	for i := 0; i < 3 && len(stored) > 0; i++ {
		k := stored[r.Intn(len(stored))]
		addKey(append(append([]byte(nil), k...), byte(r.Intn(256))))
		if len(k) > 0 {
			k2 := append([]byte(nil), k...)
			k2[len(k2)-1] ^= byte(1 << uint(r.Intn(8)))
			addKey(k2)
		}
	}
	rk := make([]byte, r.Intn(4))
	r.Read(rk)
	addKey(rk)

	if havePre {
		addQ(fmt.Sprintf("QGetProof %s %s", tl.Bx(preKey), bl.refs(preProof)))
		want, isStored := ref[string(preKey)]
		if isStored && len(preProof) == 0 {
			fail("GetProof(%x) called before Hash() returns no proof for a stored key", preKey)
		}
		obs := prove(root, preKey, preProof, fmt.Sprintf("proof of key %x taken before Hash()", preKey), false)
		if isStored && !(obs.class == "val" && bytes.Equal(obs.val, want)) {
			fail("completeness: the proof of stored key %x taken before Hash() does not verify against the root (result %s %x)", preKey, obs.class, obs.val)
		}
		if !isStored && obs.class == "val" {
			fail("proof check for absent key %x yields value %x", preKey, obs.val)
		}
	}
	proofs := map[string][][]byte{}
	for _, k := range order {
		var p [][]byte
		if pn := hxlib.Catch(func() { p = s.GetProof(k) }); pn != "" {
			fail("GetProof(%x) panics: %s", k, pn)
		}
		addQ(fmt.Sprintf("QGetProof %s %s", tl.Bx(k), bl.refs(p)))
		proofs[string(k)] = p
		want, isStored := ref[string(k)]
		if isStored && p == nil {
			fail("GetProof(%x) returns nil for a stored key", k)
		}
		obs := prove(root, k, p, fmt.Sprintf("own proof of key %x", k), false)
		if isStored && !(obs.class == "val" && bytes.Equal(obs.val, want)) {
			fail("completeness: the trie's own proof for stored key %x does not verify (result %s %x, stored %x)", k, obs.class, obs.val, want)
		}
		if !isStored && obs.class == "val" {
			fail("proof check for absent key %x yields value %x", k, obs.val)
		}
	}

	// ----- mutations of valid proofs
	nm := 0
	for _, k := range order {
		p := proofs[string(k)]
		if _, ok := ref[string(k)]; !ok || len(p) == 0 || nm >= 3 {
			continue
		}
		nm++
		for i := range p {
			what := func(m string) string { return fmt.Sprintf("key %x proof element %d/%d %s", k, i, len(p), m) }
			clone := func() [][]byte { return append([][]byte(nil), p...) }
			// flip one bit
			q := clone()
			x := append([]byte(nil), p[i]...)
			x[r.Intn(len(x))] ^= byte(1 << uint(r.Intn(8)))
			q[i] = x
			prove(root, k, q, what("bit flipped"), true)
			// replace by another node of the same trie
			if len(nodes) > 1 {
				o := nodes[r.Intn(len(nodes))]
				if !bytes.Equal(o, p[i]) {
					q = clone()
					q[i] = o
					prove(root, k, q, what("replaced by another node"), true)
				}
			}
			// drop it
			q = append(append([][]byte(nil), p[:i]...), p[i+1:]...)
			prove(root, k, q, what("dropped"), true)
			// swap with the next
			if i+1 < len(p) {
				q = clone()
				q[i], q[i+1] = q[i+1], q[i]
				prove(root, k, q, what("swapped with next"), true)
			}
			// duplicate it (an insertion, not a substitution: only soundness is required)
			q = append(append(append([][]byte(nil), p[:i+1]...), p[i]), p[i+1:]...)
			prove(root, k, q, what("duplicated"), false)
		}
		// trailing extra elements: soundness only (accepted when the walk ends in a branch or an inlined node)
		prove(root, k, append(append([][]byte(nil), p...), []byte{0xc0}), fmt.Sprintf("key %x trailing junk", k), false)
		prove(root, k, append(append([][]byte(nil), p...), p[0]), fmt.Sprintf("key %x trailing node", k), false)
		// the same proof under other keys
		for j := 0; j < 2; j++ {
			k2 := order[r.Intn(len(order))]
			if !bytes.Equal(k2, k) {
				prove(root, k2, p, fmt.Sprintf("proof of %x presented for key %x", k, k2), false)
			}
		}
		// against other roots
		rnd := make([]byte, 32)
		r.Read(rnd)
		if o := prove(rnd, k, p, "random root", true); o.class != "illegal" {
			fail("proof for root %x accepted or mis-classified (%s) against unrelated root", root, o.class)
		}
		prove(nil, k, p, "empty root", true)
		if len(p) > 1 {
			// the hash of an inner node is a root under which the tail of the proof is genuine, but for another key
			prove(tl.Sha3(p[1]), k, p[1:], "inner node as root", false)
			prove(tl.Sha3(p[1]), k, p, "inner node as root, full proof", true)
		}
		// a second trie differing in one pair: its root must reject this proof
		{
			d2 := tl.NewRecDB()
			m2 := trie_manager.NewMutable(d2, nil)
			for kk, vv := range ref {
				m2.Set([]byte(kk), vv)
			}
			m2.Set(append(append([]byte(nil), k...), 0x77), []byte("another"))
			root2 := m2.GetSnapshot().Hash()
			if !bytes.Equal(root2, root) {
				prove(root2, k, p, "root of a trie with one more pair", true)
			}
		}
	}
	// ----- a warm verifier: ONE trie object made from the root hash proves several keys in
	// sequence, is flushed in between, and is then offered altered proofs for keys that share
	// path nodes with keys it has already proven (state sync verifies key by key like this)
	{
		var sk [][]byte
		for _, k := range order {
			if _, ok := ref[string(k)]; ok && len(proofs[string(k)]) > 0 {
				sk = append(sk, k)
			}
		}
		// the same keys with other values: another root whose proofs have the same shape
		m2 := trie_manager.NewMutable(tl.NewRecDB(), nil)
		for kk, vv := range ref {
			v2 := append([]byte(nil), vv...)
			v2[0] ^= 0x55
			m2.Set([]byte(kk), v2)
		}
		s2 := m2.GetSnapshot()
		s2.Hash()
		w := trie_manager.NewImmutable(db.NewMapDB(), root)
		wflush := func() {
			if f, ok := w.(trie.Snapshot); ok {
				if err := f.Flush(); err != nil {
					fail("warm verifier: Flush error %v", err)
				}
			}
		}
		wprove := func(k []byte, p [][]byte, what string, mustReject bool) proveObs {
			cp := make([][]byte, len(p))
			for i := range p {
				cp[i] = append([]byte(nil), p[i]...)
			}
			var bv []byte
			var err error
			if pn := hxlib.Catch(func() { bv, err = w.Prove(k, cp) }); pn != "" {
				fail("warm verifier, %s: Prove panics: %s", what, pn)
				return proveObs{class: "other"}
			}
			var obs proveObs
			switch {
			case err == nil && bv != nil:
				obs = proveObs{class: "val", val: append([]byte(nil), bv...)}
			case err == nil:
				obs = proveObs{class: "nil"}
			case errors.CodeOf(err) == errors.NotFoundError:
				obs = proveObs{class: "notfound"}
			case errors.CodeOf(err) == errors.IllegalArgumentError:
				obs = proveObs{class: "illegal"}
			default:
				obs = proveObs{class: "other"}
			}
			out.classes[obs.class]++
			addQ(fmt.Sprintf("QProve %s %s %s %s", tl.Bx(root), tl.Bx(k), bl.refs(p), obs.coq()))
			if obs.class == "val" {
				if want, ok := ref[string(k)]; !ok || !bytes.Equal(want, obs.val) {
					fail("warm verifier, %s: proof check yields value %x for key %x, stored %x", what, obs.val, k, want)
				}
			}
			if mustReject && (obs.class == "val" || obs.class == "nil") {
				fail("warm verifier (has proven other keys, flushed in between), %s: altered proof accepted (result %s %x) for key %x", what, obs.class, obs.val, k)
			}
			return obs
		}
		r.Shuffle(len(sk), func(i, j int) { sk[i], sk[j] = sk[j], sk[i] })
		for ai, kA := range sk {
			if ai >= 4 {
				break
			}
			if o := wprove(kA, proofs[string(kA)], fmt.Sprintf("honest proof of %x", kA), false); !(o.class == "val") {
				fail("warm verifier: honest proof of stored key %x does not verify (%s)", kA, o.class)
			}
			if r.Intn(3) > 0 {
				wflush()
			}
			kB := sk[r.Intn(len(sk))]
			pB := proofs[string(kB)]
			oB := s2.GetProof(kB)
			for i := range pB {
				q := append([][]byte(nil), pB...)
				x := append([]byte(nil), pB[i]...)
				x[r.Intn(len(x))] ^= byte(1 << uint(r.Intn(8)))
				q[i] = x
				if r.Intn(2) == 0 {
					wflush()
				}
				wprove(kB, q, fmt.Sprintf("key %x element %d/%d bit flipped", kB, i, len(pB)), true)
				if i < len(oB) && !bytes.Equal(oB[i], pB[i]) {
					q = append([][]byte(nil), pB...)
					q[i] = oB[i]
					if r.Intn(2) == 0 {
						wflush()
					}
					wprove(kB, q, fmt.Sprintf("key %x element %d/%d taken from the proof under another root", kB, i, len(pB)), true)
				}
			}
		}
	}
	// empty proof / nil proof
	if len(order) > 0 {
		prove(root, order[0], nil, "nil proof", true)
	}

	sh := 0
	for n := range d.Nodes {
		if len(n) <= 40 {
			sh++
		}
	}
	out.inlined = sh > 0
	if wantCoq {
		out.coq = fmt.Sprintf("(CTrie %s\n %s %s %s\n [%s])", bl.coq(), tl.CoqKVs(ckvs), tl.CoqBytesList(cdels),
			tl.Bx(root), strings.Join(qs, ";\n  "))
	}
	return out
}

func genTrie(r *rand.Rand) trieIn {
	keys := tl.GenKeys(r)
	var in trieIn
	for _, k := range keys {
		in.KVs = append(in.KVs, [2]string{hx(k), hx(tl.GenVal(r))})
	}
	for i := 0; i < len(keys)/4; i++ {
		in.Dels = append(in.Dels, hx(keys[r.Intn(len(keys))]))
	}
	in.Seed = r.Int63()
	in.First = []string{"hash", "proof", "proof", "proof-absent", "flush"}[r.Intn(5)]
	return in
}

// a trie whose root node serialises to at most 32 bytes (or just above): one or two
// short keys with short values
func genTiny(r *rand.Rand) trieIn {
	keys := [][]byte{{}, {0x00}, {0x01}, {0x01, 0x02}, {0xab}, {0xab, 0xcd, 0xef}, {0x10}, {0x1f}}
	var in trieIn
	n := 1 + r.Intn(2)
	perm := r.Perm(len(keys))
	for i := 0; i < n; i++ {
		v := make([]byte, 1+r.Intn(8))
		r.Read(v)
		if r.Intn(4) == 0 {
			v = make([]byte, 20+r.Intn(12)) // root RLP around the 32-byte threshold
			r.Read(v)
		}
		in.KVs = append(in.KVs, [2]string{hx(keys[perm[i]]), hx(v)})
	}
	in.Seed = r.Int63()
	in.First = []string{"proof", "proof", "proof-absent", "hash", "flush"}[r.Intn(5)]
	return in
}

func safeRun(in trieIn, wantCoq bool) (out runOut) {
	if p := hxlib.Catch(func() { out = runTrie(in, wantCoq) }); p != "" {
		out.oracle = "panic: " + p
	}
	return
}

func corpusDir() string {
	if v := os.Getenv("VERIF_ROOT"); v != "" {
		return filepath.Join(v, "corpus", "C18")
	}
	return "/verif/corpus/C18"
}

func gen(c *hxlib.Ctx) {
	total := map[string]int{}
	defer func() {
		c.Note("Prove verdicts observed: %v", total)
	}()
	emit := func(kind string, in trieIn, key string) {
		out := safeRun(in, !c.OracleOnly)
		c.Emit(hxlib.Case{Kind: kind, Coq: out.coq, Input: in, Nontrivial: (out.nhashed >= 2 && out.nq >= 10) || kind == "tiny-trie",
			OracleErr: out.oracle, Key: key})
		for k, v := range out.classes {
			total[k] += v
		}
	}
	// corpus first: minimised past failures
	files, _ := filepath.Glob(filepath.Join(corpusDir(), "*.json"))
	sort.Strings(files)
	for _, f := range files {
		b, err := os.ReadFile(f)
		if err != nil {
			continue
		}
		var doc struct {
			Input trieIn `json:"input"`
		}
		if json.Unmarshal(b, &doc) == nil && len(doc.Input.KVs) > 0 {
			emit("corpus", doc.Input, filepath.Base(f))
		}
	}
	n := c.N(70)
	for i := 0; i < n; i++ {
		emit("trie", genTrie(c.Sub("trie", i)), fmt.Sprintf("t%d", i))
		if i%2 == 0 {
			emit("tiny-trie", genTiny(c.Sub("tiny", i)), fmt.Sprintf("y%d", i))
		}
	}
	if !c.OracleOnly {
		// canary: a genuine proof recorded with a wrong verdict
		in := trieIn{KVs: [][2]string{{"1234", hx(bytes.Repeat([]byte{0xaa}, 47))}, {"1256", hx(bytes.Repeat([]byte{0xbb}, 54))}}, Seed: 3}
		out := runTrie(in, true)
		bad := strings.Replace(out.coq, "RIllegal", "RNotFound", 1)
		if bad != out.coq {
			c.Emit(hxlib.Case{Kind: "canary", Canary: true, Coq: bad})
		}
		i := strings.Index(out.coq, "(RVal [")
		if i > 0 {
			c.Emit(hxlib.Case{Kind: "canary", Canary: true, Coq: out.coq[:i] + "(RVal [1;" + out.coq[i+7:]})
		}
	}
}

func replay(raw json.RawMessage) string {
	var in trieIn
	if err := json.Unmarshal(raw, &in); err != nil {
		return "bad replay input: " + err.Error()
	}
	return safeRun(in, false).oracle
}

func main() {
	hxlib.Main(hxlib.Spec{
		ID:       "C18",
		Rule:     "a case is one trie, with the first call on its fresh snapshot drawn from Hash/GetProof of a stored key/GetProof of an absent key/Flush (GetProof must hash the trie itself), either tiny (1-2 short keys, root node around or below the 32-byte embedding size) or regular (3-14 keys of 0-4 bytes with shared prefixes plus 32-byte keys differing in one nibble, values 1-70 bytes around the inlining threshold, a quarter of the keys deleted again) with: GetProof+Prove for up to 8 stored keys, the byte prefixes / extensions / siblings of stored keys and a random key; for 3 stored keys every proof element bit-flipped, replaced by another node, dropped, swapped, duplicated, trailing elements appended, the proof presented for other keys, against a random root, the empty root, an inner node's hash and the root of a trie with one more pair; then ONE verifier object proves up to 4 stored keys in sequence, is flushed in between, and is offered proofs of already-touched paths with each element bit-flipped or taken from the proof under another root (same keys, other values); corpus cases first; non-trivial = at least two hashed nodes and ten queries; distinct = distinct trie",
		Shard:    10,
		Preamble: tl.Preamble("C18"),
		Gen:      gen, Replay: replay,
	})
}
