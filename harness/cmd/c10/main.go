// c10: drives the REAL service.executeTxs / executeTxsSequential /
// executeTxsConcurrent (through the add-only overlay shim
// harness/overlay/service/c10_export.go) with a harness-defined transaction
// list whose handlers follow a script, and compares what was observed with
// Model_BlockExec (Run_C10.v) and with the property itself (direct oracle).
package main

import (
	"encoding/json"
	"fmt"
	"io"
	"math/big"
	"math/rand"
	"os"
	"path/filepath"
	"runtime"
	"sort"
	"strings"
	"sync"
	"sync/atomic"
	"time"

	"github.com/icon-project/goloop/chain/base"
	"github.com/icon-project/goloop/common"
	"github.com/icon-project/goloop/common/db"
	"github.com/icon-project/goloop/common/errors"
	"github.com/icon-project/goloop/common/log"
	"github.com/icon-project/goloop/module"
	"github.com/icon-project/goloop/service"
	"github.com/icon-project/goloop/service/contract"
	"github.com/icon-project/goloop/service/platform/basic"
	"github.com/icon-project/goloop/service/state"
	"github.com/icon-project/goloop/service/transaction"
	"github.com/icon-project/goloop/service/txresult"

	"verif/harness/hxlib"
)

// ---------------------------------------------------------------------------
// case description (this is also the replay input)
// ---------------------------------------------------------------------------

// Attempt outcome kinds.  A trailing "@p" means the error is delivered by
// Platform.OnTransactionEnd instead of Handler.Execute.
//
//	ok     Execute returns a receipt (id = 16*txIndex + attempt)
//	xf     errors.ExecutionFailError   (retryable)
//	rr     errors.CriticalRerunError   (retryable)
//	fp     a plain Go error            (non-retryable)
//	fc     errors.InvalidStateError    (non-retryable, coded)
//	fk     errors.CriticalUnknownError (non-retryable, critical)
type txSpec struct {
	Skippable bool     `json:"skippable,omitempty"`
	Script    []string `json:"script"`
}

type blockCase struct {
	Mode     string   `json:"mode"` // "seq" | "conc" (direct calls) | "txs" (executeTxs dispatch)
	Level    int      `json:"level"`
	Skipping bool     `json:"skipping,omitempty"`
	Dep      bool     `json:"dep,omitempty"` // every transaction write-locks one shared account and touches it
	Txs      []txSpec `json:"txs"`
	Seed     int64    `json:"seed"` // drives sleeps / yields inside handlers
	// adversarial scheduling: every log call on a failure path ("Fail to …") made by
	// the executor blocks for this long and then yields (a slow log sink / a
	// descheduled worker between two statements)
	LogDelayUs int `json:"log_delay_us,omitempty"`
	// Gate: the handler of a finally failing transaction does not return from
	// Dispose before every other transaction of the block has finished executing
	// (bounded wait), so the failing worker is the last one to leave its loop
	Gate bool `json:"gate,omitempty"`
	Reps     int      `json:"reps,omitempty"`
}

const maxAttemptsPerTx = 32 // a handler asked for more attempts than this reports a runaway loop

func kindRetryable(k string) bool {
	k = strings.TrimSuffix(k, "@p")
	return k == "xf" || k == "rr"
}
func kindOk(k string) bool { return k == "ok" }

func scriptedErr(k string) error {
	switch strings.TrimSuffix(k, "@p") {
	case "xf":
		return errors.ExecutionFailError.New("scripted execution failure")
	case "rr":
		return errors.CriticalRerunError.New("scripted rerun")
	case "fp":
		return fmt.Errorf("scripted plain failure")
	case "fc":
		return errors.InvalidStateError.New("scripted coded failure")
	case "fk":
		return errors.CriticalUnknownError.New("scripted critical failure")
	}
	return fmt.Errorf("scripted failure %q", k)
}

// ---------------------------------------------------------------------------
// scripted transactions
// ---------------------------------------------------------------------------

type block struct {
	bc       *blockCase
	txs      []*htx
	pending  sync.Map // txresult.Receipt -> error to be returned by OnTransactionEnd
	runaway  atomic.Bool
	overrun  atomic.Bool
	shared   []byte
	prepared atomic.Int32
}

type htx struct {
	transaction.Transaction // nil: methods not listed below are never called by the executors
	b                       *block
	idx                     int
	execs                   atomic.Int32
	disposes                atomic.Int32
	handlers                atomic.Int32
	from, to                module.Address
	id                      []byte
}

func (t *htx) Group() module.TransactionGroup { return module.TransactionGroupNormal }
func (t *htx) ID() []byte                     { return t.id }
func (t *htx) From() module.Address           { return t.from }
func (t *htx) To() module.Address             { return t.to }
func (t *htx) Bytes() []byte                  { return t.id }
func (t *htx) Hash() []byte                   { return t.id }
func (t *htx) Verify() error                  { return nil }
func (t *htx) Version() int                   { return 3 }
func (t *htx) ToJSON(module.JSONVersion) (interface{}, error) {
	return map[string]interface{}{"idx": t.idx}, nil
}
func (t *htx) ValidateNetwork(int) bool                   { return true }
func (t *htx) PreValidate(state.WorldContext, bool) error { return nil }
func (t *htx) Timestamp() int64                           { return 1000 + int64(t.idx) }
func (t *htx) Nonce() *big.Int                            { return big.NewInt(int64(t.idx)) }
func (t *htx) IsSkippable() bool                          { return t.b.bc.Txs[t.idx].Skippable }
func (t *htx) GetHandler(cm contract.ContractManager) (transaction.Handler, error) {
	t.handlers.Add(1)
	return &hh{tx: t}, nil
}

type hh struct {
	tx      *htx
	attempt int
	kind    string
}

// slowLogger stalls the calling goroutine on failure-path messages of the executors
// ("Fail to execute transaction …", "Fail to revert status…", "Fail to get handler…").
type slowLogger struct {
	log.Logger
	delay time.Duration
}

func (l *slowLogger) stall(format string) {
	if l.delay > 0 && strings.HasPrefix(format, "Fail") {
		time.Sleep(l.delay)
		runtime.Gosched()
	}
}
func (l *slowLogger) Warnf(format string, args ...interface{}) {
	l.stall(format)
	l.Logger.Warnf(format, args...)
}
func (l *slowLogger) Errorf(format string, args ...interface{}) {
	l.stall(format)
	l.Logger.Errorf(format, args...)
}
func (l *slowLogger) Debugf(format string, args ...interface{}) {
	l.stall(format)
	l.Logger.Debugf(format, args...)
}
func (l *slowLogger) Infof(format string, args ...interface{}) {
	l.stall(format)
	l.Logger.Infof(format, args...)
}

func (h *hh) Prepare(ctx contract.Context) (state.WorldContext, error) {
	h.tx.b.prepared.Add(1)
	var lq []state.LockRequest
	if h.tx.b.bc.Dep {
		lq = append(lq, state.LockRequest{ID: string(h.tx.b.shared), Lock: state.AccountWriteLock})
	}
	lq = append(lq, state.LockRequest{ID: string(h.tx.from.ID()), Lock: state.AccountWriteLock})
	return ctx.GetFuture(lq), nil
}

// jitter diversifies goroutine interleavings; everything is bounded.
func jitter(seed int64, idx, attempt, point int) {
	x := uint64(seed)*0x9E3779B97F4A7C15 + uint64(idx)*0xBF58476D1CE4E5B9 + uint64(attempt)*0x94D049BB133111EB + uint64(point)*0x2545F4914F6CDD1D
	x ^= x >> 31
	x *= 0xD6E8FEB86659FD93
	x ^= x >> 29
	switch x % 7 {
	case 0, 1:
	case 2:
		runtime.Gosched()
	case 3:
		for i := uint64(0); i < 1+(x>>8)%4; i++ {
			runtime.Gosched()
		}
	case 4:
		time.Sleep(time.Duration((x>>8)%60) * time.Microsecond)
	case 5:
		time.Sleep(time.Duration((x>>8)%300) * time.Microsecond)
	default:
		// a short busy loop
		n := (x >> 8) % 3000
		s := uint64(0)
		for i := uint64(0); i < n; i++ {
			s += i * x
		}
		if s == 42 {
			runtime.Gosched()
		}
	}
}

func (h *hh) Execute(ctx contract.Context, wcs state.WorldSnapshot, estimate bool) (txresult.Receipt, error) {
	t := h.tx
	b := t.b
	attempt := int(t.execs.Add(1)) - 1
	if attempt >= maxAttemptsPerTx {
		b.runaway.Store(true)
		runtime.Goexit() // never let a broken retry loop spin forever
	}
	jitter(b.bc.Seed, t.idx, attempt, 0)
	// touch state the way a real handler would (own account; the shared one if requested)
	as := ctx.GetAccountState(t.from.ID())
	as.SetBalance(new(big.Int).Add(as.GetBalance(), big.NewInt(1)))
	if b.bc.Dep {
		sa := ctx.GetAccountState(b.shared)
		sa.SetBalance(new(big.Int).Add(sa.GetBalance(), big.NewInt(1)))
	}
	jitter(b.bc.Seed, t.idx, attempt, 1)
	sc := b.bc.Txs[t.idx].Script
	h.attempt = attempt
	if attempt >= len(sc) {
		b.overrun.Store(true)
		h.kind = "fp"
		return nil, fmt.Errorf("script overrun")
	}
	k := sc[attempt]
	h.kind = k
	mkReceipt := func() txresult.Receipt {
		r := txresult.NewReceipt(ctx.Database(), ctx.Revision(), t.to)
		r.SetResult(module.StatusSuccess, big.NewInt(int64(16*t.idx+attempt)), big.NewInt(0), nil)
		return r
	}
	if kindOk(k) {
		return mkReceipt(), nil
	}
	if strings.HasSuffix(k, "@p") {
		r := mkReceipt()
		b.pending.Store(r, scriptedErr(k))
		return r, nil
	}
	return nil, scriptedErr(k)
}

func (h *hh) Dispose() {
	t := h.tx
	b := t.b
	t.disposes.Add(1)
	if !b.bc.Gate || h.kind == "" || kindOk(h.kind) {
		return
	}
	if kindRetryable(h.kind) && h.attempt < service.VerifC10RetryCount {
		return // will be retried
	}
	// terminal failure of this transaction: let everybody else finish first (bounded)
	deadline := time.Now().Add(60 * time.Millisecond)
	for time.Now().Before(deadline) {
		settled := true
		for _, o := range b.txs {
			if o == t {
				continue
			}
			_, _, want := scriptedResult(b.bc.Txs[o.idx].Script, service.VerifC10RetryCount)
			if int(o.execs.Load()) < want || o.disposes.Load() < o.execs.Load() {
				settled = false
				break
			}
		}
		if settled {
			time.Sleep(time.Millisecond) // they still have to store the receipt and commit
			return
		}
		time.Sleep(200 * time.Microsecond)
	}
}

// transaction list
type txList struct {
	module.TransactionList // nil; only Iterator/Get are used
	txs                    []*htx
}
type txIter struct {
	l *txList
	i int
}

func (l *txList) Iterator() module.TransactionIterator { return &txIter{l: l} }
func (l *txList) Get(i int) (module.Transaction, error) {
	if i < 0 || i >= len(l.txs) {
		return nil, errors.NotFoundError.New("no tx")
	}
	return l.txs[i], nil
}
func (it *txIter) Has() bool   { return it.i < len(it.l.txs) }
func (it *txIter) Next() error { it.i++; return nil }
func (it *txIter) Get() (module.Transaction, int, error) {
	if !it.Has() {
		return nil, 0, errors.InvalidStateError.New("end of list")
	}
	return it.l.txs[it.i], it.i, nil
}

// platform: the basic platform, with a scripted OnTransactionEnd
type plt struct {
	base.Platform
	cur atomic.Pointer[block]
}

func (p *plt) OnTransactionEnd(wc state.WorldContext, l log.Logger, rct txresult.Receipt) error {
	b := p.cur.Load()
	if b != nil {
		if e, ok := b.pending.LoadAndDelete(rct); ok {
			return e.(error)
		}
	}
	return nil
}

// chain: only ConcurrencyLevel is consulted by executeTxs
type chain struct {
	module.Chain
	level int
}

func (c *chain) ConcurrencyLevel() int { return c.level }

// ---------------------------------------------------------------------------
// one block execution
// ---------------------------------------------------------------------------

type observation struct {
	Err      bool
	ErrText  string
	Panic    string
	Deadlock bool
	Runaway  bool
	Overrun  bool
	Slots    []string // "nil" | "skip" | "<id>" | "other"
	Started  int
	Attempts []int
}

var quietLogger log.Logger

func logger() log.Logger {
	if quietLogger == nil {
		l := log.New()
		l.SetOutput(io.Discard)
		l.SetLevel(log.PanicLevel)
		l.SetConsoleLevel(log.PanicLevel)
		quietLogger = l
	}
	return quietLogger
}

func addrOf(kind byte, i int) module.Address {
	id := make([]byte, 20)
	id[0] = kind
	id[18] = byte(i >> 8)
	id[19] = byte(i)
	return common.NewAccountAddress(id)
}

func runBlock(bc0 *blockCase) observation {
	var o observation
	bcCopy := *bc0 // workers of a failed concurrent block may outlive this call: give them their own copy
	bc := &bcCopy
	dbase := db.NewMapDB()
	p := &plt{Platform: basic.Platform}
	ch := &chain{level: bc.Level}
	var lg log.Logger = logger()
	if bc.LogDelayUs > 0 {
		lg = &slowLogger{Logger: lg, delay: time.Duration(bc.LogDelayUs) * time.Microsecond}
	}
	env := service.VerifC10NewEnv(dbase, ch, p, lg, common.NewBlockInfo(1, 1000))
	b := &block{bc: bc, shared: addrOf(0xee, 0).ID()}
	for i := range bc.Txs {
		b.txs = append(b.txs, &htx{b: b, idx: i, from: addrOf(0xaa, i), to: addrOf(0xbb, i), id: []byte{0xc1, byte(i >> 8), byte(i)}})
	}
	p.cur.Store(b)
	n := len(bc.Txs)
	l := &txList{txs: b.txs}

	type res struct {
		buf      []txresult.Receipt
		err      error
		panicked string
		exited   bool
	}
	done := make(chan res, 1)
	go func() {
		var r res
		r.exited = true // stays true if the goroutine leaves through Goexit
		defer func() { done <- r }()
		r.panicked = hxlib.Catch(func() {
			ctx, err := env.NewContext(bc.Skipping)
			if err != nil {
				panic("harness: NewContext: " + err.Error())
			}
			switch bc.Mode {
			case "seq":
				r.buf, r.err = env.ExecuteSequential(l, ctx, n)
			case "conc":
				r.buf, r.err = env.ExecuteConcurrent(bc.Level, l, ctx, n)
			default:
				r.buf, r.err = env.ExecuteTxs(l, ctx, n)
			}
		})
		r.exited = false
	}()
	var r res
	select {
	case r = <-done:
	case <-time.After(8 * time.Second):
		o.Deadlock = true
	}
	o.Panic = r.panicked
	o.Runaway = b.runaway.Load() || r.exited
	o.Overrun = b.overrun.Load()
	o.Err = r.err != nil
	if r.err != nil {
		o.ErrText = r.err.Error()
	}
	o.Started = int(b.prepared.Load())
	for _, t := range b.txs {
		o.Attempts = append(o.Attempts, int(t.execs.Load()))
	}
	if o.Deadlock || o.Err {
		// on an error return dispatched workers may still be writing receipts: the buffer is not read
		return o
	}
	for i := 0; i < n; i++ {
		s := "nil"
		if r.buf != nil && i < len(r.buf) && r.buf[i] != nil {
			rc := r.buf[i]
			switch rc.Status() {
			case module.StatusSkipTransaction:
				s = "skip"
			case module.StatusSuccess:
				s = rc.StepUsed().String()
			default:
				s = "other"
			}
		}
		o.Slots = append(o.Slots, s)
	}
	return o
}

// ---------------------------------------------------------------------------
// the direct oracle: the property statement evaluated on the observation
// ---------------------------------------------------------------------------

// what the script says about a transaction, independent of any model code:
// it succeeds at the first "ok" that is preceded only by retryable failures and
// is at attempt number <= retryCount; otherwise it fails.
func scriptedResult(sc []string, retryCount int) (ok bool, id int, attempts int) {
	for a := 0; a < len(sc); a++ {
		if kindOk(sc[a]) {
			return true, a, a + 1
		}
		if !kindRetryable(sc[a]) {
			return false, 0, a + 1
		}
		if a >= retryCount {
			return false, 0, a + 1
		}
	}
	return false, 0, len(sc) + 1 // script overrun counts as a failure
}

func sequentialMode(bc *blockCase) bool {
	return bc.Mode == "seq" || (bc.Mode == "txs" && (bc.Skipping || bc.Level <= 1))
}

func oracle(bc *blockCase, o observation) string {
	rc := service.VerifC10RetryCount
	if o.Panic != "" {
		return "panic during block execution: " + o.Panic
	}
	if o.Deadlock {
		return "deadlock: block execution did not return within the watchdog time"
	}
	if o.Runaway {
		return "runaway retry loop: a transaction was executed more than 32 times"
	}
	seq := sequentialMode(bc)
	skipping := bc.Skipping && seq
	anyFail := -1
	for i, t := range bc.Txs {
		if skipping && t.Skippable {
			continue
		}
		if ok, _, _ := scriptedResult(t.Script, rc); !ok {
			anyFail = i
			break
		}
	}
	if anyFail >= 0 && !o.Err {
		return fmt.Sprintf("transaction %d fails (non-retryable or retries exhausted) but the block execution returned no error; receipt slots %v", anyFail, o.Slots)
	}
	if !o.Err {
		if len(o.Slots) != len(bc.Txs) {
			return fmt.Sprintf("%d receipt slots for %d transactions", len(o.Slots), len(bc.Txs))
		}
		for i, t := range bc.Txs {
			want := ""
			if skipping && t.Skippable {
				want = "skip"
			} else {
				_, a, _ := scriptedResult(t.Script, rc)
				want = fmt.Sprint(16*i + a)
			}
			if o.Slots[i] != want {
				if o.Slots[i] == "nil" {
					return fmt.Sprintf("block execution returned no error but transaction %d has no receipt (silently dropped); slots %v", i, o.Slots)
				}
				return fmt.Sprintf("block execution returned no error but receipt slot %d holds %s, expected %s; slots %v", i, o.Slots[i], want, o.Slots)
			}
		}
	}
	if anyFail < 0 && o.Err {
		return fmt.Sprintf("every transaction succeeds under the script but the block execution failed: %s", o.ErrText)
	}
	return ""
}

// ---------------------------------------------------------------------------
// Coq printing
// ---------------------------------------------------------------------------

func coqOutcome(k string, idx, attempt int) string {
	switch {
	case kindOk(k):
		return fmt.Sprintf("OOk %d", 16*idx+attempt)
	case kindRetryable(k):
		return "ORetry"
	default:
		return "OFatal"
	}
}

func coqCase(bc *blockCase, o observation, picks []int) string {
	mode := map[string]string{"seq": "MSeqDirect", "conc": "MConcDirect", "txs": "MDispatch"}[bc.Mode]
	var skips, scripts, slots, att, pk []string
	for i, t := range bc.Txs {
		skips = append(skips, hxlib.CoqBool(t.Skippable))
		var oc []string
		for a, k := range t.Script {
			oc = append(oc, coqOutcome(k, i, a))
		}
		scripts = append(scripts, hxlib.CoqList(oc))
	}
	for _, s := range o.Slots {
		switch s {
		case "nil":
			slots = append(slots, "None")
		case "skip":
			slots = append(slots, "Some RSkip")
		case "other":
			slots = append(slots, "Some (RExec 999999)")
		default:
			slots = append(slots, "Some (RExec "+s+")")
		}
	}
	for _, a := range o.Attempts {
		att = append(att, hxlib.CoqNat(a))
	}
	for _, x := range picks {
		pk = append(pk, fmt.Sprint(x))
	}
	return fmt.Sprintf("(Case %s %s %s %s %s %s %s %s %s %s)", mode, hxlib.CoqBool(bc.Skipping), hxlib.CoqNat(bc.Level),
		hxlib.CoqList(skips), hxlib.CoqList(scripts), hxlib.CoqList(pk),
		hxlib.CoqBool(o.Err), hxlib.CoqList(slots), hxlib.CoqNat(o.Started), hxlib.CoqList(att))
}

// ---------------------------------------------------------------------------
// generation
// ---------------------------------------------------------------------------

func okScript() []string { return []string{"ok", "fp", "fp", "fp"} }

// failure kinds; the bool says whether the transaction finally fails
type failKind struct {
	name   string
	script []string
}

func failKinds() []failKind {
	return []failKind{
		{"retry1-ok", []string{"xf", "ok", "fp", "fp"}},
		{"retry2-ok", []string{"rr", "xf", "ok", "fp"}},
		{"exhausted", []string{"xf", "rr", "xf", "ok"}}, // a 4th attempt would succeed: `>` instead of `>=` shows
		{"exhausted-rr", []string{"rr", "rr", "rr", "rr"}},
		{"fatal-plain", []string{"fp", "ok", "ok", "ok"}}, // a retry would succeed: treating it as retryable shows
		{"fatal-coded", []string{"fc", "ok", "ok", "ok"}},
		{"fatal-critical", []string{"fk", "ok", "ok", "ok"}},
		{"retry-then-fatal", []string{"xf", "fc", "ok", "ok"}},
		{"plt-fatal", []string{"fp@p", "ok", "ok", "ok"}},
		{"plt-retry-ok", []string{"xf@p", "ok", "fp", "fp"}},
		{"plt-exhausted", []string{"rr@p", "xf@p", "rr@p", "ok"}},
	}
}

func caseKey(bc *blockCase) string {
	b, _ := json.Marshal(struct {
		M string
		L int
		S bool
		D bool
		T []txSpec
		G bool
		A bool
	}{bc.Mode, bc.Level, bc.Skipping, bc.Dep, bc.Txs, bc.Gate, bc.LogDelayUs > 0})
	return string(b)
}

func nontrivial(bc *blockCase) bool {
	// at least one transaction does not simply succeed at the first attempt, or the skip branch is taken
	for _, t := range bc.Txs {
		if len(t.Script) == 0 || t.Script[0] != "ok" || (bc.Skipping && t.Skippable) {
			return true
		}
	}
	return false
}

func emit(c *hxlib.Ctx, kind string, bc *blockCase, r *rand.Rand) {
	reps := bc.Reps
	if reps <= 0 {
		reps = 1
	}
	var last observation
	msg := ""
	seed0 := bc.Seed
	for k := 0; k < reps; k++ {
		bc.Seed = seed0 + int64(k)*7919
		last = runBlock(bc)
		if msg = oracle(bc, last); msg != "" {
			break // keep the failing seed in the replay input
		}
		if k+1 == reps {
			bc.Seed = seed0
		}
	}
	cs := hxlib.Case{Kind: kind, Input: *bc, Nontrivial: nontrivial(bc), OracleErr: msg, Key: caseKey(bc)}
	if !c.OracleOnly && !last.Deadlock && last.Panic == "" && !last.Runaway {
		n := len(bc.Txs)
		picks := make([]int, 10*n+8)
		for i := range picks {
			picks[i] = r.Intn(64)
		}
		cs.Coq = coqCase(bc, last, picks)
	}
	c.Emit(cs)
}

func corpusDir() string {
	if d := os.Getenv("VERIF_CORPUS"); d != "" {
		return d
	}
	// the binary lives in /verif/.work/<...>/C10/hx-c10 ; the corpus in /verif/corpus/C10
	if exe, err := os.Executable(); err == nil {
		d := filepath.Dir(exe)
		for i := 0; i < 5; i++ {
			if st, err := os.Stat(filepath.Join(d, "corpus", "C10")); err == nil && st.IsDir() {
				return filepath.Join(d, "corpus", "C10")
			}
			d = filepath.Dir(d)
		}
	}
	return "/verif/corpus/C10"
}

func gen(c *hxlib.Ctx) {
	r := c.Rand
	runtime.GOMAXPROCS(max(4, runtime.NumCPU()))

	// (0) corpus of past failures first
	files, _ := filepath.Glob(filepath.Join(corpusDir(), "*.json"))
	sort.Strings(files)
	for _, f := range files {
		raw, err := os.ReadFile(f)
		if err != nil {
			continue
		}
		var doc struct {
			Input json.RawMessage `json:"input"`
		}
		if json.Unmarshal(raw, &doc) != nil || doc.Input == nil {
			c.Note("corpus file %s unreadable", f)
			continue
		}
		var bc blockCase
		if json.Unmarshal(doc.Input, &bc) != nil {
			c.Note("corpus file %s unreadable", f)
			continue
		}
		if bc.Reps < 3 {
			bc.Reps = 3
		}
		emit(c, "corpus", &bc, r)
	}
	c.Note("corpus: %d file(s) from %s", len(files), corpusDir())

	levels := []int{2, 3, 4, 5, 6, 7, 8}
	// (1) systematic: every position x every failure kind x both modes x levels 2..8
	sizes := []int{1, 3, 6}
	if c.Tier == "thorough" {
		sizes = []int{1, 2, 3, 4, 6, 9}
	}
	for _, n := range sizes {
		for pos := 0; pos < n; pos++ {
			for _, fk := range failKinds() {
				mk := func(mode string, level int) *blockCase {
					bc := &blockCase{Mode: mode, Level: level, Seed: r.Int63n(1 << 40), Reps: 2}
					for i := 0; i < n; i++ {
						sc := okScript()
						if i == pos {
							sc = append([]string(nil), fk.script...)
						}
						bc.Txs = append(bc.Txs, txSpec{Script: sc})
					}
					bc.Dep = r.Intn(3) == 0
					return bc
				}
				emit(c, "seq/"+fk.name, mk("seq", 1), r)
				for _, lv := range levels {
					mode := "conc"
					if r.Intn(3) == 0 {
						mode = "txs"
					}
					emit(c, "conc/"+fk.name, mk(mode, lv), r)
				}
			}
		}
	}
	// (1b) adversarial schedules: the failing transaction is the last or the second to last
	// one, and the worker is stalled on its failure path (log call) and/or made the last
	// worker to leave its loop, so that the dispatcher is already inside Realize() / past it
	// when the failure is being reported.  Levels 2..8.
	advKinds := []failKind{
		{"fatal-plain", []string{"fp", "ok", "ok", "ok"}},
		{"exhausted", []string{"xf", "rr", "xf", "ok"}},
		{"plt-fatal", []string{"fc@p", "ok", "ok", "ok"}},
		{"retry-then-fatal", []string{"rr", "fk", "ok", "ok"}},
	}
	delays := []int{2000, 5000, 10000, 20000, 40000}
	for _, n := range []int{2, 5} {
		for _, back := range []int{1, 2} {
			pos := n - back
			if pos < 0 {
				continue
			}
			for _, fk := range advKinds {
				for _, lv := range levels {
					bc := &blockCase{Mode: "conc", Level: lv, Seed: r.Int63n(1 << 40), Reps: 1}
					if r.Intn(3) == 0 {
						bc.Mode = "txs"
					}
					bc.LogDelayUs = delays[r.Intn(len(delays))]
					if r.Intn(16) == 0 {
						bc.LogDelayUs = 100000 + r.Intn(200000)
					}
					bc.Gate = r.Intn(2) == 0
					for i := 0; i < n; i++ {
						sc := okScript()
						if i == pos {
							sc = append([]string(nil), fk.script...)
						}
						bc.Txs = append(bc.Txs, txSpec{Script: sc})
					}
					emit(c, "adversarial/"+fk.name, bc, r)
				}
			}
		}
	}
	// (2) all-success blocks and the empty block, every mode
	for _, n := range []int{0, 1, 2, 5, 9, 17} {
		for _, lv := range append([]int{1}, levels...) {
			bc := &blockCase{Mode: "txs", Level: lv, Seed: r.Int63n(1 << 40), Reps: 2, Dep: r.Intn(2) == 0}
			for i := 0; i < n; i++ {
				bc.Txs = append(bc.Txs, txSpec{Script: okScript()})
			}
			emit(c, "all-ok", bc, r)
			if lv > 1 {
				bc2 := *bc
				bc2.Mode = "conc"
				emit(c, "all-ok", &bc2, r)
			}
		}
	}
	// (3) random blocks: several failing transactions, retries everywhere, skip branch
	atoms := []string{"ok", "ok", "ok", "xf", "rr", "xf@p", "fp", "fc", "fk", "fp@p"}
	for i := 0; i < c.N(500); i++ {
		n := 1 + r.Intn(10)
		bc := &blockCase{Seed: r.Int63n(1 << 40), Reps: 1 + r.Intn(2), Dep: r.Intn(3) == 0}
		switch r.Intn(6) {
		case 0:
			bc.Mode, bc.Level = "seq", 1
		case 1:
			bc.Mode, bc.Level = "txs", 1+r.Intn(8)
		default:
			bc.Mode, bc.Level = "conc", 2+r.Intn(7)
		}
		if bc.Mode != "conc" && r.Intn(3) == 0 {
			bc.Skipping = true
		}
		failing := r.Intn(3) // 0: mostly succeeding, 1,2: more failures
		for j := 0; j < n; j++ {
			sc := make([]string, 4)
			for a := range sc {
				if failing == 0 && a == 0 && r.Intn(5) > 0 {
					sc[a] = "ok"
				} else if failing == 0 && r.Intn(3) > 0 {
					sc[a] = []string{"ok", "xf", "rr"}[r.Intn(3)]
				} else {
					sc[a] = atoms[r.Intn(len(atoms))]
				}
			}
			bc.Txs = append(bc.Txs, txSpec{Script: sc, Skippable: r.Intn(3) == 0})
		}
		kind := "random/" + bc.Mode
		if bc.Skipping {
			kind += "+skip"
		}
		emit(c, kind, bc, r)
	}
	// canaries: wrong observations the model must flag
	if !c.OracleOnly {
		// a fatal transaction reported as a successful block with a missing receipt (the pre-fix behaviour)
		bc := &blockCase{Mode: "conc", Level: 2, Txs: []txSpec{{Script: okScript()}, {Script: []string{"fp", "ok", "ok", "ok"}}}}
		o := observation{Err: false, Slots: []string{"0", "nil"}, Started: 2, Attempts: []int{1, 1}}
		c.Emit(hxlib.Case{Kind: "canary", Canary: true, Coq: coqCase(bc, o, make([]int, 40))})
		// receipts in the wrong order
		bc2 := &blockCase{Mode: "seq", Level: 1, Txs: []txSpec{{Script: okScript()}, {Script: okScript()}}}
		o2 := observation{Err: false, Slots: []string{"16", "0"}, Started: 0, Attempts: []int{1, 1}}
		c.Emit(hxlib.Case{Kind: "canary", Canary: true, Coq: coqCase(bc2, o2, nil)})
	}
}

func replay(raw json.RawMessage) string {
	var bc blockCase
	if err := json.Unmarshal(raw, &bc); err != nil {
		return "bad replay input: " + err.Error()
	}
	reps := 25
	seed0 := bc.Seed
	for k := 0; k < reps; k++ {
		bc.Seed = seed0 + int64(k)*7919
		o := runBlock(&bc)
		if msg := oracle(&bc, o); msg != "" {
			return msg
		}
	}
	return ""
}

func main() {
	hxlib.Main(hxlib.Spec{
		ID:       "C10",
		Preamble: "From Goloop Require Import Model_BlockExec.\nFrom GoloopRun Require Import Run_C10.",
		Rule: "blocks of scripted transactions run through the real executeTxs/executeTxsSequential/executeTxsConcurrent: " +
			"(1) every position x 11 failure kinds (retry then success, retries exhausted, three non-retryable error classes, failure delivered by Execute or by OnTransactionEnd) x sequential + concurrency levels 2..8, blocks of 1/3/6 transactions, each run under 2 jitter seeds; " +
			"(1b) adversarial schedules: failing transaction last / second to last, levels 2..8, the failing worker stalled 2-300 ms inside every failure-path log call of the executor and/or held back until all other workers have finished, so that the dispatcher is already waiting in or past Realize(); " +
			"(2) all-success and empty blocks; (3) random blocks of 1..10 transactions with several failing transactions and the skip-transaction branch; " +
			"handlers sleep/yield pseudo-randomly so the Go scheduler produces different interleavings; " +
			"non-trivial = some transaction does not succeed at its first attempt or is skipped; distinct = distinct (mode, level, flags, scripts)",
		Gen: gen, Replay: replay,
	})
}
