// c31: network.SecureConn (secure.go) — both ends real over an in-memory duplex
// with a man in the middle — vs Model_SecureChan, plus the direct oracle of C31.
package main

import (
	"bufio"
	"bytes"
	"crypto/aes"
	"crypto/cipher"
	"crypto/elliptic"
	"encoding/binary"
	"encoding/hex"
	"encoding/json"
	"errors"
	"fmt"
	"io"
	"math/big"
	"math/rand"
	"net"
	"os"
	"path/filepath"
	"sort"
	"strings"
	"time"

	"golang.org/x/crypto/chacha20poly1305"

	"github.com/icon-project/goloop/network"
	"verif/harness/hxlib"
)

// ---------------------------------------------------------------------------
// in-memory duplex: a queue of chunks (one per conn.Write call) per direction

var errWouldBlock = errors.New("verif: would block")

type chunkRec struct {
	hdr []byte
	n   int
	raw []byte
}

type half struct {
	q      [][]byte
	closed bool
	rec    []chunkRec
}

func (h *half) write(b []byte) (int, error) {
	if h.closed {
		return 0, io.ErrClosedPipe
	}
	if len(b) == 0 {
		return 0, nil
	}
	c := append([]byte(nil), b...)
	h.q = append(h.q, c)
	k := 4
	if len(c) < k {
		k = len(c)
	}
	h.rec = append(h.rec, chunkRec{hdr: append([]byte(nil), c[:k]...), n: len(c), raw: c})
	return len(b), nil
}

func (h *half) read(b []byte) (int, error) {
	if len(b) == 0 {
		return 0, nil
	}
	for len(h.q) > 0 && len(h.q[0]) == 0 {
		h.q = h.q[1:]
	}
	if len(h.q) == 0 {
		if h.closed {
			return 0, io.EOF
		}
		return 0, errWouldBlock
	}
	n := copy(b, h.q[0])
	h.q[0] = h.q[0][n:]
	if len(h.q[0]) == 0 {
		h.q = h.q[1:]
	}
	return n, nil
}

type endConn struct{ rd, wr *half }

type dummyAddr struct{}

func (dummyAddr) Network() string { return "verif" }
func (dummyAddr) String() string  { return "verif" }

func (c *endConn) Read(b []byte) (int, error)         { return c.rd.read(b) }
func (c *endConn) Write(b []byte) (int, error)        { return c.wr.write(b) }
func (c *endConn) Close() error                       { c.wr.closed = true; return nil }
func (c *endConn) LocalAddr() net.Addr                { return dummyAddr{} }
func (c *endConn) RemoteAddr() net.Addr               { return dummyAddr{} }
func (c *endConn) SetDeadline(t time.Time) error      { return nil }
func (c *endConn) SetReadDeadline(t time.Time) error  { return nil }
func (c *endConn) SetWriteDeadline(t time.Time) error { return nil }

// ---------------------------------------------------------------------------
// case description (JSON, sufficient for replay)

type mutIn struct {
	Kind string `json:"kind"` // flip swap dup drop trunc
	I    int    `json:"i"`
	J    int    `json:"j,omitempty"`
	Pos  int    `json:"pos,omitempty"`
	Mask int    `json:"mask,omitempty"`
	Keep int    `json:"keep,omitempty"`
}

type opIn struct {
	K    string `json:"k"` // w r c m
	S    int    `json:"s"` // 0 = end A, 1 = end B; for m: the end whose outgoing queue is touched
	Data string `json:"d,omitempty"` // literal bytes of a write (hex) ...
	Gen  *genIn `json:"g,omitempty"` // ... or a generator for them
	Size int    `json:"n,omitempty"`
	M    *mutIn `json:"m,omitempty"`
}

// genIn describes the bytes of a write compactly (the Coq side regenerates them).
type genIn struct {
	Kind string `json:"kind"` // lcg const count
	Seed uint32 `json:"seed,omitempty"`
	Len  int    `json:"len"`
}

func (op *opIn) bytes() []byte {
	if op.Gen == nil {
		return unhex(op.Data)
	}
	b := make([]byte, op.Gen.Len)
	switch op.Gen.Kind {
	case "lcg":
		x := uint64(op.Gen.Seed) % 65537
		for i := range b {
			x = (x*75 + 74) % 65537
			b[i] = byte(x)
		}
	case "const":
		for i := range b {
			b[i] = byte(op.Gen.Seed)
		}
	default:
		for i := range b {
			b[i] = byte(i)
		}
	}
	return b
}

func (op *opIn) coqData() string {
	if op.Gen == nil {
		return "(DLit " + hxlib.CoqBytes(unhex(op.Data)) + ")"
	}
	switch op.Gen.Kind {
	case "lcg":
		return fmt.Sprintf("(DLcg %d %d)", op.Gen.Seed%65537, op.Gen.Len)
	case "const":
		return fmt.Sprintf("(DConst %d %d)", op.Gen.Seed&0xff, op.Gen.Len)
	default:
		return fmt.Sprintf("(DCount %d)", op.Gen.Len)
	}
}

type sessIn struct {
	Suite   int    `json:"suite"`
	DA      string `json:"da"`
	DB      string `json:"db"`
	Num     int    `json:"num"`
	NonceAB string `json:"nonce_ab,omitempty"`
	NonceBA string `json:"nonce_ba,omitempty"`
	Bufio   bool   `json:"bufio,omitempty"` // the readers are bufio.NewReaderSize(conn, 4096) as network.PacketReader
	Ops     []opIn `json:"ops"`
}

type keysIn struct {
	Suite int    `json:"suite"`
	DA    string `json:"da"`
	DB    string `json:"db"`
	Num   int    `json:"num"`
	DefA  bool   `json:"def_a"`
	DefB  bool   `json:"def_b"`
	// peer public key bytes handed to A (B's key possibly damaged) and to B
	BadA string `json:"bad_peer_for_a,omitempty"` // "", "short", "offcurve", "prefix"
	BadB string `json:"bad_peer_for_b,omitempty"`
}

func unhex(s string) []byte { b, _ := hex.DecodeString(s); return b }

// ---------------------------------------------------------------------------
// independent AEAD (the harness opens every frame itself)

func newAead(suite int, key []byte) (cipher.AEAD, error) {
	switch suite {
	case network.SecureAeadSuiteChaCha20Poly1305:
		return chacha20poly1305.New(key)
	case network.SecureAeadSuiteAes128Gcm, network.SecureAeadSuiteAes256Gcm:
		blk, err := aes.NewCipher(key)
		if err != nil {
			return nil, err
		}
		return cipher.NewGCM(blk)
	}
	return nil, fmt.Errorf("no aead for suite %d", suite)
}

func incBE(n []byte) {
	for i := len(n) - 1; i >= 0; i-- {
		n[i]++
		if n[i] != 0 {
			return
		}
	}
}

func errClass(err error) string {
	switch {
	case err == nil:
		return "None"
	case errors.Is(err, errWouldBlock):
		return "(Some EBlock)"
	case err == io.EOF:
		return "(Some EEof)"
	case err == io.ErrUnexpectedEOF:
		return "(Some EShort)"
	default:
		return "(Some EAuth)"
	}
}

func isHard(err error) bool { return err != nil && !errors.Is(err, errWouldBlock) }

// ---------------------------------------------------------------------------
// running one session

type dirState struct {
	written   []byte // bytes accepted by Write on this direction
	delivered []byte // bytes returned by Read at the other end
	tampered  bool
	effective bool // the tampering must be noticed if the reader drains the queue
	hardErr   bool
	sawEOF    bool
	stopOnErr bool // framing is lost after the first failure (length bytes flipped, chunk truncated)
	stopped   bool // reads of this direction are no longer made
}

func coqSide(s int) string {
	if s == 0 {
		return "SA"
	}
	return "SB"
}

type sessOut struct {
	coq        string
	oracle     string
	nontrivial bool
	kind       string
}

func setupPair(suite int, dA, dB []byte, num int) (ka, kb *network.VerifSecureKey, err error) {
	ka = network.VerifSecureKeyFromD(dA)
	kb = network.VerifSecureKeyFromD(dB)
	sa := network.SecureAeadSuite(suite)
	// A dialled (Peer.In() == false), B accepted (Peer.In() == true)
	if err = ka.Setup(sa, kb.MarshalPublicKey(), false, num); err != nil {
		return
	}
	err = kb.Setup(sa, ka.MarshalPublicKey(), true, num)
	return
}

func runSession(in sessIn) (out sessOut) {
	fail := func(format string, a ...interface{}) {
		if out.oracle == "" {
			out.oracle = fmt.Sprintf(format, a...)
		}
	}
	ka, kb, err := setupPair(in.Suite, unhex(in.DA), unhex(in.DB), in.Num)
	if err != nil {
		fail("secureKey.setup failed on valid keys: %v", err)
		return
	}
	ab, ba := &half{}, &half{}
	sa := network.SecureAeadSuite(in.Suite)
	ca, err1 := ka.NewConn(&endConn{rd: ba, wr: ab}, sa)
	cb, err2 := kb.NewConn(&endConn{rd: ab, wr: ba}, sa)
	if err1 != nil || err2 != nil {
		fail("NewSecureConn failed: %v %v", err1, err2)
		return
	}
	oh := network.VerifSecureConnOverhead(ca)
	ns := network.VerifSecureConnNonceSize(ca)
	nAB, nBA := make([]byte, ns), make([]byte, ns)
	if in.NonceAB != "" {
		copy(nAB, unhex(in.NonceAB))
	}
	if in.NonceBA != "" {
		copy(nBA, unhex(in.NonceBA))
	}
	network.VerifSecureConnSetNonces(ca, nBA, nAB) // A.in reads B->A, A.out writes A->B
	network.VerifSecureConnSetNonces(cb, nAB, nBA)

	conns := []*network.SecureConn{ca, cb}
	var readers [2]io.Reader
	for i := range conns {
		if in.Bufio {
			readers[i] = bufio.NewReaderSize(conns[i], 4096)
		} else {
			readers[i] = conns[i]
		}
	}
	halves := []*half{ab, ba}                 // halves[s] = outgoing queue of end s
	dirs := []*dirState{{}, {}}               // dirs[s] = direction written by end s
	var coqOps, coqObs []string
	for _, op := range in.Ops {
		switch op.K {
		case "w":
			data := op.bytes()
			var n int
			var werr error
			if p := hxlib.Catch(func() { n, werr = conns[op.S].Write(data) }); p != "" {
				fail("Write(%d bytes) panicked: %s", len(data), p)
				return
			}
			if werr != nil || n != len(data) {
				fail("Write(%d bytes) returned n=%d err=%v", len(data), n, werr)
			}
			dirs[op.S].written = append(dirs[op.S].written, data...)
			coqOps = append(coqOps, fmt.Sprintf("SWrite %s %s", coqSide(op.S), op.coqData()))
			coqObs = append(coqObs, fmt.Sprintf("OW %d", n))
			if len(data) > 0 {
				out.nontrivial = true
			}
		case "r":
			d := dirs[1-op.S] // the direction read by end op.S
			if d.stopped {
				continue
			}
			buf := make([]byte, op.Size)
			for i := range buf {
				buf[i] = 0xEE
			}
			var n int
			var rerr error
			if p := hxlib.Catch(func() { n, rerr = readers[op.S].Read(buf) }); p != "" {
				fail("Read(buffer of %d) panicked: %s", op.Size, p)
				return
			}
			if n < 0 || n > len(buf) {
				fail("Read returned n=%d > len(b)=%d (err=%v)", n, len(buf), rerr)
			}
			if rerr != nil && n > 0 {
				fail("n>0 returned with error: Read(buffer of %d) = (%d, %v); nothing of the stream was copied", op.Size, n, rerr)
			}
			got := buf
			if n >= 0 && n <= len(buf) {
				got = buf[:n]
			}
			if rerr == nil || !in.Bufio {
				// a consumer takes the n bytes it was told about
				d.delivered = append(d.delivered, got...)
			}
			if !bytes.HasPrefix(d.written, d.delivered) {
				fail("bytes delivered at end %d are not a prefix of the bytes written (delivered %d, written %d; first difference at %d)%s",
					op.S, len(d.delivered), len(d.written), firstDiff(d.written, d.delivered), tamperNote(d))
			}
			if isHard(rerr) {
				if rerr == io.EOF {
					d.sawEOF = true
				} else {
					d.hardErr = true
				}
				if !d.tampered && rerr != io.EOF {
					fail("Read on an untouched connection failed: %v", rerr)
				}
				if rerr == io.EOF && !halves[1-op.S].closed {
					fail("Read returned EOF on an open connection")
				}
				if d.stopOnErr {
					d.stopped = true
				}
			}
			coqOps = append(coqOps, fmt.Sprintf("SRead %s %d", coqSide(op.S), op.Size))
			// the bytes of the buffer, written as a reference into the written stream where they equal it
			od := "(OLit " + hxlib.CoqBytes(got) + ")"
			if off := len(d.delivered) - len(got); len(got) > 0 && off >= 0 && rerr == nil &&
				off+len(got) <= len(d.written) && bytes.Equal(got, d.written[off:off+len(got)]) {
				od = fmt.Sprintf("(ORef %d %d)", off, len(got))
			}
			coqObs = append(coqObs, fmt.Sprintf("OR %d %s %s", n, od, errClass(rerr)))
			if n > 0 {
				out.nontrivial = true
			}
		case "c":
			halves[op.S].closed = true
			coqOps = append(coqOps, fmt.Sprintf("SClose %s", coqSide(op.S)))
			coqObs = append(coqObs, "ONone")
		case "m":
			h := halves[op.S]
			m := op.M
			eff, headerLen, ok := applyMut(h, m)
			if !ok {
				continue
			}
			d := dirs[op.S]
			d.tampered = true
			if eff {
				d.effective = true
			}
			if headerLen {
				d.stopOnErr = true
			}
			coqOps = append(coqOps, fmt.Sprintf("SMitm %s %s", coqSide(op.S), coqMut(m)))
			coqObs = append(coqObs, "ONone")
			out.nontrivial = true
		}
	}
	// --- end-of-session oracle ---
	for s, d := range dirs {
		h := halves[s]
		drained := len(h.q) == 0 && h.closed && (d.sawEOF || d.hardErr)
		if !d.tampered {
			if d.sawEOF && !bytes.Equal(d.delivered, d.written) {
				fail("direction %d drained to EOF but %d of %d written bytes were delivered", s, len(d.delivered), len(d.written))
			}
			// every frame the writer put on the wire: header + Seal(key_out, counter, next <=1024 bytes)
			if msg := checkFrames(in.Suite, conns[s], conns[1-s], h.rec, d.written, pick(s == 0, nAB, nBA), oh); msg != "" {
				fail("direction %d: %s", s, msg)
			}
		} else if d.effective && drained && !d.hardErr {
			fail("direction %d was tampered with (%s) and read to the end without any error", s, tamperNote(d))
		}
	}
	if in.Bufio {
		return // oracle only: the model does not describe bufio
	}
	fr := func(h *half) string {
		var items []string
		for _, r := range h.rec {
			items = append(items, fmt.Sprintf("(%s, %d)", hxlib.CoqBytes(r.hdr), r.n))
		}
		return hxlib.CoqList(items)
	}
	out.coq = fmt.Sprintf("(CSess %d %s %s %s %s %s %s)", oh, hxlib.CoqBytes(nAB), hxlib.CoqBytes(nBA),
		coqList(coqOps), coqList(coqObs), fr(ab), fr(ba))
	return
}

func pick(c bool, a, b []byte) []byte {
	if c {
		return a
	}
	return b
}

func coqList(items []string) string {
	if len(items) == 0 {
		return "[]"
	}
	return "[" + strings.Join(items, ";\n  ") + "]"
}

func tamperNote(d *dirState) string {
	if d.tampered {
		return " [direction was tampered with]"
	}
	return ""
}

func firstDiff(a, b []byte) int {
	for i := 0; i < len(a) && i < len(b); i++ {
		if a[i] != b[i] {
			return i
		}
	}
	if len(a) < len(b) {
		return len(a)
	}
	return len(b)
}

func coqMut(m *mutIn) string {
	switch m.Kind {
	case "flip":
		return fmt.Sprintf("(MFlip %d %d %d)", m.I, m.Pos, m.Mask)
	case "swap":
		return fmt.Sprintf("(MSwap %d %d)", m.I, m.J)
	case "dup":
		return fmt.Sprintf("(MDup %d)", m.I)
	case "drop":
		return fmt.Sprintf("(MDrop %d)", m.I)
	default:
		return fmt.Sprintf("(MTrunc %d %d)", m.I, m.Keep)
	}
}

// applyMut tampers with the queue; effective = a reader that drains the queue must notice.
func applyMut(h *half, m *mutIn) (effective bool, header bool, ok bool) {
	q := h.q
	if m.I < 0 || m.I >= len(q) {
		return false, false, false
	}
	switch m.Kind {
	case "flip":
		if m.Pos < 0 || m.Pos >= len(q[m.I]) || m.Mask <= 0 || m.Mask > 255 {
			return false, false, false
		}
		c := append([]byte(nil), q[m.I]...)
		c[m.Pos] ^= byte(m.Mask)
		q[m.I] = c
		return m.Pos != 2 && m.Pos != 3, m.Pos < 2, true
	case "swap":
		if m.J < 0 || m.J >= len(q) || m.J == m.I {
			return false, false, false
		}
		eff := !bytes.Equal(q[m.I], q[m.J])
		q[m.I], q[m.J] = q[m.J], q[m.I]
		return eff, false, true
	case "dup":
		nq := append([][]byte{}, q[:m.I+1]...)
		nq = append(nq, append([]byte(nil), q[m.I]...))
		nq = append(nq, q[m.I+1:]...)
		h.q = nq
		return true, false, true
	case "drop":
		last := m.I == len(q)-1
		h.q = append(append([][]byte{}, q[:m.I]...), q[m.I+1:]...)
		return !last, false, true
	case "trunc":
		if m.Keep < 1 || m.Keep >= len(q[m.I]) {
			return false, false, false
		}
		// the last chunk cut right after its header reads as a clean EOF (io.ReadFull of the
		// body gets no byte at all): like a dropped tail this cannot be noticed
		last := m.I == len(q)-1
		q[m.I] = append([]byte(nil), q[m.I][:m.Keep]...)
		return !(last && m.Keep == 4), true, true
	}
	return false, false, false
}

// checkFrames opens every recorded frame with the receiver's `in` secret and the
// harness's own counter and compares the plaintext with the written bytes.
func checkFrames(suite int, w, r *network.SecureConn, rec []chunkRec, written, nonce0 []byte, oh int) string {
	_, outKey := network.VerifSecureConnKeys(w)
	inKey, _ := network.VerifSecureConnKeys(r)
	if !bytes.Equal(outKey, inKey) {
		return fmt.Sprintf("writer's out secret %x differs from reader's in secret %x", outKey, inKey)
	}
	wi, wo := network.VerifSecureConnKeys(w)
	if bytes.Equal(wi, wo) {
		return "the same secret is used for both directions"
	}
	a, err := newAead(suite, inKey)
	if err != nil {
		return "harness aead: " + err.Error()
	}
	nonce := append([]byte(nil), nonce0...)
	off := 0
	for i, c := range rec {
		if c.n < 4+oh {
			return fmt.Sprintf("frame %d on the wire has %d bytes", i, c.n)
		}
		ln := int(binary.BigEndian.Uint16(c.raw))
		// (the 1024-byte bound of a frame is compared by the model, not here: a longer
		// frame that opens and is delivered intact does not break the stream)
		if ln != c.n-4-oh || ln < 1 {
			return fmt.Sprintf("frame %d: big-endian header length %d, chunk of %d bytes (overhead %d)", i, ln, c.n, oh)
		}
		p, err := a.Open(nil, nonce, c.raw[4:], nil)
		if err != nil {
			return fmt.Sprintf("frame %d does not open under the reader's in-secret with counter %x: %v", i, nonce, err)
		}
		if off+len(p) > len(written) || !bytes.Equal(p, written[off:off+len(p)]) {
			return fmt.Sprintf("frame %d does not carry bytes %d.. of the written stream", i, off)
		}
		off += len(p)
		incBE(nonce)
	}
	if off != len(written) {
		return fmt.Sprintf("frames carry %d bytes, %d were written", off, len(written))
	}
	return ""
}

// ---------------------------------------------------------------------------
// key set-up cases

func damage(pub []byte, how string) []byte {
	p := append([]byte(nil), pub...)
	switch how {
	case "short":
		return p[:len(p)-1]
	case "offcurve":
		p[len(p)-1] ^= 1
	case "prefix":
		p[0] = 2
	case "empty":
		return nil
	}
	return p
}

func validP256(pub []byte) (x, y *big.Int, ok bool) {
	c := elliptic.P256()
	if len(pub) != 65 || pub[0] != 4 {
		return nil, nil, false
	}
	x = new(big.Int).SetBytes(pub[1:33])
	y = new(big.Int).SetBytes(pub[33:])
	if x.Cmp(c.Params().P) >= 0 || y.Cmp(c.Params().P) >= 0 || !c.IsOnCurve(x, y) {
		return nil, nil, false
	}
	return x, y, true
}

func coqSuite(s int) string {
	return []string{"SuiteNone", "SuiteChaCha", "SuiteAes128", "SuiteAes256"}[s]
}

func runKeys(in keysIn) (out sessOut) {
	fail := func(format string, a ...interface{}) {
		if out.oracle == "" {
			out.oracle = fmt.Sprintf(format, a...)
		}
	}
	ka := network.VerifSecureKeyFromD(unhex(in.DA))
	kb := network.VerifSecureKeyFromD(unhex(in.DB))
	pubA, pubB := ka.MarshalPublicKey(), kb.MarshalPublicKey()
	forA, forB := damage(pubB, in.BadA), damage(pubA, in.BadB)
	_, _, okForA := validP256(forA)
	_, _, okForB := validP256(forB)
	sa := network.SecureAeadSuite(in.Suite)
	view := func(k *network.VerifSecureKey, peer []byte, def bool) (string, bool, []byte, []byte, []byte) {
		var err error
		if p := hxlib.Catch(func() { err = k.Setup(sa, peer, def, in.Num) }); p != "" {
			fail("secureKey.setup panicked: %s", p)
			return "None", false, nil, nil, nil
		}
		if err != nil {
			return "None", false, nil, nil, nil
		}
		var secs []string
		for _, s := range k.Secrets() {
			secs = append(secs, hxlib.CoqBytes(s))
		}
		conn := "None"
		var inK, outK []byte
		c, cerr := k.NewConn(&endConn{rd: &half{}, wr: &half{}}, sa)
		if cerr == nil {
			inK, outK = network.VerifSecureConnKeys(c)
			conn = fmt.Sprintf("(Some (%s, %s))", hxlib.CoqBytes(inK), hxlib.CoqBytes(outK))
		}
		return fmt.Sprintf("(Some (%s, %s, %s, %s))", hxlib.CoqBool(k.IsLower()), hxlib.CoqList(secs),
			hxlib.CoqBytes(k.Extra()), conn), true, inK, outK, k.Extra()
	}
	va, oka, inA, outA, exA := view(ka, forA, in.DefA)
	vb, okb, inB, outB, exB := view(kb, forB, in.DefB)
	if oka != okForA {
		fail("setup accepted=%v a peer public key that is valid=%v (%x)", oka, okForA, forA)
	}
	if okb != okForB {
		fail("setup accepted=%v a peer public key that is valid=%v (%x)", okb, okForB, forB)
	}
	ax, ay := ka.XY()
	bx, by := kb.XY()
	distinct := ax.Cmp(bx) != 0 || ay.Cmp(by) != 0
	if oka && okb && in.BadA == "" && in.BadB == "" && (distinct || in.DefA != in.DefB) {
		if !bytes.Equal(exA, exB) {
			fail("the two ends derived different extra secrets")
		}
		if inA != nil && inB != nil {
			if !bytes.Equal(outA, inB) || !bytes.Equal(inA, outB) {
				fail("direction secrets do not match: A.out=%x B.in=%x A.in=%x B.out=%x", outA, inB, inA, outB)
			}
			if in.Num >= 2 && bytes.Equal(inA, outA) {
				fail("one secret for both directions with numOfSecret=%d", in.Num)
			}
			out.nontrivial = true
		}
	}
	out.coq = fmt.Sprintf("(CKeys %s %s %s %s %s %s %s %d %s %s %s %s)", ax, ay, bx, by,
		hxlib.CoqBool(in.DefA), hxlib.CoqBool(in.DefB), coqSuite(in.Suite), in.Num,
		hxlib.CoqBool(okForB), hxlib.CoqBool(okForA), va, vb)
	return
}

// ---------------------------------------------------------------------------
// generators

var writeSizes = []int{0, 1, 2, 15, 16, 17, 100, 1023, 1024, 1025, 2047, 2048, 2049, 4096}
var readSizes = []int{1, 1, 2, 3, 7, 16, 100, 512, 1023, 1024, 1025, 2000, 4096, 5000}

func randD(r *rand.Rand) []byte {
	d := make([]byte, 32)
	r.Read(d)
	d[0] &= 0x7f // below the group order
	if r.Intn(20) == 0 {
		d = []byte{byte(1 + r.Intn(200))}
	}
	return d
}

func randNonce(r *rand.Rand, ns int) string {
	n := make([]byte, ns)
	switch r.Intn(6) {
	case 0, 1, 2:
		return ""
	case 3: // next to a carry over k bytes
		k := 1 + r.Intn(ns)
		for i := ns - k; i < ns; i++ {
			n[i] = 0xff
		}
		if k < ns && r.Intn(2) == 0 {
			n[ns-k-1] = byte(r.Intn(256))
		}
	case 4: // a few steps before the wrap-around of the whole counter
		for i := range n {
			n[i] = 0xff
		}
		n[ns-1] = byte(0xff - r.Intn(4))
	default:
		r.Read(n)
	}
	return hex.EncodeToString(n)
}

func randData(r *rand.Rand, n int) *genIn {
	switch r.Intn(3) {
	case 0:
		return &genIn{Kind: "lcg", Seed: uint32(r.Int31()), Len: n}
	default:
		if r.Intn(2) == 0 {
			return &genIn{Kind: "count", Len: n}
		}
		return &genIn{Kind: "const", Seed: uint32(r.Intn(256)), Len: n}
	}
}

// genSession builds a session; budget bounds the bytes written per direction.
func genSession(r *rand.Rand, tamper string, budget int) sessIn {
	in := sessIn{Suite: 1 + r.Intn(3), DA: hex.EncodeToString(randD(r)), DB: hex.EncodeToString(randD(r)), Num: 2}
	if r.Intn(12) == 0 {
		in.Num = 3
	}
	in.NonceAB, in.NonceBA = randNonce(r, 12), randNonce(r, 12)
	left := [2]int{budget, budget}
	frames := [2]int{0, 0} // upper bound of the frames written, per writer
	nw := 1 + r.Intn(5)
	mode := r.Intn(3) // 0: all writes then reads; 1: interleaved; 2: tiny reads
	wr := func(s int) {
		sz := writeSizes[r.Intn(len(writeSizes))]
		if r.Intn(3) == 0 {
			sz = r.Intn(3000)
		}
		if sz > left[s] {
			sz = left[s]
		}
		left[s] -= sz
		frames[s] += sz/1024 + 1
		in.Ops = append(in.Ops, opIn{K: "w", S: s, Gen: randData(r, sz)})
	}
	rd := func(s int) {
		sz := readSizes[r.Intn(len(readSizes))]
		if mode == 2 {
			sz = 1 + r.Intn(3)
		}
		if r.Intn(25) == 0 {
			sz = 0
		}
		if r.Intn(4) == 0 {
			sz = 1 + r.Intn(5000)
		}
		in.Ops = append(in.Ops, opIn{K: "r", S: s, Size: sz})
	}
	both := r.Intn(2) == 0
	for i := 0; i < nw; i++ {
		s := 0
		if both {
			s = r.Intn(2)
		}
		wr(s)
		if mode != 0 {
			for k := r.Intn(4); k > 0; k-- {
				rd(r.Intn(2))
			}
		}
	}
	if tamper != "" {
		// the man in the middle acts on what is queued from A to B (write something first if needed)
		in.Ops = append(in.Ops, opIn{K: "w", S: 0, Gen: randData(r, 1+r.Intn(2500))})
		in.Ops = append(in.Ops, opIn{K: "w", S: 0, Gen: randData(r, 1+r.Intn(1200))})
		in.Ops = append(in.Ops, opIn{K: "m", S: 0, M: &mutIn{Kind: tamper, I: -1}}) // completed by fixMut at run time
		if r.Intn(2) == 0 {
			in.Ops = append(in.Ops, opIn{K: "w", S: 0, Gen: randData(r, 1+r.Intn(600))})
		}
	}
	// close and drain
	in.Ops = append(in.Ops, opIn{K: "c", S: 0}, opIn{K: "c", S: 1})
	maxReads := 40
	if mode == 2 {
		maxReads = 120
	}
	for i := 0; i < maxReads; i++ {
		rd(i % 2)
	}
	// final big reads (one frame each at most) so that an untampered direction reaches EOF
	for s := 0; s < 2; s++ {
		for i := 0; i < frames[1-s]+6; i++ {
			in.Ops = append(in.Ops, opIn{K: "r", S: s, Size: 5000})
		}
	}
	return in
}

// fixMut chooses the concrete indices of a tampering step from the queue as it will be at that point.
func fixMut(r *rand.Rand, in *sessIn) {
	// simulate queue lengths: run the session up to the step on a scratch copy
	for idx := range in.Ops {
		op := &in.Ops[idx]
		if op.K != "m" || op.M.I >= 0 {
			continue
		}
		pre := *in
		pre.Ops = append([]opIn{}, in.Ops[:idx]...)
		lens := queueLens(pre)
		m := op.M
		if len(lens) == 0 {
			m.I = 0
			continue
		}
		m.I = r.Intn(len(lens))
		switch m.Kind {
		case "flip":
			switch r.Intn(6) {
			case 0:
				m.Pos = r.Intn(2) // length bytes
			case 1:
				m.Pos = 2 + r.Intn(2) // the two ignored header bytes
			case 2:
				m.Pos = lens[m.I] - 1 - r.Intn(16) // tag
			default:
				m.Pos = 4 + r.Intn(lens[m.I]-4)
			}
			m.Mask = 1 << uint(r.Intn(8))
			if r.Intn(3) == 0 {
				m.Mask = 1 + r.Intn(255)
			}
		case "swap":
			if len(lens) < 2 {
				m.Kind = "dup"
			} else {
				m.J = (m.I + 1 + r.Intn(len(lens)-1)) % len(lens)
			}
		case "trunc":
			m.Keep = 1 + r.Intn(lens[m.I]-1)
		}
	}
}

// queueLens runs a session prefix and reports the chunk lengths queued from A to B.
func queueLens(in sessIn) []int {
	ka, kb, err := setupPair(in.Suite, unhex(in.DA), unhex(in.DB), in.Num)
	if err != nil {
		return nil
	}
	ab, ba := &half{}, &half{}
	sa := network.SecureAeadSuite(in.Suite)
	ca, e1 := ka.NewConn(&endConn{rd: ba, wr: ab}, sa)
	cb, e2 := kb.NewConn(&endConn{rd: ab, wr: ba}, sa)
	if e1 != nil || e2 != nil {
		return nil
	}
	conns := []*network.SecureConn{ca, cb}
	hxlib.Catch(func() {
		for _, op := range in.Ops {
			switch op.K {
			case "w":
				conns[op.S].Write(op.bytes())
			case "r":
				conns[op.S].Read(make([]byte, op.Size))
			}
		}
	})
	var l []int
	for _, c := range ab.q {
		l = append(l, len(c))
	}
	return l
}

func emitSession(c *hxlib.Ctx, kind string, in sessIn) {
	o := runSession(in)
	c.Emit(hxlib.Case{Kind: kind, Coq: o.coq, Input: map[string]interface{}{"t": "sess", "v": in},
		Nontrivial: o.nontrivial, OracleErr: o.oracle, Key: mustJSON(in)})
}

func mustJSON(v interface{}) string { b, _ := json.Marshal(v); return string(b) }

func corpusDir() string {
	if d := os.Getenv("VERIF_CORPUS"); d != "" {
		return d
	}
	if exe, err := os.Executable(); err == nil {
		d := filepath.Dir(exe)
		for i := 0; i < 6; i++ {
			p := filepath.Join(d, "corpus", "C31")
			if st, err := os.Stat(p); err == nil && st.IsDir() {
				return p
			}
			d = filepath.Dir(d)
		}
	}
	return "/verif/corpus/C31"
}

func gen(c *hxlib.Ctx) {
	r := c.Rand
	// 0. corpus of past failures, always first
	files, _ := filepath.Glob(filepath.Join(corpusDir(), "*.json"))
	sort.Strings(files)
	for _, f := range files {
		b, err := os.ReadFile(f)
		if err != nil {
			continue
		}
		var doc struct {
			Input struct {
				T string          `json:"t"`
				V json.RawMessage `json:"v"`
			} `json:"input"`
		}
		if json.Unmarshal(b, &doc) != nil || doc.Input.T != "sess" {
			c.Note("corpus file %s not understood", f)
			continue
		}
		var in sessIn
		if json.Unmarshal(doc.Input.V, &in) != nil {
			continue
		}
		emitSession(c, "corpus", in)
	}
	// 1. boundary sessions: every write size x a few read sizes, all three suites
	for _, ws := range []int{0, 1, 1023, 1024, 1025, 4096} {
		for _, rs := range []int{1, 4, 1024, 5000} {
			if rs == 1 && ws > 1025 {
				continue
			}
			in := sessIn{Suite: 1 + (ws+rs)%3, DA: hex.EncodeToString(randD(r)), DB: hex.EncodeToString(randD(r)), Num: 2}
			in.Ops = append(in.Ops, opIn{K: "w", S: 0, Gen: randData(r, ws)}, opIn{K: "c", S: 0})
			for k := 0; k <= ws/rs+2 && k < 1100; k++ {
				in.Ops = append(in.Ops, opIn{K: "r", S: 1, Size: rs})
			}
			emitSession(c, "boundary", in)
		}
	}
	// 2. random honest sessions
	for i := 0; i < c.N(70); i++ {
		emitSession(c, "honest", genSession(r, "", 2500+r.Intn(4000)))
	}
	// 3. man in the middle
	kinds := []string{"flip", "flip", "flip", "swap", "dup", "drop", "trunc"}
	for i := 0; i < c.N(70); i++ {
		k := kinds[i%len(kinds)]
		in := genSession(r, k, 1500)
		fixMut(r, &in)
		emitSession(c, "mitm-"+in.Ops[mutIndex(in)].M.Kind, in)
	}
	// 4. the same tampering seen through bufio.Reader, as network.PacketReader reads (oracle only)
	for i := 0; i < c.N(30); i++ {
		k := kinds[i%len(kinds)]
		in := genSession(r, k, 1200)
		in.Bufio = true
		fixMut(r, &in)
		emitSession(c, "bufio-"+in.Ops[mutIndex(in)].M.Kind, in)
	}
	for i := 0; i < c.N(10); i++ {
		in := genSession(r, "", 3000)
		in.Bufio = true
		emitSession(c, "bufio-honest", in)
	}
	// 5. key set-up
	n := new(big.Int).Set(elliptic.P256().Params().N)
	for i := 0; i < c.N(120); i++ {
		in := keysIn{Suite: r.Intn(4), DA: hex.EncodeToString(randD(r)), DB: hex.EncodeToString(randD(r)),
			Num: []int{0, 1, 2, 2, 2, 2, 3}[r.Intn(7)], DefA: false, DefB: true}
		kind := "keys"
		switch r.Intn(8) {
		case 0: // the same key at both ends: only defaultLower separates them
			in.DB = in.DA
			kind = "keys-equal"
			if r.Intn(3) == 0 {
				in.DefA, in.DefB = true, false
			}
		case 1: // equal X, different Y: d and N-d
			d := new(big.Int).SetBytes(unhex(in.DA))
			d.Mod(d, n)
			if d.Sign() == 0 {
				d.SetInt64(5)
			}
			in.DA = hex.EncodeToString(d.Bytes())
			in.DB = hex.EncodeToString(new(big.Int).Sub(n, d).Bytes())
			kind = "keys-equal-x"
		case 2:
			in.BadA = []string{"short", "offcurve", "prefix", "empty"}[r.Intn(4)]
			kind = "keys-bad-peer"
		case 3:
			in.BadB = []string{"short", "offcurve", "prefix", "empty"}[r.Intn(4)]
			kind = "keys-bad-peer"
		case 4:
			in.DefA, in.DefB = r.Intn(2) == 0, r.Intn(2) == 0
		}
		o := runKeys(in)
		c.Emit(hxlib.Case{Kind: kind, Coq: o.coq, Input: map[string]interface{}{"t": "keys", "v": in},
			Nontrivial: o.nontrivial, OracleErr: o.oracle, Key: mustJSON(in)})
	}
	// canaries: wrong observations the model must flag
	c.Emit(hxlib.Case{Kind: "canary", Canary: true,
		Coq: "(CSess 16 [0;0;0;0;0;0;0;0;0;0;0;0] [0;0;0;0;0;0;0;0;0;0;0;0] [SWrite SA (DLit [1;2;3;4;5;6;7;8;9;10]); SRead SB 4] [OW 10; OR 10 (OLit [1;2;3;4]) None] [([0;10;0;0], 30)] [])"})
	c.Emit(hxlib.Case{Kind: "canary", Canary: true,
		Coq: "(CSess 16 [0;0;0;0;0;0;0;0;0;0;0;0] [0;0;0;0;0;0;0;0;0;0;0;0] [SWrite SA (DCount 10); SRead SB 4; SRead SB 4] [OW 10; OR 4 (ORef 0 4) None; OR 4 (ORef 5 4) None] [([0;10;0;0], 30)] [])"})
	c.Emit(hxlib.Case{Kind: "canary", Canary: true,
		Coq: "(CKeys 5 6 7 8 false true SuiteChaCha 2 true true (Some (false, [[1];[2]], [3], Some ([1],[2]))) (Some (true, [[1];[2]], [3], Some ([1],[2]))))"})
}

func mutIndex(in sessIn) int {
	for i, op := range in.Ops {
		if op.K == "m" {
			return i
		}
	}
	return 0
}

func replay(raw json.RawMessage) string {
	var in struct {
		T string          `json:"t"`
		V json.RawMessage `json:"v"`
	}
	if err := json.Unmarshal(raw, &in); err != nil {
		return "bad replay input: " + err.Error()
	}
	switch in.T {
	case "sess":
		var v sessIn
		if err := json.Unmarshal(in.V, &v); err != nil {
			return "bad session: " + err.Error()
		}
		return runSession(v).oracle
	case "keys":
		var v keysIn
		if err := json.Unmarshal(in.V, &v); err != nil {
			return "bad keys case: " + err.Error()
		}
		return runKeys(v).oracle
	}
	return "unknown case type " + in.T
}

func main() {
	hxlib.Main(hxlib.Spec{
		ID: "C31",
		Rule: "sessions between two real SecureConn ends over an in-memory duplex (all three AEAD suites, random ECDH keys, counters started at 0 / next to a carry / next to the wrap-around): write sizes {0,1,..,1023,1024,1025,..,4096,random}, read buffers from 0 and 1 byte up to 5000, interleaved in both directions, closed and drained; man-in-the-middle sessions with one bit/byte flip (length bytes, ignored header bytes, ciphertext, tag), swap, duplication, drop or truncation of queued frames; the same through bufio.Reader (oracle only); key set-ups with distinct, equal and equal-X keys, 0..3 secrets, all suites, damaged peer keys; committed corpus first. non-trivial = a session that moved bytes or was tampered with, a key set-up with two valid ends; distinct = distinct JSON description",
		Shard: 40,
		Gen:   gen, Replay: replay,
	})
}
