// c28: icon/merkle/hexary Accumulator and MerkleTree vs Model_Hexary.
//
// A case is an operation script run through the package's exported API over
// db.NewMapDB: Add, GetMerkleHeader, Finalize, SetLen (rewind), reopening the
// accumulator on the same buckets, MerkleTree.Prove and MerkleTree.Add
// (verification) of genuine and altered proofs.  Observations are printed as a
// Coq `case` for Run_C28; the direct oracle compares headers with a reference
// layered Merkle computation and with a fresh accumulation of the prefix.
package main

import (
	"bytes"
	"encoding/hex"
	"encoding/json"
	"fmt"
	"io"
	"math/rand"
	"strings"

	"golang.org/x/crypto/sha3"

	"github.com/icon-project/goloop/common/db"
	"github.com/icon-project/goloop/common/errors"
	"github.com/icon-project/goloop/common/log"
	"github.com/icon-project/goloop/icon/merkle/hexary"
	"verif/harness/hxlib"
)

// flagOverlong: a proof with inserted elements (longer than the tree has levels)
// must be rejected like any other altered proof; a panic or an acceptance is a
// violation (repaired in /repo by 33272cd; corpus/C28/overlong-proof-40.json).
const flagOverlong = true

// limits for a case to take part in the Coq evaluation (beyond them coqc runs out of stack
// while reading the term; the quick tier stays far below)
const (
	maxCoqTerm = 500 << 10
	maxCoqOps  = 20000
)

type opSpec struct {
	K      string   `json:"k"` // add | addraw | header | finalize | setlen | reopen | prove | verify | bnew | badd
	H      string   `json:"h,omitempty"`
	L      int64    `json:"l,omitempty"`
	Key    int64    `json:"key,omitempty"`
	From   int      `json:"from,omitempty"`
	Proof  []string `json:"proof,omitempty"`
	Expect string   `json:"expect,omitempty"` // accept | reject | "" (not part of the property)
	Note   string   `json:"note,omitempty"`
}

type scenario struct {
	Name string   `json:"name"`
	Ops  []opSpec `json:"ops"`
}

type recBucket struct {
	db.Bucket
	onSet func(k, v []byte)
}

func (b *recBucket) Set(k, v []byte) error {
	b.onSet(k, v)
	return b.Bucket.Set(k, v)
}

type hdr struct {
	root   []byte
	leaves int64
}

type runner struct {
	coq     bool
	tbk     db.Bucket
	ibk     db.Bucket
	acc     hexary.Accumulator
	xs      [][]byte
	saved   [][]byte
	builder hexary.MerkleTree

	pool    map[string]int
	tblSeen map[string]bool
	tbl     []string
	ops     []string

	fresh   map[int64]*hdr // header of a fresh accumulation of xs[:l]
	oracle  string
	nontriv bool
	maxLen  int
	rewinds int
	proofs  int

	kept []*keptHeader // every header object handed out, with a deep copy taken at that moment
}

// keptHeader: "a returned header never changes" (it must not alias accumulator buffers)
type keptHeader struct {
	hd     *hexary.MerkleHeader
	root   []byte
	leaves int64
	xs     [][]byte // the sequence it was returned for
	what   string
}

func isPow16(n int64) bool {
	for n > 1 && n%16 == 0 {
		n /= 16
	}
	return n == 1
}

func (r *runner) keep(hd *hexary.MerkleHeader, what string) {
	if hd == nil || (len(r.kept) >= 200 && !isPow16(hd.Leaves)) {
		return
	}
	r.kept = append(r.kept, &keptHeader{hd: hd, root: append([]byte(nil), hd.RootHash...), leaves: hd.Leaves,
		xs: r.xs[:len(r.xs):len(r.xs)], what: what})
}

// recheck compares every kept header object with the copy taken when it was returned
func (r *runner) recheck(after string) {
	for _, k := range r.kept {
		if !bytes.Equal(k.hd.RootHash, k.root) || k.hd.Leaves != k.leaves {
			r.fail("the header returned by %s at length %d (%x,%d) changed to (%x,%d) after a later %s at length %d",
				k.what, k.leaves, k.root, k.leaves, k.hd.RootHash, k.hd.Leaves, after, len(r.xs))
			return
		}
	}
}

// laterProofs: headers kept from earlier lengths (all powers of 16, a few others) must still prove
// and verify their leaves at the end of the script (tree nodes are never deleted from the bucket)
func (r *runner) laterProofs() {
	others := 0
	for _, k := range r.kept {
		if k.leaves == 0 || int64(len(k.xs)) != k.leaves || !strings.HasPrefix(k.what, "Finalize") {
			continue // only Finalize stores the partial nodes a proof needs
		}
		if !isPow16(k.leaves) {
			if others >= 6 {
				continue
			}
			others++
		}
		for _, key := range []int64{0, k.leaves / 2, k.leaves - 1} {
			var msg string
			p := hxlib.Catch(func() {
				mt, err := hexary.NewMerkleTree(r.tbk, k.hd, 0)
				if err != nil {
					msg = err.Error()
					return
				}
				proof, err := mt.Prove(key, 0)
				if err != nil {
					msg = "Prove: " + err.Error()
					return
				}
				v, err := hexary.NewMerkleTree(newMapBucket(), &hexary.MerkleHeader{RootHash: k.root, Leaves: k.leaves}, 0)
				if err != nil {
					msg = err.Error()
					return
				}
				if err := v.Add(key, k.xs[key], proof); err != nil {
					msg = "Add: " + err.Error()
				}
			})
			if p != "" {
				msg = "panic: " + p
			}
			if msg != "" {
				r.fail("the header returned by %s at length %d no longer proves key %d at the end of the script (length %d): %s",
					k.what, k.leaves, key, len(r.xs), msg)
				return
			}
		}
	}
}

func newRunner(coq bool) *runner {
	r := &runner{coq: coq, pool: map[string]int{}, tblSeen: map[string]bool{}, fresh: map[int64]*hdr{}}
	mdb := db.NewMapDB()
	t, _ := mdb.GetBucket("t")
	r.tbk = &recBucket{Bucket: t, onSet: func(k, v []byte) { r.addTbl(v, k) }}
	r.ibk, _ = mdb.GetBucket("i")
	r.acc, _ = hexary.NewAccumulator(r.tbk, r.ibk, "")
	return r
}

func (r *runner) fail(format string, a ...interface{}) {
	if r.oracle == "" {
		r.oracle = fmt.Sprintf(format, a...)
	}
}

func (r *runner) ref(h []byte) int {
	k := string(h)
	if id, ok := r.pool[k]; ok {
		return id
	}
	id := len(r.pool)
	r.pool[k] = id
	return id
}

// node bytes as a Coq pnode
func (r *runner) pnode(b []byte) string {
	if len(b)%32 != 0 {
		return "PR " + hxlib.CoqBytes(b)
	}
	ids := make([]string, 0, len(b)/32)
	for i := 0; i < len(b); i += 32 {
		ids = append(ids, fmt.Sprint(r.ref(b[i:i+32])))
	}
	return "PT [" + strings.Join(ids, ";") + "]"
}

func (r *runner) idList(b []byte) string {
	ids := make([]string, 0, len(b)/32)
	for i := 0; i+32 <= len(b); i += 32 {
		ids = append(ids, fmt.Sprint(r.ref(b[i:i+32])))
	}
	return "[" + strings.Join(ids, ";") + "]"
}

func sum(b []byte) []byte { d := sha3.Sum256(b); return d[:] }

// addTbl records SHA3(pre) = dig
func (r *runner) addTbl(pre, dig []byte) {
	k := string(pre)
	if r.tblSeen[k] {
		return
	}
	r.tblSeen[k] = true
	if !bytes.Equal(sum(pre), dig) {
		r.fail("tree bucket key %x is not SHA3-256 of its %d-byte node", dig, len(pre))
	}
	if r.coq && len(dig) == 32 {
		r.tbl = append(r.tbl, fmt.Sprintf("TN (%s) %d", r.pnode(pre), r.ref(dig)))
	}
}

// reference: the layered 16-ary Merkle root of xs (a lone hash is its own root);
// every node met is recorded in the hash table.
func (r *runner) reference(xs [][]byte) []byte {
	if len(xs) == 0 {
		return nil
	}
	layer := xs
	for len(layer) > 1 {
		var next [][]byte
		for i := 0; i < len(layer); i += 16 {
			j := i + 16
			if j > len(layer) {
				j = len(layer)
			}
			nb := bytes.Join(layer[i:j], nil)
			h := sum(nb)
			r.addTbl(nb, h)
			next = append(next, h)
		}
		layer = next
	}
	return layer[0]
}

// freshHeader accumulates xs[:l] in a new accumulator on new buckets
func (r *runner) freshHeader(l int64) *hdr {
	if h, ok := r.fresh[l]; ok {
		return h
	}
	mdb := db.NewMapDB()
	t, _ := mdb.GetBucket("t")
	i, _ := mdb.GetBucket("i")
	a, _ := hexary.NewAccumulator(t, i, "")
	for _, x := range r.xs[:l] {
		a.Add(x)
	}
	mh := a.GetMerkleHeader()
	h := &hdr{mh.RootHash, mh.Leaves}
	r.fresh[l] = h
	return h
}

func (r *runner) checkHeader(what string, mh *hexary.MerkleHeader, xs [][]byte) string {
	want := r.reference(xs)
	if mh == nil {
		r.fail("%s returns no header at length %d", what, len(xs))
		return "HE 2"
	}
	if !bytes.Equal(mh.RootHash, want) || mh.Leaves != int64(len(xs)) {
		r.fail("%s at length %d: header (%x,%d) is not the Merkle root of the sequence (%x,%d)",
			what, len(xs), mh.RootHash, mh.Leaves, want, len(xs))
	}
	r.keep(mh, what)
	code := 0
	if len(mh.RootHash) > 0 {
		code = r.ref(mh.RootHash) + 1
	}
	return fmt.Sprintf("HO %d %d", code, mh.Leaves)
}

func errClass(err error, panicked string) int {
	switch {
	case panicked != "":
		return 9
	case err == nil:
		return 0
	case errors.Is(err, hexary.ErrVerify) || errors.IllegalArgumentError.Equals(err):
		return 1
	default:
		return 2
	}
}

func (r *runner) finalize(what string) *hexary.MerkleHeader {
	var hd *hexary.MerkleHeader
	var err error
	if p := hxlib.Catch(func() { hd, err = r.acc.Finalize() }); p != "" || err != nil {
		r.fail("Finalize before %s at length %d fails: %v %s", what, len(r.xs), err, p)
		return nil
	}
	r.reference(r.xs)
	r.keep(hd, "Finalize")
	return hd
}

func decodeProof(p []string) [][]byte {
	out := make([][]byte, len(p))
	for i, s := range p {
		out[i], _ = hex.DecodeString(s)
	}
	return out
}

func (r *runner) coqProof(p [][]byte) string {
	items := make([]string, len(p))
	for i, b := range p {
		items[i] = r.pnode(b)
		if len(b)%32 == 0 && len(b) > 0 && len(b) <= 512 {
			r.addTbl(b, sum(b)) // the verifier hashes every well-formed proof node it reaches
		}
	}
	return "[" + strings.Join(items, "; ") + "]"
}

func newMapBucket() db.Bucket {
	bk, _ := db.NewMapDB().GetBucket("")
	return bk
}

func (r *runner) verifyOn(mt hexary.MerkleTree, o opSpec) int {
	h, _ := hex.DecodeString(o.H)
	proof := decodeProof(o.Proof)
	var err error
	p := hxlib.Catch(func() { err = mt.Add(o.Key, h, proof) })
	cls := errClass(err, p)
	n := int64(len(r.xs))
	switch o.Expect {
	case "accept":
		if cls != 0 {
			r.fail("genuine proof for key %d at length %d is not accepted: %v %s", o.Key, n, err, p)
		}
	case "reject":
		if cls == 0 {
			r.fail("altered proof/hash (%s) for key %d at length %d is accepted", o.Note, o.Key, n)
		} else if cls == 9 {
			r.fail("altered proof/hash (%s) for key %d at length %d makes Add panic: %s", o.Note, o.Key, n, p)
		}
	case "reject-overlong":
		if flagOverlong && cls == 9 {
			r.fail("over-long proof (%s) for key %d at length %d makes Add panic: %s", o.Note, o.Key, n, p)
		} else if flagOverlong && cls == 0 {
			r.fail("over-long proof (%s) for key %d at length %d is accepted", o.Note, o.Key, n)
		}
	}
	return cls
}

func (r *runner) step(o opSpec) {
	n := int64(len(r.xs))
	switch o.K {
	case "add", "addraw":
		h, _ := hex.DecodeString(o.H)
		var err error
		p := hxlib.Catch(func() { err = r.acc.Add(h) })
		cls := errClass(err, p)
		if cls == 0 {
			r.xs = append(r.xs, h)
			r.saved = r.xs
			if len(r.xs) > r.maxLen {
				r.maxLen = len(r.xs)
			}
			if r.acc.Len() != int64(len(r.xs)) {
				r.fail("Len() = %d after %d hashes", r.acc.Len(), len(r.xs))
			}
		} else if len(h) == 32 {
			r.fail("Add at length %d fails: %v %s", n, err, p)
		}
		if len(h) == 32 {
			r.ops = append(r.ops, fmt.Sprintf("SAdd %d %d", r.ref(h), cls))
		} else {
			r.ops = append(r.ops, fmt.Sprintf("SAddRaw %s %d", hxlib.CoqBytes(h), cls))
		}
	case "header":
		var mh *hexary.MerkleHeader
		if p := hxlib.Catch(func() { mh = r.acc.GetMerkleHeader() }); p != "" {
			r.fail("GetMerkleHeader at length %d panics: %s", n, p)
			r.ops = append(r.ops, "SHeader (HE 9)")
			return
		}
		r.ops = append(r.ops, "SHeader ("+r.checkHeader("GetMerkleHeader", mh, r.xs)+")")
	case "finalize":
		var mh *hexary.MerkleHeader
		var err error
		if p := hxlib.Catch(func() { mh, err = r.acc.Finalize() }); p != "" || err != nil {
			r.fail("Finalize at length %d fails: %v %s", n, err, p)
			r.ops = append(r.ops, fmt.Sprintf("SFinalize (HE %d)", errClass(err, p)))
			return
		}
		r.ops = append(r.ops, "SFinalize ("+r.checkHeader("Finalize", mh, r.xs)+")")
	case "setlen":
		var err error
		p := hxlib.Catch(func() { err = r.acc.SetLen(o.L) })
		cls := errClass(err, p)
		r.reference(r.xs) // Finalize inside SetLen hashes the partial nodes of the old sequence
		if o.L >= 0 && o.L <= n {
			if cls != 0 {
				r.fail("SetLen(%d) at length %d fails: %v %s", o.L, n, err, p)
			} else {
				if o.L != 0 && o.L != n {
					r.saved = append([][]byte(nil), r.xs[:o.L]...)
				}
				r.xs = append([][]byte(nil), r.xs[:o.L]...)
				for k := range r.fresh {
					if k > o.L {
						delete(r.fresh, k)
					}
				}
				r.rewinds++
				if o.L > 0 && o.L < n {
					r.nontriv = true
				}
				// the property: the rewound accumulator has the header of accumulating the prefix
				var mh *hexary.MerkleHeader
				if p := hxlib.Catch(func() { mh = r.acc.GetMerkleHeader() }); p != "" {
					r.fail("GetMerkleHeader after SetLen(%d) from %d panics: %s", o.L, n, p)
				} else {
					fh := r.freshHeader(o.L)
					if !bytes.Equal(mh.RootHash, fh.root) || mh.Leaves != fh.leaves {
						r.fail("SetLen(%d) from length %d: header (%x,%d) differs from accumulating the prefix (%x,%d)",
							o.L, n, mh.RootHash, mh.Leaves, fh.root, fh.leaves)
					}
					if r.acc.Len() != o.L {
						r.fail("Len() = %d after SetLen(%d)", r.acc.Len(), o.L)
					}
				}
			}
		} else if cls == 0 || cls == 9 {
			r.fail("SetLen(%d) at length %d: want an error, got class %d %s", o.L, n, cls, p)
		}
		r.ops = append(r.ops, fmt.Sprintf("SSetLen %d %d", o.L, cls))
	case "reopen":
		a, err := hexary.NewAccumulator(r.tbk, r.ibk, "")
		if err != nil {
			r.fail("NewAccumulator on the same buckets fails: %v", err)
			return
		}
		r.acc = a
		r.xs = append([][]byte(nil), r.saved...)
		r.fresh = map[int64]*hdr{}
		var mh *hexary.MerkleHeader
		if p := hxlib.Catch(func() { mh = r.acc.GetMerkleHeader() }); p != "" {
			r.fail("GetMerkleHeader after reopening panics: %s", p)
			r.ops = append(r.ops, "SReopen (HE 9)")
			return
		}
		r.ops = append(r.ops, "SReopen ("+r.checkHeader("reopened accumulator", mh, r.xs)+")")
	case "prove":
		hd := r.finalize("Prove")
		if hd == nil {
			return
		}
		mt, err := hexary.NewMerkleTree(r.tbk, hd, 0)
		if err != nil {
			r.fail("NewMerkleTree at length %d fails: %v", n, err)
			return
		}
		var proof [][]byte
		p := hxlib.Catch(func() { proof, err = mt.Prove(o.Key, o.From) })
		cls := errClass(err, p)
		if o.Key >= 0 && o.Key < n && o.From <= 0 && cls != 0 {
			r.fail("Prove(%d,%d) at length %d fails: %v %s", o.Key, o.From, n, err, p)
		}
		from := o.From + 1
		if o.From < 0 {
			from = 0
		}
		if cls != 0 {
			r.ops = append(r.ops, fmt.Sprintf("SProve %d %d (PErr %d)", o.Key, from, cls))
			return
		}
		r.proofs++
		if o.Key >= 0 && o.Key < n && o.From == 0 {
			// the property: the proof is accepted against the header
			v, _ := hexary.NewMerkleTree(newMapBucket(), hd, 0)
			var e2 error
			if p2 := hxlib.Catch(func() { e2 = v.Add(o.Key, r.xs[o.Key], proof) }); p2 != "" || e2 != nil {
				r.fail("proof of key %d at length %d is not accepted by a tree built from the header: %v %s", o.Key, n, e2, p2)
			}
		}
		items := make([]string, len(proof))
		for i, b := range proof {
			items[i] = r.idList(b)
		}
		r.ops = append(r.ops, fmt.Sprintf("SProve %d %d (POk [%s])", o.Key, from, strings.Join(items, ";")))
	case "verify":
		hd := r.finalize("Add")
		if hd == nil {
			return
		}
		v, err := hexary.NewMerkleTree(newMapBucket(), hd, 0)
		if err != nil {
			r.fail("NewMerkleTree at length %d fails: %v", n, err)
			return
		}
		cls := r.verifyOn(v, o)
		h, _ := hex.DecodeString(o.H)
		r.ops = append(r.ops, fmt.Sprintf("SVerify %d %d %s %d", o.Key, r.ref(h), r.coqProof(decodeProof(o.Proof)), cls))
	case "bnew":
		hd := r.finalize("NewMerkleTree")
		if hd == nil {
			return
		}
		b, err := hexary.NewMerkleTree(newMapBucket(), hd, 0)
		if err != nil {
			r.fail("NewMerkleTree at length %d fails: %v", n, err)
			return
		}
		r.builder = b
		r.ops = append(r.ops, "SBuilderNew")
	case "badd":
		if r.builder == nil {
			return
		}
		cls := r.verifyOn(r.builder, o)
		h, _ := hex.DecodeString(o.H)
		r.ops = append(r.ops, fmt.Sprintf("SBuilderAdd %d %d %s %d", o.Key, r.ref(h), r.coqProof(decodeProof(o.Proof)), cls))
	}
}

func (r *runner) coqCase() string {
	return "Case [" + strings.Join(r.tbl, ";\n  ") + "]\n [" + strings.Join(r.ops, ";\n  ") + "]"
}

func runScenario(sc scenario, coq bool) *runner {
	r := newRunner(coq)
	for _, o := range sc.Ops {
		o := o
		// inner calls are caught where a panic is an observation; anything else that panics is a crash
		if p := hxlib.Catch(func() { r.step(o) }); p != "" {
			r.fail("%s at length %d panics: %s", o.K, len(r.xs), p)
			break
		}
		r.recheck(o.K)
	}
	if r.oracle == "" {
		r.laterProofs()
	}
	return r
}

// ---------------- generators ----------------

func randHash(rg *rand.Rand) string {
	h := make([]byte, 32)
	rg.Read(h)
	return hex.EncodeToString(h)
}

func adds(rg *rand.Rand, n int) []opSpec {
	ops := make([]opSpec, n)
	for i := range ops {
		ops[i] = opSpec{K: "add", H: randHash(rg)}
	}
	return ops
}

// shadow executes a script prefix to obtain genuine proofs for mutation
type shadow struct {
	r *runner
}

func (s *shadow) proof(key int64, from int) (out [][]byte) {
	hxlib.Catch(func() {
		hd, err := s.r.acc.Finalize()
		if err != nil {
			return
		}
		mt, err := hexary.NewMerkleTree(s.r.tbk, hd, 0)
		if err != nil {
			return
		}
		p, err := mt.Prove(key, from)
		if err != nil {
			return
		}
		out = make([][]byte, len(p))
		for i := range p {
			out[i] = append([]byte(nil), p[i]...)
		}
	})
	return out
}

func hexProof(p [][]byte) []string {
	out := make([]string, len(p))
	for i, b := range p {
		out[i] = hex.EncodeToString(b)
	}
	return out
}

// mutations of (key, hash, proof); single-element ones must be rejected
func mutate(rg *rand.Rand, s *shadow, key int64, kind int) (opSpec, bool) {
	xs := s.r.xs
	p := s.proof(key, 0)
	if p == nil {
		return opSpec{}, false
	}
	h := append([]byte(nil), xs[key]...)
	o := opSpec{K: "verify", Key: key, Expect: "reject"}
	switch kind {
	case 0: // one bit of one proof node
		if len(p) == 0 {
			return o, false
		}
		i := rg.Intn(len(p))
		p[i][rg.Intn(len(p[i]))] ^= byte(1 << uint(rg.Intn(8)))
		o.Note = "bit flip in a proof node"
	case 1: // one bit of the leaf hash
		h[rg.Intn(32)] ^= byte(1 << uint(rg.Intn(8)))
		o.Note = "bit flip in the hash"
	case 2: // a proof node replaced by the node of another key
		if len(p) == 0 || len(xs) < 2 {
			return o, false
		}
		k2 := int64(rg.Intn(len(xs)))
		q := s.proof(k2, 0)
		i := rg.Intn(len(p))
		if q == nil || len(q) != len(p) || bytes.Equal(q[i], p[i]) {
			return o, false
		}
		p[i] = q[i]
		o.Note = "proof node of another key"
	case 3: // two children of a node exchanged
		if len(p) == 0 {
			return o, false
		}
		i := rg.Intn(len(p))
		c := len(p[i]) / 32
		if c < 2 {
			return o, false
		}
		a, b := rg.Intn(c), rg.Intn(c)
		if a == b || bytes.Equal(p[i][a*32:a*32+32], p[i][b*32:b*32+32]) {
			return o, false
		}
		t := append([]byte(nil), p[i][a*32:a*32+32]...)
		copy(p[i][a*32:], p[i][b*32:b*32+32])
		copy(p[i][b*32:], t)
		o.Note = "children exchanged"
	case 4: // another key with the same proof
		k2 := key + int64([]int{1, -1, 16, -16, 256}[rg.Intn(5)])
		if k2 < 0 || k2 >= int64(len(xs)) || bytes.Equal(xs[k2], xs[key]) {
			return o, false
		}
		o.Key = k2
		o.Note = "proof of a neighbouring key"
	case 5: // the hash of another leaf
		k2 := int64(rg.Intn(len(xs)))
		if bytes.Equal(xs[k2], xs[key]) {
			return o, false
		}
		h = append([]byte(nil), xs[k2]...)
		o.Note = "hash of another leaf"
	case 6: // a node cut by one byte / by one child
		if len(p) == 0 {
			return o, false
		}
		i := rg.Intn(len(p))
		if rg.Intn(2) == 0 {
			p[i] = p[i][:len(p[i])-1]
			o.Note = "node cut by a byte"
		} else {
			p[i] = p[i][:len(p[i])-32]
			o.Note = "node cut by a child"
			if len(p[i]) == 0 {
				return o, false
			}
		}
	case 7: // last element dropped: a shorter proof is read against the verifier's own (empty) bucket
		if len(p) == 0 {
			return o, false
		}
		if rg.Intn(2) == 0 {
			p = p[:len(p)-1]
		} else {
			p = p[1:]
		}
		o.Note = "element dropped"
	case 8: // an element inserted: the proof is longer than the tree has levels
		junk := make([]byte, 32*(1+rg.Intn(16)))
		rg.Read(junk)
		switch rg.Intn(3) {
		case 0:
			p = append([][]byte{junk}, p...)
			o.Note = "element prepended"
		case 1:
			p = append(p, junk)
			o.Note = "element appended"
		default: // a genuine node repeated
			if len(p) == 0 {
				p = append(p, junk)
			} else {
				i := rg.Intn(len(p))
				q := append([][]byte{}, p[:i+1]...)
				p = append(q, p[i:]...)
			}
			o.Note = "element duplicated"
		}
		o.Expect = "reject-overlong"
	}
	o.H = hex.EncodeToString(h)
	o.Proof = hexProof(p)
	return o, true
}

// build a script and run it on a shadow as it is generated, so that genuine
// proofs are available for verify ops
type builder struct {
	sc scenario
	s  *shadow
}

func newBuilder(name string) *builder {
	return &builder{sc: scenario{Name: name}, s: &shadow{r: newRunner(false)}}
}

func (b *builder) add(o opSpec) {
	b.sc.Ops = append(b.sc.Ops, o)
	hxlib.Catch(func() { b.s.r.step(o) })
}

func (b *builder) n() int64 { return int64(len(b.s.r.xs)) }

func (b *builder) genuine(key int64) {
	p := b.s.proof(key, 0)
	if p == nil {
		return
	}
	b.add(opSpec{K: "prove", Key: key, From: 0})
	b.add(opSpec{K: "verify", Key: key, H: hex.EncodeToString(b.s.r.xs[key]), Proof: hexProof(p), Expect: "accept"})
}

func (b *builder) mutated(rg *rand.Rand, key int64, kind int) {
	if o, ok := mutate(rg, b.s, key, kind); ok {
		b.add(o)
	}
}

// one verifying tree reused across many Adds: genuine full proofs (any key order) fill its node
// cache and bucket; altered FULL proofs are then offered for keys whose path nodes it already holds.
// An altered element must be rejected whatever the verifier has cached.
func genVerifier(rg *rand.Rand, n int) scenario {
	b := newBuilder(fmt.Sprintf("verifier-%d", n))
	for _, o := range adds(rg, n) {
		b.add(o)
	}
	b.add(opSpec{K: "finalize"})
	b.add(opSpec{K: "bnew"})
	badd := func(key int64, from int) {
		p := b.s.proof(key, from)
		if p == nil {
			return
		}
		expect := "accept"
		if from < 0 {
			expect = "" // a minimal proof needs the path of key-1 in the verifier: compared with the model only
		}
		b.add(opSpec{K: "badd", Key: key, H: hex.EncodeToString(b.s.r.xs[key]), Proof: hexProof(p), Expect: expect})
	}
	altered := func(key int64) {
		kinds := []int{0, 0, 0, 1, 2, 3, 3, 4, 5, 6, 6, 8}
		if o, ok := mutate(rg, b.s, key, kinds[rg.Intn(len(kinds))]); ok {
			o.K = "badd"
			b.add(o)
		}
	}
	keys := rg.Perm(n)
	if rg.Intn(2) == 0 { // ascending order, as a syncing node adds them
		for i := range keys {
			keys[i] = i
		}
	}
	steps := n
	if steps > 120 {
		steps = 120
	}
	for _, k := range keys[:steps] {
		key := int64(k)
		if rg.Intn(3) == 0 {
			altered(key) // before the genuine one: nothing of this key is cached yet (its ancestors may be)
		}
		badd(key, 0)
		altered(key) // the same key again, every node of its path is cached now
		// a neighbour in the same bottom node, and one that shares only upper nodes
		for _, d := range []int64{1, -1, 16, -17, 256} {
			if k2 := key + d; k2 >= 0 && k2 < int64(n) && rg.Intn(3) == 0 {
				altered(k2)
			}
		}
		if rg.Intn(4) == 0 {
			badd(int64(rg.Intn(n)), -1) // a minimal proof in between
		}
	}
	return b.sc
}

// headers handed out at the lengths 16^k (the root is then a child of the top root node itself)
// and elsewhere, kept while the sequence grows past 16^(k+1)+16^k, where the buffers of the root
// nodes have been reused; the runner re-compares every kept header after every later operation
// and proves against the kept Finalize headers at the end.
func genAlias(rg *rand.Rand, top int) scenario {
	b := newBuilder(fmt.Sprintf("alias-%d", top))
	b.add(opSpec{K: "finalize"})
	for i := 1; i <= top; i++ {
		b.add(opSpec{K: "add", H: randHash(rg)})
		l := int64(i)
		switch {
		case isPow16(l):
			b.add(opSpec{K: "finalize"})
			b.add(opSpec{K: "header"})
		case isPow16(l-1) || isPow16(l+1) || l%16 == 0 && rg.Intn(8) == 0 || rg.Intn(40) == 0:
			if rg.Intn(2) == 0 {
				b.add(opSpec{K: "finalize"})
			} else {
				b.add(opSpec{K: "header"})
			}
		}
	}
	b.add(opSpec{K: "finalize"})
	return b.sc
}

// short sequence: header at every length, proof of every index, every rewind point
func genShort(rg *rand.Rand, n int) scenario {
	b := newBuilder(fmt.Sprintf("short-%d", n))
	b.add(opSpec{K: "header"})
	for i := 0; i < n; i++ {
		b.add(opSpec{K: "add", H: randHash(rg)})
		if n <= 40 || i+1 == n || rg.Intn(8) == 0 {
			b.add(opSpec{K: "header"})
		}
		if rg.Intn(16) == 0 {
			b.add(opSpec{K: "finalize"})
		}
	}
	b.add(opSpec{K: "finalize"})
	b.add(opSpec{K: "header"})
	for k := int64(0); k < int64(n); k++ {
		b.genuine(k)
		if n <= 64 || rg.Intn(4) == 0 {
			b.mutated(rg, k, rg.Intn(9))
		}
	}
	// every rewind point, downwards
	for l := int64(n); l >= 0; l-- {
		b.add(opSpec{K: "setlen", L: l})
		b.add(opSpec{K: "header"})
	}
	return b.sc
}

// rewind from n to l directly, then continue with other hashes and rewind again
func genJump(rg *rand.Rand, n int, ls []int64) scenario {
	b := newBuilder(fmt.Sprintf("jump-%d", n))
	for _, o := range adds(rg, n) {
		b.add(o)
	}
	b.add(opSpec{K: "header"})
	for _, l := range ls {
		if l > b.n() {
			b.add(opSpec{K: "setlen", L: l}) // must fail
			continue
		}
		b.add(opSpec{K: "setlen", L: l})
		b.add(opSpec{K: "header"})
		if l > 0 {
			b.genuine(l - 1)
			b.genuine(int64(rg.Intn(int(l))))
		}
		if rg.Intn(3) == 0 {
			b.add(opSpec{K: "reopen"})
		}
		// grow again with new hashes, past the next boundary
		grow := 1 + rg.Intn(20)
		if rg.Intn(3) == 0 {
			grow = n - int(l)
		}
		for i := 0; i < grow; i++ {
			b.add(opSpec{K: "add", H: randHash(rg)})
		}
		b.add(opSpec{K: "header"})
	}
	return b.sc
}

func boundaryKeys(n int64, rg *rand.Rand, extra int) []int64 {
	seen := map[int64]bool{}
	var ks []int64
	put := func(k int64) {
		if k >= 0 && k < n && !seen[k] {
			seen[k] = true
			ks = append(ks, k)
		}
	}
	for _, b := range []int64{0, 1, 15, 16, 17, 255, 256, 257, 4095, 4096, 4097} {
		put(b)
		put(n - 1 - b)
	}
	for i := 0; i < extra; i++ {
		put(int64(rg.Intn(int(n))))
	}
	return ks
}

// lengths around the powers of 16
func genCross(rg *rand.Rand, n int) scenario {
	b := newBuilder(fmt.Sprintf("cross-%d", n))
	for i := 0; i < n; i++ {
		b.add(opSpec{K: "add", H: randHash(rg)})
		if i+3 >= n || (i+1)%16 == 0 && rg.Intn(20) == 0 {
			b.add(opSpec{K: "header"})
		}
	}
	b.add(opSpec{K: "finalize"})
	for _, k := range boundaryKeys(int64(n), rg, 6) {
		b.genuine(k)
		b.mutated(rg, k, rg.Intn(9))
	}
	// partial proofs into one builder, in key order (as a syncing node does)
	if n <= 600 {
		b.add(opSpec{K: "bnew"})
		for k := int64(0); k < int64(n); k++ {
			p := b.s.proof(k, -1)
			if p == nil {
				break
			}
			b.add(opSpec{K: "badd", Key: k, H: hex.EncodeToString(b.s.r.xs[k]), Proof: hexProof(p), Expect: "accept"})
		}
	}
	var ls []int64
	for _, l := range []int64{int64(n) - 1, 4097, 4096, 4095, 257, 256, 255, 17, 16, 15, 1, 0} {
		if l < int64(n) && l >= 0 {
			ls = append(ls, l)
		}
	}
	// a few random rewind points between the boundaries, in decreasing order
	for i := 0; i < 4 && n > 2; i++ {
		ls = append(ls, int64(rg.Intn(n)))
	}
	for i := 0; i < len(ls); i++ {
		for j := i + 1; j < len(ls); j++ {
			if ls[j] > ls[i] {
				ls[i], ls[j] = ls[j], ls[i]
			}
		}
	}
	for _, l := range ls {
		b.add(opSpec{K: "setlen", L: l})
		b.add(opSpec{K: "header"})
		if l > 0 && rg.Intn(2) == 0 {
			b.genuine(l - 1)
		}
	}
	return b.sc
}

func genRandom(rg *rand.Rand, maxLen int) scenario {
	b := newBuilder("random")
	steps := 10 + rg.Intn(4*maxLen)
	for s := 0; s < steps; s++ {
		n := b.n()
		switch x := rg.Intn(40); {
		case x < 22 && int(n) < maxLen:
			b.add(opSpec{K: "add", H: randHash(rg)})
		case x < 24:
			b.add(opSpec{K: "header"})
		case x < 26:
			b.add(opSpec{K: "finalize"})
		case x < 29:
			l := int64(rg.Intn(int(n) + 2))
			if rg.Intn(6) == 0 {
				l = n + 1 + int64(rg.Intn(3))
			}
			b.add(opSpec{K: "setlen", L: l})
			b.add(opSpec{K: "header"})
		case x < 30:
			b.add(opSpec{K: "reopen"})
		case x < 33 && n > 0:
			b.genuine(int64(rg.Intn(int(n))))
		case x < 35 && n > 0:
			b.add(opSpec{K: "prove", Key: int64(rg.Intn(int(n) + 2)), From: rg.Intn(5) - 1})
		case x < 39 && n > 0:
			b.mutated(rg, int64(rg.Intn(int(n))), rg.Intn(9))
		case x == 39:
			h := make([]byte, []int{0, 1, 31, 33, 64}[rg.Intn(5)])
			rg.Read(h)
			b.add(opSpec{K: "addraw", H: hex.EncodeToString(h)})
		}
	}
	b.add(opSpec{K: "header"})
	return b.sc
}

func emit(c *hxlib.Ctx, kind string, sc scenario) {
	r := runScenario(sc, !c.OracleOnly)
	cs := hxlib.Case{Kind: kind, Input: sc, Nontrivial: r.nontriv || r.proofs > 0 && r.maxLen > 16, OracleErr: r.oracle,
		Key: fmt.Sprintf("%s|%d|%d", sc.Name, len(sc.Ops), c.Rand.Int63())}
	if !c.OracleOnly {
		// coqc overflows its stack on very large single terms: such scripts stay oracle-only
		if t := r.coqCase(); len(t) <= maxCoqTerm && len(r.ops) <= maxCoqOps && len(r.tbl) <= maxCoqOps {
			cs.Coq = "(" + t + ")%uint63"
		} else {
			c.Note("%s (%d ops, %d KB as a Coq term): direct oracle only", sc.Name, len(r.ops), len(t)/1024)
		}
	}
	c.Emit(cs)
}

// the failure repaired by /repo commit 33272cd (also corpus/C28/overlong-proof-40.json):
// 40 hashes, the genuine proof of key 17 with one 32-byte element put in front
func corpusOverlong() scenario {
	b := newBuilder("corpus-overlong-proof-40")
	for i := 0; i < 40; i++ {
		b.add(opSpec{K: "add", H: hex.EncodeToString(sum([]byte{byte(i)}))})
	}
	b.add(opSpec{K: "finalize"})
	b.genuine(17)
	p := b.s.proof(17, 0)
	for _, front := range []bool{true, false} {
		q := append([][]byte{}, p...)
		if front {
			q = append([][]byte{make([]byte, 32)}, q...)
		} else {
			q = append(q, make([]byte, 32))
		}
		b.add(opSpec{K: "verify", Key: 17, H: hex.EncodeToString(b.s.r.xs[17]), Proof: hexProof(q),
			Expect: "reject-overlong", Note: "element inserted"})
	}
	return b.sc
}

func gen(c *hxlib.Ctx) {
	rg := c.Rand
	emit(c, "corpus", corpusOverlong())
	shorts := []int{0, 1, 2, 3, 15, 16, 17, 18, 31, 32, 33, 47, 48, 49, 255, 256, 257, 258, 271, 272, 273}
	for i := 0; i < c.N(6); i++ {
		shorts = append(shorts, 4+rg.Intn(300))
	}
	for _, n := range shorts {
		emit(c, "short", genShort(rg, n))
	}
	for _, n := range []int{15, 16, 17, 255, 256, 257, 4095, 4096, 4097} {
		emit(c, "cross", genCross(rg, n))
	}
	if c.Tier == "thorough" {
		for _, n := range []int{65535, 65536, 65537} {
			emit(c, "cross", genCross(rg, n))
		}
	}
	for i := 0; i < c.N(8); i++ {
		n := []int{40, 300, 700, 4200}[i%4] + rg.Intn(60)
		var ls []int64
		for j := 0; j < 6; j++ {
			ls = append(ls, int64(rg.Intn(n+1)))
		}
		ls = append(ls, int64(n+5), 16, 256, 0, 3)
		emit(c, "jump", genJump(rg, n, ls))
	}
	for _, n := range []int{17, 33, 272, 300} {
		emit(c, "verifier", genVerifier(rg, n))
	}
	for i := 0; i < c.N(4); i++ {
		emit(c, "verifier", genVerifier(rg, 18+rg.Intn(600)))
	}
	emit(c, "alias", genAlias(rg, 300))
	emit(c, "alias", genAlias(rg, 4400))
	if c.Tier == "thorough" {
		emit(c, "alias", genAlias(rg, 70000))
	}
	for i := 0; i < c.N(30); i++ {
		emit(c, "random", genRandom(rg, 20+rg.Intn(300)))
	}
	if !c.OracleOnly {
		// canaries: genuine runs with one impossible observation appended
		r := runScenario(scenario{Ops: append(adds(rg, 17), opSpec{K: "header"})}, true)
		r.ops = append(r.ops, "SHeader (HO 0 17)")
		c.Emit(hxlib.Case{Kind: "canary", Coq: "(" + r.coqCase() + ")%uint63", Canary: true})
		r2 := runScenario(scenario{Ops: append(adds(rg, 5), opSpec{K: "finalize"})}, true)
		r2.ops = append(r2.ops, "SSetLen 3 7")
		c.Emit(hxlib.Case{Kind: "canary", Coq: "(" + r2.coqCase() + ")%uint63", Canary: true})
	}
}

func replay(input json.RawMessage) string {
	var sc scenario
	if err := json.Unmarshal(input, &sc); err != nil {
		return "bad replay input: " + err.Error()
	}
	return runScenario(sc, false).oracle
}

func main() {
	log.GlobalLogger().SetOutput(io.Discard) // node.go logs every panic it raises
	hxlib.Main(hxlib.Spec{
		ID: "C28",
		Rule: "a case is an operation script on one hexary.Accumulator over a map database (Add, GetMerkleHeader, Finalize, SetLen, reopening on the same buckets) with MerkleTree.Prove and MerkleTree.Add of genuine, partial and altered proofs. " +
			"short: lengths 0..3, around 16/32/48/256/272 and random ones up to 300, header after (nearly) every Add, a full proof for every index and an altered proof for every index (every fourth on average beyond length 64), then every rewind point downwards; cross: lengths 15..17, 255..257, 4095..4097 (thorough: 65535..65537) with boundary keys, a builder fed partial proofs in key order, rewinds to the boundaries; jump: direct rewinds followed by growing again with other hashes; verifier: one MerkleTree reused across many Adds (genuine full proofs in random or ascending key order), altered full-length proofs offered before and after the genuine ones for the same key, its neighbours and keys sharing upper nodes; alias: Finalize/GetMerkleHeader at every 16^k and around, sequence grown to 300 and 4400 (thorough 70000) while every header object handed out is re-compared with a deep copy after every later operation and the kept Finalize headers must still prove their leaves at the end; random scripts. " +
			"Non-trivial: the script rewinds to a length strictly between 0 and the current length, or proves keys of a sequence longer than 16.",
		Shard:    3,
		Preamble: "From Coq Require Import Uint63.\nFrom GoloopRun Require Import Run_C28.",
		Gen:      gen,
		Replay:   replay,
	})
}
