// c17: the ompt Merkle Patricia trie as a canonical map.
// Random histories of set/delete/get/snapshot/reset/flush/reload/clone/clear-cache/
// iterate/filter on a trie.Mutable; every returned value, root hash, iterator and
// Filter output is (a) written into a Coq case for Model_Trie, (b) compared with a
// Go map and with a trie rebuilt from that map in a random order (direct oracle).
package main

import (
	"bytes"
	"encoding/hex"
	"encoding/json"
	"fmt"
	"math/rand"
	"os"
	"path/filepath"
	"sort"
	"strings"

	"github.com/icon-project/goloop/common/db"
	"github.com/icon-project/goloop/common/trie"
	"github.com/icon-project/goloop/common/trie/trie_manager"
	"verif/harness/hxlib"
	tl "verif/harness/trielib"
)

type opIn struct {
	T string `json:"t"`           // set del get snap snapraw proof reset flush reload clone clear clearsnap iter filter
	K string `json:"k,omitempty"` // key / prefix (hex)
	V string `json:"v,omitempty"` // value (hex)
	I int    `json:"i,omitempty"` // snapshot index for reset
}

type histIn struct {
	Seed int64  `json:"rebuild_seed"`
	Ops  []opIn `json:"ops"`
}

func hx(b []byte) string { return hex.EncodeToString(b) }
func unhx(s string) []byte {
	b, _ := hex.DecodeString(s)
	if b == nil {
		b = []byte{}
	}
	return b
}

// ---------- generators ----------

func genKeys(r *rand.Rand) [][]byte {
	full := []byte{0x00, 0x01, 0x0f, 0x10, 0x11, 0x12, 0x1f, 0xa0, 0xab, 0xff}
	na := 2 + r.Intn(3)
	alpha := make([]byte, na)
	for i := range alpha {
		alpha[i] = full[r.Intn(len(full))]
	}
	base32 := make([]byte, 32)
	r.Read(base32)
	n := 3 + r.Intn(12)
	seen := map[string]bool{}
	var keys [][]byte
	for len(keys) < n {
		var k []byte
		switch r.Intn(9) {
		case 0, 1: // 32-byte keys sharing long prefixes
			k = append([]byte(nil), base32...)
			pos := []int{0, 1, 31, 32, 61, 62, 63}[r.Intn(7)]
			nib := byte(r.Intn(16))
			if pos%2 == 0 {
				k[pos/2] = k[pos/2]&0x0f | nib<<4
			} else {
				k[pos/2] = k[pos/2]&0xf0 | nib
			}
		default:
			l := r.Intn(5)
			k = make([]byte, l)
			for i := range k {
				k[i] = alpha[r.Intn(na)]
			}
		}
		if !seen[string(k)] {
			seen[string(k)] = true
			keys = append(keys, k)
		}
		if len(seen) > 40 {
			break
		}
	}
	return keys
}

func genVal(r *rand.Rand) []byte {
	var l int
	switch x := r.Intn(20); {
	case x < 2:
		l = 1
	case x < 10:
		l = 1 + r.Intn(40)
	case x < 17:
		l = 24 + r.Intn(12) // around the 32-byte inlining threshold
	case x < 19:
		l = 1 + r.Intn(6) // tiny: inlined leaves, small branches
	default:
		l = 50 + r.Intn(20) // RLP long-string form
	}
	v := make([]byte, l)
	r.Read(v)
	if l == 1 && r.Intn(2) == 0 {
		v[0] &= 0x7f // single byte below 0x80 is its own RLP
	}
	return v
}

func genHistory(r *rand.Rand) histIn {
	keys := genKeys(r)
	n := 8 + r.Intn(40)
	var ops []opIn
	nsnap := 0
	pick := func() []byte { return keys[r.Intn(len(keys))] }
	for i := 0; i < n; i++ {
		switch x := r.Intn(100); {
		case x < 38:
			ops = append(ops, opIn{T: "set", K: hx(pick()), V: hx(genVal(r))})
		case x < 55:
			ops = append(ops, opIn{T: "del", K: hx(pick())})
		case x < 62:
			ops = append(ops, opIn{T: "get", K: hx(pick())})
		case x < 65:
			ops = append(ops, opIn{T: "snap"})
			nsnap++
		case x < 68:
			ops = append(ops, opIn{T: "snapraw"})
			nsnap++
		case x < 71:
			if nsnap > 0 {
				ops = append(ops, opIn{T: "reset", I: r.Intn(nsnap)})
			}
		case x < 76:
			ops = append(ops, opIn{T: "flush"})
		case x < 82:
			ops = append(ops, opIn{T: "reload"})
		case x < 85:
			ops = append(ops, opIn{T: "clone"})
		case x < 88:
			ops = append(ops, opIn{T: "clear"})
		case x < 91:
			ops = append(ops, opIn{T: "clearsnap"})
		case x < 93:
			ops = append(ops, opIn{T: "iter"})
		case x < 95:
			ops = append(ops, opIn{T: "proof", K: hx(pick())})
		case x < 97:
			// a transient database read failure while nodes are unloaded: reload, then one
			// operation during which the (I+1)-th node read fails once
			ops = append(ops, opIn{T: "reload"})
			switch r.Intn(4) {
			case 0:
				ops = append(ops, opIn{T: "fset", K: hx(pick()), V: hx(genVal(r)), I: r.Intn(3)})
			case 1:
				ops = append(ops, opIn{T: "fget", K: hx(pick()), I: r.Intn(3)})
			default:
				ops = append(ops, opIn{T: "fdel", K: hx(pick()), I: r.Intn(3)})
			}
		default:
			k := pick()
			p := k[:r.Intn(len(k)+1)]
			if r.Intn(6) == 0 {
				p = append(append([]byte(nil), p...), byte(r.Intn(256)))
			}
			ops = append(ops, opIn{T: "filter", K: hx(p)})
		}
	}
	ops = append(ops, opIn{T: "iter"})
	return histIn{Seed: r.Int63(), Ops: ops}
}

// genSplitHistory: rounds of "keys sharing a long prefix (an extension of 3-7 nibbles) ->
// snapshot -> keys that split that extension before its last nibble -> delete the old keys
// (the branch collapses and the surviving child is merged into the shortened extension)".
// The snapshots taken on the way are re-read at the end of the history.
func genSplitHistory(r *rand.Rand) histIn {
	var ops []opIn
	nsnap := 0
	snap := func() {
		switch r.Intn(3) {
		case 0:
			ops = append(ops, opIn{T: "snap"})
		case 1:
			ops = append(ops, opIn{T: "snapraw"})
		default:
			ops = append(ops, opIn{T: "snap"}, opIn{T: "flush"})
		}
		nsnap++
	}
	rounds := 1 + r.Intn(3)
	for round := 0; round < rounds; round++ {
		pl := 2 + r.Intn(2) // prefix bytes
		P := make([]byte, pl)
		r.Read(P)
		// old keys: P + one byte; sharing the high nibble of that byte or not (odd/even extension length)
		hi := byte(r.Intn(16)) << 4
		var olds [][]byte
		for i := 0; i < 2+r.Intn(2); i++ {
			b := byte(r.Intn(256))
			if r.Intn(2) == 0 {
				b = hi | byte(i*5+1)&0x0f
			}
			k := append(append([]byte(nil), P...), b)
			if r.Intn(3) == 0 {
				k = append(k, byte(r.Intn(256)))
			}
			olds = append(olds, k)
		}
		for _, k := range olds {
			ops = append(ops, opIn{T: "set", K: hx(k), V: hx(genVal(r))})
		}
		snap()
		// new keys: same first j nibbles (1 <= j <= 2*pl-2), then different; not longer than the old keys
		j := 1 + r.Intn(2*pl-2)
		var news [][]byte
		nn := 1 + r.Intn(2)
		base := append([]byte(nil), P...)
		if j%2 == 0 {
			base[j/2] ^= byte(1+r.Intn(15)) << 4
		} else {
			base[j/2] ^= byte(1 + r.Intn(15))
		}
		for i := 0; i < nn; i++ {
			k := append([]byte(nil), base[:j/2+1]...)
			for len(k) < pl && r.Intn(2) == 0 {
				k = append(k, base[len(k)])
			}
			if i > 0 || r.Intn(2) == 0 {
				if len(k) < pl+1 {
					k = append(k, byte(i*16+r.Intn(16)))
				} else {
					k[len(k)-1] ^= byte(i + 1)
				}
			}
			news = append(news, k)
		}
		for _, k := range news {
			ops = append(ops, opIn{T: "set", K: hx(k), V: hx(genVal(r))})
		}
		if r.Intn(2) == 0 {
			snap()
		}
		r.Shuffle(len(olds), func(a, b int) { olds[a], olds[b] = olds[b], olds[a] })
		for _, k := range olds {
			ops = append(ops, opIn{T: "del", K: hx(k)})
		}
		switch r.Intn(4) {
		case 0:
			ops = append(ops, opIn{T: "iter"})
		case 1:
			snap()
		case 2:
			if nsnap > 0 {
				ops = append(ops, opIn{T: "reset", I: r.Intn(nsnap)})
			}
		}
		if r.Intn(2) == 0 {
			for _, k := range news {
				if r.Intn(2) == 0 {
					ops = append(ops, opIn{T: "del", K: hx(k)})
				}
			}
		}
	}
	ops = append(ops, opIn{T: "iter"})
	return histIn{Seed: r.Int63(), Ops: ops}
}

// ---------- running a history on the implementation ----------

type snapRec struct {
	s    trie.Snapshot
	ref  map[string][]byte
	hash []byte
}

func copyRef(m map[string][]byte) map[string][]byte {
	c := make(map[string][]byte, len(m))
	for k, v := range m {
		c[k] = v
	}
	return c
}

func optEq(a, b []byte) bool {
	if (a == nil) != (b == nil) {
		return false
	}
	return bytes.Equal(a, b)
}

// runHistory executes the operations; returns the Coq case, whether a hashed
// child node and an inlined child node occurred, and the first oracle failure.
func runHistory(h histIn, wantCoq bool, corrupt bool) (coq string, ntbl int, oracle string) {
	fail := func(format string, a ...interface{}) {
		if oracle == "" {
			oracle = fmt.Sprintf(format, a...)
		}
	}
	rr := rand.New(rand.NewSource(h.Seed))
	d := tl.NewRecDB()
	var mut trie.Mutable = trie_manager.NewMutable(d, nil)
	ref := map[string][]byte{}
	var snaps []snapRec
	table := tl.NewTable()
	var cops []string
	emit := func(s string) {
		if wantCoq {
			cops = append(cops, s)
		}
	}

	// observe the current content through a snapshot: hash, emptiness; compare with
	// the reference map and with a trie rebuilt from it in random order
	observe := func(s trie.Snapshot, what string) {
		hv := s.Hash()
		shown := hv
		if corrupt && len(hv) > 0 {
			shown = append([]byte(nil), hv...)
			shown[len(shown)-1] ^= 1
		}
		emit(fmt.Sprintf("ORoot %s %s", tl.Bx(shown), hxlib.CoqBool(s.Empty())))
		if s.Empty() != (len(ref) == 0) {
			fail("%s: Empty()=%v with %d stored pairs", what, s.Empty(), len(ref))
		}
		if (hv == nil) != (len(ref) == 0) {
			fail("%s: Hash()=%x with %d stored pairs", what, hv, len(ref))
		}
		rs, rd := tl.Rebuild(ref, rr)
		table.AddDB(rd)
		if !bytes.Equal(rs.Hash(), hv) {
			fail("%s: root %x differs from the root %x of a trie rebuilt from the same %d pairs in another order", what, hv, rs.Hash(), len(ref))
		}
	}
	iterate := func(s trie.Snapshot, prefix []byte, isFilter bool, what string) {
		var it trie.Iterator
		if isFilter {
			it = s.Filter(prefix)
		} else {
			it = s.Iterator()
		}
		got, err := tl.Iterate(it)
		if err != nil {
			fail("%s: iterator error %v", what, err)
		}
		if isFilter {
			emit(fmt.Sprintf("OFilter %s %s", tl.Bx(prefix), tl.CoqKVs(got)))
		} else {
			emit(fmt.Sprintf("OIter %s", tl.CoqKVs(got)))
		}
		want := tl.SortedRef(ref, prefix)
		if !tl.KVsEqual(got, want) {
			fail("%s(prefix=%x): returned %d pairs %s, the stored pairs in ascending key order are %d: %s", what, prefix, len(got), kvText(got), len(want), kvText(want))
		}
	}

	for oi, op := range h.Ops {
		what := fmt.Sprintf("op#%d %s", oi, op.T)
		switch op.T {
		case "set":
			k, v := unhx(op.K), unhx(op.V)
			old, err := mut.Set(k, v)
			if err != nil {
				fail("%s: error %v", what, err)
			}
			emit(fmt.Sprintf("OSet %s %s %s", tl.Bx(k), tl.Bx(v), tl.CoqOptBytes(old)))
			if !optEq(old, ref[string(k)]) {
				fail("%s(%x): returned old value %x, last written %x", what, k, old, ref[string(k)])
			}
			ref[string(k)] = v
			if got, _ := mut.Get(k); !bytes.Equal(got, v) {
				fail("%s(%x): Get right after Set returns %x, written %x", what, k, got, v)
			}
		case "del":
			k := unhx(op.K)
			old, err := mut.Delete(k)
			if err != nil {
				fail("%s: error %v", what, err)
			}
			emit(fmt.Sprintf("ODel %s %s", tl.Bx(k), tl.CoqOptBytes(old)))
			if !optEq(old, ref[string(k)]) {
				fail("%s(%x): returned old value %x, last written %x", what, k, old, ref[string(k)])
			}
			delete(ref, string(k))
			if got, _ := mut.Get(k); got != nil {
				fail("%s(%x): Get right after Delete returns %x", what, k, got)
			}
		case "get":
			k := unhx(op.K)
			got, err := mut.Get(k)
			if err != nil {
				fail("%s: error %v", what, err)
			}
			emit(fmt.Sprintf("OGet %s %s", tl.Bx(k), tl.CoqOptBytes(got)))
			if !optEq(got, ref[string(k)]) {
				fail("%s(%x): returned %x, last written %x", what, k, got, ref[string(k)])
			}
		case "snap":
			s := mut.GetSnapshot()
			emit("OSnap")
			observe(s, what)
			snaps = append(snaps, snapRec{s, copyRef(ref), s.Hash()})
		case "fset", "fdel", "fget":
			// one operation under a transient read failure: it either reports an error and
			// leaves the content unchanged, or it takes effect as usual
			k := unhx(op.K)
			d.Arm(op.I)
			var old []byte
			var err error
			switch op.T {
			case "fset":
				old, err = mut.Set(k, unhx(op.V))
			case "fdel":
				old, err = mut.Delete(k)
			default:
				old, err = mut.Get(k)
			}
			fired := d.Disarm()
			if err != nil {
				if !fired {
					fail("%s(%x): error %v without an injected fault", what, k, err)
				}
				emit("OIdent")
				if got, e2 := mut.Get(k); e2 != nil || !optEq(got, ref[string(k)]) {
					fail("%s(%x): after the operation failed with %v, Get returns %x (err=%v), last written %x", what, k, err, got, e2, ref[string(k)])
				}
			} else {
				cur := ref[string(k)]
				if !optEq(old, cur) {
					fail("%s(%x) with a transient read failure (fired=%v): returned %x and no error, last written %x", what, k, fired, old, cur)
				}
				switch op.T {
				case "fset":
					emit(fmt.Sprintf("OSet %s %s %s", tl.Bx(k), tl.Bx(unhx(op.V)), tl.CoqOptBytes(old)))
					ref[string(k)] = unhx(op.V)
				case "fdel":
					emit(fmt.Sprintf("ODel %s %s", tl.Bx(k), tl.CoqOptBytes(old)))
					delete(ref, string(k))
				default:
					emit(fmt.Sprintf("OGet %s %s", tl.Bx(k), tl.CoqOptBytes(old)))
				}
				if got, e2 := mut.Get(k); e2 != nil || !optEq(got, ref[string(k)]) {
					fail("%s(%x) with a transient read failure (fired=%v) returned no error, but Get afterwards returns %x (err=%v), expected %x", what, k, fired, got, e2, ref[string(k)])
				}
			}
			observe(mut.GetSnapshot(), what)
		case "snapraw":
			// a snapshot that is not hashed or read until the end of the history: later
			// mutations of the trie must not reach it (GetSnapshot freezes the nodes)
			s := mut.GetSnapshot()
			emit("OSnap")
			snaps = append(snaps, snapRec{s, copyRef(ref), nil})
		case "reset":
			if op.I < len(snaps) {
				if err := mut.Reset(snaps[op.I].s); err != nil {
					fail("%s: error %v", what, err)
				}
				ref = copyRef(snaps[op.I].ref)
				emit(fmt.Sprintf("OReset %d%%nat", op.I))
				observe(mut.GetSnapshot(), what)
			}
		case "flush":
			s := mut.GetSnapshot()
			hv := s.Hash()
			if err := s.Flush(); err != nil {
				fail("%s: error %v", what, err)
			}
			emit("OIdent")
			if !bytes.Equal(hv, s.Hash()) {
				fail("%s: hash changed by Flush", what)
			}
			observe(mut.GetSnapshot(), what)
		case "reload":
			s := mut.GetSnapshot()
			hv := s.Hash()
			if err := s.Flush(); err != nil {
				fail("%s: error %v", what, err)
			}
			mut = trie_manager.NewMutable(d, hv)
			emit("OIdent")
			im := trie_manager.NewImmutable(d, hv)
			if !bytes.Equal(im.Hash(), hv) && len(ref) > 0 {
				fail("%s: immutable made from hash %x reports hash %x", what, hv, im.Hash())
			}
			observe(mut.GetSnapshot(), what)
		case "clone":
			s := mut.GetSnapshot()
			mut = trie_manager.NewMutableFromImmutable(s)
			emit("OIdent")
			observe(mut.GetSnapshot(), what)
		case "clear":
			mut.ClearCache()
			emit("OIdent")
			observe(mut.GetSnapshot(), what)
		case "clearsnap":
			s := mut.GetSnapshot()
			s.Hash()
			if len(snaps) > 0 || true {
				// clearing an unflushed snapshot must keep it readable; a flushed one reloads from the database
				if rr.Intn(2) == 0 {
					s.Flush()
				}
			}
			s.ClearCache()
			emit("OIdent")
			observe(s, what)
			iterate(s, nil, false, what+"/iter")
		case "proof":
			// GetProof as the first call on a fresh snapshot (it has to hash the trie itself),
			// then Hash(): still the canonical 32-byte root
			k := unhx(op.K)
			s := mut.GetSnapshot()
			p := s.GetProof(k)
			emit("OIdent")
			if _, ok := ref[string(k)]; ok && len(p) == 0 {
				fail("%s(%x): GetProof before Hash() returns no proof for a stored key", what, k)
			}
			if hv := s.Hash(); len(ref) > 0 && len(hv) != 32 {
				fail("%s: Hash() after GetProof returns %d bytes %x, not a 32-byte hash", what, len(hv), hv)
			}
			observe(s, what)
		case "iter":
			iterate(mut.GetSnapshot(), nil, false, what)
		case "filter":
			iterate(mut.GetSnapshot(), unhx(op.K), true, what)
		}
		if oracle != "" && !wantCoq {
			return "", 0, oracle
		}
	}
	// persistence: every snapshot taken on the way still shows its own content
	for i, sr := range snaps {
		if sr.hash == nil && len(sr.ref) > 0 {
			got, err := tl.Iterate(sr.s.Iterator())
			if err != nil || !tl.KVsEqual(got, tl.SortedRef(sr.ref, nil)) {
				fail("snapshot#%d (not hashed when taken): content changed by later operations on the mutable trie (err=%v)", i, err)
			}
			if err := mut.Reset(sr.s); err != nil {
				fail("final reset to snapshot#%d: %v", i, err)
			}
			ref = copyRef(sr.ref)
			emit(fmt.Sprintf("OReset %d%%nat", i))
			observe(mut.GetSnapshot(), fmt.Sprintf("snapshot#%d at the end", i))
			iterate(mut.GetSnapshot(), nil, false, fmt.Sprintf("snapshot#%d at the end", i))
			continue
		}
		if !bytes.Equal(sr.s.Hash(), sr.hash) {
			fail("snapshot#%d: hash changed from %x to %x by later operations", i, sr.hash, sr.s.Hash())
		}
		got, err := tl.Iterate(sr.s.Iterator())
		if err != nil || !tl.KVsEqual(got, tl.SortedRef(sr.ref, nil)) {
			fail("snapshot#%d: content changed by later operations on the mutable trie (err=%v)", i, err)
		}
	}
	// final state once more, reloaded from the database through the object-independent path
	{
		s := mut.GetSnapshot()
		hv := s.Hash()
		s.Flush()
		im := trie_manager.NewImmutable(d, hv)
		got, err := tl.Iterate(im.Iterator())
		if err != nil || !tl.KVsEqual(got, tl.SortedRef(ref, nil)) {
			fail("final reload from hash %x: iteration differs from the stored pairs (err=%v)", hv, err)
		}
		for k, v := range ref {
			if g, _ := im.Get([]byte(k)); !bytes.Equal(g, v) {
				fail("final reload: Get(%x)=%x, stored %x", k, g, v)
			}
		}
	}
	if wantCoq {
		coq = fmt.Sprintf("(CHist %s\n [%s])", table.Coq(), strings.Join(cops, ";\n  "))
	}
	return coq, table.Len(), oracle
}

func kvText(l []tl.KV) string {
	var sb strings.Builder
	for i, kv := range l {
		if i > 6 {
			sb.WriteString("…")
			break
		}
		fmt.Fprintf(&sb, "%x=%x ", kv.K, kv.V)
	}
	return sb.String()
}

func safeRun(h histIn, wantCoq bool) (coq string, ntbl int, oracle string) {
	if p := hxlib.Catch(func() { coq, ntbl, oracle = runHistory(h, wantCoq, false) }); p != "" {
		return "", 0, "panic in the trie implementation: " + p
	}
	return
}

func gen(c *hxlib.Ctx) {
	// corpus first: minimised past failures
	files, _ := filepath.Glob("/verif/corpus/C17/*.json")
	sort.Strings(files)
	for _, f := range files {
		b, err := os.ReadFile(f)
		if err != nil {
			continue
		}
		var doc struct {
			Input histIn `json:"input"`
		}
		if json.Unmarshal(b, &doc) == nil && len(doc.Input.Ops) > 0 {
			coq, ntbl, msg := safeRun(doc.Input, !c.OracleOnly)
			c.Emit(hxlib.Case{Kind: "corpus", Coq: coq, Input: doc.Input, Nontrivial: ntbl >= 1, OracleErr: msg, Key: filepath.Base(f)})
		}
	}
	_ = db.MerkleTrie
	n := c.N(180)
	for i := 0; i < n; i++ {
		r := c.Sub("hist", i)
		h := genHistory(r)
		coq, ntbl, msg := safeRun(h, !c.OracleOnly)
		kind := "history"
		if len(h.Ops) > 30 {
			kind = "history-long"
		}
		c.Emit(hxlib.Case{Kind: kind, Coq: coq, Input: h, Nontrivial: ntbl >= 2, OracleErr: msg,
			Key: fmt.Sprintf("%d/%d", h.Seed, len(h.Ops))})
	}
	// extension split / collapse rounds with live snapshots
	for i := 0; i < c.N(120); i++ {
		h := genSplitHistory(c.Sub("split", i))
		coq, ntbl, msg := safeRun(h, !c.OracleOnly)
		c.Emit(hxlib.Case{Kind: "split-collapse", Coq: coq, Input: h, Nontrivial: ntbl >= 2, OracleErr: msg,
			Key: fmt.Sprintf("s%d/%d", h.Seed, len(h.Ops))})
	}
	// fixed boundary histories: node sizes around the inlining threshold
	for i, h := range boundaryHistories() {
		coq, ntbl, msg := safeRun(h, !c.OracleOnly)
		c.Emit(hxlib.Case{Kind: "boundary", Coq: coq, Input: h, Nontrivial: ntbl >= 1, OracleErr: msg, Key: fmt.Sprintf("b%d", i)})
	}
	// canaries: wrong observations the model must flag
	c.Emit(hxlib.Case{Kind: "canary", Canary: true,
		Coq: "(CHist [] [OSet [1] [2] None; OGet [1] (Some [3])])"})
	c.Emit(hxlib.Case{Kind: "canary", Canary: true,
		Coq: "(CHist [] [OSet [1;2] [7] None; OSet [1;3] [8] None; OIter [([1;3],[8]); ([1;2],[7])]])"})
	if !c.OracleOnly {
		// a true history with its true hash table, the observed root altered in one bit
		ch := histIn{Seed: 7, Ops: []opIn{{T: "set", K: "1234", V: hx(bytes.Repeat([]byte{0xaa}, 40))},
			{T: "set", K: "1256", V: hx(bytes.Repeat([]byte{0xbb}, 40))}, {T: "snap"}}}
		coq, _, _ := runHistory(ch, true, true)
		c.Emit(hxlib.Case{Kind: "canary", Canary: true, Coq: coq})
	}
}

// leaves whose RLP is exactly 31/32/33/34 bytes below a branch, and a branch of
// exactly such sizes
func boundaryHistories() []histIn {
	var hs []histIn
	for vl := 20; vl <= 36; vl++ {
		for _, kl := range []int{1, 2, 3} {
			var ops []opIn
			for j := 0; j < 3; j++ {
				k := make([]byte, kl)
				k[kl-1] = byte(j * 0x11)
				v := bytes.Repeat([]byte{byte(0x80 + j)}, vl)
				ops = append(ops, opIn{T: "set", K: hx(k), V: hx(v)})
			}
			ops = append(ops, opIn{T: "snap"}, opIn{T: "reload"}, opIn{T: "iter"},
				opIn{T: "del", K: hx(make([]byte, kl))}, opIn{T: "snap"}, opIn{T: "reload"}, opIn{T: "iter"})
			hs = append(hs, histIn{Seed: int64(vl*10 + kl), Ops: ops})
		}
	}
	return hs
}

func replay(raw json.RawMessage) string {
	var h histIn
	if err := json.Unmarshal(raw, &h); err != nil {
		return "bad replay input: " + err.Error()
	}
	_, _, msg := safeRun(h, false)
	return msg
}

func main() {
	hxlib.Main(hxlib.Spec{
		ID:       "C17",
		Rule:     "a case is one random history (8-48 operations: set/delete/get/snapshot/unhashed snapshot/reset/flush/reload-from-hash/clone/clear-cache/iterate/filter/GetProof-before-Hash) over 3-14 keys of length 0-4 bytes drawn from a 2-4 byte alphabet (shared prefixes) plus 32-byte keys differing in single nibbles, values of 1-70 bytes concentrated around the 32-byte inlining threshold; plus fixed histories placing leaf sizes 20..36 under a branch; non-trivial = the trie written to the database had at least two hashed nodes; distinct = distinct history",
		Shard:    20,
		Preamble: tl.Preamble("C17"),
		Gen:      gen, Replay: replay,
	})
}
