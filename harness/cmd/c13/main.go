// c13: only the sender's key can authorise a transaction
// (transactionV3.Verify / verifySignature, crypto.Signature vs Model_TxVerify).
package main

import (
	"bytes"
	"encoding/base64"
	"encoding/hex"
	"encoding/json"
	"fmt"
	"math/rand"

	"github.com/decred/dcrd/dcrec/secp256k1/v4"
	"github.com/decred/dcrd/dcrec/secp256k1/v4/ecdsa"

	"github.com/icon-project/goloop/common"
	"github.com/icon-project/goloop/common/crypto"
	"github.com/icon-project/goloop/service/transaction"
	"verif/harness/hxlib"
)

type keyT struct {
	SK   *crypto.PrivateKey
	PK   *crypto.PublicKey
	PKU  []byte // uncompressed, 65 bytes
	Addr []byte // 21 bytes, independently computed
}


func newKey(r *rand.Rand) *keyT {
	for {
		b := make([]byte, 32)
		r.Read(b)
		sk, err := crypto.ParsePrivateKey(b)
		if err != nil {
			continue
		}
		// public key through decred directly
		pk := secp256k1.PrivKeyFromBytes(b).PubKey().SerializeUncompressed()
		d := sha3sum(pk[1:])
		k := &keyT{SK: sk, PK: sk.PublicKey(), PKU: pk, Addr: append([]byte{0}, d[12:]...)}
		return k
	}
}

func addrStr(a []byte) string {
	p := "hx"
	if a[0] == 1 {
		p = "cx"
	}
	return p + hex.EncodeToString(a[1:])
}

func baseTx(r *rand.Rand, from []byte) map[string]interface{} {
	to := make([]byte, 21)
	r.Read(to[1:])
	m := map[string]interface{}{
		"version": "0x3", "from": addrStr(from), "to": addrStr(to),
		"stepLimit": fmt.Sprintf("0x%x", 100000+r.Intn(1000000)),
		"timestamp": fmt.Sprintf("0x%x", r.Int63n(1<<50)), "nid": "0x1",
	}
	if r.Intn(2) == 0 {
		m["value"] = fmt.Sprintf("0x%x", r.Int63())
	}
	if r.Intn(2) == 0 {
		m["nonce"] = fmt.Sprintf("0x%x", r.Intn(1000))
	}
	return m
}

func parseJSON(text []byte) (tx transaction.Transaction, err error) {
	if p := hxlib.Catch(func() { tx, err = transaction.NewTransactionFromJSON(text) }); p != "" {
		return nil, fmt.Errorf("panic: %s", p)
	}
	return
}

// idOf: the id the implementation gives to the unsigned transaction
func idOf(m map[string]interface{}) []byte {
	c := map[string]interface{}{}
	for k, v := range m {
		if k != "signature" {
			c[k] = v
		}
	}
	text, _ := json.Marshal(c)
	tx, err := parseJSON(text)
	if err != nil {
		return nil
	}
	return append([]byte{}, tx.ID()...)
}

func sign(k *keyT, hash []byte) []byte {
	s, err := crypto.NewSignature(hash, k.SK)
	if err != nil {
		return nil
	}
	b, _ := s.SerializeRSV()
	return b
}

// decred called directly: the ground truth for `recover`
func directRecover(sigRSV, hash []byte) (internal []byte, pk []byte) {
	if len(sigRSV) != 65 {
		return nil, nil
	}
	internal = append([]byte{sigRSV[64] + 27}, sigRSV[:64]...)
	var p *secp256k1.PublicKey
	var err error
	if pn := hxlib.Catch(func() { p, _, err = ecdsa.RecoverCompact(internal, hash) }); pn != "" || err != nil || p == nil {
		return internal, nil
	}
	return internal, p.SerializeUncompressed()
}

func directVerify(sigRS, hash, pku []byte) bool {
	if len(sigRS) < 64 {
		return false
	}
	pub, err := secp256k1.ParsePubKey(pku)
	if err != nil {
		return false
	}
	var r, s secp256k1.ModNScalar
	if r.SetByteSlice(sigRS[:32]) || s.SetByteSlice(sigRS[32:64]) {
		return false
	}
	return ecdsa.NewSignature(&r, &s).Verify(hash, pub)
}

type verifyIn struct {
	T      string `json:"t"`
	Text   string `json:"text_hex"`
	PKU    string `json:"sender_pubkey_hex"` // key the harness created `from` with ("" = from belongs to no key)
	Expect string `json:"expect"`            // ok | fail | any
}

// the direct oracle on one signed JSON transaction
func oracleVerify(text []byte, pku []byte, expect string) (res int, sigBytes, id, from []byte, msg string) {
	var m map[string]interface{}
	json.Unmarshal(text, &m)
	if s, ok := m["signature"].(string); ok {
		sigBytes, _ = base64.StdEncoding.DecodeString(s)
	}
	tx, err := parseJSON(text)
	if err != nil {
		if expect == "ok" {
			msg = fmt.Sprintf("transaction signed by its sender is refused: %v", err)
		}
		return 0, sigBytes, nil, nil, msg
	}
	id = append([]byte{}, tx.ID()...)
	from = append([]byte{}, tx.From().Bytes()...)
	var v1, v2 error
	if p := hxlib.Catch(func() { v1 = tx.Verify(); v2 = transaction.VerifV3VerifySignature(tx) }); p != "" {
		return 2, sigBytes, id, from, "Verify panics: " + p
	}
	if (v1 == nil) != (v2 == nil) {
		msg = fmt.Sprintf("Verify (%v) and verifySignature (%v) disagree", v1, v2)
	}
	ok := v1 == nil
	res = 2
	if ok {
		res = 1
	}
	// the stored form must reach the same decision
	if msg == "" {
		var bs []byte
		hxlib.Catch(func() { bs = tx.Bytes() })
		if bs != nil {
			if tx2, err := transaction.NewTransaction(bs); err == nil {
				if (tx2.Verify() == nil) != ok {
					msg = "Verify of the stored form differs from Verify of the JSON form"
				}
			}
		}
	}
	if msg != "" {
		return
	}
	if ok {
		// Verify ok => `from` is the address of a key, and (r,s) verifies under that key over the id
		switch {
		case len(pku) == 0:
			msg = fmt.Sprintf("verifies although the sender %x is not the address of the signing key", from)
		case !bytes.Equal(append([]byte{0}, sha3sum(pku[1:])[12:]...), from):
			msg = fmt.Sprintf("verifies although the sender %x is not the address of the key supplied", from)
		case len(sigBytes) != 65:
			msg = fmt.Sprintf("verifies with a %d-byte signature", len(sigBytes))
		case !directVerify(sigBytes[:64], id, pku):
			msg = "verifies although (r,s) is not a signature of the sender's key over the id"
		}
	} else if expect == "ok" {
		msg = fmt.Sprintf("signature of the sender's key over the id %x is rejected: %v", id, v1)
	}
	if expect == "fail" && ok && msg == "" {
		msg = "verifies although it must not"
	}
	return
}

func coqVerify(res int, sigBytes, id, from []byte) string {
	rtab, htab := "[]", "[]"
	if internal, pk := directRecover(sigBytes, id); internal != nil {
		if pk != nil {
			rtab = fmt.Sprintf("[(%s, %s, Some %s)]", cb(internal), cb(id), cb(pk))
			htab = fmt.Sprintf("[(%s, %s)]", cb(pk[1:]), cb(sha3sum(pk[1:])))
		} else {
			rtab = fmt.Sprintf("[(%s, %s, None)]", cb(internal), cb(id))
		}
	}
	fc, fid := false, make([]byte, 20)
	if from != nil {
		fc, fid = from[0] == 1, from[1:]
	}
	if id == nil {
		id = []byte{}
	}
	return fmt.Sprintf("(CVerify %s %s %s %s %s %s %d)", rtab, htab, hxlib.CoqBool(fc), cb(fid), cb(sigBytes), cb(id), res)
}

func emitVerify(c *hxlib.Ctx, kind string, m map[string]interface{}, sig []byte, pku []byte, expect string) int {
	if sig != nil {
		m["signature"] = base64.StdEncoding.EncodeToString(sig)
	} else {
		delete(m, "signature")
	}
	text, _ := json.Marshal(m)
	res, sb, id, from, msg := oracleVerify(text, pku, expect)
	coq := ""
	if !c.OracleOnly {
		if from == nil { // refused at parse: take from/id of the unsigned transaction
			var a common.Address
			a.SetString(m["from"].(string))
			from = a.Bytes()
			id = idOf(m)
		}
		coq = coqVerify(res, sb, id, from)
	}
	c.Emit(hxlib.Case{Kind: kind, Coq: coq, Key: hex.EncodeToString(text), Nontrivial: true, OracleErr: msg,
		Input: verifyIn{T: "verify", Text: hex.EncodeToString(text), PKU: hex.EncodeToString(pku), Expect: expect}})
	return res
}

// ---------- signature formats ----------

type sigObs struct {
	ok            bool
	hasV          bool
	rs, rsv, vrs  []byte
	rsOK, rsvOK, vrsOK bool
}

func obsSig(s *crypto.Signature, err error) string {
	if err != nil || s == nil {
		return "None"
	}
	rs, e1 := s.SerializeRS()
	rsv, e2 := s.SerializeRSV()
	vrs, e3 := s.SerializeVRS()
	o := func(b []byte, e error) string { return hxlib.CoqOpt(e == nil, cb(b)) }
	return fmt.Sprintf("(Some (%s, %s, %s, %s))", hxlib.CoqBool(s.HasV()), o(rs, e1), o(rsv, e2), o(vrs, e3))
}

func oracleSig(b []byte) string {
	s, err := crypto.ParseSignature(b)
	switch len(b) {
	case 65:
		if err != nil {
			return "ParseSignature refuses 65 bytes"
		}
		if out, e := s.SerializeRSV(); e != nil || !bytes.Equal(out, b) {
			return fmt.Sprintf("SerializeRSV(ParseSignature(b)) = %x for b = %x", out, b)
		}
		vrs, e := s.SerializeVRS()
		if e != nil || vrs[0] != b[64] || !bytes.Equal(vrs[1:], b[:64]) {
			return fmt.Sprintf("SerializeVRS(ParseSignature(b)) = %x for b = %x", vrs, b)
		}
		s2, e := crypto.ParseSignatureVRS(vrs)
		if e != nil {
			return "ParseSignatureVRS refuses the output of SerializeVRS"
		}
		if out, e := s2.SerializeRSV(); e != nil || !bytes.Equal(out, b) {
			return fmt.Sprintf("R|S|V -> V|R|S -> R|S|V gives %x for %x", out, b)
		}
		s3, e := crypto.ParseSignatureVRS(b)
		if e != nil {
			return "ParseSignatureVRS refuses 65 bytes"
		}
		if out, e := s3.SerializeVRS(); e != nil || !bytes.Equal(out, b) {
			return fmt.Sprintf("SerializeVRS(ParseSignatureVRS(b)) = %x for b = %x", out, b)
		}
	case 64:
		if err != nil {
			return "ParseSignature refuses 64 bytes"
		}
		if s.HasV() {
			return "a 64-byte signature claims to have V"
		}
		if _, e := s.SerializeRSV(); e == nil {
			return "a 64-byte signature serialises with V"
		}
		if pk, e := s.RecoverPublicKey(sha3sum([]byte("x"))); e == nil || pk != nil {
			return "a 64-byte signature recovers a key"
		}
	default:
		if err == nil {
			return fmt.Sprintf("ParseSignature accepts %d bytes", len(b))
		}
	}
	return ""
}

type sigIn struct {
	T string `json:"t"`
	B string `json:"b_hex"`
}
type rtIn struct {
	T    string `json:"t"`
	SK   string `json:"sk_hex"`
	Hash string `json:"hash_hex"`
}

// sign -> recover gives the signer's key, for every key and hash length 1..32
func oracleRoundTrip(skb, hash []byte) string {
	sk, err := crypto.ParsePrivateKey(skb)
	if err != nil {
		return ""
	}
	want := secp256k1.PrivKeyFromBytes(skb).PubKey().SerializeUncompressed()
	s, err := crypto.NewSignature(hash, sk)
	if len(hash) == 0 || len(hash) > 32 {
		if err == nil {
			return fmt.Sprintf("NewSignature accepts a %d-byte hash", len(hash))
		}
		return ""
	}
	if err != nil {
		return fmt.Sprintf("NewSignature fails on a %d-byte hash: %v", len(hash), err)
	}
	rsv, err := s.SerializeRSV()
	if err != nil || len(rsv) != 65 || rsv[64] > 3 {
		return fmt.Sprintf("fresh signature serialises to %x (%v)", rsv, err)
	}
	s2, err := crypto.ParseSignature(rsv)
	if err != nil {
		return "fresh signature is not parsed back"
	}
	pk, err := s2.RecoverPublicKey(hash)
	if err != nil || pk == nil {
		return fmt.Sprintf("recovery fails on a fresh signature: %v", err)
	}
	if !bytes.Equal(pk.SerializeUncompressed(), want) {
		return fmt.Sprintf("sign -> recover gives %x, signer is %x", pk.SerializeUncompressed(), want)
	}
	if !s2.Verify(hash, sk.PublicKey()) {
		return "fresh signature does not Verify under the signer's key"
	}
	a := common.NewAccountAddressFromPublicKey(pk)
	if !bytes.Equal(a.Bytes(), append([]byte{0}, sha3sum(want[1:])[12:]...)) {
		return fmt.Sprintf("address of recovered key %x is not the last 20 bytes of SHA3(key)", a.Bytes())
	}
	return ""
}

func gen(c *hxlib.Ctx) {
	r := c.Rand
	keys := make([]*keyT, 6)
	for i := range keys {
		keys[i] = newKey(r)
	}
	accepted := map[string]int{}
	// a. own key over the own id
	for i := 0; i < c.N(60); i++ {
		k := keys[i%len(keys)]
		m := baseTx(r, k.Addr)
		emitVerify(c, "own-key", m, sign(k, idOf(m)), k.PKU, "ok")
	}
	// a'. raw-fallback transactions (id = JSON-map hash != struct hash)
	genRaw(c, keys)
	// b. foreign key, c. another id
	for i := 0; i < c.N(60); i++ {
		k, f := keys[i%len(keys)], keys[(i+1+r.Intn(len(keys)-1))%len(keys)]
		m := baseTx(r, k.Addr)
		emitVerify(c, "foreign-key", m, sign(f, idOf(m)), k.PKU, "fail")
		m2 := baseTx(r, k.Addr)
		other := idOf(baseTx(r, k.Addr))
		if i%3 == 0 {
			other = make([]byte, 32)
			r.Read(other)
		}
		emitVerify(c, "other-id", m2, sign(k, other), k.PKU, "fail")
	}
	// d. sender differs from the signer's address in one byte / in the type
	for i := 0; i < c.N(2); i++ {
		k := keys[r.Intn(len(keys))]
		for p := 0; p <= 20; p++ {
			from := append([]byte{}, k.Addr...)
			if p == 0 {
				from[0] = 1
			} else {
				from[p] ^= byte(1 << uint(r.Intn(8)))
			}
			m := baseTx(r, from)
			emitVerify(c, "near-miss-sender", m, sign(k, idOf(m)), nil, "fail")
		}
	}
	// e. every single-bit flip of r|s|v
	for i := 0; i < c.N(2); i++ {
		k := keys[r.Intn(len(keys))]
		m := baseTx(r, k.Addr)
		sig := sign(k, idOf(m))
		for bit := 0; bit < 65*8; bit++ {
			s2 := append([]byte{}, sig...)
			s2[bit/8] ^= 1 << uint(bit%8)
			if emitVerify(c, "bit-flip", m, s2, k.PKU, "any") == 1 {
				accepted[fmt.Sprintf("flip of bit %d of byte %d", bit%8, bit/8)]++
			}
		}
	}
	// f/h. lengths; g. every V
	for i := 0; i < c.N(2); i++ {
		k := keys[r.Intn(len(keys))]
		m := baseTx(r, k.Addr)
		sig := sign(k, idOf(m))
		emitVerify(c, "sig-64", m, sig[:64], k.PKU, "fail")
		emitVerify(c, "sig-none", m, nil, k.PKU, "fail")
		emitVerify(c, "sig-empty", m, []byte{}, k.PKU, "fail")
		for _, n := range []int{1, 32, 63, 66, 96, 128, 130} {
			b := make([]byte, n)
			r.Read(b)
			copy(b, sig)
			emitVerify(c, "sig-length", m, b, k.PKU, "fail")
		}
		for v := 0; v < 256; v++ {
			if i > 0 && v >= 8 && v != 27 && v != 28 && v != 255 && v != 229 && r.Intn(8) != 0 {
				continue
			}
			s2 := append([]byte{}, sig...)
			s2[64] = byte(v)
			exp := "fail"
			if byte(v) == sig[64] {
				exp = "ok"
			} else if byte(v) == sig[64]+4 {
				exp = "any" // decred reads V+4 as "compressed key" flag of the same recovery id
			}
			if emitVerify(c, "v-sweep", m, s2, k.PKU, exp) == 1 && byte(v) != sig[64] {
				accepted[fmt.Sprintf("V=%d for a signature made with V=%d", v, sig[64])]++
			}
		}
	}
	for _, k := range hxlib.SortedKeys(accepted) {
		c.Note("accepted variant of a valid signature (same r,s, same key): %s x%d", k, accepted[k])
	}
	// j. signature formats
	for i := 0; i < c.N(150); i++ {
		n := []int{0, 1, 63, 64, 64, 65, 65, 65, 65, 66, 130}[r.Intn(11)]
		b := make([]byte, n)
		r.Read(b)
		if n == 65 {
			switch r.Intn(4) {
			case 0:
				b[64] = byte(r.Intn(4))
			case 1:
				b[64] = byte(27 + r.Intn(2))
			case 2:
				b[64] = byte(229 + r.Intn(27))
			}
			if r.Intn(3) == 0 {
				b[0] = byte(r.Intn(4))
			}
		}
		var s1, s2 *crypto.Signature
		var e1, e2 error
		p := hxlib.Catch(func() { s1, e1 = crypto.ParseSignature(b); s2, e2 = crypto.ParseSignatureVRS(b) })
		msg := oracleSig(b)
		if p != "" {
			msg = "signature parsing panics: " + p
		}
		coq := ""
		if p == "" {
			coq = fmt.Sprintf("(CSig %s %s %s)", cb(b), obsSig(s1, e1), obsSig(s2, e2))
		}
		c.Emit(hxlib.Case{Kind: fmt.Sprintf("sig-format-%d", n), Coq: coq, Nontrivial: n == 64 || n == 65, OracleErr: msg,
			Input: sigIn{T: "sig", B: hex.EncodeToString(b)}})
	}
	// k/l. addresses of keys; sign -> recover
	for i := 0; i < c.N(120); i++ {
		skb := make([]byte, 32)
		r.Read(skb)
		n := 32
		if i%4 == 0 {
			n = []int{0, 1, 2, 16, 31, 32, 33, 64}[r.Intn(8)]
		}
		hash := make([]byte, n)
		r.Read(hash)
		coq := ""
		if sk, err := crypto.ParsePrivateKey(skb); err == nil && i%2 == 0 {
			pku := sk.PublicKey().SerializeUncompressed()
			a := common.NewAccountAddressFromPublicKey(sk.PublicKey())
			coq = fmt.Sprintf("(CAddr [(%s, %s)] %s %s)", cb(pku[1:]), cb(sha3sum(pku[1:])), cb(pku), cb(a.Bytes()))
		}
		c.Emit(hxlib.Case{Kind: fmt.Sprintf("sign-recover-%d", n), Coq: coq, Nontrivial: n >= 1 && n <= 32,
			OracleErr: oracleRoundTrip(skb, hash), Input: rtIn{T: "rt", SK: hex.EncodeToString(skb), Hash: hex.EncodeToString(hash)}})
	}
	// canary: a foreign signature observed as accepted
	{
		k, f := keys[0], keys[1]
		m := baseTx(rand.New(rand.NewSource(5)), k.Addr)
		id := idOf(m)
		c.Emit(hxlib.Case{Kind: "canary", Canary: true, Coq: coqVerify(1, sign(f, id), id, k.Addr)})
	}
}

func replay(raw json.RawMessage) string {
	var t struct {
		T string `json:"t"`
	}
	json.Unmarshal(raw, &t)
	unhx := func(s string) []byte { b, _ := hex.DecodeString(s); return b }
	switch t.T {
	case "verify":
		var in verifyIn
		json.Unmarshal(raw, &in)
		_, _, _, _, msg := oracleVerify(unhx(in.Text), unhx(in.PKU), in.Expect)
		return msg
	case "tx":
		var in txIn
		json.Unmarshal(raw, &in)
		_, _, _, msg := oracleTx(unhx(in.Text), in.Expect)
		return msg
	case "sig":
		var in sigIn
		json.Unmarshal(raw, &in)
		if p := hxlib.Catch(func() { crypto.ParseSignature(unhx(in.B)); crypto.ParseSignatureVRS(unhx(in.B)) }); p != "" {
			return "signature parsing panics: " + p
		}
		return oracleSig(unhx(in.B))
	case "rt":
		var in rtIn
		json.Unmarshal(raw, &in)
		return oracleRoundTrip(unhx(in.SK), unhx(in.Hash))
	}
	return "unknown case type " + t.T
}

func main() {
	hxlib.Main(hxlib.Spec{
		ID: "C13",
		Rule: "v3 transactions built as JSON with random fields; the id is taken from the implementation, signatures are made with real secp256k1 keys: own key over the own id (must verify); raw-fallback transactions (leading-zero / upper-case hex, upper-case address, extra top-level field: id = JSON-map hash, not the struct hash) signed over their id (must verify, JSON and stored form) and over the struct hash = the canonical twin's id (must not), the id being recomputed by the harness and, in the model, by Model_TxSerialize.from_json; foreign key, own key over another id, sender differing from the signer's address in one bit of each of the 20 id bytes or in the type, every single-bit flip of r|s|v for sampled transactions, all 256 V values, 64-byte / missing / empty / odd-length signatures; each decision is also taken on the stored (binary) form; byte strings of lengths 0,1,63,64,65,66,130 through ParseSignature / ParseSignatureVRS and the three serialisers; addresses of random keys; sign -> recover for random keys and hashes of length 0..64; non-trivial = every verify case, 64/65-byte format cases, hashes of length 1..32; distinct = distinct input",
		Preamble: "From Goloop Require Import lib.Bytes Model_Address Model_TxSerialize Model_TxVerify.\nFrom GoloopRun Require Import Run_C13.",
		Shard:    400,
		Gen:      gen, Replay: replay,
	})
}
