// (copy of cmd/c12/ref.go) Reference (harness-side) implementations used by the oracle and to build the
// hash table handed to the Coq model.  Written independently of
// service/transaction/serialize.go: "join" style instead of the buffer loop.
package main

import (
	"encoding/hex"
	"encoding/json"
	"fmt"
	"math/big"
	"sort"
	"strconv"
	"strings"

	"golang.org/x/crypto/sha3"
	"verif/harness/hxlib"
)

var refEscaper = strings.NewReplacer(`\`, `\\`, `{`, `\{`, `}`, `\}`, `[`, `\[`, `]`, `\]`, `.`, `\.`)

func hasSpecial(s string) bool { return strings.ContainsAny(s, `\{}[].`) }

// refValue: the ICON serialisation of a decoded JSON value; ok=false for kinds
// the code rejects (bool).
func refValue(v interface{}) (string, bool) {
	switch x := v.(type) {
	case nil:
		return `\0`, true
	case string:
		return refEscaper.Replace(x), true
	case float64:
		return strconv.FormatInt(int64(x), 10), true
	case []interface{}:
		parts := make([]string, 0, len(x))
		for _, e := range x {
			s, ok := refValue(e)
			if !ok {
				return "", false
			}
			parts = append(parts, s)
		}
		i := 0
		for i < len(parts) && parts[i] == "" { // goloop: no separator while the buffer is empty
			i++
		}
		return "[" + strings.Join(parts[i:], ".") + "]", true
	case map[string]interface{}:
		s, ok := refDictBody(x, nil)
		return "{" + s + "}", ok
	}
	return "", false
}

func refDictBody(m map[string]interface{}, exclude map[string]bool) (string, bool) {
	keys := make([]string, 0, len(m))
	for k := range m {
		if !exclude[k] {
			keys = append(keys, k)
		}
	}
	sort.Strings(keys)
	parts := make([]string, 0, len(keys))
	for _, k := range keys {
		s, ok := refValue(m[k])
		if !ok {
			return "", false
		}
		parts = append(parts, refEscaper.Replace(k)+"."+s)
	}
	return strings.Join(parts, "."), true
}

var v3Excluded = map[string]bool{"signature": true, "txHash": true}

func refPreMap(m map[string]interface{}) (string, bool) {
	s, ok := refDictBody(m, v3Excluded)
	return "icx_sendTransaction." + s, ok
}

func fmtBig(v *big.Int) string {
	if v.Sign() < 0 {
		return "-0x" + new(big.Int).Neg(v).Text(16)
	}
	return "0x" + v.Text(16)
}

func fmtAddr(b []byte) string { // 21 bytes
	p := "hx"
	if b[0] == 1 {
		p = "cx"
	}
	return p + hex.EncodeToString(b[1:])
}

// observed/semantic field values of a v3 transaction
type fieldVals struct {
	From, To  []byte // 21 bytes
	Value     *big.Int
	StepLimit *big.Int
	Timestamp int64
	NID       *int64
	Nonce     *big.Int
	DataType  *string
	HasData   bool
	DataEmpty bool        // Data present but zero length
	DataBad   bool        // Data present, not JSON
	Data      interface{} // decoded
}

func refPreStruct(f *fieldVals) (string, bool) {
	var sb strings.Builder
	sb.WriteString("icx_sendTransaction")
	if f.HasData {
		sb.WriteString(".data.")
		if f.DataBad {
			return "", false
		}
		if !f.DataEmpty {
			s, ok := refValue(f.Data)
			if !ok {
				return "", false
			}
			sb.WriteString(s)
		}
	}
	if f.DataType != nil {
		sb.WriteString(".dataType." + *f.DataType)
	}
	sb.WriteString(".from." + fmtAddr(f.From))
	if f.NID != nil {
		sb.WriteString(".nid." + fmtBig(big.NewInt(*f.NID)))
	}
	if f.Nonce != nil {
		sb.WriteString(".nonce." + fmtBig(f.Nonce))
	}
	sb.WriteString(".stepLimit." + fmtBig(f.StepLimit))
	sb.WriteString(".timestamp." + fmtBig(big.NewInt(f.Timestamp)))
	sb.WriteString(".to." + fmtAddr(f.To))
	if f.Value != nil {
		sb.WriteString(".value." + fmtBig(f.Value))
	}
	sb.WriteString(".version.0x3")
	return sb.String(), true
}

func sha3sum(b []byte) []byte {
	h := sha3.Sum256(b)
	return h[:]
}

// ---------- Coq printers ----------

// cb prints a byte string: short ones as a list literal, long ones as
// (pw n (W8 w1 .. w8 (W8 .. WE)))%uint63 — see Run_C12.v
func cb(b []byte) string {
	if len(b) <= 8 {
		return hxlib.CoqBytes(b)
	}
	var words []uint64
	for i := 0; i < len(b); i += 7 {
		j := i + 7
		if j > len(b) {
			j = len(b)
		}
		var w uint64
		for _, x := range b[i:j] {
			w = w<<8 | uint64(x)
		}
		words = append(words, w)
	}
	for len(words)%8 != 0 {
		words = append(words, 0)
	}
	var sb strings.Builder
	fmt.Fprintf(&sb, "(pw %d ", len(b))
	for i := 0; i < len(words); i += 8 {
		fmt.Fprintf(&sb, "(W8 %d %d %d %d %d %d %d %d ", words[i], words[i+1], words[i+2], words[i+3], words[i+4], words[i+5], words[i+6], words[i+7])
	}
	sb.WriteString("WE")
	sb.WriteString(strings.Repeat(")", len(words)/8))
	sb.WriteString(")%uint63")
	return sb.String()
}

func coqJSON(v interface{}) string {
	switch x := v.(type) {
	case nil:
		return "JNull"
	case string:
		return "(JStr " + cb([]byte(x)) + ")"
	case float64:
		return fmt.Sprintf("(JNum (%d)%%Z)", int64(x))
	case bool:
		return "(JBool " + hxlib.CoqBool(x) + ")"
	case []interface{}:
		items := make([]string, len(x))
		for i, e := range x {
			items[i] = coqJSON(e)
		}
		return "(JList " + hxlib.CoqList(items) + ")"
	case map[string]interface{}:
		return "(JObj " + coqMap(x) + ")"
	}
	panic(fmt.Sprintf("coqJSON: %T", v))
}

func coqMap(m map[string]interface{}) string {
	keys := make([]string, 0, len(m))
	for k := range m {
		keys = append(keys, k)
	}
	sort.Strings(keys)
	items := make([]string, len(keys))
	for i, k := range keys {
		items[i] = "(" + cb([]byte(k)) + ", " + coqJSON(m[k]) + ")"
	}
	return hxlib.CoqList(items)
}

func coqOptBytes(b []byte, present bool) string {
	return hxlib.CoqOpt(present, cb(b))
}

func coqOptBig(v *big.Int) string {
	if v == nil {
		return "None"
	}
	return "(Some " + hxlib.CoqZ(v.String()) + ")"
}

func coqAddr(b []byte) string {
	return fmt.Sprintf("{| a_contract := %s; a_id := %s |}", hxlib.CoqBool(b[0] == 1), cb(b[1:]))
}

type tabT struct {
	keys [][]byte
	vals [][]byte
	seen map[string]bool
}

func newTab() *tabT { return &tabT{seen: map[string]bool{}} }
func (t *tabT) add(k, v []byte) {
	if t.seen[string(k)] {
		return
	}
	t.seen[string(k)] = true
	t.keys = append(t.keys, k)
	t.vals = append(t.vals, v)
}
func (t *tabT) addHash(pre string, ok bool) {
	if ok {
		t.add([]byte(pre), sha3sum([]byte(pre)))
	}
}
func (t *tabT) coq() string {
	items := make([]string, len(t.keys))
	for i := range t.keys {
		items[i] = "(" + cb(t.keys[i]) + ", " + cb(t.vals[i]) + ")"
	}
	return hxlib.CoqList(items)
}

func decodeTree(text []byte) (interface{}, error) {
	var v interface{}
	err := json.Unmarshal(text, &v)
	return v, err
}
