package main

import (
	"bytes"
	"encoding/base64"
	"encoding/hex"
	"encoding/json"
	"fmt"
	"math/big"
	"math/rand"
	"strings"

	"github.com/icon-project/goloop/service/transaction"
	"verif/harness/hxlib"
)

// ---- transactions whose id is computed by the model too (CVerifyTx) ----
// The JSON map goes to Model_TxSerialize.from_json, which decides between the
// struct path and the raw fallback and yields the id; Model_TxVerify.verify
// is evaluated on that id.  The harness supplies SHA3 of its own reference
// pre-images (map and struct), base64 of the signature, and decred's answer
// for recovery over the reference id.

func valsOf(f *transaction.VerifV3Fields) *fieldVals {
	return &fieldVals{From: f.From, To: f.To, Value: f.Value, StepLimit: f.StepLimit, Timestamp: f.TimeStamp,
		NID: f.NID, Nonce: f.Nonce, DataType: f.DataType, HasData: !f.DataNil}
}

func addrOfPK(pk []byte) []byte { return append([]byte{0}, sha3sum(pk[1:])[12:]...) }

// recoversToSender: decred recovery of (sig, id) gives a key whose address is `from`
func recoversToSender(sig, id, from []byte) bool {
	_, pk := directRecover(sig, id)
	return pk != nil && bytes.Equal(addrOfPK(pk), from)
}

type txIn struct {
	T      string `json:"t"`
	Text   string `json:"text_hex"`
	Expect string `json:"expect"`
}

// oracleTx: Verify ok <=> the signature recovers to the sender over THIS
// transaction's id, where the id is recomputed by the harness (SHA3 of its own
// reference pre-image of the JSON map); on the JSON form and on the stored form.
func oracleTx(text []byte, expect string) (res int, raw bool, id []byte, msg string) {
	var m map[string]interface{}
	if json.Unmarshal(text, &m) != nil {
		return 0, false, nil, ""
	}
	var sig []byte
	if s, ok := m["signature"].(string); ok {
		sig, _ = base64.StdEncoding.DecodeString(s)
	}
	pre, ok := refPreMap(m)
	if !ok {
		return 0, false, nil, ""
	}
	idRef := sha3sum([]byte(pre))
	tx, err := parseJSON(text)
	if err != nil {
		if expect == "ok" {
			msg = fmt.Sprintf("transaction signed by its sender is refused: %v", err)
		}
		return 0, false, nil, msg
	}
	f := transaction.VerifV3FieldsOf(tx)
	id = append([]byte{}, tx.ID()...)
	raw = f.Raw
	if !bytes.Equal(id, idRef) {
		return 2, raw, id, fmt.Sprintf("ID() %x is not SHA3 of the reference pre-image (%x)", id, idRef)
	}
	want := recoversToSender(sig, idRef, f.From)
	check := func(t transaction.Transaction, form string) string {
		var v error
		if p := hxlib.Catch(func() { v = t.Verify() }); p != "" {
			return "Verify panics on the " + form + ": " + p
		}
		switch {
		case v == nil && !want:
			return fmt.Sprintf("Verify of the %s accepts although the signature does not recover to the sender over this transaction's id %x (raw=%v)", form, idRef, raw)
		case v != nil && want:
			return fmt.Sprintf("Verify of the %s rejects (%v) although the signature recovers to the sender over this transaction's id %x (raw=%v)", form, v, idRef, raw)
		}
		return ""
	}
	if msg = check(tx, "JSON form"); msg == "" {
		var bs []byte
		hxlib.Catch(func() { bs = tx.Bytes() })
		if bs != nil {
			tx2, err := transaction.NewTransaction(bs)
			if err != nil {
				msg = fmt.Sprintf("stored form is not parsed back: %v", err)
			} else if !bytes.Equal(tx2.ID(), idRef) {
				msg = fmt.Sprintf("stored form has id %x, JSON form %x", tx2.ID(), idRef)
			} else {
				msg = check(tx2, "stored form")
			}
		}
	}
	res = 2
	if want {
		res = 1
	}
	if msg == "" {
		if (expect == "ok") != want && expect != "any" {
			msg = fmt.Sprintf("generator expectation %q does not match the reference decision %v", expect, want)
		}
		if tx.Verify() == nil {
			res = 1
		} else {
			res = 2
		}
	} else if tx.Verify() == nil {
		res = 1
	}
	return
}

func coqTx(text []byte, res int) string {
	var m map[string]interface{}
	json.Unmarshal(text, &m)
	htab, btab := newTab(), newTab()
	pre, ok := refPreMap(m)
	htab.addHash(pre, ok)
	idRef := sha3sum([]byte(pre))
	var sig []byte
	if s, ok := m["signature"].(string); ok && s != "" {
		if b, err := base64.StdEncoding.DecodeString(s); err == nil {
			sig = b
			btab.add([]byte(s), b)
		}
	}
	isRaw, idObs := false, []byte{}
	if tx, err := parseJSON(text); err == nil {
		f := transaction.VerifV3FieldsOf(tx)
		ps, ok := refPreStruct(valsOf(f))
		htab.addHash(ps, ok)
		isRaw, idObs = f.Raw, tx.ID()
	}
	rtab := "[]"
	if internal, pk := directRecover(sig, idRef); internal != nil {
		if pk != nil {
			rtab = fmt.Sprintf("[(%s, %s, Some %s)]", cb(internal), cb(idRef), cb(pk))
			htab.add(pk[1:], sha3sum(pk[1:]))
		} else {
			rtab = fmt.Sprintf("[(%s, %s, None)]", cb(internal), cb(idRef))
		}
	}
	return fmt.Sprintf("(CVerifyTx %s %s %s %s %s %s %d)", rtab, htab.coq(), btab.coq(), coqMap(m),
		hxlib.CoqBool(isRaw), cb(idObs), res)
}

func emitTx(c *hxlib.Ctx, kind string, m map[string]interface{}, sig []byte, expect string) {
	m["signature"] = base64.StdEncoding.EncodeToString(sig)
	text, _ := json.Marshal(m)
	res, _, _, msg := oracleTx(text, expect)
	coq := ""
	if !c.OracleOnly {
		coq = coqTx(text, res)
	}
	c.Emit(hxlib.Case{Kind: kind, Coq: coq, Key: hex.EncodeToString(text), Nontrivial: true, OracleErr: msg,
		Input: txIn{T: "tx", Text: hex.EncodeToString(text), Expect: expect}})
}

// rawVariant makes the JSON non-canonical so that parseV3JSON keeps the raw form
func rawVariant(m map[string]interface{}, r *rand.Rand) string {
	upper := func(k string) bool {
		s := m[k].(string)
		u := "0x" + strings.ToUpper(s[2:])
		if u == s {
			return false
		}
		m[k] = u
		return true
	}
	switch r.Intn(5) {
	case 0:
		m["stepLimit"] = "0x0" + m["stepLimit"].(string)[2:]
		return "leading-zero"
	case 1:
		if upper("timestamp") || upper("stepLimit") {
			return "upper-hex"
		}
		m["nid"] = "0x01"
		return "leading-zero"
	case 2:
		m["extra"] = []string{"b", "0x1", "a.b"}[r.Intn(3)]
		return "extra-field"
	case 3:
		s := m["from"].(string)
		u := s[:2] + strings.ToUpper(s[2:])
		if u != s {
			m["from"] = u
			return "upper-address"
		}
		m["nid"] = "0x001"
		return "leading-zero"
	default:
		if v, ok := m["value"].(string); ok {
			m["value"] = "0x00" + v[2:]
		} else {
			m["value"] = "0x00"
		}
		return "leading-zero"
	}
}

func structHashRef(m map[string]interface{}) []byte {
	text, _ := json.Marshal(m)
	tx, err := parseJSON(text)
	if err != nil {
		return nil
	}
	ps, ok := refPreStruct(valsOf(transaction.VerifV3FieldsOf(tx)))
	if !ok {
		return nil
	}
	return sha3sum([]byte(ps))
}

func genRaw(c *hxlib.Ctx, keys []*keyT) {
	r := c.Rand
	for i := 0; i < c.N(45); i++ {
		k := keys[i%len(keys)]
		m := baseTx(r, k.Addr)
		if i%5 == 4 { // canonical: struct path, both hashes coincide
			pre, _ := refPreMap(m)
			emitTx(c, "tx-canonical-own-id", m, sign(k, sha3sum([]byte(pre))), "ok")
			continue
		}
		what := rawVariant(m, r)
		pre, _ := refPreMap(m)
		id := sha3sum([]byte(pre))
		sh := structHashRef(m)
		if sh == nil || bytes.Equal(sh, id) {
			c.Note("raw variant %s did not leave the struct path", what)
			continue
		}
		// (a) the sender's signature over this transaction's id
		emitTx(c, "raw-"+what+"-own-id", m, sign(k, id), "ok")
		// (b) the sender's signature over the struct hash = the id of the canonical twin
		m2 := map[string]interface{}{}
		for kk, v := range m {
			m2[kk] = v
		}
		emitTx(c, "raw-"+what+"-twin-id", m2, sign(k, sh), "fail")
	}
	_ = big.NewInt
}
