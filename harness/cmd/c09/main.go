// c09: drives the REAL service.executeTxsConcurrent / executeTxsSequential
// (through the add-only overlay shims harness/overlay/service/c09_export.go and
// harness/overlay/service/state/c09_export.go) with a harness-defined
// transaction type whose handler declares lock requests through
// ctx.GetFuture(...) in Prepare, exactly as the real handlers do, and whose
// Execute runs a scripted program over account balances through the
// WorldContext it is given.  Execute parks on harness-controlled gates before
// every account access and before returning, so that the harness chooses the
// order of accesses and commits (forced schedules) instead of taking what the
// Go scheduler picks.  Results (per-account balances, state hash, receipts,
// per-transaction observations) are compared with the real sequential executor
// on the same block (direct oracle) and with Model_VirtualState (Run_C09.v).
package main

import (
	"bufio"
	"encoding/hex"
	"encoding/json"
	"fmt"
	"io"
	"math/big"
	"math/rand"
	"os"
	"os/exec"
	"path/filepath"
	"runtime"
	"sort"
	"strings"
	"sync"
	"sync/atomic"
	"time"

	"github.com/icon-project/goloop/chain/base"
	"github.com/icon-project/goloop/common"
	"github.com/icon-project/goloop/common/db"
	"github.com/icon-project/goloop/common/errors"
	"github.com/icon-project/goloop/common/log"
	"github.com/icon-project/goloop/module"
	"github.com/icon-project/goloop/service"
	"github.com/icon-project/goloop/service/contract"
	"github.com/icon-project/goloop/service/platform/basic"
	"github.com/icon-project/goloop/service/state"
	"github.com/icon-project/goloop/service/transaction"
	"github.com/icon-project/goloop/service/txresult"

	"verif/harness/hxlib"
)

// ---------------------------------------------------------------------------
// case description (this is also the replay input)
// ---------------------------------------------------------------------------

const (
	NA    = 6  // user accounts 0..5
	SYS   = 6  // index of the system account (state.SystemID); every GetFuture adds a read lock on it
	WORLD = -1 // lock id of the world lock (state.WorldIDStr)
)

type lockSpec struct {
	ID int  `json:"id"` // account index, or -1 = world
	W  bool `json:"w"`  // write lock (else read lock)
}

// One instruction of a scripted program.  Values are balances (non-negative).
//
//	read a        push balance(a) on the observation list
//	touch a       GetAccountState(a) only
//	add a k       balance(a) += k
//	set a k       balance(a) = k                      (blind write)
//	xfer a b k    if balance(a) >= k { a -= k; b += k; push 1 } else { push 0 }
//
// With Guard: the instruction runs only if balance(GA) >= GK.
type instr struct {
	Op    string `json:"op"`
	A     int    `json:"a"`
	B     int    `json:"b,omitempty"`
	K     int64  `json:"k,omitempty"`
	Guard bool   `json:"guard,omitempty"`
	GA    int    `json:"ga,omitempty"`
	GK    int64  `json:"gk,omitempty"`
}

type txSpec struct {
	Locks  []lockSpec `json:"locks"`
	Prog   []instr    `json:"prog"`
	Ensure bool       `json:"ensure,omitempty"` // Prepare calls WorldVirtualState().Ensure() like CallHandler does
	// Fails: one entry per failing first attempt (at most RetryCount = 2): the attempt executes
	// that many instructions (writes included) and then returns ExecutionFailError; the executor
	// resets the state (WorldVirtualState.Reset / WorldState.Reset) and retries.
	Fails []int `json:"fails,omitempty"`
	// FailFirst (older corpus files): the same as Fails = [len(Prog)]
	FailFirst bool `json:"failFirst,omitempty"`
}

func (t *txSpec) fails() []int {
	f := t.Fails
	if t.FailFirst && len(f) == 0 {
		f = []int{len(t.Prog)}
	}
	if len(f) > 2 {
		f = f[:2]
	}
	out := make([]int, len(f))
	for i, k := range f {
		if k < 0 {
			k = 0
		}
		if k > len(t.Prog) {
			k = len(t.Prog)
		}
		out[i] = k
	}
	return out
}

// How the concurrent run is driven.
//
//	free    gates are open: whatever the Go scheduler picks (plus jitter from Seed)
//	serial  all transactions are dispatched first (level >= n); then the workers run to
//	        completion (commit observed) one at a time in Order, a linear extension of the
//	        dependency order; deterministic
//	prio    at every point the parked worker that comes first in Order is released; a released
//	        worker that neither parks again nor finishes within the quiescence time is taken to
//	        be blocked inside the virtual state and the next one is released
//	rr      parked workers are released one gate each in turn
//	rand    a pseudo-random parked worker (Seed) is released at every point
type schedSpec struct {
	Kind  string `json:"kind"`
	Order []int  `json:"order,omitempty"`
	Seed  int64  `json:"seed,omitempty"`
	// Hold: the dispatching goroutine is parked in Prepare of the LAST transaction until every
	// earlier transaction has finished.  (Once the last transaction is dispatched,
	// executeTxsConcurrent calls Realize, which takes the mutex of every uncommitted virtual
	// state and thereby forces the remaining workers into block order.)  serial implies Hold.
	Hold bool `json:"hold,omitempty"`
}

type blockCase struct {
	Level int       `json:"level"`
	Init  []int64   `json:"init"` // NA+1 balances (last = system account)
	Txs   []txSpec  `json:"txs"`
	Sched schedSpec `json:"sched"`
}

// ---------------------------------------------------------------------------
// static analysis of a case (independent of the model): what a program touches,
// what its lock requests allow, the dependency order
// ---------------------------------------------------------------------------

func worldLock(t *txSpec) int { // 0 none, 1 read, 2 write
	w := 0
	for _, l := range t.Locks {
		if l.ID == WORLD {
			if l.W {
				w = 2
			} else if w < 1 {
				w = 1
			}
		}
	}
	return w
}

// account lock level after GetFuture (which adds the system read lock): 0 none, 1 read, 2 write
func acctLock(t *txSpec, a int) int {
	lv := 0
	if a == SYS {
		lv = 1
	}
	for _, l := range t.Locks {
		if l.ID == a {
			if l.W {
				lv = 2
			} else if lv < 1 {
				lv = 1
			}
		}
	}
	return lv
}

func canRead(t *txSpec, a int) bool  { return worldLock(t) != 0 || acctLock(t, a) != 0 }
func canWrite(t *txSpec, a int) bool { return worldLock(t) == 2 || acctLock(t, a) == 2 }

// accounts an instruction may read / write
func touches(in *instr) (rd, wr []int) {
	if in.Guard {
		rd = append(rd, in.GA)
	}
	switch in.Op {
	case "read", "touch":
		rd = append(rd, in.A)
	case "add":
		rd = append(rd, in.A)
		wr = append(wr, in.A)
	case "set":
		wr = append(wr, in.A)
	case "xfer":
		rd = append(rd, in.A, in.B)
		wr = append(wr, in.A, in.B)
	}
	return
}

// the hypothesis of the theorems, checked of every generated program
func wellDeclared(t *txSpec) bool {
	for i := range t.Prog {
		rd, wr := touches(&t.Prog[i])
		for _, a := range rd {
			if a < 0 || a > SYS || !canRead(t, a) {
				return false
			}
		}
		for _, a := range wr {
			if a < 0 || a > SYS || !canWrite(t, a) {
				return false
			}
		}
	}
	return true
}

func effWriter(t *txSpec, a int) bool { return worldLock(t) == 2 || acctLock(t, a) == 2 }

// holds an entry in accountStates for a (what applyLockRequests keeps)
func hasEntry(t *txSpec, a int) bool {
	w := worldLock(t)
	if w == 2 {
		return false
	}
	return acctLock(t, a) > w
}

// deps[j] = transactions whose commit j waits for (directly)
func dependencies(bc *blockCase) [][]int {
	n := len(bc.Txs)
	deps := make([][]int, n)
	for j := 0; j < n; j++ {
		set := map[int]bool{}
		if worldLock(&bc.Txs[j]) != 0 {
			for i := 0; i < j; i++ {
				set[i] = true
			}
		}
		for a := 0; a <= SYS; a++ {
			if !hasEntry(&bc.Txs[j], a) {
				continue
			}
			for i := j - 1; i >= 0; i-- {
				if effWriter(&bc.Txs[i], a) {
					set[i] = true
					break
				}
			}
		}
		for i := range set {
			deps[j] = append(deps[j], i)
		}
		sort.Ints(deps[j])
	}
	return deps
}

// the order constraints of a serial schedule: the dependencies, plus block order among
// everything before a world locker (its worker calls parent.Realize() as soon as it is
// spawned, which holds the mutexes of all uncommitted predecessors while it waits for them
// oldest first)
func serialDeps(bc *blockCase, n int) [][]int {
	deps := dependencies(bc)
	for k := 0; k < n; k++ {
		if worldLock(&bc.Txs[k]) == 0 {
			continue
		}
		for j := 1; j < k; j++ {
			set := map[int]bool{}
			for _, d := range deps[j] {
				set[d] = true
			}
			for i := 0; i < j; i++ {
				if !set[i] {
					deps[j] = append(deps[j], i)
				}
			}
			sort.Ints(deps[j])
		}
	}
	return deps
}

func hasWorldRead(bc *blockCase) bool {
	for i := range bc.Txs {
		if worldLock(&bc.Txs[i]) == 1 {
			return true
		}
	}
	return false
}

// a linear extension of the dependency order, choosing among the ready
// transactions by `pick`
func linearExtension(bc *blockCase, n int, pick func(ready []int) int) []int {
	if n <= 0 {
		return nil
	}
	deps := serialDeps(bc, n)
	done := make([]bool, n)
	var order []int
	for len(order) < n {
		var ready []int
		for j := 0; j < n; j++ {
			if done[j] {
				continue
			}
			ok := true
			for _, d := range deps[j] {
				if !done[d] {
					ok = false
				}
			}
			if ok {
				ready = append(ready, j)
			}
		}
		j := ready[pick(ready)]
		done[j] = true
		order = append(order, j)
	}
	return order
}

// ---------------------------------------------------------------------------
// gates
// ---------------------------------------------------------------------------

type ctl struct {
	mu     sync.Mutex
	parked map[int]chan struct{}
	open   bool
	events chan struct{}
}

func newCtl(open bool) *ctl {
	return &ctl{parked: map[int]chan struct{}{}, open: open, events: make(chan struct{}, 1)}
}

func (c *ctl) notify() {
	select {
	case c.events <- struct{}{}:
	default:
	}
}

// called by a worker: park until released
func (c *ctl) gate(tx int) {
	c.mu.Lock()
	if c.open {
		c.mu.Unlock()
		return
	}
	ch := make(chan struct{})
	c.parked[tx] = ch
	c.mu.Unlock()
	c.notify()
	<-ch
}

func (c *ctl) isParked(tx int) bool {
	c.mu.Lock()
	defer c.mu.Unlock()
	_, ok := c.parked[tx]
	return ok
}

func (c *ctl) parkedList() []int {
	c.mu.Lock()
	defer c.mu.Unlock()
	var l []int
	for k := range c.parked {
		if k != dispatcher {
			l = append(l, k)
		}
	}
	sort.Ints(l)
	return l
}

func (c *ctl) release(tx int) bool {
	c.mu.Lock()
	ch, ok := c.parked[tx]
	if ok {
		delete(c.parked, tx)
	}
	c.mu.Unlock()
	if ok {
		close(ch)
	}
	return ok
}

func (c *ctl) openAll() {
	c.mu.Lock()
	c.open = true
	chs := c.parked
	c.parked = map[int]chan struct{}{}
	c.mu.Unlock()
	for _, ch := range chs {
		close(ch)
	}
}

// wait until cond holds; false if the deadline passes first
func (c *ctl) waitFor(cond func() bool, deadline time.Time) bool {
	for {
		if cond() {
			return true
		}
		d := time.Until(deadline)
		if d <= 0 {
			return cond()
		}
		if d > 200*time.Microsecond {
			d = 200 * time.Microsecond // conditions that are polled (commit flag) have no event
		}
		select {
		case <-c.events:
		case <-time.After(d):
		}
	}
}

// ---------------------------------------------------------------------------
// scripted transactions
// ---------------------------------------------------------------------------

const dispatcher = -1 // gate id of the dispatching goroutine

func (b *block) hold() bool {
	return b.bc.Sched.Kind == "serial" || (b.bc.Sched.Hold && b.bc.Sched.Kind != "free")
}

type block struct {
	bc       *blockCase
	txs      []*htx
	ctl      *ctl // nil: sequential run (no gates)
	prepared atomic.Int32
	panicMsg atomic.Pointer[string]
}

type htx struct {
	transaction.Transaction // nil: methods not listed below are never called by the executors
	b                       *block
	idx                     int
	from, to                module.Address
	id                      []byte
	obs                     []int64
	execs                   atomic.Int32
	exited                  atomic.Bool
	reached                 atomic.Bool // has arrived at its first gate
	wvs                     atomic.Pointer[state.WorldVirtualState]
}

func (t *htx) Group() module.TransactionGroup { return module.TransactionGroupNormal }
func (t *htx) ID() []byte                     { return t.id }
func (t *htx) From() module.Address           { return t.from }
func (t *htx) To() module.Address             { return t.to }
func (t *htx) Bytes() []byte                  { return t.id }
func (t *htx) Hash() []byte                   { return t.id }
func (t *htx) Verify() error                  { return nil }
func (t *htx) Version() int                   { return 3 }
func (t *htx) ToJSON(module.JSONVersion) (interface{}, error) {
	return map[string]interface{}{"idx": t.idx}, nil
}
func (t *htx) ValidateNetwork(int) bool                   { return true }
func (t *htx) PreValidate(state.WorldContext, bool) error { return nil }
func (t *htx) Timestamp() int64                           { return 1000 + int64(t.idx) }
func (t *htx) Nonce() *big.Int                            { return big.NewInt(int64(t.idx)) }
func (t *htx) IsSkippable() bool                          { return false }
func (t *htx) GetHandler(cm contract.ContractManager) (transaction.Handler, error) {
	return &hh{tx: t}, nil
}

type hh struct{ tx *htx }

func acctID(a int) []byte {
	if a == SYS {
		return state.SystemID
	}
	id := make([]byte, 20)
	id[0] = 0xaa
	id[19] = byte(a)
	return id
}

// Prepare declares the lock requests exactly like CommonHandler.Prepare /
// transactionV2.Prepare / DepositHandler.Prepare do: one ctx.GetFuture(lq).
func (h *hh) Prepare(ctx contract.Context) (state.WorldContext, error) {
	t := h.tx
	sp := &t.b.bc.Txs[t.idx]
	if c := t.b.ctl; c != nil && t.b.hold() && t.idx == len(t.b.txs)-1 {
		c.gate(dispatcher) // the dispatching goroutine parks before the last GetFuture
	}
	lq := make([]state.LockRequest, 0, len(sp.Locks))
	for _, l := range sp.Locks {
		lk := state.AccountReadLock
		if l.W {
			lk = state.AccountWriteLock
		}
		if l.ID == WORLD {
			lq = append(lq, state.LockRequest{ID: state.WorldIDStr, Lock: lk})
		} else {
			lq = append(lq, state.LockRequest{ID: string(acctID(l.ID)), Lock: lk})
		}
	}
	wc := ctx.GetFuture(lq)
	wvs := wc.WorldVirtualState()
	t.wvs.Store(&wvs)
	if sp.Ensure {
		wvs.Ensure() // CallHandler.prepareWorldContextAndAccount
	}
	t.b.prepared.Add(1)
	if c := t.b.ctl; c != nil {
		c.notify()
	}
	return wc, nil
}

func jitter(seed int64, idx, point int) {
	x := uint64(seed)*0x9E3779B97F4A7C15 + uint64(idx)*0xBF58476D1CE4E5B9 + uint64(point)*0x2545F4914F6CDD1D
	x ^= x >> 31
	x *= 0xD6E8FEB86659FD93
	x ^= x >> 29
	switch x % 5 {
	case 0:
	case 1:
		runtime.Gosched()
	case 2:
		time.Sleep(time.Duration((x>>8)%40) * time.Microsecond)
	case 3:
		time.Sleep(time.Duration((x>>8)%200) * time.Microsecond)
	default:
		for i := uint64(0); i < 1+(x>>8)%3; i++ {
			runtime.Gosched()
		}
	}
}

func (h *hh) Execute(ctx contract.Context, wcs state.WorldSnapshot, estimate bool) (rct txresult.Receipt, err error) {
	t := h.tx
	b := t.b
	attempt := int(t.execs.Add(1)) - 1
	point := 0
	defer func() {
		if r := recover(); r != nil {
			msg := fmt.Sprintf("tx %d: %v", t.idx, r)
			b.panicMsg.CompareAndSwap(nil, &msg)
			rct, err = nil, fmt.Errorf("panic in handler: %v", r)
			t.exited.Store(true)
			if b.ctl != nil {
				b.ctl.notify()
			}
		}
	}()
	pause := func() {
		if b.ctl != nil {
			t.reached.Store(true)
			b.ctl.gate(t.idx)
			if b.bc.Sched.Kind == "free" {
				jitter(b.bc.Sched.Seed, t.idx, point)
			}
		}
		point++
	}
	get := func(a int) state.AccountState {
		pause()
		return ctx.GetAccountState(acctID(a))
	}
	bal := func(as state.AccountState) int64 { return as.GetBalance().Int64() }
	var obs []int64
	fails := b.bc.Txs[t.idx].fails()
	limit := len(b.bc.Txs[t.idx].Prog)
	if attempt < len(fails) {
		limit = fails[attempt]
	}
	for i := 0; i < limit; i++ {
		in := &b.bc.Txs[t.idx].Prog[i]
		if in.Guard {
			if bal(get(in.GA)) < in.GK {
				continue
			}
		}
		switch in.Op {
		case "read":
			obs = append(obs, bal(get(in.A)))
		case "touch":
			get(in.A)
		case "add":
			as := get(in.A)
			as.SetBalance(big.NewInt(bal(as) + in.K))
		case "set":
			as := get(in.A)
			as.SetBalance(big.NewInt(in.K))
		case "xfer":
			as := get(in.A)
			va := bal(as)
			if va >= in.K {
				as.SetBalance(big.NewInt(va - in.K))
				bs := get(in.B)
				bs.SetBalance(big.NewInt(bal(bs) + in.K))
				obs = append(obs, 1)
			} else {
				obs = append(obs, 0)
			}
		}
	}
	pause() // before returning (the worker commits right after, or resets and retries)
	if attempt < len(fails) {
		if attempt%2 == 0 {
			return nil, errors.ExecutionFailError.New("scripted failure of an attempt")
		}
		return nil, errors.CriticalRerunError.New("scripted failure of an attempt")
	}
	t.obs = obs
	r := txresult.NewReceipt(ctx.Database(), ctx.Revision(), t.to)
	r.SetResult(module.StatusSuccess, big.NewInt(obsDigest(obs)), big.NewInt(0), nil)
	t.exited.Store(true)
	if b.ctl != nil {
		b.ctl.notify()
	}
	return r, nil
}

func (h *hh) Dispose() {}

// the receipt carries a digest of what the program observed (stepUsed)
func obsDigest(obs []int64) int64 {
	x := uint64(1469598103934665603)
	for _, v := range obs {
		x ^= uint64(v)
		x *= 1099511628211
	}
	x ^= uint64(len(obs))
	return int64(x & 0x3fffffffffffffff)
}

// transaction list
type txList struct {
	module.TransactionList // nil; only Iterator/Get are used
	txs                    []*htx
}
type txIter struct {
	l *txList
	i int
}

func (l *txList) Iterator() module.TransactionIterator { return &txIter{l: l} }
func (l *txList) Get(i int) (module.Transaction, error) {
	if i < 0 || i >= len(l.txs) {
		return nil, errors.NotFoundError.New("no tx")
	}
	return l.txs[i], nil
}
func (it *txIter) Has() bool   { return it.i < len(it.l.txs) }
func (it *txIter) Next() error { it.i++; return nil }
func (it *txIter) Get() (module.Transaction, int, error) {
	if !it.Has() {
		return nil, 0, errors.InvalidStateError.New("end of list")
	}
	return it.l.txs[it.i], it.i, nil
}

type plt struct{ base.Platform }

func (p *plt) OnTransactionEnd(wc state.WorldContext, l log.Logger, rct txresult.Receipt) error {
	return nil
}

type chain struct {
	module.Chain
	level int
}

func (c *chain) ConcurrencyLevel() int { return c.level }

// ---------------------------------------------------------------------------
// one block execution
// ---------------------------------------------------------------------------

type observation struct {
	Err      string
	Panic    string
	Deadlock string
	Final    []int64   // balances of accounts 0..NA-1 and the system account
	Hash     string    // WorldSnapshot.StateHash
	Rcts     []string  // receipt bytes, hex
	Obs      [][]int64 // what each program read
}

var quietLogger log.Logger

func logger() log.Logger {
	if quietLogger == nil {
		l := log.New()
		l.SetOutput(io.Discard)
		l.SetLevel(log.PanicLevel)
		l.SetConsoleLevel(log.PanicLevel)
		quietLogger = l
	}
	return quietLogger
}

const (
	watchdog   = 8 * time.Second
	quiescence = 400 * time.Microsecond
	// generation stops after this many oracle failures (each hang costs a watchdog period)
	maxFailures = 6
)

const worldReadTag = "block with a world read lock: "

var failures int // oracle failures so far, not counting the known world-read-lock finding

func committed(t *htx) bool {
	p := t.wvs.Load()
	return p != nil && state.VerifC09Committed(*p)
}

// drive the gates according to the schedule; returns a non-empty string if the
// block did not make progress within the watchdog time
func drive(b *block, blockDone func() bool) string {
	c := b.ctl
	bc := b.bc
	sc := bc.Sched
	n := len(b.txs)
	deadline := time.Now().Add(watchdog)
	allExited := func(m int) bool {
		for i := 0; i < m; i++ {
			if !b.txs[i].exited.Load() {
				return false
			}
		}
		return true
	}
	switch sc.Kind {
	case "free":
		if !c.waitFor(blockDone, deadline) {
			return "block did not return (all gates open)"
		}
		return ""
	case "serial":
		// a worker runs freely from its spawn to its first gate: GetSnapshot (a world locker
		// waits there for every predecessor) and UpdateSystemInfo (waits for the last writer of
		// the system account).  startReady: that prefix can complete now.
		startReady := func(k int) bool {
			t := &bc.Txs[k]
			pred := worldLock(t) != 0
			// a spawned world locker behind k holds k's mutex (through Realize) until
			// every transaction before k has committed
			for j := k + 1; j < int(b.prepared.Load()); j++ {
				if worldLock(&bc.Txs[j]) != 0 && !committed(b.txs[j]) {
					pred = true
				}
			}
			if pred {
				for i := 0; i < k; i++ {
					if !committed(b.txs[i]) {
						return false
					}
				}
			}
			if hasEntry(t, SYS) {
				for i := k - 1; i >= 0; i-- {
					if effWriter(&bc.Txs[i], SYS) {
						return committed(b.txs[i])
					}
				}
			}
			return true
		}
		settle := func() bool {
			return c.waitFor(func() bool {
				if blockDone() {
					return true
				}
				m := int(b.prepared.Load())
				for k := 0; k < m; k++ {
					t := b.txs[k]
					if !t.reached.Load() && !t.exited.Load() && startReady(k) {
						return false
					}
				}
				return true
			}, deadline)
		}
		runToCommit := func(k int) string {
			t := b.txs[k]
			for !t.exited.Load() {
				if !c.waitFor(func() bool { return c.isParked(k) || t.exited.Load() || blockDone() }, deadline) {
					return fmt.Sprintf("transaction %d never reached its next access although every transaction it depends on has committed", k)
				}
				if blockDone() {
					return ""
				}
				c.release(k)
			}
			if !c.waitFor(func() bool { return committed(t) || blockDone() }, deadline) {
				return fmt.Sprintf("transaction %d finished but its virtual state never committed", k)
			}
			if !settle() {
				return "a worker whose predecessors have all committed never reached its first access"
			}
			return ""
		}
		if n == 0 {
			c.waitFor(blockDone, deadline)
			return ""
		}
		if !c.waitFor(func() bool { return (int(b.prepared.Load()) == n-1 && c.isParked(dispatcher)) || blockDone() }, deadline) {
			return fmt.Sprintf("only %d of %d transactions were dispatched", b.prepared.Load(), n-1)
		}
		if !settle() {
			return "a worker without unfinished predecessors never reached its first access"
		}
		for _, k := range sc.Order {
			if msg := runToCommit(k); msg != "" {
				return msg
			}
		}
		c.release(dispatcher)
		if !c.waitFor(func() bool { return int(b.prepared.Load()) == n || blockDone() }, deadline) {
			return "the last transaction was never dispatched"
		}
		if msg := runToCommit(n - 1); msg != "" {
			return msg
		}
		if !c.waitFor(blockDone, deadline) {
			return "every transaction committed but the block did not return"
		}
		return ""
	}
	// prio / rr / rand
	rank := make([]int, n)
	for i := range rank {
		rank[i] = n + i
	}
	for r, k := range sc.Order {
		if k >= 0 && k < n {
			rank[k] = r
		}
	}
	rnd := rand.New(rand.NewSource(sc.Seed))
	last := -1
	for {
		if blockDone() {
			return ""
		}
		if c.isParked(dispatcher) && allExited(n-1) {
			c.release(dispatcher)
		}
		parked := c.parkedList()
		if len(parked) == 0 {
			if !c.waitFor(func() bool {
				return blockDone() || len(c.parkedList()) > 0 || (c.isParked(dispatcher) && allExited(n-1))
			}, deadline) {
				return "no worker reaches a gate and the block does not return"
			}
			continue
		}
		pick := parked[0]
		switch sc.Kind {
		case "prio":
			for _, k := range parked {
				if rank[k] < rank[pick] {
					pick = k
				}
			}
		case "rr":
			pick = -1
			for _, k := range parked {
				if k > last {
					pick = k
					break
				}
			}
			if pick < 0 {
				pick = parked[0]
			}
			last = pick
		default:
			pick = parked[rnd.Intn(len(parked))]
		}
		t := b.txs[pick]
		c.release(pick)
		q := time.Now().Add(quiescence)
		if q.After(deadline) {
			q = deadline
		}
		c.waitFor(func() bool { return c.isParked(pick) || t.exited.Load() || blockDone() }, q)
		if time.Now().After(deadline) {
			return "watchdog: the block does not finish under the forced schedule"
		}
	}
}

func runBlockLocal(bc0 *blockCase, sequential bool) observation {
	var o observation
	bcCopy := *bc0
	bc := &bcCopy
	dbase := db.NewMapDB()
	ch := &chain{level: bc.Level}
	env := service.VerifC09NewEnv(dbase, ch, &plt{Platform: basic.Platform}, logger(), common.NewBlockInfo(1, 1000))
	b := &block{bc: bc}
	if !sequential {
		b.ctl = newCtl(bc.Sched.Kind == "free")
	}
	for i := range bc.Txs {
		id := make([]byte, 20)
		id[0], id[19] = 0xbb, byte(i)
		b.txs = append(b.txs, &htx{b: b, idx: i, from: common.NewAccountAddress(acctID(0)), to: common.NewAccountAddress(id), id: []byte{0xc9, byte(i >> 8), byte(i)}})
	}
	n := len(bc.Txs)
	l := &txList{txs: b.txs}

	type res struct {
		buf      []txresult.Receipt
		err      error
		panicked string
		final    []int64
		hash     string
	}
	done := make(chan res, 1)
	var finished atomic.Bool
	go func() {
		var r res
		r.panicked = hxlib.Catch(func() {
			ctx, err := env.NewContext()
			if err != nil {
				panic("harness: NewContext: " + err.Error())
			}
			for a := 0; a <= SYS; a++ {
				ctx.GetAccountState(acctID(a)).SetBalance(big.NewInt(bc.Init[a]))
			}
			if sequential {
				r.buf, r.err = env.ExecuteSequential(l, ctx, n)
			} else {
				r.buf, r.err = env.ExecuteConcurrent(bc.Level, l, ctx, n)
			}
			if r.err == nil {
				// what doExecute does next: t.worldSnapshot = ctx.GetSnapshot(); StateHash()
				wss := ctx.GetSnapshot()
				for a := 0; a <= SYS; a++ {
					v := int64(0)
					if as := wss.GetAccountSnapshot(acctID(a)); as != nil {
						v = as.GetBalance().Int64()
					}
					r.final = append(r.final, v)
				}
				r.hash = hex.EncodeToString(wss.StateHash())
			}
		})
		finished.Store(true)
		done <- r
		if b.ctl != nil {
			b.ctl.notify()
		}
	}()
	if !sequential {
		if msg := drive(b, finished.Load); msg != "" {
			o.Deadlock = msg
		}
	}
	var r res
	select {
	case r = <-done:
	case <-time.After(watchdog):
		if o.Deadlock == "" {
			o.Deadlock = "block execution did not return"
		}
	}
	if o.Deadlock != "" {
		if os.Getenv("C09_DEBUG") != "" {
			buf := make([]byte, 1<<20)
			os.Stderr.Write(buf[:runtime.Stack(buf, true)])
		}
		if b.ctl != nil {
			b.ctl.openAll() // let parked goroutines go
		}
		if p := b.panicMsg.Load(); p != nil {
			o.Panic = *p
		}
		return o
	}
	o.Panic = r.panicked
	if p := b.panicMsg.Load(); p != nil {
		o.Panic = *p
	}
	if r.err != nil {
		o.Err = r.err.Error()
		return o
	}
	o.Final, o.Hash = r.final, r.hash
	for i := 0; i < n; i++ {
		if r.buf == nil || i >= len(r.buf) || r.buf[i] == nil {
			o.Rcts = append(o.Rcts, "nil")
		} else {
			o.Rcts = append(o.Rcts, hex.EncodeToString(r.buf[i].Bytes()))
		}
		o.Obs = append(o.Obs, append([]int64{}, b.txs[i].obs...))
	}
	return o
}

// ---------------------------------------------------------------------------
// process isolation: blocks are executed in a child process (`hx-c09 worker`),
// because a panic inside a worker goroutine of executeTxsConcurrent (outside
// Handler.Execute) cannot be recovered and would take the harness down with it.
// A crash of the child is an oracle failure ("panic") of the block it was running.
// ---------------------------------------------------------------------------

type workerReq struct {
	BC  blockCase `json:"bc"`
	Seq bool      `json:"seq"`
}

type tailBuf struct {
	mu  sync.Mutex
	buf []byte
}

func (t *tailBuf) Write(p []byte) (int, error) {
	t.mu.Lock()
	defer t.mu.Unlock()
	t.buf = append(t.buf, p...)
	if len(t.buf) > 1<<16 {
		t.buf = t.buf[:1<<16] // the beginning of a crash report is what matters
	}
	return len(p), nil
}

func (t *tailBuf) String() string {
	t.mu.Lock()
	defer t.mu.Unlock()
	return string(t.buf)
}

type child struct {
	cmd    *exec.Cmd
	in     io.WriteCloser
	out    *bufio.Reader
	stderr *tailBuf
}

var theChild *child

func startChild() (*child, error) {
	exe, err := os.Executable()
	if err != nil {
		return nil, err
	}
	cmd := exec.Command(exe, "worker")
	in, err := cmd.StdinPipe()
	if err != nil {
		return nil, err
	}
	outp, err := cmd.StdoutPipe()
	if err != nil {
		return nil, err
	}
	tb := &tailBuf{}
	cmd.Stderr = tb
	if err := cmd.Start(); err != nil {
		return nil, err
	}
	return &child{cmd: cmd, in: in, out: bufio.NewReaderSize(outp, 1<<20), stderr: tb}, nil
}

func (c *child) kill() {
	c.in.Close()
	c.cmd.Process.Kill()
	c.cmd.Wait()
}

// the lines of a Go crash report that say what happened
func crashSummary(stderr string) string {
	var keep []string
	for _, ln := range strings.Split(stderr, "\n") {
		ln = strings.TrimSpace(ln)
		switch {
		case strings.HasPrefix(ln, "P|"): // goloop log.Panic line: P|time|...|file:line message
			if f := strings.SplitN(ln, "|", 6); len(f) == 6 {
				ln = f[5]
			}
			keep = append(keep, ln)
		case strings.HasPrefix(ln, "panic: (*logrus.Entry)"): // the log.Panic line above says it
		case strings.HasPrefix(ln, "panic:"), strings.HasPrefix(ln, "fatal error:"):
			keep = append(keep, ln)
		case strings.HasPrefix(ln, "github.com/icon-project/goloop/service") && len(keep) > 0 && len(keep) < 5:
			cut := len(ln)
			for _, m := range []string{"(0x", "({", "(..."} {
				if i := strings.Index(ln, m); i > 0 && i < cut {
					cut = i
				}
			}
			keep = append(keep, "at "+strings.TrimPrefix(ln[:cut], "github.com/icon-project/goloop/"))
		}
		if len(keep) >= 5 {
			break
		}
	}
	if len(keep) == 0 {
		return "no crash report"
	}
	return strings.Join(keep, "; ")
}

func runBlock(bc *blockCase, sequential bool) observation {
	if os.Getenv("C09_INPROCESS") != "" {
		return runBlockLocal(bc, sequential)
	}
	if theChild == nil {
		c, err := startChild()
		if err != nil {
			panic("harness: cannot start the worker process: " + err.Error())
		}
		theChild = c
	}
	c := theChild
	req, _ := json.Marshal(workerReq{BC: *bc, Seq: sequential})
	type reply struct {
		line []byte
		err  error
	}
	ch := make(chan reply, 1)
	go func() {
		if _, err := c.in.Write(append(req, '\n')); err != nil {
			ch <- reply{nil, err}
			return
		}
		line, err := c.out.ReadBytes('\n')
		ch <- reply{line, err}
	}()
	var o observation
	select {
	case r := <-ch:
		if r.err == nil && json.Unmarshal(r.line, &o) == nil {
			return o
		}
		// the child died while it was running this block
		c.cmd.Wait()
		theChild = nil
		return observation{Panic: "the process crashed: " + crashSummary(c.stderr.String())}
	case <-time.After(3*watchdog + 5*time.Second):
		c.kill()
		theChild = nil
		return observation{Deadlock: "block execution did not return (worker process killed)"}
	}
}

func workerLoop() {
	in := bufio.NewReaderSize(os.Stdin, 1<<20)
	out := bufio.NewWriter(os.Stdout)
	runtime.GOMAXPROCS(max(4, runtime.NumCPU()))
	for {
		line, err := in.ReadBytes('\n')
		if err != nil {
			return
		}
		var req workerReq
		if json.Unmarshal(line, &req) != nil {
			return
		}
		o := runBlockLocal(&req.BC, req.Seq)
		b, _ := json.Marshal(o)
		out.Write(append(b, '\n'))
		out.Flush()
	}
}

// ---------------------------------------------------------------------------
// the direct oracle: concurrent result == sequential result
// ---------------------------------------------------------------------------

func eqInts(a, b []int64) bool {
	if len(a) != len(b) {
		return false
	}
	for i := range a {
		if a[i] != b[i] {
			return false
		}
	}
	return true
}

func oracle(bc *blockCase, seq, conc observation) string {
	tag := ""
	if hasWorldRead(bc) {
		tag = worldReadTag
	}
	if seq.Panic != "" || seq.Err != "" || seq.Deadlock != "" {
		return "sequential execution failed: " + seq.Panic + seq.Err + seq.Deadlock
	}
	if conc.Panic != "" {
		return tag + "panic during concurrent execution: " + conc.Panic
	}
	if conc.Deadlock != "" {
		return tag + "deadlock: " + conc.Deadlock
	}
	if conc.Err != "" {
		return tag + "concurrent execution returned an error: " + conc.Err
	}
	for i := range bc.Txs {
		if !eqInts(seq.Obs[i], conc.Obs[i]) {
			return fmt.Sprintf("%stransaction %d observed %v under concurrent execution (schedule %s %v) but %v under sequential execution", tag, i, conc.Obs[i], bc.Sched.Kind, bc.Sched.Order, seq.Obs[i])
		}
		if seq.Rcts[i] != conc.Rcts[i] {
			return fmt.Sprintf("%sreceipt %d differs between concurrent and sequential execution", tag, i)
		}
	}
	if !eqInts(seq.Final, conc.Final) {
		return fmt.Sprintf("%sfinal balances %v after concurrent execution (schedule %s %v) but %v after sequential execution", tag, conc.Final, bc.Sched.Kind, bc.Sched.Order, seq.Final)
	}
	if seq.Hash != conc.Hash {
		return tag + "state hash differs between concurrent and sequential execution although the balances agree"
	}
	return ""
}

// ---------------------------------------------------------------------------
// Coq printing
// ---------------------------------------------------------------------------

// model account numbers: 0 = system account, user account i = i+1
func coqAcct(a int) string {
	if a == SYS {
		return "0%nat"
	}
	return fmt.Sprintf("%d%%nat", a+1)
}

func coqBalances(v []int64) string {
	if len(v) != NA+1 {
		return coqZs(v)
	}
	return coqZs(append([]int64{v[SYS]}, v[:NA]...))
}

func coqLock(l lockSpec) string {
	k := "LRead"
	if l.W {
		k = "LWrite"
	}
	if l.ID == WORLD {
		return "(LWorld, " + k + ")"
	}
	return "(LAcct " + coqAcct(l.ID) + ", " + k + ")"
}

func coqSimple(in *instr) string {
	switch in.Op {
	case "read":
		return "SRead " + coqAcct(in.A)
	case "touch":
		return "STouch " + coqAcct(in.A)
	case "add":
		return fmt.Sprintf("SAdd %s %s", coqAcct(in.A), hxlib.CoqZ(in.K))
	case "set":
		return fmt.Sprintf("SSet %s %s", coqAcct(in.A), hxlib.CoqZ(in.K))
	case "xfer":
		return fmt.Sprintf("SXfer %s %s %s", coqAcct(in.A), coqAcct(in.B), hxlib.CoqZ(in.K))
	}
	return "STouch 0%nat"
}

func coqInstr(in *instr) string {
	if in.Guard {
		return fmt.Sprintf("IGuard %s %s (%s)", coqAcct(in.GA), hxlib.CoqZ(in.GK), coqSimple(in))
	}
	return "IDo (" + coqSimple(in) + ")"
}

func coqZs(v []int64) string {
	var s []string
	for _, x := range v {
		s = append(s, hxlib.CoqZ(x))
	}
	return hxlib.CoqList(s)
}

// The transaction as the model sees it: the lock requests as handed to
// ctx.GetFuture and the program (the model itself adds the system read lock of
// worldContext.GetFuture and the UpdateSystemInfo access).
func coqTx(t *txSpec) string {
	var ls, is []string
	for _, l := range t.Locks {
		ls = append(ls, coqLock(l))
	}
	for i := range t.Prog {
		is = append(is, coqInstr(&t.Prog[i]))
	}
	var fs []string
	for _, k := range t.fails() {
		fs = append(fs, hxlib.CoqNat(k))
	}
	return "(" + hxlib.CoqList(ls) + ", " + hxlib.CoqList(is) + ", " + hxlib.CoqList(fs) + ")"
}

func coqCase(bc *blockCase, seq, conc observation, pickSeed int64) string {
	var txs, so, co []string
	for i := range bc.Txs {
		txs = append(txs, coqTx(&bc.Txs[i]))
	}
	for i := range bc.Txs {
		so = append(so, coqZs(seq.Obs[i]))
		co = append(co, coqZs(conc.Obs[i]))
	}
	sched := ""
	if bc.Sched.Kind == "serial" {
		var o []string
		for _, k := range bc.Sched.Order {
			o = append(o, hxlib.CoqNat(k))
		}
		sched = "SSerial " + hxlib.CoqList(o)
	} else {
		sched = fmt.Sprintf("SPicks %d", pickSeed)
	}
	return fmt.Sprintf("(Case %s %s %s (%s) %s %s %s %s)", hxlib.CoqNat(bc.Level), coqBalances(bc.Init), hxlib.CoqList(txs), sched,
		coqBalances(conc.Final), hxlib.CoqList(co), coqBalances(seq.Final), hxlib.CoqList(so))
}

// ---------------------------------------------------------------------------
// generation
// ---------------------------------------------------------------------------

func genInstr(r *rand.Rand, na int, allowSys bool) instr {
	acct := func() int {
		if allowSys && r.Intn(8) == 0 {
			return SYS
		}
		return r.Intn(na)
	}
	var in instr
	switch r.Intn(10) {
	case 0, 1, 2:
		in = instr{Op: "read", A: acct()}
	case 3, 4, 5:
		in = instr{Op: "add", A: acct(), K: int64(1 + r.Intn(9))}
	case 6:
		in = instr{Op: "set", A: acct(), K: int64(r.Intn(50))}
	case 7, 8:
		in = instr{Op: "xfer", A: acct(), B: acct(), K: int64(1 + r.Intn(30))}
	default:
		in = instr{Op: "touch", A: acct()}
	}
	if r.Intn(4) == 0 {
		in.Guard, in.GA, in.GK = true, acct(), int64(r.Intn(40))
	}
	return in
}

// lock requests that cover the program; style 0: exact account locks (reads as
// read locks), 1: everything as write locks (what real handlers do), 2: world
// write lock, 3: world read lock + write locks, 4: exact + unused extra locks
func genLocks(r *rand.Rand, prog []instr, style, na int) []lockSpec {
	rd, wr := map[int]bool{}, map[int]bool{}
	for i := range prog {
		a, b := touches(&prog[i])
		for _, x := range a {
			rd[x] = true
		}
		for _, x := range b {
			wr[x] = true
		}
	}
	var ls []lockSpec
	add := func(id int, w bool) { ls = append(ls, lockSpec{ID: id, W: w}) }
	keys := func(m map[int]bool) []int {
		var k []int
		for x := range m {
			k = append(k, x)
		}
		sort.Ints(k)
		return k
	}
	switch style {
	case 2:
		add(WORLD, true)
		if r.Intn(3) == 0 {
			for _, a := range keys(wr) {
				add(a, true)
			}
		}
	case 3:
		add(WORLD, false)
		for _, a := range keys(wr) {
			add(a, true)
		}
		if r.Intn(2) == 0 {
			for _, a := range keys(rd) {
				add(a, false)
			}
		}
	default:
		for _, a := range keys(rd) {
			if !wr[a] {
				add(a, style == 1)
			}
		}
		for _, a := range keys(wr) {
			add(a, true)
		}
		if style == 4 {
			for k := 0; k < 1+r.Intn(2); k++ {
				add(r.Intn(na), r.Intn(2) == 0)
			}
		}
	}
	r.Shuffle(len(ls), func(i, j int) { ls[i], ls[j] = ls[j], ls[i] })
	return ls
}

// a block in which every transaction locks one hot account; some of them hold a
// write lock on it without ever touching it (a transfer that fails early, a
// guard that is false): their Commit has to publish the predecessor's value
func genHotBlock(r *rand.Rand) *blockCase {
	n := 3 + r.Intn(4)
	bc := &blockCase{Init: make([]int64, NA+1)}
	for a := range bc.Init {
		bc.Init[a] = int64(r.Intn(60))
	}
	hot := r.Intn(2)
	for i := 0; i < n; i++ {
		var prog []instr
		var locks []lockSpec
		switch r.Intn(4) {
		case 0: // idle writer of the hot account
			locks = []lockSpec{{ID: hot, W: true}}
			if r.Intn(2) == 0 {
				other := 2 + r.Intn(2)
				prog = []instr{{Op: "add", A: other, K: int64(1 + r.Intn(5))}}
				locks = append(locks, lockSpec{ID: other, W: true})
			}
		case 1: // reader
			prog = []instr{{Op: "read", A: hot}}
			locks = []lockSpec{{ID: hot, W: r.Intn(3) == 0}}
		default: // writer
			k := 1 + r.Intn(3)
			for j := 0; j < k; j++ {
				switch r.Intn(3) {
				case 0:
					prog = append(prog, instr{Op: "add", A: hot, K: int64(1 + r.Intn(9))})
				case 1:
					prog = append(prog, instr{Op: "xfer", A: hot, B: 1 - hot, K: int64(1 + r.Intn(40))})
				default:
					prog = append(prog, instr{Op: "read", A: hot})
				}
			}
			locks = genLocks(r, prog, 1, 2)
		}
		bc.Txs = append(bc.Txs, txSpec{Locks: locks, Prog: prog, Fails: genFails(r, len(prog), 8)})
	}
	return bc
}

// a block built around the known finding: some transactions, then a world READ
// locker that reads account x, then a writer of x, then a tail.  Account x is
// touched by nobody else, so the writer does not depend on anything the reader
// waits for.
func genWorldReadTarget(r *rand.Rand) *blockCase {
	bc := &blockCase{Init: make([]int64, NA+1)}
	for a := range bc.Init {
		bc.Init[a] = int64(r.Intn(60))
	}
	x := NA - 1
	na := 2 + r.Intn(3) // the other transactions use accounts 0..na-1 (< x)
	plain := func() txSpec {
		var prog []instr
		for j := 0; j < r.Intn(4); j++ {
			prog = append(prog, genInstr(r, na, false))
		}
		return txSpec{Locks: genLocks(r, prog, []int{0, 1, 1, 4}[r.Intn(4)], na), Prog: prog}
	}
	for i := 0; i < 1+r.Intn(3); i++ {
		bc.Txs = append(bc.Txs, plain())
	}
	rd := []instr{{Op: "read", A: x}}
	for j := 0; j < r.Intn(3); j++ {
		rd = append(rd, instr{Op: "read", A: r.Intn(na)})
	}
	r.Shuffle(len(rd), func(i, j int) { rd[i], rd[j] = rd[j], rd[i] })
	bc.Txs = append(bc.Txs, txSpec{Locks: []lockSpec{{ID: WORLD}}, Prog: rd})
	bc.Txs = append(bc.Txs, txSpec{Locks: []lockSpec{{ID: x, W: true}}, Prog: []instr{{Op: "add", A: x, K: int64(1 + r.Intn(9))}}})
	for i := 0; i < 1+r.Intn(2); i++ {
		bc.Txs = append(bc.Txs, plain())
	}
	return bc
}

// failing first attempts: with probability 1/oneIn one or two of them, each running a prefix
// of the program (often all of it) before it fails
func genFails(r *rand.Rand, n, oneIn int) []int {
	if r.Intn(oneIn) != 0 {
		return nil
	}
	var f []int
	for k := 0; k < 1+r.Intn(2); k++ {
		if r.Intn(2) == 0 {
			f = append(f, n)
		} else {
			f = append(f, r.Intn(n+1))
		}
	}
	return f
}

// a block whose LAST transaction is retried after a reset; the transaction before
// it often holds the world write lock (then the last virtual state is created from a
// committed parent: base != nil), and the accounts are often empty
func genRetryBlock(r *rand.Rand) *blockCase {
	bc := &blockCase{Init: make([]int64, NA+1)}
	for a := range bc.Init {
		if r.Intn(2) == 0 {
			bc.Init[a] = int64(r.Intn(40))
		}
	}
	na := 3
	mk := func(style int) txSpec {
		var prog []instr
		for j := 0; j < 1+r.Intn(3); j++ {
			prog = append(prog, genInstr(r, na, false))
		}
		return txSpec{Locks: genLocks(r, prog, style, na), Prog: prog}
	}
	for i := 0; i < r.Intn(3); i++ {
		bc.Txs = append(bc.Txs, mk([]int{0, 1, 4}[r.Intn(3)]))
	}
	bc.Txs = append(bc.Txs, mk([]int{2, 2, 1}[r.Intn(3)]))
	last := mk([]int{0, 1, 1, 4}[r.Intn(4)])
	last.Fails = genFails(r, len(last.Prog), 1)
	bc.Txs = append(bc.Txs, last)
	return bc
}

func genBlock(r *rand.Rand, worldRead bool) *blockCase {
	if !worldRead && r.Intn(4) == 0 {
		return genHotBlock(r)
	}
	if worldRead && r.Intn(3) == 0 {
		return genWorldReadTarget(r)
	}
	na := 2 + r.Intn(NA-1) // 2..6 accounts in use
	n := 2 + r.Intn(6)     // 2..7 transactions
	bc := &blockCase{Init: make([]int64, NA+1)}
	for a := range bc.Init {
		bc.Init[a] = int64(r.Intn(60))
		if r.Intn(5) == 0 {
			bc.Init[a] = 0 // an account that does not exist yet
		}
	}
	for i := 0; i < n; i++ {
		k := r.Intn(5)
		if r.Intn(6) == 0 {
			k = 0
		}
		style := []int{0, 0, 1, 1, 1, 4, 2}[r.Intn(7)]
		if worldRead && r.Intn(3) == 0 {
			style = 3
		}
		var prog []instr
		for j := 0; j < k; j++ {
			prog = append(prog, genInstr(r, na, true))
		}
		tx := txSpec{Locks: genLocks(r, prog, style, na), Prog: prog}
		if !worldRead {
			tx.Ensure = r.Intn(6) == 0
			tx.Fails = genFails(r, len(prog), 8)
		}
		bc.Txs = append(bc.Txs, tx)
	}
	if worldRead {
		// make sure there is one
		has := false
		for i := range bc.Txs {
			if worldLock(&bc.Txs[i]) == 1 {
				has = true
			}
		}
		if !has {
			i := r.Intn(n)
			bc.Txs[i].Locks = genLocks(r, bc.Txs[i].Prog, 3, na)
		}
		// often: the world reader reads an account that a LATER transaction (not the last
		// one, which is dispatched at the end) writes; under a latest-first serial order the
		// reader then observes the later write (the known finding) and the model must agree
		if n >= 3 && r.Intn(2) == 0 {
			for k := 0; k <= n-3; k++ {
				if worldLock(&bc.Txs[k]) != 1 {
					continue
				}
				j := k + 1 + r.Intn(n-2-k)
				x := r.Intn(na)
				bc.Txs[k].Prog = append(bc.Txs[k].Prog, instr{Op: "read", A: x})
				if worldLock(&bc.Txs[j]) == 0 {
					bc.Txs[j].Locks = append(bc.Txs[j].Locks, lockSpec{ID: x, W: true})
				}
				if canWrite(&bc.Txs[j], x) {
					bc.Txs[j].Prog = append(bc.Txs[j].Prog, instr{Op: "add", A: x, K: int64(1 + r.Intn(9))})
				}
				break
			}
		}
	}
	return bc
}

func caseKey(bc *blockCase) string {
	b, _ := json.Marshal(bc)
	return string(b)
}

// non-trivial: two transactions conflict on an account (one of them writes it)
func nontrivial(bc *blockCase) bool {
	deps := dependencies(bc)
	for _, d := range deps {
		if len(d) > 0 {
			return true
		}
	}
	return false
}

type seqCache struct {
	key string
	o   observation
}

func emit(c *hxlib.Ctx, kind string, bc *blockCase, r *rand.Rand, sc *seqCache) string {
	for i := range bc.Txs {
		if !wellDeclared(&bc.Txs[i]) {
			panic(fmt.Sprintf("harness: generated program %d touches an account it did not declare", i))
		}
	}
	pk, _ := json.Marshal(struct {
		I []int64
		T []txSpec
	}{bc.Init, bc.Txs})
	if sc.key != string(pk) {
		sc.key, sc.o = string(pk), runBlock(bc, true)
	}
	seq := sc.o
	conc := runBlock(bc, false)
	msg := oracle(bc, seq, conc)
	cs := hxlib.Case{Kind: kind, Input: *bc, Nontrivial: nontrivial(bc), OracleErr: msg, Key: caseKey(bc)}
	if !c.OracleOnly && conc.Deadlock == "" && conc.Panic == "" && conc.Err == "" && seq.Err == "" && seq.Panic == "" {
		cs.Coq = coqCase(bc, seq, conc, r.Int63n(1<<31))
	}
	c.Emit(cs)
	if msg != "" && !strings.HasPrefix(msg, worldReadTag) {
		failures++
	}
	return msg
}

func reverse(l []int) []int {
	o := make([]int, len(l))
	for i, x := range l {
		o[len(l)-1-i] = x
	}
	return o
}

func identity(n int) []int {
	o := make([]int, n)
	for i := range o {
		o[i] = i
	}
	return o
}

// the forced schedules tried on one program
func schedules(r *rand.Rand, bc *blockCase, count int) []blockCase {
	n := len(bc.Txs)
	var out []blockCase
	seen := map[string]bool{}
	tries := 0
	add := func(level int, s schedSpec) {
		tries++
		k := fmt.Sprint(s.Kind, s.Order, s.Hold)
		if s.Kind == "serial" || s.Kind == "prio" {
			if seen[k] {
				return
			}
			seen[k] = true
		}
		b := *bc
		b.Level, b.Sched = level, s
		if s.Kind == "serial" {
			// Ensure would block the dispatching goroutine before everything is dispatched
			b.Txs = append([]txSpec(nil), bc.Txs...)
			for i := range b.Txs {
				b.Txs[i].Ensure = false
			}
		}
		out = append(out, b)
	}
	lv := func() int { return 2 + r.Intn(7) }
	full := n
	if full < 2 {
		full = 2
	}
	hold := func() bool { return r.Intn(4) > 0 }
	wr := hasWorldRead(bc)
	// deterministic serial orders of the first n-1 transactions (the last one runs last):
	// latest-first and earliest-first linear extensions of the dependency order, random ones
	add(full, schedSpec{Kind: "serial", Order: linearExtension(bc, n-1, func(rd []int) int { return len(rd) - 1 })})
	if wr {
		// with a world read lock the outcome depends on the schedule (see notes): only the
		// deterministic serial schedules are used
		add(full, schedSpec{Kind: "serial", Order: linearExtension(bc, n-1, func(rd []int) int { return 0 })})
		for len(out) < count && tries < 4*count {
			add(full, schedSpec{Kind: "serial", Order: linearExtension(bc, n-1, func(rd []int) int { return r.Intn(len(rd)) })})
		}
		return out
	}
	add(lv(), schedSpec{Kind: "prio", Order: reverse(identity(n)), Hold: true}) // reverse block order at access granularity
	add(lv(), schedSpec{Kind: "prio", Order: identity(n), Hold: hold()})        // one at a time, block order
	if count > 3 {
		add(lv(), schedSpec{Kind: "free", Seed: r.Int63n(1 << 40)}) // all at once
	}
	if count > 4 {
		add(lv(), schedSpec{Kind: "rr", Hold: hold()})
	}
	if count > 5 {
		if r.Intn(2) == 0 {
			add(lv(), schedSpec{Kind: "rand", Seed: r.Int63n(1 << 40), Hold: hold()})
		} else {
			add(lv(), schedSpec{Kind: "prio", Order: r.Perm(n), Hold: hold()})
		}
	}
	return out
}

func corpusDir() string {
	if d := os.Getenv("VERIF_CORPUS"); d != "" {
		return d
	}
	if exe, err := os.Executable(); err == nil {
		d := filepath.Dir(exe)
		for i := 0; i < 5; i++ {
			if st, err := os.Stat(filepath.Join(d, "corpus", "C09")); err == nil && st.IsDir() {
				return filepath.Join(d, "corpus", "C09")
			}
			d = filepath.Dir(d)
		}
	}
	return "/verif/corpus/C09"
}

// the witness of Proofs_VirtualState.world_read_refuted: T0 adds to account 0,
// T1 holds the world read lock and reads account 1, T2 adds to account 1;
// T2 runs before T0 commits.
func witnessWorldRead() *blockCase {
	return &blockCase{
		Level: 4,
		Init:  []int64{5, 7, 0, 0, 0, 0, 0},
		Txs: []txSpec{
			{Locks: []lockSpec{{0, true}}, Prog: []instr{{Op: "add", A: 0, K: 1}}},
			{Locks: []lockSpec{{WORLD, false}}, Prog: []instr{{Op: "read", A: 1}}},
			{Locks: []lockSpec{{1, true}}, Prog: []instr{{Op: "add", A: 1, K: 3}}},
			{Locks: []lockSpec{{2, false}}, Prog: []instr{{Op: "read", A: 2}}},
		},
		Sched: schedSpec{Kind: "serial", Order: []int{2, 0, 1}},
	}
}

func gen(c *hxlib.Ctx) {
	r := c.Rand
	runtime.GOMAXPROCS(max(4, runtime.NumCPU()))
	var sc seqCache

	// (0) corpus of past failures first
	files, _ := filepath.Glob(filepath.Join(corpusDir(), "*.json"))
	sort.Strings(files)
	for _, f := range files {
		raw, err := os.ReadFile(f)
		if err != nil {
			continue
		}
		var doc struct {
			Input json.RawMessage `json:"input"`
		}
		var bc blockCase
		if json.Unmarshal(raw, &doc) != nil || doc.Input == nil || json.Unmarshal(doc.Input, &bc) != nil || !validCase(&bc) {
			c.Note("corpus file %s unreadable", f)
			continue
		}
		emit(c, "corpus", &bc, r, &sc)
	}
	c.Note("corpus: %d file(s) from %s", len(files), corpusDir())

	// (1) the world-read-lock witness of the Coq refutation, replayed on the real code
	emit(c, "world-read/witness", witnessWorldRead(), r, &sc)

	// (2) random programs x forced schedules
	for i := 0; i < c.N(170) && failures < maxFailures; i++ {
		bc := genBlock(r, false)
		for _, b := range schedules(r, bc, 3+r.Intn(4)) {
			b := b
			emit(c, "random/"+b.Sched.Kind, &b, r, &sc)
		}
	}
	// (2b) retried transactions behind a world writer
	for i := 0; i < c.N(12) && failures < maxFailures; i++ {
		bc := genRetryBlock(r)
		for _, b := range schedules(r, bc, 3) {
			b := b
			emit(c, "retry/"+b.Sched.Kind, &b, r, &sc)
		}
	}
	// (3) programs with a world read lock (requested by no handler in the tree), serial schedules only
	for i := 0; i < c.N(30) && failures < maxFailures; i++ {
		bc := genBlock(r, true)
		for _, b := range schedules(r, bc, 3) {
			b := b
			emit(c, "world-read/serial", &b, r, &sc)
		}
	}
	if failures >= maxFailures {
		c.Note("generation stopped after %d oracle failures", failures)
	}
	// canaries: wrong observations the model must flag
	if !c.OracleOnly {
		bc := &blockCase{Level: 2, Init: []int64{5, 7, 0, 0, 0, 0, 0}, Txs: []txSpec{
			{Locks: []lockSpec{{0, true}}, Prog: []instr{{Op: "add", A: 0, K: 1}}},
			{Locks: []lockSpec{{0, false}}, Prog: []instr{{Op: "read", A: 0}}},
		}, Sched: schedSpec{Kind: "serial", Order: []int{0, 1}}}
		good := observation{Final: []int64{6, 7, 0, 0, 0, 0, 0}, Obs: [][]int64{{}, {6}}}
		stale := observation{Final: []int64{6, 7, 0, 0, 0, 0, 0}, Obs: [][]int64{{}, {5}}} // the reader saw the value before the earlier writer
		lost := observation{Final: []int64{5, 7, 0, 0, 0, 0, 0}, Obs: [][]int64{{}, {6}}}  // the write was lost
		c.Emit(hxlib.Case{Kind: "canary", Canary: true, Coq: coqCase(bc, good, stale, 0)})
		c.Emit(hxlib.Case{Kind: "canary", Canary: true, Coq: coqCase(bc, good, lost, 0)})
	}
}

func validCase(bc *blockCase) bool {
	if len(bc.Init) != NA+1 || bc.Level < 1 {
		return false
	}
	for i := range bc.Txs {
		if !wellDeclared(&bc.Txs[i]) {
			return false
		}
	}
	return true
}

func replay(raw json.RawMessage) string {
	var bc blockCase
	if err := json.Unmarshal(raw, &bc); err != nil {
		return "bad replay input: " + err.Error()
	}
	if !validCase(&bc) {
		return "bad replay input: malformed case"
	}
	seq := runBlock(&bc, true)
	reps := 10
	if bc.Sched.Kind == "serial" {
		reps = 2
	}
	for k := 0; k < reps; k++ {
		b := bc
		b.Sched.Seed = bc.Sched.Seed + int64(k)*7919
		if msg := oracle(&b, seq, runBlock(&b, false)); msg != "" {
			return msg
		}
	}
	return ""
}

func main() {
	if len(os.Args) > 1 && os.Args[1] == "worker" {
		workerLoop()
		return
	}
	hxlib.Main(hxlib.Spec{
		ID:       "C09",
		Preamble: "From Goloop Require Import Model_VirtualState.\nFrom GoloopRun Require Import Run_C09.",
		Rule: "blocks of 2..7 scripted transactions over <= 6 accounts + the system account; a transaction = lock requests declared through ctx.GetFuture in Prepare " +
			"(exact read/write locks, all-write locks as the real handlers do, unused extra locks, world write lock, world read lock; optionally Ensure() in Prepare) + a program of 0..4 instructions " +
			"(read / add / blind set / conditional transfer / touch, optionally guarded by a balance test; optionally a failing first attempt that is reset and retried) run against the WorldContext; " +
			"generators: random blocks, blocks around one hot account with idle write lockers, blocks around a world read locker whose account a later transaction writes; " +
			"each block is executed by the real executeTxsSequential and by the real executeTxsConcurrent (level 2..8) under 3..6 forced schedules " +
			"(handlers park on gates before every account access and before returning; the dispatching goroutine can be parked before the last GetFuture): " +
			"deterministic serial orders (latest-first / earliest-first / random linear extensions of the dependency order), reverse-block-order priority, block-order priority, random priority, " +
			"round robin, random, all gates open; blocks with a world read lock use serial orders only and the model follows the same schedule; " +
			"non-trivial = some transaction depends on the commit of an earlier one; distinct = distinct (level, balances, transactions, schedule)",
		Gen: gen, Replay: replay,
	})
}
