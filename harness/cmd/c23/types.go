package main

import (
	"fmt"
	"math/big"
	"math/rand"
	"reflect"
	"sort"
	"strings"

	"github.com/icon-project/goloop/common"
	"github.com/icon-project/goloop/common/codec"
	"verif/harness/hxlib"
)

// ---------------------------------------------------------------------------
// Go types of the fixed universe.  Every type is mirrored by a universe code of
// Model_Rlp.v (function tyOf): the mapping replays the reflection decisions of
// codec.go (exported fields in order, embedded structs flattened, byte slices and
// byte arrays as strings, custom encoders by interface).
// ---------------------------------------------------------------------------

// a type with MarshalRLP/UnmarshalRLP: one raw RLP item
type RawT struct{ B []byte }

func (r *RawT) MarshalRLP() ([]byte, error) { return r.B, nil }
func (r *RawT) UnmarshalRLP(b []byte) error {
	r.B = append([]byte{}, b...)
	return nil
}

type InnerS struct {
	A int16
	B string
	C []byte
}

// EncodeSelfer/DecodeSelfer around one inner value (the pattern of common.HexInt16 …)
type SelfS struct{ In InnerS }

func (s *SelfS) RLPEncodeSelf(e codec.Encoder) error { return e.Encode(&s.In) }
func (s *SelfS) RLPDecodeSelf(d codec.Decoder) error { return d.Decode(&s.In) }

type SelfL struct{ In []int16 }

func (s *SelfL) RLPEncodeSelf(e codec.Encoder) error { return e.Encode(&s.In) }
func (s *SelfL) RLPDecodeSelf(d codec.Decoder) error { return d.Decode(&s.In) }

type SA struct {
	U uint32
	S string
	B []byte
	P *int64
}
type SB struct {
	SA // embedded: flattened
	Xs []SA
	M  map[string]int32
	hidden int // unexported: skipped
	Z  bool
}
type S1 struct{ A int }
type S2 struct {
	A int8
	B [2]byte
}
type SHex struct {
	I16 common.HexInt16
	U32 common.HexUint32
	I64 common.HexInt64
	U64 common.HexUint64
	Ok  common.HexBool
	V   common.HexInt
	PV  *common.HexInt
	Big big.Int
	PB  *big.Int
}
type SPend struct { // a pointer to a struct followed by a DecodeSelfer
	P *S1
	H common.HexInt16
	Q *S2
	G common.HexBool
}
type SNest struct {
	K string
	V []S2
	W *SNest0
}
type SNest0 struct {
	L [][]byte
	N [3]uint16
}
type SRaw struct {
	R RawT
	N int32
	L []RawT
}
type SOpt struct { // optional trailing fields
	A uint8
	B *S1
	C []string
	D map[int16]string
	E string
}
type SSelf struct {
	X SelfS
	Y SelfL
	Z *SelfS
	T uint16
}
type SMaps struct {
	A map[string][]byte
	B map[uint32]*big.Int
	C map[int8]S2
	D map[string]map[string][]int16
	E map[uint64]*SA
}

type target struct {
	name string
	rt   reflect.Type
}

func tg(name string, v interface{}) target { return target{name, reflect.TypeOf(v).Elem()} }

var targets = []target{
	tg("uint8", new(uint8)), tg("uint16", new(uint16)), tg("uint32", new(uint32)),
	tg("uint64", new(uint64)), tg("uint", new(uint)),
	tg("int8", new(int8)), tg("int16", new(int16)), tg("int32", new(int32)),
	tg("int64", new(int64)), tg("int", new(int)),
	tg("bool", new(bool)), tg("string", new(string)), tg("bytes", new([]byte)),
	tg("[4]byte", new([4]byte)), tg("[1]byte", new([1]byte)),
	tg("big.Int", new(big.Int)), tg("*big.Int", new(*big.Int)),
	tg("HexInt", new(common.HexInt)), tg("*HexInt", new(*common.HexInt)),
	tg("HexInt16", new(common.HexInt16)), tg("HexUint64", new(common.HexUint64)),
	tg("HexBool", new(common.HexBool)),
	tg("RawT", new(RawT)), tg("[]RawT", new([]RawT)), tg("*RawT", new(*RawT)),
	tg("[]int16", new([]int16)), tg("[]string", new([]string)), tg("[][]byte", new([][]byte)),
	tg("[]uint64", new([]uint64)), tg("[]bool", new([]bool)),
	tg("[3]uint16", new([3]uint16)), tg("[2][]byte", new([2][]byte)), tg("[2]S2", new([2]S2)),
	tg("SA", new(SA)), tg("*SA", new(*SA)), tg("SB", new(SB)), tg("S1", new(S1)), tg("*S1", new(*S1)),
	tg("S2", new(S2)), tg("SHex", new(SHex)), tg("SPend", new(SPend)), tg("*SPend", new(*SPend)),
	tg("SNest", new(SNest)), tg("[]*SNest", new([]*SNest)),
	tg("SRaw", new(SRaw)), tg("SOpt", new(SOpt)), tg("[]SOpt", new([]SOpt)),
	tg("SSelf", new(SSelf)), tg("SelfS", new(SelfS)), tg("SelfL", new(SelfL)),
	tg("SMaps", new(SMaps)),
	tg("map[string][]byte", new(map[string][]byte)), tg("map[int16]string", new(map[int16]string)),
	tg("map[uint32]*big.Int", new(map[uint32]*big.Int)), tg("map[string]S2", new(map[string]S2)),
	tg("map[string]*S1", new(map[string]*S1)),
	tg("**int", new(**int)), tg("*[]byte", new(*[]byte)), tg("*[]string", new(*[]string)),
	tg("**[]int8", new(**[]int8)), tg("*map[string]int", new(*map[string]int)),
	tg("[]*S1", new([]*S1)), tg("[]*int32", new([]*int32)),
}

var targetByName = map[string]target{}

func init() {
	for _, t := range targets {
		targetByName[t.name] = t
	}
}

// ---------------------------------------------------------------------------
// custom types
// ---------------------------------------------------------------------------

type custom struct {
	ty      func() string
	absorbs bool
	nilv    string
	val     func(rv reflect.Value, canon bool) string
	gen     func(r *rand.Rand, rv reflect.Value, depth int)
}

var customs map[reflect.Type]*custom

func addr(rv reflect.Value) reflect.Value {
	if rv.CanAddr() {
		return rv.Addr()
	}
	p := reflect.New(rv.Type())
	p.Elem().Set(rv)
	return p
}

func selfInt(w int, signed bool) *custom {
	return &custom{
		ty: func() string {
			if signed {
				return fmt.Sprintf("(TSelf (TInt %d))", w)
			}
			return fmt.Sprintf("(TSelf (TUint %d))", w)
		},
		val: func(rv reflect.Value, _ bool) string {
			f := rv.FieldByName("Value")
			if signed {
				return fmt.Sprintf("(VInt %s)", hxlib.CoqZ(f.Int()))
			}
			return fmt.Sprintf("(VUint %d)", f.Uint())
		},
		gen: func(r *rand.Rand, rv reflect.Value, _ int) {
			f := rv.FieldByName("Value")
			if signed {
				f.SetInt(genInt(r, w))
			} else {
				f.SetUint(genUint(r, w))
			}
		},
	}
}

func bigVal(b *big.Int) string { return fmt.Sprintf("(VBig (%s)%%Z)", b.String()) }

func init() {
	customs = map[reflect.Type]*custom{
		reflect.TypeOf(big.Int{}): {
			ty:  func() string { return "TBig" },
			val: func(rv reflect.Value, _ bool) string { return bigVal(addr(rv).Interface().(*big.Int)) },
			gen: func(r *rand.Rand, rv reflect.Value, _ int) { rv.Addr().Interface().(*big.Int).Set(genBig(r)) },
		},
		reflect.TypeOf(common.HexInt{}): {
			ty:  func() string { return "TBig" },
			val: func(rv reflect.Value, _ bool) string { return bigVal(&addr(rv).Interface().(*common.HexInt).Int) },
			gen: func(r *rand.Rand, rv reflect.Value, _ int) { rv.Addr().Interface().(*common.HexInt).Int.Set(genBig(r)) },
		},
		reflect.TypeOf(common.HexInt16{}):  selfInt(16, true),
		reflect.TypeOf(common.HexInt32{}):  selfInt(32, true),
		reflect.TypeOf(common.HexInt64{}):  selfInt(64, true),
		reflect.TypeOf(common.HexUint16{}): selfInt(16, false),
		reflect.TypeOf(common.HexUint32{}): selfInt(32, false),
		reflect.TypeOf(common.HexUint64{}): selfInt(64, false),
		reflect.TypeOf(common.HexBool{}): {
			ty:  func() string { return "(TSelf TBool)" },
			val: func(rv reflect.Value, _ bool) string { return fmt.Sprintf("(VBool %v)", rv.FieldByName("Value").Bool()) },
			gen: func(r *rand.Rand, rv reflect.Value, _ int) { rv.FieldByName("Value").SetBool(r.Intn(2) == 0) },
		},
		reflect.TypeOf(RawT{}): {
			ty:      func() string { return "TRaw" },
			absorbs: true, nilv: "(VRaw [248;0])", // ReadRaw hands the nil marker to UnmarshalRLP
			val: func(rv reflect.Value, _ bool) string { return fmt.Sprintf("(VRaw %s)", coqBytes(rv.FieldByName("B").Bytes())) },
			gen: func(r *rand.Rand, rv reflect.Value, _ int) { rv.FieldByName("B").SetBytes(genRawItem(r)) },
		},
		reflect.TypeOf(SelfS{}): {
			ty:  func() string { return "(TSelf " + tyOf(reflect.TypeOf(InnerS{})) + ")" },
			val: func(rv reflect.Value, c bool) string { return valOf(rv.FieldByName("In"), c) },
			gen: func(r *rand.Rand, rv reflect.Value, d int) { genValue(r, rv.FieldByName("In"), d) },
		},
		reflect.TypeOf(SelfL{}): {
			ty:      func() string { return "(TSelf " + tyOf(reflect.TypeOf([]int16{})) + ")" },
			absorbs: true, nilv: "(VList None)",
			val: func(rv reflect.Value, c bool) string { return valOf(rv.FieldByName("In"), c) },
			gen: func(r *rand.Rand, rv reflect.Value, d int) { genValue(r, rv.FieldByName("In"), d) },
		},
	}
}

// ---------------------------------------------------------------------------
// Go type -> universe code
// ---------------------------------------------------------------------------

func isByte(rt reflect.Type) bool { return rt.Kind() == reflect.Uint8 }

// fields visited by encodeRecursiveFields/decodeRecursiveFields (on an addressable value)
func visitFields(rv reflect.Value, f func(fv reflect.Value)) {
	rt := rv.Type()
	for i := 0; i < rv.NumField(); i++ {
		fv := rv.Field(i)
		ft := rt.Field(i)
		if ft.Anonymous && ft.Type.Kind() == reflect.Interface {
			continue
		}
		if ft.Anonymous && ft.Type.Kind() == reflect.Struct {
			visitFields(fv, f)
			continue
		}
		if !fv.CanInterface() {
			continue
		}
		f(fv)
	}
}

func tyOf(rt reflect.Type) string {
	if c, ok := customs[rt]; ok {
		return c.ty()
	}
	switch rt.Kind() {
	case reflect.Uint8:
		return "(TUint 8)"
	case reflect.Uint16:
		return "(TUint 16)"
	case reflect.Uint32:
		return "(TUint 32)"
	case reflect.Uint64, reflect.Uint:
		return "(TUint 64)"
	case reflect.Int8:
		return "(TInt 8)"
	case reflect.Int16:
		return "(TInt 16)"
	case reflect.Int32:
		return "(TInt 32)"
	case reflect.Int64, reflect.Int:
		return "(TInt 64)"
	case reflect.Bool:
		return "TBool"
	case reflect.String:
		return "TString"
	case reflect.Slice:
		if isByte(rt.Elem()) {
			return "TBytes"
		}
		return "(TList " + tyOf(rt.Elem()) + ")"
	case reflect.Array:
		if isByte(rt.Elem()) {
			return fmt.Sprintf("(TByteArr %d%%nat)", rt.Len())
		}
		return fmt.Sprintf("(TArray %d%%nat %s)", rt.Len(), tyOf(rt.Elem()))
	case reflect.Struct:
		var fs []string
		visitFields(reflect.New(rt).Elem(), func(fv reflect.Value) { fs = append(fs, tyOf(fv.Type())) })
		return "(TStruct [" + strings.Join(fs, "; ") + "])"
	case reflect.Map:
		return "(TMap " + tyOf(rt.Key()) + " " + tyOf(rt.Elem()) + ")"
	case reflect.Ptr:
		return "(TPtr " + tyOf(rt.Elem()) + ")"
	}
	panic("unsupported type " + rt.String())
}

// does decodeValue on this type accept the nil marker itself?
func absorbs(rt reflect.Type) bool {
	if c, ok := customs[rt]; ok {
		return c.absorbs
	}
	switch rt.Kind() {
	case reflect.Slice, reflect.Map, reflect.Ptr:
		return true
	}
	return false
}

func nilOf(rt reflect.Type) string {
	if c, ok := customs[rt]; ok {
		return c.nilv
	}
	switch rt.Kind() {
	case reflect.Slice:
		if isByte(rt.Elem()) {
			return "(VBytes None)"
		}
		return "(VList None)"
	case reflect.Map:
		return "(VMap None)"
	case reflect.Ptr:
		if absorbs(rt.Elem()) {
			return "(VPtr (Some " + nilOf(rt.Elem()) + "))"
		}
		return "(VPtr None)"
	}
	panic("nilOf " + rt.String())
}

func sortKeys(keys []reflect.Value) {
	if len(keys) == 0 {
		return
	}
	switch keys[0].Kind() {
	case reflect.String:
		sort.Slice(keys, func(i, j int) bool { return keys[i].String() < keys[j].String() })
	case reflect.Int, reflect.Int8, reflect.Int16, reflect.Int32, reflect.Int64:
		sort.Slice(keys, func(i, j int) bool { return keys[i].Int() < keys[j].Int() })
	default:
		sort.Slice(keys, func(i, j int) bool { return keys[i].Uint() < keys[j].Uint() })
	}
}

// Go value -> Coq term of type value.  canon: print what a round trip is documented to
// return (a nil pointer to a nil-absorbing type comes back as a pointer to that nil);
// map pairs are always printed in key order.
func valOf(rv reflect.Value, canon bool) string {
	rt := rv.Type()
	if c, ok := customs[rt]; ok {
		return c.val(rv, canon)
	}
	switch rt.Kind() {
	case reflect.Uint8, reflect.Uint16, reflect.Uint32, reflect.Uint64, reflect.Uint:
		return fmt.Sprintf("(VUint %d)", rv.Uint())
	case reflect.Int8, reflect.Int16, reflect.Int32, reflect.Int64, reflect.Int:
		return fmt.Sprintf("(VInt %s)", hxlib.CoqZ(rv.Int()))
	case reflect.Bool:
		return fmt.Sprintf("(VBool %v)", rv.Bool())
	case reflect.String:
		return "(VString " + coqBytes([]byte(rv.String())) + ")"
	case reflect.Slice:
		if isByte(rt.Elem()) {
			if rv.IsNil() {
				return "(VBytes None)"
			}
			return "(VBytes (Some " + coqBytes(rv.Bytes()) + "))"
		}
		if rv.IsNil() {
			return "(VList None)"
		}
		items := make([]string, rv.Len())
		for i := range items {
			items[i] = valOf(rv.Index(i), canon)
		}
		return "(VList (Some " + hxlib.CoqList(items) + "))"
	case reflect.Array:
		if isByte(rt.Elem()) {
			b := make([]byte, rv.Len())
			reflect.Copy(reflect.ValueOf(b), rv)
			return "(VByteArr " + coqBytes(b) + ")"
		}
		items := make([]string, rv.Len())
		for i := range items {
			items[i] = valOf(rv.Index(i), canon)
		}
		return "(VArray " + hxlib.CoqList(items) + ")"
	case reflect.Struct:
		var fs []string
		visitFields(rv, func(fv reflect.Value) { fs = append(fs, valOf(fv, canon)) })
		return "(VStruct " + hxlib.CoqList(fs) + ")"
	case reflect.Map:
		if rv.IsNil() {
			return "(VMap None)"
		}
		keys := rv.MapKeys()
		sortKeys(keys)
		items := make([]string, len(keys))
		for i, k := range keys {
			items[i] = "(" + valOf(k, canon) + ", " + valOf(rv.MapIndex(k), canon) + ")"
		}
		return "(VMap (Some " + hxlib.CoqList(items) + "))"
	case reflect.Ptr:
		if rv.IsNil() {
			if canon && absorbs(rt.Elem()) {
				return "(VPtr (Some " + nilOf(rt.Elem()) + "))"
			}
			return "(VPtr None)"
		}
		return "(VPtr (Some " + valOf(rv.Elem(), canon) + "))"
	}
	panic("valOf " + rt.String())
}

// ---------------------------------------------------------------------------
// generators
// ---------------------------------------------------------------------------

func genUint(r *rand.Rand, w int) uint64 {
	max := ^uint64(0) >> (64 - uint(w))
	var v uint64
	switch r.Intn(8) {
	case 0:
		v = []uint64{0, 1, 0x7f, 0x80, 0xff, 0x100, 0x7fff, 0x8000, 0xffff, 0x10000, 0x7fffffff, 0x80000000,
			0xffffffff, 0x100000000, 0x7fffffffffffffff, 0x8000000000000000, 0xffffffffffffffff}[r.Intn(17)]
	case 1:
		v = max
	case 2:
		v = max - uint64(r.Intn(3))
	case 3:
		v = uint64(r.Intn(300))
	case 4:
		v = uint64(1) << uint(r.Intn(w))
	case 5:
		v = (uint64(1) << uint(r.Intn(w))) - 1
	default:
		v = r.Uint64()
	}
	return v & max
}

func genInt(r *rand.Rand, w int) int64 {
	min := -(int64(1) << uint(w-1))
	max := (int64(1) << uint(w-1)) - 1
	var v int64
	switch r.Intn(8) {
	case 0:
		v = []int64{0, 1, -1, 0x7f, 0x80, -0x80, -0x81, 0xff, 0x100, -0x100, 0x7fff, 0x8000, -0x8000, -0x8001,
			0x7fffffff, 0x80000000, -0x80000000, -0x80000001}[r.Intn(18)]
	case 1:
		v = max - int64(r.Intn(2))
	case 2:
		v = min + int64(r.Intn(2))
	case 3:
		v = int64(r.Intn(600)) - 300
	case 4:
		v = int64(1) << uint(r.Intn(w))
	case 5:
		v = -(int64(1) << uint(r.Intn(w))) - int64(r.Intn(2))
	default:
		v = int64(r.Uint64())
	}
	// wrap into the width
	sh := uint(64 - w)
	return (v << sh) >> sh
}

func genBig(r *rand.Rand) *big.Int {
	b := new(big.Int)
	switch r.Intn(6) {
	case 0:
		b.SetInt64(genInt(r, 64))
	case 1:
		b.SetUint64(genUint(r, 64))
	case 2:
		b.Lsh(big.NewInt(1), uint(8*(1+r.Intn(40))-r.Intn(2)))
		b.Sub(b, big.NewInt(int64(r.Intn(2))))
	case 3:
		b.Lsh(big.NewInt(1), uint(8*(1+r.Intn(40))-r.Intn(2)))
		b.Neg(b)
		b.Sub(b, big.NewInt(int64(r.Intn(2))))
	case 4:
		b.SetInt64(int64(r.Intn(5)) - 2)
	default:
		bs := make([]byte, 1+r.Intn(70))
		r.Read(bs)
		b.SetBytes(bs)
		if r.Intn(2) == 0 {
			b.Neg(b)
		}
	}
	return b
}

var bigLens = false // allow 65535/65536-byte strings (only for a few top-level cases)

func genLen(r *rand.Rand, depth int) int {
	switch x := r.Intn(100); {
	case x < 12:
		return 0
	case x < 30:
		return 1
	case x < 60:
		return 2 + r.Intn(9)
	case x < 80 || depth > 1 || (depth == 1 && x < 95):
		return []int{54, 55, 56, 57}[r.Intn(4)]
	case x < 97 || depth > 0 || !bigLens:
		return []int{254, 255, 256, 257}[r.Intn(4)]
	default:
		return []int{65535, 65536}[r.Intn(2)]
	}
}

// byte strings as Coq terms; long runs of one byte are printed as (rpt n c) so that a
// 64 KiB string stays a small term
func coqBytes(b []byte) string {
	if len(b) <= 200 {
		return hxlib.CoqBytes(b)
	}
	var parts []string
	lit := 0
	for i := 0; i < len(b); {
		j := i
		for j < len(b) && b[j] == b[i] {
			j++
		}
		if j-i >= 48 {
			if i > lit {
				parts = append(parts, hxlib.CoqBytes(b[lit:i]))
			}
			parts = append(parts, fmt.Sprintf("rpt %d %d", j-i, b[i]))
			lit = j
		}
		i = j
	}
	if lit < len(b) {
		parts = append(parts, hxlib.CoqBytes(b[lit:]))
	}
	return "(" + strings.Join(parts, " ++ ") + ")"
}

func genBytes(r *rand.Rand, depth int) []byte {
	n := genLen(r, depth)
	b := make([]byte, n)
	if n > 200 { // long strings: one repeated byte (see coqBytes)
		c := []byte{0x00, 0x7f, 0x80, 0xff, 'x', 'y'}[r.Intn(6)]
		for i := range b {
			b[i] = c
		}
		return b
	}
	switch r.Intn(4) {
	case 0:
		r.Read(b)
	case 1:
		for i := range b {
			b[i] = []byte{0x00, 0x7f, 0x80, 0x81, 0xb7, 0xb8, 0xc0, 0xf7, 0xf8, 0xff}[r.Intn(10)]
		}
	default:
		for i := range b {
			b[i] = byte('a' + r.Intn(26))
		}
	}
	return b
}

// one well-formed RLP item (for RawT)
func genRawItem(r *rand.Rand) []byte {
	var v interface{}
	switch r.Intn(6) {
	case 0:
		x := genInt(r, 64)
		v = &x
	case 1:
		x := string(genBytes(r, 2))
		v = &x
	case 2:
		x := []string{"a", string(genBytes(r, 2))}
		v = &x
	case 3:
		var x []byte
		v = &x // the nil marker
	case 4:
		x := S2{int8(genInt(r, 8)), [2]byte{1, 0x80}}
		v = &x
	default:
		x := [][]byte{genBytes(r, 2), nil, {}}
		v = &x
	}
	return codec.RLP.MustMarshalToBytes(v)
}

func genCount(r *rand.Rand, depth int) int {
	switch x := r.Intn(20); {
	case x < 4:
		return 0
	case x < 9:
		return 1
	case x < 18 || depth > 0:
		return 2 + r.Intn(3)
	default:
		return 20 + r.Intn(40)
	}
}

func genValue(r *rand.Rand, rv reflect.Value, depth int) {
	rt := rv.Type()
	if c, ok := customs[rt]; ok {
		c.gen(r, rv, depth)
		return
	}
	switch rt.Kind() {
	case reflect.Uint8, reflect.Uint16, reflect.Uint32, reflect.Uint64, reflect.Uint:
		rv.SetUint(genUint(r, rt.Bits()))
	case reflect.Int8, reflect.Int16, reflect.Int32, reflect.Int64, reflect.Int:
		rv.SetInt(genInt(r, rt.Bits()))
	case reflect.Bool:
		rv.SetBool(r.Intn(2) == 0)
	case reflect.String:
		rv.SetString(string(genBytes(r, depth)))
	case reflect.Slice:
		if r.Intn(6) == 0 {
			rv.Set(reflect.Zero(rt)) // nil
			return
		}
		if isByte(rt.Elem()) {
			rv.SetBytes(genBytes(r, depth))
			return
		}
		n := genCount(r, depth)
		s := reflect.MakeSlice(rt, n, n)
		for i := 0; i < n; i++ {
			genValue(r, s.Index(i), depth+1)
		}
		rv.Set(s)
	case reflect.Array:
		for i := 0; i < rv.Len(); i++ {
			genValue(r, rv.Index(i), depth+1)
		}
	case reflect.Struct:
		visitFields(rv, func(fv reflect.Value) { genValue(r, fv, depth+1) })
	case reflect.Map:
		if r.Intn(6) == 0 {
			rv.Set(reflect.Zero(rt))
			return
		}
		n := genCount(r, depth+1)
		if n > 6 {
			n = 6
		}
		m := reflect.MakeMap(rt)
		for i := 0; i < n; i++ {
			k := reflect.New(rt.Key()).Elem()
			if rt.Key().Kind() == reflect.String {
				k.SetString([]string{"", "a", "b", "aa", "ab", "a\x00", "\xff", "\x80", "z", "key"}[r.Intn(10)])
				if r.Intn(4) == 0 {
					k.SetString(string(genBytes(r, 2)))
				}
			} else {
				genValue(r, k, depth+1)
			}
			e := reflect.New(rt.Elem()).Elem()
			genValue(r, e, depth+1)
			m.SetMapIndex(k, e)
		}
		rv.Set(m)
	case reflect.Ptr:
		if r.Intn(4) == 0 {
			rv.Set(reflect.Zero(rt))
			return
		}
		p := reflect.New(rt.Elem())
		genValue(r, p.Elem(), depth+1)
		rv.Set(p)
	default:
		panic("genValue " + rt.String())
	}
}

// deep copy that rebuilds every map with another insertion order
func shuffleCopy(r *rand.Rand, dst, src reflect.Value) {
	rt := src.Type()
	if _, ok := customs[rt]; ok {
		dst.Set(src)
		return
	}
	switch rt.Kind() {
	case reflect.Slice:
		if src.IsNil() {
			return
		}
		s := reflect.MakeSlice(rt, src.Len(), src.Len())
		for i := 0; i < src.Len(); i++ {
			shuffleCopy(r, s.Index(i), src.Index(i))
		}
		dst.Set(s)
	case reflect.Array:
		for i := 0; i < src.Len(); i++ {
			shuffleCopy(r, dst.Index(i), src.Index(i))
		}
	case reflect.Struct:
		for i := 0; i < src.NumField(); i++ {
			if dst.Field(i).CanSet() {
				shuffleCopy(r, dst.Field(i), src.Field(i))
			}
		}
	case reflect.Map:
		if src.IsNil() {
			return
		}
		keys := src.MapKeys()
		sortKeys(keys)
		r.Shuffle(len(keys), func(i, j int) { keys[i], keys[j] = keys[j], keys[i] })
		m := reflect.MakeMapWithSize(rt, 0)
		for _, k := range keys {
			e := reflect.New(rt.Elem()).Elem()
			shuffleCopy(r, e, src.MapIndex(k))
			m.SetMapIndex(k, e)
		}
		dst.Set(m)
	case reflect.Ptr:
		if src.IsNil() {
			return
		}
		p := reflect.New(rt.Elem())
		shuffleCopy(r, p.Elem(), src.Elem())
		dst.Set(p)
	default:
		dst.Set(src)
	}
}
