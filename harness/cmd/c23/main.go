// c23: codec.RLP MarshalToBytes / UnmarshalFromBytes vs Model_Rlp.
package main

import (
	"bufio"
	"bytes"
	"encoding/hex"
	"encoding/json"
	"fmt"
	"io"
	"math/big"
	"math/rand"
	"os"
	"os/exec"
	"path/filepath"
	"reflect"
	"runtime"
	"sort"
	"strings"
	"syscall"
	"time"

	"github.com/icon-project/goloop/common/codec"
	"verif/harness/hxlib"
)

const allocLimit = 256 << 20 // bytes allocated by one decode call: more is a violation
const decodeTimeout = 6 * time.Second

// crashes, hangs, giant allocations and panics seen so far in the malformed stream; after
// severeCap of them the stream is cut short (each costs seconds, and 20 replays are kept at most)
var severe = 0

const severeCap = 8

func noteSevere(msg string) {
	if strings.Contains(msg, "does not terminate") || strings.Contains(msg, "allocates ") ||
		strings.Contains(msg, "crashes the process") || strings.Contains(msg, "panic") {
		severe++
	}
}

// replay inputs
type encIn struct {
	Type  string `json:"type"`
	RSeed int64  `json:"rseed"`
	Big   bool   `json:"big,omitempty"`
}
type decIn struct {
	Type string `json:"type"`
	Hex  string `json:"hex"`
}

// ---------------------------------------------------------------------------
// running the implementation under guards
// ---------------------------------------------------------------------------

type decObs struct {
	y        reflect.Value // pointer to the decoded value
	rest     []byte
	err      error
	panicked string
	dirty    bool   // the next UnmarshalFromBytes on the pooled decoder lost input
	dirtyMsg string // unexpected behaviour of the sentinel
	alloc    uint64
	timeout  bool
}

func sentinel() (ok bool) {
	var x int
	rest, err := codec.RLP.UnmarshalFromBytes([]byte{0x05}, &x)
	return err == nil && x == 5 && len(rest) == 0
}

// decode b into a fresh value of type rt, then a benign value with the (pooled) decoder
func decodeGuarded(rt reflect.Type, b []byte) *decObs {
	o := &decObs{}
	done := make(chan struct{})
	in := append([]byte{}, b...)
	go func() {
		defer close(done)
		var m0, m1 runtime.MemStats
		runtime.ReadMemStats(&m0)
		o.y = reflect.New(rt)
		o.panicked = hxlib.Catch(func() {
			o.rest, o.err = codec.RLP.UnmarshalFromBytes(in, o.y.Interface())
		})
		runtime.ReadMemStats(&m1)
		o.alloc = m1.TotalAlloc - m0.TotalAlloc
		p := hxlib.Catch(func() {
			if !sentinel() {
				o.dirty = true
				if !sentinel() {
					o.dirtyMsg = "decoding 0x05 into an int fails twice in a row after this call"
				}
			}
		})
		if p != "" {
			o.dirty = true
			o.dirtyMsg = "panic while decoding 0x05 into an int after this call: " + p
		}
	}()
	select {
	case <-done:
	case <-time.After(decodeTimeout):
		return &decObs{timeout: true}
	}
	return o
}

func errClass(err error) int {
	switch err {
	case nil:
		return 0
	case io.EOF:
		return 1
	case codec.ErrNilValue:
		return 2
	}
	return 3
}

// the outermost item of b declares more payload than b holds
func topDeclaredBeyond(b []byte) bool {
	if len(b) == 0 {
		return false
	}
	tag := int(b[0])
	var hl, sz int
	switch {
	case tag < 0x80:
		return false
	case tag <= 0xB7:
		hl, sz = 1, tag-0x80
	case tag <= 0xBF:
		hl = 1 + tag - 0xB7
	case tag <= 0xF7:
		hl, sz = 1, tag-0xC0
	default:
		hl = 1 + tag - 0xF7
	}
	if hl > 1 {
		if len(b) < hl {
			return true
		}
		var v uint64
		for _, x := range b[1:hl] {
			if v>>56 != 0 {
				return true
			}
			v = v<<8 | uint64(x)
		}
		if v > uint64(len(b)) {
			return true
		}
		sz = int(v)
	}
	return hl+sz > len(b)
}

// ---------------------------------------------------------------------------
// valid values: encode, decode back
// ---------------------------------------------------------------------------

func mkValue(t target, rseed int64, big bool) reflect.Value {
	r := rand.New(rand.NewSource(rseed))
	bigLens = big
	x := reflect.New(t.rt)
	genValue(r, x.Elem(), 0)
	bigLens = false
	return x
}

func oracleEnc(t target, rseed int64, big bool, wantCoq bool) (coq string, msg string, enc []byte) {
	x := mkValue(t, rseed, big)
	r := rand.New(rand.NewSource(rseed ^ 0x5bd1e995))
	var b []byte
	var err error
	if p := hxlib.Catch(func() { b, err = codec.RLP.MarshalToBytes(x.Interface()) }); p != "" {
		return "", "panic in MarshalToBytes: " + p, nil
	}
	if err != nil {
		return "", fmt.Sprintf("MarshalToBytes(%s) fails: %v", t.name, err), nil
	}
	fail := func(f string, a ...interface{}) (string, string, []byte) {
		return "", fmt.Sprintf("%s value, encoding %s: ", t.name, trunc(b)) + fmt.Sprintf(f, a...), b
	}
	// canonical headers: short form up to 55 bytes, minimal size bytes, single bytes below 0x80 bare
	if root, rest, ok := parseItem(b); !ok || len(rest) != 0 {
		return fail("the encoding is not one well-formed RLP item")
	} else if c := root.ser(0); !bytes.Equal(c, b) {
		return fail("the encoding is not canonical RLP: its item tree serialises to %s", trunc(c))
	}
	// determinism: same value again, and a copy whose maps were built in another order
	b2, err := codec.RLP.MarshalToBytes(x.Interface())
	if err != nil || !bytes.Equal(b, b2) {
		return fail("encoding the same value twice gives %s (%v)", trunc(b2), err)
	}
	cp := reflect.New(t.rt)
	shuffleCopy(r, cp.Elem(), x.Elem())
	b3, err := codec.RLP.MarshalToBytes(cp.Interface())
	if err != nil || !bytes.Equal(b, b3) {
		return fail("a copy with maps filled in another order encodes as %s (%v)", trunc(b3), err)
	}
	// round trip
	o := decodeGuarded(t.rt, b)
	switch {
	case o.timeout:
		return fail("decoding does not terminate")
	case o.panicked != "":
		return fail("panic while decoding: %s", o.panicked)
	case o.err != nil:
		return fail("does not decode: %v", o.err)
	case len(o.rest) != 0:
		return fail("decoding leaves %d bytes", len(o.rest))
	case o.dirty:
		return fail("pooled decoder left dirty %s", o.dirtyMsg)
	}
	want := valOf(x.Elem(), true)
	got := valOf(o.y.Elem(), false)
	if want != got {
		return fail("round trip changes the value: %s -> %s", truncS(valOf(x.Elem(), false)), truncS(got))
	}
	// the decoded value encodes alike
	b4, err := codec.RLP.MarshalToBytes(o.y.Interface())
	if err != nil || !bytes.Equal(b, b4) {
		return fail("the decoded value encodes as %s (%v)", trunc(b4), err)
	}
	// never reads past: trailing bytes are handed back untouched
	tail := make([]byte, 1+r.Intn(4))
	r.Read(tail)
	o2 := decodeGuarded(t.rt, append(append([]byte{}, b...), tail...))
	if o2.timeout || o2.panicked != "" || o2.err != nil || !bytes.Equal(o2.rest, tail) || valOf(o2.y.Elem(), false) != got {
		return fail("with %d trailing bytes: err=%v panic=%q rest=%x", len(tail), o2.err, o2.panicked, o2.rest)
	}
	// size bound: no strict prefix is accepted
	cuts := []int{len(b) - 1, 0, r.Intn(len(b)), r.Intn(len(b))}
	for _, c := range cuts {
		o3 := decodeGuarded(t.rt, b[:c])
		if o3.timeout || o3.panicked != "" || o3.err == nil {
			return fail("the prefix of %d bytes is accepted (err=%v panic=%q)", c, o3.err, o3.panicked)
		}
		if o3.dirty {
			return fail("pooled decoder left dirty after the prefix of %d bytes %s", c, o3.dirtyMsg)
		}
	}
	if wantCoq {
		coq = fmt.Sprintf("(CEnc %s %s %s %s)", tyOf(t.rt), valOf(x.Elem(), false), coqBytes(b), got)
	}
	return coq, "", b
}

func trunc(b []byte) string {
	if len(b) > 48 {
		return fmt.Sprintf("%x…(%d bytes)", b[:48], len(b))
	}
	return fmt.Sprintf("%x", b)
}
func truncS(s string) string {
	if len(s) > 300 {
		return s[:300] + "…"
	}
	return s
}

// ---------------------------------------------------------------------------
// arbitrary bytes
// ---------------------------------------------------------------------------

func oracleDec(t target, b []byte, wantCoq bool) (coq string, msg string, accepted bool) {
	o := decodeGuarded(t.rt, b)
	pre := fmt.Sprintf("decoding %s into %s: ", trunc(b), t.name)
	switch {
	case o.timeout:
		return "", pre + "does not terminate", false
	case o.panicked != "":
		return "", pre + "panic: " + o.panicked, false
	case o.alloc > allocLimit:
		msg = pre + fmt.Sprintf("allocates %d MiB for %d input bytes", o.alloc>>20, len(b))
	}
	obs := "None"
	if o.err == nil {
		accepted = true
		got := valOf(o.y.Elem(), false)
		obs = fmt.Sprintf("(Some (%s, %s))", got, coqBytes(o.rest))
		if msg == "" && (len(o.rest) > len(b) || !bytes.Equal(o.rest, b[len(b)-len(o.rest):])) {
			msg = pre + fmt.Sprintf("returned remainder %x is not the tail of the input", o.rest)
		}
		if msg == "" && topDeclaredBeyond(b) {
			msg = pre + "declared size beyond input accepted"
		}
		if msg == "" {
			msg = intOracle(t, b, o.y.Elem(), pre)
		}
		if msg == "" && !strings.Contains(got, "(VRaw [])") { // an empty raw item is not a value MarshalRLP may return
			// an accepted value is a supported value: it must itself round-trip
			var b2 []byte
			var err error
			if p := hxlib.Catch(func() { b2, err = codec.RLP.MarshalToBytes(o.y.Interface()) }); p != "" || err != nil {
				msg = pre + fmt.Sprintf("accepted value does not encode (%v %s)", err, p)
			} else {
				o2 := decodeGuarded(t.rt, b2)
				if o2.timeout || o2.panicked != "" || o2.err != nil || len(o2.rest) != 0 ||
					valOf(o2.y.Elem(), false) != valOf(o.y.Elem(), true) {
					msg = pre + fmt.Sprintf("accepted value re-encodes to %s which does not decode back to it (err=%v)", trunc(b2), o2.err)
				}
			}
		}
	}
	if msg == "" && o.dirty {
		msg = pre + "pooled decoder left dirty (the next UnmarshalFromBytes call lost input bytes) " + o.dirtyMsg
	}
	if wantCoq {
		coq = fmt.Sprintf("(CDec %s %s %s %d %s)", tyOf(t.rt), coqBytes(b), obs, errClass(o.err), hxlib.CoqBool(o.dirty))
	}
	return coq, msg, accepted
}

// integer targets: an accepted string item must denote (two's complement) a number of
// the target's range, and that number is the decoded value
func intOracle(t target, b []byte, y reflect.Value, pre string) string {
	k := t.rt.Kind()
	signed := k >= reflect.Int && k <= reflect.Int64
	unsigned := k >= reflect.Uint && k <= reflect.Uint64
	if !signed && !unsigned {
		return ""
	}
	n, _, ok := parseItem(b)
	if !ok || n.isList || n.isNil {
		return ""
	}
	v := new(big.Int).SetBytes(n.data)
	if len(n.data) > 0 && n.data[0]&0x80 != 0 {
		v.Sub(v, new(big.Int).Lsh(big.NewInt(1), uint(8*len(n.data))))
	}
	w := uint(t.rt.Bits())
	lo, hi := big.NewInt(0), new(big.Int).Lsh(big.NewInt(1), w)
	if signed {
		hi = new(big.Int).Lsh(big.NewInt(1), w-1)
		lo = new(big.Int).Neg(hi)
	}
	if v.Cmp(lo) < 0 || v.Cmp(hi) >= 0 {
		return pre + fmt.Sprintf("integer overflow accepted: payload denotes %s", v)
	}
	got := new(big.Int)
	if signed {
		got.SetInt64(y.Int())
	} else {
		got.SetUint64(y.Uint())
	}
	if got.Cmp(v) != 0 {
		return pre + fmt.Sprintf("payload denotes %s but %s was decoded", v, got)
	}
	return ""
}

// an integer just inside / outside the range of an integer target, minimally encoded
func intBoundary(r *rand.Rand, t target) []byte {
	w := uint(t.rt.Bits())
	k := t.rt.Kind()
	one := big.NewInt(1)
	hi := new(big.Int).Lsh(one, w)
	lo := big.NewInt(0)
	if k >= reflect.Int && k <= reflect.Int64 {
		hi = new(big.Int).Lsh(one, w-1)
		lo = new(big.Int).Neg(hi)
	}
	var v *big.Int
	switch r.Intn(8) {
	case 0:
		v = new(big.Int).Set(hi) // max+1
	case 1:
		v = new(big.Int).Sub(hi, one)
	case 2:
		v = new(big.Int).Sub(lo, one) // min-1
	case 3:
		v = new(big.Int).Set(lo)
	case 4:
		v = new(big.Int).Lsh(one, w)
	case 5:
		v = new(big.Int).Neg(new(big.Int).Lsh(one, w))
	case 6:
		v = new(big.Int).Lsh(one, 64)
		if r.Intn(2) == 0 {
			v.Neg(v)
			v.Sub(v, one)
		}
	default:
		v = new(big.Int).Add(hi, big.NewInt(int64(r.Intn(300))))
	}
	b, _ := codec.RLP.MarshalToBytes(v)
	return b
}

// ---------------------------------------------------------------------------
// a small RLP tree, for structure-aware mutation of valid encodings
// ---------------------------------------------------------------------------

type node struct {
	isList bool
	isNil  bool
	data   []byte
	kids   []*node
}

func parseItem(b []byte) (*node, []byte, bool) {
	if len(b) == 0 {
		return nil, nil, false
	}
	tag := int(b[0])
	rd := func(hl int) (int, bool) {
		if len(b) < hl {
			return 0, false
		}
		v := 0
		for _, x := range b[1:hl] {
			v = v<<8 | int(x)
		}
		return v, v >= 0 && hl+v <= len(b)
	}
	switch {
	case tag < 0x80:
		return &node{data: b[:1]}, b[1:], true
	case tag <= 0xB7:
		n := tag - 0x80
		if 1+n > len(b) {
			return nil, nil, false
		}
		return &node{data: b[1 : 1+n]}, b[1+n:], true
	case tag <= 0xBF:
		hl := 1 + tag - 0xB7
		n, ok := rd(hl)
		if !ok {
			return nil, nil, false
		}
		return &node{data: b[hl : hl+n]}, b[hl+n:], true
	default:
		hl, n := 1, tag-0xC0
		if tag > 0xF7 {
			hl = 1 + tag - 0xF7
			var ok bool
			if n, ok = rd(hl); !ok {
				return nil, nil, false
			}
			if hl == 2 && n == 0 {
				return &node{isNil: true}, b[2:], true
			}
		}
		if hl+n > len(b) {
			return nil, nil, false
		}
		nd := &node{isList: true}
		p := b[hl : hl+n]
		for len(p) > 0 {
			k, r, ok := parseItem(p)
			if !ok {
				return nil, nil, false
			}
			nd.kids = append(nd.kids, k)
			p = r
		}
		return nd, b[hl+n:], true
	}
}

func sizeBytes(n int) []byte {
	var s []byte
	for n > 0 {
		s = append([]byte{byte(n)}, s...)
		n >>= 8
	}
	return s
}

// noncanon: 0 canonical; 1 long-form headers everywhere; 2 long form with a leading zero size byte
func (n *node) ser(noncanon int) []byte {
	hdr := func(base int, l int) []byte {
		if l <= 55 && noncanon == 0 {
			return []byte{byte(base + l)}
		}
		s := sizeBytes(l)
		if len(s) == 0 {
			s = []byte{0}
		}
		if noncanon == 2 && len(s) < 8 {
			s = append([]byte{0}, s...)
		}
		return append([]byte{byte(base + 55 + len(s))}, s...)
	}
	switch {
	case n.isNil:
		return []byte{0xf8, 0x00}
	case n.isList:
		var p []byte
		for _, k := range n.kids {
			p = append(p, k.ser(noncanon)...)
		}
		return append(hdr(0xC0, len(p)), p...)
	default:
		if len(n.data) == 1 && n.data[0] < 0x80 && noncanon == 0 {
			return []byte{n.data[0]}
		}
		return append(hdr(0x80, len(n.data)), n.data...)
	}
}

func (n *node) all(acc *[]*node) {
	*acc = append(*acc, n)
	for _, k := range n.kids {
		k.all(acc)
	}
}

func randLeaf(r *rand.Rand) *node {
	switch r.Intn(7) {
	case 0:
		return &node{isNil: true}
	case 1:
		return &node{data: []byte{}}
	case 2:
		return &node{data: []byte{byte(r.Intn(256))}}
	case 3:
		return &node{isList: true}
	case 4:
		b := make([]byte, []int{2, 8, 9, 10, 55, 56}[r.Intn(6)])
		r.Read(b)
		return &node{data: b}
	case 5:
		return &node{isList: true, kids: []*node{{data: []byte{1}}, {isNil: true}}}
	default:
		return &node{data: []byte{0, byte(r.Intn(256))}}
	}
}

func mutateTree(r *rand.Rand, root *node) {
	var ns []*node
	root.all(&ns)
	n := ns[r.Intn(len(ns))]
	switch r.Intn(8) {
	case 0: // the nil marker where a value is expected
		*n = node{isNil: true}
	case 1:
		*n = *randLeaf(r)
	case 2: // one more item
		if n.isList {
			i := r.Intn(len(n.kids) + 1)
			n.kids = append(n.kids[:i:i], append([]*node{randLeaf(r)}, n.kids[i:]...)...)
		} else {
			*n = node{isList: true, kids: []*node{{data: n.data}}}
		}
	case 3: // one item less
		if n.isList && len(n.kids) > 0 {
			i := r.Intn(len(n.kids))
			n.kids = append(n.kids[:i:i], n.kids[i+1:]...)
		} else {
			*n = node{data: []byte{}}
		}
	case 4: // integer payloads: widen / sign / leading zero
		if !n.isList && !n.isNil {
			switch r.Intn(4) {
			case 0:
				n.data = append([]byte{0}, n.data...)
			case 1:
				n.data = append([]byte{0xff}, n.data...)
			case 2:
				n.data = append(n.data, byte(r.Intn(256)))
			default:
				n.data = bytes.Repeat([]byte{0xff}, 1+r.Intn(9))
			}
		} else {
			*n = node{data: []byte{0x80}}
		}
	case 5: // swap two children / duplicate one (map key order, duplicate keys)
		if n.isList && len(n.kids) >= 2 {
			i, j := r.Intn(len(n.kids)), r.Intn(len(n.kids))
			if r.Intn(2) == 0 {
				n.kids[i], n.kids[j] = n.kids[j], n.kids[i]
			} else {
				n.kids[i] = n.kids[j]
			}
		} else {
			*n = *randLeaf(r)
		}
	case 6: // list <-> string
		if n.isList {
			var p []byte
			for _, k := range n.kids {
				p = append(p, k.ser(0)...)
			}
			*n = node{data: p}
		} else if !n.isNil {
			*n = node{isList: true, kids: []*node{{data: n.data}}}
		}
	default:
		if !n.isList && !n.isNil && len(n.data) > 0 {
			n.data = append([]byte{}, n.data...)
			n.data[r.Intn(len(n.data))] ^= byte(1 << uint(r.Intn(8)))
		} else {
			*n = *randLeaf(r)
		}
	}
}

var tagBytes = []byte{0x00, 0x01, 0x7f, 0x80, 0x81, 0x82, 0xb7, 0xb8, 0xb9, 0xbf, 0xc0, 0xc1, 0xc2, 0xf7, 0xf8, 0xf9, 0xff}

func mutateBytes(r *rand.Rand, b []byte) []byte {
	b = append([]byte{}, b...)
	if len(b) == 0 {
		return []byte{tagBytes[r.Intn(len(tagBytes))]}
	}
	switch r.Intn(8) {
	case 0: // truncate
		return b[:r.Intn(len(b))]
	case 1: // trailing bytes
		t := make([]byte, 1+r.Intn(3))
		r.Read(t)
		return append(b, t...)
	case 2:
		b[r.Intn(len(b))] = tagBytes[r.Intn(len(tagBytes))]
	case 3:
		b[r.Intn(len(b))] = byte(r.Intn(256))
	case 4: // size byte off by a little (headers are mostly near the front)
		i := r.Intn(len(b))
		if r.Intn(2) == 0 {
			i = r.Intn(1 + len(b)/4)
		}
		b[i] += byte(r.Intn(5)) - 2
	case 5: // insert the nil marker / a tag
		i := r.Intn(len(b) + 1)
		ins := []byte{0xf8, 0x00}
		if r.Intn(2) == 0 {
			ins = []byte{tagBytes[r.Intn(len(tagBytes))]}
		}
		b = append(b[:i:i], append(ins, b[i:]...)...)
	case 6: // delete a byte
		i := r.Intn(len(b))
		b = append(b[:i:i], b[i+1:]...)
	default: // flip a bit
		b[r.Intn(len(b))] ^= byte(1 << uint(r.Intn(8)))
	}
	return b
}

// size prefixes that announce far more than is there
func hostile(r *rand.Rand) []byte {
	be := func(v uint64, n int) []byte {
		s := make([]byte, n)
		for i := n - 1; i >= 0; i-- {
			s[i] = byte(v)
			v >>= 8
		}
		return s
	}
	base := []byte{0xb7, 0xf7}[r.Intn(2)]
	var b []byte
	switch r.Intn(9) {
	case 0:
		b = append([]byte{base + 8}, bytes.Repeat([]byte{0xff}, 8)...)
	case 1:
		b = append([]byte{base + 8}, be(1<<63-1, 8)...)
	case 2:
		b = append([]byte{base + 8}, be(1<<63, 8)...)
	case 3:
		b = append([]byte{base + 4}, be(0xffffffff, 4)...)
	case 4:
		b = append([]byte{base + 4}, be(300<<20, 4)...)
	case 5:
		b = append([]byte{base + 3}, be(uint64(1000001+r.Intn(3)), 3)...)
	case 6:
		b = append([]byte{base + 8}, be(uint64(r.Intn(70)), 8)...) // small size, long header
	case 7:
		n := 1 + r.Intn(8)
		b = append([]byte{base + byte(n)}, be(r.Uint64(), n)...)
		if n > 4 {
			b[1] &= 0x7f
			b[1] |= 0x40 // huge but below MaxInt
		}
	default:
		b = []byte{base + byte(1+r.Intn(8))} // header cut inside the size bytes
		t := make([]byte, r.Intn(3))
		r.Read(t)
		b = append(b, t...)
		return b
	}
	t := make([]byte, r.Intn(70))
	r.Read(t)
	b = append(b, t...)
	if r.Intn(3) == 0 { // nested inside a correct list
		in := &node{isList: true, kids: []*node{{data: []byte{1}}}}
		p := append(in.kids[0].ser(0), b...)
		if len(p) <= 55 {
			b = append([]byte{byte(0xc0 + len(p))}, p...)
		}
	}
	return b
}

// nested hostile headers: 1-3 long-form LIST headers, each claiming from "one more than is
// there" up to 2^63-1 / 2^64-1, around a long-form STRING header claiming likewise; the
// string must be refused on its byte budget (the input length), whatever the lists claim
func nestedHostile(r *rand.Rand) []byte {
	be := func(v uint64, n int) []byte {
		s := make([]byte, n)
		for i := n - 1; i >= 0; i-- {
			s[i] = byte(v)
			v >>= 8
		}
		return s
	}
	tail := make([]byte, r.Intn(40))
	r.Read(tail)
	claim := func(remaining int) (uint64, int) {
		var v uint64
		switch r.Intn(10) {
		case 0:
			v = uint64(remaining + 1)
		case 1:
			v = uint64(remaining + 1 + r.Intn(300))
		case 2:
			v = 1000001
		case 3:
			v = 1 << 31
		case 4:
			v = 1 << 35
		case 5:
			v = 1 << 62
		case 6:
			v = 1<<63 - 1
		case 7:
			v = ^uint64(0)
		case 8:
			v = uint64(remaining) // exactly what is there
		default:
			v = r.Uint64() >> uint(r.Intn(64))
		}
		n := 1
		for x := v; x > 0xff; x >>= 8 {
			n++
		}
		if n < 8 && r.Intn(3) == 0 {
			n += r.Intn(8 - n + 1) // leading zero size bytes
		}
		return v, n
	}
	v, n := claim(len(tail))
	b := append(append([]byte{0xb7 + byte(n)}, be(v, n)...), tail...)
	if r.Intn(4) == 0 { // a first, honest item before the hostile string
		b = append([]byte{byte(r.Intn(0x80))}, b...)
	}
	for d := 1 + r.Intn(3); d > 0; d-- {
		v, n := claim(len(b))
		b = append(append([]byte{0xf7 + byte(n)}, be(v, n)...), b...)
	}
	return b
}

// targets with a list at depth >= 1 (slice/array/struct/map, possibly behind pointers)
var listTargets []target

func init() {
	for _, t := range targets {
		rt := t.rt
		for rt.Kind() == reflect.Ptr {
			rt = rt.Elem()
		}
		if _, custom := customs[rt]; custom {
			continue
		}
		switch rt.Kind() {
		case reflect.Struct, reflect.Map:
			listTargets = append(listTargets, t)
		case reflect.Slice, reflect.Array:
			if !isByte(rt.Elem()) {
				listTargets = append(listTargets, t)
			}
		}
	}
}

func randomBytes(r *rand.Rand) []byte {
	n := []int{0, 1, 1, 2, 2, 3, 4, 5, 8, 12, 20, 60}[r.Intn(12)]
	b := make([]byte, n)
	for i := range b {
		if r.Intn(3) > 0 {
			b[i] = tagBytes[r.Intn(len(tagBytes))]
		} else {
			b[i] = byte(r.Intn(256))
		}
	}
	if n > 1 && r.Intn(2) == 0 { // make the outer header fit
		b[0] = byte(0xc0 + n - 1)
		if n-1 > 55 {
			b[0] = 0xc0 + 55
		}
	}
	return b
}

// ---------------------------------------------------------------------------
// generation
// ---------------------------------------------------------------------------

func corpusDir() string {
	if d := os.Getenv("VERIF_CORPUS"); d != "" {
		return d
	}
	if exe, err := os.Executable(); err == nil {
		d := filepath.Dir(exe)
		for i := 0; i < 5; i++ {
			p := filepath.Join(d, "corpus", "C23")
			if st, err := os.Stat(p); err == nil && st.IsDir() {
				return p
			}
			d = filepath.Dir(d)
		}
	}
	return "/verif/corpus/C23"
}

// ---------------------------------------------------------------------------
// crash scan: a fatal runtime error (out of memory on a hostile size, stack exhaustion)
// cannot be recovered in-process.  Every batch of malformed inputs is therefore first
// decoded by a child process ("probe-batch") that announces the index of each input before
// touching it; an input on which the child dies is reported as a violation and is not
// decoded again by the parent.  The child is restarted behind each crashing input.
// ---------------------------------------------------------------------------

type malItem struct {
	kind string // distribution label
	mode string // "dec" or "typed"
	name string // target type name / typed mode
	b    []byte
}

// returns the indices on which the child died and the number of items scanned (the scan
// stops after severeCap crashes)
func scanBatch(c *hxlib.Ctx, items []malItem) (map[int]bool, int) {
	crashed := map[int]bool{}
	exe, err := os.Executable()
	if err != nil {
		c.Note("crash scan skipped: %v", err)
		return crashed, len(items)
	}
	start := 0
	for start < len(items) {
		var in bytes.Buffer
		for _, it := range items[start:] {
			fmt.Fprintf(&in, "%s %s %s\n", it.mode, it.name, hex.EncodeToString(it.b))
		}
		cmd := exec.Command(exe, "probe-batch")
		cmd.Stdin = &in
		var out bytes.Buffer
		cmd.Stdout = &out
		runErr := cmd.Run()
		if runErr == nil {
			return crashed, len(items)
		}
		if _, ok := runErr.(*exec.ExitError); !ok {
			c.Note("crash scan could not run: %v", runErr)
			return crashed, len(items)
		}
		lines := strings.Fields(out.String())
		if len(lines) == 0 {
			c.Note("crash scan: child died before the first input (%v)", runErr)
			return crashed, len(items)
		}
		var last int
		fmt.Sscan(lines[len(lines)-1], &last)
		crashed[start+last] = true
		start += last + 1
		if len(crashed) >= severeCap {
			return crashed, start
		}
	}
	return crashed, len(items)
}

func probeBatch() {
	runtime.GOMAXPROCS(1)
	sc := bufio.NewScanner(os.Stdin)
	sc.Buffer(make([]byte, 1<<20), 1<<26)
	for i := 0; sc.Scan(); i++ {
		f := strings.Fields(sc.Text())
		if len(f) < 2 {
			continue
		}
		hx := ""
		if len(f) > 2 {
			hx = f[2]
		}
		b, _ := hex.DecodeString(hx)
		fmt.Fprintf(os.Stdout, "%d\n", i)
		if f[0] == "typed" {
			oracleTypedDec(f[1], b)
		} else if t, ok := targetByName[f[1]]; ok {
			oracleDec(t, b, false)
		}
	}
}

const crashMsg = "crashes the process (fatal runtime error: out of memory / stack exhaustion — not a recoverable panic)"

func emitCrash(c *hxlib.Ctx, it malItem) {
	severe++
	if it.mode == "typed" {
		c.Emit(hxlib.Case{Kind: "typed-" + it.kind + "/crash", Key: "typed|" + it.name + "|" + hex.EncodeToString(it.b),
			Input:      map[string]interface{}{"t": "typed", "v": typedIn{Mode: it.name, Hex: hex.EncodeToString(it.b)}},
			Nontrivial: true, OracleErr: fmt.Sprintf("typed(%s) decoding %s: ", it.name, trunc(it.b)) + crashMsg})
		return
	}
	c.Emit(hxlib.Case{Kind: it.kind + "/crash", Key: "dec|" + it.name + "|" + hex.EncodeToString(it.b),
		Input:      map[string]interface{}{"t": "dec", "v": decIn{it.name, hex.EncodeToString(it.b)}},
		Nontrivial: true, OracleErr: fmt.Sprintf("decoding %s into %s: ", trunc(it.b), it.name) + crashMsg})
}

// scan a batch in the child, then decode it in-process (skipping what killed the child)
func runBatch(c *hxlib.Ctx, items []malItem) {
	crashed, scanned := scanBatch(c, items)
	for i, it := range items {
		if i >= scanned || severe >= severeCap {
			c.Note("malformed stream cut after %d of %d inputs: %d crashes/hangs/giant allocations/panics", i, len(items), severe)
			return
		}
		if crashed[i] {
			emitCrash(c, it)
			continue
		}
		if it.mode == "typed" {
			emitTypedDec(c, it.kind, it.name, it.b)
		} else {
			emitDec(c, it.kind, targetByName[it.name], it.b)
		}
	}
}

func emitDec(c *hxlib.Ctx, kind string, t target, b []byte) bool {
	coq, msg, acc := oracleDec(t, b, !c.OracleOnly)
	noteSevere(msg)
	if acc {
		kind += "/accepted"
	} else {
		kind += "/rejected"
	}
	c.Emit(hxlib.Case{Kind: kind, Coq: coq, Key: t.name + "|" + hex.EncodeToString(b),
		Input:      map[string]interface{}{"t": "dec", "v": decIn{t.name, hex.EncodeToString(b)}},
		Nontrivial: len(b) > 0, OracleErr: msg})
	return acc
}

func gen(c *hxlib.Ctx) {
	runtime.GOMAXPROCS(1) // the pooled decoder of one call must be the one the next call gets
	r := c.Rand

	// (0) corpus of past failures first
	files, _ := filepath.Glob(filepath.Join(corpusDir(), "*.json"))
	sort.Strings(files)
	for _, f := range files {
		raw, err := os.ReadFile(f)
		var doc struct {
			Input struct {
				T string          `json:"t"`
				V json.RawMessage `json:"v"`
			} `json:"input"`
		}
		if err != nil || json.Unmarshal(raw, &doc) != nil {
			c.Note("corpus file %s unreadable", f)
			continue
		}
		switch doc.Input.T {
		case "dec":
			var v decIn
			json.Unmarshal(doc.Input.V, &v)
			b, _ := hex.DecodeString(v.Hex)
			if t, ok := targetByName[v.Type]; ok {
				emitDec(c, "corpus", t, b)
			}
		case "enc":
			var v encIn
			json.Unmarshal(doc.Input.V, &v)
			if t, ok := targetByName[v.Type]; ok {
				coq, msg, _ := oracleEnc(t, v.RSeed, v.Big, !c.OracleOnly)
				c.Emit(hxlib.Case{Kind: "corpus", Coq: coq, Input: map[string]interface{}{"t": "enc", "v": v}, Nontrivial: true, OracleErr: msg})
			}
		case "typed":
			var v typedIn
			json.Unmarshal(doc.Input.V, &v)
			c.Emit(hxlib.Case{Kind: "corpus", Key: f, Input: map[string]interface{}{"t": "typed", "v": v}, Nontrivial: true, OracleErr: replayTyped(v)})
		}
	}
	c.Note("corpus: %d file(s) from %s", len(files), corpusDir())

	// (1) valid values of every type
	type seedEnc struct {
		t target
		b []byte
	}
	var seeds []seedEnc
	per := c.N(2000) / len(targets)
	for ti, t := range targets {
		for i := 0; i < per; i++ {
			rs := r.Int63()
			big := i == 0 && (t.name == "string" || t.name == "bytes" || t.name == "[]string" || t.name == "SA")
			if big {
				rs = findBig(t, rs)
			}
			coq, msg, b := oracleEnc(t, rs, big, !c.OracleOnly)
			c.Emit(hxlib.Case{Kind: "enc/" + t.name, Coq: coq, Key: fmt.Sprintf("%s|%x", t.name, b),
				Input:      map[string]interface{}{"t": "enc", "v": encIn{t.name, rs, big}},
				Nontrivial: len(b) > 1, OracleErr: msg})
			if b != nil && len(b) < 400 && (i%3 == 0 || len(seeds) < 3*(ti+1)) {
				seeds = append(seeds, seedEnc{t, b})
			}
		}
	}
	if len(seeds) == 0 {
		c.Note("no valid encoding available as a mutation seed")
		return
	}

	// (2) malformed stream
	pick := func() target { return targets[r.Intn(len(targets))] }
	nMal := c.N(5000)
	var items []malItem
	for i := 0; i < nMal; i++ {
		s := seeds[r.Intn(len(seeds))]
		t := s.t
		if r.Intn(6) == 0 { // another type than the one the bytes were made for
			t = pick()
		}
		var b []byte
		kind := ""
		switch x := r.Intn(100); {
		case x < 34:
			kind = "tree-mutation"
			root, _, ok := parseItem(s.b)
			if !ok {
				b = mutateBytes(r, s.b)
				break
			}
			for k := 1 + r.Intn(2); k > 0; k-- {
				mutateTree(r, root)
			}
			b = root.ser(0)
		case x < 40:
			kind = "noncanonical-size"
			root, _, ok := parseItem(s.b)
			if !ok {
				b = mutateBytes(r, s.b)
				break
			}
			b = root.ser(1 + r.Intn(2))
		case x < 66:
			kind = "byte-mutation"
			b = mutateBytes(r, s.b)
			if r.Intn(4) == 0 {
				b = mutateBytes(r, b)
			}
		case x < 74:
			kind = "truncated"
			b = s.b[:r.Intn(len(s.b))]
		case x < 80:
			kind = "hostile-size"
			b = hostile(r)
			if r.Intn(2) == 0 {
				t = pick()
			}
		case x < 84:
			kind = "nested-hostile-size"
			b = nestedHostile(r)
			t = listTargets[r.Intn(len(listTargets))]
		case x < 87:
			kind = "valid-other-type"
			t = pick()
			b = s.b
		case x < 91:
			kind = "int-boundary"
			t = targets[r.Intn(10)] // the ten integer targets
			b = intBoundary(r, t)
		default:
			kind = "random"
			b = randomBytes(r)
			t = pick()
		}
		items = append(items, malItem{kind, "dec", t.name, b})
	}
	runBatch(c, items)
	// (3) typed.go / typeddict.go: direct oracle only
	genTyped(c)

	// canaries: wrong observations the model must flag
	c.Emit(hxlib.Case{Kind: "canary", Canary: true,
		Coq: "(CEnc (TUint 16) (VUint 128) [128] (VUint 128))"})
	c.Emit(hxlib.Case{Kind: "canary", Canary: true,
		Coq: "(CDec (TInt 8) [129; 128] (Some (VInt 128%Z, [])) 0 false)"})
}

// a value seed whose encoding holds a 64 KiB string
func findBig(t target, rs int64) int64 {
	for k := int64(0); k < 400; k++ {
		x := mkValue(t, rs+k, true)
		if b, err := codec.RLP.MarshalToBytes(x.Interface()); err == nil && len(b) > 65000 && len(b) < 200000 {
			return rs + k
		}
	}
	return rs
}

func replay(raw json.RawMessage) string {
	runtime.GOMAXPROCS(1)
	var in struct {
		T string          `json:"t"`
		V json.RawMessage `json:"v"`
	}
	if err := json.Unmarshal(raw, &in); err != nil {
		return "bad replay input: " + err.Error()
	}
	switch in.T {
	case "enc":
		var v encIn
		json.Unmarshal(in.V, &v)
		t, ok := targetByName[v.Type]
		if !ok {
			return "unknown type " + v.Type
		}
		_, msg, _ := oracleEnc(t, v.RSeed, v.Big, false)
		return msg
	case "dec":
		var v decIn
		json.Unmarshal(in.V, &v)
		t, ok := targetByName[v.Type]
		if !ok {
			return "unknown type " + v.Type
		}
		b, _ := hex.DecodeString(v.Hex)
		if dies("dec", t.name, v.Hex) {
			return fmt.Sprintf("decoding %s into %s: ", trunc(b), t.name) + crashMsg
		}
		_, msg, _ := oracleDec(t, b, false)
		return msg
	case "typed":
		var v typedIn
		json.Unmarshal(in.V, &v)
		return replayTyped(v)
	}
	return "unknown case type " + in.T
}

// run one decode in a child process: does it kill the process?
func dies(kind, name, hx string) bool {
	exe, err := os.Executable()
	if err != nil {
		return false
	}
	cmd := exec.Command(exe, "probe", kind, name, hx)
	err = cmd.Run()
	if ee, ok := err.(*exec.ExitError); ok {
		return ee.ExitCode() != 0
	}
	return false
}

// a hard cap on the address space: a decoder that tries to make a buffer of a hostile
// announced size dies at once (and is caught by the crash scan) instead of zeroing tens of
// GiB and starving the machine
func capMemory() {
	lim := syscall.Rlimit{Cur: 3 << 30, Max: 3 << 30}
	var cur syscall.Rlimit
	if syscall.Getrlimit(syscall.RLIMIT_AS, &cur) == nil && cur.Cur != ^uint64(0) && cur.Cur <= lim.Cur {
		return
	}
	_ = syscall.Setrlimit(syscall.RLIMIT_AS, &lim)
}

func main() {
	capMemory()
	if len(os.Args) == 2 && os.Args[1] == "probe-batch" {
		probeBatch()
		os.Exit(0)
	}
	if len(os.Args) == 5 && os.Args[1] == "probe" {
		runtime.GOMAXPROCS(1)
		b, _ := hex.DecodeString(os.Args[4])
		if os.Args[2] == "typed" {
			oracleTypedDec(os.Args[3], b)
		} else if t, ok := targetByName[os.Args[3]]; ok {
			oracleDec(t, b, false)
		}
		os.Exit(0)
	}
	hxlib.Main(hxlib.Spec{
		ID: "C23",
		Rule: "valid: for each of the fixed Go types (ints of every width, bool, string, []byte, byte arrays, big.Int/HexInt, Hex* self-coders, raw items, slices, arrays, structs with embedded/unexported/optional fields, maps with string/int/uint keys, pointers) random values with nil/empty variants, boundary integers and string lengths around 0/1/55/56/255/256/65535/65536 are encoded with codec.RLP.MarshalToBytes and decoded back (bytes and decoded value compared with the model; oracle: round trip up to the documented canonical form, determinism incl. map insertion order, trailing bytes returned, every prefix rejected). malformed: structure-aware mutations of valid encodings (nil marker, extra/missing/duplicated/swapped items, widened integers, list<->string), non-canonical size headers, byte mutations, truncations, hostile size prefixes, valid bytes decoded into another type, random tag soup; decoded under a panic guard, a time limit and an allocation limit of 256 MiB, followed by a benign decode on the pooled decoder (oracle: no panic, remainder is a tail of the input, outermost declared size within the input, accepted values round-trip, pool clean; model: accept/reject, error class, value, remainder). non-trivial = encodings longer than one byte / non-empty inputs; distinct = distinct (type, bytes)",
		Gen:  gen, Replay: replay, Shard: 350,
	})
}
