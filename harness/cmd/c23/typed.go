package main

// typed.go / typeddict.go (codec.TypedObj, codec.TypedDict, MarshalAny/UnmarshalAny):
// covered by the direct oracle only — the recursive TypedObj is not part of the Coq
// universe.  Oracle: honest values round-trip through MarshalAny/UnmarshalAny and
// encode deterministically; arbitrary bytes never panic, never allocate beyond the limit,
// are rejected when the outermost declared size exceeds the input, and leave the pooled
// decoder clean.

import (
	"bytes"
	"encoding/hex"
	"fmt"
	"math/rand"
	"reflect"
	"runtime"
	"time"

	"github.com/icon-project/goloop/common/codec"
	"verif/harness/hxlib"
)

type tcodec struct{}

func (tcodec) Decode(tag uint8, data []byte) (interface{}, error) {
	if tag != codec.TypeCustom {
		return nil, fmt.Errorf("unknown tag %d", tag)
	}
	return customT(append([]byte{}, data...)), nil
}
func (tcodec) Encode(o interface{}) (uint8, []byte, error) {
	if c, ok := o.(customT); ok {
		return codec.TypeCustom, []byte(c), nil
	}
	return 0, nil, fmt.Errorf("unsupported %T", o)
}

type customT []byte

type typedIn struct {
	Mode  string `json:"mode"` // any | obj | pobj | pdict
	Hex   string `json:"hex,omitempty"`
	RSeed int64  `json:"rseed,omitempty"`
}

func genAny(r *rand.Rand, depth int) interface{} {
	n := 7
	if depth > 2 {
		n = 5
	}
	switch r.Intn(n) {
	case 0:
		return nil
	case 1:
		return string(genBytes(r, 2))
	case 2:
		if r.Intn(5) == 0 {
			return []byte(nil)
		}
		return genBytes(r, 2)
	case 3:
		return r.Intn(2) == 0
	case 4:
		return customT(genBytes(r, 2))
	case 5:
		l := make([]interface{}, r.Intn(4))
		for i := range l {
			l[i] = genAny(r, depth+1)
		}
		return l
	default:
		m := map[string]interface{}{}
		for i := r.Intn(4); i > 0; i-- {
			m[[]string{"", "a", "b", "ab", "k\x00", "\xff"}[r.Intn(6)]] = genAny(r, depth+1)
		}
		return m
	}
}

func oracleTypedEnc(rseed int64) (msg string, enc []byte) {
	r := rand.New(rand.NewSource(rseed))
	v := genAny(r, 0)
	var b, b2 []byte
	var err error
	if p := hxlib.Catch(func() { b, err = codec.MarshalAny(codec.RLP, tcodec{}, v) }); p != "" || err != nil {
		return fmt.Sprintf("MarshalAny(%#v): err=%v panic=%s", v, err, p), nil
	}
	b2, err = codec.MarshalAny(codec.RLP, tcodec{}, v)
	if err != nil || !bytes.Equal(b, b2) {
		return fmt.Sprintf("MarshalAny(%#v) twice: %x vs %x (%v)", v, b, b2, err), b
	}
	var back interface{}
	if p := hxlib.Catch(func() { back, err = codec.UnmarshalAny(codec.RLP, tcodec{}, b) }); p != "" || err != nil {
		return fmt.Sprintf("UnmarshalAny(%x) of an honest value: err=%v panic=%s", b, err, p), b
	}
	if !reflect.DeepEqual(v, back) {
		return fmt.Sprintf("MarshalAny/UnmarshalAny changes %#v into %#v (encoding %x)", v, back, b), b
	}
	if !sentinel() {
		return fmt.Sprintf("pooled decoder left dirty after UnmarshalAny(%x)", b), b
	}
	return "", b
}

func oracleTypedDec(mode string, b []byte) (msg string, accepted bool) {
	pre := fmt.Sprintf("typed(%s) decoding %s: ", mode, trunc(b))
	var err error
	var rest []byte
	var panicked string
	var alloc uint64
	dirty := false
	done := make(chan struct{})
	in := append([]byte{}, b...)
	go func() {
		defer close(done)
		var m0, m1 runtime.MemStats
		runtime.ReadMemStats(&m0)
		panicked = hxlib.Catch(func() {
			switch mode {
			case "any":
				_, err = codec.UnmarshalAny(codec.RLP, tcodec{}, in)
			case "obj":
				var to codec.TypedObj
				rest, err = codec.RLP.UnmarshalFromBytes(in, &to)
				if err == nil {
					_, _ = codec.DecodeAny(tcodec{}, &to)
				}
			case "pobj":
				var to *codec.TypedObj
				rest, err = codec.RLP.UnmarshalFromBytes(in, &to)
				if err == nil {
					_, _ = codec.DecodeAny(tcodec{}, to)
				}
			default:
				var m *codec.TypedDict
				rest, err = codec.RLP.UnmarshalFromBytes(in, &m)
			}
		})
		runtime.ReadMemStats(&m1)
		alloc = m1.TotalAlloc - m0.TotalAlloc
		if p := hxlib.Catch(func() { dirty = !sentinel() }); p != "" {
			dirty = true
		}
		if dirty {
			sentinel()
		}
	}()
	select {
	case <-done:
	case <-time.After(decodeTimeout):
		return pre + "does not terminate", false
	}
	switch {
	case panicked != "":
		return pre + "panic: " + panicked, false
	case alloc > allocLimit:
		return pre + fmt.Sprintf("allocates %d MiB for %d input bytes", alloc>>20, len(b)), err == nil
	}
	if err == nil {
		accepted = true
		if mode != "any" && (len(rest) > len(b) || !bytes.Equal(rest, b[len(b)-len(rest):])) {
			return pre + fmt.Sprintf("returned remainder %x is not the tail of the input", rest), true
		}
		if topDeclaredBeyond(b) {
			return pre + "declared size beyond input accepted", true
		}
	}
	if dirty {
		return pre + "pooled decoder left dirty (the next UnmarshalFromBytes call lost input bytes)", accepted
	}
	return "", accepted
}

func emitTypedDec(c *hxlib.Ctx, kind, mode string, b []byte) {
	msg, acc := oracleTypedDec(mode, b)
	noteSevere(msg)
	if acc {
		kind += "/accepted"
	} else {
		kind += "/rejected"
	}
	c.Emit(hxlib.Case{Kind: "typed-" + kind, Key: mode + "|" + hex.EncodeToString(b),
		Input:      map[string]interface{}{"t": "typed", "v": typedIn{Mode: mode, Hex: hex.EncodeToString(b)}},
		Nontrivial: len(b) > 0, OracleErr: msg})
}

func genTyped(c *hxlib.Ctx) {
	r := c.Rand
	var seeds [][]byte
	for i := 0; i < c.N(300); i++ {
		rs := r.Int63()
		msg, b := oracleTypedEnc(rs)
		c.Emit(hxlib.Case{Kind: "typed-enc", Key: fmt.Sprintf("typed|%x", b),
			Input:      map[string]interface{}{"t": "typed", "v": typedIn{Mode: "enc", RSeed: rs}},
			Nontrivial: len(b) > 2, OracleErr: msg})
		if b != nil && len(b) < 300 {
			seeds = append(seeds, b)
		}
	}
	if len(seeds) == 0 {
		return
	}
	modes := []string{"any", "any", "obj", "pobj", "pdict"}
	var items []malItem
	for i := 0; i < c.N(900); i++ {
		s := seeds[r.Intn(len(seeds))]
		mode := modes[r.Intn(len(modes))]
		var b []byte
		kind := ""
		switch x := r.Intn(100); {
		case x < 45:
			kind = "tree-mutation"
			root, _, ok := parseItem(s)
			if !ok {
				b = mutateBytes(r, s)
				break
			}
			for k := 1 + r.Intn(2); k > 0; k-- {
				mutateTree(r, root)
			}
			b = root.ser(0)
		case x < 70:
			kind = "byte-mutation"
			b = mutateBytes(r, s)
		case x < 78:
			kind = "truncated"
			b = s[:r.Intn(len(s))]
		case x < 84:
			kind = "hostile-size"
			b = hostile(r)
		case x < 90:
			kind = "nested-hostile-size"
			b = nestedHostile(r)
		default:
			kind = "random"
			b = randomBytes(r)
		}
		items = append(items, malItem{kind, "typed", mode, b})
	}
	if severe < severeCap {
		runBatch(c, items)
	}
}

func replayTyped(v typedIn) string {
	if v.Mode == "enc" {
		msg, _ := oracleTypedEnc(v.RSeed)
		return msg
	}
	b, _ := hex.DecodeString(v.Hex)
	if dies("typed", v.Mode, v.Hex) {
		return fmt.Sprintf("typed(%s) decoding %s: ", v.Mode, trunc(b)) + crashMsg
	}
	msg, _ := oracleTypedDec(v.Mode, b)
	return msg
}
