// c36: common.Address canonical text/byte forms vs Model_Address.
package main

import (
	"bytes"
	"encoding/hex"
	"encoding/json"
	"fmt"

	"github.com/icon-project/goloop/common"
	"github.com/icon-project/goloop/server/jsonrpc"
	"verif/harness/hxlib"
)


type strIn struct {
	S   string `json:"s_hex"`
	Pre int    `json:"pre"` // receiver state before the call: 0 zero value, 1 holds a contract address, 2 holds an EOA address
}

// receiver returns an Address value that was already used (addresses are reused in place by callers)
func receiver(pre int) common.Address {
	var a common.Address
	switch pre {
	case 1:
		a.SetTypeAndID(true, []byte{0xc1, 0xc2, 0xc3, 0xc4, 0xc5, 0xc6, 0xc7, 0xc8, 0xc9, 0xca, 0xcb, 0xcc, 0xcd, 0xce, 0xcf, 0xd0, 0xd1, 0xd2, 0xd3, 0xd4})
	case 2:
		a.SetTypeAndID(false, []byte{0xe1, 0xe2, 0xe3, 0xe4, 0xe5, 0xe6, 0xe7, 0xe8, 0xe9, 0xea, 0xeb, 0xec, 0xed, 0xee, 0xef, 0xf0, 0xf1, 0xf2, 0xf3, 0xf4})
	}
	return a
}
type addrIn struct {
	Contract bool   `json:"contract"`
	ID       string `json:"id_hex"`
}
type bytesIn struct {
	B   string `json:"b_hex"`
	Pre int    `json:"pre"`
}

func obs(a *common.Address, err error) string {
	if err != nil {
		return "None"
	}
	return fmt.Sprintf("(Some (%s, %s))", hxlib.CoqBool(a.IsContract()), hxlib.CoqBytes(a.ID()))
}

// direct oracle for a candidate string: strict accept => canonical; accept set == regex set
func oracleStr(s string, pre int) (string, string) {
	a := receiver(pre)
	err := a.SetStringStrict(s)
	re := rpcAccepts(s)
	msg := ""
	if err == nil {
		if a.String() != s {
			msg = fmt.Sprintf("strict parser accepted non-canonical %q (prints %q)", s, a.String())
		}
	}
	if (err == nil) != re && msg == "" {
		msg = fmt.Sprintf("strict parser accept=%v but RPC regex=%v on %q", err == nil, re, s)
	}
	return fmt.Sprintf("(CStr %s %s %s)", hxlib.CoqBytes([]byte(s)), obs(&a, err), hxlib.CoqBool(re)), msg
}

func oracleAddr(contract bool, id []byte) (string, string) {
	a := common.NewAddressWithTypeAndID(contract, id)
	s := a.String()
	msg := ""
	var b common.Address
	if err := b.SetStringStrict(s); err != nil {
		msg = fmt.Sprintf("String() %q rejected by strict parser: %v", s, err)
	} else if !bytes.Equal(a.Bytes(), b.Bytes()) {
		msg = fmt.Sprintf("String() %q parses to another address", s)
	}
	var c common.Address
	if err := c.SetBytes(a.Bytes()); err != nil || !bytes.Equal(c.Bytes(), a.Bytes()) {
		msg = fmt.Sprintf("Bytes() %x does not round-trip", a.Bytes())
	}
	var d common.Address
	if err := d.SetString(s); err != nil || !bytes.Equal(d.Bytes(), a.Bytes()) {
		msg = fmt.Sprintf("lenient parser does not return %q", s)
	}
	// receivers that held another address before (values are reused in place)
	for pre := 1; pre <= 2; pre++ {
		r1 := receiver(pre)
		if err := r1.SetStringStrict(s); err != nil || !bytes.Equal(r1.Bytes(), a.Bytes()) || r1.String() != s {
			msg = fmt.Sprintf("strict parser into a reused address value (pre-state %d) gives %x / %q for %q", pre, r1.Bytes(), r1.String(), s)
		}
		r2 := receiver(pre)
		if err := r2.SetString(s); err != nil || !bytes.Equal(r2.Bytes(), a.Bytes()) {
			msg = fmt.Sprintf("lenient parser into a reused address value (pre-state %d) gives %x for %q", pre, r2.Bytes(), s)
		}
		r3 := receiver(pre)
		r3.Set(a)
		if !bytes.Equal(r3.Bytes(), a.Bytes()) {
			msg = fmt.Sprintf("Set into a reused address value (pre-state %d) gives %x, want %x", pre, r3.Bytes(), a.Bytes())
		}
		r4 := receiver(pre)
		if err := r4.SetBytes(a.Bytes()); err != nil || !bytes.Equal(r4.Bytes(), a.Bytes()) {
			msg = fmt.Sprintf("SetBytes into a reused address value (pre-state %d) gives %x, want %x", pre, r4.Bytes(), a.Bytes())
		}
	}
	return fmt.Sprintf("(CAddr %s %s %s %s)", hxlib.CoqBool(contract), hxlib.CoqBytes(id),
		hxlib.CoqBytes([]byte(s)), hxlib.CoqBytes(a.Bytes())), msg
}

func oracleBytes(b []byte, pre int) (string, string) {
	a := receiver(pre)
	err := a.SetBytes(b)
	msg := ""
	if err == nil && len(b) == common.AddressBytes && !bytes.Equal(a.Bytes(), b) {
		msg = fmt.Sprintf("SetBytes(%x) accepted but Bytes() = %x", b, a.Bytes())
	}
	if err == nil && msg == "" {
		var c common.Address
		if e := c.SetStringStrict(a.String()); e != nil || !bytes.Equal(c.Bytes(), a.Bytes()) {
			msg = fmt.Sprintf("SetBytes(%x) gives an address whose text %q does not parse back to it", b, a.String())
		}
	}
	if err == nil && len(b) != 20 && len(b) != 21 {
		msg = fmt.Sprintf("SetBytes accepted %d bytes", len(b))
	}
	return fmt.Sprintf("(CBytes %s %s)", hxlib.CoqBytes(b), obs(&a, err)), msg
}

func gen(c *hxlib.Ctx) {
	r := c.Rand
	randID := func() []byte {
		id := make([]byte, 20)
		switch r.Intn(4) {
		case 0:
			r.Read(id)
		case 1: // sparse
			id[r.Intn(20)] = byte(r.Intn(256))
		case 2: // bytes around the digit/letter boundary
			for i := range id {
				id[i] = []byte{0x00, 0x09, 0x0a, 0x0f, 0x10, 0x99, 0x9a, 0xa0, 0xaf, 0xf0, 0xff}[r.Intn(11)]
			}
		default:
			r.Read(id[10:])
		}
		return id
	}
	// addresses
	for i := 0; i < c.N(800); i++ {
		id := randID()
		ct := r.Intn(2) == 0
		coq, msg := oracleAddr(ct, id)
		c.Emit(hxlib.Case{Kind: "addr", Coq: coq, Input: map[string]interface{}{"t": "addr", "v": addrIn{ct, hex.EncodeToString(id)}},
			Nontrivial: true, OracleErr: msg})
	}
	// candidate strings: canonical ones and mutations
	alphabet := []byte("0123456789abcdefABCDEFgGxXhc /:@`\x00\xff\xc3\xa9")
	for i := 0; i < c.N(1800); i++ {
		id := randID()
		s := []byte(common.NewAddressWithTypeAndID(r.Intn(2) == 0, id).String())
		kind := "str-canonical"
		switch r.Intn(10) {
		case 0, 1: // keep canonical
		case 2:
			kind = "str-upper"
			p := 2 + r.Intn(40)
			s[p] = bytes.ToUpper(s[p : p+1])[0]
		case 3:
			kind = "str-prefix"
			s[r.Intn(2)] = alphabet[r.Intn(len(alphabet))]
		case 4:
			kind = "str-short"
			s = s[:r.Intn(len(s))]
		case 5:
			kind = "str-long"
			n := 1 + r.Intn(3)
			for j := 0; j < n; j++ {
				s = append(s, alphabet[r.Intn(len(alphabet))])
			}
		case 6:
			kind = "str-subst"
			s[r.Intn(len(s))] = alphabet[r.Intn(len(alphabet))]
		case 7:
			kind = "str-subst-any"
			s[r.Intn(len(s))] = byte(r.Intn(256))
		case 8:
			kind = "str-newline"
			if r.Intn(2) == 0 {
				s = append(s, '\n')
			} else {
				s[len(s)-1] = '\n'
			}
		default:
			kind = "str-random"
			n := []int{0, 1, 2, 41, 42, 42, 42, 43}[r.Intn(8)]
			s = make([]byte, n)
			for j := range s {
				s[j] = alphabet[r.Intn(len(alphabet))]
			}
		}
		pre := r.Intn(3)
		coq, msg := oracleStr(string(s), pre)
		c.Emit(hxlib.Case{Kind: kind, Coq: coq, Input: map[string]interface{}{"t": "str", "v": strIn{hex.EncodeToString(s), pre}},
			Nontrivial: kind != "str-canonical" || true, OracleErr: msg})
	}
	// byte forms
	for i := 0; i < c.N(600); i++ {
		n := []int{0, 1, 19, 20, 20, 21, 21, 21, 22, 25}[r.Intn(10)]
		b := make([]byte, n)
		r.Read(b)
		if n > 0 && r.Intn(3) > 0 {
			b[0] = byte(r.Intn(3))
		}
		pre := r.Intn(3)
		coq, msg := oracleBytes(b, pre)
		c.Emit(hxlib.Case{Kind: fmt.Sprintf("bytes-%d", n), Coq: coq, Input: map[string]interface{}{"t": "bytes", "v": bytesIn{hex.EncodeToString(b), pre}},
			Nontrivial: n == 20 || n == 21, OracleErr: msg})
	}
	// canary: a wrong observation the model must flag
	c.Emit(hxlib.Case{Kind: "canary", Canary: true,
		Coq: fmt.Sprintf("(CStr %s None false)", hxlib.CoqBytes([]byte("hx0000000000000000000000000000000000000000")))})
}

func replay(raw json.RawMessage) string {
	var in struct {
		T string          `json:"t"`
		V json.RawMessage `json:"v"`
	}
	if err := json.Unmarshal(raw, &in); err != nil {
		return "bad replay input: " + err.Error()
	}
	switch in.T {
	case "str":
		var v strIn
		json.Unmarshal(in.V, &v)
		s, _ := hex.DecodeString(v.S)
		_, msg := oracleStr(string(s), v.Pre)
		return msg
	case "addr":
		var v addrIn
		json.Unmarshal(in.V, &v)
		id, _ := hex.DecodeString(v.ID)
		_, msg := oracleAddr(v.Contract, id)
		return msg
	case "bytes":
		var v bytesIn
		json.Unmarshal(in.V, &v)
		b, _ := hex.DecodeString(v.B)
		_, msg := oracleBytes(b, v.Pre)
		return msg
	}
	return "unknown case type " + in.T
}

// rpcAccepts asks the REAL JSON-RPC validator (the registered tags t_addr, t_addr_eoa,
// t_addr_score), not a copy of its regular expressions.
var rpcValidator = jsonrpc.NewValidator()

func rpcAccepts(s string) bool {
	any := rpcValidator.Validate(struct {
		A string `validate:"t_addr"`
	}{s}) == nil
	eoa := rpcValidator.Validate(struct {
		A string `validate:"t_addr_eoa"`
	}{s}) == nil
	score := rpcValidator.Validate(struct {
		A string `validate:"t_addr_score"`
	}{s}) == nil
	if any != (eoa || score) {
		// t_addr must be exactly the union of the two; report as "accepts" so the mismatch with the
		// strict parser shows up as an oracle failure on this input
		return any || eoa || score
	}
	return any
}

func main() {
	hxlib.Main(hxlib.Spec{
		ID:   "C36",
		Rule: "random/sparse/boundary 20-byte ids printed and re-parsed; candidate strings = canonical strings with one mutation class each (case, prefix, length, substitution, newline) plus random strings of critical lengths; byte strings of lengths 0..25 with type byte in {0,1,2}; non-trivial = every address/string case and byte strings of length 20 or 21; distinct = distinct Coq case term",
		Gen:  gen, Replay: replay,
	})
}
