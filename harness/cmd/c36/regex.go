package main

import (
	"fmt"
	"os"
	"regexp"
)

// regexFromSource reads the two address expressions out of
// /repo/server/jsonrpc/validator.go (they are unexported package variables), so
// the harness always tests what the source says now.
func regexFromSource() (*regexp.Regexp, *regexp.Regexp) {
	root := os.Getenv("VERIF_REPO")
	if root == "" {
		root = "/repo"
	}
	src, err := os.ReadFile(root + "/server/jsonrpc/validator.go")
	if err != nil {
		fmt.Fprintln(os.Stderr, "c36:", err)
		os.Exit(2)
	}
	get := func(name string) *regexp.Regexp {
		m := regexp.MustCompile(name + `\s*=\s*regexp\.MustCompile\("((?:[^"\\]|\\.)*)"\)`).FindSubmatch(src)
		if m == nil {
			fmt.Fprintln(os.Stderr, "c36: cannot find", name, "in validator.go")
			os.Exit(2)
		}
		return regexp.MustCompile(string(m[1]))
	}
	return get("eoaAddressRegex"), get("scoreAddressRegex")
}
