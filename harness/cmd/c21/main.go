// c21: common/containerdb key builders, SplitKeys, ToBytes and VarDB/ArrayDB/DictDB
// vs Model_ContainerKey, plus the direct oracles (distinct paths => distinct keys,
// split(append) = parts, containers behave like Go slices / maps).
package main

import (
	"bytes"
	"encoding/hex"
	"encoding/json"
	"fmt"
	"math/big"
	"math/rand"
	"strings"

	"github.com/icon-project/goloop/common"
	"github.com/icon-project/goloop/common/containerdb"
	"github.com/icon-project/goloop/common/crypto"
	"github.com/icon-project/goloop/service/scoreresult"
	"verif/harness/hxlib"
)

// ------------------------------------------------------------------ typed values

type tval struct {
	T   string `json:"t"` // int int16 int32 int64 bool addr str bytes byte
	I   int64  `json:"i,omitempty"`
	B   bool   `json:"b,omitempty"`
	Lit string `json:"lit,omitempty"` // hex: address id; literal head of a str/bytes
	Rep int    `json:"rep,omitempty"` // ... followed by Rep copies of X
	X   byte   `json:"x,omitempty"`
}

func (v tval) raw() []byte {
	b, _ := hex.DecodeString(v.Lit)
	if b == nil {
		b = []byte{}
	}
	if v.Rep > 0 {
		b = append(b, bytes.Repeat([]byte{v.X}, v.Rep)...)
	}
	return b
}

func (v tval) goVal() interface{} {
	switch v.T {
	case "int":
		return int(v.I)
	case "int16":
		return int16(v.I)
	case "int32":
		return int32(v.I)
	case "int64":
		return v.I
	case "bool":
		return v.B
	case "addr":
		return common.NewAddressWithTypeAndID(v.B, v.raw())
	case "str":
		return string(v.raw())
	case "bytes":
		return v.raw()
	case "byte":
		return v.X
	}
	panic("bad tval " + v.T)
}

// reference ToBytes, written independently of the code under test
func refInt(v int64) []byte {
	x := big.NewInt(v)
	for n := 1; ; n++ {
		lim := new(big.Int).Lsh(big.NewInt(1), uint(8*n-1))
		if x.Cmp(new(big.Int).Neg(lim)) >= 0 && x.Cmp(lim) < 0 {
			if x.Sign() < 0 {
				x = new(big.Int).Add(x, new(big.Int).Lsh(big.NewInt(1), uint(8*n)))
			}
			out := make([]byte, n)
			x.FillBytes(out)
			return out
		}
	}
}

func (v tval) ref() []byte {
	switch v.T {
	case "int", "int16", "int32", "int64":
		return refInt(v.I)
	case "bool":
		if v.B {
			return []byte{1}
		}
		return []byte{0}
	case "addr":
		t := byte(0)
		if v.B {
			t = 1
		}
		return append([]byte{t}, v.raw()...)
	case "str", "bytes":
		return v.raw()
	case "byte":
		return []byte{v.X}
	}
	panic("bad tval")
}

func rleCoq(b []byte) string {
	var segs []string
	lit := []byte{}
	flush := func() {
		if len(lit) > 0 {
			segs = append(segs, "L "+hxlib.CoqBytes(lit))
			lit = []byte{}
		}
	}
	for i := 0; i < len(b); {
		j := i
		for j < len(b) && b[j] == b[i] {
			j++
		}
		if j-i >= 12 {
			flush()
			segs = append(segs, fmt.Sprintf("R %d %d", j-i, b[i]))
		} else {
			lit = append(lit, b[i:j]...)
		}
		i = j
	}
	flush()
	return "[" + strings.Join(segs, "; ") + "]"
}

func (v tval) coq() string {
	switch v.T {
	case "int", "int16", "int32", "int64":
		return "TInt " + hxlib.CoqZ(v.I)
	case "bool":
		return "TBool " + hxlib.CoqBool(v.B)
	case "addr":
		return fmt.Sprintf("TAddr %s %s", hxlib.CoqBool(v.B), hxlib.CoqBytes(v.raw()))
	case "str":
		if v.Rep == 0 {
			return "TS " + hxlib.CoqBytes(v.raw())
		}
		return "TStr " + rleCoq(v.raw())
	case "bytes":
		if v.Rep == 0 {
			return "TB " + hxlib.CoqBytes(v.raw())
		}
		return "TBytes " + rleCoq(v.raw())
	case "byte":
		return fmt.Sprintf("TByte %d", v.X)
	}
	panic("bad tval")
}

func coqTvs(l []tval) string {
	a := make([]string, len(l))
	for i, v := range l {
		a[i] = v.coq()
	}
	return hxlib.CoqList(a)
}

func goVals(l []tval) []interface{} {
	a := make([]interface{}, len(l))
	for i, v := range l {
		a[i] = v.goVal()
	}
	return a
}

func refParts(l []tval) [][]byte {
	a := make([][]byte, len(l))
	for i, v := range l {
		a[i] = v.ref()
	}
	return a
}

// ------------------------------------------------------------------ reference key encoding

func refLenBytes(n int) []byte {
	var b []byte
	for ; n > 0; n >>= 8 {
		b = append([]byte{byte(n)}, b...)
	}
	return b
}

func refItem(b []byte) []byte {
	switch {
	case len(b) == 1 && b[0] < 0x80:
		return []byte{b[0]}
	case len(b) < 56:
		return append([]byte{byte(0x80 + len(b))}, b...)
	default:
		l := refLenBytes(len(b))
		return append(append([]byte{byte(0xb7 + len(l))}, l...), b...)
	}
}

func refConcat(parts [][]byte) []byte {
	out := []byte{}
	for _, p := range parts {
		out = append(out, refItem(p)...)
	}
	return out
}

var btNames = []string{"KHash", "KPrefixedHash", "KRlp", "KRaw"}

type htab map[string][]byte // preimage -> sha3

func (h htab) add(pre []byte) []byte {
	d := crypto.SHA3Sum256(pre)
	h[string(pre)] = d
	return d
}

func (h htab) coq() string {
	var a []string
	for k, v := range h {
		a = append(a, "("+rleCoq([]byte(k))+", "+hxlib.CoqBytes(v)+")")
	}
	// order is irrelevant for a lookup table, but keep the file deterministic
	sortStrings(a)
	return "(map (fun p => (unrle (fst p), snd p)) [" + strings.Join(a, "; ") + "])"
}

func sortStrings(a []string) {
	for i := 1; i < len(a); i++ {
		for j := i; j > 0 && a[j] < a[j-1]; j-- {
			a[j], a[j-1] = a[j-1], a[j]
		}
	}
}

// refKey: the storage key of the path (all parts, ToKey ones first) under builder type bt
func refKey(bt int, parts [][]byte, h htab) []byte {
	switch containerdb.KeyBuilderType(bt) {
	case containerdb.HashBuilder:
		return h.add(refConcat(parts))
	case containerdb.PrefixedHashBuilder:
		d := h.add(refConcat(parts[1:]))
		return append(append([]byte{}, parts[0]...), refItem(d)...)
	case containerdb.RLPBuilder:
		return refConcat(parts)
	default:
		out := []byte{}
		for _, p := range parts {
			out = append(out, p...)
		}
		return out
	}
}

// ------------------------------------------------------------------ key tuples

type tuple struct {
	BT    int      `json:"bt"`
	First []tval   `json:"first"`
	Apps  [][]tval `json:"apps"`
}

func (t tuple) all() []tval {
	a := append([]tval{}, t.First...)
	for _, x := range t.Apps {
		a = append(a, x...)
	}
	return a
}

func (t tuple) build() []byte {
	kb := containerdb.ToKey(containerdb.KeyBuilderType(t.BT), goVals(t.First)...)
	for _, a := range t.Apps {
		kb = kb.Append(goVals(a)...)
	}
	return kb.Build()
}

func canon(parts [][]byte) string {
	var sb strings.Builder
	for _, p := range parts {
		fmt.Fprintf(&sb, "%d:", len(p))
		sb.Write(p)
	}
	return sb.String()
}

// oracle for one tuple: ToBytes per part, SplitKeys(append) = parts for the RLP builder
func tupleOracle(t tuple) (built []byte, h htab, msg string) {
	h = htab{}
	if p := hxlib.Catch(func() { built = t.build() }); p != "" {
		return nil, h, "panic building the key: " + p
	}
	parts := refParts(t.all())
	// the code's own ToBytes of every part: what SplitKeys has to give back
	own := make([][]byte, len(parts))
	for i, v := range t.all() {
		if p := hxlib.Catch(func() { own[i] = containerdb.ToBytes(v.goVal()) }); p != "" {
			return built, h, "ToBytes panics: " + p
		}
	}
	if containerdb.KeyBuilderType(t.BT) == containerdb.RLPBuilder {
		var sp [][]byte
		var err error
		if p := hxlib.Catch(func() { sp, err = containerdb.SplitKeys(built) }); p != "" {
			return built, h, "SplitKeys panics: " + p
		}
		if err != nil {
			msg = fmt.Sprintf("SplitKeys fails on a key built from %d parts (lengths %v): %v", len(own), lens(own), err)
		} else if len(sp) != len(own) {
			msg = fmt.Sprintf("SplitKeys returns %d parts for a key built from %d parts (lengths %v)", len(sp), len(own), lens(own))
		} else {
			for i := range sp {
				if !bytes.Equal(sp[i], own[i]) {
					msg = fmt.Sprintf("SplitKeys part %d = %x, the key was built from %x", i, cut(sp[i]), cut(own[i]))
					break
				}
			}
		}
	}
	// last: the harness's reference encoding (keeps the distinctness bookkeeping honest)
	for i, v := range t.all() {
		if !bytes.Equal(own[i], parts[i]) && msg == "" {
			msg = fmt.Sprintf("ToBytes(%s %v) = %x, the value's canonical bytes are %x", v.T, short(v), cut(own[i]), cut(parts[i]))
		}
	}
	want := refKey(t.BT, parts, h)
	if !bytes.Equal(built, want) && msg == "" {
		msg = fmt.Sprintf("%s key of %d parts is %x, expected %x", btNames[t.BT], len(parts), cut(built), cut(want))
	}
	return
}

func lens(p [][]byte) []int {
	a := make([]int, len(p))
	for i := range p {
		a[i] = len(p[i])
	}
	return a
}
func cut(b []byte) []byte {
	if len(b) > 40 {
		return b[:40]
	}
	return b
}
func short(v tval) string {
	switch v.T {
	case "bool":
		return fmt.Sprint(v.B)
	case "int", "int16", "int32", "int64":
		return fmt.Sprint(v.I)
	}
	return fmt.Sprintf("len=%d", len(v.raw()))
}

func pairOracle(a, b tuple) string {
	if a.BT != b.BT || containerdb.KeyBuilderType(a.BT) == containerdb.RawBuilder {
		return ""
	}
	pa, pb := refParts(a.all()), refParts(b.all())
	if containerdb.KeyBuilderType(a.BT) == containerdb.PrefixedHashBuilder && len(pa[0]) != len(pb[0]) {
		return "" // raw prefixes of different length are not separated by design
	}
	if canon(pa) == canon(pb) {
		return ""
	}
	var ka, kb []byte
	if p := hxlib.Catch(func() { ka, kb = a.build(), b.build() }); p != "" {
		return "panic building the key: " + p
	}
	if bytes.Equal(ka, kb) {
		return fmt.Sprintf("two different paths (part lengths %v and %v) map to the same %s key %x", lens(pa), lens(pb), btNames[a.BT], cut(ka))
	}
	return ""
}

var intBoundary = []int64{0, 1, -1, 2, 127, 128, -127, -128, -129, 255, 256, -255, -256, -257, 32767, 32768, -32768, -32769,
	65535, 65536, 8388607, 8388608, -8388608, -8388609, 2147483647, 2147483648, -2147483648, -2147483649,
	1<<39 - 1, 1 << 39, -(1 << 39), -(1 << 39) - 1, 1<<47 - 1, 1 << 47, -(1 << 47), -(1 << 47) - 1, 1<<55 - 1, 1 << 55, -(1 << 55), -(1 << 55) - 1,
	1<<63 - 1, -(1 << 63), 1<<63 - 2, -(1 << 63) + 1, 97}

func randInt(r *rand.Rand) tval {
	var v int64
	switch r.Intn(4) {
	case 0, 1:
		v = intBoundary[r.Intn(len(intBoundary))]
	case 2:
		v = int64(r.Intn(600)) - 300
	default:
		v = int64(r.Uint64()) >> uint(r.Intn(64))
		if r.Intn(2) == 0 {
			v = -v - 1
		}
	}
	t := "int"
	switch {
	case v >= -32768 && v <= 32767 && r.Intn(3) == 0:
		t = "int16"
	case v >= -(1<<31) && v < 1<<31 && r.Intn(3) == 0:
		t = "int32"
	case r.Intn(3) == 0:
		t = "int64"
	}
	return tval{T: t, I: v}
}

var partLens = []int{0, 1, 55, 56, 255, 256, 65535, 65536}

func randBlob(r *rand.Rand, allowHuge bool) tval {
	t := "str"
	if r.Intn(2) == 0 {
		t = "bytes"
	}
	var n int
	switch r.Intn(10) {
	case 0, 1, 2, 3:
		n = partLens[r.Intn(len(partLens))]
	case 4:
		n = []int{2, 54, 57, 254, 257}[r.Intn(5)]
	default:
		n = r.Intn(6)
	}
	if n >= 65535 && !allowHuge {
		n = []int{55, 56, 255, 256}[r.Intn(4)]
	}
	switch {
	case n == 1:
		return tval{T: t, Lit: hex.EncodeToString([]byte{[]byte{0, 1, 0x7f, 0x80, 0x81, 0xb7, 0xb8, 0xc0, 0xff, 'a'}[r.Intn(10)]})}
	case n <= 57:
		b := make([]byte, n)
		r.Read(b)
		if n > 0 && r.Intn(3) == 0 { // first byte that looks like a header of another item
			b[0] = []byte{0x80, 0xb7, 0xb8, 0xb9, 56, 55, byte(n), byte(n + 2), 0}[r.Intn(9)]
		}
		return tval{T: t, Lit: hex.EncodeToString(b)}
	default:
		head := make([]byte, 1+r.Intn(3))
		r.Read(head)
		return tval{T: t, Lit: hex.EncodeToString(head), Rep: n - len(head), X: byte(r.Intn(256))}
	}
}

func randPart(r *rand.Rand, allowHuge bool) tval {
	switch x := r.Intn(100); {
	case x < 30:
		return randInt(r)
	case x < 38:
		return tval{T: "bool", B: r.Intn(2) == 0}
	case x < 48:
		id := make([]byte, 20)
		if r.Intn(3) > 0 {
			r.Read(id)
		} else {
			id[19] = byte(r.Intn(3))
		}
		return tval{T: "addr", B: r.Intn(2) == 0, Lit: hex.EncodeToString(id)}
	case x < 53:
		return tval{T: "byte", X: []byte{0, 1, 2, 0x7f, 0x80, 0xff}[r.Intn(6)]}
	default:
		return randBlob(r, allowHuge)
	}
}

func randTuple(r *rand.Rand) tuple {
	bt := []int{2, 2, 2, 2, 0, 0, 0, 1, 1, 3}[r.Intn(10)]
	t := tuple{BT: bt}
	huge := r.Intn(25) == 0
	n := 1 + r.Intn(4)
	if bt != 1 && r.Intn(12) == 0 {
		n = 0
	}
	for i := 0; i < n; i++ {
		p := randPart(r, huge)
		if p.Rep > 60000 {
			huge = false
		}
		t.First = append(t.First, p)
	}
	for k := r.Intn(3); k > 0; k-- {
		var a []tval
		for i := r.Intn(4); i > 0; i-- {
			p := randPart(r, huge)
			if p.Rep > 60000 {
				huge = false
			}
			a = append(a, p)
		}
		t.Apps = append(t.Apps, a)
	}
	return t
}

func coqKeyCase(t tuple, built []byte, h htab) string {
	var apps []string
	for _, a := range t.Apps {
		apps = append(apps, coqTvs(a))
	}
	return fmt.Sprintf("(CKey %s %s %s %s (Some %s))", btNames[t.BT], coqTvs(t.First), hxlib.CoqList(apps), h.coq(), rleCoq(built))
}

// ------------------------------------------------------------------ split

func splitCase(key []byte) (coq string, msg string) {
	var sp [][]byte
	var err error
	if p := hxlib.Catch(func() { sp, err = containerdb.SplitKeys(key) }); p != "" {
		return "", "SplitKeys panics on " + hex.EncodeToString(cut(key)) + ": " + p
	}
	if err != nil {
		return fmt.Sprintf("(CSplit %s None)", rleCoq(key)), ""
	}
	var a []string
	for _, p := range sp {
		a = append(a, rleCoq(p))
	}
	return fmt.Sprintf("(CSplit %s (Some %s))", rleCoq(key), hxlib.CoqList(a)), ""
}

// ------------------------------------------------------------------ store stub

type mapStore struct{ m map[string][]byte }

func (s *mapStore) GetValue(k []byte) ([]byte, error) {
	v, ok := s.m[string(k)]
	if !ok {
		return nil, nil
	}
	return append([]byte{}, v...), nil
}
func (s *mapStore) SetValue(k []byte, v []byte) ([]byte, error) {
	old := s.m[string(k)]
	s.m[string(k)] = append([]byte{}, v...)
	return old, nil
}
func (s *mapStore) DeleteValue(k []byte) ([]byte, error) {
	old := s.m[string(k)]
	delete(s.m, string(k))
	return old, nil
}

// ------------------------------------------------------------------ histories

type cdesc struct {
	Kind  string `json:"kind"` // var arr dict
	Parts []tval `json:"parts"`
	Depth int    `json:"depth,omitempty"`
}

type hop struct {
	O     string   `json:"o"` // vset vget vdel put pop get set size dget dset dset0 ddel
	C     int      `json:"c"`
	I     int64    `json:"i,omitempty"`
	V     *tval    `json:"v,omitempty"`
	Chain [][]tval `json:"chain,omitempty"`
	Keys  []tval   `json:"keys,omitempty"`
	Hd    int      `json:"hd,omitempty"`   // which of the live handles on the container's path performs the operation
	Slot  int      `json:"slot,omitempty"` // >0: dopen keeps the sub-dictionary of Chain in this slot; d* ops with the slot use the kept handle
}

type history struct {
	Spare bool    `json:"spare,omitempty"` // builders are siblings derived from one NewHashKey over a prefix slice with spare capacity
	BT    int     `json:"bt"`
	Cs    []cdesc `json:"cs"`
	Ops   []hop   `json:"ops"`
}

func optB(b []byte) string {
	if b == nil {
		return "None"
	}
	return "(Some " + hxlib.CoqBytes(b) + ")"
}

func (o hop) coq() string {
	var ch []string
	for _, c := range o.Chain {
		ch = append(ch, coqTvs(c))
	}
	chain := hxlib.CoqList(ch)
	switch o.O {
	case "vset":
		return fmt.Sprintf("HVSet %d (%s)", o.C, o.V.coq())
	case "vget":
		return fmt.Sprintf("HVGet %d", o.C)
	case "vdel":
		return fmt.Sprintf("HVDel %d", o.C)
	case "put":
		return fmt.Sprintf("HAPut %d (%s)", o.C, o.V.coq())
	case "pop":
		return fmt.Sprintf("HAPop %d", o.C)
	case "get":
		return fmt.Sprintf("HAGet %d %s", o.C, hxlib.CoqZ(o.I))
	case "set":
		return fmt.Sprintf("HASet %d %s (%s)", o.C, hxlib.CoqZ(o.I), o.V.coq())
	case "size":
		return fmt.Sprintf("HASize %d", o.C)
	case "dget":
		return fmt.Sprintf("HDGet %d %s %s", o.C, chain, coqTvs(o.Keys))
	case "dset":
		return fmt.Sprintf("HDSet %d %s %s (%s)", o.C, chain, coqTvs(o.Keys), o.V.coq())
	case "dset0", "dopen":
		return fmt.Sprintf("HDSet0 %d %s", o.C, chain)
	case "snap":
		return "HSnap"
	case "rollback":
		return "HRollback"
	case "ddel":
		return fmt.Sprintf("HDDel %d %s %s", o.C, chain, coqTvs(o.Keys))
	}
	panic("bad op")
}

func errRes(err error) string {
	switch {
	case err == nil:
		return "ROk"
	case err == scoreresult.ErrInvalidContainerAccess:
		return "RAccess"
	}
	return "RPanic"
}

func valRes(v containerdb.Value) (string, []byte, bool) {
	if v == nil {
		return "RNil", nil, false
	}
	b := v.Bytes()
	return "RVal " + optB(b), b, true
}

const nHandles = 3

// runs a history on the implementation and on plain Go slices/maps (the direct oracle);
// the reference is per PATH: every container has nHandles live handles on the same store and key
func execHist(h history) (outs []string, tab htab, msg string) {
	tab = htab{}
	store := &mapStore{m: map[string][]byte{}}
	bt := containerdb.KeyBuilderType(h.BT)
	type cont struct {
		v    *containerdb.VarDB
		a    *containerdb.ArrayDB
		d    *containerdb.DictDB
		vs   []*containerdb.VarDB
		as   []*containerdb.ArrayDB
		ds   []*containerdb.DictDB
		base [][]byte
		// reference
		rv []byte
		ra [][]byte
		rd map[string][]byte
	}
	cs := make([]*cont, len(h.Cs))
	var root containerdb.KeyBuilder
	if h.Spare && len(h.Cs) > 0 && len(h.Cs[0].Parts) > 0 {
		// all containers hang below one parent builder whose prefix slice has spare capacity
		root = containerdb.NewHashKey(make([]byte, 0, 160), h.Cs[0].Parts[0].goVal())
	}
	held := map[int]*containerdb.DictDB{}
	for i, d := range h.Cs {
		c := &cont{base: refParts(d.Parts), rd: map[string][]byte{}}
		kb := containerdb.ToKey(bt, goVals(d.Parts)...)
		if root != nil {
			kb = root.Append(goVals(d.Parts[1:])...)
		}
		// several live handles on the same path and store
		for k := 0; k < nHandles; k++ {
			switch d.Kind {
			case "var":
				c.vs = append(c.vs, containerdb.NewVarDB(store, kb))
			case "arr":
				c.as = append(c.as, containerdb.NewArrayDB(store, kb))
			case "dict":
				c.ds = append(c.ds, containerdb.NewDictDB(store, d.Depth, kb))
			}
		}
		refKey(h.BT, c.base, tab)
		cs[i] = c
	}
	fail := func(i int, f string, a ...interface{}) {
		if msg == "" {
			msg = fmt.Sprintf("op %d (%s on container %d): ", i, h.Ops[i].O, h.Ops[i].C) + fmt.Sprintf(f, a...)
		}
	}
	same := func(a, b []byte) bool { return (a == nil) == (b == nil) && bytes.Equal(a, b) }
	slot := func(c *cont, extra ...[]byte) { refKey(h.BT, append(append([][]byte{}, c.base...), extra...), tab) }
	type snapshot struct {
		m  map[string][]byte
		rv [][]byte
		ra [][][]byte
		rd []map[string][]byte
	}
	take := func() snapshot {
		sn := snapshot{m: map[string][]byte{}}
		for k, v := range store.m {
			sn.m[k] = v
		}
		for _, c := range cs {
			sn.rv = append(sn.rv, c.rv)
			sn.ra = append(sn.ra, append([][]byte{}, c.ra...))
			rd := map[string][]byte{}
			for k, v := range c.rd {
				rd[k] = v
			}
			sn.rd = append(sn.rd, rd)
		}
		return sn
	}
	snap := take()
	for i, o := range h.Ops {
		if o.O == "snap" {
			snap = take()
			outs = append(outs, "ROk")
			continue
		}
		if o.O == "rollback" {
			// the state is reset under the live handles (a reverted transaction): they are kept
			store.m = map[string][]byte{}
			for k, v := range snap.m {
				store.m[k] = v
			}
			for j, c := range cs {
				c.rv = snap.rv[j]
				c.ra = append([][]byte{}, snap.ra[j]...)
				c.rd = map[string][]byte{}
				for k, v := range snap.rd[j] {
					c.rd[k] = v
				}
			}
			outs = append(outs, "ROk")
			continue
		}
		c := cs[o.C]
		if hd := o.Hd % nHandles; len(c.vs) > 0 {
			c.v = c.vs[hd]
		} else if len(c.as) > 0 {
			c.a = c.as[hd]
		} else if len(c.ds) > 0 {
			c.d = c.ds[hd]
		}
		var vb []byte
		if o.V != nil {
			vb = o.V.ref()
		}
		switch o.O {
		case "vset":
			outs = append(outs, errRes(c.v.Set(o.V.goVal())))
			c.rv = vb
		case "vget":
			b := c.v.Bytes()
			outs = append(outs, "RVal "+optB(b))
			if !same(b, c.rv) {
				fail(i, "variable holds %x, last value written was %x", b, c.rv)
			}
		case "vdel":
			old, err := c.v.Delete()
			if err != nil || old == nil {
				outs = append(outs, "RPanic")
				fail(i, "Delete failed: %v", err)
				continue
			}
			outs = append(outs, "RVal "+optB(old.Bytes()))
			if !same(old.Bytes(), c.rv) {
				fail(i, "Delete returned %x, the variable held %x", old.Bytes(), c.rv)
			}
			c.rv = nil
		case "put":
			slot(c, refInt(int64(len(c.ra))))
			outs = append(outs, errRes(c.a.Put(o.V.goVal())))
			c.ra = append(c.ra, vb)
		case "pop":
			if len(c.ra) > 0 {
				slot(c, refInt(int64(len(c.ra)-1)))
			}
			r, b, ok := valRes(c.a.Pop())
			outs = append(outs, r)
			if len(c.ra) == 0 {
				if ok {
					fail(i, "Pop on an empty array returned a value %x", b)
				}
			} else {
				if !ok || !same(b, c.ra[len(c.ra)-1]) {
					fail(i, "Pop returned %s, the last element was %x (array length %d)", r, c.ra[len(c.ra)-1], len(c.ra))
				}
				c.ra = c.ra[:len(c.ra)-1]
			}
		case "get":
			slot(c, refInt(o.I))
			r, b, ok := valRes(c.a.Get(int(o.I)))
			outs = append(outs, r)
			if o.I >= 0 && o.I < int64(len(c.ra)) {
				if !ok || !same(b, c.ra[o.I]) {
					fail(i, "Get(%d) returned %s, element is %x (array length %d)", o.I, r, c.ra[o.I], len(c.ra))
				}
			} else if ok {
				fail(i, "Get(%d) outside the array (length %d) returned a value %x", o.I, len(c.ra), b)
			}
		case "set":
			slot(c, refInt(o.I))
			err := c.a.Set(int(o.I), o.V.goVal())
			outs = append(outs, errRes(err))
			if o.I >= 0 && o.I < int64(len(c.ra)) {
				if err != nil {
					fail(i, "Set(%d) inside the array (length %d) failed: %v", o.I, len(c.ra), err)
				}
				c.ra[o.I] = vb
			} else if err == nil {
				fail(i, "Set(%d) outside the array (length %d) succeeded", o.I, len(c.ra))
			}
		case "size":
			n := c.a.Size()
			outs = append(outs, "RInt "+hxlib.CoqZ(n))
			if n != len(c.ra) {
				fail(i, "Size() = %d after a history that leaves %d elements", n, len(c.ra))
			}
		case "dget", "dset", "dset0", "ddel", "dopen":
			d := c.d
			depth := h.Cs[o.C].Depth
			var path [][]byte
			kept, useKept := held[o.C*100+o.Slot]
			useKept = useKept && o.Slot > 0 && o.O != "dopen"
			for _, ks := range o.Chain {
				if d != nil && !useKept {
					d = d.GetDB(goVals(ks)...)
				}
				if len(ks) >= depth {
					depth = -1 // nil sub-dictionary expected
					break
				}
				depth -= len(ks)
				path = append(path, refParts(ks)...)
			}
			if useKept {
				d = kept
			}
			if o.O == "dopen" && d != nil && depth >= 0 {
				held[o.C*100+o.Slot] = d
			}
			if d == nil || depth < 0 {
				outs = append(outs, "RNil")
				if (d == nil) != (depth < 0) {
					fail(i, "GetDB chain returned nil=%v, expected nil=%v", d == nil, depth < 0)
				}
				continue
			}
			full := append(path, refParts(o.Keys)...)
			arityOK := len(o.Keys) == depth && o.O != "dopen" && o.O != "dset0"
			mk := canon(full)
			if arityOK {
				slot(c, full...)
			}
			switch o.O {
			case "dget":
				r, b, ok := valRes(d.Get(goVals(o.Keys)...))
				outs = append(outs, r)
				w, has := c.rd[mk]
				if !arityOK {
					has = false
				}
				if ok != has || (ok && !same(b, w)) {
					fail(i, "Get of a %d-part key returned %s, the map holds %x (present=%v)", len(full), r, w, has)
				}
			case "dset":
				err := d.Set(append(goVals(o.Keys), o.V.goVal())...)
				outs = append(outs, errRes(err))
				if arityOK != (err == nil) {
					fail(i, "Set with %d keys on depth %d: err=%v", len(o.Keys), depth, err)
				}
				if arityOK {
					c.rd[mk] = vb
				}
			case "dset0", "dopen":
				outs = append(outs, errRes(d.Set()))
			case "ddel":
				err := d.Delete(goVals(o.Keys)...)
				outs = append(outs, errRes(err))
				if arityOK != (err == nil) {
					fail(i, "Delete with %d keys on depth %d: err=%v", len(o.Keys), depth, err)
				}
				if arityOK {
					delete(c.rd, mk)
				}
			}
		}
	}
	return
}

func runHist(h history) (outs []string, tab htab, msg string) {
	if p := hxlib.Catch(func() { outs, tab, msg = execHist(h) }); p != "" {
		msg = "panic: " + p
	}
	return
}

func smallVal(r *rand.Rand) *tval {
	var v tval
	switch r.Intn(8) {
	case 0, 1:
		v = randInt(r)
	case 2:
		v = tval{T: "bool", B: r.Intn(2) == 0}
	case 3:
		v = tval{T: "str"} // empty string
	case 4:
		v = tval{T: "addr", B: r.Intn(2) == 0, Lit: hex.EncodeToString(bytes.Repeat([]byte{byte(r.Intn(4))}, 20))}
	default:
		b := make([]byte, 1+r.Intn(4))
		r.Read(b)
		v = tval{T: []string{"str", "bytes"}[r.Intn(2)], Lit: hex.EncodeToString(b)}
	}
	return &v
}

func dictKey(r *rand.Rand) tval {
	switch r.Intn(8) {
	case 0:
		return tval{T: "int", I: 97} // same bytes as the string "a": one key by design
	case 1, 2:
		return tval{T: "int", I: int64(r.Intn(4)) - 1}
	case 3:
		return tval{T: "bool", B: r.Intn(2) == 0}
	case 4:
		return tval{T: "str"}
	case 5:
		return tval{T: "addr", B: true, Lit: hex.EncodeToString(bytes.Repeat([]byte{byte(r.Intn(2))}, 20))}
	default:
		return tval{T: "str", Lit: hex.EncodeToString([]byte([]string{"a", "b", "ab", "\x81a"}[r.Intn(4)]))}
	}
}

func genHistory(r *rand.Rand) history {
	bt := []int{2, 2, 2, 2, 0, 0, 0, 0, 1, 3}[r.Intn(10)]
	tag := func(b byte) tval { return tval{T: "byte", X: b} }
	name := func(s string) tval { return tval{T: "str", Lit: hex.EncodeToString([]byte(s))} }
	h := history{BT: bt}
	h.Cs = []cdesc{
		{Kind: "var", Parts: []tval{tag(2), name("a")}},
		{Kind: "arr", Parts: []tval{tag(0), name("a")}},
		{Kind: "arr", Parts: []tval{tag(0), name("ab")}},
	}
	if bt != 3 { // the raw builder concatenates: variable-length dictionary keys are ambiguous by design
		h.Cs = append(h.Cs,
			cdesc{Kind: "dict", Parts: []tval{tag(1), name("a")}, Depth: 2},
			cdesc{Kind: "dict", Parts: []tval{tag(1), name("b")}, Depth: 1},
			cdesc{Kind: "dict", Parts: []tval{tag(1), name("c"), {T: "int", I: 7}}, Depth: 3},
			cdesc{Kind: "var", Parts: []tval{tag(2), name("a"), {T: "int", I: 0}}})
	}
	if bt == 0 && r.Intn(2) == 0 {
		// scoredb-like layout below a parent builder made over a prefix slice with spare capacity
		h.Spare = true
		for i := range h.Cs {
			h.Cs[i].Parts = append([]tval{name("cx")}, h.Cs[i].Parts...)
		}
	}
	n := 18 + r.Intn(30)
	alen := map[int]int{}
	nslot := 0
	alenSnap := map[int]int{}
	for i := 0; i < n; i++ {
		switch r.Intn(36) {
		case 0: // copy the store ...
			h.Ops = append(h.Ops, hop{O: "snap"})
			alenSnap = map[int]int{}
			for k, v := range alen {
				alenSnap[k] = v
			}
			continue
		case 1: // ... and reset it to the copy under the live handles
			h.Ops = append(h.Ops, hop{O: "rollback"})
			alen = map[int]int{}
			for k, v := range alenSnap {
				alen[k] = v
			}
			continue
		}
		c := r.Intn(len(h.Cs))
		d := h.Cs[c]
		switch d.Kind {
		case "var":
			switch r.Intn(4) {
			case 0, 1:
				h.Ops = append(h.Ops, hop{O: "vset", C: c, V: smallVal(r)})
			case 2:
				h.Ops = append(h.Ops, hop{O: "vget", C: c})
			default:
				h.Ops = append(h.Ops, hop{O: "vdel", C: c}, hop{O: "vget", C: c})
			}
		case "arr":
			idx := int64(r.Intn(alen[c]+3)) - 1
			if r.Intn(12) == 0 {
				idx = []int64{-2, 127, 128, 255, 256, 1 << 40, -(1 << 63), 1<<63 - 1}[r.Intn(8)]
			}
			switch x := r.Intn(100); {
			case x < 34:
				h.Ops = append(h.Ops, hop{O: "put", C: c, V: smallVal(r)})
				alen[c]++
			case x < 56:
				h.Ops = append(h.Ops, hop{O: "pop", C: c})
				if alen[c] > 0 {
					alen[c]--
				}
			case x < 72:
				h.Ops = append(h.Ops, hop{O: "get", C: c, I: idx})
			case x < 88:
				h.Ops = append(h.Ops, hop{O: "set", C: c, I: idx, V: smallVal(r)})
			default:
				h.Ops = append(h.Ops, hop{O: "size", C: c})
			}
		case "dict":
			if d.Depth >= 2 && r.Intn(4) == 0 {
				// two sibling sub-dictionaries are derived first and used afterwards, the first after the second
				pairs := [][2]string{{"alice", "bobby"}, {"a", "b"}, {"ab", "a"}, {"k1", "k2"}}
				pr := pairs[r.Intn(len(pairs))]
				ka := []tval{name(pr[0])}
				kb := []tval{name(pr[1])}
				if r.Intn(4) == 0 {
					ka, kb = []tval{{T: "int", I: 1}}, []tval{{T: "int", I: 2}}
				}
				var x []tval
				for j := 1; j < d.Depth; j++ {
					x = append(x, name("x"))
				}
				nslot += 2
				sa, sb := nslot-1, nslot
				h.Ops = append(h.Ops,
					hop{O: "dopen", C: c, Chain: [][]tval{ka}, Slot: sa},
					hop{O: "dopen", C: c, Chain: [][]tval{kb}, Slot: sb},
					hop{O: "dset", C: c, Chain: [][]tval{ka}, Slot: sa, Keys: x, V: smallVal(r)},
					hop{O: "dset", C: c, Chain: [][]tval{kb}, Slot: sb, Keys: x, V: smallVal(r)},
					hop{O: "dget", C: c, Chain: [][]tval{ka}, Slot: sa, Keys: x},
					hop{O: "dget", C: c, Keys: append(append([]tval{}, ka...), x...)},
					hop{O: "dget", C: c, Keys: append(append([]tval{}, kb...), x...)})
				continue
			}
			var chain [][]tval
			rem := d.Depth
			for rem > 0 && r.Intn(3) == 0 {
				k := 1 + r.Intn(rem)
				if r.Intn(6) > 0 && k == rem {
					break
				}
				var ks []tval
				for j := 0; j < k; j++ {
					ks = append(ks, dictKey(r))
				}
				chain = append(chain, ks)
				rem -= k
			}
			if rem < 0 {
				rem = 0
			}
			nk := rem
			if r.Intn(8) == 0 {
				nk = r.Intn(d.Depth + 2)
			}
			var ks []tval
			for j := 0; j < nk; j++ {
				ks = append(ks, dictKey(r))
			}
			switch x := r.Intn(100); {
			case x < 40:
				h.Ops = append(h.Ops, hop{O: "dset", C: c, Chain: chain, Keys: ks, V: smallVal(r)})
				// read the same tuple through another split of the path
				var full []tval
				for _, c2 := range chain {
					full = append(full, c2...)
				}
				full = append(full, ks...)
				if len(full) == d.Depth {
					if len(chain) > 0 {
						h.Ops = append(h.Ops, hop{O: "dget", C: c, Keys: full})
					} else if d.Depth > 1 {
						k := 1 + r.Intn(d.Depth-1)
						h.Ops = append(h.Ops, hop{O: "dget", C: c, Chain: [][]tval{full[:k]}, Keys: full[k:]})
					}
				}
			case x < 75:
				h.Ops = append(h.Ops, hop{O: "dget", C: c, Chain: chain, Keys: ks})
			case x < 78:
				h.Ops = append(h.Ops, hop{O: "dset0", C: c, Chain: chain})
			default:
				h.Ops = append(h.Ops, hop{O: "ddel", C: c, Chain: chain, Keys: ks}, hop{O: "dget", C: c, Chain: chain, Keys: ks})
			}
		}
	}
	// every operation goes through one of the live handles on its path
	for i := range h.Ops {
		h.Ops[i].Hd = r.Intn(nHandles)
	}
	// read everything back at the end (through the first handle, then through another one)
	for c, d := range h.Cs {
		switch d.Kind {
		case "var":
			h.Ops = append(h.Ops, hop{O: "vget", C: c})
		case "arr":
			h.Ops = append(h.Ops, hop{O: "size", C: c})
			for i := int64(-1); i <= int64(alen[c]); i++ {
				h.Ops = append(h.Ops, hop{O: "get", C: c, I: i, Hd: int(i+1) % nHandles})
			}
			h.Ops = append(h.Ops, hop{O: "size", C: c, Hd: 1}, hop{O: "size", C: c, Hd: 2})
		}
	}
	return h
}

func coqHist(h history, outs []string, tab htab) string {
	var cs []string
	for _, d := range h.Cs {
		switch d.Kind {
		case "var":
			cs = append(cs, fmt.Sprintf("DVar %s %s", btNames[h.BT], coqTvs(d.Parts)))
		case "arr":
			cs = append(cs, fmt.Sprintf("DArr %s %s", btNames[h.BT], coqTvs(d.Parts)))
		case "dict":
			cs = append(cs, fmt.Sprintf("DDict %s %s %d%%nat", btNames[h.BT], coqTvs(d.Parts), d.Depth))
		}
	}
	var ops []string
	for i, o := range h.Ops {
		x := "RPanic"
		if i < len(outs) {
			x = outs[i]
		}
		ops = append(ops, "("+o.coq()+", "+x+")")
	}
	return fmt.Sprintf("(CHist %s %s)", hxlib.CoqList(cs), hxlib.CoqList(ops))
}

// ------------------------------------------------------------------ sibling keys over a prefix with spare capacity

type sibCase struct {
	Hashed bool     `json:"hashed"`
	Pre    string   `json:"pre"`   // hex: the caller's prefix
	Spare  int      `json:"spare"` // spare capacity of the slice that holds it
	Root   []tval   `json:"root"`
	Sibs   [][]tval `json:"sibs"`
	Tail   []tval   `json:"tail"`
}

// builds root = prefix+Root, then one key per sibling, and only then looks at them again
func sibOracle(sc sibCase) (coq string, msg string) {
	pre, _ := hex.DecodeString(sc.Pre)
	buf := make([]byte, len(pre), len(pre)+sc.Spare)
	copy(buf, pre)
	whole := buf[:cap(buf)]
	for i := len(pre); i < len(whole); i++ {
		whole[i] = 0xEE
	}
	before := append([]byte{}, whole...)
	n := len(sc.Sibs)
	early, late, deep := make([][]byte, n), make([][]byte, n), make([][]byte, n)
	p := hxlib.Catch(func() {
		if sc.Hashed {
			root := containerdb.NewHashKey(buf, goVals(sc.Root)...)
			ks := make([]containerdb.KeyBuilder, n)
			for i, sb := range sc.Sibs {
				ks[i] = root.Append(goVals(sb)...)
				early[i] = append([]byte{}, ks[i].Build()...)
			}
			for i := range ks {
				late[i] = ks[i].Build()
				deep[i] = ks[i].Append(goVals(sc.Tail)...).Build()
			}
		} else {
			k0 := containerdb.AppendKeys(buf, goVals(sc.Root)...)
			ks := make([][]byte, n)
			for i, sb := range sc.Sibs {
				ks[i] = containerdb.AppendKeys(k0, goVals(sb)...)
				early[i] = append([]byte{}, ks[i]...)
			}
			for i := range ks {
				late[i] = append([]byte{}, ks[i]...)
				deep[i] = containerdb.AppendKeys(ks[i], goVals(sc.Tail)...)
			}
		}
	})
	if p != "" {
		return "", "panic: " + p
	}
	what := "AppendKeys"
	if sc.Hashed {
		what = "NewHashKey(...).Append"
	}
	if !bytes.Equal(whole, before) {
		msg = fmt.Sprintf("%s wrote into the caller's prefix slice (len %d, cap %d): %x -> %x", what, len(pre), cap(buf), cut(before), cut(whole))
	}
	cn := make([]string, n)
	for i, sb := range sc.Sibs {
		cn[i] = canon(refParts(sb))
	}
	for i := 0; i < n && msg == ""; i++ {
		if !bytes.Equal(early[i], late[i]) {
			msg = fmt.Sprintf("the key of sibling path %d changed after later siblings were derived from the same parent: %x -> %x", i, cut(early[i]), cut(late[i]))
		}
	}
	for i := 0; i < n && msg == ""; i++ {
		for j := i + 1; j < n && msg == ""; j++ {
			if cn[i] == cn[j] {
				continue
			}
			if bytes.Equal(late[i], late[j]) || bytes.Equal(deep[i], deep[j]) || bytes.Equal(early[i], early[j]) {
				msg = fmt.Sprintf("sibling paths %d and %d (part lengths %v, %v) below one parent map to the same key %x", i, j, lens(refParts(sc.Sibs[i])), lens(refParts(sc.Sibs[j])), cut(late[i]))
			}
		}
	}
	// reference values and the Coq term
	h := htab{}
	rootP := refParts(sc.Root)
	rl := func(b []byte) string { return rleCoq(b) }
	var ce, cl, cd []string
	for i, sb := range sc.Sibs {
		path := append(append([][]byte{}, rootP...), refParts(sb)...)
		w1 := append(append([]byte{}, pre...), refConcat(path)...)
		w2 := append(append([]byte{}, pre...), refConcat(append(path, refParts(sc.Tail)...))...)
		if sc.Hashed {
			w1, w2 = h.add(w1), h.add(w2)
		}
		if msg == "" && (!bytes.Equal(late[i], w1) || !bytes.Equal(deep[i], w2)) {
			msg = fmt.Sprintf("key of sibling path %d is %x / %x, expected %x / %x", i, cut(late[i]), cut(deep[i]), cut(w1), cut(w2))
		}
		ce, cl, cd = append(ce, rl(early[i])), append(cl, rl(late[i])), append(cd, rl(deep[i]))
	}
	var sibs []string
	for _, sb := range sc.Sibs {
		sibs = append(sibs, coqTvs(sb))
	}
	coq = fmt.Sprintf("(CSib %s %s %s %s %s %s %s %s %s)", hxlib.CoqBool(sc.Hashed), rleCoq(pre), coqTvs(sc.Root), hxlib.CoqList(sibs), coqTvs(sc.Tail),
		h.coq(), hxlib.CoqList(ce), hxlib.CoqList(cl), hxlib.CoqList(cd))
	return
}

func genSib(r *rand.Rand) sibCase {
	sc := sibCase{Hashed: r.Intn(2) == 0, Spare: []int{0, 1, 8, 64, 200, 200}[r.Intn(6)]}
	pre := make([]byte, []int{0, 0, 1, 17, 21}[r.Intn(5)])
	r.Read(pre)
	sc.Pre = hex.EncodeToString(pre)
	str := func(x string) tval { return tval{T: "str", Lit: hex.EncodeToString([]byte(x))} }
	for i := r.Intn(3); i > 0; i-- {
		sc.Root = append(sc.Root, []tval{str("balances"), {T: "byte", X: 1}, str("d"), randInt(r)}[r.Intn(4)])
	}
	names := [][]string{{"alice", "bobby", "carol"}, {"a", "b", "c"}, {"x", "yy", "zzz"}, {"ab", "a", ""}}[r.Intn(4)]
	ns := 2 + r.Intn(2)
	for i := 0; i < ns; i++ {
		var sb []tval
		switch r.Intn(4) {
		case 0:
			sb = []tval{{T: "int", I: int64(i)}}
		case 1:
			sb = []tval{str(names[i]), str("k")}
		case 2:
			sb = []tval{randPart(r, false)}
			if sb[0].Rep > 100 {
				sb[0].Rep = 100
			}
		default:
			sb = []tval{str(names[i])}
		}
		sc.Sibs = append(sc.Sibs, sb)
	}
	for i := r.Intn(3); i > 0; i-- {
		sc.Tail = append(sc.Tail, []tval{str("x"), {T: "int", I: 0}, {T: "bool", B: true}}[r.Intn(3)])
	}
	return sc
}

// ------------------------------------------------------------------ generation

type input struct {
	Kind  string   `json:"kind"` // key pair split tobytes hist
	Tuple *tuple   `json:"tuple,omitempty"`
	Other *tuple   `json:"other,omitempty"`
	Hex   string   `json:"hex,omitempty"`
	Val   *tval    `json:"val,omitempty"`
	Hist  *history `json:"hist,omitempty"`
	Sib   *sibCase `json:"sib,omitempty"`
}

func toBytesCase(v tval) (coq, msg string) {
	var out []byte
	if p := hxlib.Catch(func() { out = containerdb.ToBytes(v.goVal()) }); p != "" {
		return "", "ToBytes panics: " + p
	}
	back := "None"
	if strings.HasPrefix(v.T, "int") {
		var z int64
		if p := hxlib.Catch(func() {
			z = containerdb.NewValue(containerdb.NewValueSnapshotFromBytes(out)).Int64()
		}); p != "" {
			return "", fmt.Sprintf("Int64() of the stored form %x of %d panics: %s", out, v.I, p)
		}
		back = "(Some " + hxlib.CoqZ(z) + ")"
		if z != v.I {
			msg = fmt.Sprintf("integer %d is stored as %x and read back as %d", v.I, out, z)
		}
	}
	if !bytes.Equal(out, v.ref()) && msg == "" {
		msg = fmt.Sprintf("ToBytes(%s %s) = %x, canonical bytes are %x", v.T, short(v), cut(out), cut(v.ref()))
	}
	return fmt.Sprintf("(CToBytes (%s) %s %s)", v.coq(), hxlib.CoqBytes(out), back), msg
}

func gen(c *hxlib.Ctx) {
	r := c.Rand
	var buf []hxlib.Case
	emit := func(cs hxlib.Case) { buf = append(buf, cs) }
	// 1. key tuples; pairwise distinctness over everything generated
	seen := map[string]tuple{}   // bt|key -> tuple
	seenC := map[string]string{} // bt|key -> canonical parts
	var rlpKeys [][]byte
	emitTuple := func(t tuple, kind string) {
		built, h, msg := tupleOracle(t)
		in := input{Kind: "key", Tuple: &t}
		parts := refParts(t.all())
		if msg == "" && built != nil && containerdb.KeyBuilderType(t.BT) != containerdb.RawBuilder {
			id := fmt.Sprintf("%d|%s", t.BT, built)
			cn := canon(parts)
			if t.BT == 1 {
				cn = fmt.Sprintf("%d/", len(parts[0])) + cn
				id = fmt.Sprintf("%d|%d|%s", t.BT, len(parts[0]), built)
			}
			if prev, ok := seenC[id]; ok && prev != cn {
				o := seen[id]
				if m := pairOracle(o, t); m != "" {
					msg = m
					in = input{Kind: "pair", Tuple: &t, Other: &o}
				}
			}
			seenC[id] = cn
			seen[id] = t
		}
		cs := hxlib.Case{Kind: kind + "-" + btNames[t.BT], Input: in, OracleErr: msg, Nontrivial: len(parts) >= 2}
		if !c.OracleOnly && built != nil {
			cs.Coq = coqKeyCase(t, built, h)
		} else {
			cs.Key = fmt.Sprintf("%s%v", kind, t)
		}
		emit(cs)
		if t.BT == 2 && built != nil && len(built) < 2000 {
			rlpKeys = append(rlpKeys, built)
		}
	}
	for i := 0; i < c.N(1500); i++ {
		emitTuple(randTuple(r), "key")
	}
	// boundary: every listed length as a single part and next to a second part, all builders;
	// and pairs that an encoder without the prefix property would confuse
	for _, n := range partLens {
		for bt := 0; bt < 4; bt++ {
			if n >= 65535 && bt != 2 && bt != 0 {
				continue
			}
			p := tval{T: "bytes", Rep: n, X: 0x41}
			emitTuple(tuple{BT: bt, First: []tval{{T: "byte", X: 1}, p}}, "boundary")
			emitTuple(tuple{BT: bt, First: []tval{{T: "byte", X: 1}, p, {T: "int", I: 1}}}, "boundary")
		}
	}
	for _, la := range []int{2, 55, 56, 57, 58, 255, 256, 257} {
		for _, bt := range []int{0, 2} {
			// A = [x] ++ a, B;  C = a ++ item(B) with len(C) = x: equal if item(A) were 0xb8 x a...
			b := []byte{0x11, 0x22}
			a := bytes.Repeat([]byte{0x33}, la-1)
			cc := append(append([]byte{}, a...), refItem(b)...)
			if len(cc) > 255 {
				continue
			}
			A := append([]byte{byte(len(cc))}, a...)
			emitTuple(tuple{BT: bt, First: []tval{{T: "bytes", Lit: hex.EncodeToString(A)}, {T: "bytes", Lit: hex.EncodeToString(b)}}}, "confusable")
			emitTuple(tuple{BT: bt, First: []tval{{T: "bytes", Lit: hex.EncodeToString(cc)}}}, "confusable")
			// [p ++ q] vs [p, q] and single byte vs its header form
			emitTuple(tuple{BT: bt, First: []tval{{T: "bytes", Lit: hex.EncodeToString(append(refItem(a), refItem(b)...))}}}, "confusable")
			emitTuple(tuple{BT: bt, First: []tval{{T: "bytes", Lit: hex.EncodeToString(a)}, {T: "bytes", Lit: hex.EncodeToString(b)}}}, "confusable")
		}
	}
	for _, bt := range []int{0, 2} {
		for _, ps := range [][]string{{""}, {"", ""}, {"00"}, {"80"}, {"8100"}, {"81", "00"}, {"7f"}, {"817f"}, {"00", ""}, {"", "00"}} {
			var f []tval
			for _, p := range ps {
				f = append(f, tval{T: "bytes", Lit: p})
			}
			emitTuple(tuple{BT: bt, First: f}, "confusable")
		}
		emitTuple(tuple{BT: bt}, "confusable")
	}
	// 2. per-type injectivity of ToBytes and integer read-back
	tb := map[string]string{}
	emitVal := func(v tval) {
		coq, refMsg := toBytesCase(v)
		msg := ""
		{
			cl := v.T
			if strings.HasPrefix(cl, "int") {
				cl = "int"
			}
			var out []byte
			hxlib.Catch(func() { out = containerdb.ToBytes(v.goVal()) })
			id := cl + "|" + string(out)
			me := fmt.Sprintf("%v|%v|%x", v.I, v.B, v.raw())
			if prev, ok := tb[id]; ok && prev != me {
				msg = fmt.Sprintf("two different %s values have the same ToBytes %x", cl, cut(out))
			}
			tb[id] = me
		}
		if msg == "" {
			msg = refMsg
		}
		cs := hxlib.Case{Kind: "tobytes-" + v.T, Input: input{Kind: "tobytes", Val: &v}, OracleErr: msg, Nontrivial: true, Coq: coq}
		if coq == "" {
			cs.Key = fmt.Sprint(v)
		}
		emit(cs)
	}
	for _, v := range intBoundary {
		emitVal(tval{T: "int", I: v})
	}
	emitVal(tval{T: "bool", B: true})
	emitVal(tval{T: "bool", B: false})
	for i := 0; i < c.N(150); i++ {
		v := randPart(r, false)
		if v.Rep > 300 {
			v.Rep = 300
		}
		emitVal(v)
	}
	// 3. SplitKeys on built keys and on malformed input
	for i := 0; i < len(rlpKeys) && i < c.N(350); i++ {
		coq, msg := splitCase(rlpKeys[i])
		emit(hxlib.Case{Kind: "split-built", Coq: coq, Key: fmt.Sprint("sb", i), Input: input{Kind: "split", Hex: hex.EncodeToString(rlpKeys[i])}, OracleErr: msg, Nontrivial: true})
	}
	for i := 0; i < c.N(350); i++ {
		var k []byte
		switch r.Intn(7) {
		case 0:
			k = make([]byte, r.Intn(12))
			r.Read(k)
		case 1: // truncated valid key
			if len(rlpKeys) > 0 {
				x := rlpKeys[r.Intn(len(rlpKeys))]
				k = append([]byte{}, x[:r.Intn(len(x)+1)]...)
			}
		case 2: // long form with a size field of ts bytes
			ts := 1 + r.Intn(8)
			sz := []int{0, 1, 55, 56, 57, 60, 255, 256, 300}[r.Intn(9)]
			f := make([]byte, ts)
			for j, x := ts-1, sz; j >= 0; j, x = j-1, x>>8 {
				f[j] = byte(x)
			}
			if r.Intn(6) == 0 {
				f[0] = 0xff
			}
			k = append([]byte{byte(0xb7 + ts)}, f...)
			pl := []int{sz, sz, sz - 1, sz + 1, 0}[r.Intn(5)]
			if pl < 0 {
				pl = 0
			}
			k = append(k, bytes.Repeat([]byte{9}, pl)...)
		case 3: // short form, size vs available
			sz := r.Intn(56)
			k = append([]byte{byte(0x80 + sz)}, bytes.Repeat([]byte{7}, []int{sz, sz, sz + 1, sz / 2}[r.Intn(4)])...)
		case 4: // list tags and header bytes
			k = []byte{[]byte{0xc0, 0xc1, 0xf7, 0xf8, 0xff, 0xbf, 0xb8, 0xb7, 0x80, 0x81}[r.Intn(10)]}
			k = append(k, make([]byte, r.Intn(4))...)
		case 5: // non-canonical single byte
			k = []byte{0x81, byte(r.Intn(256)), byte(r.Intn(0x80))}
		default: // huge size fields
			k = []byte{0xbf, 0x7f, 0xff, 0xff, 0xff, 0xff, 0xff, 0xff, 0xff, 1}
			if r.Intn(2) == 0 {
				k[1] = 0x80
			}
		}
		if k == nil {
			k = []byte{}
		}
		coq, msg := splitCase(k)
		emit(hxlib.Case{Kind: "split-malformed", Coq: coq, Key: fmt.Sprint("sm", i), Input: input{Kind: "split", Hex: hex.EncodeToString(k)}, OracleErr: msg, Nontrivial: len(k) > 1})
	}
	// 3b. sibling keys derived from one parent over a prefix slice with spare capacity
	for i := 0; i < c.N(200); i++ {
		sc := genSib(r)
		if i == 0 { // the textbook instance
			sc = sibCase{Hashed: true, Pre: hex.EncodeToString([]byte("cx-contract-0001/")), Spare: 111,
				Root: []tval{{T: "str", Lit: hex.EncodeToString([]byte("balances"))}},
				Sibs: [][]tval{{{T: "str", Lit: hex.EncodeToString([]byte("alice"))}}, {{T: "str", Lit: hex.EncodeToString([]byte("bobby"))}}},
				Tail: []tval{{T: "str", Lit: hex.EncodeToString([]byte("x"))}}}
		}
		coq, msg := sibOracle(sc)
		kind := "sib-append"
		if sc.Hashed {
			kind = "sib-hashed"
		}
		cs := hxlib.Case{Kind: kind, Input: input{Kind: "sib", Sib: &sc}, OracleErr: msg, Nontrivial: true, Coq: coq}
		if coq == "" || c.OracleOnly {
			cs.Coq = ""
			cs.Key = fmt.Sprint("sib", i)
		}
		emit(cs)
	}
	// 4. container histories
	for i := 0; i < c.N(400); i++ {
		h := genHistory(c.Sub("hist", i))
		outs, tab, msg := runHist(h)
		cs := hxlib.Case{Kind: "hist-" + btNames[h.BT], Input: input{Kind: "hist", Hist: &h}, OracleErr: msg, Nontrivial: true}
		if !c.OracleOnly {
			cs.Coq = coqHist(h, outs, tab)
		} else {
			cs.Key = fmt.Sprint("h", i)
		}
		emit(cs)
	}
	// interleave the kinds so that the Coq shards are balanced
	sh := c.Sub("shuffle", 0)
	sh.Shuffle(len(buf), func(i, j int) { buf[i], buf[j] = buf[j], buf[i] })
	for _, cs := range buf {
		c.Emit(cs)
	}
	// canary: a wrong observation (ToBytes(true) reported as [0]) that the model must flag
	c.Emit(hxlib.Case{Kind: "canary", Canary: true, Coq: "(CToBytes (TBool true) [0] None)"})
}

func replay(raw json.RawMessage) string {
	var in input
	if err := json.Unmarshal(raw, &in); err != nil {
		return "bad replay input: " + err.Error()
	}
	switch in.Kind {
	case "key":
		_, _, msg := tupleOracle(*in.Tuple)
		return msg
	case "pair":
		return pairOracle(*in.Other, *in.Tuple)
	case "split":
		k, _ := hex.DecodeString(in.Hex)
		_, msg := splitCase(k)
		return msg
	case "tobytes":
		if in.Val.T == "bool" { // the injectivity clause for the two-valued type
			t, f := containerdb.ToBytes(true), containerdb.ToBytes(false)
			if bytes.Equal(t, f) {
				return fmt.Sprintf("two different bool values have the same ToBytes %x", t)
			}
		}
		_, msg := toBytesCase(*in.Val)
		return msg
	case "hist":
		_, _, msg := runHist(*in.Hist)
		return msg
	case "sib":
		_, msg := sibOracle(*in.Sib)
		return msg
	}
	return "unknown case kind " + in.Kind
}

func main() {
	hxlib.Main(hxlib.Spec{
		ID: "C21",
		Rule: "1500 random key tuples (1-4 typed parts at ToKey, 0-2 Append calls) over the four builders, parts = ints (all byte-width boundaries, negatives, int16/32/64), bools, addresses, single bytes, " +
			"strings/bytes of lengths {0,1,55,56,255,256,65535,65536} and neighbours with header-like first bytes; boundary and confusable tuples ([p++q] vs [p,q], 0x81 x vs x, the 56-byte header ambiguity); " +
			"ToBytes of every integer boundary with Int64() read-back; SplitKeys on built RLP keys and on a malformed stream (truncated, non-canonical, size fields 1-8 bytes, list tags); " +
			"200 sibling-key cases (NewHashKey / AppendKeys over a caller's prefix held in a slice with spare capacity, 2-3 siblings derived from one parent, key bytes recorded right after construction and again at the end); " +
			"400 histories of put/pop/set/get/size, set/get/delete on VarDB, two ArrayDBs and nested DictDBs (GetDB chains, wrong arities) laid out like service/scoredb over one map-backed store, with each builder (half of the hashed ones below one parent builder made over a spare-capacity prefix; sibling sub-dictionaries are derived first and used afterwards); every container has 3 live handles (NewVarDB/NewArrayDB/NewDictDB on the same store and key) and each operation goes through a random one; the store is copied and later reset to the copy with all handles kept; the reference slice/map is per path. " +
			"Direct oracles: a built key never changes after it was returned, the caller's prefix slice is not written beyond its length, distinct part lists => distinct keys over everything generated, SplitKeys(AppendKeys(parts)) = parts, per-type injectivity of ToBytes, containers = Go slices/maps. " +
			"non-trivial = key tuples with >= 2 parts, all ToBytes/history cases, split inputs longer than one byte; distinct = distinct Coq case term",
		Shard: 250,
		Gen:   gen, Replay: replay,
	})
}
