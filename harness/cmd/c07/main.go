// c07: block import checks (height / previous id / version / votes / timestamp rules) of
// the real block manager on a test node, and CommitVoteList.Timestamp, vs Model_BlockImport.
package main

import (
	"bytes"
	"encoding/hex"
	"encoding/json"
	"fmt"
	"io"
	"math"
	"math/big"
	"math/rand"
	"os"
	"sort"
	"strconv"
	"strings"
	"time"

	"github.com/icon-project/goloop/block"
	"github.com/icon-project/goloop/chain/base"
	"github.com/icon-project/goloop/common"
	"github.com/icon-project/goloop/common/codec"
	"github.com/icon-project/goloop/common/crypto"
	"github.com/icon-project/goloop/common/log"
	"github.com/icon-project/goloop/common/wallet"
	"github.com/icon-project/goloop/consensus"
	"github.com/icon-project/goloop/module"
	"github.com/icon-project/goloop/test"

	"verif/harness/hxlib"
)

// ---------------------------------------------------------------- specs (replayable)

// one item of a commit vote list, as the harness makes it
type voteSpec struct {
	W        int    `json:"w"`                   // harness wallet number; >= 100: not a validator of any chain
	TS       int64  `json:"ts"`                  // item timestamp
	Target   string `json:"target,omitempty"`    // "" the block the list is attached to; "below", "random", "height+1"
	SigTS    *int64 `json:"sig_ts,omitempty"`    // the signature is made over this timestamp instead
	SigRound int32  `json:"sig_round,omitempty"` // added to the list's round when signing
	Garbage  bool   `json:"garbage,omitempty"`   // 65 random bytes instead of a signature
}

// how one honest block is made on top of the current tip
type stepSpec struct {
	Votes []voteSpec `json:"votes"`
	Round int32      `json:"round,omitempty"`
	Tx    string     `json:"tx,omitempty"`  // "validators:0,1,2" | "version:3" (put in this block)
	TS1   *int64     `json:"ts1,omitempty"` // height 1 only: the block is re-encoded with this timestamp before it is finalized
}

type candSpec struct {
	NVal  int        `json:"nval"`
	Chain []stepSpec `json:"chain"`         // finalized blocks 1..len(Chain)
	Mid   *stepSpec  `json:"mid,omitempty"` // a live (not finalized) block proposed on the tip; the candidate is built on it
	Base  stepSpec   `json:"base"`          // the honest proposal the candidate is derived from
	// deviations
	DHeight int64       `json:"dheight,omitempty"` // added to the height
	Prev    string      `json:"prev,omitempty"`    // "random", "below", "sibling", "empty", "tip"
	HdrVer  int         `json:"hdrver,omitempty"`  // version field of the encoded header (0: unchanged)
	WrapVer int         `json:"wrapver,omitempty"` // handed over as BlockData whose Version() is this (0: bytes through Import)
	TSMode  string      `json:"tsmode,omitempty"`  // "delta", "abs", "parent", "follow" (harness median of the final vote list)
	TSVal   int64       `json:"tsval,omitempty"`
	Votes   *[]voteSpec `json:"newvotes,omitempty"` // replacement vote list
	VRound  int32       `json:"vround,omitempty"`
	BadExec bool        `json:"badexec,omitempty"` // next-validators hash of the header replaced
	Label   string      `json:"label"`
}

type medianIn struct {
	TS []int64 `json:"ts"`
}

// ---------------------------------------------------------------- fixture

type quietT struct{ errs []string }

func (t *quietT) Errorf(format string, args ...interface{}) {
	t.errs = append(t.errs, fmt.Sprintf(format, args...))
}
func (t *quietT) Logf(format string, args ...any) {}

func mkWallet(i int) module.Wallet {
	b := make([]byte, 32)
	b[0] = 7
	b[30] = byte(i >> 8)
	b[31] = byte(i + 1)
	sk, err := crypto.ParsePrivateKey(b)
	if err != nil {
		panic(err)
	}
	w, err := wallet.NewFromPrivateKey(sk)
	if err != nil {
		panic(err)
	}
	return w
}

var walletCache = map[int]module.Wallet{}

func walletOf(i int) module.Wallet {
	if w, ok := walletCache[i]; ok {
		return w
	}
	w := mkWallet(i)
	walletCache[i] = w
	return w
}

func walletIndex(a module.Address, upto int) int {
	for i := 0; i < upto; i++ {
		if bytes.Equal(walletOf(i).Address().Bytes(), a.Bytes()) {
			return i
		}
	}
	for i := 100; i < 104; i++ {
		if bytes.Equal(walletOf(i).Address().Bytes(), a.Bytes()) {
			return i
		}
	}
	return -1
}

func genesisFor(n int) string {
	var vs []string
	for i := 0; i < n; i++ {
		vs = append(vs, fmt.Sprintf("%q", walletOf(i).Address().String()))
	}
	return fmt.Sprintf(`{"accounts":[{"name":"treasury","address":"hx1000000000000000000000000000000000000000","balance":"0x0"},{"name":"god","address":"hx0000000000000000000000000000000000000000","balance":"0x0"}],"message":"","nid":"0x1","chain":{"validatorList":[%s]}}`, strings.Join(vs, ","))
}

// what the harness knows about a block
type blkInfo struct {
	blk      module.Block
	height   int64
	id       []byte
	ts       int64
	reqVer   int   // version the state of this block requires of its child (read from the state through the service manager)
	expVer   int   // the same, derived from the transactions the harness put into the chain
	voters   []int // wallet numbers entitled to vote for it; nil + noVoters for height 0
	noVoters bool
	votersN  int
	live     bool // proposed, not finalized: its state is not on disk, the service manager answers with the default version
}

type fixture struct {
	t     *quietT
	nd    *test.Node
	bm    module.BlockManager
	nval  int
	tip   *blkInfo
	known map[string]*blkInfo // by id
	// height from which (as parent height) version 3 is required, 0 = never
	v3From int64
	steps  []stepSpec
}

func newFixture(nval int) *fixture {
	t := &quietT{}
	// the node makes its own trace-level logger on os.Stderr: keep its start-up lines out of the run's output
	saved := os.Stderr
	if null, err := os.OpenFile(os.DevNull, os.O_WRONLY, 0); err == nil {
		os.Stderr = null
		defer null.Close()
	}
	nd := test.NewNode(t, test.UseGenesis(genesisFor(nval)))
	os.Stderr = saved
	nd.Chain.Logger().SetOutput(io.Discard)
	nd.Chain.Logger().SetLevel(log.PanicLevel)
	log.GlobalLogger().SetOutput(io.Discard)
	f := &fixture{t: t, nd: nd, bm: nd.BM, nval: nval, known: map[string]*blkInfo{}}
	g, err := f.bm.GetLastBlock()
	if err != nil {
		panic(err)
	}
	f.tip = f.learn(g)
	return f
}

func (f *fixture) close() {
	defer func() { recover() }()
	f.nd.Close()
}

func (f *fixture) learn(b module.Block) *blkInfo {
	if bi, ok := f.known[string(b.ID())]; ok {
		// the state of a live block is not on disk yet: read again
		bi.reqVer = f.nd.Chain.ServiceManager().GetNextBlockVersion(b.Result())
		return bi
	}
	bi := &blkInfo{blk: b, height: b.Height(), id: append([]byte{}, b.ID()...), ts: b.Timestamp()}
	bi.reqVer = f.nd.Chain.ServiceManager().GetNextBlockVersion(b.Result())
	bi.expVer = module.BlockVersion2
	if f.v3From != 0 && bi.height >= f.v3From {
		bi.expVer = 3
	}
	if b.Height() == 0 {
		bi.noVoters = true
	} else {
		var below module.Block
		if pb, ok := f.known[string(b.PrevID())]; ok {
			below = pb.blk
		} else {
			below, _ = f.bm.GetBlockByHeight(b.Height() - 1)
		}
		if below == nil || below.NextValidators() == nil {
			bi.noVoters = true
		} else {
			vl := below.NextValidators()
			bi.votersN = vl.Len()
			bi.voters = []int{}
			for i := 0; i < vl.Len(); i++ {
				v, _ := vl.Get(i)
				bi.voters = append(bi.voters, walletIndex(v.Address(), f.nval))
			}
		}
	}
	f.known[string(bi.id)] = bi
	return bi
}

type impRes struct {
	bc  module.BlockCandidate
	err error
}

const cbTimeout = 30 * time.Second

func (f *fixture) propose(parent []byte, votes module.CommitVoteSet) (module.BlockCandidate, error) {
	ch := make(chan impRes, 1)
	_, err := f.bm.Propose(parent, votes, func(bc module.BlockCandidate, err error) { ch <- impRes{bc, err} })
	if err != nil {
		return nil, err
	}
	select {
	case r := <-ch:
		return r.bc, r.err
	case <-time.After(cbTimeout):
		return nil, fmt.Errorf("propose: no callback")
	}
}

// class of an import: 0 accepted, 1 refused by the call, 2 refused through the callback, 3 no callback
func (f *fixture) importBytes(bs []byte) (int, error) {
	ch := make(chan impRes, 1)
	_, err := f.bm.Import(bytes.NewReader(bs), 0, func(bc module.BlockCandidate, err error) { ch <- impRes{bc, err} })
	return f.waitImport(ch, err)
}

func (f *fixture) importData(bd module.BlockData) (int, error) {
	ch := make(chan impRes, 1)
	_, err := f.bm.ImportBlock(bd, 0, func(bc module.BlockCandidate, err error) { ch <- impRes{bc, err} })
	return f.waitImport(ch, err)
}

func (f *fixture) waitImport(ch chan impRes, err error) (int, error) {
	if err != nil {
		return 1, err
	}
	select {
	case r := <-ch:
		if r.err != nil {
			return 2, r.err
		}
		if r.bc != nil {
			r.bc.Dispose()
		}
		return 0, nil
	case <-time.After(cbTimeout):
		return 3, fmt.Errorf("import: no callback")
	}
}

func formatOf(blk module.BlockData) (*block.V2HeaderFormat, *block.V2BodyFormat, error) {
	var hb, bb bytes.Buffer
	if err := blk.MarshalHeader(&hb); err != nil {
		return nil, nil, err
	}
	if err := blk.MarshalBody(&bb); err != nil {
		return nil, nil, err
	}
	hf := new(block.V2HeaderFormat)
	bf := new(block.V2BodyFormat)
	if _, err := codec.BC.UnmarshalFromBytes(hb.Bytes(), hf); err != nil {
		return nil, nil, err
	}
	if _, err := codec.BC.UnmarshalFromBytes(bb.Bytes(), bf); err != nil {
		return nil, nil, err
	}
	return hf, bf, nil
}

func encodeBlock(hf *block.V2HeaderFormat, bf *block.V2BodyFormat) []byte {
	bs, _ := io.ReadAll(block.NewBlockReaderFromFormat(hf, bf))
	return bs
}

// ---------------------------------------------------------------- vote lists

// mirror of the wire form of consensus.CommitVoteList (round, part set id + app data, items)
type cvlItem struct {
	Timestamp int64
	Signature common.Signature
}
type cvlMirror struct {
	Round int32
	PSID  *consensus.PartSetIDAndAppData
	Items []cvlItem
}

// ground truth of an item, for the model and the oracle
type voteTruth struct {
	ts     int64
	signer int    // wallet number, -1 unknown
	forID  []byte // block the item is a correct precommit for (nil: none)
}

func partSetIDOf(blk module.BlockData) *consensus.PartSetID {
	var buf bytes.Buffer
	_ = blk.Marshal(&buf)
	pb := consensus.NewPartSetBuffer(consensus.ConfigBlockPartSize)
	_, _ = pb.Write(buf.Bytes())
	return pb.PartSet().ID()
}

// buildVotes makes the commit vote list `vs` attached to block `forBlk` (the block below it,
// if any, is `below`).  rnd only feeds the "random" targets and garbage signatures.
func (f *fixture) buildVotes(vs []voteSpec, round int32, forBlk *blkInfo, rnd *rand.Rand) (module.CommitVoteSet, []voteTruth) {
	if len(vs) == 0 {
		return consensus.NewEmptyCommitVoteList(), nil
	}
	psid := partSetIDOf(forBlk.blk)
	m := cvlMirror{Round: round}
	var truth []voteTruth
	for i, v := range vs {
		h, id := forBlk.height, forBlk.id
		okTarget := true
		switch v.Target {
		case "below":
			if pb, ok := f.known[string(forBlk.blk.PrevID())]; ok {
				h, id = pb.height, pb.id
			} else {
				id = make([]byte, 32)
				rnd.Read(id)
				okTarget = false
			}
		case "random":
			id = make([]byte, 32)
			rnd.Read(id)
			okTarget = false
		case "height+1":
			h = h + 1
			okTarget = false
		}
		sts := v.TS
		if v.SigTS != nil {
			sts = *v.SigTS
		}
		msg := consensus.NewVoteMessage(walletOf(v.W), consensus.VoteTypePrecommit, h, round+v.SigRound, id, psid, sts, nil, nil, 0)
		if i == 0 {
			m.PSID = msg.BlockPartSetIDAndNTSVoteCount
		}
		it := cvlItem{Timestamp: v.TS, Signature: msg.Signature}
		tr := voteTruth{ts: v.TS, signer: v.W}
		if okTarget && sts == v.TS && v.SigRound == 0 {
			tr.forID = id
		}
		if v.Garbage {
			g := make([]byte, 65)
			rnd.Read(g)
			g[64] = byte(rnd.Intn(2))
			var sig common.Signature
			if err := sig.UnmarshalBinary(g); err == nil {
				it.Signature = sig
			}
			tr.signer = -1
			tr.forID = nil
		}
		m.Items = append(m.Items, it)
		truth = append(truth, tr)
	}
	bs := codec.BC.MustMarshalToBytes(&m)
	cvs := consensus.NewCommitVoteSetFromBytes(bs)
	return cvs, truth
}

// the harness's own median: ascending order, middle element, or the mean of the two middle
// elements rounded toward zero, computed without overflow.  exact=false: the mean does not
// fit the int64 sum (the implementation's sum would wrap).
func refMedian(ts []int64) (m int64, exact bool) {
	if len(ts) == 0 {
		return 0, true
	}
	s := append([]int64{}, ts...)
	sort.Slice(s, func(i, j int) bool { return s[i] < s[j] })
	l := len(s)
	if l%2 == 1 {
		return s[l/2], true
	}
	a, b := big.NewInt(s[l/2-1]), big.NewInt(s[l/2])
	sum := new(big.Int).Add(a, b)
	exact = sum.IsInt64()
	q := new(big.Int).Quo(sum, big.NewInt(2)) // Quo truncates toward zero
	return q.Int64(), exact
}

// ---------------------------------------------------------------- chain building

func (f *fixture) sendTx(tx string) error {
	t := f.nd.NewTx()
	switch {
	case strings.HasPrefix(tx, "validators:"):
		var addrs []module.Address
		for _, s := range strings.Split(strings.TrimPrefix(tx, "validators:"), ",") {
			i, _ := strconv.Atoi(s)
			addrs = append(addrs, walletOf(i).Address())
		}
		t.SetValidators(addrs...)
	case strings.HasPrefix(tx, "version:"):
		v, _ := strconv.Atoi(strings.TrimPrefix(tx, "version:"))
		v32 := int32(v)
		t.SetNextBlockVersion(&v32)
	default:
		return fmt.Errorf("unknown tx %q", tx)
	}
	_, err := f.nd.SM.SendTransaction(nil, 0, t.String())
	return err
}

// extend finalizes one more honest block made as st says.
func (f *fixture) extend(st stepSpec) error {
	rnd := rand.New(rand.NewSource(int64(len(f.steps)) + 99))
	if st.Tx != "" {
		if err := f.sendTx(st.Tx); err != nil {
			return fmt.Errorf("tx: %v", err)
		}
	}
	votes, _ := f.buildVotes(st.Votes, st.Round, f.tip, rnd)
	if votes == nil {
		return fmt.Errorf("vote list does not decode")
	}
	bc, err := f.propose(f.tip.id, votes)
	if err != nil {
		return fmt.Errorf("propose on height %d: %v", f.tip.height, err)
	}
	fin := bc
	if st.TS1 != nil {
		hf, bf, err := formatOf(bc)
		if err != nil {
			return err
		}
		hf.Timestamp = *st.TS1
		ch := make(chan impRes, 1)
		_, err = f.bm.Import(bytes.NewReader(encodeBlock(hf, bf)), 0, func(bc module.BlockCandidate, err error) { ch <- impRes{bc, err} })
		if err != nil {
			return fmt.Errorf("import of re-timed block 1: %v", err)
		}
		r := <-ch
		if r.err != nil {
			return fmt.Errorf("import of re-timed block 1: %v", r.err)
		}
		fin = r.bc
	}
	if err := f.bm.Finalize(fin); err != nil {
		return fmt.Errorf("finalize: %v", err)
	}
	if fin != bc {
		fin.Dispose()
	}
	bc.Dispose()
	nb, err := f.bm.GetLastBlock()
	if err != nil {
		return err
	}
	if strings.HasPrefix(st.Tx, "version:") && f.v3From == 0 {
		// a transaction of block h changes the state recorded in block h+1
		f.v3From = nb.Height() + 1
	}
	f.tip = f.learn(nb)
	f.tip.live = false
	f.steps = append(f.steps, st)
	if os.Getenv("C07_DEBUG") != "" {
		ntx := 0
		for it := nb.NormalTransactions().Iterator(); it.Has(); it.Next() {
			ntx++
		}
		fmt.Fprintf(os.Stderr, "extend: h=%d ts=%d tx=%q ntx=%d reqVer=%d expVer=%d voters=%v nextvals=%d\n", nb.Height(), nb.Timestamp(), st.Tx, ntx, f.tip.reqVer, f.tip.expVer, f.tip.voters, nb.NextValidators().Len())
	}
	return nil
}

func buildChain(nval int, steps []stepSpec) (*fixture, error) {
	f := newFixture(nval)
	for i, st := range steps {
		if err := f.extend(st); err != nil {
			return f, fmt.Errorf("step %d: %v", i, err)
		}
	}
	return f, nil
}

// ---------------------------------------------------------------- one candidate

type verBlock struct {
	base.BlockData
	v int
}

func (b verBlock) Version() int { return b.v }

type candObs struct {
	// final fields of the candidate
	height  int64
	prev    []byte
	version int // Version() of the value given to the manager (reader path: the handler's version)
	hdrVer  int
	ts      int64
	votes   []voteTruth
	execOK  bool
	// environment
	nodes  []*blkInfo
	parent *blkInfo // the block the harness meant as parent (explicit parent of the direct call)
	reader bool
	// observations
	direct    int // -1 not tried, 0 rejected, 1 accepted
	directErr string
	cls       int
	clsErr    string
	fatal     string
	refused   string // the real proposer refused a vote list that is a valid commit of the parent
}

func (f *fixture) evalCandidate(sp *candSpec, sub int64) (o candObs) {
	rnd := rand.New(rand.NewSource(sub))
	o.direct = -1
	var live []module.BlockCandidate
	defer func() {
		for _, bc := range live {
			bc.Dispose()
		}
	}()
	par := f.tip
	if sp.Mid != nil {
		mv, mtruth := f.buildVotes(sp.Mid.Votes, sp.Mid.Round, f.tip, rnd)
		mid, err := f.propose(f.tip.id, mv)
		if err != nil {
			o.fatal = "mid proposal: " + err.Error()
			if g, _ := votesGood(f.tip, mtruth); g {
				o.refused = fmt.Sprintf("Propose on the block of height %d refuses a vote list that is a valid commit of it: %v", f.tip.height, err)
			}
			return
		}
		live = append(live, mid)
		par = f.learn(mid)
		par.live = true
	}
	o.parent = par
	hv, truth := f.buildVotes(sp.Base.Votes, sp.Base.Round, par, rnd)
	honest, err := f.propose(par.id, hv)
	if err != nil {
		o.fatal = "honest proposal: " + err.Error()
		if g, _ := votesGood(par, truth); g {
			o.refused = fmt.Sprintf("Propose on the block of height %d refuses a vote list that is a valid commit of it: %v", par.height, err)
		}
		return
	}
	live = append(live, honest)
	hi := f.learn(honest)
	hi.live = true
	hf, bf, err := formatOf(honest)
	if err != nil {
		o.fatal = "format: " + err.Error()
		return
	}
	// ---- deviations
	if sp.Votes != nil {
		nv, tr := f.buildVotes(*sp.Votes, sp.Base.Round+sp.VRound, par, rnd)
		if nv == nil {
			o.fatal = "replacement vote list does not decode"
			return
		}
		bf.Votes = nv.Bytes()
		hf.VotesHash = nv.Hash()
		truth = tr
	}
	hf.Height += sp.DHeight
	switch sp.Prev {
	case "":
	case "random":
		hf.PrevID = make([]byte, 32)
		rnd.Read(hf.PrevID)
	case "below":
		hf.PrevID = append([]byte{}, par.blk.PrevID()...)
	case "sibling":
		hf.PrevID = append([]byte{}, hi.id...)
	case "tip":
		hf.PrevID = append([]byte{}, f.tip.id...)
	case "empty":
		hf.PrevID = nil
	default:
		o.fatal = "unknown prev " + sp.Prev
		return
	}
	var vts []int64
	for _, t := range truth {
		vts = append(vts, t.ts)
	}
	switch sp.TSMode {
	case "":
	case "delta":
		hf.Timestamp += sp.TSVal
	case "abs":
		hf.Timestamp = sp.TSVal
	case "parent":
		hf.Timestamp = par.ts + sp.TSVal
	case "follow":
		hf.Timestamp, _ = refMedian(vts)
	default:
		o.fatal = "unknown tsmode " + sp.TSMode
		return
	}
	if sp.HdrVer != 0 {
		hf.Version = sp.HdrVer
	}
	o.execOK = true
	if sp.BadExec {
		h := make([]byte, 32)
		rnd.Read(h)
		hf.NextValidatorsHash = h
		o.execOK = false
	}
	o.height, o.prev, o.ts, o.votes, o.hdrVer = hf.Height, hf.PrevID, hf.Timestamp, truth, hf.Version
	o.version = hf.Version
	bs := encodeBlock(hf, bf)
	// ---- environment: the node map
	for _, id := range block.VerifNodeIDs(f.bm) {
		bi, ok := f.known[string(id)]
		if !ok {
			o.fatal = fmt.Sprintf("node map holds an unknown block %x", id)
			return
		}
		bi.reqVer = f.nd.Chain.ServiceManager().GetNextBlockVersion(bi.blk.Result())
		o.nodes = append(o.nodes, bi)
	}
	sort.Slice(o.nodes, func(i, j int) bool { return bytes.Compare(o.nodes[i].id, o.nodes[j].id) < 0 })
	// ---- direct call of verifyNewBlock with the intended parent
	var bd module.BlockData
	if hf.Version == module.BlockVersion2 {
		bd, err = f.bm.NewBlockDataFromReader(bytes.NewReader(bs))
		if err != nil {
			o.fatal = "candidate does not decode: " + err.Error()
			return
		}
	}
	if sp.WrapVer != 0 {
		if bd == nil {
			o.fatal = "wrapver with a foreign header version"
			return
		}
		bd = verBlock{bd.(base.BlockData), sp.WrapVer}
		o.version = sp.WrapVer
	}
	if bd != nil {
		var derr error
		if p := hxlib.Catch(func() { derr = block.VerifVerifyNewBlock(f.bm, bd, par.blk) }); p != "" {
			derr = fmt.Errorf("panic: %s", p)
		}
		if derr == nil {
			o.direct = 1
		} else {
			o.direct = 0
			o.directErr = derr.Error()
		}
	}
	// ---- import
	var ierr error
	if sp.WrapVer != 0 {
		o.reader = false
		if p := hxlib.Catch(func() { o.cls, ierr = f.importData(bd) }); p != "" {
			o.cls, ierr = 3, fmt.Errorf("panic: %s", p)
		}
	} else {
		o.reader = true
		if p := hxlib.Catch(func() { o.cls, ierr = f.importBytes(bs) }); p != "" {
			o.cls, ierr = 3, fmt.Errorf("panic: %s", p)
		}
	}
	if ierr != nil {
		o.clsErr = ierr.Error()
	}
	return
}

// ---------------------------------------------------------------- direct oracle

// votesGood: the property's "commit votes of the parent": every item is a correct precommit
// for exactly q by a distinct voter of q, more than two thirds of the voters (none at all
// for a block without voters).
func votesGood(q *blkInfo, votes []voteTruth) (bool, string) {
	if q.noVoters {
		if len(votes) == 0 {
			return true, ""
		}
		return false, "votes for a block without voters"
	}
	seen := map[int]bool{}
	for i, v := range votes {
		if v.forID == nil || !bytes.Equal(v.forID, q.id) {
			return false, fmt.Sprintf("item %d is not a precommit for the parent", i)
		}
		isVoter := false
		for _, w := range q.voters {
			if w == v.signer {
				isVoter = true
			}
		}
		if !isVoter {
			return false, fmt.Sprintf("item %d is signed by wallet %d, not a voter", i, v.signer)
		}
		if seen[v.signer] {
			return false, fmt.Sprintf("wallet %d votes twice", v.signer)
		}
		seen[v.signer] = true
	}
	if q.votersN > 0 && 3*len(votes) <= 2*q.votersN {
		return false, fmt.Sprintf("%d votes of %d voters", len(votes), q.votersN)
	}
	return true, ""
}

// extends: the property's conditions, computed from what the harness put into the candidate.
// why lists the conditions that fail; undecided: the timestamps are so large that the sum of
// the two middle ones does not fit int64 (outside the range in which the property's median
// and the code's agree).
func extends(q *blkInfo, o *candObs) (ok bool, why []string, undecided bool) {
	if o.height != q.height+1 {
		why = append(why, fmt.Sprintf("height %d on a parent of height %d", o.height, q.height))
	}
	if !bytes.Equal(o.prev, q.id) {
		why = append(why, "previous id is not the parent's id")
	}
	want := q.expVer
	if q.live {
		want = q.reqVer
	}
	if o.version != want {
		why = append(why, fmt.Sprintf("version %d, the parent's state requires %d", o.version, want))
	}
	if g, w := votesGood(q, o.votes); !g {
		why = append(why, "votes: "+w)
	}
	if o.height > 1 {
		var vts []int64
		for _, v := range o.votes {
			vts = append(vts, v.ts)
		}
		m, exact := refMedian(vts)
		if !exact {
			undecided = true
		}
		if o.ts != m {
			why = append(why, fmt.Sprintf("timestamp %d, median of the vote timestamps %d", o.ts, m))
		}
		if o.ts <= q.ts {
			why = append(why, fmt.Sprintf("timestamp %d not above the parent's %d", o.ts, q.ts))
		}
	}
	return len(why) == 0, why, undecided
}

func oracle(sp *candSpec, o *candObs) string {
	if o.fatal != "" {
		return ""
	}
	// the direct call: parent given explicitly
	if o.direct >= 0 {
		ok, why, und := extends(o.parent, o)
		if !und {
			if o.direct == 1 && !ok {
				return fmt.Sprintf("verifyNewBlock accepts a candidate that does not extend its parent (%s): %s", sp.Label, strings.Join(why, "; "))
			}
			if o.direct == 0 && ok {
				return fmt.Sprintf("verifyNewBlock rejects a candidate that extends its parent in every respect (%s): %s", sp.Label, o.directErr)
			}
		}
	}
	// the import: parent is the block of the node map named by the previous id
	var q *blkInfo
	for _, n := range o.nodes {
		if bytes.Equal(n.id, o.prev) {
			q = n
		}
	}
	if o.cls == 3 {
		return fmt.Sprintf("import did not complete (%s): %s", sp.Label, o.clsErr)
	}
	if q == nil {
		if o.cls == 0 {
			return fmt.Sprintf("import accepts a candidate whose previous id names no held block (%s)", sp.Label)
		}
		return ""
	}
	ok, why, und := extends(q, o)
	if und {
		return ""
	}
	if o.reader && o.hdrVer != module.BlockVersion2 {
		// no handler: must not be accepted whatever else holds
		if o.cls == 0 {
			return fmt.Sprintf("import accepts a block of version %d (%s)", o.hdrVer, sp.Label)
		}
		return ""
	}
	if o.cls == 0 && !ok {
		return fmt.Sprintf("import accepts a candidate that does not extend its parent (%s): %s", sp.Label, strings.Join(why, "; "))
	}
	if o.cls != 0 && ok && o.execOK {
		return fmt.Sprintf("import rejects a candidate that extends its parent in every respect (%s): %s", sp.Label, o.clsErr)
	}
	return ""
}

// ---------------------------------------------------------------- Coq printing

// Block ids are only compared by the model: the distinct ids of a run are numbered in order
// of first appearance (idt k in Run_C07.v); the empty id stays the empty byte string.
var idTags = map[string]int{}

func coqID(id []byte) string {
	if len(id) == 0 {
		return "[]"
	}
	k, ok := idTags[string(id)]
	if !ok {
		k = len(idTags) + 1
		idTags[string(id)] = k
	}
	return fmt.Sprintf("(idt %d)", k)
}

// large decimal literals are slow to parse in Coq (a 19-digit one costs ~15 ms, a hex one
// next to nothing): timestamps beyond 32 bits are printed in hexadecimal
func coqZ(v int64) string {
	if v > -(1<<31) && v < 1<<31 {
		return hxlib.CoqZ(v)
	}
	if v < 0 {
		return "(-0x" + new(big.Int).Neg(big.NewInt(v)).Text(16) + ")%Z"
	}
	return "(0x" + strconv.FormatInt(v, 16) + ")%Z"
}

func coqParent(b *blkInfo) string {
	voters := "None"
	if !b.noVoters {
		var it []string
		for _, w := range b.voters {
			if w < 0 {
				w = 9999
			}
			it = append(it, strconv.Itoa(w))
		}
		voters = "(Some " + hxlib.CoqList(it) + ")"
	}
	return fmt.Sprintf("(mkP %s %s %s %s %s)", hxlib.CoqZ(b.height), coqID(b.id), coqZ(b.ts), hxlib.CoqZ(b.reqVer), voters)
}

func coqCand(o *candObs) string {
	var vs []string
	for _, v := range o.votes {
		s := "None"
		if v.signer >= 0 {
			s = fmt.Sprintf("(Some %d)", v.signer)
		}
		vs = append(vs, fmt.Sprintf("mkV %s %s %s", coqZ(v.ts), s, coqID(v.forID)))
	}
	return fmt.Sprintf("(mkC %s %s %s %s %s %s)", hxlib.CoqZ(o.height), coqID(o.prev), hxlib.CoqZ(o.version),
		coqZ(o.ts), hxlib.CoqList(vs), hxlib.CoqBool(o.execOK))
}

func coqVerify(o *candObs) string {
	return fmt.Sprintf("(CVerify %s %s %s)", coqParent(o.parent), coqCand(o), hxlib.CoqBool(o.direct == 1))
}

func coqImport(o *candObs) string {
	var ns []string
	for _, n := range o.nodes {
		ns = append(ns, coqParent(n))
	}
	reader := "None"
	if o.reader {
		reader = "(Some " + hxlib.CoqZ(o.hdrVer) + ")"
	}
	return fmt.Sprintf("(CImport %s %s %s [(2)%%Z] %d)", hxlib.CoqList(ns), coqCand(o), reader, o.cls)
}

func coqMedian(ts []int64, obs int64) string {
	var it []string
	for _, t := range ts {
		it = append(it, coqZ(t))
	}
	return fmt.Sprintf("(CMedian %s %s)", hxlib.CoqList(it), coqZ(obs))
}

// ---------------------------------------------------------------- median stream

func runMedian(ts []int64) (obs int64, msg string) {
	var vs []voteSpec
	for i, t := range ts {
		vs = append(vs, voteSpec{W: i % 7, TS: t})
	}
	var m cvlMirror
	psid := &consensus.PartSetID{Count: 1, Hash: make([]byte, 32)}
	id := make([]byte, 32)
	for i, v := range vs {
		msgv := consensus.NewVoteMessage(walletOf(v.W), consensus.VoteTypePrecommit, 5, 0, id, psid, v.TS, nil, nil, 0)
		if i == 0 {
			m.PSID = msgv.BlockPartSetIDAndNTSVoteCount
		}
		m.Items = append(m.Items, cvlItem{v.TS, msgv.Signature})
	}
	var cvs module.CommitVoteSet
	if len(ts) == 0 {
		cvs = consensus.NewEmptyCommitVoteList()
	} else {
		cvs = consensus.NewCommitVoteSetFromBytes(codec.BC.MustMarshalToBytes(&m))
	}
	if cvs == nil {
		return 0, "vote list does not decode"
	}
	if p := hxlib.Catch(func() { obs = cvs.Timestamp() }); p != "" {
		return 0, "Timestamp() panics: " + p
	}
	ref, exact := refMedian(ts)
	if exact && obs != ref {
		return obs, fmt.Sprintf("Timestamp() = %d, the median of %v is %d", obs, ts, ref)
	}
	if exact && len(ts) > 0 {
		mn, mx := ts[0], ts[0]
		for _, t := range ts {
			if t < mn {
				mn = t
			}
			if t > mx {
				mx = t
			}
		}
		if obs < mn || obs > mx {
			return obs, fmt.Sprintf("Timestamp() = %d outside [%d, %d]", obs, mn, mx)
		}
	}
	return obs, ""
}

func genMedians(c *hxlib.Ctx) {
	r := c.Rand
	emit := func(kind string, ts []int64) {
		obs, msg := runMedian(ts)
		cs := hxlib.Case{Kind: kind, Input: map[string]interface{}{"t": "median", "v": medianIn{ts}},
			Nontrivial: len(ts) >= 2, OracleErr: msg}
		if !c.OracleOnly {
			cs.Coq = coqMedian(ts, obs)
		}
		c.Emit(cs)
	}
	fixed := [][]int64{
		{}, {0}, {-1}, {7, 7}, {1, 2}, {2, 1}, {-1, 0}, {-3, -2}, {-2, -3}, {-1, 1}, {-1, 2}, {-4, 1},
		{1, 2, 3, 4}, {4, 3, 2, 1}, {5, 5, 5, 5}, {1, 1, 2, 2}, {1, 2, 2, 3}, {10, 11}, {10, 12}, {3, 1, 2},
		{math.MaxInt64}, {math.MinInt64}, {math.MaxInt64, math.MaxInt64}, {math.MinInt64, math.MinInt64},
		{math.MaxInt64, math.MinInt64}, {math.MaxInt64, 1}, {math.MinInt64, -1}, {1 << 62, 1 << 62},
		{1<<62 - 1, 1 << 62}, {1<<62 - 1, 1<<62 - 1}, {-(1 << 62), -(1 << 62)}, {-(1 << 62) - 1, -(1 << 62)},
		{math.MaxInt64 - 1, math.MaxInt64, 0, 1}, {math.MinInt64, math.MaxInt64, 0}, {1 << 62, 1<<62 + 1, 1<<62 + 2, -5},
	}
	for _, ts := range fixed {
		emit("median-fixed", ts)
	}
	for i := 0; i < c.N(260); i++ {
		n := 1 + r.Intn(9)
		ts := make([]int64, n)
		kind := "median-"
		switch r.Intn(6) {
		case 0: // realistic microsecond clock values, close together
			kind += "clock"
			basev := int64(1700000000000000) + r.Int63n(1000000)
			for j := range ts {
				ts[j] = basev + r.Int63n(2000) - 1000
			}
		case 1: // small, many ties
			kind += "ties"
			for j := range ts {
				ts[j] = int64(r.Intn(4)) - 1
			}
		case 2: // negative and positive
			kind += "signed"
			for j := range ts {
				ts[j] = r.Int63n(2001) - 1000
			}
		case 3: // near the positive limit
			kind += "maxint"
			for j := range ts {
				ts[j] = math.MaxInt64 - r.Int63n(1000)
			}
		case 4: // near the negative limit and mixed extremes
			kind += "extremes"
			for j := range ts {
				switch r.Intn(3) {
				case 0:
					ts[j] = math.MinInt64 + r.Int63n(1000)
				case 1:
					ts[j] = math.MaxInt64 - r.Int63n(1000)
				default:
					ts[j] = r.Int63n(2001) - 1000
				}
			}
		default: // around 2^62 where the sum starts to wrap
			kind += "pow62"
			for j := range ts {
				ts[j] = (1 << 62) + r.Int63n(7) - 3
				if r.Intn(4) == 0 {
					ts[j] = -ts[j]
				}
			}
		}
		emit(kind, ts)
	}
}

// ---------------------------------------------------------------- candidate stream

func ptr64(v int64) *int64 { return &v }

// quorum size for n voters: smallest k with 3k > 2n (0 voters: 0)
func quorum(n int) int {
	if n == 0 {
		return 0
	}
	return 2*n/3 + 1
}

type plan struct {
	nval     int
	name     string
	length   int
	ts1      *int64 // timestamp of block 1 (nil: the proposer's 0)
	base     int64  // first vote timestamps
	step     int64  // growth per height
	txAt     map[int]string
	fullAt   map[int]bool      // heights at which the whole candidate catalogue runs (nil: everywhere); elsewhere a short list
	votersAt func(h int) []int // wallets entitled to vote for the block at height h (h >= 1), as the plan expects
}

// honest vote list for the block at height h (attached to the block at h+1)
func (p *plan) honestVotes(r *rand.Rand, h int, lo int64, style int) []voteSpec {
	voters := p.votersAt(h)
	n := len(voters)
	k := quorum(n)
	if n > k && r.Intn(2) == 0 {
		k += r.Intn(n - k + 1)
	}
	perm := r.Perm(n)
	var vs []voteSpec
	for i := 0; i < k; i++ {
		var t int64
		switch style {
		case 0: // spread
			t = lo + 1 + r.Int63n(40)
		case 1: // all equal
			t = lo + 5
		case 2: // adjacent values (odd sum for even counts)
			t = lo + 1 + int64(i%2)
		default: // wide
			t = lo + 1 + r.Int63n(100000)
		}
		vs = append(vs, voteSpec{W: voters[perm[i]], TS: t})
	}
	return vs
}

func cloneVotes(v []voteSpec) []voteSpec { return append([]voteSpec{}, v...) }

// vote lists whose median is exactly m: quorum-many items, spread symmetric around m
func votesWithMedian(voters []int, k int, m int64, r *rand.Rand) []voteSpec {
	var vs []voteSpec
	perm := r.Perm(len(voters))
	for i := 0; i < k; i++ {
		vs = append(vs, voteSpec{W: voters[perm[i]], TS: m})
	}
	// move pairs apart symmetrically (keeps the median for odd and even counts)
	for i := 0; i+1 < k/2*2 && k >= 3; i += 2 {
		d := r.Int63n(5)
		if k%2 == 0 && i == 0 {
			// the two middle ones of an even count: m-d and m+d (sum 2m)
			vs[i].TS, vs[i+1].TS = m-d, m+d
			continue
		}
		d2 := d + r.Int63n(5)
		vs[i].TS, vs[i+1].TS = m-d2-5, m+d2+5
	}
	return vs
}

func genCandidates(c *hxlib.Ctx) {
	r := c.Rand
	big62 := int64(1) << 62
	fixedVoters := func(n int) func(int) []int {
		return func(h int) []int {
			v := make([]int, n)
			for i := range v {
				v[i] = i
			}
			return v
		}
	}
	nE := 5 + r.Intn(3)
	plans := []*plan{
		{nval: 4, name: "n4", length: 4, base: 1000000, step: 1000, votersAt: fixedVoters(4), fullAt: map[int]bool{1: true, 2: true}},
		{nval: 1, name: "n1", length: 3, base: 50, step: 10, votersAt: fixedVoters(1), fullAt: map[int]bool{2: true}},
		{nval: 2, name: "n2", length: 3, base: 1, step: 3, votersAt: fixedVoters(2), fullAt: map[int]bool{2: true}},
		{nval: 3, name: "n3neg", length: 3, ts1: ptr64(-100000), base: -99000, step: 500, votersAt: fixedVoters(3), fullAt: map[int]bool{2: true}},
		{nval: nE, name: "nE", length: 6, base: 1700000000000000, step: 2000000,
			txAt: map[int]string{2: "validators:0,1,2,3", 4: "version:3"}, fullAt: map[int]bool{2: true, 5: true, 6: true},
			votersAt: func(h int) []int {
				// a validators transaction of block 2 shows in NextValidators of block 3: voters of block 4 and up
				n := nE
				if h >= 4 {
					n = 4
				}
				v := make([]int, n)
				for i := range v {
					v[i] = i
				}
				return v
			}},
		{nval: 4, name: "n4big", length: 3, ts1: ptr64(big62 - 1000), base: big62 - 500, step: 300, votersAt: fixedVoters(4), fullAt: map[int]bool{3: true}},
		{nval: 0, name: "n0", length: 2, ts1: ptr64(-7), base: 0, step: 0, votersAt: fixedVoters(0), fullAt: map[int]bool{2: true}},
	}
	if c.Tier == "thorough" {
		for i := 0; i < 6; i++ {
			n := 1 + r.Intn(9)
			plans = append(plans, &plan{nval: n, name: fmt.Sprintf("rnd%d-n%d", i, n), length: 3 + r.Intn(4),
				base: r.Int63n(1 << 50), step: 1 + r.Int63n(100000), votersAt: fixedVoters(n)})
		}
	}
	for _, p := range plans {
		runPlan(c, p)
	}
}

// the candidates tried at the heights that do not get the whole catalogue
var shortList = []string{"honest", "height:-1", "height:+1", "prev:random", "prev:sibling", "version:wrap3", "version:hdr3",
	"ts:delta-1", "ts:delta+1", "ts:parent", "ts:upper-middle", "votes:one-short", "votes:permuted",
	"votes:foreign-signer", "votes:for-block-below", "median:parent+0", "median:parent+1",
	"multi:votes+ts", "live-parent:honest"}

func inShortList(label string) bool {
	for _, s := range shortList {
		if label == s || strings.HasPrefix(label, s+"/") {
			return true
		}
	}
	return false
}

func runPlan(c *hxlib.Ctx, p *plan) {
	r := c.Rand
	f := newFixture(p.nval)
	defer f.close()
	var chain []stepSpec
	caseNo := 0
	emit := func(sp candSpec) {
		caseNo++
		sp.NVal = p.nval
		sp.Chain = append([]stepSpec{}, chain...)
		sub := c.Seed*1000 + int64(caseNo)
		o := f.evalCandidate(&sp, sub)
		in := map[string]interface{}{"t": "cand", "v": sp, "sub": sub}
		kind := "cand-" + strings.SplitN(sp.Label, ":", 2)[0]
		if o.fatal != "" {
			c.Note("%s h%d %s: %s", p.name, f.tip.height+1, sp.Label, o.fatal)
			if o.refused != "" {
				c.Emit(hxlib.Case{Kind: "propose-refused", Input: in, Nontrivial: true, OracleErr: o.refused,
					Key: fmt.Sprintf("%s/%d/%s", p.name, f.tip.height, sp.Label)})
			}
			return
		}
		msg := oracle(&sp, &o)
		for _, n := range o.nodes {
			if n.reqVer != n.expVer && !n.live && msg == "" {
				c.Note("%s: block of height %d: state requires version %d, harness expected %d", p.name, n.height, n.reqVer, n.expVer)
			}
		}
		if o.direct >= 0 {
			cs := hxlib.Case{Kind: kind + "/verify", Input: in, Nontrivial: true, OracleErr: msg}
			if !c.OracleOnly {
				cs.Coq = coqVerify(&o)
			}
			c.Emit(cs)
			msg = "" // reported once
		}
		cs := hxlib.Case{Kind: kind + "/import", Input: in, Nontrivial: o.hdrVer == module.BlockVersion2, OracleErr: msg}
		if !c.OracleOnly {
			cs.Coq = coqImport(&o)
		}
		c.Emit(cs)
	}
	for h := 1; h <= p.length; h++ {
		// the honest step that will extend the chain to height h
		par := f.tip
		var honest stepSpec
		lo := par.ts
		if h >= 2 {
			if h == 2 && p.ts1 == nil {
				lo = p.base
			}
			honest.Votes = p.honestVotes(r, h-1, lo, (h+r.Intn(2))%4)
			honest.Round = int32(r.Intn(3))
		}
		// ---- candidates on the current tip
		voters := []int{}
		if h >= 2 {
			voters = p.votersAt(h - 1)
		}
		n := len(voters)
		k := quorum(n)
		base := stepSpec{Votes: cloneVotes(honest.Votes), Round: honest.Round}
		light := p.fullAt != nil && !p.fullAt[h]
		mk := func(label string, mod func(sp *candSpec)) {
			if light && !inShortList(label) {
				return
			}
			sp := candSpec{Base: base, Label: label}
			mod(&sp)
			emit(sp)
		}
		mk("honest", func(sp *candSpec) {})
		// height
		for _, d := range []int64{-1, 1, 2, -int64(h)} {
			d := d
			mk(fmt.Sprintf("height:%+d", d), func(sp *candSpec) { sp.DHeight = d })
		}
		// previous id
		for _, pv := range []string{"random", "below", "sibling", "empty"} {
			pv := pv
			if pv == "below" && h < 2 {
				continue
			}
			mk("prev:"+pv, func(sp *candSpec) { sp.Prev = pv })
		}
		// version
		mk("version:hdr1", func(sp *candSpec) { sp.HdrVer = 1 })
		mk("version:hdr3", func(sp *candSpec) { sp.HdrVer = 3 })
		mk("version:wrap1", func(sp *candSpec) { sp.WrapVer = 1 })
		mk("version:wrap3", func(sp *candSpec) { sp.WrapVer = 3 })
		mk("version:wrap2", func(sp *candSpec) { sp.WrapVer = 2 })
		// timestamp
		for _, d := range []int64{-1, 1, 1000} {
			d := d
			mk(fmt.Sprintf("ts:delta%+d", d), func(sp *candSpec) { sp.TSMode, sp.TSVal = "delta", d })
		}
		mk("ts:parent", func(sp *candSpec) { sp.TSMode, sp.TSVal = "parent", 0 })
		mk("ts:parent+1", func(sp *candSpec) { sp.TSMode, sp.TSVal = "parent", 1 })
		mk("ts:zero", func(sp *candSpec) { sp.TSMode, sp.TSVal = "abs", 0 })
		if len(base.Votes) >= 2 && len(base.Votes)%2 == 0 {
			s := []int64{}
			for _, v := range base.Votes {
				s = append(s, v.TS)
			}
			sort.Slice(s, func(i, j int) bool { return s[i] < s[j] })
			lom, him := s[len(s)/2-1], s[len(s)/2]
			mk("ts:lower-middle", func(sp *candSpec) { sp.TSMode, sp.TSVal = "abs", lom })
			mk("ts:upper-middle", func(sp *candSpec) { sp.TSMode, sp.TSVal = "abs", him })
			// mean rounded toward minus infinity (differs from the code's for a negative odd sum)
			fl := new(big.Int).Div(new(big.Int).Add(big.NewInt(lom), big.NewInt(him)), big.NewInt(2))
			mk("ts:floor-mean", func(sp *candSpec) { sp.TSMode, sp.TSVal = "abs", fl.Int64() })
		}
		// execution stage
		mk("exec:next-validators-hash", func(sp *candSpec) { sp.BadExec = true })
		if h >= 2 {
			// vote lists: valid variations (timestamp follows) and invalid ones
			follow := func(sp *candSpec) { sp.TSMode = "follow" }
			perm := func(vs []voteSpec) []voteSpec {
				o := cloneVotes(vs)
				r.Shuffle(len(o), func(i, j int) { o[i], o[j] = o[j], o[i] })
				return o
			}
			mk("votes:permuted", func(sp *candSpec) { v := perm(base.Votes); sp.Votes = &v })
			mk("votes:other-round", func(sp *candSpec) { v := cloneVotes(base.Votes); sp.Votes = &v; sp.VRound = 1 })
			all := func(ts func(i int) int64, cnt int) []voteSpec {
				var v []voteSpec
				pm := r.Perm(n)
				for i := 0; i < cnt && i < n; i++ {
					v = append(v, voteSpec{W: voters[pm[i]], TS: ts(i)})
				}
				return v
			}
			tsAbove := func(i int) int64 { return par.ts + 2 + int64(i)*3 }
			mk("votes:quorum-exact", func(sp *candSpec) { v := all(tsAbove, k); sp.Votes = &v; follow(sp) })
			mk("votes:all-voters", func(sp *candSpec) { v := all(tsAbove, n); sp.Votes = &v; follow(sp) })
			if k >= 1 && n > 0 {
				mk("votes:one-short", func(sp *candSpec) { v := all(tsAbove, k-1); sp.Votes = &v; follow(sp) })
				mk("votes:one-short-ts-kept", func(sp *candSpec) { v := all(tsAbove, k-1); sp.Votes = &v })
				mk("votes:none", func(sp *candSpec) { v := []voteSpec{}; sp.Votes = &v; follow(sp) })
			}
			subst := func(label string, f func(v *voteSpec, vs []voteSpec)) {
				if len(base.Votes) == 0 {
					return
				}
				mk("votes:"+label, func(sp *candSpec) {
					v := cloneVotes(base.Votes)
					f(&v[r.Intn(len(v))], v)
					sp.Votes = &v
					follow(sp)
				})
			}
			subst("foreign-signer", func(v *voteSpec, _ []voteSpec) { v.W = 100 + r.Intn(3) })
			subst("for-block-below", func(v *voteSpec, _ []voteSpec) { v.Target = "below" })
			subst("for-random-block", func(v *voteSpec, _ []voteSpec) { v.Target = "random" })
			subst("for-next-height", func(v *voteSpec, _ []voteSpec) { v.Target = "height+1" })
			subst("signed-other-time", func(v *voteSpec, _ []voteSpec) { v.SigTS = ptr64(v.TS + 1) })
			subst("signed-other-round", func(v *voteSpec, _ []voteSpec) { v.SigRound = 1 })
			subst("garbage-signature", func(v *voteSpec, _ []voteSpec) { v.Garbage = true })
			if len(base.Votes) >= 2 {
				mk("votes:duplicate-voter", func(sp *candSpec) {
					v := cloneVotes(base.Votes)
					v[0].W = v[1].W
					v[0].TS = v[1].TS + 1
					sp.Votes = &v
					follow(sp)
				})
				mk("votes:all-for-block-below", func(sp *candSpec) {
					v := cloneVotes(base.Votes)
					for i := range v {
						v[i].Target = "below"
					}
					sp.Votes = &v
					follow(sp)
				})
			}
			if p.nval > 0 {
				mk("votes:extra-foreign", func(sp *candSpec) {
					v := append(cloneVotes(base.Votes), voteSpec{W: 101, TS: par.ts + 3})
					sp.Votes = &v
					follow(sp)
				})
			}
			// honest-form candidates whose median sits at / next to the parent's timestamp
			if k >= 1 {
				for _, d := range []int64{-1, 0, 1, 2} {
					d := d
					for _, cnt := range []int{k, n} {
						if cnt == n && n == k {
							continue
						}
						cnt := cnt
						mk(fmt.Sprintf("median:parent%+d/%dvotes", d, cnt), func(sp *candSpec) {
							sp.Base = stepSpec{Votes: votesWithMedian(voters, cnt, par.ts+d, r), Round: base.Round}
						})
					}
				}
				// negative-odd-sum and tie boundaries, honest form
				ev := k
				if ev%2 == 1 {
					ev++
				}
				if ev <= n {
					mk("median:odd-sum", func(sp *candSpec) {
						sp.Base = stepSpec{Votes: all(func(i int) int64 { return par.ts + 2 + int64(i%2) }, ev), Round: base.Round}
					})
					mk("median:odd-sum-at-parent", func(sp *candSpec) {
						sp.Base = stepSpec{Votes: all(func(i int) int64 { return par.ts + int64(i%2) }, ev), Round: base.Round}
					})
				}
			}
			// two and three deviations at once
			mk("multi:height+ts", func(sp *candSpec) { sp.DHeight = 1; sp.TSMode, sp.TSVal = "delta", 1 })
			mk("multi:prev+height", func(sp *candSpec) { sp.Prev = "below"; sp.DHeight = -1 })
			mk("multi:version+ts", func(sp *candSpec) { sp.WrapVer = 3; sp.TSMode, sp.TSVal = "parent", 0 })
			mk("multi:votes+ts", func(sp *candSpec) {
				v := all(tsAbove, k)
				sp.Votes = &v
				sp.TSMode, sp.TSVal = "delta", 1
			})
			mk("multi:sibling+height", func(sp *candSpec) { sp.Prev = "sibling"; sp.DHeight = 1 })
			mk("multi:prev+version+height", func(sp *candSpec) { sp.Prev = "random"; sp.WrapVer = 1; sp.DHeight = 2 })
			// children of a live (not finalized) block
			mid := stepSpec{Votes: cloneVotes(honest.Votes), Round: honest.Round}
			midTS, _ := refMedian(func() []int64 {
				var s []int64
				for _, v := range mid.Votes {
					s = append(s, v.TS)
				}
				return s
			}())
			if p.txAt[h] == "" && p.txAt[h+1] == "" && midTS > par.ts {
				vnext := p.votersAt(h)
				gv := votesWithMedian(vnext, quorum(len(vnext)), midTS+7, r)
				mkMid := func(label string, mod func(sp *candSpec)) {
					if light && !inShortList(label) {
						return
					}
					sp := candSpec{Mid: &mid, Base: stepSpec{Votes: gv, Round: 1}, Label: label}
					mod(&sp)
					emit(sp)
				}
				mkMid("live-parent:honest", func(sp *candSpec) {})
				mkMid("live-parent:height-1", func(sp *candSpec) { sp.DHeight = -1 })
				mkMid("live-parent:prev-tip", func(sp *candSpec) { sp.Prev = "tip" })
				mkMid("live-parent:prev-tip+height", func(sp *candSpec) { sp.Prev = "tip"; sp.DHeight = -1 })
				mkMid("live-parent:ts-of-parent", func(sp *candSpec) { sp.TSMode, sp.TSVal = "parent", 0 })
			}
		}
		// ---- extend the chain
		if h == p.length {
			break
		}
		st := honest
		if tx, ok := p.txAt[h]; ok {
			st.Tx = tx
		}
		if h == 1 && p.ts1 != nil {
			st.TS1 = p.ts1
		}
		if err := f.extend(st); err != nil {
			c.Note("%s: cannot extend to height %d: %v", p.name, h, err)
			steps := append(append([]stepSpec{}, chain...), st)
			c.Emit(hxlib.Case{Kind: "chain-stuck", Nontrivial: true, Key: fmt.Sprintf("%s/%d", p.name, h),
				Input:     map[string]interface{}{"t": "chain", "nval": p.nval, "steps": steps},
				OracleErr: fmt.Sprintf("an honest chain cannot be extended to height %d (%d validators): %v", h, p.nval, err)})
			return
		}
		chain = append(chain, st)
	}
}

// ---------------------------------------------------------------- gen / replay

func gen(c *hxlib.Ctx) {
	genMedians(c)
	genCandidates(c)
	// canaries: wrong observations the model must flag
	c.Emit(hxlib.Case{Kind: "canary", Canary: true, Coq: "(CMedian [(1)%Z; (2)%Z; (3)%Z; (4)%Z] (3)%Z)"})
	c.Emit(hxlib.Case{Kind: "canary", Canary: true, Coq: "(CMedian [(-3)%Z; (-2)%Z] (-3)%Z)"})
	pid := hxlib.CoqBytes([]byte{9, 9, 9})
	par := fmt.Sprintf("(mkP (1)%%Z %s (24)%%Z (2)%%Z (Some [0;1;2;3]))", pid)
	votes := fmt.Sprintf("[mkV (23)%%Z (Some 0) %s; mkV (24)%%Z (Some 1) %s; mkV (25)%%Z (Some 2) %s]", pid, pid, pid)
	cand := fmt.Sprintf("(mkC (2)%%Z %s (2)%%Z (24)%%Z %s true)", pid, votes)
	// timestamp equal to the parent's reported as accepted
	c.Emit(hxlib.Case{Kind: "canary", Canary: true, Coq: fmt.Sprintf("(CVerify %s %s true)", par, cand)})
	c.Emit(hxlib.Case{Kind: "canary", Canary: true, Coq: fmt.Sprintf("(CImport [%s] %s (Some (2)%%Z) [(2)%%Z] 0)", par, cand)})
}

func replay(raw json.RawMessage) string {
	var in struct {
		T   string          `json:"t"`
		V   json.RawMessage `json:"v"`
		Sub int64           `json:"sub"`
	}
	if err := json.Unmarshal(raw, &in); err != nil {
		return "bad replay input: " + err.Error()
	}
	switch in.T {
	case "median":
		var v medianIn
		if err := json.Unmarshal(in.V, &v); err != nil {
			return "bad replay input: " + err.Error()
		}
		_, msg := runMedian(v.TS)
		return msg
	case "cand":
		var sp candSpec
		if err := json.Unmarshal(in.V, &sp); err != nil {
			return "bad replay input: " + err.Error()
		}
		f, err := buildChain(sp.NVal, sp.Chain)
		defer f.close()
		if err != nil {
			return "cannot rebuild the chain: " + err.Error()
		}
		o := f.evalCandidate(&sp, in.Sub)
		if o.refused != "" {
			return o.refused
		}
		if o.fatal != "" {
			return "cannot rebuild the candidate: " + o.fatal
		}
		return oracle(&sp, &o)
	case "chain":
		var ch struct {
			NVal  int        `json:"nval"`
			Steps []stepSpec `json:"steps"`
		}
		if err := json.Unmarshal(raw, &ch); err != nil {
			return "bad replay input: " + err.Error()
		}
		f, err := buildChain(ch.NVal, ch.Steps)
		defer f.close()
		if err != nil {
			return fmt.Sprintf("an honest chain cannot be extended (%d validators): %v", ch.NVal, err)
		}
		return ""
	}
	return "unknown case type " + in.T
}

var _ = hex.EncodeToString

func main() {
	log.GlobalLogger().SetOutput(io.Discard)
	hxlib.Main(hxlib.Spec{
		ID:    "C07",
		Shard: 150,
		Rule:  "fixture chains (1,2,3,4,5-7 and 0 validators; negative, clock-sized and near-2^62 timestamps; a validator-set change and a next-block-version change) built on a real test node with votes signed by harness wallets; at every height the honest next block is re-encoded with one deviation (height -1/+1/+2/0, previous id random/grandparent/sibling/empty, header or Version() 1/3, timestamp +-1/parent's/parent's+1/0/lower/upper middle/floor mean, vote list permuted/other round/exact quorum/one short/none/foreign signer/other block/other height/other time/other round/garbage/duplicate/extra item, wrong next-validators hash), with honest-form vote lists whose median is the parent's timestamp -1/0/+1/+2, with 2-3 deviations, and as child of a live block; each candidate goes to verifyNewBlock with the explicit parent (CVerify) and through Import/ImportBlock (CImport); plus Timestamp() of vote lists with fixed boundary and random timestamps incl. negative, near-int64-limit and near-2^62 values (CMedian). non-trivial = every candidate that reaches the manager (header version 2) and every median list of >= 2 items; distinct = distinct Coq case term",
		Gen:   gen, Replay: replay,
	})
}
