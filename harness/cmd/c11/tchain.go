package main

// Transition-level stream of C11: REAL service transitions on a test node (real
// service.NewManager with its TXIDManager over the real locator manager, the
// `basic` platform wrapped so that a block can write timestamp_threshold into
// the system storage, a real genesis).  Chains of blocks are built the way
// block.Manager does it: PatchTransition on the parent, CreateTransition(...,
// false).Execute (ensureRecordTXIDs + validateTxs), Finalize(parent,
// Patch|Result) + Finalize(block, Normal), optionally one block late.
// The environment is adapted from harness/cmd/c37/env.go.

import (
	"context"
	"encoding/base64"
	"encoding/json"
	"fmt"
	"math/rand"
	"os"
	"path/filepath"
	"sort"
	"time"

	"github.com/icon-project/goloop/chain/base"
	"github.com/icon-project/goloop/common"
	"github.com/icon-project/goloop/common/crypto"
	"github.com/icon-project/goloop/common/db"
	"github.com/icon-project/goloop/common/errors"
	"github.com/icon-project/goloop/common/log"
	"github.com/icon-project/goloop/common/txlocator"
	"github.com/icon-project/goloop/common/wallet"
	"github.com/icon-project/goloop/module"
	"github.com/icon-project/goloop/service"
	"github.com/icon-project/goloop/service/contract"
	"github.com/icon-project/goloop/service/platform/basic"
	"github.com/icon-project/goloop/service/scoredb"
	"github.com/icon-project/goloop/service/state"
	"github.com/icon-project/goloop/service/transaction"
	"github.com/icon-project/goloop/test"
	"verif/harness/hxlib"
)

const (
	patchThUS   = int64(60_000_000)
	defaultThUS = int64(300_000_000)
)

func thOfState(ms int64) int64 {
	if ms == 0 {
		return defaultThUS
	}
	return ms * 1000
}

// ---------------------------------------------------------------- inputs

type CTx struct {
	N     int   `json:"n"` // number inside the chain (model id); 0 is the genesis transaction
	TS    int64 `json:"ts"`
	Patch bool  `json:"patch,omitempty"`
}

type CBlock struct {
	BTS     int64 `json:"bts"`
	PProbes []int `json:"pprobes,omitempty"` // one-transaction patch lists validated on the parent (not executed)
	Patches []int `json:"patches,omitempty"` // patch list applied to the parent (PatchTransition, executed)
	NProbes []int `json:"nprobes,omitempty"` // one-transaction normal lists validated (not executed)
	Txs     []int `json:"txs,omitempty"`     // the block
	SetMS   int64 `json:"setms"`             // < 0: nothing; else the block writes timestamp_threshold = SetMS (ms)
	Defer   bool  `json:"defer,omitempty"`   // finalize this block only after the next one has been validated
}

type ChainPlan struct {
	ThMS   int64    `json:"thms"` // genesis timestampThreshold (ms), 0 = not configured
	Txs    []CTx    `json:"txs"`
	Blocks []CBlock `json:"blocks"`
}

// ---------------------------------------------------------------- environment

var (
	cWallets [3]module.Wallet
	cAddrs   [3]*common.Address
	cGod     = common.MustNewAddressFromString("hx0000000000000000000000000000000000000d0d")
)

func init() {
	for i := range cWallets {
		sk, err := crypto.ParsePrivateKey(crypto.SHA3Sum256([]byte(fmt.Sprintf("verif-c11-account-%d", i))))
		if err != nil {
			panic(err)
		}
		w, err := wallet.NewFromPrivateKey(sk)
		if err != nil {
			panic(err)
		}
		cWallets[i] = w
		cAddrs[i] = common.AddressToPtr(w.Address())
	}
}

type cRegulator struct {
	module.Regulator
}

func (r *cRegulator) MaxTxCount() int { return 1000 }

type cChain struct {
	*test.Chain
	reg *cRegulator
}

func (c *cChain) MaxBlockTxBytes() int              { return 1024 * 1024 }
func (c *cChain) Regulator() module.Regulator       { return c.reg }
func (c *cChain) NormalTxPoolSize() int             { return 5000 }
func (c *cChain) PatchTxPoolSize() int              { return 1000 }
func (c *cChain) ConcurrencyLevel() int             { return 1 }
func (c *cChain) TransactionTimeout() time.Duration { return 5 * time.Second }
func (c *cChain) MetricContext() context.Context    { return context.Background() }

type cNullT struct{}

func (t *cNullT) Errorf(format string, args ...interface{}) {}
func (t *cNullT) Logf(format string, args ...any)           {}

// thPlatform is the basic platform plus "system transactions": at the heights in
// `set` the execution of the block writes timestamp_threshold (ms) into the
// system storage, which is what the governance call setTimestampThreshold does.
type thPlatform struct {
	base.Platform
	set map[int64]int64
}

func (p *thPlatform) OnExecutionBegin(wc state.WorldContext, logger log.Logger) error {
	if ms, ok := p.set[wc.BlockHeight()]; ok {
		as := wc.GetAccountState(state.SystemID)
		v := scoredb.NewVarDB(as, state.VarTimestampThreshold)
		if ms == 0 {
			if _, err := v.Delete(); err != nil {
				return err
			}
		} else if err := v.Set(ms); err != nil {
			return err
		}
	}
	return p.Platform.OnExecutionBegin(wc, logger)
}

func cGenesis(thms int64) []byte {
	accts := []interface{}{
		map[string]interface{}{"name": "god", "address": cGod.String(), "balance": "0x0"},
		map[string]interface{}{"name": "treasury", "address": cAddrs[2].String(), "balance": "0x0"},
	}
	for i := 0; i < 2; i++ {
		accts = append(accts, map[string]interface{}{"name": fmt.Sprintf("a%d", i),
			"address": cAddrs[i].String(), "balance": "0x38d7ea4c68000"})
	}
	chain := map[string]interface{}{
		"revision": fmt.Sprintf("0x%x", basic.DefaultRevision),
		"fee": map[string]interface{}{
			"stepPrice": "0x1",
			"stepLimit": map[string]interface{}{"invoke": "0x7fffffff", "query": "0x7fffffff"},
			"stepCosts": map[string]interface{}{"default": "0x1", "input": "0x0"},
		},
	}
	if thms != 0 {
		chain["timestampThreshold"] = fmt.Sprintf("0x%x", thms)
	}
	b, _ := json.Marshal(map[string]interface{}{
		"accounts": accts, "message": "verif C11 fixture", "nid": "0x1", "chain": chain})
	return b
}

type tenv struct {
	dir   string
	chain *cChain
	plt   *thPlatform
	sm    module.ServiceManager
	lm    module.LocatorManager
	bk    db.Bucket
	csi   module.ConsensusInfo
}

func newTEnv(thms int64) (*tenv, module.Transition, module.Transaction, error) {
	e := &tenv{}
	dir, err := os.MkdirTemp("", "verif-c11-")
	if err != nil {
		return nil, nil, nil, err
	}
	e.dir = dir
	logger := log.New()
	logger.SetLevel(log.FatalLevel)
	gs := cGenesis(thms)
	dbase := db.NewMapDB()
	tc, err := test.NewChain(&cNullT{}, cWallets[0], dbase, logger, nil, string(gs))
	if err != nil {
		return nil, nil, nil, err
	}
	tc.Logger().SetLevel(log.FatalLevel)
	e.chain = &cChain{Chain: tc, reg: &cRegulator{Regulator: tc.Regulator()}}
	e.plt = &thPlatform{Platform: basic.Platform, set: map[int64]int64{}}
	sm, err := service.NewManager(e.chain, nil, nil, e.plt, filepath.Join(dir, "contract"))
	if err != nil {
		return nil, nil, nil, err
	}
	e.sm = sm
	e.lm = service.VerifC11LocatorManager(sm)
	if e.bk, err = dbase.GetBucket(db.TransactionLocatorByHash); err != nil {
		return nil, nil, nil, err
	}
	e.csi = common.NewConsensusInfo(nil, nil, nil)
	itr, err := sm.CreateInitialTransition(nil, nil)
	if err != nil {
		return nil, nil, nil, err
	}
	gtx, err := sm.GenesisTransactionFromBytes(gs, module.BlockVersion2)
	if err != nil {
		return nil, nil, nil, err
	}
	return e, itr, gtx, nil
}

func (e *tenv) close() {
	defer func() { recover() }()
	txlocator.VerifWaitFlush(e.lm)
	e.sm.Term()
	e.chain.Chain.Close()
	os.RemoveAll(e.dir)
}

type cExecCB struct {
	chVal chan error
	chExe chan error
}

func (c *cExecCB) OnValidate(tr module.Transition, err error) { c.chVal <- err }
func (c *cExecCB) OnExecute(tr module.Transition, err error)  { c.chExe <- err }

// cRun starts tr and waits for the validation result; with execute it then
// waits for the execution result, otherwise it cancels the transition.
func cRun(tr module.Transition, execute bool) (valErr error, exeErr error, fatal error) {
	cb := &cExecCB{chVal: make(chan error, 1), chExe: make(chan error, 1)}
	cancel, err := tr.Execute(cb)
	if err != nil {
		return nil, nil, fmt.Errorf("Execute: %v", err)
	}
	select {
	case valErr = <-cb.chVal:
	case <-time.After(60 * time.Second):
		return nil, nil, fmt.Errorf("no validation result in 60s")
	}
	if valErr != nil {
		return valErr, nil, nil
	}
	if !execute {
		cancel()
		return nil, nil, nil
	}
	select {
	case exeErr = <-cb.chExe:
	case <-time.After(60 * time.Second):
		return nil, nil, fmt.Errorf("no execution result in 60s")
	}
	return nil, exeErr, nil
}

func cRealTx(tx *CTx) (transaction.Transaction, error) {
	m := map[string]interface{}{
		"version":   "0x3",
		"from":      cAddrs[0].String(),
		"to":        cAddrs[1].String(),
		"stepLimit": "0x100000",
		"timestamp": fmt.Sprintf("0x%x", tx.TS),
		"nid":       "0x1",
		"nonce":     fmt.Sprintf("0x%x", tx.N+1),
		"value":     "0x0",
	}
	if tx.TS < 0 {
		return nil, fmt.Errorf("negative timestamp")
	}
	if tx.Patch {
		m["dataType"] = contract.DataTypePatch
		m["data"] = json.RawMessage(fmt.Sprintf(`{"type":"%s","data":"%s"}`, module.PatchTypeSkipTransaction,
			base64.StdEncoding.EncodeToString([]byte(fmt.Sprintf("verif-c11-%d", tx.N)))))
	}
	js, err := json.Marshal(m)
	if err != nil {
		return nil, err
	}
	bs, err := transaction.SerializeJSON(js, nil, nil)
	if err != nil {
		return nil, err
	}
	bs = append([]byte("icx_sendTransaction."), bs...)
	sig, err := cWallets[0].Sign(crypto.SHA3Sum256(bs))
	if err != nil {
		return nil, err
	}
	m["signature"] = sig
	if js, err = json.Marshal(m); err != nil {
		return nil, err
	}
	t, err := transaction.NewTransactionFromJSON(js)
	if err != nil {
		return nil, err
	}
	if err := t.Verify(); err != nil {
		return nil, fmt.Errorf("generated transaction does not verify: %v", err)
	}
	return t, nil
}

// ---------------------------------------------------------------- running a chain

type trInfo struct {
	tr   module.Transition
	par  int   // model number of the parent transition (-1: none)
	ptxs []int // patch transactions of its own patch list
	pts  int64 // timestamp of the patch id list
	ntxs []int // normal transactions
	bts  int64
	thN  int64 // normal threshold (us) of the state it was validated on
}

type crun struct {
	plan *ChainPlan
	e    *tenv
	txs  map[int]*CTx
	real map[int]transaction.Transaction
	num  map[string]int
	trs  []*trInfo
	cur  int   // chain head (model number)
	ms   int64 // timestamp_threshold the harness expects in the head's result state
	pend [][2]int
	h    int64

	evs       []string
	known     string
	violation string
	fatal     string
	attempts  int
}

func (c *crun) violate(format string, a ...interface{}) {
	if c.violation == "" {
		c.violation = fmt.Sprintf(format, a...)
	}
}

func verdictClass(err error) int {
	switch {
	case err == nil:
		return 0
	case errors.IllegalArgumentError.Equals(err):
		return 1
	case service.ExpiredTransactionError.Equals(err):
		return 2
	case service.FutureTransactionError.Equals(err):
		return 3
	}
	return 9
}

func (c *crun) coqTxs(nums []int) string {
	items := make([]string, len(nums))
	for i, n := range nums {
		ts := int64(0)
		if n != 0 {
			ts = c.txs[n].TS
		}
		items[i] = fmt.Sprintf("(%d, %s)", n, hxlib.CoqZ(ts))
	}
	return hxlib.CoqList(items)
}

func (c *crun) list(nums []int) (module.TransactionList, error) {
	var l []module.Transaction
	for _, n := range nums {
		r, ok := c.real[n]
		if !ok {
			return nil, fmt.Errorf("unknown transaction %d", n)
		}
		l = append(l, r)
	}
	return c.e.sm.TransactionListFromSlice(l, module.BlockVersion2), nil
}

func trackerOpen(lt module.LocatorTracker) bool {
	return lt != nil && txlocator.VerifTrackerOpen(lt)
}

// the direct oracle for a list accepted by validation
func (c *crun) oracleAccepted(what string, normal bool, nums []int, bts, th int64, par int) {
	seen := map[int]bool{}
	for _, n := range nums {
		tx := c.txs[n]
		if !inWindow(bts, th, tx.TS) {
			g := "normal"
			if !normal {
				g = "patch"
			}
			c.violate("window: %s accepted %s transaction %d with timestamp %d outside (bts-th, bts+th] = (%d, %d] (block time %d, threshold of the %s group in the block's state %d us)",
				what, g, n, tx.TS, bts-th, bts+th, bts, g, th)
		}
		if seen[n] {
			c.violate("replay accepted: %s accepted transaction %d twice in one list", what, n)
		}
		seen[n] = true
		var occ []int
		for a := par; a >= 0; a = c.trs[a].par {
			l := c.trs[a].ntxs
			if !normal {
				l = c.trs[a].ptxs
			}
			for _, m := range l {
				if m == n {
					occ = append(occ, a)
				}
			}
		}
		if len(occ) == 0 {
			continue
		}
		allBound := true
		for _, a := range occ {
			ai := c.trs[a]
			pt, nt := service.VerifC11Trackers(ai.tr)
			abts, ath, lt := ai.bts, ai.thN, nt
			if !normal {
				abts, ath, lt = ai.pts, patchThUS, pt
			}
			if !(trackerOpen(lt) && tx.TS == abts+ath) {
				allBound = false
			}
		}
		a := c.trs[occ[0]]
		if allBound {
			if c.known == "" {
				c.known = fmt.Sprintf("replay accepted at ts==bts+th: transaction %d (ts %d) of the unfinalized block #%d (bts %d) was accepted again by %s (bts %d, th %d)",
					n, tx.TS, occ[0], a.bts, what, bts, th)
			}
		} else {
			c.violate("replay accepted: transaction %d (timestamp %d), already in block #%d of the chain (block time %d), was accepted again by %s (block time %d, threshold %d us)",
				n, tx.TS, occ[0], a.bts, what, bts, th)
		}
	}
}

func (c *crun) offered(normal bool, nums []int, par int) {
	for _, n := range nums {
		for a := par; a >= 0; a = c.trs[a].par {
			l := c.trs[a].ntxs
			if !normal {
				l = c.trs[a].ptxs
			}
			for _, m := range l {
				if m == n {
					c.attempts++
					return
				}
			}
		}
	}
}

// normalTr: CreateTransition(parent, txs, bi, csi, false) + validation (+ execution)
func (c *crun) normalTr(par int, bts int64, nums []int, execute bool, setms int64) (int, bool) {
	p := c.trs[par]
	l, err := c.list(nums)
	if err != nil {
		c.fatal = err.Error()
		return -1, false
	}
	bi := common.NewBlockInfo(c.h, bts)
	if execute && setms >= 0 {
		c.e.plt.set[c.h] = setms
	} else {
		delete(c.e.plt.set, c.h)
	}
	tr, err := c.e.sm.CreateTransition(p.tr, l, bi, c.e.csi, false)
	if err != nil {
		c.fatal = err.Error()
		return -1, false
	}
	c.offered(true, nums, par)
	ms, _ := service.VerifC11StateThresholdMS(p.tr)
	th := thOfState(ms)
	v, x, f := cRun(tr, execute)
	if f != nil {
		c.fatal = f.Error()
		return -1, false
	}
	cls := verdictClass(v)
	newms := "None"
	if execute && setms >= 0 {
		newms = "(Some " + hxlib.CoqZ(setms) + ")"
	}
	c.evs = append(c.evs, fmt.Sprintf("BEv (BNormal %s %s %s false %s) %d", hxlib.CoqNat(par), hxlib.CoqZ(bts), c.coqTxs(nums), newms, cls))
	c.trs = append(c.trs, &trInfo{tr: tr, par: par, pts: bts, ntxs: nums, bts: bts, thN: th})
	me := len(c.trs) - 1
	if cls == 9 {
		c.violate("validation of a block with only well-formed transactions failed with an unexpected error: %v", v)
	}
	if cls != 0 {
		return me, false
	}
	what := fmt.Sprintf("the validation of block #%d", me)
	c.oracleAccepted(what, true, nums, bts, th, par)
	if execute && x != nil {
		c.fatal = fmt.Sprintf("execution failed: %v", x)
		return me, false
	}
	return me, true
}

// patchTr: PatchTransition(tr, patches, bi) + validation (+ execution)
func (c *crun) patchTr(on int, bts int64, nums []int, execute bool) (int, bool) {
	t := c.trs[on]
	l, err := c.list(nums)
	if err != nil {
		c.fatal = err.Error()
		return -1, false
	}
	bi := common.NewBlockInfo(c.h, bts)
	pt := c.e.sm.PatchTransition(t.tr, l, bi)
	c.offered(false, nums, t.par)
	v, x, f := cRun(pt, execute)
	if f != nil {
		c.fatal = f.Error()
		return -1, false
	}
	cls := verdictClass(v)
	c.evs = append(c.evs, fmt.Sprintf("BEv (BPatch %s %s %s) %d", hxlib.CoqNat(on), hxlib.CoqZ(bts), c.coqTxs(nums), cls))
	pts := bts
	if len(nums) == 0 {
		pts = t.bts
	}
	c.trs = append(c.trs, &trInfo{tr: pt, par: t.par, ptxs: nums, pts: pts, ntxs: t.ntxs, bts: t.bts, thN: t.thN})
	me := len(c.trs) - 1
	if cls == 9 {
		c.violate("validation of a patch list with only well-formed transactions failed with an unexpected error: %v", v)
	}
	if cls != 0 {
		return me, false
	}
	c.oracleAccepted(fmt.Sprintf("the validation of patch list #%d", me), false, nums, bts, patchThUS, t.par)
	if execute && x != nil {
		c.fatal = fmt.Sprintf("execution of the patched transition failed: %v", x)
		return me, false
	}
	return me, true
}

func (c *crun) finalize(tr int, normal, patch, result bool) {
	opt := 0
	if normal {
		opt |= module.FinalizeNormalTransaction
	}
	if patch {
		opt |= module.FinalizePatchTransaction
	}
	if result {
		opt |= module.FinalizeResult
	}
	if err := c.e.sm.Finalize(c.trs[tr].tr, opt); err != nil {
		c.fatal = fmt.Sprintf("Finalize: %v", err)
		return
	}
	c.evs = append(c.evs, fmt.Sprintf("BEv (BFinal %s %s %s) 0", hxlib.CoqNat(tr), hxlib.CoqBool(normal), hxlib.CoqBool(patch)))
}

func (c *crun) numOf(id string) int {
	if n, ok := c.num[id]; ok {
		return n
	}
	return 999999
}

func (c *crun) snapshot() {
	txlocator.VerifWaitFlush(c.e.lm)
	st := txlocator.VerifManagerState(c.e.lm)
	var locs []int
	for _, k := range st.Locators {
		locs = append(locs, c.numOf(k))
	}
	sort.Ints(locs)
	cache := func(g int) string {
		var items []string
		for _, l := range st.Cache[g] {
			var ids []int
			for _, k := range l.IDs {
				ids = append(ids, c.numOf(k))
			}
			sort.Ints(ids)
			items = append(items, fmt.Sprintf("(%s, %s, %s)", hxlib.CoqZ(l.Ts), hxlib.CoqZ(l.Th), coqInts(ids)))
		}
		return hxlib.CoqList(items)
	}
	var dbIDs []int
	for id, n := range c.num {
		if bs, err := c.e.bk.Get([]byte(id)); err == nil && len(bs) > 0 {
			dbIDs = append(dbIDs, n)
		}
	}
	sort.Ints(dbIDs)
	c.evs = append(c.evs, fmt.Sprintf("BSnap %s %s %s %s %s %s", coqInts(locs),
		cache(0), hxlib.CoqZ(st.MaxTS[0]), cache(1), hxlib.CoqZ(st.MaxTS[1]), coqInts(dbIDs)))
}

func (c *crun) flushPending() {
	for _, pv := range c.pend {
		// block.Manager.finalize(bn): Finalize(bn.in, Patch|Result); Finalize(bn.preexe, Normal)
		c.finalize(pv[0], false, true, true)
		c.finalize(pv[1], true, false, false)
		c.snapshot()
	}
	c.pend = nil
}

func startChain(plan *ChainPlan) (*crun, error) {
	e, itr, gtx, err := newTEnv(plan.ThMS)
	if err != nil {
		return nil, err
	}
	c := &crun{plan: plan, e: e, txs: map[int]*CTx{}, real: map[int]transaction.Transaction{}, num: map[string]int{}}
	c.num[string(gtx.ID())] = 0
	c.txs[0] = &CTx{N: 0}
	for i := range plan.Txs {
		tx := &plan.Txs[i]
		if tx.N <= 0 || c.txs[tx.N] != nil {
			e.close()
			return nil, fmt.Errorf("bad transaction number %d", tx.N)
		}
		r, err := cRealTx(tx)
		if err != nil {
			e.close()
			return nil, err
		}
		c.txs[tx.N], c.real[tx.N] = tx, r
		c.num[string(r.ID())] = tx.N
	}
	// newInitTransition, then the genesis block (already validated, forced Add)
	c.evs = append(c.evs, fmt.Sprintf("BEv (BInit %s) 0", hxlib.CoqZ(defaultThUS)))
	c.trs = append(c.trs, &trInfo{tr: itr, par: -1})
	gl := e.sm.TransactionListFromSlice([]module.Transaction{gtx}, module.BlockVersion2)
	g, err := e.sm.CreateTransition(itr, gl, common.NewBlockInfo(0, 0), e.csi, true)
	if err != nil {
		e.close()
		return nil, err
	}
	v, x, f := cRun(g, true)
	if v != nil || x != nil || f != nil {
		e.close()
		return nil, fmt.Errorf("genesis block: validate=%v execute=%v fatal=%v", v, x, f)
	}
	c.evs = append(c.evs, fmt.Sprintf("BEv (BNormal 0%%nat (0)%%Z [(0, (0)%%Z)] true (Some %s)) 0", hxlib.CoqZ(plan.ThMS)))
	c.trs = append(c.trs, &trInfo{tr: g, par: 0, ntxs: []int{0}, thN: defaultThUS})
	c.cur, c.ms = 1, plan.ThMS
	c.finalize(1, true, false, false)
	c.snapshot()
	return c, nil
}

func (c *crun) runBlock(bp *CBlock) {
	c.h++
	// one-transaction probes first: they leave nothing behind but unused trackers.
	// The genesis block itself is not patched (a patched genesis would be executed
	// on the empty initial state, where no step price is configured).
	if c.trs[c.cur].par == 0 {
		bp = &CBlock{BTS: bp.BTS, NProbes: bp.NProbes, Txs: bp.Txs, SetMS: bp.SetMS, Defer: bp.Defer}
	}
	for _, n := range bp.PProbes {
		if c.patchTr(c.cur, bp.BTS, []int{n}, false); c.fatal != "" {
			return
		}
	}
	if len(bp.Patches) > 0 {
		q, ok := c.patchTr(c.cur, bp.BTS, bp.Patches, true)
		if c.fatal != "" {
			return
		}
		if ok {
			c.cur = q // proposeTask: the patched transition replaces the parent
		}
	}
	for _, n := range bp.NProbes {
		if c.normalTr(c.cur, bp.BTS, []int{n}, false, -1); c.fatal != "" {
			return
		}
	}
	v, ok := c.normalTr(c.cur, bp.BTS, bp.Txs, true, bp.SetMS)
	if c.fatal != "" {
		return
	}
	if ok {
		if bp.SetMS >= 0 {
			c.ms = bp.SetMS
		}
		if ms, have := service.VerifC11StateThresholdMS(c.trs[v].tr); !have || ms != c.ms {
			c.fatal = fmt.Sprintf("fixture: block #%d results in timestamp_threshold %d, expected %d", v, ms, c.ms)
			return
		}
		old := c.pend
		c.pend = nil
		c.pend = append(c.pend, [2]int{c.cur, v})
		c.cur = v
		if len(old) > 0 { // the deferred block is finalized now that its successor has been validated
			cur := c.pend
			c.pend = old
			c.flushPending()
			c.pend = cur
		}
		if !bp.Defer {
			c.flushPending()
		}
	} else {
		c.h-- // rejected: the next plan entry is another proposal for the same height
		c.flushPending()
	}
}

func runChain(plan *ChainPlan) (*crun, error) {
	c, err := startChain(plan)
	if err != nil {
		return nil, err
	}
	defer c.e.close()
	for i := range plan.Blocks {
		c.runBlock(&plan.Blocks[i])
		if c.fatal != "" {
			break
		}
	}
	if c.fatal == "" {
		c.flushPending()
	}
	return c, nil
}

func (c *crun) oracle() string {
	if c.violation != "" {
		return c.violation
	}
	return c.known
}

// ---------------------------------------------------------------- generators

type cgen struct {
	rnd   *rand.Rand
	plan  *ChainPlan
	next  int
	chain []int        // normal transactions on the chain so far (planned to be accepted)
	pch   []int        // patch transactions on the chain so far
	bound map[int]bool // planned at ts == bts+th of their block: not offered again (the known finding has its own cases)
}

func (g *cgen) tx(ts int64, patch bool) int {
	g.next++
	if ts < 1 {
		ts = 1
	}
	g.plan.Txs = append(g.plan.Txs, CTx{N: g.next, TS: ts, Patch: patch})
	return g.next
}

func (g *cgen) tsOf(n int) int64 {
	for _, t := range g.plan.Txs {
		if t.N == n {
			return t.TS
		}
	}
	return 0
}

func pickSome(rnd *rand.Rand, l []int, k int) []int {
	var res []int
	for _, i := range rnd.Perm(len(l)) {
		if len(res) >= k {
			break
		}
		res = append(res, l[i])
	}
	return res
}

// Regime A: small normal thresholds that governance changes in some block.
func genChainA(rnd *rand.Rand) *ChainPlan {
	msPool := []int64{1, 2, 3, 5, 10, 20}
	plan := &ChainPlan{ThMS: msPool[rnd.Intn(3)]}
	g := &cgen{rnd: rnd, plan: plan, bound: map[int]bool{}}
	bts := int64(10_000_000)
	ms := plan.ThMS
	prevMS := ms
	nb := 3 + rnd.Intn(4)
	changes := 0
	for b := 0; b < nb; b++ {
		bts += []int64{200, 500, 1000, 1500, 3000, 6000, 12000, 45000}[rnd.Intn(8)]
		th := ms * 1000
		bp := CBlock{BTS: bts, SetMS: -1, Defer: rnd.Intn(3) == 0}
		// fresh transactions on the bounds of the block's own threshold and of the other thresholds around
		others := []int64{prevMS * 1000, msPool[rnd.Intn(len(msPool))] * 1000, defaultThUS}
		cands := []int64{bts - th, bts - th + 1, bts, bts + th - 1, bts + th, bts + th + 1, bts - th + 1 + rnd.Int63n(2*th)}
		for _, o := range others {
			cands = append(cands, bts+o, bts+o+1, bts-o, bts-o+1, bts+o-1)
		}
		for k := 1 + rnd.Intn(4); k > 0; k-- {
			ts := cands[rnd.Intn(len(cands))]
			n := g.tx(ts, false)
			if inWindow(bts, th, g.tsOf(n)) {
				bp.Txs = append(bp.Txs, n)
				if g.tsOf(n) == bts+th {
					g.bound[n] = true
				}
			} else {
				bp.NProbes = append(bp.NProbes, n)
			}
		}
		// everything already on the chain is offered again, one by one
		for _, n := range pickSome(rnd, g.chain, 6) {
			if !g.bound[n] {
				bp.NProbes = append(bp.NProbes, n)
			}
		}
		if len(g.chain) > 0 && rnd.Intn(8) == 0 {
			if n := g.chain[rnd.Intn(len(g.chain))]; !g.bound[n] {
				bp.Txs = append(bp.Txs, n) // a block that carries a replay: to be rejected
				plan.Blocks = append(plan.Blocks, bp)
				bp = CBlock{BTS: bts, SetMS: -1, Txs: append([]int(nil), bp.Txs[:len(bp.Txs)-1]...)}
			}
		}
		if changes < 2 && rnd.Intn(2) == 0 {
			nm := msPool[rnd.Intn(len(msPool))]
			if nm != ms {
				bp.SetMS = nm
				changes++
			}
		}
		g.chain = append(g.chain, bp.Txs...)
		plan.Blocks = append(plan.Blocks, bp)
		if bp.SetMS >= 0 {
			prevMS, ms = ms, bp.SetMS
		}
	}
	// a last block far enough to evict, offering everything again
	bts += 2*ms*1000 + []int64{0, 1, 1000}[rnd.Intn(3)]
	last := CBlock{BTS: bts, SetMS: -1}
	for _, n := range pickSome(rnd, g.chain, 8) {
		if !g.bound[n] {
			last.NProbes = append(last.NProbes, n)
		}
	}
	plan.Blocks = append(plan.Blocks, last)
	return plan
}

// Regime B: patch lists; block times seconds to minutes apart; bounds of both groups.
func genChainB(rnd *rand.Rand) *ChainPlan {
	plan := &ChainPlan{ThMS: []int64{0, 0, 120_000, 30_000, 200_000}[rnd.Intn(5)]}
	g := &cgen{rnd: rnd, plan: plan, bound: map[int]bool{}}
	bts := int64(1_000_000_000_000)
	thN := thOfState(plan.ThMS)
	nb := 3 + rnd.Intn(4)
	sec := int64(1_000_000)
	for b := 0; b < nb; b++ {
		bts += []int64{1, 20, 59, 61, 130, 150, 290, 400}[rnd.Intn(8)] * sec
		bp := CBlock{BTS: bts, SetMS: -1, Defer: rnd.Intn(4) == 0}
		mk := func(patch bool) (in []int, out []int) {
			th := thN
			if patch {
				th = patchThUS
			}
			cands := []int64{bts - th, bts - th + 1, bts, bts + th - 1, bts + th, bts + th + 1,
				bts + patchThUS, bts + patchThUS + 1, bts - patchThUS, bts - patchThUS + 1,
				bts + thN, bts + thN + 1, bts - thN, bts - thN + 1, bts + 180*sec, bts - 180*sec, bts + 90*sec}
			for k := 1 + rnd.Intn(3); k > 0; k-- {
				n := g.tx(cands[rnd.Intn(len(cands))], patch)
				if inWindow(bts, th, g.tsOf(n)) {
					in = append(in, n)
					if g.tsOf(n) == bts+th {
						g.bound[n] = true
					}
				} else {
					out = append(out, n)
				}
			}
			return
		}
		pin, pout := mk(true)
		bp.PProbes = pout
		for _, n := range pickSome(rnd, g.pch, 5) {
			if !g.bound[n] {
				bp.PProbes = append(bp.PProbes, n)
			}
		}
		if rnd.Intn(3) > 0 {
			bp.Patches = pin
			g.pch = append(g.pch, pin...)
		} else {
			bp.PProbes = append(bp.PProbes, pin...)
		}
		nin, nout := mk(false)
		bp.NProbes = nout
		for _, n := range pickSome(rnd, g.chain, 4) {
			if !g.bound[n] {
				bp.NProbes = append(bp.NProbes, n)
			}
		}
		bp.Txs = nin
		g.chain = append(g.chain, nin...)
		plan.Blocks = append(plan.Blocks, bp)
	}
	return plan
}

// the open bound at the transition level: X at ts == bts+th in a block that is
// not finalized yet is accepted again by the next block (known finding)
func chainBoundScenario() *ChainPlan {
	return &ChainPlan{ThMS: 2, Txs: []CTx{{N: 1, TS: 10_003_000}, {N: 2, TS: 10_001_500}},
		Blocks: []CBlock{
			{BTS: 10_001_000, Txs: []int{1, 2}, SetMS: -1, Defer: true},
			{BTS: 10_001_500, NProbes: []int{2, 1}, SetMS: -1},
		}}
}

// fixed chains kept from the two seeded changes of service/transition.go
func chainScenarios() map[string]*ChainPlan {
	sec := int64(1_000_000)
	t0 := int64(1_000_000_000_000)
	return map[string]*ChainPlan{
		// a patch 3 min ahead of the patching block must be rejected (and once accepted,
		// finalized and evicted, it would be accepted again)
		"patch-window": {ThMS: 0, Txs: []CTx{{N: 1, TS: t0 + 190*sec, Patch: true}, {N: 2, TS: t0 + 30*sec, Patch: true}},
			Blocks: []CBlock{
				{BTS: t0 + 10*sec, PProbes: []int{1}, Patches: []int{2}, SetMS: -1},
				{BTS: t0 + 11*sec, Patches: []int{1}, SetMS: -1},
				{BTS: t0 + 160*sec, PProbes: []int{2}, SetMS: -1},
				{BTS: t0 + 170*sec, PProbes: []int{1, 2}, Patches: []int{1}, SetMS: -1},
			}},
		// governance raises the threshold 1 ms -> 10 ms in block 2; block 3 is validated on that state
		// before block 2 is finalized and takes X 8 ms ahead; later blocks evict and offer X again
		"threshold-raise": {ThMS: 1, Txs: []CTx{{N: 1, TS: 10_000_900}, {N: 2, TS: 10_010_000}, {N: 3, TS: 10_002_500}},
			Blocks: []CBlock{
				{BTS: 10_000_000, SetMS: -1},
				{BTS: 10_000_500, Txs: []int{1}, SetMS: 10, Defer: true},
				{BTS: 10_002_000, NProbes: []int{1}, Txs: []int{2, 3}, SetMS: -1},
				{BTS: 10_014_000, NProbes: []int{2, 3}, SetMS: -1},
				{BTS: 10_019_000, NProbes: []int{2}, Txs: []int{2}, SetMS: -1},
			}},
	}
}

func emitChain(c *hxlib.Ctx, kind string, plan *ChainPlan) hxlib.Case {
	in := map[string]interface{}{"t": "chain", "v": plan}
	var cr *crun
	var err error
	p := hxlib.Catch(func() { cr, err = runChain(plan) })
	b, _ := json.Marshal(plan)
	cs := hxlib.Case{Kind: kind, Input: in, Key: string(b)}
	switch {
	case p != "":
		cs.OracleErr = "the service panicked: " + p
		cs.Nontrivial = true
	case err != nil:
		c.Note("chain fixture could not start: %v", err)
		cs.Kind = kind + "-skipped"
	default:
		cs.Nontrivial = cr.attempts > 0
		cs.OracleErr = cr.oracle()
		if cr.fatal != "" {
			c.Note("chain stopped: %s", cr.fatal)
		}
		if !c.OracleOnly {
			var parts []string
			for _, e := range cr.evs {
				parts = append(parts, "("+e+")")
			}
			cs.Coq = "(CChain " + hxlib.CoqList(parts) + ")"
		}
	}
	return cs
}

func replayChain(raw json.RawMessage) string {
	var plan ChainPlan
	if err := json.Unmarshal(raw, &plan); err != nil {
		return "bad chain plan: " + err.Error()
	}
	var cr *crun
	var err error
	if p := hxlib.Catch(func() { cr, err = runChain(&plan) }); p != "" {
		return "the service panicked: " + p
	}
	if err != nil {
		return ""
	}
	return cr.oracle()
}
