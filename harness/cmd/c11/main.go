// c11: replay protection — common/txlocator manager/tracker (directly and behind
// service.TXIDManager) and the timestamp window of service/tschecker.go,
// against Model_Locator.
package main

import (
	"encoding/json"
	"fmt"
	"math/rand"
	"os"
	"path/filepath"
	"sort"
	"strings"
	"time"

	"github.com/icon-project/goloop/common/db"
	"github.com/icon-project/goloop/common/errors"
	"github.com/icon-project/goloop/common/log"
	"github.com/icon-project/goloop/common/txlocator"
	"github.com/icon-project/goloop/module"
	"github.com/icon-project/goloop/service"
	"github.com/icon-project/goloop/service/transaction"
	"verif/harness/hxlib"
)

// ---------------------------------------------------------------- inputs

type Tx struct {
	ID int   `json:"id"`
	Ts int64 `json:"ts"`
}

// Op kinds: root (G,Ts,Th) | new (T=parent,Ts,Th) | add (T,Txs,Force) | commit (T)
// | has (T,ID,Ts) | mhas (G,ID,Ts) | snap | restart (a new manager over the same database)
type Op struct {
	K     string `json:"k"`
	G     int    `json:"g,omitempty"`
	T     int    `json:"t,omitempty"`
	Ts    int64  `json:"ts,omitempty"`
	Th    int64  `json:"th,omitempty"`
	Txs   []Tx   `json:"txs,omitempty"`
	Force bool   `json:"force,omitempty"`
	ID    int    `json:"id,omitempty"`
}

type Hist struct {
	Svc    bool `json:"svc,omitempty"`    // drive service.TXIDManager / TXIDLogger instead of the tracker API
	NoWait bool `json:"nowait,omitempty"` // do not wait for the flush worker after Commit (oracle only)
	Ops    []Op `json:"ops"`
}

type WinIn struct {
	Bts int64 `json:"bts"`
	Th  int64 `json:"th"`
	Ts  int64 `json:"ts"`
}

// ---------------------------------------------------------------- dummy transactions

type dummyTx struct {
	id []byte
	ts int64
	g  module.TransactionGroup
	transaction.Transaction
}

func (t *dummyTx) Group() module.TransactionGroup { return t.g }
func (t *dummyTx) ID() []byte                     { return t.id }
func (t *dummyTx) Hash() []byte                   { return t.id }
func (t *dummyTx) Timestamp() int64               { return t.ts }

type dummyList struct {
	txs []*dummyTx
	module.TransactionList
}

func (l *dummyList) Get(i int) (module.Transaction, error) { return l.txs[i], nil }
func (l *dummyList) Iterator() module.TransactionIterator  { return &dummyIter{l: l} }

type dummyIter struct {
	l   *dummyList
	idx int
}

func (i *dummyIter) Has() bool   { return i.idx < len(i.l.txs) }
func (i *dummyIter) Next() error { i.idx++; return nil }
func (i *dummyIter) Get() (module.Transaction, int, error) {
	return i.l.txs[i.idx], i.idx, nil
}

func idBytes(n int) []byte {
	b := make([]byte, 32)
	copy(b, fmt.Sprintf("c11-tx-%06d", n))
	b[31] = byte(n)
	return b
}

// ---------------------------------------------------------------- the two ways to reach a tracker

type trk interface {
	New(height, ts, th int64) trk
	Add(l module.TransactionList, force bool) (int, error)
	Has(id []byte, ts int64) (bool, error)
	Commit() error
	Raw() module.LocatorTracker
}

type dirTrk struct{ t module.LocatorTracker }

func (d dirTrk) New(h, ts, th int64) trk                           { return dirTrk{d.t.New(h, ts, th)} }
func (d dirTrk) Add(l module.TransactionList, f bool) (int, error) { return d.t.Add(l, f) }
func (d dirTrk) Has(id []byte, ts int64) (bool, error)             { return d.t.Has(id, ts) }
func (d dirTrk) Commit() error                                     { return d.t.Commit() }
func (d dirTrk) Raw() module.LocatorTracker                        { return d.t }

type svcTrk struct{ l service.TXIDLogger }

func (s svcTrk) New(h, ts, th int64) trk                           { return svcTrk{s.l.NewLogger(h, ts, th)} }
func (s svcTrk) Add(l module.TransactionList, f bool) (int, error) { return s.l.Add(l, f) }
func (s svcTrk) Has(id []byte, ts int64) (bool, error)             { return s.l.Has(id, ts) }
func (s svcTrk) Commit() error                                     { return s.l.Commit() }
func (s svcTrk) Raw() module.LocatorTracker                        { return service.VerifLoggerTracker(s.l) }

// ---------------------------------------------------------------- running a history on the implementation

type tinfo struct {
	t        trk
	gparent  int
	group    int
	ts, th   int64
	recorded []Tx // what the tracker recorded (first cnt transactions of the effective Add)
	hasChild bool
	added    bool
	dead     bool // object of a process that was restarted since
	restarts int  // number of restarts at the time the tracker was committed (-1: not committed)
}

type runner struct {
	h       Hist
	lm      module.LocatorManager
	tim     service.TXIDManager
	tsc     *service.TxTimestampChecker
	bk      db.Bucket
	dbase   db.Database
	nrest   int
	hidden  string // replay explained by a restart that lost the bound of older data
	trs     []*tinfo
	idTs    map[int]int64
	idG     map[int]int
	ids     map[int]bool
	height  int64
	tainted string // first hypothesis of the theorem that the history broke ("" = none)

	evs       []string // Coq `ev` terms
	known     string   // replay explained by the open bound ts==bts+th
	violation string   // any other breach of the property
	attempts  int      // Adds (force=false) that offered an id already recorded on the chain / in the list
	evictions int
	lastLists int
}

func newRunner(h Hist) *runner {
	dbase := db.NewMapDB()
	lg := log.New()
	lg.SetLevel(log.FatalLevel)
	lm, err := txlocator.NewManager(dbase, lg)
	if err != nil {
		panic(err)
	}
	lm.Start()
	bk, err := dbase.GetBucket(db.TransactionLocatorByHash)
	if err != nil {
		panic(err)
	}
	r := &runner{h: h, lm: lm, bk: bk, dbase: dbase, idTs: map[int]int64{}, idG: map[int]int{}, ids: map[int]bool{}}
	current = r
	if h.Svc {
		r.tsc = service.NewTimestampChecker()
		tim, err := service.NewTXIDManager(lm, r.tsc, nil)
		if err != nil {
			panic(err)
		}
		r.tim = tim
	}
	return r
}

func (r *runner) close() {
	txlocator.VerifWaitFlush(r.lm)
	r.lm.Term()
}

func (r *runner) taint(why string) {
	if r.tainted == "" {
		r.tainted = why
	}
}

func coqBoolG(g int) string { return hxlib.CoqBool(g == int(module.TransactionGroupNormal)) }

func coqTxs(txs []Tx) string {
	items := make([]string, len(txs))
	for i, tx := range txs {
		items[i] = fmt.Sprintf("(%d, %s)", tx.ID, hxlib.CoqZ(tx.Ts))
	}
	return hxlib.CoqList(items)
}

func addClass(err error) int {
	switch {
	case err == nil:
		return 0
	case errors.IllegalArgumentError.Equals(err):
		return 1
	case errors.InvalidStateError.Equals(err):
		return 2
	}
	return 9
}

func inWindow(bts, th, ts int64) bool { return bts-th < ts && ts <= bts+th }

// chain walks the trackers t descends from (t excluded).
func (r *runner) ancestors(t int) []int {
	var res []int
	for p := r.trs[t].gparent; p >= 0; p = r.trs[p].gparent {
		res = append(res, p)
	}
	return res
}

func (r *runner) exec(op Op) {
	switch op.K {
	case "root":
		r.height++
		var t trk
		g := module.TransactionGroup(op.G)
		if r.h.Svc {
			r.tsc.SetThreshold(time.Duration(op.Th) * time.Microsecond)
			t = svcTrk{r.tim.NewLogger(g, r.height, op.Ts)}
		} else {
			t = dirTrk{r.lm.NewTracker(g, r.height, op.Ts, op.Th)}
		}
		r.trs = append(r.trs, &tinfo{t: t, gparent: -1, group: op.G, ts: op.Ts, th: op.Th, restarts: -1})
		r.evs = append(r.evs, fmt.Sprintf("EOp (ONewRoot %s %s %s) RNone", coqBoolG(op.G), hxlib.CoqZ(op.Ts), hxlib.CoqZ(op.Th)))
	case "new":
		r.height++
		p := r.trs[op.T]
		p.hasChild = true
		var t trk
		if p.dead {
			// the object is gone: continuing from a block of the old process is
			// manager.NewTracker on the new manager (what tracker.New does on a
			// committed parent-less tracker)
			g := module.TransactionGroup(p.group)
			if r.h.Svc {
				r.tsc.SetThreshold(time.Duration(op.Th) * time.Microsecond)
				t = svcTrk{r.tim.NewLogger(g, r.height, op.Ts)}
			} else {
				t = dirTrk{r.lm.NewTracker(g, r.height, op.Ts, op.Th)}
			}
		} else {
			t = p.t.New(r.height, op.Ts, op.Th)
		}
		r.trs = append(r.trs, &tinfo{t: t, gparent: op.T, group: p.group, ts: op.Ts, th: op.Th, restarts: -1})
		r.evs = append(r.evs, fmt.Sprintf("EOp (ONew %s %s %s) RNone", hxlib.CoqNat(op.T), hxlib.CoqZ(op.Ts), hxlib.CoqZ(op.Th)))
	case "add":
		r.execAdd(op)
	case "restart":
		// a new locator manager (and TXID manager) over the same database
		txlocator.VerifWaitFlush(r.lm)
		r.lm.Term()
		lg := log.New()
		lg.SetLevel(log.FatalLevel)
		lm, err := txlocator.NewManager(r.dbase, lg)
		if err != nil {
			panic(err)
		}
		lm.Start()
		r.lm = lm
		if r.h.Svc {
			r.tsc = service.NewTimestampChecker()
			if r.tim, err = service.NewTXIDManager(lm, r.tsc, nil); err != nil {
				panic(err)
			}
		}
		r.nrest++
		for _, ti := range r.trs {
			if !ti.dead && ti.restarts < 0 {
				ti.recorded = nil // not finalized: the block is lost
			}
			ti.dead = true
		}
		r.evs = append(r.evs, "EOp ORestart RNone")
	case "commit":
		if r.trs[op.T].dead {
			return
		}
		for _, a := range append([]int{op.T}, r.ancestors(op.T)...) {
			if r.trs[a].restarts < 0 && !r.trs[a].dead {
				r.trs[a].restarts = r.nrest
			}
		}
		err := r.trs[op.T].t.Commit()
		if !r.h.NoWait {
			txlocator.VerifWaitFlush(r.lm)
		}
		res := "RNone"
		if err != nil {
			res = "RBadRef" // Commit never fails in the model
			if r.violation == "" {
				r.violation = fmt.Sprintf("Commit of tracker #%d failed: %v", op.T, err)
			}
		}
		r.evs = append(r.evs, fmt.Sprintf("EOp (OCommit %s) %s", hxlib.CoqNat(op.T), res))
	case "has":
		if r.trs[op.T].dead {
			return
		}
		b, err := r.trs[op.T].t.Has(idBytes(op.ID), op.Ts)
		res := "(RBool " + hxlib.CoqBool(b) + ")"
		if err != nil {
			res = "RBadRef"
		}
		r.evs = append(r.evs, fmt.Sprintf("EOp (OHas %s %d %s) %s", hxlib.CoqNat(op.T), op.ID, hxlib.CoqZ(op.Ts), res))
	case "mhas":
		var b bool
		var err error
		if r.h.Svc {
			b, err = r.tim.HasRecent(module.TransactionGroup(op.G), idBytes(op.ID), op.Ts)
		} else {
			b, err = r.lm.Has(module.TransactionGroup(op.G), idBytes(op.ID), op.Ts)
		}
		res := "(RBool " + hxlib.CoqBool(b) + ")"
		if err != nil {
			res = "RBadRef"
		}
		r.evs = append(r.evs, fmt.Sprintf("EOp (OMgrHas %s %d %s) %s", coqBoolG(op.G), op.ID, hxlib.CoqZ(op.Ts), res))
	case "snap":
		if !r.h.NoWait {
			r.evs = append(r.evs, r.snapshot())
		}
	}
}

func (r *runner) execAdd(op Op) {
	ti := r.trs[op.T]
	if ti.dead {
		return
	}
	l := &dummyList{}
	for _, tx := range op.Txs {
		l.txs = append(l.txs, &dummyTx{id: idBytes(tx.ID), ts: tx.Ts, g: module.TransactionGroup(ti.group)})
		r.ids[tx.ID] = true
	}
	open := txlocator.VerifTrackerOpen(ti.t.Raw())
	// hypotheses of the theorem (whole-history): validated Add on a fresh leaf,
	// every transaction inside the block's window, block timestamp not 0, one
	// timestamp and one group per id
	if op.Force {
		r.taint("forced Add")
	}
	if ti.hasChild {
		r.taint("Add after a child was created")
	}
	for _, tx := range op.Txs {
		if !inWindow(ti.ts, ti.th, tx.Ts) {
			r.taint("transaction outside the window")
		}
		if ti.ts == 0 {
			r.taint("block timestamp 0")
		}
		if ts, ok := r.idTs[tx.ID]; ok && ts != tx.Ts {
			r.taint("one id with two timestamps")
		}
		if g, ok := r.idG[tx.ID]; ok && g != ti.group {
			r.taint("one id in two groups")
		}
		r.idTs[tx.ID] = tx.Ts
		r.idG[tx.ID] = ti.group
	}
	// a replay is offered?
	if !op.Force {
		seen := map[int]bool{}
		offered := false
		for _, tx := range op.Txs {
			if seen[tx.ID] {
				offered = true
			}
			seen[tx.ID] = true
			for _, a := range r.ancestors(op.T) {
				for _, x := range r.trs[a].recorded {
					if x.ID == tx.ID {
						offered = true
					}
				}
			}
		}
		if offered {
			r.attempts++
		}
	}
	// which ancestors are still uncommitted, as the implementation sees it, before the Add
	openAnc := map[int]bool{}
	for _, a := range r.ancestors(op.T) {
		openAnc[a] = !r.trs[a].dead && txlocator.VerifTrackerOpen(r.trs[a].t.Raw())
	}
	maxTS := txlocator.VerifManagerState(r.lm).MaxTS[ti.group]

	cnt, err := ti.t.Add(l, op.Force)
	cls := addClass(err)
	r.evs = append(r.evs, fmt.Sprintf("EOp (OAdd %s %s %s) (RAdd %s %d)", hxlib.CoqNat(op.T), coqTxs(op.Txs),
		hxlib.CoqBool(op.Force), hxlib.CoqNat(cnt), cls))
	if cls == 9 && r.violation == "" {
		r.violation = fmt.Sprintf("Add on tracker #%d: unexpected error %v", op.T, err)
	}
	if cls == 2 || !open || ti.added {
		return // AlreadyAdded / AlreadyCommitted: nothing recorded
	}
	if cnt > len(op.Txs) {
		cnt = len(op.Txs)
	}
	ti.recorded = append([]Tx(nil), op.Txs[:cnt]...)
	if cnt > 0 {
		ti.added = true
	}

	// ---- direct oracle ----
	// (a) the same id is never recorded twice in one list (whatever `force` is)
	dup := map[int]bool{}
	for _, x := range ti.recorded {
		if dup[x.ID] && r.violation == "" {
			r.violation = fmt.Sprintf("same-block duplicate: Add(force=%v) on tracker #%d recorded id %d twice", op.Force, op.T, x.ID)
		}
		dup[x.ID] = true
	}
	// (b) along a chain built by validation no id is recorded twice
	if r.tainted != "" || op.Force {
		return
	}
	for _, x := range ti.recorded {
		var occ []int
		for _, a := range r.ancestors(op.T) {
			for _, y := range r.trs[a].recorded {
				if y.ID == x.ID {
					occ = append(occ, a)
				}
			}
		}
		if len(occ) == 0 {
			continue
		}
		// explained by the open bound iff every earlier occurrence sits in a block that is
		// still uncommitted (so only the guard of tracker.Has kept it from being found: a strict
		// `>` would have found it, the timestamp being inside that block's window) and the
		// timestamp equals that block's ts+th
		// ... or by a restart: the occurrence was finalized by a process that has been
		// restarted since, and its timestamp is above the maxTSInDB the new manager has built up
		// (the bound of older data is unknown to it)
		allBound, anyRestart := true, -1
		for _, a := range occ {
			ai := r.trs[a]
			switch {
			case openAnc[a] && x.Ts == ai.ts+ai.th:
			case ai.dead && ai.restarts >= 0 && ai.restarts < r.nrest && maxTS != 0 && x.Ts > maxTS:
				anyRestart = a
			default:
				allBound = false
			}
		}
		a := r.trs[occ[0]]
		if allBound && anyRestart >= 0 {
			b := r.trs[anyRestart]
			if r.hidden == "" {
				r.hidden = fmt.Sprintf("replay accepted, restart hides larger pre-restart bound: id %d (timestamp %d) finalized in block #%d (bts %d, th %d) before a restart of the locator manager was accepted again by Add(force=false) in block #%d (bts %d, th %d); maxTSInDB of the new manager is %d",
					x.ID, x.Ts, anyRestart, b.ts, b.th, op.T, ti.ts, ti.th, maxTS)
			}
		} else if allBound {
			if r.known == "" {
				r.known = fmt.Sprintf("replay accepted at ts==bts+th: id %d (ts %d) recorded in uncommitted block #%d (bts %d, th %d) was accepted again by Add(force=false) in its descendant #%d (bts %d, th %d)",
					x.ID, x.Ts, occ[0], a.ts, a.th, op.T, ti.ts, ti.th)
			}
		} else if r.violation == "" {
			r.violation = fmt.Sprintf("replay accepted: id %d (timestamp %d) recorded in ancestor block #%d (bts %d, th %d, committed=%v) was accepted again by Add(force=false) in block #%d (bts %d, th %d)",
				x.ID, x.Ts, occ[0], a.ts, a.th, !openAnc[occ[0]], op.T, ti.ts, ti.th)
		}
	}
}

func (r *runner) idOf(s string) int {
	for id := range r.ids {
		if string(idBytes(id)) == s {
			return id
		}
	}
	return 999999
}

func (r *runner) snapshot() string {
	st := txlocator.VerifManagerState(r.lm)
	var locs []int
	for _, k := range st.Locators {
		locs = append(locs, r.idOf(k))
	}
	sort.Ints(locs)
	cache := func(g int) string {
		var items []string
		for _, l := range st.Cache[g] {
			var ids []int
			for _, k := range l.IDs {
				ids = append(ids, r.idOf(k))
			}
			sort.Ints(ids)
			items = append(items, fmt.Sprintf("(%s, %s, %s)", hxlib.CoqZ(l.Ts), hxlib.CoqZ(l.Th), coqInts(ids)))
		}
		return hxlib.CoqList(items)
	}
	n := len(st.Cache[0]) + len(st.Cache[1])
	if n < r.lastLists+1 && r.lastLists > 0 {
		r.evictions++
	}
	r.lastLists = n
	var dbIDs []int
	for id := range r.ids {
		if bs, err := r.bk.Get(idBytes(id)); err == nil && len(bs) > 0 {
			dbIDs = append(dbIDs, id)
		}
	}
	sort.Ints(dbIDs)
	return fmt.Sprintf("ESnap %s %s %s %s %s %s", coqInts(locs),
		cache(0), hxlib.CoqZ(st.MaxTS[0]), cache(1), hxlib.CoqZ(st.MaxTS[1]), coqInts(dbIDs))
}

func coqInts(v []int) string {
	items := make([]string, len(v))
	for i, x := range v {
		items[i] = fmt.Sprint(x)
	}
	return hxlib.CoqList(items)
}

// runHist executes a complete history (replay and fixed scenarios).
func runHist(h Hist) *runner {
	r := newRunner(h)
	defer r.close()
	for _, op := range h.Ops {
		if !opOK(r, op) {
			r.violation = "malformed history (tracker reference out of range)"
			return r
		}
		r.exec(op)
	}
	return r
}

func opOK(r *runner, op Op) bool {
	switch op.K {
	case "new", "add", "commit", "has":
		return op.T >= 0 && op.T < len(r.trs)
	case "root", "mhas", "snap", "restart":
		return true
	default:
		return false
	}
}

func (r *runner) oracle() string {
	if r.violation != "" {
		return r.violation
	}
	if r.hidden != "" {
		return r.hidden
	}
	return r.known
}

func (r *runner) emit(c *hxlib.Ctx, kind string) hxlib.Case {
	cs := hxlib.Case{Kind: kind, Input: map[string]interface{}{"t": "hist", "v": r.h},
		Nontrivial: r.attempts > 0, OracleErr: r.oracle()}
	if !r.h.NoWait && !c.OracleOnly {
		var parts []string
		for _, e := range r.evs {
			parts = append(parts, "("+e+")")
		}
		cs.Coq = "(CHist " + hxlib.CoqList(parts) + ")"
	}
	b, _ := json.Marshal(r.h)
	cs.Key = string(b)
	return cs
}

// ---------------------------------------------------------------- generators

var thPool = []int64{0, 1, 2, 3, 5, 10, 30, 60}
var deltaPool = []int64{0, 1, 1, 2, 3, 5, 10, 20, 40}

func pick(r *rand.Rand, v []int64) int64 { return v[r.Intn(len(v))] }

type gen struct {
	rnd    *rand.Rand
	r      *runner
	valid  bool // keep every hypothesis of the theorem
	nextID int
}

func (g *gen) do(op Op) {
	g.r.h.Ops = append(g.r.h.Ops, op)
	g.r.exec(op)
}

func (g *gen) fresh() int { g.nextID++; return g.nextID }

// an id recorded on the chain of p (or anywhere, when wide), avoiding the open bound
func (g *gen) replayTarget(p int, wide bool) (Tx, bool) {
	var cands []Tx
	chain := append([]int{p}, g.r.ancestors(p)...)
	scan := chain
	if wide {
		scan = nil
		for i := range g.r.trs {
			scan = append(scan, i)
		}
	}
	for _, a := range scan {
	next:
		for _, x := range g.r.trs[a].recorded {
			// skip ids that sit at ts==bts+th of a still uncommitted block of the chain:
			// the known finding gets its own few cases
			// ... and ids finalized before a restart whose timestamp is above the new manager's maxTSInDB
			if ai := g.r.trs[a]; ai.dead && ai.restarts >= 0 {
				if m := txlocator.VerifManagerState(g.r.lm).MaxTS[ai.group]; m != 0 && x.Ts > m {
					continue next
				}
			}
			for _, b := range chain {
				bi := g.r.trs[b]
				if x.Ts == bi.ts+bi.th && !bi.dead && txlocator.VerifTrackerOpen(bi.t.Raw()) {
					for _, y := range bi.recorded {
						if y.ID == x.ID {
							continue next
						}
					}
				}
			}
			cands = append(cands, x)
		}
	}
	if len(cands) == 0 {
		return Tx{}, false
	}
	return cands[g.rnd.Intn(len(cands))], true
}

func abs64(x int64) int64 {
	if x < 0 {
		return -x
	}
	return x
}

func (g *gen) block(parent int) {
	rnd := g.rnd
	pi := g.r.trs[parent]
	bts := pi.ts + pick(rnd, deltaPool)
	if !g.valid && rnd.Intn(12) == 0 {
		bts = pi.ts - int64(rnd.Intn(4))
	}
	th := pick(rnd, thPool)
	var target *Tx
	if rnd.Intn(2) == 0 {
		if x, ok := g.replayTarget(parent, rnd.Intn(8) == 0); ok {
			target = &x
			need := x.Ts - bts // smallest th with bts-th < x <= bts+th
			if bts-x.Ts+1 > need {
				need = bts - x.Ts + 1
			}
			if need < 0 {
				need = 0
			}
			switch rnd.Intn(6) {
			case 0:
				th = need - 1 // just outside
			case 1:
				th = need + 1
			case 2:
				th = need + int64(rnd.Intn(20))
			default:
				th = need // x on a bound of the new window
			}
			if th < 0 {
				th = 0
			}
		}
	}
	if bts == 0 && g.valid {
		bts = 1
	}
	g.do(Op{K: "new", T: parent, Ts: bts, Th: th})
	me := len(g.r.trs) - 1
	if !g.valid && rnd.Intn(15) == 0 {
		return // a tracker without Add
	}
	var txs []Tx
	n := rnd.Intn(4)
	for i := 0; i < n; i++ {
		var ts int64
		if g.valid {
			if th == 0 {
				break // empty window
			}
			ts = []int64{bts - th + 1, bts, bts + th - 1, bts + th, bts + th, bts - th + 1 + rnd.Int63n(2*th)}[rnd.Intn(6)]
		} else {
			ts = []int64{bts - th - 1, bts - th, bts - th + 1, bts, bts + th - 1, bts + th, bts + th, bts + th + 1}[rnd.Intn(8)]
		}
		txs = append(txs, Tx{g.fresh(), ts})
	}
	if target != nil {
		t := *target
		if !g.valid && rnd.Intn(10) == 0 {
			t.Ts += int64(rnd.Intn(3)) - 1 // same id, another timestamp (cannot happen with real ids)
		}
		if !g.valid || inWindow(bts, th, t.Ts) {
			pos := rnd.Intn(len(txs) + 1)
			txs = append(txs[:pos], append([]Tx{t}, txs[pos:]...)...)
		}
	}
	if len(txs) > 0 && rnd.Intn(15) == 0 {
		txs = append(txs, txs[rnd.Intn(len(txs))]) // the same transaction twice in one block
	}
	force := !g.valid && rnd.Intn(6) == 0
	g.do(Op{K: "add", T: me, Txs: txs, Force: force})
}

func (g *gen) someID() (int, int64) {
	if len(g.r.idTs) == 0 || g.rnd.Intn(10) == 0 {
		return 900 + g.rnd.Intn(3), 100 + int64(g.rnd.Intn(100))
	}
	ids := make([]int, 0, len(g.r.idTs))
	for id := range g.r.idTs {
		ids = append(ids, id)
	}
	sort.Ints(ids)
	id := ids[g.rnd.Intn(len(ids))]
	return id, g.r.idTs[id]
}

func genHist(rnd *rand.Rand, valid, svc, nowait bool) *runner {
	r := newRunner(Hist{Svc: svc, NoWait: nowait})
	defer r.close()
	g := &gen{rnd: rnd, r: r, valid: valid}
	grp := 1
	if rnd.Intn(8) == 0 {
		grp = 0
	}
	base := []int64{100, 1000, 7}[rnd.Intn(3)]
	if !valid && rnd.Intn(10) == 0 {
		base = 0
	}
	g.do(Op{K: "root", G: grp, Ts: base, Th: pick(rnd, thPool)})
	tip := 0
	n := 10 + rnd.Intn(30)
	for i := 0; i < n; i++ {
		switch k := rnd.Intn(100); {
		case k < 45:
			parent := tip
			if rnd.Intn(5) == 0 {
				parent = rnd.Intn(len(r.trs))
			}
			g.block(parent)
			if parent == tip || rnd.Intn(3) == 0 {
				tip = len(r.trs) - 1
			}
		case k < 60:
			t := tip
			switch rnd.Intn(3) {
			case 0:
				t = rnd.Intn(len(r.trs))
			case 1: // an ancestor of the tip
				if anc := r.ancestors(tip); len(anc) > 0 {
					t = anc[rnd.Intn(len(anc))]
				}
			}
			g.do(Op{K: "commit", T: t})
			g.do(Op{K: "snap"})
		case k < 85:
			id, ts := g.someID()
			ts += []int64{0, 0, 0, 0, -1, 1}[rnd.Intn(6)]
			g.do(Op{K: "has", T: rnd.Intn(len(r.trs)), ID: id, Ts: ts})
		case k < 93:
			id, ts := g.someID()
			ts += []int64{0, 0, 0, -1, 1}[rnd.Intn(5)]
			gg := grp
			if rnd.Intn(6) == 0 {
				gg = 1 - grp
			}
			g.do(Op{K: "mhas", G: gg, ID: id, Ts: ts})
		case k >= 96 && k < 98 && valid && rnd.Intn(2) == 0: // the node restarts
			g.do(Op{K: "restart"})
			g.do(Op{K: "snap"})
		case k < 94 && !valid && rnd.Intn(3) == 0:
			g.do(Op{K: "restart"})
			g.do(Op{K: "snap"})
		case k < 96 && !valid: // a second root (other group now and then), Add again, Add after Commit
			g2 := grp
			if rnd.Intn(2) == 0 {
				g2 = 1 - grp
			}
			g.do(Op{K: "root", G: g2, Ts: base + int64(rnd.Intn(50)), Th: pick(rnd, thPool)})
		case k < 100 && !valid:
			t := rnd.Intn(len(r.trs))
			ti := r.trs[t]
			g.do(Op{K: "add", T: t, Txs: []Tx{{g.fresh(), ti.ts}}, Force: rnd.Intn(2) == 0})
		}
	}
	g.do(Op{K: "snap"})
	return r
}

// the open bound, in a few shapes: X at ts==bts+th in block A, k blocks in between,
// then a descendant whose window contains X, A still uncommitted
func genBound(rnd *rand.Rand, svc bool) *runner {
	r := newRunner(Hist{Svc: svc})
	defer r.close()
	g := &gen{rnd: rnd, r: r, valid: true}
	g.do(Op{K: "root", G: 1, Ts: 50, Th: 10})
	if rnd.Intn(2) == 0 {
		g.do(Op{K: "commit", T: 0})
	}
	bts, th := int64(100+rnd.Intn(20)), int64(1+rnd.Intn(30))
	g.do(Op{K: "new", T: 0, Ts: bts, Th: th})
	x := Tx{7, bts + th}
	g.do(Op{K: "add", T: 1, Txs: []Tx{{6, bts}, x}})
	tip := 1
	for i := rnd.Intn(3); i > 0; i-- {
		bts += int64(1 + rnd.Intn(3))
		g.do(Op{K: "new", T: tip, Ts: bts, Th: int64(1 + rnd.Intn(5))})
		tip = len(r.trs) - 1
		g.do(Op{K: "add", T: tip, Txs: []Tx{{g.fresh() + 20, bts}}})
	}
	bts += int64(1 + rnd.Intn(3))
	th2 := abs64(x.Ts-bts) + 1 + int64(rnd.Intn(3))
	g.do(Op{K: "new", T: tip, Ts: bts, Th: th2})
	tip = len(r.trs) - 1
	g.do(Op{K: "has", T: tip, ID: 7, Ts: x.Ts})
	g.do(Op{K: "add", T: tip, Txs: []Tx{x}})
	g.do(Op{K: "commit", T: tip})
	g.do(Op{K: "snap"})
	return r
}

// restart + threshold decrease in a few shapes: X finalized under a large threshold, the node
// restarts, the first list of the new manager (small threshold) is evicted, X is offered again
func genRestart(rnd *rand.Rand, svc bool) *runner {
	r := newRunner(Hist{Svc: svc})
	defer r.close()
	g := &gen{rnd: rnd, r: r, valid: true}
	g.do(Op{K: "root", G: 1, Ts: 50, Th: 10})
	bts, th0, th1 := int64(100+rnd.Intn(20)), int64(40+rnd.Intn(40)), int64(2+rnd.Intn(6))
	g.do(Op{K: "new", T: 0, Ts: bts, Th: th0})
	x := Tx{7, bts + th0 - 1 - int64(rnd.Intn(8))}
	g.do(Op{K: "add", T: 1, Txs: []Tx{{6, bts}, x}})
	g.do(Op{K: "commit", T: 1})
	if rnd.Intn(2) == 0 { // an unfinalized block is lost with the old process
		g.do(Op{K: "new", T: 1, Ts: bts + 1, Th: th0})
		g.do(Op{K: "add", T: 2, Txs: []Tx{{5, bts + 1}}})
	}
	g.do(Op{K: "restart"})
	g.do(Op{K: "snap"})
	tip := 1
	b1 := bts + 1 + int64(rnd.Intn(3))
	g.do(Op{K: "new", T: tip, Ts: b1, Th: th1})
	tip = len(r.trs) - 1
	g.do(Op{K: "add", T: tip, Txs: []Tx{{8, b1}}})
	g.do(Op{K: "commit", T: tip})
	g.do(Op{K: "mhas", G: 1, ID: 7, Ts: x.Ts})
	b2 := b1 + 2*th1 + int64(rnd.Intn(3))
	g.do(Op{K: "new", T: tip, Ts: b2, Th: th1})
	tip = len(r.trs) - 1
	g.do(Op{K: "add", T: tip})
	g.do(Op{K: "commit", T: tip})
	g.do(Op{K: "snap"})
	g.do(Op{K: "mhas", G: 1, ID: 7, Ts: x.Ts})
	g.do(Op{K: "new", T: tip, Ts: x.Ts - int64(rnd.Intn(int(th1))), Th: th1})
	tip = len(r.trs) - 1
	g.do(Op{K: "has", T: tip, ID: 7, Ts: x.Ts})
	g.do(Op{K: "add", T: tip, Txs: []Tx{x}})
	g.do(Op{K: "snap"})
	return r
}

// fixed scenarios: the witnesses of Proofs_Locator (h_bound, h_early, h_maxle, h_zero is left out: ts 0)
func scenarios() map[string]Hist {
	return map[string]Hist{
		// restart + threshold decrease: tx 7@150 finalized in block (100,60); restart; the first list of
		// the new manager (101,5) is evicted: maxTSInDB = 106 < 150; block (147,5) accepts tx 7 again
		"restart": {Ops: []Op{{K: "root", G: 1, Ts: 50, Th: 10},
			{K: "new", T: 0, Ts: 100, Th: 60}, {K: "add", T: 1, Txs: []Tx{{7, 150}}}, {K: "commit", T: 1}, {K: "snap"},
			{K: "restart"}, {K: "snap"},
			{K: "new", T: 1, Ts: 101, Th: 5}, {K: "add", T: 2, Txs: []Tx{{8, 103}}}, {K: "commit", T: 2}, {K: "snap"},
			{K: "mhas", G: 1, ID: 7, Ts: 150},
			{K: "new", T: 2, Ts: 112, Th: 5}, {K: "add", T: 3}, {K: "commit", T: 3}, {K: "snap"},
			{K: "mhas", G: 1, ID: 7, Ts: 150},
			{K: "new", T: 3, Ts: 147, Th: 5}, {K: "add", T: 4, Txs: []Tx{{7, 150}}}, {K: "snap"}}},
		"bound": {Ops: []Op{{K: "root", G: 1, Ts: 50, Th: 10},
			{K: "new", T: 0, Ts: 100, Th: 10}, {K: "add", T: 1, Txs: []Tx{{7, 110}}},
			{K: "new", T: 1, Ts: 101, Th: 10}, {K: "add", T: 2, Txs: []Tx{{7, 110}}}, {K: "snap"}}},
		"early": {Ops: []Op{{K: "root", G: 1, Ts: 50, Th: 10},
			{K: "new", T: 0, Ts: 100, Th: 50}, {K: "add", T: 1, Txs: []Tx{{7, 149}}},
			{K: "new", T: 1, Ts: 101, Th: 10}, {K: "add", T: 2},
			{K: "new", T: 2, Ts: 145, Th: 10}, {K: "add", T: 3, Txs: []Tx{{7, 149}}}, {K: "snap"}}},
		"maxle": {Ops: []Op{{K: "root", G: 1, Ts: 50, Th: 10},
			{K: "new", T: 0, Ts: 100, Th: 10}, {K: "add", T: 1, Txs: []Tx{{7, 110}}}, {K: "commit", T: 1}, {K: "snap"},
			{K: "new", T: 1, Ts: 130, Th: 10}, {K: "add", T: 2}, {K: "commit", T: 2}, {K: "snap"},
			{K: "new", T: 2, Ts: 131, Th: 25}, {K: "add", T: 3, Txs: []Tx{{7, 110}}}, {K: "snap"}}},
	}
}

func corpusDir() string {
	if d := os.Getenv("VERIF_CORPUS"); d != "" {
		return d
	}
	starts := []string{}
	if wd, err := os.Getwd(); err == nil {
		starts = append(starts, wd)
	}
	if ex, err := os.Executable(); err == nil {
		starts = append(starts, filepath.Dir(ex))
	}
	starts = append(starts, "/verif")
	for _, s := range starts {
		for d := s; d != "/" && d != "."; d = filepath.Dir(d) {
			p := filepath.Join(d, "corpus", "C11")
			if fi, err := os.Stat(p); err == nil && fi.IsDir() {
				return p
			}
		}
	}
	return ""
}

// ---------------------------------------------------------------- window check

func winCase(in WinIn) (string, string) {
	err := service.NewTimestampRange(in.Bts, in.Th).CheckTx(&dummyTx{ts: in.Ts})
	cls := 0
	switch {
	case err == nil:
	case service.ExpiredTransactionError.Equals(err):
		cls = 1
	case service.FutureTransactionError.Equals(err):
		cls = 2
	default:
		cls = 9
	}
	// CheckTxTimestamp called directly must agree with the range object
	err2 := service.CheckTxTimestamp(in.Bts-in.Th, in.Bts+in.Th, &dummyTx{ts: in.Ts})
	msg := ""
	want := inWindow(in.Bts, in.Th, in.Ts)
	if (err == nil) != want {
		msg = fmt.Sprintf("window: timestamp %d accepted=%v by NewTimestampRange(%d,%d), but (bts-th, bts+th] = (%d,%d]",
			in.Ts, err == nil, in.Bts, in.Th, in.Bts-in.Th, in.Bts+in.Th)
	} else if (err2 == nil) != (err == nil) {
		msg = fmt.Sprintf("window: CheckTxTimestamp and NewTimestampRange disagree on ts %d for (%d,%d)", in.Ts, in.Bts, in.Th)
	}
	return fmt.Sprintf("(CWin %s %s %s %d)", hxlib.CoqZ(in.Bts), hxlib.CoqZ(in.Th), hxlib.CoqZ(in.Ts), cls), msg
}

// ---------------------------------------------------------------- main generator

// the runner under construction, so that a panic still leaves a replayable history
var current *runner

func runCaught(f func() *runner) (r *runner, panicked string) {
	current = nil
	panicked = hxlib.Catch(func() { r = f() })
	if panicked != "" {
		r = current
	}
	return
}

func gen_(c *hxlib.Ctx) {
	rnd := c.Rand
	var cases []hxlib.Case
	add := func(kind string, f func() *runner, in interface{}) {
		r, p := runCaught(f)
		if p != "" {
			if r != nil {
				in = map[string]interface{}{"t": "hist", "v": r.h}
			}
			cases = append(cases, hxlib.Case{Kind: kind, Input: in, Nontrivial: true,
				OracleErr: "the locator code panicked: " + p, Key: fmt.Sprint(len(cases))})
			return
		}
		cases = append(cases, r.emit(c, kind))
	}

	// 1. corpus (minimised past failures), then the fixed scenarios
	if d := corpusDir(); d != "" {
		files, _ := filepath.Glob(filepath.Join(d, "*.json"))
		sort.Strings(files)
		for _, f := range files {
			b, err := os.ReadFile(f)
			if err != nil {
				continue
			}
			var doc struct {
				Input struct {
					T string          `json:"t"`
					V json.RawMessage `json:"v"`
				} `json:"input"`
			}
			if json.Unmarshal(b, &doc) != nil || doc.Input.T != "hist" {
				c.Note("corpus file %s skipped", f)
				continue
			}
			var h Hist
			if json.Unmarshal(doc.Input.V, &h) != nil {
				continue
			}
			for _, svc := range []bool{false, true} {
				hh := h
				hh.Svc = svc
				add("corpus", func() *runner { return runHist(hh) }, map[string]interface{}{"t": "hist", "v": hh})
			}
		}
	} else {
		c.Note("corpus directory corpus/C11 not found; built-in scenarios only")
	}
	sc := scenarios()
	for _, name := range []string{"early", "maxle", "bound", "restart"} {
		for _, svc := range []bool{false, true} {
			h := sc[name]
			h.Svc = svc
			add("scenario-"+name, func() *runner { return runHist(h) }, map[string]interface{}{"t": "hist", "v": h})
		}
	}
	// 2. random histories
	for i := 0; i < c.N(160); i++ {
		add("hist-valid", func() *runner { return genHist(rnd, true, false, false) }, nil)
	}
	for i := 0; i < c.N(110); i++ {
		add("hist-wild", func() *runner { return genHist(rnd, false, false, false) }, nil)
	}
	for i := 0; i < c.N(60); i++ {
		add("hist-svc", func() *runner { return genHist(rnd, rnd.Intn(3) > 0, true, false) }, nil)
	}
	for i := 0; i < c.N(40); i++ {
		add("hist-nowait", func() *runner { return genHist(rnd, true, rnd.Intn(2) == 0, true) }, nil)
	}
	// 3. a few shapes of the open bound (the known finding)
	for i := 0; i < 3; i++ {
		add("bound-shape", func() *runner { return genBound(rnd, i == 2) }, nil)
	}
	for i := 0; i < 2; i++ {
		add("restart-shape", func() *runner { return genRestart(rnd, i == 1) }, nil)
	}
	// 3b. real service transitions on a test node (tchain.go)
	csc := chainScenarios()
	for _, name := range []string{"patch-window", "threshold-raise"} {
		cases = append(cases, emitChain(c, "chain-"+name, csc[name]))
	}
	for i := 0; i < c.N(24); i++ {
		cases = append(cases, emitChain(c, "chain-threshold", genChainA(rnd)))
	}
	for i := 0; i < c.N(14); i++ {
		cases = append(cases, emitChain(c, "chain-patch", genChainB(rnd)))
	}
	cases = append(cases, emitChain(c, "chain-bound", chainBoundScenario()))
	// 4. the window
	for i := 0; i < c.N(300); i++ {
		bts := []int64{0, 100, 1000, 1_700_000_000_000_000}[rnd.Intn(4)]
		th := []int64{0, 1, 2, 10, 300_000_000, 60_000_000}[rnd.Intn(6)]
		ts := []int64{bts - th - 1, bts - th, bts - th + 1, bts - 1, bts, bts + 1, bts + th - 1, bts + th, bts + th + 1,
			bts - th + rnd.Int63n(2*th+1)}[rnd.Intn(10)]
		in := WinIn{bts, th, ts}
		coq, msg := winCase(in)
		if c.OracleOnly {
			coq = ""
		}
		cases = append(cases, hxlib.Case{Kind: "win", Coq: coq, Input: map[string]interface{}{"t": "win", "v": in},
			Nontrivial: abs64(ts-(bts-th)) <= 1 || abs64(ts-(bts+th)) <= 1, OracleErr: msg})
	}

	// genuine violations first: hxlib keeps the first 20 oracle failures only
	isViolation := func(cs hxlib.Case) bool {
		return cs.OracleErr != "" && !strings.Contains(cs.OracleErr, "ts==bts+th") &&
			!strings.Contains(cs.OracleErr, "restart hides larger pre-restart bound")
	}
	for _, cs := range cases {
		if isViolation(cs) {
			c.Emit(cs)
		}
	}
	for _, cs := range cases {
		if !isViolation(cs) {
			c.Emit(cs)
		}
	}
	// canaries: wrong observations the model must flag
	c.Emit(hxlib.Case{Kind: "canary", Canary: true,
		Coq: "(CHist [(EOp (ONewRoot true (50)%Z (10)%Z) RNone); (EOp (ONew 0%nat (100)%Z (10)%Z) RNone); " +
			"(EOp (OAdd 1%nat [(7, (105)%Z)] false) (RAdd 1%nat 0)); (EOp (OHas 1%nat 7 (105)%Z) (RBool false))])"})
	c.Emit(hxlib.Case{Kind: "canary", Canary: true, Coq: "(CWin (100)%Z (10)%Z (110)%Z 2)"})
}

func replay(raw json.RawMessage) string {
	var in struct {
		T string          `json:"t"`
		V json.RawMessage `json:"v"`
	}
	if err := json.Unmarshal(raw, &in); err != nil {
		return "bad replay input: " + err.Error()
	}
	switch in.T {
	case "hist":
		var h Hist
		if err := json.Unmarshal(in.V, &h); err != nil {
			return "bad history: " + err.Error()
		}
		r, p := runCaught(func() *runner { return runHist(h) })
		if p != "" {
			return "the locator code panicked: " + p
		}
		return r.oracle()
	case "win":
		var w WinIn
		json.Unmarshal(in.V, &w)
		_, msg := winCase(w)
		return msg
	case "chain":
		return replayChain(in.V)
	}
	return "unknown case type " + in.T
}

func main() {
	log.GlobalLogger().SetLevel(log.FatalLevel)
	hxlib.Main(hxlib.Spec{
		ID: "C11",
		Rule: "histories of NewTracker/New/Add/Commit/Has/manager.Has on the real txlocator manager over an in-memory database " +
			"(directly and through service.TXIDManager/TXIDLogger), block timestamps parent+{0..40}, thresholds per block from {0..60} or " +
			"computed so that an id already recorded on the chain (uncommitted, committed-and-cached, evicted to the database) falls exactly on / " +
			"just inside / just outside a bound of the new block's window; fresh transactions at bts-th+1, bts, bts+th-1, bts+th; branches, commits of " +
			"arbitrary trackers, state snapshots after every commit; wild histories add forced Adds, out-of-window timestamps, Add twice / after Commit / " +
			"after a child exists, both groups; window cases at bts+-th+-1. Non-trivial history = at least one Add(force=false) that offers an id already " +
			"recorded on its chain or twice in its list; non-trivial window case = timestamp within 1 of a bound; distinct = distinct input",
		Shard: 100,
		Gen:   gen_, Replay: replay,
	})
}
