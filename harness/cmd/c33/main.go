// c33: flooding rules of PeerToPeer.onPacket and the PacketPool duplicate filter vs Model_Flood.
package main

import (
	"encoding/binary"
	"encoding/json"
	"fmt"
	"math/rand"
	"strings"

	"github.com/icon-project/goloop/network"
	"verif/harness/hxlib"
)

// ---------- ids ----------

// peer id number i <-> 20 bytes
func idBytes(i int) []byte {
	b := make([]byte, 20)
	binary.BigEndian.PutUint32(b[0:], uint32(i)*2654435761)
	binary.BigEndian.PutUint32(b[16:], uint32(i))
	b[7] = 0xA5
	return b
}

func coqBool(b bool) string { return hxlib.CoqBool(b) }

// ---------- pool cases ----------

type poolOp struct {
	Op string `json:"op"` // put | contains | clear
	H  uint64 `json:"h"`
}
type poolIn struct {
	NB  int      `json:"nb"`
	LB  int      `json:"lb"`
	Ops []poolOp `json:"ops"`
}

// direct oracle: a hash accepted (Put == true) twice with fewer than (NB-1)*LB accepted
// hashes in between; Put == true must also make the pool... (only the window rule is the property)
func runPool(in poolIn, wantCoq bool) (coq string, msg string) {
	var items []string
	perr := hxlib.Catch(func() {
		pl := network.VerifC33NewPool(uint8(in.NB), uint16(in.LB))
		window := (in.NB - 1) * in.LB
		accepted := 0
		last := map[uint64]int{} // hash -> value of `accepted` right after it was accepted
		for i, op := range in.Ops {
			switch op.Op {
			case "put":
				r := pl.Put(op.H)
				if r {
					if at, ok := last[op.H]; ok && accepted-at < window && msg == "" {
						msg = fmt.Sprintf("pool(%d buckets x %d): hash %d accepted again at op %d after only %d other accepted hashes (window %d)",
							in.NB, in.LB, op.H, i, accepted-at, window)
					}
					accepted++
					last[op.H] = accepted
				}
				if wantCoq {
					items = append(items, fmt.Sprintf("OpPut %d %s", op.H, coqBool(r)))
				}
			case "contains":
				r := pl.Contains(op.H)
				if wantCoq {
					items = append(items, fmt.Sprintf("OpContains %d %s", op.H, coqBool(r)))
				}
			case "clear":
				pl.Clear()
				last = map[uint64]int{}
				if wantCoq {
					items = append(items, "OpClear")
				}
			}
		}
	})
	if perr != "" {
		return "", "PacketPool panicked: " + perr
	}
	if wantCoq {
		coq = fmt.Sprintf("(CPool %d %d [%s])%%Z", in.NB, in.LB, strings.Join(items, "; "))
	}
	return coq, msg
}

// ---------- node cases ----------

type peerSpec struct {
	ID     int      `json:"id"`
	Role   byte     `json:"role"`
	Conn   byte     `json:"conn"`
	Protos []uint16 `json:"protos"`
}
type evIn struct {
	Peer    int    `json:"peer"` // index into Peers
	Proto   uint16 `json:"proto"`
	Src     int    `json:"src"`
	Dest    byte   `json:"dest"`
	TTL     byte   `json:"ttl"`
	Payload uint32 `json:"payload"` // 4-byte payload value: distinct value = distinct packet
	Force   *uint64 `json:"force_hash,omitempty"`
}
type nodeIn struct {
	NB    int        `json:"nb"`
	LB    int        `json:"lb"`
	Self  int        `json:"self"`
	Cbs   []uint16   `json:"cbs"`
	Peers []peerSpec `json:"peers"`
	Evs   []evIn     `json:"evs"`
}

func u16s(xs []uint16) string {
	it := make([]string, len(xs))
	for i, x := range xs {
		it[i] = fmt.Sprint(x)
	}
	return "[" + strings.Join(it, "; ") + "]"
}

func runNode(in nodeIn, wantCoq bool) (coq string, msg string) {
	var items []string
	note := func(s string) {
		if msg == "" {
			msg = s
		}
	}
	perr := hxlib.Catch(func() {
		n := network.VerifC33NewNode(idBytes(in.Self), in.Cbs, uint8(in.NB), uint16(in.LB))
		peers := make([]*network.VerifC33Peer, len(in.Peers))
		mk := func(i int) {
			s := in.Peers[i]
			peers[i] = n.NewPeer(idBytes(s.ID), s.Role, s.Conn, s.Protos)
		}
		for i := range in.Peers {
			mk(i)
		}
		window := (in.NB - 1) * in.LB
		floods := 0
		last := map[uint64]int{}
		for i, e := range in.Evs {
			if peers[e.Peer].Closed() {
				mk(e.Peer) // the peer reconnects
			}
			sp := in.Peers[e.Peer]
			pl := make([]byte, 4)
			binary.BigEndian.PutUint32(pl, e.Payload)
			res, err := n.OnPacket(peers[e.Peer], network.VerifC33Packet{Proto: e.Proto, Sub: 1, Src: idBytes(e.Src), Dest: e.Dest, TTL: e.TTL,
				Payload: pl, ForceHash: e.Force})
			if err != nil {
				panic("building a packet failed: " + err.Error())
			}
			oneHop := e.TTL != 0 || e.Dest == network.VerifC33DestPeer
			bcast := e.Dest == network.VerifC33DestAny && e.TTL == 0
			srcIsPeer := e.Src == sp.ID
			if res.Delivered > 1 {
				note(fmt.Sprintf("event %d: the callback was invoked %d times for one packet", i, res.Delivered))
			}
			if res.Delivered > 0 {
				if oneHop && !srcIsPeer {
					note(fmt.Sprintf("event %d: one-hop packet (ttl %d dest %#x) with source %d delivered although it was sent by peer %d", i, e.TTL, e.Dest, e.Src, sp.ID))
				}
				if bcast && srcIsPeer && sp.Role&network.VerifC33RoleRoot == 0 {
					note(fmt.Sprintf("event %d: originator broadcast from peer %d (role flags %d, no validator role) delivered", i, sp.ID, sp.Role))
				}
				if !oneHop {
					if at, ok := last[res.Hash]; ok && floods-at < window {
						note(fmt.Sprintf("event %d: flooded packet hash %d delivered again after only %d other flood deliveries (pool %dx%d, window %d)",
							i, res.Hash, floods-at, in.NB, in.LB, window))
					}
					floods++
					last[res.Hash] = floods
				}
			}
			if wantCoq {
				items = append(items, fmt.Sprintf("(Pr %d %d %d %s, Pk %d %d %d %d %d, (%s, %s, %s))", sp.ID, sp.Role, sp.Conn, u16s(sp.Protos),
					e.Proto, e.Src, e.Dest, e.TTL, res.Hash, coqBool(res.Delivered > 0), coqBool(res.Closed), coqBool(res.InPool)))
			}
		}
	})
	if perr != "" {
		return "", "onPacket panicked: " + perr
	}
	if wantCoq {
		coq = fmt.Sprintf("(CNode %d %d %d %s [%s])%%Z", in.NB, in.LB, in.Self, u16s(in.Cbs), strings.Join(items, ";\n "))
	}
	return coq, msg
}

// ---------- relay decision ----------

type relayIn struct {
	IsRelay bool `json:"is_relay"`
	TTL     byte `json:"ttl"`
	Dest    byte `json:"dest"`
}

func runRelay(in relayIn) (coq string, msg string) {
	var relayed bool
	perr := hxlib.Catch(func() {
		n := network.VerifC33NewNode(idBytes(1), []uint16{0x0300}, 20, 500)
		a := n.NewPeer(idBytes(10), 0, network.VerifC33ConnOther, []uint16{0x0300})
		b := n.NewPeer(idBytes(11), network.VerifC33RoleSeed, network.VerifC33ConnParent, []uint16{0x0300})
		n.AddToTopology(a)
		n.AddToTopology(b)
		var err error
		relayed, err = n.RelayDecision(a, network.VerifC33Packet{Proto: 0x0300, Sub: 1, Src: idBytes(50), Dest: in.Dest, TTL: in.TTL, Payload: []byte{1, 2, 3}}, in.IsRelay)
		if err != nil {
			panic(err.Error())
		}
	})
	if perr != "" {
		return "", "onPacketResult panicked: " + perr
	}
	return fmt.Sprintf("(CRelay %s %d %d %s)%%Z", coqBool(in.IsRelay), in.TTL, in.Dest, coqBool(relayed)), ""
}

// ---------- generators ----------

const (
	protoA = 0x0300 // a data protocol with a callback
	protoB = 0x0401 // data protocol, callback registered
	protoC = 0x0500 // data protocol without callback
)

func gen(c *hxlib.Ctx) {
	r := c.Rand
	want := !c.OracleOnly
	emit := func(kind string, coq, msg string, input interface{}, key string) {
		c.Emit(hxlib.Case{Kind: kind, Coq: coq, Input: input, Nontrivial: true, OracleErr: msg, Key: key})
	}
	// 1. pool: random streams over a small alphabet
	for i := 0; i < c.N(70); i++ {
		in := poolIn{NB: 1 + r.Intn(5), LB: r.Intn(7)}
		if i%10 == 0 {
			in.LB = 0
		}
		alpha := 2 + r.Intn(3*(in.NB*in.LB+2))
		n := 30 + r.Intn(60)
		for k := 0; k < n; k++ {
			h := uint64(r.Intn(alpha))
			if r.Intn(6) == 0 {
				h = r.Uint64()
			}
			switch x := r.Intn(20); {
			case x == 0 && i%3 == 0:
				in.Ops = append(in.Ops, poolOp{Op: "clear"})
			case x < 5:
				in.Ops = append(in.Ops, poolOp{Op: "contains", H: h})
			default:
				in.Ops = append(in.Ops, poolOp{Op: "put", H: h})
			}
		}
		coq, msg := runPool(in, want)
		emit("pool-random", coq, msg, map[string]interface{}{"t": "pool", "v": in}, "")
	}
	// 2. pool: duplicates at controlled distances around the window
	for i := 0; i < c.N(60); i++ {
		in := poolIn{NB: 1 + r.Intn(5), LB: 1 + r.Intn(6)}
		w := (in.NB - 1) * in.LB
		next := uint64(1000)
		fresh := func(k int) {
			for j := 0; j < k; j++ {
				in.Ops = append(in.Ops, poolOp{Op: "put", H: next})
				next++
			}
		}
		if r.Intn(3) == 0 {
			fresh(r.Intn(in.NB*in.LB + 3)) // arbitrary fill state, possibly wrapped around
		}
		if r.Intn(4) == 0 {
			in.Ops = append(in.Ops, poolOp{Op: "clear"}) // Clear keeps len[]: the first bucket may rotate early
		}
		fresh(r.Intn(in.LB + 1)) // position of h inside its bucket
		h := uint64(7)
		in.Ops = append(in.Ops, poolOp{Op: "put", H: h})
		d := w + r.Intn(4) - 2
		if d < 0 {
			d = 0
		}
		for j := 0; j < d; j++ { // between: distinct hashes, with duplicates of them mixed in (duplicates do not count)
			in.Ops = append(in.Ops, poolOp{Op: "put", H: next})
			if r.Intn(4) == 0 {
				in.Ops = append(in.Ops, poolOp{Op: "put", H: next})
			}
			next++
		}
		in.Ops = append(in.Ops, poolOp{Op: "contains", H: h}, poolOp{Op: "put", H: h}, poolOp{Op: "put", H: h})
		coq, msg := runPool(in, want)
		emit("pool-window", coq, msg, map[string]interface{}{"t": "pool", "v": in}, "")
	}
	// 3. pool with the production shape: 9499 others in between (model evaluated in the thorough tier only)
	{
		in := poolIn{NB: network.VerifC33DefaultNumBucket, LB: network.VerifC33DefaultBucketLen}
		for j := 0; j < 499; j++ {
			in.Ops = append(in.Ops, poolOp{Op: "put", H: uint64(100000 + j)})
		}
		in.Ops = append(in.Ops, poolOp{Op: "put", H: 7})
		for j := 0; j < 9499; j++ {
			in.Ops = append(in.Ops, poolOp{Op: "put", H: uint64(200000 + j)})
		}
		in.Ops = append(in.Ops, poolOp{Op: "put", H: 7}, poolOp{Op: "put", H: 300000}, poolOp{Op: "put", H: 7})
		coq, msg := runPool(in, want && c.Tier == "thorough")
		emit("pool-default", coq, msg, map[string]interface{}{"t": "pool-default"}, "pool-default")
	}
	// 4. onPacket: the whole (role, source, ttl, dest) matrix, fresh payload per event
	type combo struct {
		role      byte
		src       int // 0: the sending peer, 1: another id, 2: this node
		ttl, dest byte
	}
	var combos []combo
	for _, role := range []byte{0, 1, 2, 3} {
		for src := 0; src < 3; src++ {
			for _, ttl := range []byte{0, 1, 2, 255} {
				for _, dest := range []byte{0, 1, 2, 7, 255} {
					combos = append(combos, combo{role, src, ttl, dest})
				}
			}
		}
	}
	r.Shuffle(len(combos), func(i, j int) { combos[i], combos[j] = combos[j], combos[i] })
	payload := uint32(1)
	const per = 24
	for off := 0; off < len(combos); off += per {
		in := nodeIn{NB: 20, LB: 500, Self: 1, Cbs: []uint16{protoA, protoB}}
		// one peer per role, all with usable connection types, plus special peers
		in.Peers = []peerSpec{
			{ID: 10, Role: 0, Conn: network.VerifC33ConnChildren, Protos: []uint16{protoA, protoB, protoC}},
			{ID: 11, Role: 1, Conn: network.VerifC33ConnParent, Protos: []uint16{protoA, protoB, protoC}},
			{ID: 12, Role: 2, Conn: network.VerifC33ConnFriend, Protos: []uint16{protoA, protoB, protoC}},
			{ID: 13, Role: 3, Conn: network.VerifC33ConnOther, Protos: []uint16{protoA, protoB, protoC}},
			{ID: 14, Role: 2, Conn: network.VerifC33ConnNone, Protos: []uint16{protoA}},    // connection type undetermined
			{ID: 15, Role: 2, Conn: network.VerifC33ConnFriend, Protos: []uint16{protoB}}, // does not speak protoA
		}
		end := off + per
		if end > len(combos) {
			end = len(combos)
		}
		for _, cb := range combos[off:end] {
			e := evIn{Peer: int(cb.role), Proto: protoA, Dest: cb.dest, TTL: cb.ttl, Payload: payload}
			payload++
			switch cb.src {
			case 0:
				e.Src = in.Peers[e.Peer].ID
			case 1:
				e.Src = 40 + r.Intn(3)
			default:
				e.Src = in.Self
			}
			if r.Intn(5) == 0 {
				e.Proto = protoB
			}
			in.Evs = append(in.Evs, e)
			switch r.Intn(12) {
			case 0: // same packet from the peer whose connection type is undetermined
				e2 := e
				e2.Peer = 4
				if cb.src == 0 {
					e2.Src = 14
				}
				e2.Payload = payload
				payload++
				in.Evs = append(in.Evs, e2)
			case 1: // protocol the peer did not announce
				e2 := e
				e2.Peer = 5
				e2.Proto = protoA
				e2.Payload = payload
				payload++
				in.Evs = append(in.Evs, e2)
			case 2: // data protocol without a registered callback
				e2 := e
				e2.Proto = protoC
				e2.Payload = payload
				payload++
				in.Evs = append(in.Evs, e2)
			case 3: // exact duplicate right away
				in.Evs = append(in.Evs, e)
			}
		}
		coq, msg := runNode(in, want)
		emit("onpacket-matrix", coq, msg, map[string]interface{}{"t": "node", "v": in}, "")
	}
	// 5. relay orders: the same broadcasts through 2-4 peers, small pools, fillers in between
	for i := 0; i < c.N(60); i++ {
		in := nodeIn{NB: 1 + r.Intn(4), LB: 1 + r.Intn(4), Self: 1, Cbs: []uint16{protoA}}
		if i%6 == 0 {
			in.NB, in.LB = 20, 500
		}
		np := 2 + r.Intn(3)
		for k := 0; k < np; k++ {
			in.Peers = append(in.Peers, peerSpec{ID: 10 + k, Role: byte(r.Intn(4)),
				Conn: []byte{network.VerifC33ConnParent, network.VerifC33ConnChildren, network.VerifC33ConnFriend, network.VerifC33ConnOther}[r.Intn(4)],
				Protos: []uint16{protoA}})
		}
		w := (in.NB - 1) * in.LB
		nmsg := 1 + r.Intn(4)
		type m struct {
			src     int
			dest    byte
			payload uint32
		}
		var msgs []m
		for k := 0; k < nmsg; k++ {
			src := 30 + r.Intn(3)
			if r.Intn(2) == 0 {
				src = in.Peers[r.Intn(np)].ID // originated by one of the neighbours
			}
			msgs = append(msgs, m{src, []byte{0, 0, 1, 2}[r.Intn(4)], payload})
			payload++
		}
		rounds := 2 + r.Intn(3)
		for rd := 0; rd < rounds; rd++ {
			order := r.Perm(np)
			for _, pi := range order {
				for _, mm := range msgs {
					if r.Intn(5) == 0 {
						continue
					}
					in.Evs = append(in.Evs, evIn{Peer: pi, Proto: protoA, Src: mm.src, Dest: mm.dest, TTL: 0, Payload: mm.payload})
				}
			}
			// fillers: distinct flooded packets from a validator-originated stream
			nf := 0
			if r.Intn(2) == 0 && w < 40 {
				nf = w + r.Intn(3) - 1
				if nf < 0 {
					nf = 0
				}
			}
			for f := 0; f < nf; f++ {
				in.Evs = append(in.Evs, evIn{Peer: r.Intn(np), Proto: protoA, Src: 60, Dest: 0, TTL: 0, Payload: payload})
				payload++
			}
		}
		if i%10 == 0 && len(in.Evs) > 2 { // a different packet that happens to carry the same hash is treated as a duplicate
			fh := uint64(0x1234567890abcdef) + uint64(i)
			in.Evs[0].Force = &fh
			e := in.Evs[0]
			e.Payload = payload
			payload++
			in.Evs = append(in.Evs, e)
		}
		coq, msg := runNode(in, want)
		emit("onpacket-relay", coq, msg, map[string]interface{}{"t": "node", "v": in}, "")
	}
	// 6. relay decision of the protocol handler
	for _, isRelay := range []bool{false, true} {
		for _, ttl := range []byte{0, 1, 2} {
			for _, dest := range []byte{0, 1, 2, 255} {
				in := relayIn{isRelay, ttl, dest}
				coq, msg := runRelay(in)
				emit("relay-decision", coq, msg, map[string]interface{}{"t": "relay", "v": in}, "")
			}
		}
	}
	// canary: a wrong observation the model must flag
	c.Emit(hxlib.Case{Kind: "canary", Canary: true, Coq: "(CPool 2 2 [OpPut 5 true; OpPut 5 true])%Z"})
}

func defaultPoolIn() poolIn {
	in := poolIn{NB: network.VerifC33DefaultNumBucket, LB: network.VerifC33DefaultBucketLen}
	for j := 0; j < 499; j++ {
		in.Ops = append(in.Ops, poolOp{Op: "put", H: uint64(100000 + j)})
	}
	in.Ops = append(in.Ops, poolOp{Op: "put", H: 7})
	for j := 0; j < 9499; j++ {
		in.Ops = append(in.Ops, poolOp{Op: "put", H: uint64(200000 + j)})
	}
	in.Ops = append(in.Ops, poolOp{Op: "put", H: 7}, poolOp{Op: "put", H: 300000}, poolOp{Op: "put", H: 7})
	return in
}

func replay(raw json.RawMessage) string {
	var in struct {
		T string          `json:"t"`
		V json.RawMessage `json:"v"`
	}
	if err := json.Unmarshal(raw, &in); err != nil {
		return "bad replay input: " + err.Error()
	}
	switch in.T {
	case "pool":
		var v poolIn
		json.Unmarshal(in.V, &v)
		_, msg := runPool(v, false)
		return msg
	case "pool-default":
		_, msg := runPool(defaultPoolIn(), false)
		return msg
	case "node":
		var v nodeIn
		json.Unmarshal(in.V, &v)
		_, msg := runNode(v, false)
		return msg
	case "relay":
		var v relayIn
		json.Unmarshal(in.V, &v)
		_, msg := runRelay(v)
		return msg
	}
	return "unknown case type " + in.T
}

func main() {
	_ = rand.Int
	hxlib.Main(hxlib.Spec{
		ID: "C33",
		Rule: "PacketPool with 1-5 buckets of 0-6 entries (and the production 20x500): random Put/Contains/Clear streams over small hash alphabets, and a hash re-put after W-2..W+1 distinct accepted hashes (W=(buckets-1)*len) from random fill states; onPacket on a PeerToPeer with stub peers: every (peer role flags 0-3, source = peer / other / self, ttl 0/1/2/255, dest 0/1/2/7/255) combination plus undetermined connection type, unannounced protocol, missing callback, immediate duplicate; the same broadcasts relayed by 2-4 peers in random orders with distinct filler packets around the pool window; the relay decision for all (isRelay, ttl, dest); non-trivial = every case; distinct = distinct Coq case term",
		Shard: 80,
		Gen:   gen, Replay: replay,
	})
}
