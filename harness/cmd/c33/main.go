// c33: flooding rules of PeerToPeer.onPacket and the PacketPool duplicate filter vs Model_Flood.
package main

import (
	"encoding/binary"
	"encoding/json"
	"fmt"
	"math/rand"
	"runtime"
	"strings"
	"sync"
	"sync/atomic"

	"github.com/icon-project/goloop/network"
	"verif/harness/hxlib"
)

// ---------- ids ----------

// peer id number i <-> 20 bytes
func idBytes(i int) []byte {
	b := make([]byte, 20)
	binary.BigEndian.PutUint32(b[0:], uint32(i)*2654435761)
	binary.BigEndian.PutUint32(b[16:], uint32(i))
	b[7] = 0xA5
	return b
}

func coqBool(b bool) string { return hxlib.CoqBool(b) }

// ---------- pool cases ----------

type poolOp struct {
	Op string `json:"op"` // put | contains | clear
	H  uint64 `json:"h"`
}
type poolIn struct {
	NB  int      `json:"nb"`
	LB  int      `json:"lb"`
	Ops []poolOp `json:"ops"`
}

// direct oracle: a hash accepted (Put == true) twice with fewer than (NB-1)*LB accepted
// hashes in between; Put == true must also make the pool... (only the window rule is the property)
func runPool(in poolIn, wantCoq bool) (coq string, msg string) {
	var items []string
	perr := hxlib.Catch(func() {
		pl := network.VerifC33NewPool(uint8(in.NB), uint16(in.LB))
		window := (in.NB - 1) * in.LB
		accepted := 0
		last := map[uint64]int{} // hash -> value of `accepted` right after it was accepted
		for i, op := range in.Ops {
			switch op.Op {
			case "put":
				r := pl.Put(op.H)
				if r {
					if at, ok := last[op.H]; ok && accepted-at < window && msg == "" {
						msg = fmt.Sprintf("pool(%d buckets x %d): hash %d accepted again at op %d after only %d other accepted hashes (window %d)",
							in.NB, in.LB, op.H, i, accepted-at, window)
					}
					accepted++
					last[op.H] = accepted
				}
				if wantCoq {
					items = append(items, fmt.Sprintf("OpPut %d %s", op.H, coqBool(r)))
				}
			case "contains":
				r := pl.Contains(op.H)
				if wantCoq {
					items = append(items, fmt.Sprintf("OpContains %d %s", op.H, coqBool(r)))
				}
			case "clear":
				pl.Clear()
				last = map[uint64]int{}
				if wantCoq {
					items = append(items, "OpClear")
				}
			}
		}
	})
	if perr != "" {
		return "", "PacketPool panicked: " + perr
	}
	if wantCoq {
		coq = fmt.Sprintf("(CPool %d %d [%s])%%Z", in.NB, in.LB, strings.Join(items, "; "))
	}
	return coq, msg
}

// ---------- node cases ----------

type peerSpec struct {
	ID     int      `json:"id"`
	Role   byte     `json:"role"`
	Recv   byte     `json:"recv_role"` // what the peer announced about itself (recvRole); independent of Role
	Conn   byte     `json:"conn"`
	Protos []uint16 `json:"protos"`
	// Claim: the peer is created without roles and announces *Claim in a real query handshake;
	// Role/Recv are then whatever the package resolved (read back)
	Claim *byte `json:"claim,omitempty"`
}
type evIn struct {
	Peer    int    `json:"peer"` // index into Peers
	Proto   uint16 `json:"proto"`
	Src     int    `json:"src"`
	Dest    byte   `json:"dest"`
	TTL     byte   `json:"ttl"`
	Payload uint32 `json:"payload"` // 4-byte payload value: distinct value = distinct packet
	Force   *uint64 `json:"force_hash,omitempty"`
}
type nodeIn struct {
	NB    int        `json:"nb"`
	LB    int        `json:"lb"`
	Self  int        `json:"self"`
	Cbs   []uint16   `json:"cbs"`
	Peers []peerSpec `json:"peers"`
	Evs   []evIn     `json:"evs"`
	// validator list (allowedRoots) before the handshakes and, if non-nil, its replacement
	// afterwards (revocation); nil = empty list
	Allowed  []int `json:"allowed_roots,omitempty"`
	Allowed2 []int `json:"allowed_roots_after,omitempty"`
}

func u16s(xs []uint16) string {
	it := make([]string, len(xs))
	for i, x := range xs {
		it[i] = fmt.Sprint(x)
	}
	return "[" + strings.Join(it, "; ") + "]"
}

func runNode(in nodeIn, wantCoq bool) (coq string, msg string) {
	var items []string
	note := func(s string) {
		if msg == "" {
			msg = s
		}
	}
	perr := hxlib.Catch(func() {
		n := network.VerifC33NewNode(idBytes(in.Self), in.Cbs, uint8(in.NB), uint16(in.LB))
		peers := make([]*network.VerifC33Peer, len(in.Peers))
		specs := append([]peerSpec(nil), in.Peers...) // effective role flags (read back after handshakes)
		ids := func(l []int) [][]byte {
			out := make([][]byte, len(l))
			for i, x := range l {
				out[i] = idBytes(x)
			}
			return out
		}
		if in.Allowed != nil {
			n.SetAllowedRoots(ids(in.Allowed))
		}
		final := in.Allowed
		mk := func(i int) {
			s := in.Peers[i]
			if s.Claim == nil {
				peers[i] = n.NewPeer(idBytes(s.ID), s.Role, s.Recv, s.Conn, s.Protos)
				return
			}
			peers[i] = n.NewPeer(idBytes(s.ID), 0, 0, s.Conn, append([]uint16{0}, s.Protos...))
			n.AddToTopology(peers[i])
			n.Handshake(peers[i], *s.Claim)
			specs[i].Protos = append([]uint16{0}, s.Protos...)
			specs[i].Role, specs[i].Recv = peers[i].Roles()
		}
		for i := range in.Peers {
			mk(i)
		}
		if in.Allowed2 != nil {
			n.SetAllowedRoots(ids(in.Allowed2)) // validator list changes while the peers are connected
			final = in.Allowed2
			for i := range in.Peers {
				specs[i].Role, specs[i].Recv = peers[i].Roles()
			}
		}
		isAllowed := func(id int) bool {
			for _, x := range final {
				if x == id {
					return true
				}
			}
			return false
		}
		window := (in.NB - 1) * in.LB
		floods := 0
		last := map[uint64]int{}
		for i, e := range in.Evs {
			if peers[e.Peer].Closed() {
				mk(e.Peer) // the peer reconnects
				specs[e.Peer].Role, specs[e.Peer].Recv = peers[e.Peer].Roles()
			}
			sp := specs[e.Peer]
			pl := make([]byte, 4)
			binary.BigEndian.PutUint32(pl, e.Payload)
			res, err := n.OnPacket(peers[e.Peer], network.VerifC33Packet{Proto: e.Proto, Sub: 1, Src: idBytes(e.Src), Dest: e.Dest, TTL: e.TTL,
				Payload: pl, ForceHash: e.Force})
			if err != nil {
				panic("building a packet failed: " + err.Error())
			}
			oneHop := e.TTL != 0 || e.Dest == network.VerifC33DestPeer
			bcast := e.Dest == network.VerifC33DestAny && e.TTL == 0
			srcIsPeer := e.Src == sp.ID
			if res.Delivered > 1 {
				note(fmt.Sprintf("event %d: the callback was invoked %d times for one packet", i, res.Delivered))
			}
			if res.Delivered > 0 {
				if oneHop && !srcIsPeer {
					note(fmt.Sprintf("event %d: one-hop packet (ttl %d dest %#x) with source %d delivered although it was sent by peer %d", i, e.TTL, e.Dest, e.Src, sp.ID))
				}
				if bcast && srcIsPeer && sp.Role&network.VerifC33RoleRoot == 0 {
					note(fmt.Sprintf("event %d: originator broadcast from peer %d delivered although the peer does not hold the validator role (role flags %d; it announced %d about itself)",
						i, sp.ID, sp.Role, sp.Recv))
				}
				if bcast && srcIsPeer && len(final) > 0 && !isAllowed(sp.ID) {
					note(fmt.Sprintf("event %d: originator broadcast from peer %d delivered although it is not in the validator list %v (role flags %d, announced %d)",
						i, sp.ID, final, sp.Role, sp.Recv))
				}
				if !oneHop {
					if at, ok := last[res.Hash]; ok && floods-at < window {
						note(fmt.Sprintf("event %d: flooded packet hash %d delivered again after only %d other flood deliveries (pool %dx%d, window %d)",
							i, res.Hash, floods-at, in.NB, in.LB, window))
					}
					floods++
					last[res.Hash] = floods
				}
			}
			if wantCoq {
				items = append(items, fmt.Sprintf("(Pr %d %d %d %d %s, Pk %d %d %d %d %d, (%s, %s, %s))", sp.ID, sp.Role, sp.Recv, sp.Conn, u16s(sp.Protos),
					e.Proto, e.Src, e.Dest, e.TTL, res.Hash, coqBool(res.Delivered > 0), coqBool(res.Closed), coqBool(res.InPool)))
			}
		}
	})
	if perr != "" {
		return "", "onPacket panicked: " + perr
	}
	if wantCoq {
		coq = fmt.Sprintf("(CNode %d %d %d %s [%s])%%Z", in.NB, in.LB, in.Self, u16s(in.Cbs), strings.Join(items, ";\n "))
	}
	return coq, msg
}

// ---------- relay decision ----------

type relayIn struct {
	IsRelay bool `json:"is_relay"`
	TTL     byte `json:"ttl"`
	Dest    byte `json:"dest"`
}

func runRelay(in relayIn) (coq string, msg string) {
	var relayed bool
	perr := hxlib.Catch(func() {
		n := network.VerifC33NewNode(idBytes(1), []uint16{0x0300}, 20, 500)
		a := n.NewPeer(idBytes(10), 0, 0, network.VerifC33ConnOther, []uint16{0x0300})
		b := n.NewPeer(idBytes(11), network.VerifC33RoleSeed, network.VerifC33RoleSeed, network.VerifC33ConnParent, []uint16{0x0300})
		n.AddToTopology(a)
		n.AddToTopology(b)
		var err error
		relayed, err = n.RelayDecision(a, network.VerifC33Packet{Proto: 0x0300, Sub: 1, Src: idBytes(50), Dest: in.Dest, TTL: in.TTL, Payload: []byte{1, 2, 3}}, in.IsRelay)
		if err != nil {
			panic(err.Error())
		}
	})
	if perr != "" {
		return "", "onPacketResult panicked: " + perr
	}
	return fmt.Sprintf("(CRelay %s %d %d %s)%%Z", coqBool(in.IsRelay), in.TTL, in.Dest, coqBool(relayed)), ""
}

// ---------- concurrent callers ----------

type concIn struct {
	Kind   string `json:"kind"` // pool: PacketPool.Put; node: onPacket from N peers' receive goroutines
	N      int    `json:"n"`
	Rounds int    `json:"rounds"`
	NB     int    `json:"nb"`
	LB     int    `json:"lb"`
}

// race runs `rounds` rounds; in each round the n workers are released together (spin barrier)
// and call fire(round, worker)
func race(n, rounds int, prepare func(r int), fire func(r, g int), after func(r int)) {
	var arrive, gate, done atomic.Int64
	var wg sync.WaitGroup
	for g := 0; g < n; g++ {
		wg.Add(1)
		go func(g int) {
			defer wg.Done()
			for r := 0; r < rounds; r++ {
				arrive.Add(1)
				for k := 0; gate.Load() <= int64(r); k++ {
					if k&1023 == 1023 {
						runtime.Gosched()
					}
				}
				fire(r, g)
				done.Add(1)
			}
		}(g)
	}
	for r := 0; r < rounds; r++ {
		prepare(r)
		for arrive.Load() < int64(n*(r+1)) {
			runtime.Gosched()
		}
		gate.Store(int64(r + 1))
		for done.Load() < int64(n*(r+1)) {
			runtime.Gosched()
		}
		after(r)
	}
	wg.Wait()
}

// direct oracle: a flooded packet / hash that is new is reported new to exactly one caller
func runConc(in concIn, wantCoq bool) (coq string, msg string) {
	minNew, maxNew := in.N+1, -1
	bad, firstBad := 0, -1
	perr := hxlib.Catch(func() {
		if runtime.GOMAXPROCS(0) < in.N {
			runtime.GOMAXPROCS(in.N)
		}
		rec := func(r, w int) {
			if w < minNew {
				minNew = w
			}
			if w > maxNew {
				maxNew = w
			}
			if w > 1 {
				bad++
				if firstBad < 0 {
					firstBad = r
				}
			}
		}
		switch in.Kind {
		case "pool":
			pl := network.VerifC33NewPool(uint8(in.NB), uint16(in.LB))
			var wins atomic.Int64
			race(in.N, in.Rounds,
				func(r int) { wins.Store(0) },
				func(r, g int) {
					if pl.Put(uint64(1000 + r)) {
						wins.Add(1)
					}
				},
				func(r int) { rec(r, int(wins.Load())) })
		case "node":
			n := network.VerifC33NewNode(idBytes(1), []uint16{protoA}, uint8(in.NB), uint16(in.LB))
			peers := make([]*network.VerifC33Peer, in.N)
			for g := range peers {
				peers[g] = n.NewPeer(idBytes(10+g), byte(g%4), byte((g+1)%4), network.VerifC33ConnOther, []uint16{protoA})
			}
			prep := make([]*network.VerifC33Prepared, in.N)
			before := 0
			race(in.N, in.Rounds,
				func(r int) {
					pl := make([]byte, 4)
					binary.BigEndian.PutUint32(pl, uint32(r))
					for g := range peers { // the same flooded packet (origin 60) relayed by every neighbour
						x, err := n.Prepare(peers[g], network.VerifC33Packet{Proto: protoA, Sub: 1, Src: idBytes(60), Dest: 0, TTL: 0, Payload: pl})
						if err != nil {
							panic(err.Error())
						}
						prep[g] = x
					}
					before = n.DeliveredCount()
				},
				func(r, g int) { n.Fire(prep[g]) },
				func(r int) { rec(r, n.DeliveredCount()-before) })
		}
	})
	if perr != "" {
		return "", "concurrent " + in.Kind + " run panicked: " + perr
	}
	if bad > 0 {
		what := "PacketPool.Put reported the same new hash as new to more than one of"
		if in.Kind == "node" {
			what = "the same flooded packet relayed at the same moment was handed to the application more than once: onPacket called by"
		}
		msg = fmt.Sprintf("%s %d concurrent callers in %d of %d rounds (first in round %d, up to %d in one round); Put must test and insert in one critical section",
			what, in.N, bad, in.Rounds, firstBad, maxNew)
	}
	if wantCoq {
		coq = fmt.Sprintf("(CConcurrent %d %d %d %d %d)%%Z", in.NB, in.LB, in.N, minNew, maxNew)
	}
	return coq, msg
}

// ---------- generators ----------

const (
	protoA = 0x0300 // a data protocol with a callback
	protoB = 0x0401 // data protocol, callback registered
	protoC = 0x0500 // data protocol without callback
)

func gen(c *hxlib.Ctx) {
	r := c.Rand
	want := !c.OracleOnly
	emit := func(kind string, coq, msg string, input interface{}, key string) {
		c.Emit(hxlib.Case{Kind: kind, Coq: coq, Input: input, Nontrivial: true, OracleErr: msg, Key: key})
	}
	// 1. pool: random streams over a small alphabet
	for i := 0; i < c.N(70); i++ {
		in := poolIn{NB: 1 + r.Intn(5), LB: r.Intn(7)}
		if i%10 == 0 {
			in.LB = 0
		}
		alpha := 2 + r.Intn(3*(in.NB*in.LB+2))
		n := 30 + r.Intn(60)
		for k := 0; k < n; k++ {
			h := uint64(r.Intn(alpha))
			if r.Intn(6) == 0 {
				h = r.Uint64()
			}
			switch x := r.Intn(20); {
			case x == 0 && i%3 == 0:
				in.Ops = append(in.Ops, poolOp{Op: "clear"})
			case x < 5:
				in.Ops = append(in.Ops, poolOp{Op: "contains", H: h})
			default:
				in.Ops = append(in.Ops, poolOp{Op: "put", H: h})
			}
		}
		coq, msg := runPool(in, want)
		emit("pool-random", coq, msg, map[string]interface{}{"t": "pool", "v": in}, "")
	}
	// 2. pool: duplicates at controlled distances around the window
	for i := 0; i < c.N(60); i++ {
		in := poolIn{NB: 1 + r.Intn(5), LB: 1 + r.Intn(6)}
		w := (in.NB - 1) * in.LB
		next := uint64(1000)
		fresh := func(k int) {
			for j := 0; j < k; j++ {
				in.Ops = append(in.Ops, poolOp{Op: "put", H: next})
				next++
			}
		}
		if r.Intn(3) == 0 {
			fresh(r.Intn(in.NB*in.LB + 3)) // arbitrary fill state, possibly wrapped around
		}
		if r.Intn(4) == 0 {
			in.Ops = append(in.Ops, poolOp{Op: "clear"}) // Clear keeps len[]: the first bucket may rotate early
		}
		fresh(r.Intn(in.LB + 1)) // position of h inside its bucket
		h := uint64(7)
		in.Ops = append(in.Ops, poolOp{Op: "put", H: h})
		d := w + r.Intn(4) - 2
		if d < 0 {
			d = 0
		}
		for j := 0; j < d; j++ { // between: distinct hashes, with duplicates of them mixed in (duplicates do not count)
			in.Ops = append(in.Ops, poolOp{Op: "put", H: next})
			if r.Intn(4) == 0 {
				in.Ops = append(in.Ops, poolOp{Op: "put", H: next})
			}
			next++
		}
		in.Ops = append(in.Ops, poolOp{Op: "contains", H: h}, poolOp{Op: "put", H: h}, poolOp{Op: "put", H: h})
		coq, msg := runPool(in, want)
		emit("pool-window", coq, msg, map[string]interface{}{"t": "pool", "v": in}, "")
	}
	// 3. pool with the production shape: 9499 others in between (model evaluated in the thorough tier only)
	{
		in := poolIn{NB: network.VerifC33DefaultNumBucket, LB: network.VerifC33DefaultBucketLen}
		for j := 0; j < 499; j++ {
			in.Ops = append(in.Ops, poolOp{Op: "put", H: uint64(100000 + j)})
		}
		in.Ops = append(in.Ops, poolOp{Op: "put", H: 7})
		for j := 0; j < 9499; j++ {
			in.Ops = append(in.Ops, poolOp{Op: "put", H: uint64(200000 + j)})
		}
		in.Ops = append(in.Ops, poolOp{Op: "put", H: 7}, poolOp{Op: "put", H: 300000}, poolOp{Op: "put", H: 7})
		coq, msg := runPool(in, want && c.Tier == "thorough")
		emit("pool-default", coq, msg, map[string]interface{}{"t": "pool-default"}, "pool-default")
	}
	// 4. onPacket: the whole (role, source, ttl, dest) matrix, fresh payload per event
	type combo struct {
		role      byte
		src       int // 0: the sending peer, 1: another id, 2: this node
		ttl, dest byte
	}
	var combos []combo
	for _, role := range []byte{0, 1, 2, 3} {
		for src := 0; src < 3; src++ {
			for _, ttl := range []byte{0, 1, 2, 255} {
				for _, dest := range []byte{0, 1, 2, 7, 255} {
					combos = append(combos, combo{role, src, ttl, dest})
				}
			}
		}
	}
	r.Shuffle(len(combos), func(i, j int) { combos[i], combos[j] = combos[j], combos[i] })
	payload := uint32(1)
	const per = 24
	for off := 0; off < len(combos); off += per {
		in := nodeIn{NB: 20, LB: 500, Self: 1, Cbs: []uint16{protoA, protoB}}
		// one peer per role, all with usable connection types, plus special peers
		in.Peers = []peerSpec{
			{ID: 10, Role: 0, Conn: network.VerifC33ConnChildren, Protos: []uint16{protoA, protoB, protoC}},
			{ID: 11, Role: 1, Conn: network.VerifC33ConnParent, Protos: []uint16{protoA, protoB, protoC}},
			{ID: 12, Role: 2, Conn: network.VerifC33ConnFriend, Protos: []uint16{protoA, protoB, protoC}},
			{ID: 13, Role: 3, Conn: network.VerifC33ConnOther, Protos: []uint16{protoA, protoB, protoC}},
			{ID: 14, Role: 2, Conn: network.VerifC33ConnNone, Protos: []uint16{protoA}},    // connection type undetermined
			{ID: 15, Role: 2, Conn: network.VerifC33ConnFriend, Protos: []uint16{protoB}}, // does not speak protoA
		}
		// what the peers announced about themselves: equal to the resolved role in every other node,
		// otherwise the opposite claim (a citizen / seed announcing the validator role, a validator announcing less)
		for k := 0; k < 4; k++ {
			if (off/per)%2 == 0 {
				in.Peers[k].Recv = 3 - in.Peers[k].Role
			} else {
				in.Peers[k].Recv = in.Peers[k].Role
			}
		}
		end := off + per
		if end > len(combos) {
			end = len(combos)
		}
		for _, cb := range combos[off:end] {
			e := evIn{Peer: int(cb.role), Proto: protoA, Dest: cb.dest, TTL: cb.ttl, Payload: payload}
			payload++
			switch cb.src {
			case 0:
				e.Src = in.Peers[e.Peer].ID
			case 1:
				e.Src = 40 + r.Intn(3)
			default:
				e.Src = in.Self
			}
			if r.Intn(5) == 0 {
				e.Proto = protoB
			}
			in.Evs = append(in.Evs, e)
			switch r.Intn(12) {
			case 0: // same packet from the peer whose connection type is undetermined
				e2 := e
				e2.Peer = 4
				if cb.src == 0 {
					e2.Src = 14
				}
				e2.Payload = payload
				payload++
				in.Evs = append(in.Evs, e2)
			case 1: // protocol the peer did not announce
				e2 := e
				e2.Peer = 5
				e2.Proto = protoA
				e2.Payload = payload
				payload++
				in.Evs = append(in.Evs, e2)
			case 2: // data protocol without a registered callback
				e2 := e
				e2.Proto = protoC
				e2.Payload = payload
				payload++
				in.Evs = append(in.Evs, e2)
			case 3: // exact duplicate right away
				in.Evs = append(in.Evs, e)
			}
		}
		coq, msg := runNode(in, want)
		emit("onpacket-matrix", coq, msg, map[string]interface{}{"t": "node", "v": in}, "")
	}
	// 5. relay orders: the same broadcasts through 2-4 peers, small pools, fillers in between
	for i := 0; i < c.N(60); i++ {
		in := nodeIn{NB: 1 + r.Intn(4), LB: 1 + r.Intn(4), Self: 1, Cbs: []uint16{protoA}}
		if i%6 == 0 {
			in.NB, in.LB = 20, 500
		}
		np := 2 + r.Intn(3)
		for k := 0; k < np; k++ {
			in.Peers = append(in.Peers, peerSpec{ID: 10 + k, Role: byte(r.Intn(4)), Recv: byte(r.Intn(4)),
				Conn: []byte{network.VerifC33ConnParent, network.VerifC33ConnChildren, network.VerifC33ConnFriend, network.VerifC33ConnOther}[r.Intn(4)],
				Protos: []uint16{protoA}})
		}
		w := (in.NB - 1) * in.LB
		nmsg := 1 + r.Intn(4)
		type m struct {
			src     int
			dest    byte
			payload uint32
		}
		var msgs []m
		for k := 0; k < nmsg; k++ {
			src := 30 + r.Intn(3)
			if r.Intn(2) == 0 {
				src = in.Peers[r.Intn(np)].ID // originated by one of the neighbours
			}
			msgs = append(msgs, m{src, []byte{0, 0, 1, 2}[r.Intn(4)], payload})
			payload++
		}
		rounds := 2 + r.Intn(3)
		for rd := 0; rd < rounds; rd++ {
			order := r.Perm(np)
			for _, pi := range order {
				for _, mm := range msgs {
					if r.Intn(5) == 0 {
						continue
					}
					in.Evs = append(in.Evs, evIn{Peer: pi, Proto: protoA, Src: mm.src, Dest: mm.dest, TTL: 0, Payload: mm.payload})
				}
			}
			// fillers: distinct flooded packets from a validator-originated stream
			nf := 0
			if r.Intn(2) == 0 && w < 40 {
				nf = w + r.Intn(3) - 1
				if nf < 0 {
					nf = 0
				}
			}
			for f := 0; f < nf; f++ {
				in.Evs = append(in.Evs, evIn{Peer: r.Intn(np), Proto: protoA, Src: 60, Dest: 0, TTL: 0, Payload: payload})
				payload++
			}
		}
		if i%10 == 0 && len(in.Evs) > 2 { // a different packet that happens to carry the same hash is treated as a duplicate
			fh := uint64(0x1234567890abcdef) + uint64(i)
			in.Evs[0].Force = &fh
			e := in.Evs[0]
			e.Payload = payload
			payload++
			in.Evs = append(in.Evs, e)
		}
		coq, msg := runNode(in, want)
		emit("onpacket-relay", coq, msg, map[string]interface{}{"t": "node", "v": in}, "")
	}
	// 5b. roles resolved by the real query handshake against a non-empty validator list:
	// a real validator, a peer that merely announces the validator role, a peer announcing nothing,
	// a validator revoked while connected; each originates broadcasts (and relays others')
	for i := 0; i < c.N(12); i++ {
		in := nodeIn{NB: 20, LB: 500, Self: 1, Cbs: []uint16{protoA}}
		claim := func(b byte) *byte { return &b }
		in.Allowed = []int{20, 23}
		if i%2 == 0 {
			in.Allowed2 = []int{20} // 23 is revoked after it connected
		}
		conns := []byte{network.VerifC33ConnParent, network.VerifC33ConnChildren, network.VerifC33ConnFriend, network.VerifC33ConnOther}
		in.Peers = []peerSpec{
			{ID: 20, Conn: conns[r.Intn(4)], Protos: []uint16{protoA}, Claim: claim(2 | byte(r.Intn(2)))}, // validator
			{ID: 21, Conn: conns[r.Intn(4)], Protos: []uint16{protoA}, Claim: claim(2 | byte(r.Intn(2)))}, // self-proclaimed
			{ID: 22, Conn: conns[r.Intn(4)], Protos: []uint16{protoA}, Claim: claim(byte(r.Intn(2)))},     // claims no validator role
			{ID: 23, Conn: conns[r.Intn(4)], Protos: []uint16{protoA}, Claim: claim(2)},                   // validator, revoked in every other case
		}
		order := r.Perm(16)
		for _, x := range order {
			pi := x % 4
			e := evIn{Peer: pi, Proto: protoA, Dest: 0, TTL: 0, Payload: payload}
			payload++
			switch x / 4 {
			case 0, 1: // originator broadcast
				e.Src = in.Peers[pi].ID
			case 2: // relayed broadcast of an outside origin
				e.Src = 70 + r.Intn(3)
			default: // multicast / one-hop from the peer itself
				e.Src = in.Peers[pi].ID
				e.Dest = []byte{1, 2, 255}[r.Intn(3)]
				e.TTL = byte(r.Intn(2))
			}
			in.Evs = append(in.Evs, e)
		}
		coq, msg := runNode(in, want)
		emit("onpacket-claimed-role", coq, msg, map[string]interface{}{"t": "node", "v": in}, "")
	}
	// 5c. concurrency: the same new hash offered by 4-8 callers released together, many rounds
	for i := 0; i < 4; i++ {
		in := concIn{Kind: "pool", N: 4 + 2*(i%3), Rounds: c.N(6000), NB: 20, LB: 500}
		if i == 3 {
			in.NB, in.LB = 3, 4
		}
		coq, msg := runConc(in, want)
		emit("concurrent-pool", coq, msg, map[string]interface{}{"t": "conc", "v": in}, fmt.Sprintf("conc-pool-%d", i))
	}
	for i := 0; i < 3; i++ {
		in := concIn{Kind: "node", N: 4 + 2*i, Rounds: c.N(4000), NB: 20, LB: 500}
		coq, msg := runConc(in, want)
		emit("concurrent-onpacket", coq, msg, map[string]interface{}{"t": "conc", "v": in}, fmt.Sprintf("conc-node-%d", i))
	}
	// 6. relay decision of the protocol handler
	for _, isRelay := range []bool{false, true} {
		for _, ttl := range []byte{0, 1, 2} {
			for _, dest := range []byte{0, 1, 2, 255} {
				in := relayIn{isRelay, ttl, dest}
				coq, msg := runRelay(in)
				emit("relay-decision", coq, msg, map[string]interface{}{"t": "relay", "v": in}, "")
			}
		}
	}
	// canary: a wrong observation the model must flag
	c.Emit(hxlib.Case{Kind: "canary", Canary: true, Coq: "(CPool 2 2 [OpPut 5 true; OpPut 5 true])%Z"})
}

func defaultPoolIn() poolIn {
	in := poolIn{NB: network.VerifC33DefaultNumBucket, LB: network.VerifC33DefaultBucketLen}
	for j := 0; j < 499; j++ {
		in.Ops = append(in.Ops, poolOp{Op: "put", H: uint64(100000 + j)})
	}
	in.Ops = append(in.Ops, poolOp{Op: "put", H: 7})
	for j := 0; j < 9499; j++ {
		in.Ops = append(in.Ops, poolOp{Op: "put", H: uint64(200000 + j)})
	}
	in.Ops = append(in.Ops, poolOp{Op: "put", H: 7}, poolOp{Op: "put", H: 300000}, poolOp{Op: "put", H: 7})
	return in
}

func replay(raw json.RawMessage) string {
	var in struct {
		T string          `json:"t"`
		V json.RawMessage `json:"v"`
	}
	if err := json.Unmarshal(raw, &in); err != nil {
		return "bad replay input: " + err.Error()
	}
	switch in.T {
	case "pool":
		var v poolIn
		json.Unmarshal(in.V, &v)
		_, msg := runPool(v, false)
		return msg
	case "pool-default":
		_, msg := runPool(defaultPoolIn(), false)
		return msg
	case "node":
		var v nodeIn
		json.Unmarshal(in.V, &v)
		_, msg := runNode(v, false)
		return msg
	case "conc":
		var v concIn
		json.Unmarshal(in.V, &v)
		v.Rounds *= 3 // the interleaving is not deterministic: give the replay more rounds
		_, msg := runConc(v, false)
		return msg
	case "relay":
		var v relayIn
		json.Unmarshal(in.V, &v)
		_, msg := runRelay(v)
		return msg
	}
	return "unknown case type " + in.T
}

func main() {
	_ = rand.Int
	hxlib.Main(hxlib.Spec{
		ID: "C33",
		Rule: "PacketPool with 1-5 buckets of 0-6 entries (and the production 20x500): random Put/Contains/Clear streams over small hash alphabets, and a hash re-put after W-2..W+1 distinct accepted hashes (W=(buckets-1)*len) from random fill states; onPacket on a PeerToPeer with stub peers: every (peer role flags 0-3, source = peer / other / self, ttl 0/1/2/255, dest 0/1/2/7/255) combination plus undetermined connection type, unannounced protocol, missing callback, immediate duplicate; the same broadcasts relayed by 2-4 peers in random orders with distinct filler packets around the pool window; peer role flags and announced (recv) role varied independently, roles resolved by a real query handshake against a non-empty validator list incl. a revoked validator; the same new hash / flooded packet offered by 4-8 goroutines released together by a spin barrier for thousands of rounds (PacketPool.Put and onPacket); the relay decision for all (isRelay, ttl, dest); non-trivial = every case; distinct = distinct Coq case term",
		Shard: 80,
		Gen:   gen, Replay: replay,
	})
}
